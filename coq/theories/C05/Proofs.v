(* PV.C05.Proofs — lemmas about the model of the compartmental system. *)
From Coq Require Import QArith ZArith NArith List Bool PArith Arith Lia Permutation Qreduction.
From PV Require Import Base.PyData Base.Expr C05.Model.
Import ListNotations.
Local Open Scope nat_scope.

(* ================================================================================================ *)
(* 1. The boolean equalities decide Leibniz equality                                                *)
(* ================================================================================================ *)
Lemma q_eqb_eq a b : q_eqb a b = true -> a = b.
Proof.
  destruct a as [an ad], b as [bn bd]. unfold q_eqb. cbn [Qnum Qden]. intros H.
  apply andb_prop in H. destruct H as [H1 H2].
  apply Z.eqb_eq in H1. apply Pos.eqb_eq in H2. subst. reflexivity.
Qed.

Lemma q_eqb_refl a : q_eqb a a = true.
Proof. unfold q_eqb. rewrite Z.eqb_refl, Pos.eqb_refl. reflexivity. Qed.

Lemma relop_eqb_eq a b : relop_eqb a b = true -> a = b.
Proof. destruct a, b; cbn; intros H; try discriminate; reflexivity. Qed.
Lemma relop_eqb_refl a : relop_eqb a a = true.
Proof. destruct a; reflexivity. Qed.

Lemma expr_eqb_refl_both :
  (forall a, expr_eqb a a = true) /\ (forall c, cond_eqb c c = true).
Proof.
  apply expr_cond_mut; intros; cbn [expr_eqb cond_eqb];
    repeat match goal with H : _ = true |- _ => rewrite H; clear H end;
    rewrite ?q_eqb_refl, ?Pos.eqb_refl, ?relop_eqb_refl; reflexivity.
Qed.

Lemma expr_eqb_eq_both :
  (forall a b, expr_eqb a b = true -> a = b) /\ (forall c d, cond_eqb c d = true -> c = d).
Proof.
  apply expr_cond_mut; intros;
    match goal with
    | |- _ = ?b => destruct b
    end; cbn [expr_eqb cond_eqb] in *; try discriminate;
    repeat match goal with
           | H : _ && _ = true |- _ => apply andb_prop in H; destruct H
           end;
    repeat match goal with
           | IH : forall b, expr_eqb ?a b = true -> ?a = b, H : expr_eqb ?a _ = true |- _ => apply IH in H; subst
           | IH : forall b, cond_eqb ?a b = true -> ?a = b, H : cond_eqb ?a _ = true |- _ => apply IH in H; subst
           | H : q_eqb _ _ = true |- _ => apply q_eqb_eq in H; subst
           | H : Pos.eqb _ _ = true |- _ => apply Pos.eqb_eq in H; subst
           | H : relop_eqb _ _ = true |- _ => apply relop_eqb_eq in H; subst
           end; reflexivity.
Qed.

Lemma expr_eqb_spec a b : expr_eqb a b = true <-> a = b.
Proof. split; [apply expr_eqb_eq_both | intros; subst; apply expr_eqb_refl_both]. Qed.

Lemma oexpr_eqb_spec a b : oexpr_eqb a b = true <-> a = b.
Proof.
  destruct a, b; cbn; try (split; intros; discriminate); [|tauto].
  rewrite expr_eqb_spec. split; intros H; [subst | injection H as H]; auto.
Qed.

Lemma name_compare_eq a b : name_compare a b = Eq <-> a = b.
Proof.
  revert b. induction a as [|x a IH]; destruct b as [|y b]; cbn; try (split; intros; discriminate); [tauto|].
  destruct (N.compare_spec x y) as [E|E|E].
  - subst. rewrite IH. split; intros H; [subst | injection H as H]; auto.
  - split; intros H; [discriminate | injection H as H1 H2; subst; lia].
  - split; intros H; [discriminate | injection H as H1 H2; subst; lia].
Qed.

Lemma name_eqb_spec a b : name_eqb a b = true <-> a = b.
Proof.
  unfold name_eqb. rewrite <- name_compare_eq. destruct (name_compare a b); split; intros; try discriminate; auto.
Qed.

Lemma list_eqb_spec {A} (eqb : A -> A -> bool) :
  (forall x y, eqb x y = true <-> x = y) -> forall a b, list_eqb eqb a b = true <-> a = b.
Proof.
  intros Hs. induction a as [|x a IH]; destruct b as [|y b]; cbn; try (split; intros; discriminate); [tauto|].
  rewrite andb_true_iff, Hs, IH. split; intros H; [destruct H; subst | injection H as H1 H2]; auto.
Qed.

Lemma dose_eqb_spec a b : dose_eqb a b = true <-> a = b.
Proof.
  destruct a, b; cbn; try (split; intros; discriminate);
    rewrite ?andb_true_iff, ?expr_eqb_spec, ?oexpr_eqb_spec, ?Z.eqb_eq.
  - split; intros H; [destruct H; subst | injection H as H1 H2]; auto.
  - split; intros H; [destruct H as [[[H1 H2] H3] H4]; subst | injection H as H1 H2 H3 H4]; auto.
Qed.

Lemma comp_eqb_spec a b : comp_eqb a b = true <-> a = b.
Proof.
  destruct a as [n1 a1 d1 i1 l1 b1], b as [n2 a2 d2 i2 l2 b2]. unfold comp_eqb. cbn.
  rewrite !andb_true_iff, !expr_eqb_spec, name_eqb_spec, (list_eqb_spec dose_eqb dose_eqb_spec).
  split; intros H; [destruct H as [[[[[H1 H2] H3] H4] H5] H6]; subst | injection H as H1 H2 H3 H4 H5 H6]; auto.
  repeat split; assumption.
Qed.

Lemma node_eqb_spec a b : node_eqb a b = true <-> a = b.
Proof.
  destruct a, b; cbn; try (split; intros; discriminate); [tauto|].
  rewrite comp_eqb_spec. split; intros H; [subst | injection H as H]; auto.
Qed.

Lemma node_eqb_refl a : node_eqb a a = true.
Proof. apply node_eqb_spec. reflexivity. Qed.
Lemma comp_eqb_refl a : comp_eqb a a = true.
Proof. apply comp_eqb_spec. reflexivity. Qed.

Lemma node_eqb_false a b : node_eqb a b = false <-> a <> b.
Proof.
  split; intros H.
  - intros E. apply node_eqb_spec in E. congruence.
  - destruct (node_eqb a b) eqn:E; [apply node_eqb_spec in E; contradiction | reflexivity].
Qed.
Lemma comp_eqb_false a b : comp_eqb a b = false <-> a <> b.
Proof.
  split; intros H.
  - intros E. apply comp_eqb_spec in E. congruence.
  - destruct (comp_eqb a b) eqn:E; [apply comp_eqb_spec in E; contradiction | reflexivity].
Qed.

Lemma memc_In c l : memc c l = true <-> In c l.
Proof.
  unfold memc. rewrite existsb_exists. split.
  - intros [y [Hy E]]. apply comp_eqb_spec in E. subst. exact Hy.
  - intros H. exists c. split; [exact H | apply comp_eqb_refl].
Qed.

Lemma memc_false c l : memc c l = false <-> ~ In c l.
Proof.
  rewrite <- memc_In. symmetry. apply not_true_iff_false.
Qed.

Lemma has_node_In g n : has_node g n = true <-> In n (nodes g).
Proof.
  unfold has_node, nodes. rewrite existsb_exists, in_map_iff. split.
  - intros [p [Hp E]]. apply node_eqb_spec in E. exists p. split; assumption.
  - intros [p [E Hp]]. exists p. split; [assumption | subst; apply node_eqb_refl].
Qed.

Lemma has_node_false g n : has_node g n = false <-> ~ In n (nodes g).
Proof.
  rewrite <- has_node_In. symmetry. apply not_true_iff_false.
Qed.

(* ================================================================================================ *)
(* 2. Sorting, well-formed graphs                                                                   *)
(* ================================================================================================ *)
Lemma ins_by_name_perm c l : Permutation (ins_by_name c l) (c :: l).
Proof.
  induction l as [|y tl IH]; cbn [ins_by_name]; [reflexivity|].
  destruct (name_ltb (c_name y) (c_name c)); [|reflexivity].
  rewrite IH. apply perm_swap.
Qed.

Lemma sort_by_name_perm l : Permutation (sort_by_name l) l.
Proof.
  induction l as [|x tl IH]; cbn [sort_by_name fold_right]; [constructor|].
  fold (sort_by_name tl). rewrite ins_by_name_perm. constructor. exact IH.
Qed.

Lemma sort_by_name_In c l : In c (sort_by_name l) <-> In c l.
Proof.
  split; apply Permutation_in; [apply sort_by_name_perm | symmetry; apply sort_by_name_perm].
Qed.

Lemma filter_partition_perm {A} (f : A -> bool) l :
  Permutation (filter f l ++ filter (fun x => negb (f x)) l) l.
Proof.
  induction l as [|x tl IH]; cbn [filter]; [constructor|].
  destruct (f x); cbn [negb app].
  - constructor. exact IH.
  - rewrite <- Permutation_middle. constructor. exact IH.
Qed.

Lemma NoDup_app_intro {A} (l1 l2 : list A) :
  NoDup l1 -> NoDup l2 -> (forall x, In x l1 -> ~ In x l2) -> NoDup (l1 ++ l2).
Proof.
  induction l1 as [|a l1 IH]; cbn; intros H1 H2 H; [exact H2|].
  inversion H1 as [|? ? Ha H1']; subst. constructor.
  - rewrite in_app_iff. intros [Hx|Hx]; [contradiction | apply (H a); auto].
  - apply IH; auto.
Qed.

Definition WF (g : graph) : Prop :=
  (exists tl, g = (Out, []) :: tl) /\ NoDup (nodes g) /\
  (forall u a, In (u, a) g -> NoDup (map fst a) /\ forall v r, In (v, r) a -> In v (nodes g)).

Lemma nodup_nodes_spec l : nodup_nodes l = true <-> NoDup l.
Proof.
  induction l as [|n tl IH]; cbn [nodup_nodes].
  - split; intros; [constructor | reflexivity].
  - rewrite andb_true_iff, negb_true_iff, IH. split.
    + intros [H1 H2]. constructor; [|exact H2]. intros Hin.
      assert (E : existsb (node_eqb n) tl = true).
      { apply existsb_exists. exists n. split; [exact Hin | apply node_eqb_refl]. }
      congruence.
    + intros H. inversion H as [|? ? Hn Ht]; subst. split; [|exact Ht].
      destruct (existsb (node_eqb n) tl) eqn:E; [|reflexivity].
      apply existsb_exists in E. destruct E as [y [Hy E]]. apply node_eqb_spec in E. subst. contradiction.
Qed.

Lemma wf_graph_WF g : wf_graph g = true <-> WF g.
Proof.
  unfold wf_graph, WF. rewrite !andb_true_iff, nodup_nodes_spec, forallb_forall. split.
  - intros [[H1 H2] H3]. split; [|split; [exact H2|]].
    + destruct g as [|[[|c] [|e a]] tl]; try discriminate. exists tl. reflexivity.
    + intros u a Hin. specialize (H3 _ Hin). cbn [fst snd] in H3. apply andb_prop in H3. destruct H3 as [H3 H4].
      split; [apply nodup_nodes_spec; exact H3|].
      intros v r Hv. rewrite forallb_forall in H4. specialize (H4 _ Hv). apply has_node_In in H4. exact H4.
  - intros [[tl E] [H2 H3]]. split; [split; [subst; reflexivity | exact H2]|].
    intros [u a] Hin. cbn [fst snd]. destruct (H3 _ _ Hin) as [H4 H5]. apply andb_true_intro. split.
    + apply nodup_nodes_spec. exact H4.
    + apply forallb_forall. intros [v r] Hv. apply has_node_In. cbn [fst]. eapply H5. exact Hv.
Qed.

Lemma comps_In c g : In c (comps g) <-> In (Cmt c) (nodes g).
Proof.
  induction g as [|[[|c'] a] tl IH]; cbn [comps nodes map fst In] in *.
  - tauto.
  - rewrite IH. split; [auto | intros [H|H]; [discriminate | exact H]].
  - rewrite IH. split; [intros [H|H]; [left; congruence | auto] | intros [H|H]; [left; congruence | auto]].
Qed.

Lemma comps_NoDup g : NoDup (nodes g) -> NoDup (comps g).
Proof.
  induction g as [|[[|c'] a] tl IH]; cbn [comps nodes map fst]; intros H.
  - constructor.
  - inversion H; subst. apply IH. assumption.
  - inversion H as [|? ? Hn Ht]; subst. constructor; [|apply IH; exact Ht].
    rewrite comps_In. exact Hn.
Qed.

Lemma adj_of_cases g u : In (u, adj_of g u) g \/ (adj_of g u = [] /\ ~ In u (nodes g)).
Proof.
  induction g as [|[w a] tl IH]; cbn [adj_of nodes map fst In].
  - right. split; [reflexivity | tauto].
  - destruct (node_eqb w u) eqn:E.
    + apply node_eqb_spec in E. subst. left. left. reflexivity.
    + apply node_eqb_false in E. destruct IH as [IH|[IH1 IH2]]; [left; right; exact IH|].
      right. split; [exact IH1|]. intros [H|H]; [contradiction | apply IH2; exact H].
Qed.

Lemma adj_comps_In c a : In c (adj_comps a) <-> exists r, In (Cmt c, r) a.
Proof.
  induction a as [|[[|c'] r'] tl IH]; cbn [adj_comps In].
  - split; [tauto | intros [r []]].
  - rewrite IH. split; intros [r H]; exists r; [right; exact H | destruct H as [H|H]; [discriminate | exact H]].
  - rewrite IH. split.
    + intros [H|[r H]]; [subst; exists r'; left; reflexivity | exists r; right; exact H].
    + intros [r [H|H]]; [left; congruence | right; exists r; exact H].
Qed.

Lemma nbrs_in_comps g p c : WF g -> In c (nbrs g p) -> In c (comps g).
Proof.
  intros [_ [_ H]] Hc. unfold nbrs in Hc. apply (proj1 (sort_by_name_In _ _)) in Hc. apply (proj1 (adj_comps_In _ _)) in Hc.
  destruct Hc as [r Hr]. destruct (adj_of_cases g (Cmt p)) as [Hin|[E _]].
  - apply comps_In. eapply H; eassumption.
  - rewrite E in Hr. destruct Hr.
Qed.

(* ================================================================================================ *)
(* 3. bfs                                                                                           *)
(* ================================================================================================ *)
Lemma visit_fold l : forall q s q' s',
  fold_left visit l (q, s) = (q', s') ->
  (forall c, In c s' <-> In c s \/ In c l) /\ (forall c, In c q' -> In c q \/ In c l) /\
  (NoDup s -> NoDup s') /\ (exists s2, s' = s ++ s2).
Proof.
  induction l as [|x tl IH]; intros q s q' s' H; cbn [fold_left] in H.
  - injection H as <- <-. split; [|split; [|split]].
    + intros c. cbn [In]. tauto.
    + intros c Hc. left. exact Hc.
    + tauto.
    + exists []. rewrite app_nil_r. reflexivity.
  - unfold visit at 2 in H. destruct (memc x s) eqn:E.
    + destruct (IH _ _ _ _ H) as [H1 [H2 [H3 [s2 H4]]]]. apply memc_In in E. repeat split.
      * intros Hc. apply H1 in Hc. cbn [In]. tauto.
      * intros [Hc|[Hc|Hc]]; apply H1; subst; auto.
      * intros c Hc. apply H2 in Hc. cbn [In]. tauto.
      * exact H3.
      * exists s2. exact H4.
    + destruct (IH _ _ _ _ H) as [H1 [H2 [H3 [s2 H4]]]]. apply memc_false in E. repeat split.
      * intros Hc. apply H1 in Hc. rewrite in_app_iff in Hc. cbn [In] in *. tauto.
      * intros Hc. apply H1. rewrite in_app_iff. cbn [In] in *. tauto.
      * intros c Hc. apply H2 in Hc. rewrite in_app_iff in Hc. cbn [In] in *. tauto.
      * intros Hs. apply H3. apply NoDup_app_intro; [exact Hs | constructor; [tauto | constructor]|].
        intros y Hy [Hx|[]]. subst. contradiction.
      * exists ([x] ++ s2). rewrite H4, app_assoc. reflexivity.
Qed.

Lemma bfs_loop_spec g (P : comp -> Prop) :
  (forall p c, In c (nbrs g p) -> P c) ->
  forall fuel queue seen,
    (forall c, In c seen -> P c) ->
    (forall c, In c (bfs_loop g fuel queue seen) -> P c) /\
    (NoDup seen -> NoDup (bfs_loop g fuel queue seen)) /\
    (forall c, In c seen -> In c (bfs_loop g fuel queue seen)).
Proof.
  intros HP. induction fuel as [|f IH]; intros queue seen Hs; cbn [bfs_loop].
  - repeat split; auto.
  - destruct queue as [|p q]; [repeat split; auto|].
    destruct (fold_left visit (nbrs g p) (q, seen)) as [q' seen'] eqn:E.
    destruct (visit_fold _ _ _ _ _ E) as [H1 [_ [H3 _]]].
    assert (Hs' : forall c, In c seen' -> P c).
    { intros c Hc. apply H1 in Hc. destruct Hc as [Hc|Hc]; [apply Hs; exact Hc | eapply HP; exact Hc]. }
    destruct (IH q' seen' Hs') as [I1 [I2 I3]]. repeat split.
    + exact I1.
    + intros Hn. apply I2, H3, Hn.
    + intros c Hc. apply I3, H1. left. exact Hc.
Qed.

Lemma bfs_facts g src :
  WF g -> In src (comps g) ->
  In src (bfs g src) /\ NoDup (bfs g src) /\ (forall c, In c (bfs g src) -> In c (comps g)).
Proof.
  intros Hwf Hsrc. unfold bfs.
  destruct (bfs_loop_spec g (fun c => In c (comps g)) (fun p c => nbrs_in_comps g p c Hwf)
              (S (length g)) [src] [src]) as [H1 [H2 H3]].
  - intros c [Hc|[]]. subst. exact Hsrc.
  - repeat split.
    + apply H3. left. reflexivity.
    + apply H2. constructor; [intros [] | constructor].
    + exact H1.
Qed.

(* ================================================================================================ *)
(* 4. _order_compartments is a permutation of the compartments                                      *)
(* ================================================================================================ *)
Lemma remove_first_perm c l : In c l -> Permutation l (c :: remove_first c l).
Proof.
  induction l as [|x tl IH]; cbn [remove_first In]; [tauto|]. intros H.
  destruct (comp_eqb x c) eqn:E.
  - apply comp_eqb_spec in E. subst. reflexivity.
  - apply comp_eqb_false in E. destruct H as [H|H]; [contradiction|].
    rewrite (IH H) at 1. apply perm_swap.
Qed.

Lemma remove_first_length c l : length (remove_first c l) <= length l.
Proof.
  induction l as [|x tl IH]; cbn [remove_first length]; [lia|]. destruct (comp_eqb x c); cbn [length]; lia.
Qed.

Definition pend (ns : list comp) (cmp : comp) : list comp := if memc cmp ns then [] else [cmp].

Lemma absorb_inv (U : list comp) cmp : forall conn ns rm ns' rm',
  (forall c, In c conn -> In c U) ->
  Permutation (ns ++ rm ++ pend ns cmp) U ->
  fold_left (absorb cmp) conn (ns, rm) = (ns', rm') ->
  Permutation (ns' ++ rm' ++ pend ns' cmp) U /\ (forall c, In c ns -> In c ns') /\
  (forall c, In c conn -> In c ns') /\ length rm' <= length rm.
Proof.
  induction conn as [|x tl IH]; intros ns rm ns' rm' Hc HP H; cbn [fold_left] in H.
  - injection H as <- <-. repeat split; auto. intros c [].
  - unfold absorb at 2 in H. destruct (memc x ns) eqn:E.
    + destruct (IH _ _ _ _ (fun c h => Hc c (or_intror h)) HP H) as [I1 [I2 [I3 I4]]].
      repeat split; auto. intros c [Hx|Hx]; [subst; apply I2, memc_In, E | apply I3, Hx].
    + assert (HxU : In x U) by (apply Hc; left; reflexivity).
      assert (Hx : In x (rm ++ pend ns cmp)).
      { apply (Permutation_in _ (Permutation_sym HP)) in HxU. rewrite in_app_iff in HxU.
        destruct HxU as [Hx|Hx]; [apply memc_In in Hx; congruence | exact Hx]. }
      destruct (comp_eqb x cmp) eqn:Ec.
      * apply comp_eqb_spec in Ec. subst x.
        assert (HP' : Permutation ((ns ++ [cmp]) ++ rm ++ pend (ns ++ [cmp]) cmp) U).
        { unfold pend in *. rewrite E in HP.
          assert (Em : memc cmp (ns ++ [cmp]) = true) by (apply memc_In, in_or_app; right; left; reflexivity).
          rewrite Em, app_nil_r. rewrite <- HP. rewrite <- app_assoc.
          apply Permutation_app_head. apply Permutation_app_comm. }
        destruct (IH _ _ _ _ (fun c h => Hc c (or_intror h)) HP' H) as [I1 [I2 [I3 I4]]].
        repeat split; auto.
        -- intros c Hin. apply I2, in_or_app. left. exact Hin.
        -- intros c [Hx'|Hx']; [subst; apply I2, in_or_app; right; left; reflexivity | apply I3, Hx'].
      * apply comp_eqb_false in Ec.
        assert (Hxr : In x rm).
        { rewrite in_app_iff in Hx. destruct Hx as [Hx|Hx]; [exact Hx|].
          unfold pend in Hx. destruct (memc cmp ns); [destruct Hx | destruct Hx as [Hx|[]]; congruence]. }
        assert (Ep : pend (ns ++ [x]) cmp = pend ns cmp).
        { unfold pend. destruct (memc cmp ns) eqn:Em.
          - apply memc_In in Em. assert (Em' : memc cmp (ns ++ [x]) = true) by (apply memc_In, in_or_app; left; exact Em).
            rewrite Em'. reflexivity.
          - apply memc_false in Em. assert (Em' : memc cmp (ns ++ [x]) = false).
            { apply memc_false. rewrite in_app_iff. intros [Hm|[Hm|[]]]; [contradiction | congruence]. }
            rewrite Em'. reflexivity. }
        assert (HP' : Permutation ((ns ++ [x]) ++ remove_first x rm ++ pend (ns ++ [x]) cmp) U).
        { rewrite Ep, <- HP, <- app_assoc. apply Permutation_app_head. cbn [app].
          rewrite (remove_first_perm x rm Hxr) at 2. reflexivity. }
        destruct (IH _ _ _ _ (fun c h => Hc c (or_intror h)) HP' H) as [I1 [I2 [I3 I4]]].
        repeat split; auto.
        -- intros c Hin. apply I2, in_or_app. left. exact Hin.
        -- intros c [Hx'|Hx']; [subst; apply I2, in_or_app; right; left; reflexivity | apply I3, Hx'].
        -- pose proof (remove_first_length x rm). lia.
Qed.

Lemma order_loop_perm g (U : list comp) :
  NoDup U ->
  (forall c, In c U -> In c (bfs g c) /\ forall c', In c' (bfs g c) -> In c' U) ->
  forall fuel rem ns, length rem <= fuel -> Permutation (ns ++ rem) U ->
    Permutation (order_loop g fuel rem ns) U.
Proof.
  intros HU Hb. induction fuel as [|f IH]; intros rem ns Hl HP; cbn [order_loop].
  - destruct rem; [|cbn in Hl; lia]. rewrite app_nil_r in HP. exact HP.
  - destruct rem as [|cmp rm]; [rewrite app_nil_r in HP; exact HP|].
    destruct (fold_left (absorb cmp) (bfs g cmp) (ns, rm)) as [ns' rm'] eqn:E.
    assert (HcU : In cmp U).
    { apply (Permutation_in _ HP), in_or_app. right. left. reflexivity. }
    assert (Hnin : ~ In cmp ns).
    { assert (Hnd : NoDup (ns ++ cmp :: rm)) by (apply (Permutation_NoDup (Permutation_sym HP)), HU).
      apply NoDup_remove_2 in Hnd. intros Hin. apply Hnd, in_or_app. left. exact Hin. }
    assert (HP0 : Permutation (ns ++ rm ++ pend ns cmp) U).
    { unfold pend. apply memc_false in Hnin. rewrite Hnin. rewrite <- HP.
      apply Permutation_app_head. symmetry. apply Permutation_cons_append. }
    destruct (Hb _ HcU) as [Hself Hsub].
    destruct (absorb_inv U cmp _ _ _ _ _ Hsub HP0 E) as [I1 [I2 [I3 I4]]].
    apply IH.
    + cbn [length] in Hl. lia.
    + unfold pend in I1. assert (Em : memc cmp ns' = true) by (apply memc_In, I3, Hself).
      rewrite Em, app_nil_r in I1. exact I1.
Qed.

Lemma removelast_In {A} (x : A) l : In x (removelast l) -> In x l.
Proof.
  induction l as [|a tl IH]; cbn [removelast]; [tauto|]. destruct tl as [|b tl']; [intros []|].
  intros [H|H]; [left; exact H | right; apply IH; exact H].
Qed.

Lemma last_In {A} (d : A) l : l <> [] -> In (last l d) l.
Proof.
  induction l as [|a tl IH]; [congruence|]. intros _. cbn [last]. destruct tl as [|b tl']; [left; reflexivity|].
  right. apply IH. discriminate.
Qed.

Lemma dosing_fold_In central cs : forall acc c,
  In c (fold_left (dosing_step central) cs acc) -> In c acc \/ In c cs.
Proof.
  induction cs as [|nd tl IH]; intros acc c H; cbn [fold_left] in H; [left; exact H|].
  apply IH in H. destruct H as [H|H]; [|right; right; exact H].
  unfold dosing_step in H. destruct (doses_prop nd); [left; exact H|].
  destruct (negb (name_eqb (c_name nd) (c_name central))).
  - destruct (2 <=? length acc) eqn:E.
    + rewrite !in_app_iff in H. destruct H as [H|[H|H]].
      * left. apply removelast_In. exact H.
      * destruct H as [H|[]]. right. left. exact H.
      * destruct H as [H|[]]. subst c. left. apply last_In. apply Nat.leb_le in E.
        destruct acc; [cbn in E; lia | discriminate].
    + destruct H as [H|H]; [right; left; exact H | left; exact H].
  - rewrite in_app_iff in H. destruct H as [H|[H|[]]]; [left; exact H | right; left; exact H].
Qed.

Lemma dosing_in_comps g l c : dosing_compartments g = Some l -> In c l -> In c (comps g).
Proof.
  unfold dosing_compartments. destruct (existsb has_doses (sort_by_name (comps g))); [|discriminate].
  destruct (central_compartment g) as [cen|]; [|discriminate]. intros H Hc. injection H as <-.
  apply dosing_fold_In in Hc. destruct Hc as [[]|Hc]. apply (proj1 (sort_by_name_In _ _)) in Hc. exact Hc.
Qed.

Lemma split_rest_perm (ns U : list comp) :
  NoDup ns -> NoDup U -> (forall c, In c ns -> In c U) ->
  Permutation (ns ++ filter (fun c => negb (memc c ns)) U) U.
Proof.
  intros Hn HU Hsub. apply NoDup_Permutation.
  - apply NoDup_app_intro; [exact Hn | apply NoDup_filter, HU|].
    intros x Hx Hf. apply filter_In in Hf. destruct Hf as [_ Hf]. apply negb_true_iff, memc_false in Hf. contradiction.
  - exact HU.
  - intros x. rewrite in_app_iff, filter_In, negb_true_iff. split.
    + intros [H|[H _]]; [apply Hsub, H | exact H].
    + intros H. destruct (memc x ns) eqn:E; [left; apply memc_In, E | right; split; [exact H | reflexivity]].
Qed.

Theorem order_perm_lemma g : WF g -> Permutation (order g) (comps g).
Proof.
  intros Hwf. assert (HU : NoDup (comps g)) by (apply comps_NoDup, Hwf).
  unfold order. destruct (dosing_compartments g) as [[|d dl]|] eqn:Ed; try apply sort_by_name_perm.
  assert (Hd : In d (comps g)) by (eapply dosing_in_comps; [exact Ed | left; reflexivity]).
  destruct (bfs_facts g d Hwf Hd) as [B1 [B2 B3]].
  apply order_loop_perm.
  - exact HU.
  - intros c Hc. destruct (bfs_facts g c Hwf Hc) as [C1 [_ C3]]. split; assumption.
  - lia.
  - eapply Permutation_trans; [|apply (split_rest_perm (bfs g d) (comps g) B2 HU B3)].
    apply Permutation_app_head.
    eapply Permutation_trans; [apply Permutation_app; apply sort_by_name_perm | apply filter_partition_perm].
Qed.

(* ================================================================================================ *)
(* 5. Evaluation: eqs = M.A + u entrywise, the diagonal, mass balance                               *)
(* ================================================================================================ *)
(* [eval] reduces every intermediate result with Qred, so values are related by Qeq, not by eq:
   [ev r fi e q] = "e is defined in r and its value is (Qeq to) q". *)
Definition ev (r : env) (fi : finterp) (e : expr) (q : Q) : Prop :=
  exists q', eval r fi e = Some q' /\ (q' == q)%Q.

Definition qsum (l : list Q) : Q := fold_right Qplus 0%Q l.

Lemma ev_of_eval r fi e q : eval r fi e = Some q -> ev r fi e q.
Proof. intros H. exists q. split; [exact H | reflexivity]. Qed.

Lemma ev_compat r fi e x y : ev r fi e x -> (x == y)%Q -> ev r fi e y.
Proof. intros [q [H1 H2]] E. exists q. split; [exact H1 | rewrite H2; exact E]. Qed.

Lemma ev_unique r fi e x y : ev r fi e x -> ev r fi e y -> (x == y)%Q.
Proof. intros [q [H1 H2]] [q' [H3 H4]]. rewrite H1 in H3. injection H3 as <-. rewrite <- H2, H4. reflexivity. Qed.

Lemma ev_num r fi q : ev r fi (Num q) q.
Proof. apply ev_of_eval. reflexivity. Qed.

Lemma ev_add r fi a b x y : ev r fi a x -> ev r fi b y -> ev r fi (Add a b) (x + y)%Q.
Proof.
  intros [p [H1 H2]] [q [H3 H4]]. exists (Qred (p + q)). split.
  - cbn [eval]. rewrite H1, H3. reflexivity.
  - rewrite Qred_correct, H2, H4. reflexivity.
Qed.

Lemma ev_mul r fi a b x y : ev r fi a x -> ev r fi b y -> ev r fi (Mul a b) (x * y)%Q.
Proof.
  intros [p [H1 H2]] [q [H3 H4]]. exists (Qred (p * q)). split.
  - cbn [eval]. rewrite H1, H3. reflexivity.
  - rewrite Qred_correct, H2, H4. reflexivity.
Qed.

Lemma ev_neg r fi a x : ev r fi a x -> ev r fi (Neg a) (- x)%Q.
Proof.
  intros [p [H1 H2]]. exists (- p)%Q. split.
  - cbn [eval]. rewrite H1. reflexivity.
  - rewrite H2. reflexivity.
Qed.

(* a left fold of Add over a list of terms *)
Lemma ev_fold_add {A} r fi (f : A -> expr) (v : A -> Q) : forall l init a0,
  ev r fi init a0 -> (forall x, In x l -> ev r fi (f x) (v x)) ->
  ev r fi (fold_left (fun acc x => Add acc (f x)) l init) (a0 + qsum (map v l))%Q.
Proof.
  induction l as [|x tl IH]; intros init a0 H0 H; cbn [fold_left map qsum fold_right].
  - eapply ev_compat; [exact H0 | ring].
  - eapply ev_compat.
    + apply (IH (Add init (f x)) (a0 + v x)%Q).
      * apply ev_add; [exact H0 | apply H; left; reflexivity].
      * intros y Hy. apply H. right. exact Hy.
    + fold (qsum (map v tl)). ring.
Qed.

(* ---- finite sums over Q -------------------------------------------------------------------------- *)
Lemma qsum_ext {A} (f g : A -> Q) l : (forall x, In x l -> (f x == g x)%Q) -> (qsum (map f l) == qsum (map g l))%Q.
Proof.
  induction l as [|x tl IH]; intros H; cbn [map qsum fold_right]; [reflexivity|].
  fold (qsum (map f tl)) (qsum (map g tl)). rewrite (H x (or_introl eq_refl)), IH; [reflexivity|].
  intros y Hy. apply H. right. exact Hy.
Qed.

Lemma qsum_plus {A} (f g : A -> Q) l : (qsum (map (fun x => f x + g x) l) == qsum (map f l) + qsum (map g l))%Q.
Proof.
  induction l as [|x tl IH]; cbn [map qsum fold_right]; [ring|].
  fold (qsum (map f tl)) (qsum (map g tl)) (qsum (map (fun x => f x + g x)%Q tl)). rewrite IH. ring.
Qed.

Lemma qsum_scale {A} (f : A -> Q) (c : Q) l : (qsum (map (fun x => f x * c) l) == qsum (map f l) * c)%Q.
Proof.
  induction l as [|x tl IH]; cbn [map qsum fold_right]; [ring|].
  fold (qsum (map f tl)) (qsum (map (fun x => f x * c)%Q tl)). rewrite IH. ring.
Qed.

Lemma qsum_opp {A} (f : A -> Q) l : (qsum (map (fun x => - f x) l) == - qsum (map f l))%Q.
Proof.
  induction l as [|x tl IH]; cbn [map qsum fold_right]; [ring|].
  fold (qsum (map f tl)) (qsum (map (fun x => - f x)%Q tl)). rewrite IH. ring.
Qed.

Lemma qsum_zero {A} (l : list A) : (qsum (map (fun _ => 0%Q) l) == 0)%Q.
Proof. induction l as [|x tl IH]; cbn [map qsum fold_right]; [reflexivity|]. fold (qsum (map (fun _ => 0%Q) tl)). rewrite IH. ring. Qed.

Lemma qsum_swap {A B} (f : A -> B -> Q) (l1 : list A) (l2 : list B) :
  (qsum (map (fun i => qsum (map (fun j => f i j) l2)) l1) == qsum (map (fun j => qsum (map (fun i => f i j) l1)) l2))%Q.
Proof.
  induction l1 as [|x tl IH]; cbn [map qsum fold_right].
  - rewrite qsum_zero. reflexivity.
  - fold (qsum (map (fun i => qsum (map (fun j => f i j) l2)) tl)). rewrite IH.
    rewrite <- qsum_plus. apply qsum_ext. intros j _. reflexivity.
Qed.

(* sum over an index range of a function that is replaced at one index *)
Lemma qsum_replace_at (f : nat -> Q) (d : Q) (j : nat) : forall n s, s <= j < s + n ->
  (qsum (map (fun i => if Nat.eqb i j then d else f i) (seq s n)) == d + qsum (map f (seq s n)) - f j)%Q.
Proof.
  induction n as [|n IH]; intros s Hj; [lia|]. cbn [seq map qsum fold_right].
  fold (qsum (map f (seq (S s) n))) (qsum (map (fun i => if Nat.eqb i j then d else f i) (seq (S s) n))).
  destruct (Nat.eqb s j) eqn:E.
  - apply Nat.eqb_eq in E. subst s.
    rewrite (qsum_ext (fun i => if Nat.eqb i j then d else f i) f).
    + ring.
    + intros x Hx. apply in_seq in Hx. destruct (Nat.eqb x j) eqn:E'; [apply Nat.eqb_eq in E'; lia | reflexivity].
  - apply Nat.eqb_neq in E. rewrite IH by lia. ring.
Qed.

(* ---- eqs entrywise --------------------------------------------------------------------------------- *)
Lemma eqs_entrywise_lemma g ns r fi i (mv av : nat -> Q) (u : Q) :
  (forall j, j < length ns -> ev r fi (matrix_entry g ns i j) (mv j)) ->
  (forall j, j < length ns -> ev r fi (c_amount (nthc ns j)) (av j)) ->
  ev r fi (c_input (nthc ns i)) u ->
  ev r fi (eq_rhs_on g ns i) (qsum (map (fun j => mv j * av j) (seq 0 (length ns))) + u)%Q.
Proof.
  intros Hm Ha Hu. unfold eq_rhs_on. apply ev_add; [|exact Hu]. unfold row_expr.
  eapply ev_compat.
  - apply (ev_fold_add r fi (fun col => Mul (matrix_entry g ns i col) (c_amount (nthc ns col)))
                       (fun j => mv j * av j)%Q (seq 0 (length ns)) (Num 0%Q) 0%Q (ev_num r fi 0%Q)).
    intros j Hj. apply in_seq in Hj. apply ev_mul; [apply Hm | apply Ha]; lia.
  - ring.
Qed.

(* ---- the diagonal ---------------------------------------------------------------------------------- *)
(* a left fold of Add that skips some elements *)
Lemma ev_fold_add_skip {A} r fi (skip : A -> bool) (f : A -> expr) (v : A -> Q) : forall l init a0,
  ev r fi init a0 -> (forall x, In x l -> skip x = false -> ev r fi (f x) (v x)) ->
  ev r fi (fold_left (fun acc x => if skip x then acc else Add acc (f x)) l init)
     (a0 + qsum (map (fun x => if skip x then 0%Q else v x) l))%Q.
Proof.
  induction l as [|x tl IH]; intros init a0 H0 H; cbn [fold_left map qsum fold_right].
  - eapply ev_compat; [exact H0 | ring].
  - fold (qsum (map (fun x => if skip x then 0%Q else v x) tl)). destruct (skip x) eqn:E.
    + eapply ev_compat; [apply (IH init a0 H0); intros y Hy; apply H; right; exact Hy | ring].
    + eapply ev_compat.
      * apply (IH (Add init (f x)) (a0 + v x)%Q).
        -- apply ev_add; [exact H0 | apply H; [left; reflexivity | exact E]].
        -- intros y Hy. apply H. right. exact Hy.
      * ring.
Qed.

(* kv j : value of the rate of the flow from compartment number i to compartment number j *)
Lemma diag_entry_lemma g ns i r fi (kv : nat -> Q) (ko : Q) :
  (forall j, j < length ns -> j <> i -> ev r fi (get_flow g (Cmt (nthc ns i)) (Cmt (nthc ns j))) (kv j)) ->
  ev r fi (get_flow g (Cmt (nthc ns i)) Out) ko ->
  ev r fi (diag_entry g ns i)
     (- (qsum (map (fun j => if Nat.eqb i j then 0%Q else kv j) (seq 0 (length ns))) + ko))%Q.
Proof.
  intros Hk Ho. unfold diag_entry. eapply ev_compat.
  - apply ev_add; [|apply ev_neg; exact Ho].
    apply (ev_fold_add_skip r fi (Nat.eqb i) (fun j => Neg (get_flow g (Cmt (nthc ns i)) (Cmt (nthc ns j))))
                            (fun j => - kv j)%Q (seq 0 (length ns)) (Num 0%Q) 0%Q (ev_num r fi 0%Q)).
    intros j Hj E. apply in_seq in Hj. apply Nat.eqb_neq in E. apply ev_neg, Hk; lia.
  - rewrite (qsum_ext (fun j => if Nat.eqb i j then 0%Q else (- kv j)%Q) (fun j => (- (if Nat.eqb i j then 0%Q else kv j))%Q))
      by (intros j _; destruct (Nat.eqb i j); ring).
    rewrite qsum_opp. ring.
Qed.

Lemma nthc_In ns j : j < length ns -> In (nthc ns j) ns.
Proof. intros H. unfold nthc. apply nth_In. exact H. Qed.

Lemma qsum_map_nth (f : comp -> Q) ns : (qsum (map f ns) == qsum (map (fun i => f (nthc ns i)) (seq 0 (length ns))))%Q.
Proof.
  assert (H : forall s, (qsum (map f ns) == qsum (map (fun i => f (nthc ns (i - s))) (seq s (length ns))))%Q).
  { induction ns as [|x tl IH]; intros s; cbn [length seq map qsum fold_right]; [reflexivity|].
    fold (qsum (map f tl)) (qsum (map (fun i => f (nthc (x :: tl) (i - s))) (seq (S s) (length tl)))).
    rewrite Nat.sub_diag. cbn [nthc nth]. rewrite (IH (S s)).
    apply Qplus_comp; [reflexivity|]. apply qsum_ext. intros i Hi. apply in_seq in Hi.
    unfold nthc. replace (i - s) with (S (i - S s)) by lia. reflexivity. }
  rewrite (H 0). apply qsum_ext. intros i _. rewrite Nat.sub_0_r. reflexivity.
Qed.

(* ---- mass balance ---------------------------------------------------------------------------------- *)
Definition total_rhs_on (g : graph) (ns : list comp) : expr :=
  fold_left Add (map (eq_rhs_on g ns) (seq 0 (length ns))) (Num 0%Q).

Lemma fold_left_Add_map {A} (f : A -> expr) l init :
  fold_left Add (map f l) init = fold_left (fun acc x => Add acc (f x)) l init.
Proof. revert init. induction l as [|x tl IH]; intros init; cbn [map fold_left]; [reflexivity | apply IH]. Qed.

(* kv j i : value of the rate of the flow from compartment number j to compartment number i (j <> i) *)
Lemma matrix_entry_value g ns r fi (kv : nat -> nat -> Q) (ko : nat -> Q) :
  let n := length ns in
  (forall i j, i < n -> j < n -> i <> j -> ev r fi (get_flow g (Cmt (nthc ns j)) (Cmt (nthc ns i))) (kv j i)) ->
  (forall j, j < n -> ev r fi (get_flow g (Cmt (nthc ns j)) Out) (ko j)) ->
  forall i j, i < n -> j < n ->
    ev r fi (matrix_entry g ns i j)
       (if Nat.eqb i j then (- (qsum (map (fun i' => if Nat.eqb j i' then 0%Q else kv j i') (seq 0 n)) + ko j))%Q else kv j i).
Proof.
  intros n Hk Ho i j Hi Hj. unfold matrix_entry. destruct (Nat.eqb i j) eqn:E.
  - apply (diag_entry_lemma g ns j r fi (fun i' => kv j i') (ko j)).
    + intros i' Hi' Hne. apply Hk; try assumption.
    + apply Ho, Hj.
  - apply Nat.eqb_neq in E. apply Hk; assumption.
Qed.

Lemma mass_balance_general g ns r fi (kv : nat -> nat -> Q) (ko av uv : nat -> Q) :
  let n := length ns in
  (forall i j, i < n -> j < n -> i <> j -> ev r fi (get_flow g (Cmt (nthc ns j)) (Cmt (nthc ns i))) (kv j i)) ->
  (forall j, j < n -> ev r fi (get_flow g (Cmt (nthc ns j)) Out) (ko j)) ->
  (forall j, j < n -> ev r fi (c_amount (nthc ns j)) (av j)) ->
  (forall j, j < n -> ev r fi (c_input (nthc ns j)) (uv j)) ->
  ev r fi (total_rhs_on g ns)
     (qsum (map uv (seq 0 n)) - qsum (map (fun j => ko j * av j) (seq 0 n)))%Q.
Proof.
  intros n Hk Ho Ha Hu.
  set (m := fun i j => if Nat.eqb i j then (- (qsum (map (fun i' => if Nat.eqb j i' then 0%Q else kv j i') (seq 0 n)) + ko j))%Q
                       else kv j i).
  pose proof (matrix_entry_value g ns r fi kv ko Hk Ho) as Hm. fold n in Hm.
  unfold total_rhs_on. rewrite fold_left_Add_map. fold n. eapply ev_compat.
  - apply (ev_fold_add r fi (eq_rhs_on g ns) (fun i => (qsum (map (fun j => (m i j * av j)%Q) (seq 0%nat n)) + uv i)%Q)
                       (seq 0 n) (Num 0%Q) 0%Q (ev_num r fi 0%Q)).
    intros i Hi. apply in_seq in Hi.
    apply (eqs_entrywise_lemma g ns r fi i (m i) av (uv i)); fold n; intros; try apply Hm; try apply Ha; try apply Hu; lia.
  - rewrite qsum_plus, qsum_swap.
    rewrite (qsum_ext (fun j => qsum (map (fun i => (m i j * av j)%Q) (seq 0 n))) (fun j => (- (ko j * av j))%Q)).
    + rewrite qsum_opp. ring.
    + intros j Hj. apply in_seq in Hj. rewrite qsum_scale. unfold m.
      rewrite (qsum_replace_at (fun i => kv j i) _ j n 0) by lia.
      rewrite (qsum_ext (fun i' => if Nat.eqb j i' then 0%Q else kv j i') (fun i' => if Nat.eqb i' j then 0%Q else kv j i'))
        by (intros i' _; rewrite (Nat.eqb_sym j i'); reflexivity).
      rewrite (qsum_replace_at (fun i => kv j i) 0%Q j n 0) by lia. ring.
Qed.

Lemma adj_lookup_In a v r : adj_lookup a v = Some r -> In (v, r) a.
Proof.
  induction a as [|[w x] tl IH]; cbn [adj_lookup]; [discriminate|].
  destruct (node_eqb w v) eqn:E.
  - apply node_eqb_spec in E. intros H. injection H as <-. subst. left. reflexivity.
  - intros H. right. apply IH, H.
Qed.

(* ---- the closed form: no valuations in the statement ----------------------------------------------- *)
Definition total_rhs (g : graph) : expr := fold_left Add (eqs_rhs g) (Num 0%Q).
Definition total_input (g : graph) : expr := fold_left Add (zero_order_inputs g) (Num 0%Q).
Definition total_output (g : graph) : expr :=
  fold_left Add (map (fun c => Mul (get_flow g (Cmt c) Out) (c_amount c)) (order g)) (Num 0%Q).

Definition rates_defined (g : graph) (r : env) (fi : finterp) : Prop :=
  forall u a v e, In (u, a) g -> In (v, e) a -> eval r fi e <> None.
Definition comps_defined (g : graph) (r : env) (fi : finterp) : Prop :=
  forall c, In c (order g) -> eval r fi (c_amount c) <> None /\ eval r fi (c_input c) <> None.

Definition oval (o : option Q) : Q := match o with Some q => q | None => 0%Q end.

Lemma ev_oval r fi e : eval r fi e <> None -> ev r fi e (oval (eval r fi e)).
Proof. intros H. destruct (eval r fi e) as [q|] eqn:E; [|congruence]. apply ev_of_eval. exact E. Qed.

Lemma get_flow_defined g r fi u v : rates_defined g r fi -> eval r fi (get_flow g u v) <> None.
Proof.
  intros H. unfold get_flow. destruct (adj_lookup (adj_of g u) v) as [e|] eqn:E; [|cbn; discriminate].
  apply adj_lookup_In in E. destruct (adj_of_cases g u) as [Hin|[E0 _]].
  - eapply H; eassumption.
  - rewrite E0 in E. destruct E.
Qed.

Lemma total_rhs_unfold g : total_rhs g = total_rhs_on g (order g).
Proof. reflexivity. Qed.

Theorem mass_balance_closed_lemma g r fi :
  rates_defined g r fi -> comps_defined g r fi ->
  exists t i o, eval r fi (total_rhs g) = Some t /\ eval r fi (total_input g) = Some i /\
                eval r fi (total_output g) = Some o /\ (t == i - o)%Q.
Proof.
  intros Hr Hc. set (ns := order g). set (n := length ns).
  set (kv := fun j i => oval (eval r fi (get_flow g (Cmt (nthc ns j)) (Cmt (nthc ns i))))).
  set (ko := fun j => oval (eval r fi (get_flow g (Cmt (nthc ns j)) Out))).
  set (av := fun j => oval (eval r fi (c_amount (nthc ns j)))).
  set (uv := fun j => oval (eval r fi (c_input (nthc ns j)))).
  assert (Ha : forall j, j < n -> ev r fi (c_amount (nthc ns j)) (av j)).
  { intros j Hj. apply ev_oval. apply Hc, nthc_In, Hj. }
  assert (Hu : forall j, j < n -> ev r fi (c_input (nthc ns j)) (uv j)).
  { intros j Hj. apply ev_oval. apply Hc, nthc_In, Hj. }
  assert (Ho : forall j, j < n -> ev r fi (get_flow g (Cmt (nthc ns j)) Out) (ko j)).
  { intros j _. apply ev_oval, get_flow_defined, Hr. }
  assert (Hk : forall i j, i < n -> j < n -> i <> j -> ev r fi (get_flow g (Cmt (nthc ns j)) (Cmt (nthc ns i))) (kv j i)).
  { intros i j _ _ _. apply ev_oval, get_flow_defined, Hr. }
  destruct (mass_balance_general g ns r fi kv ko av uv Hk Ho Ha Hu) as [t [Et Ht]].
  assert (Hi : ev r fi (total_input g) (0 + qsum (map (fun c => oval (eval r fi (c_input c))) ns))%Q).
  { unfold total_input, zero_order_inputs. rewrite fold_left_Add_map. apply ev_fold_add; [apply ev_num|].
    intros c Hin. apply ev_oval, Hc, Hin. }
  assert (Hout : ev r fi (total_output g)
                    (0 + qsum (map (fun c => oval (eval r fi (get_flow g (Cmt c) Out)) * oval (eval r fi (c_amount c))) ns))%Q).
  { unfold total_output. rewrite fold_left_Add_map. apply ev_fold_add; [apply ev_num|].
    intros c Hin. apply ev_mul; apply ev_oval; [apply get_flow_defined, Hr | apply Hc, Hin]. }
  destruct Hi as [i [Ei Hi]]. destruct Hout as [o [Eo Hout]].
  exists t, i, o. repeat split; try assumption.
  rewrite Ht, Hi, Hout. fold n.
  rewrite (qsum_map_nth (fun c => oval (eval r fi (c_input c))) ns).
  rewrite (qsum_map_nth (fun c => (oval (eval r fi (get_flow g (Cmt c) Out)) * oval (eval r fi (c_amount c)))%Q) ns).
  fold n. unfold uv, ko, av. ring.
Qed.

(* ================================================================================================ *)
(* 6. from_dict (to_dict s) = s                                                                     *)
(* ================================================================================================ *)
Lemma dose_dict_roundtrip d : dose_from_dict (dose_to_dict d) = d.
Proof. destruct d; reflexivity. Qed.

Lemma comp_dict_roundtrip c :
  comp_from_dict (c_name c) (c_amount c)
                 (match c_doses c with [] => None | ds => Some (map dose_to_dict ds) end)
                 (c_input c) (c_lag c) (c_bio c) = c.
Proof.
  destruct c as [n a ds i l b]. unfold comp_from_dict. cbn [c_name c_amount c_doses c_input c_lag c_bio].
  f_equal. destruct ds as [|d tl]; [reflexivity|]. rewrite map_map.
  rewrite (map_ext _ (fun x => x)) by apply dose_dict_roundtrip. apply map_id.
Qed.

Definition empties (ns : list node) : graph := map (fun n => (n, @nil (node * expr))) ns.

Lemma nodes_empties ns : nodes (empties ns) = ns.
Proof. unfold nodes, empties. rewrite map_map. cbn [fst]. apply map_id. Qed.

Lemma nodes_app a b : nodes (a ++ b) = nodes a ++ nodes b.
Proof. unfold nodes. apply map_app. Qed.

Lemma from_dict_nodes_cmts : forall ns G cl,
  (forall n, In n ns -> n <> Out) -> NoDup (nodes G ++ ns) ->
  fold_left from_dict_node_step (map node_to_dict ns) (G, cl) = (G ++ empties ns, cl ++ ns).
Proof.
  induction ns as [|n tl IH]; intros G cl Hc Hn; cbn [map fold_left].
  - cbn [empties map]. rewrite !app_nil_r. reflexivity.
  - destruct n as [|c]; [exfalso; apply (Hc Out); [left|]; reflexivity|].
    cbn [node_to_dict from_dict_node_step]. rewrite comp_dict_roundtrip.
    assert (Hnew : has_node G (Cmt c) = false).
    { apply has_node_false. apply NoDup_remove_2 in Hn. intros Hin. apply Hn, in_or_app. left. exact Hin. }
    unfold add_node. rewrite Hnew. rewrite IH.
    + cbn [empties map]. rewrite <- !app_assoc. reflexivity.
    + intros n Hin. apply Hc. right. exact Hin.
    + rewrite nodes_app. cbn [nodes map fst]. rewrite <- app_assoc. exact Hn.
Qed.

Lemma from_dict_nodes_wf g : WF g -> from_dict_nodes (map node_to_dict (nodes g)) = (empties (nodes g), nodes g).
Proof.
  intros [[tl E] [Hn _]]. subst g. cbn [nodes map fst] in *. unfold from_dict_nodes. cbn [map node_to_dict fold_left from_dict_node_step].
  fold (nodes tl) in *. inversion Hn as [|? ? Ho Ht]; subst.
  rewrite from_dict_nodes_cmts.
  - reflexivity.
  - intros n Hin E. subst. contradiction.
  - cbn [empty_builder nodes map fst app]. exact Hn.
Qed.

Lemma nth_index l n : In n l -> nth_error l (index_of l n) = Some n.
Proof.
  induction l as [|x tl IH]; cbn [In index_of]; [tauto|]. intros H.
  destruct (node_eqb x n) eqn:E.
  - apply node_eqb_spec in E. subst. reflexivity.
  - apply node_eqb_false in E. destruct H as [H|H]; [contradiction|]. cbn [nth_error]. apply IH, H.
Qed.

Definition add_edges (G : graph) (es : list (node * node * expr)) : graph :=
  fold_left (fun acc e => add_edge acc (fst (fst e)) (snd (fst e)) (snd e)) es G.

Definition edges_of (p : node * adj) : list (node * node * expr) := map (fun e => (fst p, fst e, snd e)) (snd p).

Lemma from_dict_edges cl : forall es G,
  (forall e, In e es -> In (fst (fst e)) cl /\ In (snd (fst e)) cl) ->
  fold_left (from_dict_step cl) (map (fun e => (index_of cl (fst (fst e)), index_of cl (snd (fst e)), snd e)) es) (Some G)
  = Some (add_edges G es).
Proof.
  induction es as [|[[u v] r] tl IH]; intros G H; cbn [map fold_left add_edges]; [reflexivity|].
  cbn [fst snd from_dict_step]. destruct (H (u, v, r) (or_introl eq_refl)) as [Hu Hv]. cbn [fst snd] in Hu, Hv.
  rewrite (nth_index _ _ Hu), (nth_index _ _ Hv). apply IH. intros e He. apply H. right. exact He.
Qed.

Lemma dict_rates_edges g :
  dict_rates g = map (fun e => (index_of (nodes g) (fst (fst e)), index_of (nodes g) (snd (fst e)), snd e))
                     (flat_map edges_of g).
Proof.
  unfold dict_rates. generalize (nodes g) as ns. intros ns.
  induction g as [|p tl IH]; cbn [flat_map]; [reflexivity|].
  rewrite map_app, IH. f_equal. unfold edges_of. rewrite map_map. reflexivity.
Qed.

Lemma update_adj_mid pre u a post f :
  ~ In u (nodes pre) -> ~ In u (nodes post) ->
  update_adj (pre ++ (u, a) :: post) u f = pre ++ (u, f a) :: post.
Proof.
  intros H1 H2. unfold update_adj. rewrite map_app. cbn [map fst snd]. rewrite node_eqb_refl. f_equal; [|f_equal].
  - rewrite <- (map_id pre) at 2. apply map_ext_in. intros [w x] Hin. cbn [fst].
    destruct (node_eqb w u) eqn:E; [|reflexivity]. apply node_eqb_spec in E. subst.
    exfalso. apply H1. unfold nodes. apply in_map_iff. exists (u, x). split; [reflexivity | exact Hin].
  - rewrite <- (map_id post) at 2. apply map_ext_in. intros [w x] Hin. cbn [fst].
    destruct (node_eqb w u) eqn:E; [|reflexivity]. apply node_eqb_spec in E. subst.
    exfalso. apply H2. unfold nodes. apply in_map_iff. exists (u, x). split; [reflexivity | exact Hin].
Qed.

Lemma adj_set_append a v r : ~ In v (map fst a) -> adj_set a v r = a ++ [(v, r)].
Proof.
  induction a as [|[w x] tl IH]; cbn [adj_set map fst In app]; [reflexivity|]. intros H.
  destruct (node_eqb w v) eqn:E; [apply node_eqb_spec in E; subst; tauto|].
  rewrite IH by tauto. reflexivity.
Qed.

Lemma add_edge_existing G u v r :
  In u (nodes G) -> In v (nodes G) -> add_edge G u v r = update_adj G u (fun a => adj_set a v r).
Proof.
  intros Hu Hv. unfold add_edge, add_node.
  rewrite (proj2 (has_node_In G u) Hu), (proj2 (has_node_In G v) Hv). reflexivity.
Qed.

Lemma add_edges_cons G u v r es : add_edges G ((u, v, r) :: es) = add_edges (add_edge G u v r) es.
Proof. reflexivity. Qed.
Lemma edges_of_cons u v r tl : edges_of (u, (v, r) :: tl) = (u, v, r) :: edges_of (u, tl).
Proof. reflexivity. Qed.

Lemma add_edges_one_node pre u post : forall a2 a1,
  ~ In u (nodes pre) -> ~ In u (nodes post) -> NoDup (map fst (a1 ++ a2)) ->
  (forall v r, In (v, r) a2 -> In v (nodes pre ++ u :: nodes post)) ->
  add_edges (pre ++ (u, a1) :: post) (edges_of (u, a2)) = pre ++ (u, a1 ++ a2) :: post.
Proof.
  induction a2 as [|[v r] tl IH]; intros a1 H1 H2 Hn Hv.
  - rewrite app_nil_r. reflexivity.
  - rewrite edges_of_cons, add_edges_cons. rewrite add_edge_existing.
    + rewrite update_adj_mid by assumption. cbn beta. rewrite adj_set_append.
      * transitivity (pre ++ (u, (a1 ++ [(v, r)]) ++ tl) :: post); [|rewrite <- app_assoc; reflexivity].
        apply IH; [exact H1 | exact H2 | rewrite <- app_assoc; exact Hn|].
        intros v' r' Hin. apply (Hv v' r'). right. exact Hin.
      * rewrite map_app in Hn. cbn [map fst] in Hn. apply NoDup_remove_2 in Hn.
        intros Hin. apply Hn, in_or_app. left. exact Hin.
    + rewrite nodes_app. cbn [nodes map fst]. apply in_or_app. right. left. reflexivity.
    + rewrite nodes_app. cbn [nodes map fst]. apply (Hv v r). left. reflexivity.
Qed.

Lemma add_edges_app G e1 e2 : add_edges G (e1 ++ e2) = add_edges (add_edges G e1) e2.
Proof. unfold add_edges. apply fold_left_app. Qed.

Lemma add_edges_all : forall todo done,
  NoDup (nodes (done ++ todo)) ->
  (forall u a, In (u, a) todo -> NoDup (map fst a) /\ forall v r, In (v, r) a -> In v (nodes (done ++ todo))) ->
  add_edges (done ++ empties (nodes todo)) (flat_map edges_of todo) = done ++ todo.
Proof.
  induction todo as [|[u a] tl IH]; intros done Hn Hw.
  - reflexivity.
  - change (flat_map edges_of ((u, a) :: tl)) with (edges_of (u, a) ++ flat_map edges_of tl).
    change (empties (nodes ((u, a) :: tl))) with ((u, @nil (node * expr)) :: empties (nodes tl)).
    rewrite add_edges_app.
    assert (Hn' : NoDup (nodes done ++ u :: nodes tl)).
    { rewrite nodes_app in Hn. exact Hn. }
    assert (H1 : ~ In u (nodes done)).
    { apply NoDup_remove_2 in Hn'. intros Hin. apply Hn', in_or_app. left. exact Hin. }
    assert (H2 : ~ In u (nodes tl)).
    { apply NoDup_remove_2 in Hn'. intros Hin. apply Hn', in_or_app. right. exact Hin. }
    destruct (Hw u a (or_introl eq_refl)) as [Ha Hv].
    transitivity (add_edges (done ++ (u, [] ++ a) :: empties (nodes tl)) (flat_map edges_of tl)).
    { f_equal. apply add_edges_one_node.
      - exact H1.
      - rewrite nodes_empties. exact H2.
      - exact Ha.
      - intros v r Hvr. rewrite nodes_empties. specialize (Hv v r Hvr). rewrite nodes_app in Hv. exact Hv. }
    cbn [app].
    transitivity ((done ++ [(u, a)]) ++ tl); [|rewrite <- app_assoc; reflexivity].
    transitivity (add_edges ((done ++ [(u, a)]) ++ empties (nodes tl)) (flat_map edges_of tl));
      [rewrite <- app_assoc; reflexivity|].
    apply IH.
    + rewrite <- app_assoc. exact Hn.
    + intros u' a' Hin. destruct (Hw u' a' (or_intror Hin)) as [Ha' Hv']. split; [exact Ha'|].
      intros v r Hvr. rewrite <- app_assoc. eapply Hv'. exact Hvr.
Qed.

Theorem dict_roundtrip_lemma g t : WF g -> from_dict (to_dict (g, t)) = Some (g, t).
Proof.
  intros Hwf. unfold from_dict, to_dict. cbn [dd_comps dd_rates dd_t].
  rewrite (from_dict_nodes_wf g Hwf), dict_rates_edges, from_dict_edges.
  - destruct Hwf as [_ [Hn Hw]]. pose proof (add_edges_all g [] Hn Hw) as H. cbn [app] in H. rewrite H. reflexivity.
  - destruct Hwf as [_ [_ Hw]]. intros [[u v] r] Hin. cbn [fst snd]. apply in_flat_map in Hin.
    destruct Hin as [[u' a] [Hp He]]. unfold edges_of in He. cbn [fst snd] in He. apply in_map_iff in He.
    destruct He as [[v' r'] [E Hvr]]. cbn [fst snd] in E. injection E as -> -> ->.
    split.
    + unfold nodes. apply in_map_iff. exists (u, a). split; [reflexivity | exact Hp].
    + destruct (Hw _ _ Hp) as [_ Hv]. eapply Hv. exact Hvr.
Qed.

(* ================================================================================================ *)
(* 7. Every builder operation keeps the graph well formed                                           *)
(* ================================================================================================ *)
Lemma WF_empty : WF empty_builder.
Proof.
  split; [exists []; reflexivity|]. split; [cbn; constructor; [intros []|constructor]|].
  intros u a [H|[]]. injection H as <- <-. split; [constructor | intros v r []].
Qed.

Lemma WF_out_adj g a : WF g -> In (Out, a) g -> a = [].
Proof.
  intros [[tl E] [Hn _]] Hin. subst g. destruct Hin as [H|H]; [congruence|].
  cbn [nodes map fst] in Hn. inversion Hn as [|? ? Ho _]; subst. exfalso. apply Ho.
  apply in_map_iff. exists (Out, a). split; [reflexivity | exact H].
Qed.

Lemma add_node_WF g n : WF g -> WF (add_node g n).
Proof.
  intros Hwf. unfold add_node. destruct (has_node g n) eqn:E; [exact Hwf|].
  apply has_node_false in E. destruct Hwf as [[tl Eg] [Hn Hw]]. split; [|split].
  - exists (tl ++ [(n, [])]). subst g. reflexivity.
  - rewrite nodes_app. cbn [nodes map fst]. apply NoDup_app_intro; [exact Hn | constructor; [intros [] | constructor]|].
    intros x Hx [Hx'|[]]. subst. contradiction.
  - intros u a Hin. apply in_app_or in Hin. destruct Hin as [Hin|[Hin|[]]].
    + destruct (Hw _ _ Hin) as [H1 H2]. split; [exact H1|]. intros v r Hv. rewrite nodes_app. apply in_or_app. left. eapply H2, Hv.
    + injection Hin as <- <-. split; [constructor | intros v r []].
Qed.

Lemma nodes_update_adj g u f : nodes (update_adj g u f) = nodes g.
Proof.
  unfold nodes, update_adj. rewrite map_map. apply map_ext. intros [w a]. cbn [fst snd]. destruct (node_eqb w u); reflexivity.
Qed.

Lemma update_adj_WF g u f :
  WF g -> u <> Out ->
  (forall a, In (u, a) g -> NoDup (map fst (f a)) /\ forall v r, In (v, r) (f a) -> In v (nodes g)) ->
  WF (update_adj g u f).
Proof.
  intros [[tl Eg] [Hn Hw]] Hu Hf. split; [|split].
  - subst g. unfold update_adj. cbn [map fst snd]. destruct (node_eqb Out u) eqn:E; [apply node_eqb_spec in E; congruence|].
    eexists. reflexivity.
  - rewrite nodes_update_adj. exact Hn.
  - intros w a Hin. rewrite nodes_update_adj. unfold update_adj in Hin. apply in_map_iff in Hin.
    destruct Hin as [[w' a'] [E Hin]]. cbn [fst snd] in E. destruct (node_eqb w' u) eqn:E'.
    + apply node_eqb_spec in E'. subst w'. injection E as <- <-. apply Hf. exact Hin.
    + injection E as <- <-. apply (Hw _ _ Hin).
Qed.

Lemma adj_set_keys a v r :
  map fst (adj_set a v r) = if existsb (fun p => node_eqb (fst p) v) a then map fst a else map fst a ++ [v].
Proof.
  induction a as [|[w x] tl IH]; cbn [adj_set existsb map fst app]; [reflexivity|].
  destruct (node_eqb w v) eqn:E; cbn [orb map fst]; [reflexivity|].
  rewrite IH. destruct (existsb (fun p => node_eqb (fst p) v) tl); reflexivity.
Qed.

Lemma adj_set_In a v r v' r' : In (v', r') (adj_set a v r) -> In v' (map fst a) \/ v' = v.
Proof.
  induction a as [|[w x] tl IH]; cbn [adj_set map fst In].
  - intros [H|[]]. injection H as <- <-. right. reflexivity.
  - destruct (node_eqb w v) eqn:E.
    + intros [H|H]; [injection H as <- <-; left; left; reflexivity | left; right; apply in_map_iff; exists (v', r'); split; [reflexivity | exact H]].
    + intros [H|H]; [injection H as <- <-; left; left; reflexivity|]. apply IH in H. tauto.
Qed.

Lemma add_edge_WF g u v r : WF g -> u <> Out -> WF (add_edge g u v r).
Proof.
  intros Hwf Hu. unfold add_edge. set (g2 := add_node (add_node g u) v).
  assert (Hwf2 : WF g2) by (apply add_node_WF, add_node_WF, Hwf).
  assert (Hv : In v (nodes g2)).
  { unfold g2, add_node at 1. destruct (has_node (add_node g u) v) eqn:E; [apply has_node_In, E|].
    rewrite nodes_app. apply in_or_app. right. left. reflexivity. }
  apply update_adj_WF; [exact Hwf2 | exact Hu|].
  intros a Hin. destruct Hwf2 as [_ [_ Hw]]. destruct (Hw _ _ Hin) as [H1 H2]. split.
  - rewrite adj_set_keys. destruct (existsb (fun p => node_eqb (fst p) v) a) eqn:E; [exact H1|].
    apply NoDup_app_intro; [exact H1 | constructor; [intros [] | constructor]|].
    intros x Hx [Hx'|[]]. subst x. apply in_map_iff in Hx. destruct Hx as [p [Ep Hp]].
    assert (existsb (fun p => node_eqb (fst p) v) a = true).
    { apply existsb_exists. exists p. split; [exact Hp | rewrite Ep; apply node_eqb_refl]. }
    congruence.
  - intros v' r' Hin'. apply adj_set_In in Hin'. destruct Hin' as [Hin'|Hin']; [|subst; exact Hv].
    apply in_map_iff in Hin'. destruct Hin' as [[v2 r2] [E2 Hp]]. cbn [fst] in E2. subst v2. eapply H2, Hp.
Qed.

Lemma adj_remove_In a n v r : In (v, r) (adj_remove a n) <-> In (v, r) a /\ v <> n.
Proof.
  unfold adj_remove. rewrite filter_In. cbn [fst]. rewrite negb_true_iff, node_eqb_false. tauto.
Qed.

Lemma map_fst_filter_NoDup {B} (a : list (node * B)) (f : node * B -> bool) : NoDup (map fst a) -> NoDup (map fst (filter f a)).
Proof.
  induction a as [|[w x] tl IH]; cbn [map fst filter]; intros H; [constructor|].
  inversion H as [|? ? Hn Ht]; subst. destruct (f (w, x)); [|apply IH, Ht].
  cbn [map fst]. constructor; [|apply IH, Ht]. intros Hin. apply Hn. apply in_map_iff in Hin.
  destruct Hin as [p [E Hp]]. apply filter_In in Hp. apply in_map_iff. exists p. split; [exact E | apply Hp].
Qed.

Lemma remove_node_WF g n : WF g -> n <> Out -> WF (remove_node g n).
Proof.
  intros [[tl Eg] [Hn Hw]] Hne. unfold remove_node.
  assert (Hnodes : nodes (map (fun p => (fst p, adj_remove (snd p) n)) (filter (fun p => negb (node_eqb (fst p) n)) g))
                   = map fst (filter (fun p => negb (node_eqb (fst p) n)) g)).
  { unfold nodes. rewrite map_map. reflexivity. }
  split; [|split].
  - subst g. cbn [filter fst]. destruct (node_eqb Out n) eqn:E; [apply node_eqb_spec in E; congruence|].
    cbn [negb map fst snd adj_remove filter]. eexists. reflexivity.
  - rewrite Hnodes. apply map_fst_filter_NoDup. exact Hn.
  - intros u a Hin. rewrite Hnodes. apply in_map_iff in Hin. destruct Hin as [[u' a'] [E Hin]]. cbn [fst snd] in E.
    injection E as <- <-. apply filter_In in Hin. destruct Hin as [Hin _]. destruct (Hw _ _ Hin) as [H1 H2]. split.
    + apply map_fst_filter_NoDup. exact H1.
    + intros v r Hv. apply adj_remove_In in Hv. destruct Hv as [Hv Hvn]. specialize (H2 _ _ Hv).
      unfold nodes in H2. apply in_map_iff in H2. destruct H2 as [p [Ep Hp]]. apply in_map_iff. exists p. split; [exact Ep|].
      apply filter_In. split; [exact Hp|]. rewrite Ep. apply negb_true_iff, node_eqb_false. exact Hvn.
Qed.

Lemma remove_edge_WF g u v : WF g -> u <> Out -> WF (remove_edge g u v).
Proof.
  intros Hwf Hu. unfold remove_edge. apply update_adj_WF; [exact Hwf | exact Hu|].
  intros a Hin. destruct Hwf as [_ [_ Hw]]. destruct (Hw _ _ Hin) as [H1 H2]. split.
  - apply map_fst_filter_NoDup. exact H1.
  - intros v' r' Hv. apply adj_remove_In in Hv. eapply H2. apply Hv.
Qed.

Lemma fold_add_edge_WF (es : list (node * node * expr)) : forall G,
  WF G -> (forall u v r, In (u, v, r) es -> u <> Out) ->
  WF (fold_left (fun acc e => let '(u, v, r) := e in add_edge acc u v r) es G).
Proof.
  induction es as [|[[u v] r] tl IH]; intros G Hwf H; cbn [fold_left]; [exact Hwf|].
  apply IH.
  - apply add_edge_WF; [exact Hwf | apply (H u v r); left; reflexivity].
  - intros u' v' r' Hin. apply (H u' v' r'). right. exact Hin.
Qed.

Lemma in_edges_source g n w r : WF g -> In (w, r) (in_edges g n) -> w <> Out.
Proof.
  intros Hwf Hin. unfold in_edges in Hin. apply in_flat_map in Hin. destruct Hin as [[w' a] [Hp Hin]]. cbn [fst snd] in Hin.
  destruct (adj_lookup a n) as [r'|] eqn:E; [|destruct Hin]. destruct Hin as [Hin|[]]. injection Hin as <- <-.
  intros Eo. subst w'. rewrite (WF_out_adj g a Hwf Hp) in E. discriminate.
Qed.

Lemma relabel1_WF g old new : WF g -> old <> Out -> new <> Out -> WF (relabel1 g old new).
Proof.
  intros Hwf Ho Hn. unfold relabel1. set (g1 := add_node g new).
  assert (Hwf1 : WF g1) by apply add_node_WF, Hwf.
  apply fold_add_edge_WF; [apply remove_node_WF; assumption|].
  intros u v r Hin. apply in_app_or in Hin. destruct Hin as [Hin|Hin]; apply in_map_iff in Hin; destruct Hin as [[w x] [E Hp]]; cbn [fst snd] in E.
  - injection E as <- _ _. exact Hn.
  - injection E as <- _ _. destruct (node_eqb w old); [exact Hn|]. eapply in_edges_source; eassumption.
Qed.

Lemma map_lookup_In m n v : map_lookup m n = Some v -> In (n, v) m.
Proof.
  induction m as [|[k x] tl IH]; cbn [map_lookup]; [discriminate|]. destruct (node_eqb k n) eqn:E.
  - apply node_eqb_spec in E. subst. intros H. injection H as <-. left. reflexivity.
  - intros H. right. apply IH, H.
Qed.

Lemma relabel_WF g m : WF g -> (forall k v, In (k, v) m -> k <> Out /\ v <> Out) -> WF (relabel g m).
Proof.
  intros Hwf Hm. unfold relabel. generalize (nodes g) as l. intros l. revert g Hwf.
  induction l as [|old tl IH]; intros g Hwf; cbn [fold_left]; [exact Hwf|].
  apply IH. destruct (map_lookup m old) as [new|] eqn:E; [|exact Hwf].
  destruct (node_eqb new old); [exact Hwf|]. destruct (has_node g old); [|exact Hwf].
  apply map_lookup_In in E. destruct (Hm _ _ E) as [H1 H2]. apply relabel1_WF; assumption.
Qed.

Lemma relabel_single_WF g c c' : WF g -> WF (relabel g [(Cmt c, Cmt c')]).
Proof.
  intros Hwf. apply relabel_WF; [exact Hwf|]. intros k v [H|[]]. injection H as <- <-. split; discriminate.
Qed.

Theorem apply_op_WF g o : WF g -> WF (fst (apply_op g o)).
Proof.
  intros Hwf. destruct o; cbn [apply_op].
  - apply add_node_WF, Hwf.
  - destruct (find_compartment g nm); cbn [fst]; [apply remove_node_WF; [exact Hwf | discriminate] | exact Hwf].
  - destruct (find_compartment g s); [|exact Hwf]. destruct (resolve g d); cbn [fst]; [|exact Hwf].
    apply add_edge_WF; [exact Hwf | discriminate].
  - destruct (find_compartment g s); [|exact Hwf]. destruct (resolve g d); cbn [fst]; [|exact Hwf].
    destruct (has_edge g (Cmt c) n); cbn [fst]; [apply remove_edge_WF; [exact Hwf | discriminate] | exact Hwf].
  - destruct (find_compartment g s) as [src|]; [|exact Hwf]. destruct (find_compartment g d) as [dst|]; [|exact Hwf].
    destruct (doses_prop src) as [|d0 dl]; [exact Hwf|].
    destruct (match admid_true admid with
              | Some a => (filter (fun x => negb (Z.eqb (dose_admid x) a)) (d0 :: dl), filter (fun x => Z.eqb (dose_admid x) a) (d0 :: dl))
              | None => ([], d0 :: dl) end) as [new_sd moved].
    cbn [fst]. apply relabel_WF; [exact Hwf|]. intros k v Hin.
    destruct (comp_eqb src dst); [destruct Hin as [H|[]] | destruct Hin as [H|[H|[]]]]; injection H as <- <-; split; discriminate.
  - destruct (find_compartment g nm); cbn [fst]; [apply relabel_single_WF, Hwf | exact Hwf].
  - destruct (find_compartment g nm); [|exact Hwf]. destruct a; cbn [fst]; try exact Hwf; apply relabel_single_WF, Hwf.
  - destruct (find_compartment g nm); cbn [fst]; [apply relabel_single_WF, Hwf | exact Hwf].
  - destruct (find_compartment g nm); cbn [fst]; [apply relabel_single_WF, Hwf | exact Hwf].
  - destruct (find_compartment g nm); cbn [fst]; [apply relabel_single_WF, Hwf | exact Hwf].
  - destruct (find_compartment g nm); cbn [fst]; [apply relabel_single_WF, Hwf | exact Hwf].
  - exact Hwf.
  - apply add_edge_WF; [exact Hwf | discriminate].
Qed.

Lemma apply_ops_WF ops : forall g, WF g -> WF (fst (apply_ops g ops)).
Proof.
  induction ops as [|o tl IH]; intros g Hwf; cbn [apply_ops fst]; [exact Hwf|].
  pose proof (apply_op_WF g o Hwf) as H1. destruct (apply_op g o) as [g1 e]. cbn [fst] in H1.
  specialize (IH g1 H1). destruct (apply_ops g1 tl) as [g2 es]. exact IH.
Qed.

Theorem build_WF ops : WF (build ops).
Proof. apply apply_ops_WF, WF_empty. Qed.

(* ================================================================================================ *)
(* 8. == is reflexive where it is defined; executable definedness checks                           *)
(* ================================================================================================ *)
Lemma adj_of_In g u a : NoDup (nodes g) -> In (u, a) g -> adj_of g u = a.
Proof.
  induction g as [|[w x] tl IH]; cbn [adj_of nodes map fst In]; intros Hn Hin; [destruct Hin|].
  inversion Hn as [|? ? Hw Ht]; subst. destruct Hin as [Hin|Hin].
  - injection Hin as -> ->. rewrite node_eqb_refl. reflexivity.
  - destruct (node_eqb w u) eqn:E; [|apply IH; assumption].
    apply node_eqb_spec in E. subst. exfalso. apply Hw. apply in_map_iff. exists (u, a). split; [reflexivity | exact Hin].
Qed.

Lemma adj_lookup_NoDup a v r : NoDup (map fst a) -> In (v, r) a -> adj_lookup a v = Some r.
Proof.
  induction a as [|[w x] tl IH]; cbn [adj_lookup map fst In]; intros Hn Hin; [destruct Hin|].
  inversion Hn as [|? ? Hw Ht]; subst. destruct Hin as [Hin|Hin].
  - injection Hin as -> ->. rewrite node_eqb_refl. reflexivity.
  - destruct (node_eqb w v) eqn:E; [|apply IH; assumption].
    apply node_eqb_spec in E. subst. exfalso. apply Hw. apply in_map_iff. exists (v, r). split; [reflexivity | exact Hin].
Qed.

Lemma dod_eqb_refl g : WF g -> dod_eqb g g = true.
Proof.
  intros [_ [Hn Hw]]. unfold dod_eqb. rewrite Nat.eqb_refl. cbn [andb]. apply forallb_forall. intros [u a] Hin. cbn [fst snd].
  apply andb_true_intro. split.
  - apply has_node_In. apply in_map_iff. exists (u, a). split; [reflexivity | exact Hin].
  - rewrite (adj_of_In g u a Hn Hin). unfold adj_dict_eqb. rewrite Nat.eqb_refl. cbn [andb].
    apply forallb_forall. intros [v r] Hv. cbn [fst snd]. destruct (Hw _ _ Hin) as [Ha _].
    rewrite (adj_lookup_NoDup a v r Ha Hv). apply expr_eqb_spec. reflexivity.
Qed.

Lemma odosing_eqb_refl d : odosing_eqb d d = true.
Proof. destruct d as [l|]; [|reflexivity]. apply (list_eqb_spec comp_eqb comp_eqb_spec). reflexivity. Qed.

(* == is reflexive on every well-formed system, dosed or not (no guard since fix 876afb2) *)
Lemma cs_eq_refl_lemma g t : WF g -> cs_eq (g, t) (g, t) = true.
Proof.
  intros Hwf. unfold cs_eq. rewrite (proj2 (expr_eqb_spec t t) eq_refl), (dod_eqb_refl g Hwf), odosing_eqb_refl.
  reflexivity.
Qed.

Definition defined_b (r : env) (fi : finterp) (e : expr) : bool :=
  match eval r fi e with Some _ => true | None => false end.
Definition rates_defined_b (g : graph) (r : env) (fi : finterp) : bool :=
  forallb (fun p => forallb (fun e => defined_b r fi (snd e)) (snd p)) g.
Definition comps_defined_b (g : graph) (r : env) (fi : finterp) : bool :=
  forallb (fun c => defined_b r fi (c_amount c) && defined_b r fi (c_input c)) (order g).

Lemma defined_b_spec r fi e : defined_b r fi e = true -> eval r fi e <> None.
Proof. unfold defined_b. destruct (eval r fi e); [discriminate | discriminate]. Qed.

Lemma rates_defined_b_spec g r fi : rates_defined_b g r fi = true -> rates_defined g r fi.
Proof.
  unfold rates_defined_b, rates_defined. rewrite forallb_forall. intros H u a v e Hin Hv.
  specialize (H _ Hin). cbn [snd] in H. rewrite forallb_forall in H. apply defined_b_spec. apply (H (v, e) Hv).
Qed.

Lemma comps_defined_b_spec g r fi : comps_defined_b g r fi = true -> comps_defined g r fi.
Proof.
  unfold comps_defined_b, comps_defined. rewrite forallb_forall. intros H c Hin. specialize (H _ Hin).
  apply andb_prop in H. destruct H as [H1 H2]. split; apply defined_b_spec; assumption.
Qed.

(* ================================================================================================ *)
(* 9. one shared order; matrix entries                                                              *)
(* ================================================================================================ *)
Lemma matrix_offdiag_lemma g ns row col :
  row <> col -> matrix_entry g ns row col = get_flow g (Cmt (nthc ns col)) (Cmt (nthc ns row)).
Proof. intros H. unfold matrix_entry. apply Nat.eqb_neq in H. rewrite H. reflexivity. Qed.

Lemma matrix_diag_lemma g ns j r fi (kv : nat -> Q) (ko : Q) :
  (forall j', j' < length ns -> j' <> j -> ev r fi (get_flow g (Cmt (nthc ns j)) (Cmt (nthc ns j'))) (kv j')) ->
  ev r fi (get_flow g (Cmt (nthc ns j)) Out) ko ->
  ev r fi (matrix_entry g ns j j)
     (- (qsum (map (fun j' => if Nat.eqb j j' then 0%Q else kv j') (seq 0 (length ns))) + ko))%Q.
Proof. intros Hk Ho. unfold matrix_entry. rewrite Nat.eqb_refl. apply diag_entry_lemma; assumption. Qed.

Lemma nth_map_seq {A} (f : nat -> A) (d : A) n i : i < n -> nth i (map f (seq 0 n)) d = f i.
Proof.
  intros H. rewrite (nth_indep _ d (f 0)) by (rewrite map_length, seq_length; exact H).
  rewrite map_nth, seq_nth by exact H. reflexivity.
Qed.

Lemma order_shared_lemma g :
  compartment_names g = map c_name (order g) /\
  amounts g = map c_amount (order g) /\
  zero_order_inputs g = map c_input (order g) /\
  eqs_lhs g = map c_amount (order g) /\
  length (eqs_rhs g) = length (order g) /\
  length (compartmental_matrix g) = length (order g) /\
  (forall row, In row (compartmental_matrix g) -> length row = length (order g)) /\
  (forall i j, i < length (order g) -> j < length (order g) ->
     nth j (nth i (compartmental_matrix g) []) (Num 0%Q) = matrix_entry g (order g) i j) /\
  (forall i, i < length (order g) -> nth i (eqs_rhs g) (Num 0%Q) = eq_rhs_on g (order g) i).
Proof.
  repeat split; try reflexivity.
  - unfold eqs_rhs. rewrite map_length, seq_length. reflexivity.
  - unfold compartmental_matrix, matrix_on. rewrite map_length, seq_length. reflexivity.
  - intros row Hin. unfold compartmental_matrix, matrix_on in Hin. apply in_map_iff in Hin.
    destruct Hin as [i [E _]]. subst row. rewrite map_length, seq_length. reflexivity.
  - intros i j Hi Hj. unfold compartmental_matrix, matrix_on.
    rewrite (nth_map_seq (fun row => map (fun col => matrix_entry g (order g) row col) (seq 0 (length (order g)))) [] _ i Hi).
    apply (nth_map_seq (fun col => matrix_entry g (order g) i col) (Num 0%Q) _ j Hj).
  - intros i Hi. unfold eqs_rhs. apply (nth_map_seq (eq_rhs_on g (order g)) (Num 0%Q) _ i Hi).
Qed.

(* ================================================================================================ *)
(* 10. The diagonal is minus the sum of ALL edges leaving the compartment; per-compartment balance  *)
(* ================================================================================================ *)
Lemma qsum_perm l l' : Permutation l l' -> (qsum l == qsum l')%Q.
Proof.
  induction 1; cbn [qsum fold_right].
  - reflexivity.
  - fold (qsum l) (qsum l'). rewrite IHPermutation. reflexivity.
  - fold (qsum l). ring.
  - rewrite IHPermutation1. exact IHPermutation2.
Qed.

(* sum over a duplicate-free list of a function that is replaced at one element *)
Lemma qsum_replace_elem (f : comp -> Q) (d : Q) (c0 : comp) : forall U, NoDup U -> In c0 U ->
  (qsum (map (fun x => if comp_eqb x c0 then d else f x) U) == d + qsum (map f U) - f c0)%Q.
Proof.
  induction U as [|x tl IH]; intros Hn Hin; [destruct Hin|]. cbn [map qsum fold_right].
  fold (qsum (map f tl)) (qsum (map (fun x => if comp_eqb x c0 then d else f x) tl)).
  inversion Hn as [|? ? Hx Ht]; subst. destruct (comp_eqb x c0) eqn:E.
  - apply comp_eqb_spec in E. subst x.
    rewrite (qsum_ext (fun x => if comp_eqb x c0 then d else f x) f).
    + ring.
    + intros y Hy. destruct (comp_eqb y c0) eqn:E'; [apply comp_eqb_spec in E'; subst; contradiction | reflexivity].
  - apply comp_eqb_false in E. destruct Hin as [Hin|Hin]; [congruence|]. rewrite (IH Ht Hin). ring.
Qed.

Lemma comp_eqb_sym a b : comp_eqb a b = comp_eqb b a.
Proof.
  destruct (comp_eqb a b) eqn:E1, (comp_eqb b a) eqn:E2; try reflexivity.
  - apply comp_eqb_spec in E1. subst. rewrite comp_eqb_refl in E2. discriminate.
  - apply comp_eqb_spec in E2. subst. rewrite comp_eqb_refl in E1. discriminate.
Qed.

Definition is_cmt (n : node) : bool := match n with Cmt _ => true | Out => false end.

Lemma flow_sum_lemma (val : expr -> Q) (U : list comp) :
  (val (Num 0%Q) == 0)%Q -> NoDup U ->
  forall a, NoDup (map fst a) -> (forall c r, In (Cmt c, r) a -> In c U) ->
  (qsum (map (fun c' => val (match adj_lookup a (Cmt c') with Some r => r | None => Num 0%Q end)) U)
   == qsum (map (fun e => val (snd e)) (filter (fun e => is_cmt (fst e)) a)))%Q.
Proof.
  intros H0 HU. induction a as [|[v r] tl IH]; intros Ha Hin.
  - cbn [adj_lookup filter map qsum fold_right].
    rewrite (qsum_ext _ (fun _ => 0%Q)) by (intros; exact H0). apply qsum_zero.
  - cbn [map fst] in Ha. inversion Ha as [|? ? Hv Ht]; subst.
    assert (Hin' : forall c r0, In (Cmt c, r0) tl -> In c U) by (intros c r0 Hc; eapply Hin; right; exact Hc).
    destruct v as [|c0].
    + cbn [filter fst is_cmt adj_lookup node_eqb]. apply IH; assumption.
    + cbn [filter fst is_cmt map snd qsum fold_right].
      fold (qsum (map (fun e => val (snd e)) (filter (fun e => is_cmt (fst e)) tl))).
      rewrite <- (IH Ht Hin').
      rewrite (qsum_ext _ (fun c' => if comp_eqb c' c0 then val r
                                     else val (match adj_lookup tl (Cmt c') with Some r0 => r0 | None => Num 0%Q end))).
      * rewrite qsum_replace_elem; [|exact HU | eapply Hin; left; reflexivity].
        assert (E : adj_lookup tl (Cmt c0) = None).
        { destruct (adj_lookup tl (Cmt c0)) as [r0|] eqn:E; [|reflexivity]. apply adj_lookup_In in E.
          exfalso. apply Hv. apply in_map_iff. exists (Cmt c0, r0). split; [reflexivity | exact E]. }
        rewrite E, H0. ring.
      * intros c' _. cbn [adj_lookup node_eqb]. rewrite (comp_eqb_sym c0 c'). destruct (comp_eqb c' c0); reflexivity.
Qed.

Lemma out_split_lemma (val : expr -> Q) :
  (val (Num 0%Q) == 0)%Q -> forall a, NoDup (map fst a) ->
  (qsum (map (fun e => val (snd e)) a)
   == qsum (map (fun e => val (snd e)) (filter (fun e => is_cmt (fst e)) a))
      + val (match adj_lookup a Out with Some r => r | None => Num 0%Q end))%Q.
Proof.
  intros H0. induction a as [|[v r] tl IH]; intros Ha.
  - cbn [map filter adj_lookup qsum fold_right]. rewrite H0. ring.
  - cbn [map fst] in Ha. inversion Ha as [|? ? Hv Ht]; subst. cbn [map snd qsum fold_right].
    fold (qsum (map (fun e => val (snd e)) tl)). rewrite (IH Ht). destruct v as [|c0].
    + cbn [filter fst is_cmt adj_lookup node_eqb].
      assert (E : adj_lookup tl Out = None).
      { destruct (adj_lookup tl Out) as [r0|] eqn:E; [|reflexivity]. apply adj_lookup_In in E.
        exfalso. apply Hv. apply in_map_iff. exists (Out, r0). split; [reflexivity | exact E]. }
      rewrite E, H0. ring.
    + cbn [filter fst is_cmt adj_lookup node_eqb map snd qsum fold_right].
      fold (qsum (map (fun e => val (snd e)) (filter (fun e => is_cmt (fst e)) tl))). ring.
Qed.

(* sum over an adjacency = sum over the entries to other nodes + the entry to n itself (if any) *)
Lemma self_split_lemma (val : expr -> Q) (n : node) :
  (val (Num 0%Q) == 0)%Q -> forall a, NoDup (map fst a) ->
  (qsum (map (fun e => val (snd e)) a)
   == qsum (map (fun e => val (snd e)) (filter (fun e => negb (node_eqb (fst e) n)) a))
      + val (match adj_lookup a n with Some r => r | None => Num 0%Q end))%Q.
Proof.
  intros H0. induction a as [|[v r] tl IH]; intros Ha.
  - cbn [map filter adj_lookup qsum fold_right]. rewrite H0. ring.
  - cbn [map fst] in Ha. inversion Ha as [|? ? Hv Ht]; subst. cbn [map snd qsum fold_right filter fst adj_lookup].
    fold (qsum (map (fun e => val (snd e)) tl)). rewrite (IH Ht). destruct (node_eqb v n) eqn:E; cbn [negb].
    + apply node_eqb_spec in E. subst v.
      assert (El : adj_lookup tl n = None).
      { destruct (adj_lookup tl n) as [r0|] eqn:El; [|reflexivity]. apply adj_lookup_In in El.
        exfalso. apply Hv. apply in_map_iff. exists (n, r0). split; [reflexivity | exact El]. }
      rewrite El, H0. unfold qsum. ring.
    + cbn [map snd qsum fold_right]. unfold qsum. ring.
Qed.

Lemma split_algebra (s a b d c : Q) : (s == a + b)%Q -> (s == d + c)%Q -> (0 + a - c + b == d)%Q.
Proof. intros H1 H2. rewrite H1 in H2. assert (H : (d == a + b - c)%Q) by (rewrite H2; ring). rewrite H. ring. Qed.

(* The diagonal entry of compartment number i is minus the sum of the rates of the edges leaving it in
   the graph to the OTHER compartments and to output (a flow to itself does not count). *)
Theorem diag_total_outflow_lemma g r fi i :
  WF g -> rates_defined g r fi -> i < length (order g) ->
  let c := nthc (order g) i in
  ev r fi (diag_entry g (order g) i)
     (- qsum (map (fun e => oval (eval r fi (snd e)))
                  (filter (fun e => negb (node_eqb (fst e) (Cmt c))) (adj_of g (Cmt c)))))%Q.
Proof.
  intros Hwf Hr Hi c. pose proof Hwf as [_ [Hn Hw]].
  assert (Hc : In c (comps g)).
  { apply (Permutation_in _ (order_perm_lemma g Hwf)). apply nthc_In, Hi. }
  assert (Hin : In (Cmt c, adj_of g (Cmt c)) g).
  { destruct (adj_of_cases g (Cmt c)) as [H|[_ H]]; [exact H|]. exfalso. apply H. apply comps_In. exact Hc. }
  destruct (Hw _ _ Hin) as [Ha Hv].
  set (val := fun e => oval (eval r fi e)).
  assert (H0 : (val (Num 0%Q) == 0)%Q) by reflexivity.
  set (n := length (order g)).
  set (kv := fun j => val (get_flow g (Cmt c) (Cmt (nthc (order g) j)))).
  eapply ev_compat.
  - apply (diag_entry_lemma g (order g) i r fi kv (val (get_flow g (Cmt c) Out))).
    + intros j _ _. apply ev_oval, get_flow_defined, Hr.
    + apply ev_oval, get_flow_defined, Hr.
  - apply Qopp_comp. fold n.
    rewrite (qsum_ext (fun j => if Nat.eqb i j then 0%Q else kv j) (fun j => if Nat.eqb j i then 0%Q else kv j))
      by (intros j _; rewrite (Nat.eqb_sym i j); reflexivity).
    rewrite (qsum_replace_at kv 0%Q i n 0) by (fold n in Hi; lia).
    (* sum over the order = sum over the edges to compartments *)
    assert (E1 : (qsum (map kv (seq 0 n))
                  == qsum (map (fun e => val (snd e)) (filter (fun e => is_cmt (fst e)) (adj_of g (Cmt c)))))%Q).
    { unfold kv, n. rewrite <- (qsum_map_nth (fun c' => val (get_flow g (Cmt c) (Cmt c'))) (order g)).
      eapply Qeq_trans; [apply (qsum_perm _ _ (Permutation_map _ (order_perm_lemma g Hwf)))|].
      unfold get_flow. apply (flow_sum_lemma val (comps g) H0 (comps_NoDup g Hn) _ Ha).
      intros c' r' Hc'. apply comps_In. eapply Hv. exact Hc'. }
    pose proof (out_split_lemma val H0 _ Ha) as E2.
    pose proof (self_split_lemma val (Cmt c) H0 _ Ha) as E3.
    assert (E4 : (kv i == val (match adj_lookup (adj_of g (Cmt c)) (Cmt c) with Some r0 => r0 | None => Num 0%Q end))%Q).
    { unfold kv. fold c. reflexivity. }
    unfold get_flow at 1. rewrite E1, E4.
    apply (split_algebra _ _ _ _ _ E2 E3).
Qed.

(* per compartment: d A_i/dt = inflows from the others - outflows to the others and to output + input *)
Theorem node_balance_lemma g ns r fi i (kv : nat -> nat -> Q) (ko av uv : nat -> Q) :
  let n := length ns in
  i < n ->
  (forall i j, i < n -> j < n -> i <> j -> ev r fi (get_flow g (Cmt (nthc ns j)) (Cmt (nthc ns i))) (kv j i)) ->
  (forall j, j < n -> ev r fi (get_flow g (Cmt (nthc ns j)) Out) (ko j)) ->
  (forall j, j < n -> ev r fi (c_amount (nthc ns j)) (av j)) ->
  (forall j, j < n -> ev r fi (c_input (nthc ns j)) (uv j)) ->
  ev r fi (eq_rhs_on g ns i)
     (qsum (map (fun j => if Nat.eqb j i then 0 else kv j i * av j) (seq 0 n))
      - (qsum (map (fun j => if Nat.eqb j i then 0 else kv i j) (seq 0 n)) + ko i) * av i + uv i)%Q.
Proof.
  intros n Hi Hk Ho Ha Hu.
  pose proof (matrix_entry_value g ns r fi kv ko Hk Ho) as Hm. fold n in Hm.
  eapply ev_compat.
  - apply (eqs_entrywise_lemma g ns r fi i
             (fun j => if Nat.eqb i j
                       then (- (qsum (map (fun i' => if Nat.eqb j i' then 0%Q else kv j i') (seq 0 n)) + ko j))%Q
                       else kv j i) av (uv i)); fold n.
    + intros j Hj. apply (Hm i j Hi Hj).
    + exact Ha.
    + apply Hu, Hi.
  - fold n. apply Qplus_comp; [|reflexivity].
    set (d := (- (qsum (map (fun i' => if Nat.eqb i i' then 0%Q else kv i i') (seq 0 n)) + ko i))%Q).
    rewrite (qsum_ext _ (fun j => if Nat.eqb j i then (d * av i)%Q else (kv j i * av j)%Q)).
    + rewrite (qsum_replace_at (fun j => (kv j i * av j)%Q) _ i n 0) by lia.
      rewrite (qsum_replace_at (fun j => (kv j i * av j)%Q) 0%Q i n 0) by lia.
      unfold d.
      rewrite (qsum_ext (fun i' => if Nat.eqb i i' then 0%Q else kv i i') (fun j => if Nat.eqb j i then 0%Q else kv i j))
        by (intros j _; rewrite (Nat.eqb_sym i j); reflexivity).
      ring.
    + intros j _. rewrite (Nat.eqb_sym j i). destruct (Nat.eqb i j) eqn:Ej; [apply Nat.eqb_eq in Ej; subst j; unfold d|]; reflexivity.
Qed.

(* ================================================================================================ *)
(* 11. The BFS of the model is complete (the fuel never runs out): its result is closed under        *)
(*     successors                                                                                     *)
(* ================================================================================================ *)
Lemma visit_fold_lengths l : forall q s q' s',
  fold_left visit l (q, s) = (q', s') -> length q' + length s = length q + length s'.
Proof.
  induction l as [|x tl IH]; intros q s q' s' H; cbn [fold_left] in H.
  - injection H as <- <-. lia.
  - unfold visit at 2 in H. destruct (memc x s).
    + apply IH, H.
    + apply IH in H. rewrite !app_length in H. cbn [length] in H. lia.
Qed.

Lemma visit_fold_queue l : forall q s q' s',
  fold_left visit l (q, s) = (q', s') ->
  (forall c, In c q -> In c q') /\ (forall c, In c s' -> In c s \/ In c q').
Proof.
  induction l as [|x tl IH]; intros q s q' s' H; cbn [fold_left] in H.
  - injection H as <- <-. split; auto.
  - unfold visit at 2 in H. destruct (memc x s).
    + apply IH, H.
    + destruct (IH _ _ _ _ H) as [H1 H2]. split.
      * intros c Hc. apply H1, in_or_app. left. exact Hc.
      * intros c Hc. apply H2 in Hc. rewrite in_app_iff in Hc. destruct Hc as [[Hc|[Hc|[]]]|Hc]; auto.
        subst. right. apply H1, in_or_app. right. left. reflexivity.
Qed.

Lemma bfs_loop_closed g (U : list comp) :
  (forall p c, In c (nbrs g p) -> In c U) ->
  forall fuel queue seen,
    NoDup seen -> (forall c, In c seen -> In c U) ->
    length queue + S (length U) <= fuel + length seen ->
    (forall p, In p seen -> In p queue \/ forall c, In c (nbrs g p) -> In c seen) ->
    forall p c, In p (bfs_loop g fuel queue seen) -> In c (nbrs g p) -> In c (bfs_loop g fuel queue seen).
Proof.
  intros HU. induction fuel as [|f IH]; intros queue seen Hn Hs Hf Hinv p c Hp Hc; cbn [bfs_loop] in *.
  - exfalso. pose proof (NoDup_incl_length Hn Hs). lia.
  - destruct queue as [|p0 q].
    + destruct (Hinv p Hp) as [[]|H]. apply H, Hc.
    + destruct (fold_left visit (nbrs g p0) (q, seen)) as [q' seen'] eqn:E.
      destruct (visit_fold _ _ _ _ _ E) as [V1 [_ [V3 _]]].
      pose proof (visit_fold_lengths _ _ _ _ _ E) as VL.
      destruct (visit_fold_queue _ _ _ _ _ E) as [VQ1 VQ2].
      refine (IH q' seen' _ _ _ _ p c Hp Hc).
      * apply V3, Hn.
      * intros x Hx. apply V1 in Hx. destruct Hx as [Hx|Hx]; [apply Hs, Hx | apply (HU p0), Hx].
      * cbn [length] in Hf. lia.
      * intros x Hx. destruct (VQ2 x Hx) as [Hx'|Hx']; [|left; exact Hx'].
        destruct (Hinv x Hx') as [[Hq|Hq]|Hq].
        -- subst x. right. intros y Hy. apply V1. right. exact Hy.
        -- left. apply VQ1, Hq.
        -- right. intros y Hy. apply V1. left. apply Hq, Hy.
Qed.

Theorem bfs_closed_lemma g src :
  WF g -> In src (comps g) ->
  forall p c, In p (bfs g src) -> In c (nbrs g p) -> In c (bfs g src).
Proof.
  intros Hwf Hsrc. unfold bfs. apply (bfs_loop_closed g (comps g)).
  - intros p c Hc. eapply nbrs_in_comps; eassumption.
  - constructor; [intros [] | constructor].
  - intros c [Hc|[]]. subst. exact Hsrc.
  - cbn [length]. assert (length (comps g) <= length g).
    { clear. induction g as [|[[|c] a] tl IH]; cbn [comps length]; lia. }
    lia.
  - intros p [Hp|[]]. subst. left. left. reflexivity.
Qed.

Lemma nbrs_In g p c : In c (nbrs g p) <-> exists r, In (Cmt c, r) (adj_of g (Cmt p)).
Proof. unfold nbrs. rewrite sort_by_name_In. apply adj_comps_In. Qed.

(* ================================================================================================ *)
(* 12. subs keeps the structure and substitutes every expression                                    *)
(* ================================================================================================ *)
Definition subs_graph (m : list (id * expr)) (g : graph) : graph := fst (cs_subs m (g, Num 0%Q)).

Lemma node_subs_name m n n' : node_subs m n = node_subs m n' ->
  match n, n' with Cmt c, Cmt c' => c_name c = c_name c' | Out, Out => True | _, _ => False end.
Proof. destruct n as [|c], n' as [|c']; cbn; intros H; try discriminate; [exact I|]. injection H as H _. exact H. Qed.

Lemma names_unique_spec l : names_unique l = true -> forall c c', In c l -> In c' l -> c_name c = c_name c' -> c = c'.
Proof.
  induction l as [|x tl IH]; cbn [names_unique]; intros H c c' Hc Hc' E; [destruct Hc|].
  apply andb_prop in H. destruct H as [H1 H2]. apply negb_true_iff in H1.
  assert (Hx : forall y, In y tl -> c_name y <> c_name x).
  { intros y Hy Ey. assert (existsb (fun c' => name_eqb (c_name c') (c_name x)) tl = true).
    { apply existsb_exists. exists y. split; [exact Hy | apply name_eqb_spec, Ey]. }
    congruence. }
  destruct Hc as [Hc|Hc], Hc' as [Hc'|Hc']; subst.
  - reflexivity.
  - exfalso. apply (Hx c' Hc'). symmetry. exact E.
  - exfalso. apply (Hx c Hc). exact E.
  - apply IH; assumption.
Qed.

Lemma node_subs_inj m g : names_unique (comps g) = true ->
  forall n n', In n (nodes g) -> In n' (nodes g) -> node_subs m n = node_subs m n' -> n = n'.
Proof.
  intros Hu n n' Hn Hn' E. apply node_subs_name in E. destruct n as [|c], n' as [|c']; try contradiction; [reflexivity|].
  f_equal. apply (names_unique_spec _ Hu); [apply comps_In, Hn | apply comps_In, Hn' | exact E].
Qed.

Lemma adj_lookup_subs m (a : adj) (v : node) :
  (forall w w', In w (v :: map fst a) -> In w' (v :: map fst a) -> node_subs m w = node_subs m w' -> w = w') ->
  adj_lookup (map (fun e => (node_subs m (fst e), subs_map m (snd e))) a) (node_subs m v)
  = option_map (subs_map m) (adj_lookup a v).
Proof.
  induction a as [|[w x] tl IH]; intros Hinj; cbn [map adj_lookup fst snd]; [reflexivity|].
  destruct (node_eqb w v) eqn:E.
  - apply node_eqb_spec in E. subst. rewrite node_eqb_refl. reflexivity.
  - destruct (node_eqb (node_subs m w) (node_subs m v)) eqn:E'.
    + apply node_eqb_spec in E'. apply Hinj in E'; [|right; left; reflexivity | left; reflexivity].
      subst. rewrite node_eqb_refl in E. discriminate.
    + apply IH. intros a1 a2 H1 H2. apply Hinj; cbn [map fst In] in *; tauto.
Qed.

Lemma adj_of_subs m (g0 : graph) : forall g u,
  (forall w w', In w (u :: nodes g) -> In w' (u :: nodes g) -> node_subs m w = node_subs m w' -> w = w') ->
  adj_of (map (fun p => (node_subs m (fst p), map (fun e => (node_subs m (fst e), subs_map m (snd e))) (snd p))) g) (node_subs m u)
  = map (fun e => (node_subs m (fst e), subs_map m (snd e))) (adj_of g u).
Proof.
  induction g as [|[w a] tl IH]; intros u Hinj; cbn [map adj_of fst snd]; [reflexivity|].
  destruct (node_eqb w u) eqn:E.
  - apply node_eqb_spec in E. subst. rewrite node_eqb_refl. reflexivity.
  - destruct (node_eqb (node_subs m w) (node_subs m u)) eqn:E'.
    + apply node_eqb_spec in E'. apply Hinj in E'; [|right; left; reflexivity | left; reflexivity].
      subst. rewrite node_eqb_refl in E. discriminate.
    + apply IH. intros a1 a2 H1 H2. apply Hinj; cbn [nodes map fst In] in *; tauto.
Qed.

(* every flow of the substituted system is the substituted flow of the original system *)
Theorem subs_preserves_flows_lemma m g u v :
  WF g -> names_unique (comps g) = true -> In u (nodes g) -> In v (nodes g) ->
  get_flow (subs_graph m g) (node_subs m u) (node_subs m v) = subs_map m (get_flow g u v).
Proof.
  intros Hwf Hu Hin Hv. unfold subs_graph, cs_subs, get_flow. cbn [fst].
  pose proof (node_subs_inj m g Hu) as Hinj.
  rewrite (adj_of_subs m g g u).
  - rewrite adj_lookup_subs.
    + destruct (adj_lookup (adj_of g u) v); reflexivity.
    + intros w w' Hw Hw'. apply Hinj.
      * destruct Hw as [Hw|Hw]; [subst; exact Hv|]. destruct Hwf as [_ [Hn H]].
        apply in_map_iff in Hw. destruct Hw as [[w0 r0] [E Hw]]. cbn [fst] in E. subst w0.
        destruct (adj_of_cases g u) as [Hc|[Hc _]]; [eapply (H _ _ Hc), Hw | rewrite Hc in Hw; destruct Hw].
      * destruct Hw' as [Hw'|Hw']; [subst; exact Hv|]. destruct Hwf as [_ [Hn H]].
        apply in_map_iff in Hw'. destruct Hw' as [[w0 r0] [E Hw']]. cbn [fst] in E. subst w0.
        destruct (adj_of_cases g u) as [Hc|[Hc _]]; [eapply (H _ _ Hc), Hw' | rewrite Hc in Hw'; destruct Hw'].
  - intros w w' Hw Hw'. apply Hinj.
    + destruct Hw as [Hw|Hw]; [subst; exact Hin | exact Hw].
    + destruct Hw' as [Hw'|Hw']; [subst; exact Hin | exact Hw'].
Qed.

(* ... so it evaluates, in any environment, like the original flow in the substituted environment *)
Theorem subs_flow_eval_lemma m g u v r fi :
  WF g -> names_unique (comps g) = true -> In u (nodes g) -> In v (nodes g) ->
  eval r fi (get_flow (subs_graph m g) (node_subs m u) (node_subs m v)) = eval (upd_map r fi m) fi (get_flow g u v).
Proof.
  intros. rewrite subs_preserves_flows_lemma by assumption. apply subs_map_lemma.
Qed.

Lemma subs_nodes_lemma m g : nodes (subs_graph m g) = map (node_subs m) (nodes g).
Proof. unfold subs_graph, cs_subs, nodes. cbn [fst]. rewrite !map_map. reflexivity. Qed.

Lemma comp_subs_fields m c r fi :
  c_name (comp_subs m c) = c_name c /\
  eval r fi (c_input (comp_subs m c)) = eval (upd_map r fi m) fi (c_input c) /\
  eval r fi (c_lag (comp_subs m c)) = eval (upd_map r fi m) fi (c_lag c) /\
  eval r fi (c_bio (comp_subs m c)) = eval (upd_map r fi m) fi (c_bio c) /\
  map dose_admid (c_doses (comp_subs m c)) = map dose_admid (doses_prop c) /\
  map is_infusion (c_doses (comp_subs m c)) = map is_infusion (doses_prop c).
Proof.
  unfold comp_subs. cbn [c_name c_input c_lag c_bio c_doses]. repeat split; try apply subs_map_lemma.
  - rewrite map_map. apply map_ext. intros [a i|a i ra du]; reflexivity.
  - rewrite map_map. apply map_ext. intros [a i|a i ra du]; reflexivity.
Qed.

(* ---- corollaries for systems made by the builder ----------------------------------------------------- *)
Lemma order_perm_built_lemma ops : Permutation (order (build ops)) (comps (build ops)).
Proof. apply order_perm_lemma, build_WF. Qed.

Lemma dict_roundtrip_built_lemma ops t : from_dict (to_dict (build ops, t)) = Some (build ops, t).
Proof. apply dict_roundtrip_lemma, build_WF. Qed.

Lemma dict_roundtrip_eq_lemma g t :
  WF g -> exists s', from_dict (to_dict (g, t)) = Some s' /\ cs_eq s' (g, t) = true.
Proof.
  intros Hwf. exists (g, t). split; [apply dict_roundtrip_lemma, Hwf | apply cs_eq_refl_lemma, Hwf].
Qed.

(* ================================================================================================ *)
(* 13. In-place relabelling keeps every flow                                                        *)
(* ================================================================================================ *)
Lemma node_eqb_sym a b : node_eqb a b = node_eqb b a.
Proof.
  destruct (node_eqb a b) eqn:E1, (node_eqb b a) eqn:E2; try reflexivity.
  - apply node_eqb_spec in E1. subst. rewrite node_eqb_refl in E2. discriminate.
  - apply node_eqb_spec in E2. subst. rewrite node_eqb_refl in E1. discriminate.
Qed.

Lemma adj_of_absent g x : ~ In x (nodes g) -> adj_of g x = [].
Proof. intros H. destruct (adj_of_cases g x) as [Hin|[E _]]; [|exact E]. exfalso. apply H. apply in_map_iff. exists (x, adj_of g x). split; [reflexivity | exact Hin]. Qed.

Lemma adj_of_app g1 g2 x : adj_of (g1 ++ g2) x = if has_node g1 x then adj_of g1 x else adj_of g2 x.
Proof.
  induction g1 as [|[w a] tl IH]; cbn [app adj_of has_node existsb fst]; [reflexivity|].
  destruct (node_eqb w x); cbn [orb]; [reflexivity | exact IH].
Qed.

Lemma adj_of_add_node g n x : adj_of (add_node g n) x = adj_of g x.
Proof.
  unfold add_node. destruct (has_node g n) eqn:E; [reflexivity|]. rewrite adj_of_app.
  destruct (has_node g x) eqn:Ex; [reflexivity|]. cbn [adj_of]. destruct (node_eqb n x); symmetry; apply adj_of_absent, has_node_false, Ex.
Qed.

Lemma adj_of_update_adj g u f x :
  adj_of (update_adj g u f) x = if node_eqb x u && has_node g x then f (adj_of g x) else adj_of g x.
Proof.
  induction g as [|[w a] tl IH]; cbn [update_adj map adj_of has_node existsb fst snd].
  - rewrite andb_false_r. reflexivity.
  - destruct (node_eqb w u) eqn:Ewu; cbn [fst snd]; destruct (node_eqb w x) eqn:Ewx; cbn [orb].
    + apply node_eqb_spec in Ewu, Ewx. subst u x. rewrite node_eqb_refl. reflexivity.
    + exact IH.
    + apply node_eqb_spec in Ewx. subst x. rewrite Ewu. reflexivity.
    + exact IH.
Qed.

Lemma adj_lookup_adj_set a v r y : adj_lookup (adj_set a v r) y = if node_eqb y v then Some r else adj_lookup a y.
Proof.
  induction a as [|[w x] tl IH]; cbn [adj_set adj_lookup].
  - rewrite (node_eqb_sym v y). destruct (node_eqb y v); reflexivity.
  - destruct (node_eqb w v) eqn:Ewv; cbn [adj_lookup].
    + apply node_eqb_spec in Ewv. subst. rewrite (node_eqb_sym v y). destruct (node_eqb y v); reflexivity.
    + destruct (node_eqb w y) eqn:Ewy; [|exact IH]. apply node_eqb_spec in Ewy. subst.
      rewrite Ewv. reflexivity.
Qed.

Lemma has_node_add_node g n x : has_node (add_node g n) x = has_node g x || node_eqb n x.
Proof.
  unfold add_node. destruct (has_node g n) eqn:E.
  - destruct (node_eqb n x) eqn:E'; [apply node_eqb_spec in E'; subst; rewrite E; reflexivity | rewrite orb_false_r; reflexivity].
  - unfold has_node. rewrite existsb_app. cbn [existsb fst]. rewrite orb_false_r. reflexivity.
Qed.

Lemma get_flow_add_edge g u v r x y :
  get_flow (add_edge g u v r) x y = if node_eqb x u && node_eqb y v then r else get_flow g x y.
Proof.
  unfold get_flow, add_edge. rewrite adj_of_update_adj, !adj_of_add_node.
  destruct (node_eqb x u) eqn:E; cbn [andb]; [|reflexivity].
  apply node_eqb_spec in E. subst x. rewrite !has_node_add_node, node_eqb_refl, orb_true_r. cbn [orb].
  rewrite adj_lookup_adj_set. destruct (node_eqb y v); reflexivity.
Qed.

Lemma adj_lookup_adj_remove a n y : adj_lookup (adj_remove a n) y = if node_eqb y n then None else adj_lookup a y.
Proof.
  induction a as [|[w x] tl IH]; cbn [adj_remove filter adj_lookup fst]; [destruct (node_eqb y n); reflexivity|].
  fold (adj_remove tl n). destruct (node_eqb w n) eqn:Ewn; cbn [negb adj_lookup].
  - apply node_eqb_spec in Ewn. subst w. rewrite IH. rewrite (node_eqb_sym n y). destruct (node_eqb y n); reflexivity.
  - rewrite IH. destruct (node_eqb w y) eqn:Ewy; [|reflexivity]. apply node_eqb_spec in Ewy. subst. rewrite Ewn. reflexivity.
Qed.

Lemma adj_of_remove_node g n x :
  adj_of (remove_node g n) x = if node_eqb x n then [] else adj_remove (adj_of g x) n.
Proof.
  unfold remove_node. induction g as [|[w a] tl IH]; cbn [filter map adj_of fst snd].
  - destruct (node_eqb x n); reflexivity.
  - destruct (node_eqb w n) eqn:Ewn; cbn [negb map adj_of fst snd].
    + apply node_eqb_spec in Ewn. subst w. rewrite IH. rewrite (node_eqb_sym n x). destruct (node_eqb x n); reflexivity.
    + destruct (node_eqb w x) eqn:Ewx.
      * apply node_eqb_spec in Ewx. subst. rewrite Ewn. reflexivity.
      * exact IH.
Qed.

Lemma get_flow_remove_node g n x y :
  get_flow (remove_node g n) x y = if node_eqb x n || node_eqb y n then Num 0%Q else get_flow g x y.
Proof.
  unfold get_flow. rewrite adj_of_remove_node. destruct (node_eqb x n); cbn [orb adj_lookup]; [reflexivity|].
  rewrite adj_lookup_adj_remove. destruct (node_eqb y n); reflexivity.
Qed.

Lemma get_flow_add_node g n x y : get_flow (add_node g n) x y = get_flow g x y.
Proof. unfold get_flow. rewrite adj_of_add_node. reflexivity. Qed.

Fixpoint flow_after (x y : node) (es : list (node * node * expr)) (base : expr) : expr :=
  match es with
  | [] => base
  | (u, v, r) :: tl => flow_after x y tl (if node_eqb x u && node_eqb y v then r else base)
  end.

Lemma get_flow_fold_add_edge x y : forall es g,
  get_flow (fold_left (fun acc e => let '(u, v, r) := e in add_edge acc u v r) es g) x y
  = flow_after x y es (get_flow g x y).
Proof.
  induction es as [|[[u v] r] tl IH]; intros g; cbn [fold_left flow_after]; [reflexivity|].
  rewrite IH, get_flow_add_edge. reflexivity.
Qed.

Lemma flow_after_app x y es1 es2 base : flow_after x y (es1 ++ es2) base = flow_after x y es2 (flow_after x y es1 base).
Proof. revert base. induction es1 as [|[[u v] r] tl IH]; intros base; cbn [app flow_after]; [reflexivity | apply IH]. Qed.

Section Relabel1.
  Variable g : graph.
  Variables old new : node.
  Hypothesis Hwf : WF g.
  Hypothesis Hold : In old (nodes g).
  Hypothesis Hnew : ~ In new (nodes g).

  Definition ren (n : node) : node := if node_eqb n old then new else n.

  Lemma ren_inj u v : In u (nodes g) -> In v (nodes g) -> ren u = ren v -> u = v.
  Proof.
    unfold ren. intros Hu Hv. destruct (node_eqb u old) eqn:Eu, (node_eqb v old) eqn:Ev; intros E.
    - apply node_eqb_spec in Eu, Ev. congruence.
    - subst. contradiction.
    - subst. contradiction.
    - exact E.
  Qed.

  Lemma ren_eqb u v : In u (nodes g) -> In v (nodes g) -> node_eqb (ren u) (ren v) = node_eqb u v.
  Proof.
    intros Hu Hv. destruct (node_eqb u v) eqn:E.
    - apply node_eqb_spec in E. subst. apply node_eqb_refl.
    - apply node_eqb_false. intros E'. apply ren_inj in E'; try assumption. subst. rewrite node_eqb_refl in E. discriminate.
  Qed.

  Lemma ren_not_new_source x : In x (nodes g) -> x <> old -> node_eqb x new = false.
  Proof. intros Hx _. apply node_eqb_false. intros E. subst. contradiction. Qed.

  (* the out-edges of old, re-entered from new *)
  Lemma flow_after_outs v : In v (nodes g) -> forall (A : adj) base,
    NoDup (map fst A) -> (forall t r, In (t, r) A -> In t (nodes g)) ->
    flow_after new (ren v) (map (fun p => (new, (if node_eqb (fst p) old then new else fst p), snd p)) A) base
    = match adj_lookup A v with Some r => r | None => base end.
  Proof.
    intros Hv. induction A as [|[t r] tl IH]; intros base Hn Ht; cbn [map flow_after adj_lookup fst snd]; [reflexivity|].
    cbn [map fst] in Hn. inversion Hn as [|? ? Hx Hn']; subst.
    rewrite node_eqb_refl. cbn [andb]. fold (ren t).
    rewrite (node_eqb_sym (ren v) (ren t)), ren_eqb; [|eapply Ht; left; reflexivity | exact Hv].
    rewrite IH; [|exact Hn' | intros t' r' H'; eapply Ht; right; exact H'].
    destruct (node_eqb t v) eqn:E; [|reflexivity].
    apply node_eqb_spec in E. subst t.
    destruct (adj_lookup tl v) as [r'|] eqn:El; [|reflexivity].
    apply adj_lookup_In in El. exfalso. apply Hx. apply in_map_iff. exists (v, r'). split; [reflexivity | exact El].
  Qed.

  Lemma flow_after_other_source x y (A : adj) base :
    node_eqb x new = false ->
    flow_after x y (map (fun p => (new, (if node_eqb (fst p) old then new else fst p), snd p)) A) base = base.
  Proof.
    intros Hx. revert base. induction A as [|[t r] tl IH]; intros base; cbn [map flow_after fst snd]; [reflexivity|].
    rewrite Hx. cbn [andb]. apply IH.
  Qed.

  Lemma flow_after_other_target x y (l : list (node * expr)) base :
    node_eqb y new = false ->
    flow_after x y (map (fun p => ((if node_eqb (fst p) old then new else fst p), new, snd p)) l) base = base.
  Proof.
    intros Hy. revert base. induction l as [|[t r] tl IH]; intros base; cbn [map flow_after fst snd]; [reflexivity|].
    rewrite Hy, andb_false_r. apply IH.
  Qed.

  (* the in-edges of old, re-entered into new *)
  Lemma flow_after_ins u : In u (nodes g) -> forall (l : graph) base,
    NoDup (nodes l) -> (forall w, In w (nodes l) -> In w (nodes g)) ->
    flow_after (ren u) new (map (fun p => ((if node_eqb (fst p) old then new else fst p), new, snd p)) (in_edges l old)) base
    = match adj_lookup (adj_of l u) old with Some r => r | None => base end.
  Proof.
    intros Hu. induction l as [|[w a] tl IH]; intros base Hn Hsub; [reflexivity|].
    cbn [nodes map fst] in Hn. inversion Hn as [|? ? Hw Hn']; subst. fold (nodes tl) in *.
    unfold in_edges. cbn [flat_map fst snd]. fold (in_edges tl old). cbn [adj_of].
    assert (Hsub' : forall w0, In w0 (nodes tl) -> In w0 (nodes g)) by (intros w0 H0; apply Hsub; right; exact H0).
    assert (Hwg : In w (nodes g)) by (apply Hsub; left; reflexivity).
    destruct (adj_lookup a old) as [r|] eqn:El.
    - cbn [app map flow_after fst snd]. fold (ren w). rewrite node_eqb_refl, andb_true_r.
      rewrite ren_eqb by assumption. rewrite (IH _ Hn' Hsub').
      rewrite (node_eqb_sym w u). destruct (node_eqb u w) eqn:E.
      + apply node_eqb_spec in E. subst w. rewrite (adj_of_absent tl u Hw). cbn [adj_lookup]. rewrite El. reflexivity.
      + reflexivity.
    - cbn [app]. rewrite (IH _ Hn' Hsub'). destruct (node_eqb w u) eqn:E; [|reflexivity].
      apply node_eqb_spec in E. subst w. rewrite (adj_of_absent tl u Hw). cbn [adj_lookup]. rewrite El. reflexivity.
  Qed.

  Lemma in_edges_add_new : in_edges (add_node g new) old = in_edges g old.
  Proof.
    unfold add_node. rewrite (proj2 (has_node_false g new) Hnew). unfold in_edges. rewrite flat_map_app. cbn [flat_map snd adj_lookup app].
    apply app_nil_r.
  Qed.

  Theorem relabel1_flows u v :
    In u (nodes g) -> In v (nodes g) -> get_flow (relabel1 g old new) (ren u) (ren v) = get_flow g u v.
  Proof.
    intros Hu Hv. destruct Hwf as [_ [Hn Hw]]. unfold relabel1.
    rewrite get_flow_fold_add_edge, flow_after_app, adj_of_add_node, in_edges_add_new.
    rewrite get_flow_remove_node, get_flow_add_node.
    assert (Hold_adj : In (old, adj_of g old) g).
    { destruct (adj_of_cases g old) as [H|[_ H]]; [exact H | contradiction]. }
    destruct (Hw _ _ Hold_adj) as [HA1 HA2].
    assert (Hnew_old : node_eqb new old = false) by (apply node_eqb_false; intros E; subst; contradiction).
    assert (Hflow_new : forall y, get_flow g new y = Num 0%Q).
    { intros y. unfold get_flow. rewrite (adj_of_absent g new Hnew). reflexivity. }
    assert (Hflow_to_new : forall x, get_flow g x new = Num 0%Q).
    { intros x. unfold get_flow. destruct (adj_lookup (adj_of g x) new) as [r|] eqn:E; [|reflexivity].
      apply adj_lookup_In in E. destruct (adj_of_cases g x) as [H|[H _]]; [|rewrite H in E; destruct E].
      exfalso. apply Hnew. eapply (Hw _ _ H), E. }
    assert (Er : ren old = new) by (unfold ren; rewrite node_eqb_refl; reflexivity).
    pose proof (fun w (Hw0 : In w (nodes g)) base => flow_after_ins w Hw0 g base Hn (fun w' H => H)) as Hins.
    pose proof (fun w (Hw0 : In w (nodes g)) base => flow_after_outs w Hw0 _ base HA1 HA2) as Houts.
    destruct (node_eqb u old) eqn:Eu; destruct (node_eqb v old) eqn:Ev.
    - (* old -> old *)
      apply node_eqb_spec in Eu, Ev. subst u v.
      specialize (Hins old Hold). specialize (Houts old Hold). rewrite Er in Hins, Houts. rewrite Er.
      rewrite Hins, Houts, Hnew_old. cbn [orb]. rewrite Hflow_new. unfold get_flow.
      destruct (adj_lookup (adj_of g old) old); reflexivity.
    - (* old -> v *)
      apply node_eqb_spec in Eu. subst u.
      assert (Erv : ren v = v) by (unfold ren; rewrite Ev; reflexivity).
      assert (Evn : node_eqb v new = false) by (apply node_eqb_false; intros E; subst; contradiction).
      specialize (Houts v Hv). rewrite Erv in Houts. rewrite Er, Erv.
      rewrite flow_after_other_target by exact Evn.
      rewrite Houts, Hnew_old, Ev. cbn [orb]. rewrite Hflow_new.
      unfold get_flow. destruct (adj_lookup (adj_of g old) v); reflexivity.
    - (* u -> old *)
      apply node_eqb_spec in Ev. subst v.
      assert (Eru : ren u = u) by (unfold ren; rewrite Eu; reflexivity).
      assert (Eun : node_eqb u new = false) by (apply node_eqb_false; intros E; subst; contradiction).
      specialize (Hins u Hu). rewrite Eru in Hins. rewrite Er, Eru.
      rewrite (flow_after_other_source u new _ _ Eun).
      rewrite Hins, Eu, Hnew_old. cbn [orb]. rewrite Hflow_to_new.
      unfold get_flow. destruct (adj_lookup (adj_of g u) old); reflexivity.
    - (* u -> v *)
      assert (Eru : ren u = u) by (unfold ren; rewrite Eu; reflexivity).
      assert (Erv : ren v = v) by (unfold ren; rewrite Ev; reflexivity).
      assert (Eun : node_eqb u new = false) by (apply node_eqb_false; intros E; subst; contradiction).
      assert (Evn : node_eqb v new = false) by (apply node_eqb_false; intros E; subst; contradiction).
      rewrite Eru, Erv. rewrite flow_after_other_target by exact Evn.
      rewrite (flow_after_other_source u v _ _ Eun). rewrite Eu, Ev. reflexivity.
  Qed.
End Relabel1.


Lemma relabel_single g old new :
  NoDup (nodes g) -> In old (nodes g) ->
  relabel g [(old, new)] = if node_eqb new old then g else relabel1 g old new.
Proof.
  intros Hn Hin. unfold relabel.
  set (step := fun acc old0 => match map_lookup [(old, new)] old0 with
                               | Some new0 => if node_eqb new0 old0 then acc
                                              else if has_node acc old0 then relabel1 acc old0 new0 else acc
                               | None => acc end).
  assert (Hno : forall l acc, ~ In old l -> fold_left step l acc = acc).
  { induction l as [|n tl IH]; intros acc Hnot; cbn [fold_left]; [reflexivity|].
    assert (E : step acc n = acc).
    { unfold step. cbn [map_lookup]. destruct (node_eqb old n) eqn:E; [|reflexivity].
      apply node_eqb_spec in E. subst. exfalso. apply Hnot. left. reflexivity. }
    rewrite E. apply IH. intros H. apply Hnot. right. exact H. }
  assert (Hgen : forall l acc, NoDup l -> In old l -> fold_left step l acc = step acc old).
  { induction l as [|n tl IH]; intros acc Hnd Hl; [destruct Hl|]. cbn [fold_left].
    inversion Hnd as [|? ? Hx Ht]; subst. destruct Hl as [Hl|Hl].
    - subst n. apply Hno. exact Hx.
    - assert (E : step acc n = acc).
      { unfold step. cbn [map_lookup]. destruct (node_eqb old n) eqn:E; [|reflexivity].
        apply node_eqb_spec in E. subst. contradiction. }
      rewrite E. apply IH; assumption. }
  rewrite (Hgen (nodes g) g Hn Hin). unfold step. cbn [map_lookup]. rewrite node_eqb_refl.
  rewrite (proj2 (has_node_In g old) Hin). reflexivity.
Qed.

Lemma find_compartment_In g nm c : find_compartment g nm = Some c -> In (Cmt c) (nodes g) /\ c_name c = nm.
Proof.
  induction g as [|[[|c0] a] tl IH]; cbn [find_compartment nodes map fst In]; [discriminate | |].
  - intros H. destruct (IH H) as [H1 H2]. split; [right; exact H1 | exact H2].
  - destruct (name_eqb (c_name c0) nm) eqn:E.
    + intros H. injection H as <-. split; [left; reflexivity | apply name_eqb_spec, E].
    + intros H. destruct (IH H) as [H1 H2]. split; [right; exact H1 | exact H2].
Qed.

(* relabelling one compartment by an updated copy (same name) keeps every flow *)
Theorem relabel_same_name_flows g c c' u v :
  WF g -> names_unique (comps g) = true -> In (Cmt c) (nodes g) -> c_name c' = c_name c ->
  In u (nodes g) -> In v (nodes g) ->
  get_flow (relabel g [(Cmt c, Cmt c')]) (ren (Cmt c) (Cmt c') u) (ren (Cmt c) (Cmt c') v) = get_flow g u v.
Proof.
  intros Hwf Hu Hc Hname Hiu Hiv. pose proof Hwf as [_ [Hn _]].
  rewrite (relabel_single g (Cmt c) (Cmt c') Hn Hc).
  destruct (node_eqb (Cmt c') (Cmt c)) eqn:E.
  - apply node_eqb_spec in E. injection E as ->. unfold ren.
    destruct (node_eqb u (Cmt c)) eqn:Eu; [apply node_eqb_spec in Eu; subst u|];
      (destruct (node_eqb v (Cmt c)) eqn:Ev; [apply node_eqb_spec in Ev; subst v|]); reflexivity.
  - apply relabel1_flows; try assumption.
    intros Hin. apply node_eqb_false in E. apply E. f_equal.
    apply (names_unique_spec _ Hu); [apply comps_In, Hin | apply comps_In, Hc | exact Hname].
Qed.

(* the operations that replace ONE compartment by an updated copy *)
Definition updated_comp (g : graph) (o : op) : option (comp * comp) :=
  match o with
  | OSetLag nm e => option_map (fun c => (c, with_lag c e)) (find_compartment g nm)
  | OSetBio nm e => option_map (fun c => (c, with_bio c e)) (find_compartment g nm)
  | OSetInput nm e => option_map (fun c => (c, with_input c e)) (find_compartment g nm)
  | OSetDose nm a =>
      option_map (fun c => (c, with_doses c (match a with DNone => [] | DOne d => [d] | DMany l => l end)))
                 (find_compartment g nm)
  | OAddDose nm (DOne d) => option_map (fun c => (c, with_doses c (doses_prop c ++ [d]))) (find_compartment g nm)
  | OAddDose nm (DMany l) => option_map (fun c => (c, with_doses c (doses_prop c ++ l))) (find_compartment g nm)
  | ORemoveDose nm admid =>
      option_map (fun c => (c, with_doses c (match admid_true admid with
                                             | Some a => filter (fun x => negb (Z.eqb (dose_admid x) a)) (doses_prop c)
                                             | None => [] end))) (find_compartment g nm)
  | _ => None
  end.

Theorem update_ops_preserve_flows g o c c' u v :
  WF g -> names_unique (comps g) = true -> updated_comp g o = Some (c, c') ->
  In u (nodes g) -> In v (nodes g) ->
  c_name c' = c_name c /\ c_amount c' = c_amount c /\
  get_flow (fst (apply_op g o)) (ren (Cmt c) (Cmt c') u) (ren (Cmt c) (Cmt c') v) = get_flow g u v.
Proof.
  intros Hwf Hu Ho Hiu Hiv.
  destruct o; cbn [updated_comp] in Ho; try discriminate;
    try (destruct a; try discriminate);
    cbn [apply_op]; destruct (find_compartment g nm) as [c0|] eqn:Ef; try discriminate;
    cbn [option_map] in Ho; injection Ho as <- <-; cbn [fst];
    destruct (find_compartment_In _ _ _ Ef) as [Hin _];
    (split; [reflexivity | split; [reflexivity | apply relabel_same_name_flows; try assumption; reflexivity]]).
Qed.

(* ================================================================================================ *)
(* 14. In-place relabelling moves the node to the END of the node order                             *)
(* ================================================================================================ *)
Definition without (n : node) (l : list node) : list node := filter (fun x => negb (node_eqb x n)) l.

Lemma nodes_remove_node g n : nodes (remove_node g n) = without n (nodes g).
Proof.
  unfold remove_node, nodes, without. rewrite map_map. cbn [fst].
  induction g as [|[w a] tl IH]; cbn [filter map fst]; [reflexivity|].
  destruct (node_eqb w n); cbn [negb map fst]; [exact IH | f_equal; exact IH].
Qed.

Lemma nodes_add_edge_existing g u v r : In u (nodes g) -> In v (nodes g) -> nodes (add_edge g u v r) = nodes g.
Proof. intros Hu Hv. rewrite add_edge_existing by assumption. apply nodes_update_adj. Qed.

Lemma nodes_fold_add_edge (N : list node) : forall es g,
  nodes g = N -> (forall u v r, In (u, v, r) es -> In u N /\ In v N) ->
  nodes (fold_left (fun acc e => let '(u, v, r) := e in add_edge acc u v r) es g) = N.
Proof.
  induction es as [|[[u v] r] tl IH]; intros g Hg H; cbn [fold_left]; [exact Hg|].
  apply IH.
  - destruct (H u v r (or_introl eq_refl)) as [Hu Hv]. rewrite <- Hg in Hu, Hv.
    rewrite (nodes_add_edge_existing g u v r Hu Hv). exact Hg.
  - intros u' v' r' Hin. apply (H u' v' r'). right. exact Hin.
Qed.

Lemma without_In n l x : In x (without n l) <-> In x l /\ x <> n.
Proof. unfold without. rewrite filter_In, negb_true_iff, node_eqb_false. tauto. Qed.

Lemma in_edges_In g n w r : In (w, r) (in_edges g n) -> In w (nodes g).
Proof.
  unfold in_edges. intros H. apply in_flat_map in H. destruct H as [[w' a] [Hp H]]. cbn [fst snd] in H.
  destruct (adj_lookup a n); [|destruct H]. destruct H as [H|[]]. injection H as <- _.
  apply in_map_iff. exists (w', a). split; [reflexivity | exact Hp].
Qed.

Theorem relabel1_nodes_lemma g old new :
  WF g -> In old (nodes g) -> ~ In new (nodes g) ->
  nodes (relabel1 g old new) = without old (nodes g) ++ [new].
Proof.
  intros Hwf Hold Hnew. pose proof Hwf as [_ [Hn Hw]]. unfold relabel1.
  assert (Hne : node_eqb new old = false) by (apply node_eqb_false; intros E; subst; contradiction).
  assert (Hg1 : nodes (add_node g new) = nodes g ++ [new]).
  { unfold add_node. rewrite (proj2 (has_node_false g new) Hnew). rewrite nodes_app. reflexivity. }
  assert (Hg2 : nodes (remove_node (add_node g new) old) = without old (nodes g) ++ [new]).
  { rewrite nodes_remove_node, Hg1. unfold without. rewrite filter_app. cbn [filter]. rewrite Hne. reflexivity. }
  apply nodes_fold_add_edge; [exact Hg2|].
  assert (Hnew_in : In new (without old (nodes g) ++ [new])) by (apply in_or_app; right; left; reflexivity).
  assert (Hren : forall t, In t (nodes g) -> In (if node_eqb t old then new else t) (without old (nodes g) ++ [new])).
  { intros t Ht. destruct (node_eqb t old) eqn:E; [exact Hnew_in|]. apply in_or_app. left. apply without_In.
    split; [exact Ht | apply node_eqb_false, E]. }
  intros u v r Hin. apply in_app_or in Hin. destruct Hin as [Hin|Hin]; apply in_map_iff in Hin; destruct Hin as [[w x] [E Hp]]; cbn [fst snd] in E.
  - injection E as <- <- _. split; [exact Hnew_in|]. apply Hren.
    rewrite adj_of_add_node in Hp. destruct (adj_of_cases g old) as [Hc|[Hc _]]; [eapply (Hw _ _ Hc), Hp | rewrite Hc in Hp; destruct Hp].
  - injection E as <- <- _. split; [|exact Hnew_in]. apply Hren.
    rewrite (in_edges_add_new g old new Hnew) in Hp. eapply in_edges_In, Hp.
Qed.

(* the compartments after an update operation: the old one is gone, the updated copy is LAST *)
Lemma comps_of_nodes g : map Cmt (comps g) = filter is_cmt (nodes g).
Proof.
  induction g as [|[[|c] a] tl IH]; cbn [comps nodes map fst filter is_cmt]; [reflexivity | exact IH | f_equal; exact IH].
Qed.

Theorem relabel_same_name_unique g c c' :
  WF g -> names_unique (comps g) = true -> In (Cmt c) (nodes g) -> c_name c' = c_name c ->
  nodes (relabel g [(Cmt c, Cmt c')]) = (if comp_eqb c' c then nodes g else without (Cmt c) (nodes g) ++ [Cmt c']).
Proof.
  intros Hwf Hu Hc Hname. pose proof Hwf as [_ [Hn _]].
  rewrite (relabel_single g (Cmt c) (Cmt c') Hn Hc). cbn [node_eqb].
  destruct (comp_eqb c' c) eqn:E; [reflexivity|].
  apply relabel1_nodes_lemma; try assumption.
  intros Hin. apply comp_eqb_false in E. apply E.
  apply (names_unique_spec _ Hu); [apply comps_In, Hin | apply comps_In, Hc | exact Hname].
Qed.

(* ================================================================================================ *)
(* 15. to_compartmental_system                                                                      *)
(* ================================================================================================ *)
From PV Require Import C05.ToCs.

Lemma all_shapes_roundtrip : forallb (fun s => roundtrip_ok (shape_graph s)) all_shapes = true.
Proof. vm_compute. reflexivity. Qed.

Lemma odes_roundtrip_bounded_lemma s :
  In s all_shapes ->
  let g := shape_graph s in
  WF g /\ linear_distinct g = true /\ same_flows g (rebuilt g) (order g) = true.
Proof.
  intros Hin g. pose proof all_shapes_roundtrip as H. rewrite forallb_forall in H. specialize (H s Hin).
  unfold roundtrip_ok in H. apply andb_prop in H. destruct H as [H H3]. apply andb_prop in H. destruct H as [H1 H2].
  split; [apply wf_graph_WF, H1 | split; assumption].
Qed.

Lemma rebuilt_with_default amt_t g : g_default_idv amt_t g = true -> rebuilt_with amt_t g = rebuilt g.
Proof.
  unfold g_default_idv, rebuilt_with, rebuilt. rewrite forallb_forall. intros H. f_equal.
  apply map_ext_in. intros c Hc. specialize (H c Hc). apply expr_eqb_spec in H.
  unfold created_comp, default_comp. rewrite <- H. reflexivity.
Qed.

(* ================================================================================================ *)
(* 16. move_dose: two compartments relabelled at once keep every flow                               *)
(* ================================================================================================ *)
Definition rstep1 (acc : graph) (old new : node) : graph :=
  if node_eqb new old then acc else if has_node acc old then relabel1 acc old new else acc.

Lemma relabel_two g s s' d d' :
  NoDup (nodes g) -> In s (nodes g) -> In d (nodes g) -> s <> d ->
  relabel g [(s, s'); (d, d')] = rstep1 (rstep1 g s s') d d' \/
  relabel g [(s, s'); (d, d')] = rstep1 (rstep1 g d d') s s'.
Proof.
  intros Hn Hs Hd Hsd. unfold relabel.
  set (step := fun acc old0 => match map_lookup [(s, s'); (d, d')] old0 with
                               | Some new0 => if node_eqb new0 old0 then acc
                                              else if has_node acc old0 then relabel1 acc old0 new0 else acc
                               | None => acc end).
  assert (Es : forall acc, step acc s = rstep1 acc s s').
  { intros acc. unfold step, rstep1. cbn [map_lookup]. rewrite node_eqb_refl. reflexivity. }
  assert (Ed : forall acc, step acc d = rstep1 acc d d').
  { intros acc. unfold step, rstep1. cbn [map_lookup].
    assert (E : node_eqb s d = false) by (apply node_eqb_false; exact Hsd). rewrite E, node_eqb_refl. reflexivity. }
  assert (Eo : forall acc n, n <> s -> n <> d -> step acc n = acc).
  { intros acc n H1 H2. unfold step. cbn [map_lookup].
    assert (E1 : node_eqb s n = false) by (apply node_eqb_false; congruence).
    assert (E2 : node_eqb d n = false) by (apply node_eqb_false; congruence). rewrite E1, E2. reflexivity. }
  assert (Hnone : forall l acc, ~ In s l -> ~ In d l -> fold_left step l acc = acc).
  { induction l as [|n tl IH]; intros acc H1 H2; cbn [fold_left]; [reflexivity|].
    rewrite Eo; [apply IH|..]; cbn [In] in *; tauto. }
  assert (Hone : forall k l acc, (k = s \/ k = d) -> NoDup l -> In k l ->
                                 (forall k', (k' = s \/ k' = d) -> k' <> k -> ~ In k' l) -> fold_left step l acc = step acc k).
  { intros k. induction l as [|n tl IH]; intros acc Hk Hnd Hin Hother; [destruct Hin|]. cbn [fold_left].
    inversion Hnd as [|? ? Hx Ht]; subst. destruct Hin as [Hin|Hin].
    - subst n. apply Hnone.
      + destruct Hk as [-> | ->]; [exact Hx | intros H; apply (Hother s); [left; reflexivity | congruence | right; exact H]].
      + destruct Hk as [-> | ->]; [intros H; apply (Hother d); [right; reflexivity | congruence | right; exact H] | exact Hx].
    - assert (Hns : n <> s).
      { intros E. subst n. destruct Hk as [-> | ->]; [contradiction|]. apply (Hother s); [left; reflexivity | exact Hsd | left; reflexivity]. }
      assert (Hnd' : n <> d).
      { intros E. subst n. destruct Hk as [-> | ->]; [|contradiction]. apply (Hother d); [right; reflexivity | congruence | left; reflexivity]. }
      rewrite Eo by assumption. apply IH; try assumption. intros k' H1 H2 H3. apply (Hother k' H1 H2). right. exact H3. }
  assert (Hgen : forall l acc, NoDup l -> In s l -> In d l ->
                               fold_left step l acc = step (step acc s) d \/ fold_left step l acc = step (step acc d) s).
  { induction l as [|n tl IH]; intros acc Hnd H1 H2; [destruct H1|]. cbn [fold_left].
    inversion Hnd as [|? ? Hx Ht]; subst. destruct H1 as [H1|H1], H2 as [H2|H2].
    - congruence.
    - subst n. left. apply (Hone d); [right; reflexivity | exact Ht | exact H2|].
      intros k' [-> | ->] Hk'; [exact Hx | congruence].
    - subst n. right. apply (Hone s); [left; reflexivity | exact Ht | exact H1|].
      intros k' [-> | ->] Hk'; [congruence | exact Hx].
    - rewrite Eo; [apply IH; assumption | intros E; subst; contradiction | intros E; subst; contradiction]. }
  destruct (Hgen (nodes g) g Hn Hs Hd) as [H|H]; [left | right]; rewrite H, ?Es, ?Ed; reflexivity.
Qed.

Lemma rstep1_WF g old new : WF g -> old <> Out -> new <> Out -> WF (rstep1 g old new).
Proof.
  intros Hwf Ho Hn. unfold rstep1. destruct (node_eqb new old); [exact Hwf|]. destruct (has_node g old); [|exact Hwf].
  apply relabel1_WF; assumption.
Qed.

Lemma rstep1_flows g old new u v :
  WF g -> In old (nodes g) -> (new = old \/ ~ In new (nodes g)) -> In u (nodes g) -> In v (nodes g) ->
  get_flow (rstep1 g old new) (ren old new u) (ren old new v) = get_flow g u v.
Proof.
  intros Hwf Hold Hnew Hu Hv. unfold rstep1. destruct (node_eqb new old) eqn:E.
  - apply node_eqb_spec in E. subst new. unfold ren.
    destruct (node_eqb u old) eqn:Eu; [apply node_eqb_spec in Eu; subst u|];
      (destruct (node_eqb v old) eqn:Ev; [apply node_eqb_spec in Ev; subst v|]); reflexivity.
  - rewrite (proj2 (has_node_In g old) Hold). apply relabel1_flows; try assumption.
    destruct Hnew as [Hnew|Hnew]; [subst; rewrite node_eqb_refl in E; discriminate | exact Hnew].
Qed.

Lemma rstep1_nodes_In g old new n :
  WF g -> In old (nodes g) -> (new = old \/ ~ In new (nodes g)) ->
  In n (nodes (rstep1 g old new)) <-> (In n (nodes g) /\ n <> old) \/ n = new.
Proof.
  intros Hwf Hold Hnew. unfold rstep1. destruct (node_eqb new old) eqn:E.
  - apply node_eqb_spec in E. subst new. split.
    + intros H. destruct (node_eqb n old) eqn:En; [apply node_eqb_spec in En; right; exact En | left; split; [exact H | apply node_eqb_false, En]].
    + intros [[H _]|H]; [exact H | subst; exact Hold].
  - rewrite (proj2 (has_node_In g old) Hold).
    destruct Hnew as [Hnew|Hnew]; [subst; rewrite node_eqb_refl in E; discriminate|].
    rewrite (relabel1_nodes_lemma g old new Hwf Hold Hnew), in_app_iff, without_In. cbn [In]. intuition.
Qed.

Lemma two_step_flows g k1 v1 k2 v2 u v :
  WF g -> In k1 (nodes g) -> In k2 (nodes g) -> k1 <> k2 -> k1 <> Out -> k2 <> Out -> v1 <> Out ->
  (v1 = k1 \/ ~ In v1 (nodes g)) -> (v2 = k2 \/ ~ In v2 (nodes g)) -> v1 <> v2 ->
  In u (nodes g) -> In v (nodes g) ->
  get_flow (rstep1 (rstep1 g k1 v1) k2 v2) (ren k2 v2 (ren k1 v1 u)) (ren k2 v2 (ren k1 v1 v)) = get_flow g u v.
Proof.
  intros Hwf H1 H2 Hne Ho1 Ho2 Hov1 Hv1 Hv2 Hvv Hu Hv.
  assert (Hwf1 : WF (rstep1 g k1 v1)) by (apply rstep1_WF; assumption).
  assert (Hin1 : forall x, In x (nodes g) -> In (ren k1 v1 x) (nodes (rstep1 g k1 v1))).
  { intros x Hx. apply (rstep1_nodes_In g k1 v1 _ Hwf H1 Hv1). unfold ren.
    destruct (node_eqb x k1) eqn:E; [right; reflexivity | left; split; [exact Hx | apply node_eqb_false, E]]. }
  rewrite rstep1_flows; try assumption.
  - apply rstep1_flows; assumption.
  - apply (rstep1_nodes_In g k1 v1 _ Hwf H1 Hv1). left. split; [exact H2 | congruence].
  - destruct Hv2 as [Hv2|Hv2]; [left; exact Hv2|]. right. intros Hin.
    apply (rstep1_nodes_In g k1 v1 _ Hwf H1 Hv1) in Hin. destruct Hin as [[Hin _]|Hin]; [contradiction | congruence].
  - apply Hin1, Hu.
  - apply Hin1, Hv.
Qed.

Lemma ren_comm k1 v1 k2 v2 x :
  k1 <> k2 -> v1 <> k2 -> v2 <> k1 -> ren k2 v2 (ren k1 v1 x) = ren k1 v1 (ren k2 v2 x).
Proof.
  intros H12 H1 H2. unfold ren.
  assert (Ea : node_eqb v1 k2 = false) by (apply node_eqb_false; exact H1).
  assert (Eb : node_eqb v2 k1 = false) by (apply node_eqb_false; exact H2).
  destruct (node_eqb x k1) eqn:E1; destruct (node_eqb x k2) eqn:E2; cbv beta iota;
    rewrite ?Ea, ?Eb, ?E1, ?E2; try reflexivity.
  apply node_eqb_spec in E1, E2. congruence.
Qed.

(* the renaming made by move_dose *)
Definition ren2 (s s' d d' n : node) : node := ren d d' (ren s s' n).

Theorem relabel_two_flows g s s' d d' u v :
  WF g -> In s (nodes g) -> In d (nodes g) -> s <> d -> s <> Out -> d <> Out -> s' <> Out -> d' <> Out ->
  (s' = s \/ ~ In s' (nodes g)) -> (d' = d \/ ~ In d' (nodes g)) -> s' <> d' ->
  In u (nodes g) -> In v (nodes g) ->
  get_flow (relabel g [(s, s'); (d, d')]) (ren2 s s' d d' u) (ren2 s s' d d' v) = get_flow g u v.
Proof.
  intros Hwf Hs Hd Hsd Hos Hod Hos' Hod' Hs' Hd' Hsd' Hu Hv. pose proof Hwf as [_ [Hn _]].
  destruct (relabel_two g s s' d d' Hn Hs Hd Hsd) as [E|E]; rewrite E; unfold ren2.
  - apply two_step_flows; assumption.
  - assert (Hc : forall x, ren d d' (ren s s' x) = ren s s' (ren d d' x)).
    { intros x. apply ren_comm; [exact Hsd | | ].
      - destruct Hs' as [->|Hs']; [exact Hsd | intros E'; subst; contradiction].
      - destruct Hd' as [->|Hd']; [congruence | intros E'; subst; contradiction]. }
    rewrite !Hc. apply two_step_flows; try assumption; congruence.
Qed.

(* move_dose: source and destination are replaced by copies with other doses (same name, amount, input, lag
   time, bioavailability); every flow is kept; every other compartment is untouched *)
Theorem move_dose_preserves_flows_lemma g sn dn admid src dst g' :
  WF g -> names_unique (comps g) = true ->
  find_compartment g sn = Some src -> find_compartment g dn = Some dst ->
  apply_op g (OMoveDose sn dn admid) = (g', None) ->
  exists src' dst',
    (c_name src' = c_name src /\ c_amount src' = c_amount src /\ c_input src' = c_input src /\
     c_lag src' = c_lag src /\ c_bio src' = c_bio src) /\
    (c_name dst' = c_name dst /\ c_amount dst' = c_amount dst /\ c_input dst' = c_input dst /\
     c_lag dst' = c_lag dst /\ c_bio dst' = c_bio dst) /\
    (forall n, In n (nodes g) -> n <> Cmt src -> n <> Cmt dst -> ren2 (Cmt src) (Cmt src') (Cmt dst) (Cmt dst') n = n) /\
    (forall u v, In u (nodes g) -> In v (nodes g) ->
       get_flow g' (ren2 (Cmt src) (Cmt src') (Cmt dst) (Cmt dst') u) (ren2 (Cmt src) (Cmt src') (Cmt dst) (Cmt dst') v)
       = get_flow g u v).
Proof.
  intros Hwf Hu Hfs Hfd Hop. cbn [apply_op] in Hop. rewrite Hfs, Hfd in Hop.
  destruct (doses_prop src) as [|d0 dl] eqn:Edp; [discriminate|].
  destruct (match admid_true admid with
            | Some a => (filter (fun x => negb (Z.eqb (dose_admid x) a)) (d0 :: dl), filter (fun x => Z.eqb (dose_admid x) a) (d0 :: dl))
            | None => ([], d0 :: dl) end) as [new_sd moved] eqn:Em.
  destruct (find_compartment_In _ _ _ Hfs) as [Hs _]. destruct (find_compartment_In _ _ _ Hfd) as [Hd _].
  assert (Hfresh : forall c c', In (Cmt c) (nodes g) -> c_name c' = c_name c -> Cmt c' = Cmt c \/ ~ In (Cmt c') (nodes g)).
  { intros c c' Hc Hn. destruct (comp_eqb c' c) eqn:E; [left; apply comp_eqb_spec in E; subst; reflexivity|].
    right. intros Hin. apply comp_eqb_false in E. apply E.
    apply (names_unique_spec _ Hu); [apply comps_In, Hin | apply comps_In, Hc | exact Hn]. }
  destruct (comp_eqb src dst) eqn:Esd.
  - (* source == destination: one entry, the destination value wins *)
    apply comp_eqb_spec in Esd. subst dst. injection Hop as <-.
    exists (with_doses src (doses_prop src ++ moved)), (with_doses src (doses_prop src ++ moved)).
    repeat split; try reflexivity.
    + intros n Hn H1 _. unfold ren2, ren. assert (E : node_eqb n (Cmt src) = false) by (apply node_eqb_false; exact H1).
      rewrite E, E. reflexivity.
    + intros u v Hiu Hiv. rewrite Edp.
      set (c' := with_doses src ((d0 :: dl) ++ moved)).
      assert (Hr : forall x, In x (nodes g) -> ren2 (Cmt src) (Cmt c') (Cmt src) (Cmt c') x = ren (Cmt src) (Cmt c') x).
      { intros x Hx. unfold ren2, ren. destruct (node_eqb x (Cmt src)) eqn:E; [|rewrite E; reflexivity].
        destruct (node_eqb (Cmt c') (Cmt src)); reflexivity. }
      rewrite (Hr u Hiu), (Hr v Hiv). apply relabel_same_name_flows; try assumption. reflexivity.
  - apply comp_eqb_false in Esd. injection Hop as <-.
    exists (with_doses src new_sd), (with_doses dst (doses_prop dst ++ moved)).
    split; [repeat split; reflexivity|]. split; [repeat split; reflexivity|]. split.
    + intros n Hn H1 H2. unfold ren2, ren. assert (E1 : node_eqb n (Cmt src) = false) by (apply node_eqb_false; exact H1).
      assert (E2 : node_eqb n (Cmt dst) = false) by (apply node_eqb_false; exact H2). rewrite E1, E2. reflexivity.
    + intros u v Hiu Hiv. apply relabel_two_flows; try assumption; try discriminate.
      * intros E. injection E as E. contradiction.
      * apply Hfresh; [exact Hs | reflexivity].
      * apply Hfresh; [exact Hd | reflexivity].
      * intros E. apply (f_equal (fun n => match n with Cmt c => c_name c | Out => [] end)) in E. cbn in E.
        apply Esd. apply (names_unique_spec _ Hu); [apply comps_In, Hs | apply comps_In, Hd | exact E].
Qed.

(* ================================================================================================ *)
(* 17. to_compartmental_system: the round trip for systems of ANY size                              *)
(* ================================================================================================ *)
Lemma fold_left_flat_map {A B C} (f : A -> C -> A) (h : B -> list C) (l : list B) (a : A) :
  fold_left f (flat_map h l) a = fold_left (fun a x => fold_left f (h x) a) l a.
Proof. revert a. induction l as [|x tl IH]; intros a; cbn [flat_map fold_left]; [reflexivity|]. rewrite fold_left_app. apply IH. Qed.

Lemma fold_left_pair {A B C} (f : A -> C -> A) (h : B -> C -> B) (step : A * B -> C -> A * B) :
  (forall a b x, step (a, b) x = (f a x, h b x)) ->
  forall l a b, fold_left step l (a, b) = (fold_left f l a, fold_left h l b).
Proof. intros H. induction l as [|x tl IH]; intros a b; cbn [fold_left]; [reflexivity|]. rewrite H. apply IH. Qed.

Lemma fold_left_ext_in {A B} (f h : A -> B -> A) (l : list B) :
  (forall x a, In x l -> f a x = h a x) -> forall a, fold_left f l a = fold_left h l a.
Proof.
  induction l as [|x tl IH]; intros H a; cbn [fold_left]; [reflexivity|].
  rewrite (H x a (or_introl eq_refl)). apply IH. intros y b Hy. apply H. right. exact Hy.
Qed.

Definition triple := (nat * nat * term)%type.
Definition triples (eqs : list leq) : list triple :=
  flat_map (fun i => flat_map (fun j => map (fun t => (i, j, t)) (filter (has_amount j) (nth_leq eqs i)))
                              (seq 0 (length eqs))) (seq 0 (length eqs)).

Definition gstep (cmts : list comp) (eqs : list leq) (g : graph) (tr : triple) : graph :=
  let '(i, j, t) := tr in
  if t_pos t then
    match find_from eqs t with
    | Some f =>
        let from := Cmt (nthc cmts f) in
        let to := Cmt (nthc cmts i) in
        let cur := get_flow g from to in
        add_edge g from to (if expr_eqb cur (Num 0%Q) then t_k t else Add (t_k t) cur)
    | None => g
    end
  else g.

Definition nstep (eqs : list leq) (ne : list leq) (tr : triple) : list leq :=
  let '(i, j, t) := tr in
  if t_pos t then
    match find_from eqs t with
    | Some f =>
        let ne1 := set_nth ne i (sub_term (nth_leq ne i) t) in
        if Nat.eqb i j then ne1 else set_nth ne1 j (add_term (nth_leq ne1 j) t)
    | None => ne
    end
  else ne.

Definition step3 (cmts : list comp) (eqs : list leq) (st : graph * list leq) (tr : triple) : graph * list leq :=
  let '(i, j, t) := tr in step_term cmts eqs i j st t.

Lemma main_flat cmts eqs st0 :
  fold_left (step_eq cmts eqs) (seq 0 (length eqs)) st0 = fold_left (step3 cmts eqs) (triples eqs) st0.
Proof.
  unfold triples. rewrite fold_left_flat_map. apply fold_left_ext_in. intros i st _.
  unfold step_eq. rewrite fold_left_flat_map. apply fold_left_ext_in. intros j st1 _.
  generalize (filter (has_amount j) (nth_leq eqs i)) as l. intros l. revert st1.
  induction l as [|t tl IH]; intros st1; cbn [map fold_left]; [reflexivity | apply IH].
Qed.

Lemma main_loop_split cmts eqs g0 ne0 :
  fold_left (step_eq cmts eqs) (seq 0 (length eqs)) (g0, ne0)
  = (fold_left (gstep cmts eqs) (triples eqs) g0, fold_left (nstep eqs) (triples eqs) ne0).
Proof.
  rewrite main_flat. apply fold_left_pair.
  intros a b [[i j] t]. unfold step3, step_term, gstep, nstep. destruct (t_pos t); [|reflexivity].
  destruct (find_from eqs t); reflexivity.
Qed.

(* ---- generic list facts ---------------------------------------------------------------------------- *)
Lemma NoDup_flat_map {A B} (h : A -> list B) (l : list A) :
  NoDup l -> (forall x, In x l -> NoDup (h x)) ->
  (forall x y z, In x l -> In y l -> In z (h x) -> In z (h y) -> x = y) -> NoDup (flat_map h l).
Proof.
  induction l as [|a tl IH]; intros Hn H1 H2; cbn [flat_map]; [constructor|].
  inversion Hn as [|? ? Ha Ht]; subst. apply NoDup_app_intro.
  - apply H1. left. reflexivity.
  - apply IH; [exact Ht | intros x Hx; apply H1; right; exact Hx|].
    intros x y z Hx Hy. apply H2; right; assumption.
  - intros z Hz Hz'. apply in_flat_map in Hz'. destruct Hz' as [y [Hy Hzy]].
    assert (a = y) by (apply (H2 a y z); [left; reflexivity | right; exact Hy | exact Hz | exact Hzy]).
    subst. contradiction.
Qed.

Lemma filter_flat_map {A B} (p : B -> bool) (h : A -> list B) (l : list A) :
  filter p (flat_map h l) = flat_map (fun x => filter p (h x)) l.
Proof. induction l as [|a tl IH]; cbn [flat_map]; [reflexivity|]. rewrite filter_app, IH. reflexivity. Qed.

Lemma filter_map_comm {A B} (p : B -> bool) (f : A -> B) (l : list A) :
  filter p (map f l) = map f (filter (fun x => p (f x)) l).
Proof. induction l as [|a tl IH]; cbn [map filter]; [reflexivity|]. destruct (p (f a)); cbn [map]; rewrite IH; reflexivity. Qed.

Lemma flat_map_ext_in {A B} (f h : A -> list B) (l : list A) :
  (forall x, In x l -> f x = h x) -> flat_map f l = flat_map h l.
Proof.
  induction l as [|a tl IH]; intros H; cbn [flat_map]; [reflexivity|].
  rewrite (H a (or_introl eq_refl)), IH; [reflexivity|]. intros x Hx. apply H. right. exact Hx.
Qed.

Lemma filter_all {A} (p : A -> bool) l : (forall t, In t l -> p t = true) -> filter p l = l.
Proof.
  induction l as [|a tl IH]; intros H; cbn [filter]; [reflexivity|].
  rewrite (H a (or_introl eq_refl)), IH; [reflexivity|]. intros t Ht. apply H. right. exact Ht.
Qed.
Lemma filter_none {A} (p : A -> bool) l : (forall t, In t l -> p t = false) -> filter p l = [].
Proof.
  induction l as [|a tl IH]; intros H; cbn [filter]; [reflexivity|].
  rewrite (H a (or_introl eq_refl)). apply IH. intros t Ht. apply H. right. exact Ht.
Qed.

(* a family indexed by a range, member j only has elements "of colour j": filtering by colour picks member j *)
Lemma filter_colour (col : nat -> term -> bool) (f : nat -> list term) :
  (forall j t, In t (f j) -> forall j', col j' t = Nat.eqb j' j) ->
  forall m s j, filter (col j) (flat_map f (seq s m)) = if (s <=? j) && (j <? s + m) then f j else [].
Proof.
  intros H. induction m as [|m IH]; intros s j; cbn [seq flat_map filter].
  - destruct (s <=? j) eqn:E1; cbn [andb]; [|reflexivity]. destruct (j <? s + 0) eqn:E2; [|reflexivity].
    apply Nat.leb_le in E1. apply Nat.ltb_lt in E2. lia.
  - rewrite filter_app, IH. destruct (Nat.eq_dec j s) as [E|E].
    + subst s. rewrite filter_all by (intros t Ht; rewrite (H j t Ht); apply Nat.eqb_refl).
      assert (E1 : (S j <=? j) = false) by (apply Nat.leb_gt; lia).
      assert (E2 : (j <=? j) = true) by (apply Nat.leb_le; lia).
      assert (E3 : (j <? j + S m) = true) by (apply Nat.ltb_lt; lia).
      rewrite E1, E2, E3. cbn [andb]. apply app_nil_r.
    + rewrite filter_none by (intros t Ht; rewrite (H s t Ht); apply Nat.eqb_neq; exact E). cbn [app].
      destruct (S s <=? j) eqn:E1, (s <=? j) eqn:E2, (j <? S s + m) eqn:E3, (j <? s + S m) eqn:E4; cbn [andb]; try reflexivity;
        rewrite ?Nat.leb_le, ?Nat.leb_gt, ?Nat.ltb_lt, ?Nat.ltb_ge in *; lia.
Qed.

Lemma fold_gstep_skip cmts eqs L : forall acc,
  fold_left (gstep cmts eqs) L acc = fold_left (gstep cmts eqs) (filter (fun tr : triple => t_pos (snd tr)) L) acc.
Proof.
  induction L as [|[[i j] t] tl IH]; intros acc; cbn [filter fold_left snd]; [reflexivity|].
  destruct (t_pos t) eqn:E; cbn [fold_left]; [apply IH|].
  unfold gstep at 2. rewrite E. apply IH.
Qed.

Lemma find_from_unique eqs t f :
  f < length eqs -> existsb (term_eqb (tneg t)) (nth_leq eqs f) = true ->
  (forall f', f' < length eqs -> existsb (term_eqb (tneg t)) (nth_leq eqs f') = true -> f' = f) ->
  find_from eqs t = Some f.
Proof.
  intros Hf Hin Huniq. unfold find_from. unfold nth_leq in *.
  assert (H : forall (l : list leq) s acc,
             (forall k, k < length l -> existsb (term_eqb (tneg t)) (nth k l []) = true -> s + k = f) ->
             ((exists k, k < length l /\ existsb (term_eqb (tneg t)) (nth k l []) = true) \/ acc = Some f) ->
             fold_left (fun acc ie => if existsb (term_eqb (tneg t)) (snd ie) then Some (fst ie) else acc)
                       (combine (seq s (length l)) l) acc = Some f).
  { induction l as [|row tl IH]; intros s acc H1 H2; cbn [length seq combine fold_left].
    - destruct H2 as [[k [Hk _]]|H2]; [cbn in Hk; lia | exact H2].
    - cbn [fst snd]. apply IH.
      + intros k Hk Hex. specialize (H1 (S k)). cbn [length nth] in H1. rewrite <- H1; [lia | lia | exact Hex].
      + destruct (existsb (term_eqb (tneg t)) row) eqn:E.
        * right. f_equal. specialize (H1 0). cbn [length nth] in H1. rewrite <- H1; [lia | lia | exact E].
        * destruct H2 as [[k [Hk Hex]]|H2]; [|right; exact H2].
          destruct k as [|k]; [cbn [nth] in Hex; congruence|]. left. exists k. cbn [length nth] in Hk, Hex. split; [lia | exact Hex]. }
  apply H.
  - intros k Hk Hex. cbn [plus]. apply Huniq; assumption.
  - left. exists f. split; assumption.
Qed.

Section RoundTrip.
  Variable g : graph.
  Hypothesis Hwf : WF g.
  Hypothesis Hld : linear_distinct g = true.

  Local Notation ns := (order g).
  Local Notation n := (length (order g)).
  Local Notation eqs := (terms_of g).
  Local Notation cmts := (map default_comp (order g)).
  Local Notation cn i := (nthc (order g) i).
  Local Notation dcn i := (Cmt (nthc (map default_comp (order g)) i)).

  Definition inflow_term (i j : nat) : leq :=
    if Nat.eqb i j then []
    else match adj_lookup (adj_of g (Cmt (cn j))) (Cmt (cn i)) with Some k => [mkT true k (Some j)] | None => [] end.
  Definition outflow_terms (i : nat) : leq :=
    flat_map (fun e => if node_eqb (fst e) (Cmt (cn i)) then [] else [mkT false (snd e) (Some i)]) (adj_of g (Cmt (cn i))).
  Definition input_terms (i : nat) : leq := if has_input (cn i) then [mkT true (c_input (cn i)) None] else [].

  Lemma ld_parts : no_self_loop g = true /\ names_unique (comps g) = true.
  Proof.
    pose proof Hld as H. unfold linear_distinct in H.
    apply andb_prop in H. destruct H as [H _]. apply andb_prop in H. destruct H as [H _].
    apply andb_prop in H. destruct H as [H _]. apply andb_prop in H. exact H.
  Qed.

  Lemma ns_NoDup : NoDup ns.
  Proof. apply (Permutation_NoDup (Permutation_sym (order_perm_lemma g Hwf))). apply comps_NoDup, Hwf. Qed.

  Lemma cn_in i : i < n -> In (cn i) (comps g).
  Proof. intros H. apply (Permutation_in _ (order_perm_lemma g Hwf)). apply nthc_In, H. Qed.

  Lemma cn_inj i j : i < n -> j < n -> cn i = cn j -> i = j.
  Proof. intros Hi Hj E. apply (proj1 (NoDup_nth ns dflt) ns_NoDup i j Hi Hj E). Qed.

  Lemma dcn_eq i : nthc cmts i = default_comp (cn i).
  Proof. unfold nthc. change dflt with (default_comp dflt) at 1. apply map_nth. Qed.

  Lemma dcn_inj i j : i < n -> j < n -> dcn i = dcn j -> i = j.
  Proof.
    intros Hi Hj E. injection E as E. rewrite !dcn_eq in E. apply cn_inj; try assumption.
    apply (names_unique_spec _ (proj2 ld_parts)); [apply cn_in, Hi | apply cn_in, Hj|].
    apply (f_equal c_name) in E. exact E.
  Qed.

  Lemma eqs_length : length eqs = n.
  Proof. unfold terms_of. rewrite map_length, seq_length. reflexivity. Qed.

  Lemma row_eq i : i < n ->
    nth_leq eqs i = flat_map (inflow_term i) (seq 0 n) ++ outflow_terms i ++ input_terms i.
  Proof. intros Hi. unfold nth_leq, terms_of. rewrite (nth_map_seq (terms_of_row g ns) [] n i Hi). reflexivity. Qed.

  Lemma active_row i j : i < n -> j < n ->
    filter t_pos (filter (has_amount j) (nth_leq eqs i)) = inflow_term i j.
  Proof.
    intros Hi Hj. rewrite (row_eq i Hi), !filter_app.
    rewrite (filter_colour has_amount (inflow_term i)).
    - assert (E1 : (0 <=? j) = true) by (apply Nat.leb_le; lia).
      assert (E2 : (j <? 0 + n) = true) by (apply Nat.ltb_lt; lia). rewrite E1, E2. cbn [andb].
      rewrite (filter_all t_pos (inflow_term i j)).
      + rewrite (filter_none t_pos), (filter_none (has_amount j) (input_terms i)); [cbn [filter]; rewrite !app_nil_r; reflexivity | |].
        * intros t Ht. unfold input_terms in Ht. destruct (has_input (cn i)); [|destruct Ht]. destruct Ht as [<-|[]]. reflexivity.
        * intros t Ht. apply filter_In in Ht. destruct Ht as [Ht _]. unfold outflow_terms in Ht. apply in_flat_map in Ht.
          destruct Ht as [e [_ Ht]]. destruct (node_eqb (fst e) (Cmt (cn i))); [destruct Ht|]. destruct Ht as [<-|[]]. reflexivity.
      + intros t Ht. unfold inflow_term in Ht. destruct (Nat.eqb i j); [destruct Ht|].
        destruct (adj_lookup _ _); [|destruct Ht]. destruct Ht as [<-|[]]. reflexivity.
    - intros j0 t Ht j'. unfold inflow_term in Ht. destruct (Nat.eqb i j0); [destruct Ht|].
      destruct (adj_lookup _ _); [|destruct Ht]. destruct Ht as [<-|[]]. unfold has_amount. cbn [t_a oa_eqb]. apply Nat.eqb_sym.
  Qed.

  Definition active : list triple :=
    flat_map (fun i => flat_map (fun j => map (fun t => (i, j, t)) (inflow_term i j)) (seq 0 n)) (seq 0 n).

  Lemma active_triples : filter (fun tr : triple => t_pos (snd tr)) (triples eqs) = active.
  Proof.
    unfold triples, active. rewrite eqs_length, filter_flat_map. apply flat_map_ext_in. intros i Hi. apply in_seq in Hi.
    rewrite filter_flat_map. apply flat_map_ext_in. intros j Hj. apply in_seq in Hj.
    rewrite filter_map_comm. cbn [snd]. rewrite active_row by lia. reflexivity.
  Qed.

  Lemma term_eqb_refl t : term_eqb t t = true.
  Proof.
    unfold term_eqb. rewrite eqb_reflx, (proj2 (expr_eqb_spec _ _) eq_refl). destruct (t_a t); cbn; [apply Nat.eqb_refl | reflexivity].
  Qed.

  Lemma term_eqb_parts s t : term_eqb s t = true -> t_pos s = t_pos t /\ t_k s = t_k t /\ t_a s = t_a t.
  Proof.
    unfold term_eqb. intros H. apply andb_prop in H. destruct H as [H H3]. apply andb_prop in H. destruct H as [H1 H2].
    apply eqb_prop in H1. apply expr_eqb_spec in H2. split; [exact H1 | split; [exact H2|]].
    destruct (t_a s), (t_a t); cbn in H3; try discriminate; [apply Nat.eqb_eq in H3; subst|]; reflexivity.
  Qed.

  Lemma no_self_flow c : get_flow g (Cmt c) (Cmt c) = Num 0%Q.
  Proof.
    unfold get_flow. destruct (adj_of_cases g (Cmt c)) as [Hin|[E _]]; [|rewrite E; reflexivity].
    pose proof (proj1 ld_parts) as H. unfold no_self_loop in H. rewrite forallb_forall in H. specialize (H _ Hin). cbn [fst] in H.
    unfold has_edge in H. destruct (adj_lookup (adj_of g (Cmt c)) (Cmt c)); [discriminate | reflexivity].
  Qed.

  Lemma neg_in_row f x : f < n -> In x (nth_leq eqs f) -> t_pos x = false -> t_a x = Some f.
  Proof.
    intros Hf Hin Hneg. rewrite (row_eq f Hf) in Hin. apply in_app_or in Hin. destruct Hin as [Hin|Hin].
    - apply in_flat_map in Hin. destruct Hin as [j [_ Hin]]. unfold inflow_term in Hin. destruct (Nat.eqb f j); [destruct Hin|].
      destruct (adj_lookup _ _); [|destruct Hin]. destruct Hin as [<-|[]]. discriminate.
    - apply in_app_or in Hin. destruct Hin as [Hin|Hin].
      + unfold outflow_terms in Hin. apply in_flat_map in Hin. destruct Hin as [e [_ Hin]].
        destruct (node_eqb (fst e) (Cmt (cn f))); [destruct Hin|]. destruct Hin as [<-|[]]. reflexivity.
      + unfold input_terms in Hin. destruct (has_input (cn f)); [|destruct Hin]. destruct Hin as [<-|[]]. discriminate.
  Qed.

  Lemma find_inflow i j k : i < n -> j < n -> i <> j ->
    adj_lookup (adj_of g (Cmt (cn j))) (Cmt (cn i)) = Some k -> find_from eqs (mkT true k (Some j)) = Some j.
  Proof.
    intros Hi Hj Hij Hl. apply find_from_unique.
    - rewrite eqs_length. exact Hj.
    - apply existsb_exists. exists (mkT false k (Some j)). split; [|apply term_eqb_refl].
      rewrite (row_eq j Hj). apply in_or_app. right. apply in_or_app. left. unfold outflow_terms. apply in_flat_map.
      exists (Cmt (cn i), k). split; [apply adj_lookup_In, Hl|]. cbn [fst snd].
      assert (E : node_eqb (Cmt (cn i)) (Cmt (cn j)) = false).
      { apply node_eqb_false. intros E. injection E as E. apply Hij. apply cn_inj; assumption. }
      rewrite E. left. reflexivity.
    - intros f' Hf' Hex. rewrite eqs_length in Hf'. apply existsb_exists in Hex. destruct Hex as [x [Hx Ex]].
      apply term_eqb_parts in Ex. cbn [tneg t_pos t_k t_a negb] in Ex. destruct Ex as [E1 [_ E3]].
      pose proof (neg_in_row f' x Hf' Hx (eq_sym E1)) as Ha. rewrite <- E3 in Ha. injection Ha as Ha. symmetry. exact Ha.
  Qed.

  Definition act_ok (tr : triple) : Prop :=
    let '(i, j, t) := tr in
    i < n /\ j < n /\ i <> j /\
    exists k, adj_lookup (adj_of g (Cmt (cn j))) (Cmt (cn i)) = Some k /\ t = mkT true k (Some j).

  Lemma active_In i j t : In (i, j, t) active <-> i < n /\ j < n /\ In t (inflow_term i j).
  Proof.
    unfold active. rewrite in_flat_map. split.
    - intros [i' [Hi' H]]. apply in_flat_map in H. destruct H as [j' [Hj' H]]. apply in_map_iff in H.
      destruct H as [t' [E Ht']]. injection E as <- <- <-. apply in_seq in Hi', Hj'. repeat split; try lia. exact Ht'.
    - intros [Hi [Hj Ht]]. exists i. split; [apply in_seq; lia|]. apply in_flat_map. exists j. split; [apply in_seq; lia|].
      apply in_map_iff. exists t. split; [reflexivity | exact Ht].
  Qed.

  Lemma active_ok tr : In tr active -> act_ok tr.
  Proof.
    destruct tr as [[i j] t]. intros H. apply active_In in H. destruct H as [Hi [Hj Ht]]. unfold inflow_term in Ht.
    destruct (Nat.eqb i j) eqn:E; [destruct Ht|]. apply Nat.eqb_neq in E.
    destruct (adj_lookup (adj_of g (Cmt (cn j))) (Cmt (cn i))) as [k|] eqn:El; [|destruct Ht]. destruct Ht as [<-|[]].
    repeat split; try assumption. exists k. split; [exact El | reflexivity].
  Qed.

  Definition pr (tr : triple) : nat * nat := (fst (fst tr), snd (fst tr)).

  Lemma map_flat_map {A B C} (f : B -> C) (h : A -> list B) (l : list A) :
    map f (flat_map h l) = flat_map (fun x => map f (h x)) l.
  Proof. induction l as [|a tl IH]; cbn [flat_map map]; [reflexivity|]. rewrite map_app, IH. reflexivity. Qed.

  Lemma active_pairs_NoDup : NoDup (map pr active).
  Proof.
    unfold active. rewrite map_flat_map. apply NoDup_flat_map; [apply seq_NoDup| |].
    - intros i _. rewrite map_flat_map. apply NoDup_flat_map; [apply seq_NoDup| |].
      + intros j _. rewrite map_map. unfold inflow_term. destruct (Nat.eqb i j); [constructor|].
        destruct (adj_lookup _ _); cbn [map]; [constructor; [intros []|constructor] | constructor].
      + intros j j' z _ _ Hz Hz'. rewrite map_map in Hz, Hz'. apply in_map_iff in Hz, Hz'.
        destruct Hz as [t [E _]]. destruct Hz' as [t' [E' _]]. unfold pr in E, E'. cbn [fst snd] in E, E'. congruence.
    - intros i i' z _ _ Hz Hz'. rewrite map_flat_map in Hz, Hz'. apply in_flat_map in Hz, Hz'.
      destruct Hz as [j [_ Hz]]. destruct Hz' as [j' [_ Hz']]. rewrite map_map in Hz, Hz'. apply in_map_iff in Hz, Hz'.
      destruct Hz as [t [E _]]. destruct Hz' as [t' [E' _]]. unfold pr in E, E'. cbn [fst snd] in E, E'. congruence.
  Qed.

  Lemma gstep_active acc i j t : act_ok (i, j, t) -> get_flow acc (dcn j) (dcn i) = Num 0%Q ->
    gstep cmts eqs acc (i, j, t) = add_edge acc (dcn j) (dcn i) (t_k t).
  Proof.
    intros [Hi [Hj [Hij [k [Hl ->]]]]] Hc. unfold gstep. cbn [t_pos t_k]. rewrite (find_inflow i j k Hi Hj Hij Hl), Hc.
    reflexivity.
  Qed.

  Lemma G_fold : forall L acc,
    (forall tr, In tr L -> act_ok tr) -> NoDup (map pr L) ->
    (forall i j t, In (i, j, t) L -> get_flow acc (dcn j) (dcn i) = Num 0%Q) ->
    forall x y,
      (forall i j t, In (i, j, t) L -> x = dcn j -> y = dcn i ->
                     get_flow (fold_left (gstep cmts eqs) L acc) x y = t_k t) /\
      ((forall i j t, In (i, j, t) L -> ~ (x = dcn j /\ y = dcn i)) ->
       get_flow (fold_left (gstep cmts eqs) L acc) x y = get_flow acc x y).
  Proof.
    induction L as [|[[i j] t] tl IH]; intros acc Hok Hnd Hzero x y; cbn [fold_left].
    - split; [intros i j t [] | reflexivity].
    - cbn [map] in Hnd. inversion Hnd as [|? ? Hhd Htl]; subst.
      assert (Hok0 : act_ok (i, j, t)) by (apply Hok; left; reflexivity).
      rewrite (gstep_active acc i j t Hok0 (Hzero i j t (or_introl eq_refl))).
      set (acc' := add_edge acc (dcn j) (dcn i) (t_k t)).
      assert (Hdiff : forall i' j' t', In (i', j', t') tl -> ~ (dcn j' = dcn j /\ dcn i' = dcn i)).
      { intros i' j' t' Hin [E1 E2]. destruct (Hok (i', j', t') (or_intror Hin)) as [Hi' [Hj' _]].
        destruct Hok0 as [Hi [Hj _]]. apply (dcn_inj j' j Hj' Hj) in E1. apply (dcn_inj i' i Hi' Hi) in E2. subst.
        apply Hhd. apply in_map_iff. exists (i, j, t'). split; [reflexivity | exact Hin]. }
      assert (Hzero' : forall i' j' t', In (i', j', t') tl -> get_flow acc' (dcn j') (dcn i') = Num 0%Q).
      { intros i' j' t' Hin. unfold acc'. rewrite get_flow_add_edge.
        destruct (node_eqb (dcn j') (dcn j) && node_eqb (dcn i') (dcn i)) eqn:E.
        - apply andb_prop in E. destruct E as [E1 E2]. apply node_eqb_spec in E1, E2. exfalso. apply (Hdiff i' j' t' Hin). split; assumption.
        - apply (Hzero i' j' t'). right. exact Hin. }
      destruct (IH acc' (fun tr H => Hok tr (or_intror H)) Htl Hzero' x y) as [I1 I2]. split.
      + intros i0 j0 t0 [Hin|Hin] Ex Ey.
        * injection Hin as <- <- <-. rewrite I2.
          -- unfold acc'. rewrite get_flow_add_edge. subst x y. rewrite !node_eqb_refl. reflexivity.
          -- intros i' j' t' Hin' [E1 E2]. subst x y. apply (Hdiff i' j' t' Hin'). split; symmetry; assumption.
        * apply (I1 i0 j0 t0); assumption.
      + intros Hno. rewrite I2.
        * unfold acc'. rewrite get_flow_add_edge.
          destruct (node_eqb x (dcn j) && node_eqb y (dcn i)) eqn:E; [|reflexivity].
          apply andb_prop in E. destruct E as [E1 E2]. apply node_eqb_spec in E1, E2. exfalso.
          apply (Hno i j t (or_introl eq_refl)). split; assumption.
        * intros i' j' t' Hin'. apply (Hno i' j' t'). right. exact Hin'.
  Qed.

  Definition g0 : graph := fold_left (fun gr c => add_node gr (Cmt c)) cmts empty_builder.
  Definition g1 : graph := fold_left (gstep cmts eqs) (triples eqs) g0.

  Lemma g0_flow x y : get_flow g0 x y = Num 0%Q.
  Proof.
    unfold g0. generalize cmts as l. intros l.
    assert (H : forall gr, get_flow gr x y = Num 0%Q -> get_flow (fold_left (fun gr c => add_node gr (Cmt c)) l gr) x y = Num 0%Q).
    { induction l as [|c tl IH]; intros gr Hg; cbn [fold_left]; [exact Hg|]. apply IH. rewrite get_flow_add_node. exact Hg. }
    apply H. unfold get_flow, empty_builder. cbn [adj_of]. destruct (node_eqb Out x); reflexivity.
  Qed.

  Lemma g1_active : g1 = fold_left (gstep cmts eqs) active g0.
  Proof. unfold g1. rewrite fold_gstep_skip, active_triples. reflexivity. Qed.

  (* Phase A: after the main loop every flow between compartments is there, nothing else *)
  Lemma g1_flows a b : a < n -> b < n -> get_flow g1 (dcn a) (dcn b) = get_flow g (Cmt (cn a)) (Cmt (cn b)).
  Proof.
    intros Ha Hb. rewrite g1_active.
    destruct (G_fold active g0 active_ok active_pairs_NoDup (fun i j t _ => g0_flow _ _) (dcn a) (dcn b)) as [I1 I2].
    destruct (Nat.eq_dec a b) as [E|E].
    - subst b. rewrite no_self_flow, I2; [apply g0_flow|].
      intros i j t Hin [E1 E2]. destruct (active_ok _ Hin) as [Hi [Hj [Hij _]]].
      apply (dcn_inj a j Ha Hj) in E1. apply (dcn_inj a i Ha Hi) in E2. congruence.
    - unfold get_flow at 2. destruct (adj_lookup (adj_of g (Cmt (cn a))) (Cmt (cn b))) as [k|] eqn:El.
      + rewrite (I1 b a (mkT true k (Some a))); [reflexivity | | reflexivity | reflexivity].
        apply active_In. repeat split; try assumption. unfold inflow_term.
        assert (Eb : Nat.eqb b a = false) by (apply Nat.eqb_neq; congruence). rewrite Eb, El. left. reflexivity.
      + rewrite I2; [apply g0_flow|]. intros i j t Hin [E1 E2]. destruct (active_ok _ Hin) as [Hi [Hj [Hij [k [Hl _]]]]].
        apply (dcn_inj a j Ha Hj) in E1. apply (dcn_inj b i Hb Hi) in E2. subst. congruence.
  Qed.

  Lemma g1_out a : get_flow g1 (dcn a) Out = Num 0%Q.
  Proof.
    rewrite g1_active.
    destruct (G_fold active g0 active_ok active_pairs_NoDup (fun i j t _ => g0_flow _ _) (dcn a) Out) as [_ I2].
    rewrite I2; [apply g0_flow|]. intros i j t _ [_ E]. discriminate.
  Qed.

  (* to_compartmental_system = the final pass applied to the result of the two independent folds *)
  Lemma rebuilt_unfold :
    rebuilt g = let ne := fold_left (nstep eqs) (triples eqs) eqs in
                fold_left (final_eq cmts (amounts g)) (combine (seq 0 (length ne)) ne) g1.
  Proof. unfold rebuilt, to_cs. fold g0. rewrite main_loop_split. reflexivity. Qed.
End RoundTrip.

(* The term-matching loop of to_compartmental_system, for systems of ANY size: after the loop over equations,
   amounts and terms the builder graph holds exactly the flows of g between compartments — every +k*A_j in the
   equation of i was matched with the -k*A_j of equation j (and of no other equation), entered once as the flow
   j -> i with rate k, and nothing goes to output yet. *)
Theorem matching_loop_flows_lemma g :
  WF g -> linear_distinct g = true ->
  let cmts := map default_comp (order g) in
  let n := length (order g) in
  (forall a b, a < n -> b < n ->
     get_flow (g1 g) (Cmt (nthc cmts a)) (Cmt (nthc cmts b)) = get_flow g (Cmt (nthc (order g) a)) (Cmt (nthc (order g) b))) /\
  (forall a, get_flow (g1 g) (Cmt (nthc cmts a)) Out = Num 0%Q) /\
  rebuilt g = (let ne := fold_left (nstep (terms_of g)) (triples (terms_of g)) (terms_of g) in
               fold_left (final_eq cmts (amounts g)) (combine (seq 0 (length ne)) ne) (g1 g)).
Proof.
  intros Hwf Hld cmts n. split; [|split].
  - intros a b Ha Hb. apply g1_flows; assumption.
  - intros a. apply g1_out; assumption.
  - apply rebuilt_unfold.
Qed.

(* every positive term k*A_j of equation i (j <> i, flow j -> i with rate k) finds its partner -k*A_j in equation j
   and only there *)
Theorem find_inflow_lemma g i j k :
  WF g -> linear_distinct g = true -> i < length (order g) -> j < length (order g) -> i <> j ->
  adj_lookup (adj_of g (Cmt (nthc (order g) j))) (Cmt (nthc (order g) i)) = Some k ->
  find_from (terms_of g) (mkT true k (Some j)) = Some j.
Proof. intros Hwf Hld Hi Hj Hij Hl. apply (find_inflow g Hwf i j k); assumption. Qed.

(* ================================================================================================ *)
(* 18. to_compartmental_system, any size: what remains of the equations after the matching loop     *)
(* ================================================================================================ *)
Lemma term_eqb_eq s t : term_eqb s t = true <-> s = t.
Proof.
  split.
  - intros H. apply term_eqb_parts in H. destruct s, t. cbn in H. destruct H as [-> [-> ->]]. reflexivity.
  - intros ->. apply term_eqb_refl.
Qed.

Definition rm (x : term) (l : leq) : leq := match remove_term x l with Some l' => l' | None => l ++ [tneg x] end.

Lemma remove_term_filter t l : NoDup l -> In t l ->
  remove_term t l = Some (filter (fun x => negb (term_eqb x t)) l).
Proof.
  induction l as [|x tl IH]; intros Hn Hin; [destruct Hin|]. inversion Hn as [|? ? Hx Ht]; subst. cbn [remove_term filter].
  destruct (term_eqb x t) eqn:E; cbn [negb].
  - apply term_eqb_eq in E. subst x. f_equal. symmetry. apply filter_all. intros y Hy. apply negb_true_iff.
    destruct (term_eqb y t) eqn:E'; [|reflexivity]. apply term_eqb_eq in E'. subst. contradiction.
  - destruct Hin as [Hin|Hin]; [subst; rewrite term_eqb_refl in E; discriminate|]. rewrite (IH Ht Hin). reflexivity.
Qed.

Lemma rm_filter t l : NoDup l -> In t l -> rm t l = filter (fun x => negb (term_eqb x t)) l.
Proof. intros Hn Hin. unfold rm. rewrite (remove_term_filter t l Hn Hin). reflexivity. Qed.

Lemma set_nth_length {A} (l : list A) i x : length (set_nth l i x) = length l.
Proof. revert i. induction l as [|y tl IH]; intros [|i]; cbn [set_nth length]; try reflexivity. rewrite IH. reflexivity. Qed.

Lemma nth_set_nth (l : list leq) i x a : i < length l ->
  nth_leq (set_nth l i x) a = if Nat.eqb a i then x else nth_leq l a.
Proof.
  unfold nth_leq. revert i a. induction l as [|y tl IH]; intros i a Hi; [cbn in Hi; lia|].
  destruct i as [|i], a as [|a]; cbn [set_nth nth Nat.eqb]; try reflexivity. apply IH. cbn [length] in Hi. lia.
Qed.

Lemma filter_filter {A} (p q : A -> bool) l : filter q (filter p l) = filter (fun x => p x && q x) l.
Proof.
  induction l as [|x tl IH]; cbn [filter]; [reflexivity|]. destruct (p x); cbn [filter andb]; [destruct (q x)|]; rewrite IH; reflexivity.
Qed.

Lemma existsb_app_term (x : term) l1 l2 : existsb (term_eqb x) (l1 ++ l2) = existsb (term_eqb x) l1 || existsb (term_eqb x) l2.
Proof. apply existsb_app. Qed.

Lemma fold_nstep_skip eqs L : forall ne,
  fold_left (nstep eqs) L ne = fold_left (nstep eqs) (filter (fun tr : triple => t_pos (snd tr)) L) ne.
Proof.
  induction L as [|[[i j] t] tl IH]; intros ne; cbn [filter fold_left snd]; [reflexivity|].
  destruct (t_pos t) eqn:E; cbn [fold_left]; [apply IH|]. unfold nstep at 2. rewrite E. apply IH.
Qed.

Lemma all_distinct_NoDup l : all_distinct l = true -> NoDup l.
Proof.
  induction l as [|x tl IH]; cbn [all_distinct]; intros H; [constructor|]. apply andb_prop in H. destruct H as [H1 H2].
  constructor; [|apply IH, H2]. intros Hin. apply negb_true_iff in H1.
  assert (existsb (expr_eqb x) tl = true) by (apply existsb_exists; exists x; split; [exact Hin | apply expr_eqb_spec; reflexivity]).
  congruence.
Qed.

Lemma NoDup_app_l {A} (l1 l2 : list A) : NoDup (l1 ++ l2) -> NoDup l1.
Proof. induction l1 as [|a tl IH]; cbn; intros H; [constructor|]. inversion H as [|? ? Ha Ht]; subst. constructor; [|apply IH, Ht]. intros Hin. apply Ha, in_or_app. left. exact Hin. Qed.
Lemma NoDup_app_r {A} (l1 l2 : list A) : NoDup (l1 ++ l2) -> NoDup l2.
Proof. induction l1 as [|a tl IH]; cbn; intros H; [exact H|]. inversion H; subst. apply IH. assumption. Qed.

Lemma NoDup_flat_map_member {A B} (h : A -> list B) (l : list A) p : NoDup (flat_map h l) -> In p l -> NoDup (h p).
Proof.
  induction l as [|a tl IH]; cbn [flat_map]; intros Hn Hin; [destruct Hin|]. destruct Hin as [Hin|Hin].
  - subst. eapply NoDup_app_l, Hn.
  - apply IH; [eapply NoDup_app_r, Hn | exact Hin].
Qed.

Lemma NoDup_snd_inj {A B} (l : list (A * B)) v v' k : NoDup (map snd l) -> In (v, k) l -> In (v', k) l -> v = v'.
Proof.
  induction l as [|[w r] tl IH]; cbn [map snd]; intros Hn H1 H2; [destruct H1|]. inversion Hn as [|? ? Hx Ht]; subst.
  destruct H1 as [H1|H1], H2 as [H2|H2].
  - congruence.
  - injection H1 as E1 E2. subst w r. exfalso. apply Hx. apply in_map_iff. exists (v', k). split; [reflexivity | exact H2].
  - injection H2 as E1 E2. subst w r. exfalso. apply Hx. apply in_map_iff. exists (v, k). split; [reflexivity | exact H1].
  - apply IH; assumption.
Qed.

Definition rem (P : list triple) (a : nat) : leq :=
  flat_map (fun tr : triple => let '(i, j, t) := tr in
              (if Nat.eqb a i then [t] else []) ++ (if Nat.eqb a j then [tneg t] else [])) P.

Lemma rem_In P a x : In x (rem P a) ->
  exists i j t, In (i, j, t) P /\ ((a = i /\ x = t) \/ (a = j /\ x = tneg t)).
Proof.
  unfold rem. intros H. apply in_flat_map in H. destruct H as [[[i j] t] [Hin H]]. exists i, j, t. split; [exact Hin|].
  apply in_app_or in H. destruct H as [H|H].
  - destruct (Nat.eqb a i) eqn:E; [|destruct H]. destruct H as [<-|[]]. left. split; [apply Nat.eqb_eq, E | reflexivity].
  - destruct (Nat.eqb a j) eqn:E; [|destruct H]. destruct H as [<-|[]]. right. split; [apply Nat.eqb_eq, E | reflexivity].
Qed.

Lemma rem_intro P a i j t : In (i, j, t) P -> (a = i -> In t (rem P a)) /\ (a = j -> In (tneg t) (rem P a)).
Proof.
  intros Hin. split; intros ->; unfold rem; apply in_flat_map; exists (i, j, t); (split; [exact Hin|]); apply in_or_app.
  - left. rewrite Nat.eqb_refl. left. reflexivity.
  - right. rewrite Nat.eqb_refl. left. reflexivity.
Qed.

Lemma notin_existsb x l : negb (existsb (term_eqb x) l) = true <-> ~ In x l.
Proof.
  rewrite negb_true_iff. split.
  - intros H Hin. assert (existsb (term_eqb x) l = true) by (apply existsb_exists; exists x; split; [exact Hin | apply term_eqb_refl]). congruence.
  - intros H. destruct (existsb (term_eqb x) l) eqn:E; [|reflexivity]. apply existsb_exists in E. destruct E as [y [Hy E]].
    apply term_eqb_eq in E. subst. contradiction.
Qed.

Section Rest.
  Variable g : graph.
  Hypothesis Hwf : WF g.
  Hypothesis Hld : linear_distinct g = true.
  Local Notation n := (length (order g)).
  Local Notation cn i := (nthc (order g) i).
  Local Notation rowf a := (nth_leq (terms_of g) a).

  Definition F (P : list triple) (a : nat) : leq := filter (fun x => negb (existsb (term_eqb x) (rem P a))) (rowf a).

  Definition out_term (a : nat) : leq :=
    match adj_lookup (adj_of g (Cmt (cn a))) Out with Some k => [mkT false k (Some a)] | None => [] end.

  Lemma adj_entry c : In c (comps g) -> In (Cmt c, adj_of g (Cmt c)) g.
  Proof. intros Hc. destruct (adj_of_cases g (Cmt c)) as [H|[_ H]]; [exact H|]. exfalso. apply H. apply comps_In. exact Hc. Qed.

  Lemma rates_NoDup c : In c (comps g) -> NoDup (map snd (adj_of g (Cmt c))).
  Proof.
    intros Hc. pose proof Hld as H. unfold linear_distinct in H. apply andb_prop in H. destruct H as [H _].
    apply andb_prop in H. destruct H as [_ H]. apply all_distinct_NoDup in H. apply NoDup_app_l in H.
    unfold graph_rates in H. apply (NoDup_flat_map_member _ g (Cmt c, adj_of g (Cmt c)) H (adj_entry c Hc)).
  Qed.

  Lemma keys_NoDup c : In c (comps g) -> NoDup (map fst (adj_of g (Cmt c))).
  Proof. intros Hc. destruct Hwf as [_ [_ Hw]]. apply (Hw _ _ (adj_entry c Hc)). Qed.

  Lemma comp_index c : In c (comps g) -> exists i, i < n /\ cn i = c.
  Proof.
    intros Hc. apply (Permutation_in _ (Permutation_sym (order_perm_lemma g Hwf))) in Hc.
    apply (In_nth _ _ dflt) in Hc. destruct Hc as [i [Hi E]]. exists i. split; assumption.
  Qed.

  Lemma row_NoDup a : a < n -> NoDup (rowf a).
  Proof.
    intros Ha. rewrite (row_eq g a Ha). pose proof (cn_in g Hwf a Ha) as Hc.
    apply NoDup_app_intro; [|apply NoDup_app_intro|].
    - apply NoDup_flat_map; [apply seq_NoDup| |].
      + intros j _. unfold inflow_term. destruct (Nat.eqb a j); [constructor|]. destruct (adj_lookup _ _); [constructor; [intros []|constructor] | constructor].
      + intros j j' z _ _ Hz Hz'. unfold inflow_term in Hz, Hz'.
        destruct (Nat.eqb a j); [destruct Hz|]. destruct (Nat.eqb a j'); [destruct Hz'|].
        destruct (adj_lookup (adj_of g (Cmt (cn j))) _); [|destruct Hz]. destruct (adj_lookup (adj_of g (Cmt (cn j'))) _); [|destruct Hz'].
        destruct Hz as [<-|[]]. destruct Hz' as [E|[]]. injection E as _ E. symmetry. exact E.
    - unfold outflow_terms. apply NoDup_flat_map.
      + apply (NoDup_map_inv fst). apply keys_NoDup, Hc.
      + intros e _. destruct (node_eqb (fst e) (Cmt (cn a))); [constructor | constructor; [intros [] | constructor]].
      + intros [v r] [v' r'] z He He' Hz Hz'. cbn [fst snd] in Hz, Hz'.
        destruct (node_eqb v (Cmt (cn a))); [destruct Hz|]. destruct (node_eqb v' (Cmt (cn a))); [destruct Hz'|].
        destruct Hz as [<-|[]]. destruct Hz' as [E|[]]. injection E as E. subst r'.
        rewrite (NoDup_snd_inj _ v v' r (rates_NoDup _ Hc) He He'). reflexivity.
    - unfold input_terms. destruct (has_input (cn a)); [constructor; [intros [] | constructor] | constructor].
    - intros x Hx Hx'. unfold outflow_terms in Hx. apply in_flat_map in Hx. destruct Hx as [e [_ Hx]].
      destruct (node_eqb (fst e) (Cmt (cn a))); [destruct Hx|]. destruct Hx as [<-|[]].
      unfold input_terms in Hx'. destruct (has_input (cn a)); [|destruct Hx']. destruct Hx' as [E|[]]. discriminate.
    - intros x Hx Hx'. apply in_flat_map in Hx. destruct Hx as [j [_ Hx]]. unfold inflow_term in Hx.
      destruct (Nat.eqb a j); [destruct Hx|]. destruct (adj_lookup _ _); [|destruct Hx]. destruct Hx as [<-|[]].
      apply in_app_or in Hx'. destruct Hx' as [Hx'|Hx'].
      + unfold outflow_terms in Hx'. apply in_flat_map in Hx'. destruct Hx' as [e0 [_ Hx']].
        destruct (node_eqb (fst e0) (Cmt (cn a))); [destruct Hx'|]. destruct Hx' as [E|[]]. discriminate.
      + unfold input_terms in Hx'. destruct (has_input (cn a)); [|destruct Hx']. destruct Hx' as [E|[]]. discriminate.
  Qed.

  Lemma nstep_active ne i j k : i < n -> j < n -> i <> j ->
    adj_lookup (adj_of g (Cmt (cn j))) (Cmt (cn i)) = Some k ->
    let t := mkT true k (Some j) in
    nstep (terms_of g) ne (i, j, t)
    = let ne1 := set_nth ne i (rm t (nth_leq ne i)) in set_nth ne1 j (rm (tneg t) (nth_leq ne1 j)).
  Proof.
    intros Hi Hj Hij Hl t. subst t. unfold nstep. cbn [t_pos]. rewrite (find_inflow g Hwf i j k Hi Hj Hij Hl).
    assert (E : Nat.eqb i j = false) by (apply Nat.eqb_neq; exact Hij). rewrite E. reflexivity.
  Qed.

  Lemma F_snoc P tr a :
    F (P ++ [tr]) a
    = filter (fun x => negb (existsb (term_eqb x)
               (let '(i, j, t) := tr in (if Nat.eqb a i then [t] else []) ++ (if Nat.eqb a j then [tneg t] else []))))
             (F P a).
  Proof.
    unfold F. rewrite filter_filter. apply filter_ext. intros x. unfold rem. rewrite flat_map_app, existsb_app. cbn [flat_map].
    rewrite app_nil_r, negb_orb. reflexivity.
  Qed.

  Lemma F_NoDup P a : a < n -> NoDup (F P a).
  Proof. intros Ha. unfold F. apply NoDup_filter, row_NoDup, Ha. Qed.

  Lemma F_In P a x : In x (F P a) <-> In x (rowf a) /\ ~ In x (rem P a).
  Proof. unfold F. rewrite filter_In, notin_existsb. reflexivity. Qed.

  Lemma N_fold : forall L P ne,
    (forall tr, In tr (P ++ L) -> act_ok g tr) -> NoDup (map pr (P ++ L)) ->
    length ne = n -> (forall a, a < n -> nth_leq ne a = F P a) ->
    length (fold_left (nstep (terms_of g)) L ne) = n /\
    (forall a, a < n -> nth_leq (fold_left (nstep (terms_of g)) L ne) a = F (P ++ L) a).
  Proof.
    induction L as [|[[i j] t] tl IH]; intros P ne Hok Hnd Hlen Hinv; cbn [fold_left].
    - rewrite app_nil_r. split; assumption.
    - assert (Hok0 : act_ok g (i, j, t)) by (apply Hok, in_or_app; right; left; reflexivity).
      destruct Hok0 as [Hi [Hj [Hij [k [Hl ->]]]]].
      set (t := mkT true k (Some j)) in *.
      assert (Hpair : ~ In (i, j) (map pr P)).
      { rewrite map_app in Hnd. cbn [map] in Hnd. apply NoDup_remove_2 in Hnd. intros Hin. apply Hnd, in_or_app. left. exact Hin. }
      assert (HokP : forall tr, In tr P -> act_ok g tr) by (intros tr Htr; apply Hok, in_or_app; left; exact Htr).
      (* t is still in row i, -t is still in row j *)
      assert (Ht : In t (F P i)).
      { apply F_In. split.
        - rewrite (row_eq g i Hi). apply in_or_app. left. apply in_flat_map. exists j. split; [apply in_seq; lia|].
          unfold inflow_term. assert (E : Nat.eqb i j = false) by (apply Nat.eqb_neq; exact Hij). rewrite E, Hl. left. reflexivity.
        - intros Hin. apply rem_In in Hin. destruct Hin as [i' [j' [t' [Hin' [[-> E]|[_ E]]]]]].
          + destruct (HokP _ Hin') as [_ [_ [_ [k' [_ ->]]]]]. unfold t in E. injection E as _ E. subst j'.
            apply Hpair. apply in_map_iff. exists (i', j, mkT true k' (Some j)). split; [reflexivity | exact Hin'].
          + destruct (HokP _ Hin') as [_ [_ [_ [k' [_ ->]]]]]. unfold t in E. discriminate. }
      assert (Hnt : In (tneg t) (F P j)).
      { apply F_In. split.
        - rewrite (row_eq g j Hj). apply in_or_app. right. apply in_or_app. left. unfold outflow_terms. apply in_flat_map.
          exists (Cmt (cn i), k). split; [apply adj_lookup_In, Hl|]. cbn [fst snd].
          assert (E : node_eqb (Cmt (cn i)) (Cmt (cn j)) = false).
          { apply node_eqb_false. intros E. injection E as E. apply Hij. apply (cn_inj g Hwf); assumption. }
          rewrite E. left. reflexivity.
        - intros Hin. apply rem_In in Hin. destruct Hin as [i' [j' [t' [Hin' [[_ E]|[-> E]]]]]].
          + destruct (HokP _ Hin') as [_ [_ [_ [k' [_ ->]]]]]. unfold t in E. discriminate.
          + destruct (HokP _ Hin') as [Hi' [_ [_ [k' [Hl' ->]]]]]. unfold t in E. cbn [tneg t_pos t_k t_a] in E.
            injection E as E. subst k'.
            assert (Ev : Cmt (cn i') = Cmt (cn i)).
            { apply (NoDup_snd_inj (adj_of g (Cmt (cn j'))) _ _ k (rates_NoDup _ (cn_in g Hwf j' Hj))); apply adj_lookup_In; assumption. }
            injection Ev as Ev. apply (cn_inj g Hwf i' i Hi' Hi) in Ev. subst i'.
            apply Hpair. apply in_map_iff. exists (i, j', mkT true k (Some j')). split; [reflexivity | exact Hin']. }
      pose proof (nstep_active ne i j k Hi Hj Hij Hl) as Hns. cbv zeta in Hns. fold t in Hns. rewrite Hns. clear Hns.
      set (ne1 := set_nth ne i (rm t (nth_leq ne i))).
      assert (Hlen1 : length ne1 = n) by (unfold ne1; rewrite set_nth_length; exact Hlen).
      set (ne2 := set_nth ne1 j (rm (tneg t) (nth_leq ne1 j))).
      assert (Hok' : forall tr, In tr ((P ++ [(i, j, t)]) ++ tl) -> act_ok g tr)
        by (intros tr Htr; apply Hok; rewrite <- app_assoc in Htr; exact Htr).
      assert (Hnd' : NoDup (map pr ((P ++ [(i, j, t)]) ++ tl))) by (rewrite <- app_assoc; exact Hnd).
      change (P ++ (i, j, t) :: tl) with (P ++ [(i, j, t)] ++ tl). rewrite app_assoc.
      apply (IH (P ++ [(i, j, t)]) ne2 Hok' Hnd').
      + unfold ne2. rewrite set_nth_length. exact Hlen1.
      + intros a Ha. unfold ne2. rewrite nth_set_nth by (rewrite Hlen1; exact Hj).
        rewrite F_snoc. cbv beta iota zeta. destruct (Nat.eqb a j) eqn:Eaj.
        * apply Nat.eqb_eq in Eaj. subst a.
          assert (Eji : Nat.eqb j i = false) by (apply Nat.eqb_neq; congruence).
          unfold ne1. rewrite nth_set_nth by (rewrite Hlen; exact Hi). rewrite Eji, (Hinv j Hj). cbn [app].
          rewrite (rm_filter _ _ (F_NoDup P j Hj) Hnt). apply filter_ext. intros x. cbn [existsb]. rewrite orb_false_r. reflexivity.
        * unfold ne1. rewrite nth_set_nth by (rewrite Hlen; exact Hi). destruct (Nat.eqb a i) eqn:Eai.
          -- apply Nat.eqb_eq in Eai. subst a. rewrite (Hinv i Hi). cbn [app].
             rewrite (rm_filter _ _ (F_NoDup P i Hi) Ht). apply filter_ext. intros x. cbn [existsb]. rewrite orb_false_r. reflexivity.
          -- rewrite (Hinv a Ha). cbn [app existsb negb]. symmetry. apply filter_all. reflexivity.
  Qed.

  (* invariant 1: what remains of equation a after the matching loop *)
  Lemma rest_filter a : a < n ->
    let ne := fold_left (nstep (terms_of g)) (triples (terms_of g)) (terms_of g) in
    length ne = n /\ nth_leq ne a = F (active g) a /\ NoDup (nth_leq ne a).
  Proof.
    intros Ha ne. unfold ne. rewrite fold_nstep_skip, active_triples.
    destruct (N_fold (active g) [] (terms_of g)) as [H1 H2].
    - intros tr Htr. apply active_ok. exact Htr.
    - apply active_pairs_NoDup.
    - apply eqs_length.
    - intros b Hb. unfold F. cbn [rem flat_map existsb negb]. symmetry. apply filter_all. reflexivity.
    - cbn [app] in H2. split; [exact H1|]. rewrite (H2 a Ha). split; [reflexivity | apply F_NoDup, Ha].
  Qed.

  Lemma rest_members a x : a < n -> In x (F (active g) a) <-> In x (out_term a ++ input_terms g a).
  Proof.
    intros Ha. pose proof (cn_in g Hwf a Ha) as Hc. rewrite F_In. split.
    - intros [Hrow Hnot]. rewrite (row_eq g a Ha) in Hrow. apply in_app_or in Hrow. destruct Hrow as [Hrow|Hrow].
      + exfalso. apply Hnot. apply in_flat_map in Hrow. destruct Hrow as [j [Hj Hx]]. apply in_seq in Hj.
        assert (Hact : In (a, j, x) (active g)) by (apply active_In; repeat split; [exact Ha | lia | exact Hx]).
        apply (proj1 (rem_intro _ a _ _ _ Hact)). reflexivity.
      + apply in_app_or in Hrow. destruct Hrow as [Hrow|Hrow]; [|apply in_or_app; right; exact Hrow].
        unfold outflow_terms in Hrow. apply in_flat_map in Hrow. destruct Hrow as [[v r] [He Hx]]. cbn [fst snd] in Hx.
        destruct (node_eqb v (Cmt (cn a))) eqn:Ev; [destruct Hx|]. destruct Hx as [<-|[]]. apply node_eqb_false in Ev.
        destruct v as [|c'].
        * apply in_or_app. left. unfold out_term. rewrite (adj_lookup_NoDup _ Out r (keys_NoDup _ Hc) He). left. reflexivity.
        * exfalso. apply Hnot.
          assert (Hc' : In c' (comps g)).
          { apply comps_In. destruct Hwf as [_ [_ Hw]]. apply (proj2 (Hw _ _ (adj_entry _ Hc)) _ _ He). }
          destruct (comp_index c' Hc') as [i [Hi Ei]]. subst c'.
          assert (Hia : i <> a) by (intros E; subst; apply Ev; reflexivity).
          assert (Hact : In (i, a, mkT true r (Some a)) (active g)).
          { apply active_In. repeat split; try assumption. unfold inflow_term.
            assert (E : Nat.eqb i a = false) by (apply Nat.eqb_neq; exact Hia).
            rewrite E, (adj_lookup_NoDup _ _ r (keys_NoDup _ Hc) He). left. reflexivity. }
          apply (proj2 (rem_intro _ a _ _ _ Hact)). reflexivity.
    - intros Hx. apply in_app_or in Hx. destruct Hx as [Hx|Hx].
      + unfold out_term in Hx. destruct (adj_lookup (adj_of g (Cmt (cn a))) Out) as [k|] eqn:El; [|destruct Hx]. destruct Hx as [<-|[]].
        apply adj_lookup_In in El. split.
        * rewrite (row_eq g a Ha). apply in_or_app. right. apply in_or_app. left. unfold outflow_terms. apply in_flat_map.
          exists (Out, k). split; [exact El | left; reflexivity].
        * intros Hin. apply rem_In in Hin. destruct Hin as [i' [j' [t' [Hin' [[_ E]|[-> E]]]]]];
            destruct (active_ok g _ Hin') as [Hi' [_ [_ [k' [Hl' ->]]]]]; [discriminate|].
          cbn [tneg t_pos t_k t_a negb] in E. injection E as E. subst k'. apply adj_lookup_In in Hl'.
          pose proof (NoDup_snd_inj _ _ _ k (rates_NoDup _ Hc) Hl' El) as Ev. discriminate.
      + split; [rewrite (row_eq g a Ha); apply in_or_app; right; apply in_or_app; right; exact Hx|].
        unfold input_terms in Hx. destruct (has_input (cn a)); [|destruct Hx]. destruct Hx as [<-|[]].
        intros Hin. apply rem_In in Hin. destruct Hin as [i' [j' [t' [Hin' [[_ E]|[_ E]]]]]];
          destruct (active_ok g _ Hin') as [_ [_ [_ [k' [_ ->]]]]]; discriminate.
  Qed.
End Rest.

(* After the term-matching loop of to_compartmental_system, for every well-formed linear_distinct system of ANY
   size: the remaining equation of compartment number a is duplicate-free and contains exactly the term of its flow
   to output (if any) and its zero-order input term (if any) — every +k*A_j and every -k*A_a of a flow between
   compartments has been cancelled. *)
Theorem rest_equations_lemma g a :
  WF g -> linear_distinct g = true -> a < length (order g) ->
  let ne := fold_left (nstep (terms_of g)) (triples (terms_of g)) (terms_of g) in
  length ne = length (order g) /\ NoDup (nth_leq ne a) /\
  (forall x, In x (nth_leq ne a) <-> In x (out_term g a ++ input_terms g a)).
Proof.
  intros Hwf Hld Ha ne. destruct (rest_filter g Hwf Hld a Ha) as [H1 [H2 H3]]. fold ne in H1, H2, H3.
  split; [exact H1 | split; [exact H3|]]. intros x. rewrite H2. apply rest_members; assumption.
Qed.

From PV Require Import C05.Access.

(* ================================================================================================ *)
(* 19. flow accessors (C05/Access.v)                                                                *)
(* ================================================================================================ *)
Lemma node_entry g u : In u (nodes g) -> In (u, adj_of g u) g.
Proof. intros H. destruct (adj_of_cases g u) as [Hin|[_ Hn]]; [exact Hin | contradiction]. Qed.

Lemma has_edge_lookup g u v : has_edge g u v = true <-> exists r, adj_lookup (adj_of g u) v = Some r.
Proof.
  unfold has_edge. destruct (adj_lookup (adj_of g u) v) as [r|]; split; intros H; try discriminate.
  - exists r. reflexivity.
  - reflexivity.
  - destruct H as [r H]. discriminate.
Qed.

Lemma in_edges_iff g v u r : NoDup (nodes g) ->
  (In (u, r) (in_edges g v) <-> In u (nodes g) /\ adj_lookup (adj_of g u) v = Some r).
Proof.
  intros Hn. unfold in_edges. rewrite in_flat_map. split.
  - intros [[w a] [Hp H]]. cbn [fst snd] in H. destruct (adj_lookup a v) as [r'|] eqn:E; [|destruct H].
    destruct H as [H|[]]. injection H as <- <-. split.
    + apply in_map_iff. exists (w, a). split; [reflexivity | exact Hp].
    + rewrite (adj_of_In g w a Hn Hp). exact E.
  - intros [Hu Hl]. exists (u, adj_of g u). split; [apply node_entry, Hu|]. cbn [fst snd]. rewrite Hl. left. reflexivity.
Qed.

(* get_compartment_outflows lists exactly the stored edges of the compartment, with their rates, in adjacency order *)
Theorem outflows_lemma g u : WF g -> In u (nodes g) ->
  outflows g u = adj_of g u /\ (forall v r, In (v, r) (outflows g u) -> get_flow g u v = r).
Proof.
  intros [_ [_ Hw]] Hu. destruct (Hw _ _ (node_entry g u Hu)) as [Hk _].
  assert (E : outflows g u = adj_of g u).
  { unfold outflows. rewrite <- (map_id (adj_of g u)) at 2. apply map_ext_in. intros [v r] Hin. cbn [fst].
    unfold get_flow. rewrite (adj_lookup_NoDup _ v r Hk Hin). reflexivity. }
  split; [exact E|]. intros v r Hin. rewrite E in Hin. unfold get_flow. rewrite (adj_lookup_NoDup _ v r Hk Hin). reflexivity.
Qed.

(* get_compartment_inflows(v): the nodes with an edge to v, in node order, each with the rate of that edge *)
Theorem inflows_lemma g v u r : WF g ->
  (In (u, r) (inflows g v) <-> In u (nodes g) /\ adj_lookup (adj_of g u) v = Some r).
Proof.
  intros [_ [Hn _]]. unfold inflows, preds_of. rewrite map_map, in_map_iff. split.
  - intros [[w r'] [E Hin]]. cbn [fst] in E. injection E as <- <-. apply (in_edges_iff g v w r' Hn) in Hin.
    destruct Hin as [Hw Hl]. split; [exact Hw|]. unfold get_flow. rewrite Hl. reflexivity.
  - intros [Hu Hl]. exists (u, r). split; [cbn [fst]; unfold get_flow; rewrite Hl; reflexivity|].
    apply (in_edges_iff g v u r Hn). split; assumption.
Qed.

(* every outflow of u to v is an inflow of v from u with the same rate, and conversely *)
Theorem out_in_duality_lemma g u v r : WF g -> In u (nodes g) ->
  (In (v, r) (outflows g u) <-> In (u, r) (inflows g v)).
Proof.
  intros Hwf Hu. rewrite (inflows_lemma g v u r Hwf). destruct (outflows_lemma g u Hwf Hu) as [E _]. rewrite E.
  pose proof Hwf as [_ [_ Hw]]. destruct (Hw _ _ (node_entry g u Hu)) as [Hk _]. split.
  - intros Hin. split; [exact Hu | apply adj_lookup_NoDup; assumption].
  - intros [_ Hl]. apply adj_lookup_In, Hl.
Qed.

(* get_bidirectionals(c): the nodes with a flow to c AND a flow from c *)
Theorem bidirectionals_lemma g c u : WF g ->
  (In u (bidirectionals g c) <-> In u (nodes g) /\ has_edge g u c = true /\ has_edge g c u = true).
Proof.
  intros [_ [Hn _]]. unfold bidirectionals, preds_of. rewrite filter_In, in_map_iff. split.
  - intros [[[w r] [E Hin]] Hc]. cbn [fst] in E. subst w. apply (in_edges_iff g c u r Hn) in Hin. destruct Hin as [Hu Hl].
    split; [exact Hu | split; [apply has_edge_lookup; exists r; exact Hl | exact Hc]].
  - intros [Hu [H1 H2]]. apply has_edge_lookup in H1. destruct H1 as [r Hl]. split; [|exact H2].
    exists (u, r). split; [reflexivity | apply (in_edges_iff g c u r Hn); split; assumption].
Qed.

(* len(cs) is the number of compartments *)
Theorem cs_len_lemma g : WF g -> cs_len g = length (comps g).
Proof.
  intros [[tl E] [Hn _]]. subst g. unfold cs_len. cbn [nodes map fst length comps]. rewrite Nat.sub_succ, Nat.sub_0_r.
  cbn [nodes map fst] in Hn. inversion Hn as [|? ? Ho _]; subst. clear Hn. fold (nodes tl) in Ho.
  induction tl as [|[[|c] a] tl' IH]; cbn [map length comps fst] in *; [reflexivity | exfalso; apply Ho; left; reflexivity|].
  f_equal. apply IH. intros H. apply Ho. right. exact H.
Qed.
