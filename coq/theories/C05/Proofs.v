(* PV.C05.Proofs — lemmas about the model of the compartmental system. *)
From Coq Require Import QArith ZArith NArith List Bool PArith Arith Lia Permutation Qreduction.
From PV Require Import Base.PyData Base.Expr C05.Model.
Import ListNotations.
Local Open Scope nat_scope.

(* ================================================================================================ *)
(* 1. The boolean equalities decide Leibniz equality                                                *)
(* ================================================================================================ *)
Lemma q_eqb_eq a b : q_eqb a b = true -> a = b.
Proof.
  destruct a as [an ad], b as [bn bd]. unfold q_eqb. cbn [Qnum Qden]. intros H.
  apply andb_prop in H. destruct H as [H1 H2].
  apply Z.eqb_eq in H1. apply Pos.eqb_eq in H2. subst. reflexivity.
Qed.

Lemma q_eqb_refl a : q_eqb a a = true.
Proof. unfold q_eqb. rewrite Z.eqb_refl, Pos.eqb_refl. reflexivity. Qed.

Lemma relop_eqb_eq a b : relop_eqb a b = true -> a = b.
Proof. destruct a, b; cbn; intros H; try discriminate; reflexivity. Qed.
Lemma relop_eqb_refl a : relop_eqb a a = true.
Proof. destruct a; reflexivity. Qed.

Lemma expr_eqb_refl_both :
  (forall a, expr_eqb a a = true) /\ (forall c, cond_eqb c c = true).
Proof.
  apply expr_cond_mut; intros; cbn [expr_eqb cond_eqb];
    repeat match goal with H : _ = true |- _ => rewrite H; clear H end;
    rewrite ?q_eqb_refl, ?Pos.eqb_refl, ?relop_eqb_refl; reflexivity.
Qed.

Lemma expr_eqb_eq_both :
  (forall a b, expr_eqb a b = true -> a = b) /\ (forall c d, cond_eqb c d = true -> c = d).
Proof.
  apply expr_cond_mut; intros;
    match goal with
    | |- _ = ?b => destruct b
    end; cbn [expr_eqb cond_eqb] in *; try discriminate;
    repeat match goal with
           | H : _ && _ = true |- _ => apply andb_prop in H; destruct H
           end;
    repeat match goal with
           | IH : forall b, expr_eqb ?a b = true -> ?a = b, H : expr_eqb ?a _ = true |- _ => apply IH in H; subst
           | IH : forall b, cond_eqb ?a b = true -> ?a = b, H : cond_eqb ?a _ = true |- _ => apply IH in H; subst
           | H : q_eqb _ _ = true |- _ => apply q_eqb_eq in H; subst
           | H : Pos.eqb _ _ = true |- _ => apply Pos.eqb_eq in H; subst
           | H : relop_eqb _ _ = true |- _ => apply relop_eqb_eq in H; subst
           end; reflexivity.
Qed.

Lemma expr_eqb_spec a b : expr_eqb a b = true <-> a = b.
Proof. split; [apply expr_eqb_eq_both | intros; subst; apply expr_eqb_refl_both]. Qed.

Lemma oexpr_eqb_spec a b : oexpr_eqb a b = true <-> a = b.
Proof.
  destruct a, b; cbn; try (split; intros; discriminate); [|tauto].
  rewrite expr_eqb_spec. split; intros H; [subst | injection H as H]; auto.
Qed.

Lemma name_compare_eq a b : name_compare a b = Eq <-> a = b.
Proof.
  revert b. induction a as [|x a IH]; destruct b as [|y b]; cbn; try (split; intros; discriminate); [tauto|].
  destruct (N.compare_spec x y) as [E|E|E].
  - subst. rewrite IH. split; intros H; [subst | injection H as H]; auto.
  - split; intros H; [discriminate | injection H as H1 H2; subst; lia].
  - split; intros H; [discriminate | injection H as H1 H2; subst; lia].
Qed.

Lemma name_eqb_spec a b : name_eqb a b = true <-> a = b.
Proof.
  unfold name_eqb. rewrite <- name_compare_eq. destruct (name_compare a b); split; intros; try discriminate; auto.
Qed.

Lemma list_eqb_spec {A} (eqb : A -> A -> bool) :
  (forall x y, eqb x y = true <-> x = y) -> forall a b, list_eqb eqb a b = true <-> a = b.
Proof.
  intros Hs. induction a as [|x a IH]; destruct b as [|y b]; cbn; try (split; intros; discriminate); [tauto|].
  rewrite andb_true_iff, Hs, IH. split; intros H; [destruct H; subst | injection H as H1 H2]; auto.
Qed.

Lemma dose_eqb_spec a b : dose_eqb a b = true <-> a = b.
Proof.
  destruct a, b; cbn; try (split; intros; discriminate);
    rewrite ?andb_true_iff, ?expr_eqb_spec, ?oexpr_eqb_spec, ?Z.eqb_eq.
  - split; intros H; [destruct H; subst | injection H as H1 H2]; auto.
  - split; intros H; [destruct H as [[[H1 H2] H3] H4]; subst | injection H as H1 H2 H3 H4]; auto.
Qed.

Lemma comp_eqb_spec a b : comp_eqb a b = true <-> a = b.
Proof.
  destruct a as [n1 a1 d1 i1 l1 b1], b as [n2 a2 d2 i2 l2 b2]. unfold comp_eqb. cbn.
  rewrite !andb_true_iff, !expr_eqb_spec, name_eqb_spec, (list_eqb_spec dose_eqb dose_eqb_spec).
  split; intros H; [destruct H as [[[[[H1 H2] H3] H4] H5] H6]; subst | injection H as H1 H2 H3 H4 H5 H6]; auto.
  repeat split; assumption.
Qed.

Lemma node_eqb_spec a b : node_eqb a b = true <-> a = b.
Proof.
  destruct a, b; cbn; try (split; intros; discriminate); [tauto|].
  rewrite comp_eqb_spec. split; intros H; [subst | injection H as H]; auto.
Qed.

Lemma node_eqb_refl a : node_eqb a a = true.
Proof. apply node_eqb_spec. reflexivity. Qed.
Lemma comp_eqb_refl a : comp_eqb a a = true.
Proof. apply comp_eqb_spec. reflexivity. Qed.

Lemma node_eqb_false a b : node_eqb a b = false <-> a <> b.
Proof.
  split; intros H.
  - intros E. apply node_eqb_spec in E. congruence.
  - destruct (node_eqb a b) eqn:E; [apply node_eqb_spec in E; contradiction | reflexivity].
Qed.
Lemma comp_eqb_false a b : comp_eqb a b = false <-> a <> b.
Proof.
  split; intros H.
  - intros E. apply comp_eqb_spec in E. congruence.
  - destruct (comp_eqb a b) eqn:E; [apply comp_eqb_spec in E; contradiction | reflexivity].
Qed.

Lemma memc_In c l : memc c l = true <-> In c l.
Proof.
  unfold memc. rewrite existsb_exists. split.
  - intros [y [Hy E]]. apply comp_eqb_spec in E. subst. exact Hy.
  - intros H. exists c. split; [exact H | apply comp_eqb_refl].
Qed.

Lemma memc_false c l : memc c l = false <-> ~ In c l.
Proof.
  rewrite <- memc_In. symmetry. apply not_true_iff_false.
Qed.

Lemma has_node_In g n : has_node g n = true <-> In n (nodes g).
Proof.
  unfold has_node, nodes. rewrite existsb_exists, in_map_iff. split.
  - intros [p [Hp E]]. apply node_eqb_spec in E. exists p. split; assumption.
  - intros [p [E Hp]]. exists p. split; [assumption | subst; apply node_eqb_refl].
Qed.

Lemma has_node_false g n : has_node g n = false <-> ~ In n (nodes g).
Proof.
  rewrite <- has_node_In. symmetry. apply not_true_iff_false.
Qed.
