(* PV.C05.Access — executable model of the flow accessors of CompartmentalSystem:
   get_compartment_outflows, get_compartment_inflows, get_bidirectionals, get_n_connected, __len__.
   No proofs here.  The graph of a system is a copy: predecessors are listed in node order. *)
From Coq Require Import QArith List Bool PArith Arith.
From PV Require Import Base.PyData Base.Expr C05.Model.
Import ListNotations.
Local Open Scope nat_scope.

(* for node in self._g.successors(compartment): flows.append((node, self.get_flow(compartment, node))) *)
Definition outflows (g : graph) (c : node) : list (node * expr) :=
  map (fun e => (fst e, get_flow g c (fst e))) (adj_of g c).

(* for node in self._g.predecessors(destination): flows.append((node, self.get_flow(node, destination))) *)
Definition inflows (g : graph) (v : node) : list (node * expr) :=
  map (fun u => (u, get_flow g u v)) (preds_of g v).

(* for node in predecessors(compartment): if has_edge(compartment, node): comps.append(node) *)
Definition bidirectionals (g : graph) (c : node) : list node :=
  filter (fun u => has_edge g c u) (preds_of g c).

Fixpoint dedup (l : list node) : list node :=
  match l with
  | [] => []
  | x :: tl => if existsb (node_eqb x) tl then dedup tl else x :: dedup tl
  end.

(* len(({c for c, _ in outflows} | {c for c, _ in inflows}) - {output}) *)
Definition n_connected (g : graph) (c : node) : nat :=
  length (filter (fun x => negb (node_eqb x Out)) (dedup (map fst (outflows g c) ++ map fst (inflows g c)))).

(* len(self._g.nodes) - 1 *)
Definition cs_len (g : graph) : nat := length (nodes g) - 1.
