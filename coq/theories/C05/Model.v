(* PV.C05.Model — executable model of pharmpy.model.statements: Compartment / Bolus / Infusion,
   CompartmentalSystemBuilder (every operation), CompartmentalSystem (central_compartment,
   dosing_compartments, _order_compartments, amounts, compartment_names, zero_order_inputs,
   compartmental_matrix, eqs as M.A + u, get_flow, to_dict / from_dict, __eq__, subs), and the part of
   networkx 3.x they rely on (DiGraph node / adjacency insertion order, add_node, add_edge,
   remove_node, remove_edge, relabel_nodes(copy=False), copy, bfs_tree(sort_neighbors)).
   Mirrors the Python statement by statement.  No proofs here.

   Representation.  A DiGraph is its [_succ] dict of dicts in insertion order:
   [list (node * list (node * rate))]; the keys of the outer list are the node order ([G.nodes]).
   [_pred] is not represented: every CompartmentalSystem holds [builder._g.copy()], and [copy()]
   re-creates all predecessor dicts in node order, so [list(G.predecessors(v))] of a system is the
   list of nodes (in node order) having an edge to [v]; in-place relabelling appends the new node
   once to the adjacency of every source independently, so its result does not depend on the order
   of [_pred[old]] either.
   Node keys are whole compartments compared by [==] (name, amount, doses, input, lag time,
   bioavailability), exactly like the dict keys of networkx; expression [==] (symengine structural
   equality of canonical forms) is modelled by structural equality of the exported terms — the
   harness interns the real [Expr] objects so that equal objects get identical terms and distinct
   objects distinct ones. *)
From Coq Require Import QArith ZArith NArith List Bool PArith Arith.
From PV Require Import Base.PyData Base.Expr.
Import ListNotations.
Local Open Scope nat_scope.

(* ---- equality of exported values ---------------------------------------------------------- *)
Definition q_eqb (a b : Q) : bool := Z.eqb (Qnum a) (Qnum b) && Pos.eqb (Qden a) (Qden b).

Definition relop_eqb (a b : relop) : bool :=
  match a, b with
  | OLt, OLt | OLe, OLe | OEq, OEq | ONe, ONe | OGt, OGt | OGe, OGe => true
  | _, _ => false
  end.

Fixpoint expr_eqb (a b : expr) : bool :=
  match a, b with
  | Num x, Num y => q_eqb x y
  | Sym x, Sym y => Pos.eqb x y
  | Fn1 f x, Fn1 g y => Pos.eqb f g && expr_eqb x y
  | Fn2 f x1 x2, Fn2 g y1 y2 => Pos.eqb f g && expr_eqb x1 y1 && expr_eqb x2 y2
  | Add x1 x2, Add y1 y2 => expr_eqb x1 y1 && expr_eqb x2 y2
  | Mul x1 x2, Mul y1 y2 => expr_eqb x1 y1 && expr_eqb x2 y2
  | Neg x, Neg y => expr_eqb x y
  | Div x1 x2, Div y1 y2 => expr_eqb x1 y1 && expr_eqb x2 y2
  | PwNil, PwNil => true
  | PwCons c e r, PwCons c' e' r' => cond_eqb c c' && expr_eqb e e' && expr_eqb r r'
  | _, _ => false
  end
with cond_eqb (a b : cond) : bool :=
  match a, b with
  | CTrue, CTrue => true
  | CFalse, CFalse => true
  | CRel o x1 x2, CRel o' y1 y2 => relop_eqb o o' && expr_eqb x1 y1 && expr_eqb x2 y2
  | CAnd x1 x2, CAnd y1 y2 => cond_eqb x1 y1 && cond_eqb x2 y2
  | COr x1 x2, COr y1 y2 => cond_eqb x1 y1 && cond_eqb x2 y2
  | CNot x, CNot y => cond_eqb x y
  | _, _ => false
  end.

Definition oexpr_eqb (a b : option expr) : bool :=
  match a, b with
  | Some x, Some y => expr_eqb x y
  | None, None => true
  | _, _ => false
  end.

(* ---- names: Python str as code points, compared like Python compares str ------------------- *)
Definition name := list N.

Fixpoint name_compare (a b : name) : comparison :=
  match a, b with
  | [], [] => Eq
  | [], _ :: _ => Lt
  | _ :: _, [] => Gt
  | x :: a', y :: b' => match N.compare x y with Eq => name_compare a' b' | c => c end
  end.
Definition name_eqb (a b : name) : bool := match name_compare a b with Eq => true | _ => false end.
Definition name_ltb (a b : name) : bool := match name_compare a b with Lt => true | _ => false end.

(* ---- Dose, Compartment ----------------------------------------------------------------------- *)
Inductive dose :=
| Bolus (amount : expr) (admid : Z)
| Infusion (amount : expr) (admid : Z) (rate duration : option expr).

Definition dose_admid (d : dose) : Z := match d with Bolus _ a => a | Infusion _ a _ _ => a end.
Definition is_infusion (d : dose) : bool := match d with Infusion _ _ _ _ => true | Bolus _ _ => false end.

(* Bolus.__eq__ / Infusion.__eq__ (a Bolus never equals an Infusion: NotImplemented both ways) *)
Definition dose_eqb (a b : dose) : bool :=
  match a, b with
  | Bolus x i, Bolus y j => expr_eqb x y && Z.eqb i j
  | Infusion x i r d, Infusion y j r' d' => Z.eqb i j && oexpr_eqb r r' && oexpr_eqb d d' && expr_eqb x y
  | _, _ => false
  end.

Record comp := mkComp {
  c_name : name;
  c_amount : expr;
  c_doses : list dose;     (* the stored tuple [_doses] *)
  c_input : expr;
  c_lag : expr;
  c_bio : expr
}.

Definition comp_eqb (a b : comp) : bool :=
  name_eqb (c_name a) (c_name b) && expr_eqb (c_amount a) (c_amount b)
  && list_eqb dose_eqb (c_doses a) (c_doses b) && expr_eqb (c_input a) (c_input b)
  && expr_eqb (c_lag a) (c_lag b) && expr_eqb (c_bio a) (c_bio b).

(* the [doses] property: with more than one dose, infusions first (sorted(..., reverse=True) is stable) *)
Definition doses_prop (c : comp) : list dose :=
  let ds := c_doses c in
  if 1 <? length ds then filter is_infusion ds ++ filter (fun d => negb (is_infusion d)) ds else ds.

Definition with_doses (c : comp) (ds : list dose) : comp :=
  mkComp (c_name c) (c_amount c) ds (c_input c) (c_lag c) (c_bio c).
Definition with_input (c : comp) (e : expr) : comp :=
  mkComp (c_name c) (c_amount c) (c_doses c) e (c_lag c) (c_bio c).
Definition with_lag (c : comp) (e : expr) : comp :=
  mkComp (c_name c) (c_amount c) (c_doses c) (c_input c) e (c_bio c).
Definition with_bio (c : comp) (e : expr) : comp :=
  mkComp (c_name c) (c_amount c) (c_doses c) (c_input c) (c_lag c) e.

(* ---- the DiGraph ----------------------------------------------------------------------------- *)
Inductive node := Out | Cmt (c : comp).

Definition node_eqb (a b : node) : bool :=
  match a, b with
  | Out, Out => true
  | Cmt x, Cmt y => comp_eqb x y
  | _, _ => false
  end.

Definition adj := list (node * expr).
Definition graph := list (node * adj).

Definition nodes (g : graph) : list node := map fst g.
Definition has_node (g : graph) (n : node) : bool := existsb (fun p => node_eqb (fst p) n) g.

Fixpoint adj_lookup (a : adj) (v : node) : option expr :=
  match a with
  | [] => None
  | (w, r) :: tl => if node_eqb w v then Some r else adj_lookup tl v
  end.

Fixpoint adj_of (g : graph) (u : node) : adj :=
  match g with
  | [] => []
  | (w, a) :: tl => if node_eqb w u then a else adj_of tl u
  end.

(* G.add_node(n): a new key goes to the end, an existing one keeps its place *)
Definition add_node (g : graph) (n : node) : graph := if has_node g n then g else g ++ [(n, [])].

(* d[v] = data: an existing key keeps its place, a new one goes to the end *)
Fixpoint adj_set (a : adj) (v : node) (r : expr) : adj :=
  match a with
  | [] => [(v, r)]
  | (w, x) :: tl => if node_eqb w v then (w, r) :: tl else (w, x) :: adj_set tl v r
  end.

Definition update_adj (g : graph) (u : node) (f : adj -> adj) : graph :=
  map (fun p => if node_eqb (fst p) u then (fst p, f (snd p)) else p) g.

(* G.add_edge(u, v, rate=r) *)
Definition add_edge (g : graph) (u v : node) (r : expr) : graph :=
  update_adj (add_node (add_node g u) v) u (fun a => adj_set a v r).

Definition adj_remove (a : adj) (v : node) : adj := filter (fun p => negb (node_eqb (fst p) v)) a.

(* G.remove_node(n) for n in G *)
Definition remove_node (g : graph) (n : node) : graph :=
  map (fun p => (fst p, adj_remove (snd p) n)) (filter (fun p => negb (node_eqb (fst p) n)) g).

Definition has_edge (g : graph) (u v : node) : bool :=
  match adj_lookup (adj_of g u) v with Some _ => true | None => false end.

Definition remove_edge (g : graph) (u v : node) : graph := update_adj g u (fun a => adj_remove a v).

(* sources of the in-edges of [n] with their data, in node order *)
Definition in_edges (g : graph) (n : node) : list (node * expr) :=
  flat_map (fun p => match adj_lookup (snd p) n with Some r => [(fst p, r)] | None => [] end) g.

(* one step of nx.relabel_nodes(G, {old: new}, copy=False) for old in G, new != old *)
Definition relabel1 (g : graph) (old new : node) : graph :=
  let g1 := add_node g new in
  let outs := map (fun p => (new, (if node_eqb (fst p) old then new else fst p), snd p)) (adj_of g1 old) in
  let ins := map (fun p => ((if node_eqb (fst p) old then new else fst p), new, snd p)) (in_edges g1 old) in
  let g2 := remove_node g1 old in
  fold_left (fun acc e => let '(u, v, r) := e in add_edge acc u v r) (outs ++ ins) g2.

Fixpoint map_lookup (m : list (node * node)) (n : node) : option node :=
  match m with
  | [] => None
  | (k, v) :: tl => if node_eqb k n then Some v else map_lookup tl n
  end.

(* nx.relabel_nodes(G, mapping, copy=False) for the mappings the builder creates (at most two
   entries): the nodes of G that are keys of the mapping are processed in node order; an entry
   with new == old does nothing.  (With overlapping key/value sets networkx orders the entries
   topologically instead; with at most two entries of which at most one then really changes, and
   no value equal to ANOTHER key — impossible when names are unique, since relabelling keeps the
   name — the result is the same.) *)
Definition relabel (g : graph) (m : list (node * node)) : graph :=
  fold_left (fun acc old =>
               match map_lookup m old with
               | Some new => if node_eqb new old then acc
                             else if has_node acc old then relabel1 acc old new else acc
               | None => acc
               end) (nodes g) g.

(* ---- CompartmentalSystemBuilder ---------------------------------------------------------------- *)
Definition empty_builder : graph := [(Out, [])].

(* builder.find_compartment(name): first node in node order with that name *)
Fixpoint find_compartment (g : graph) (nm : name) : option comp :=
  match g with
  | [] => None
  | (Cmt c, _) :: tl => if name_eqb (c_name c) nm then Some c else find_compartment tl nm
  | (Out, _) :: tl => find_compartment tl nm
  end.

Inductive target := TOut | TName (nm : name).
Inductive dose_arg := DNone | DOne (d : dose) | DMany (ds : list dose).
Inductive err := ValueError | NetworkXError | AttributeError.

Inductive op :=
| OAddCompartment (c : comp)
| ORemoveCompartment (nm : name)
| OAddFlow (s : name) (d : target) (r : expr)
| ORemoveFlow (s : name) (d : target)
| OMoveDose (s d : name) (admid : option Z)
| OSetDose (nm : name) (a : dose_arg)
| OAddDose (nm : name) (a : dose_arg)
| ORemoveDose (nm : name) (admid : option Z)
| OSetLag (nm : name) (e : expr)
| OSetBio (nm : name) (e : expr)
| OSetInput (nm : name) (e : expr)
| OFreeze                                  (* cb = CompartmentalSystemBuilder(CompartmentalSystem(cb)) *)
| OAddFlowObj (u : comp) (v : node) (r : expr). (* add_flow with compartment OBJECTS that need not be in the graph *)

(* `if admid:` — None and 0 are both false *)
Definition admid_true (a : option Z) : option Z :=
  match a with Some z => if Z.eqb z 0 then None else Some z | None => None end.

Definition resolve (g : graph) (t : target) : option node :=
  match t with TOut => Some Out | TName nm => option_map Cmt (find_compartment g nm) end.

(* The harness resolves names with builder.find_compartment and passes the result (possibly None)
   straight to the builder method; the error raised (if any) is part of the observation.  Every
   error below is raised before the graph is touched. *)
Definition apply_op (g : graph) (o : op) : graph * option err :=
  match o with
  | OAddCompartment c => (add_node g (Cmt c), None)
  | ORemoveCompartment nm =>
      match find_compartment g nm with
      | Some c => (remove_node g (Cmt c), None)
      | None => (g, Some NetworkXError)
      end
  | OAddFlow s d r =>
      match find_compartment g s, resolve g d with
      | Some c, Some v => (add_edge g (Cmt c) v r, None)
      | _, _ => (g, Some ValueError)             (* "None cannot be a node" *)
      end
  | ORemoveFlow s d =>
      match find_compartment g s, resolve g d with
      | Some c, Some v => if has_edge g (Cmt c) v then (remove_edge g (Cmt c) v, None) else (g, Some NetworkXError)
      | _, _ => (g, Some NetworkXError)
      end
  | OMoveDose s d admid =>
      match find_compartment g s, find_compartment g d with
      | Some src, Some dst =>
          match doses_prop src with
          | [] => (g, Some ValueError)
          | sd =>
              let '(new_sd, moved) :=
                match admid_true admid with
                | Some a => (filter (fun x => negb (Z.eqb (dose_admid x) a)) sd,
                             filter (fun x => Z.eqb (dose_admid x) a) sd)
                | None => ([], sd)
                end in
              let new_src := with_doses src new_sd in
              let new_dst := with_doses dst (doses_prop dst ++ moved) in
              (* {source: new_source, destination: new_dest}: with source == destination the
                 dict literal keeps one key and the LAST value *)
              let m := if comp_eqb src dst then [(Cmt src, Cmt new_dst)]
                       else [(Cmt src, Cmt new_src); (Cmt dst, Cmt new_dst)] in
              (relabel g m, None)
          end
      | _, _ => (g, Some ValueError)
      end
  | OSetDose nm a =>
      match find_compartment g nm with
      | Some c =>
          let ds := match a with DNone => [] | DOne d => [d] | DMany l => l end in
          (relabel g [(Cmt c, Cmt (with_doses c ds))], None)
      | None => (g, Some ValueError)
      end
  | OAddDose nm a =>
      match find_compartment g nm, a with
      | Some c, DOne d => (relabel g [(Cmt c, Cmt (with_doses c (doses_prop c ++ [d])))], None)
      | Some c, DMany l => (relabel g [(Cmt c, Cmt (with_doses c (doses_prop c ++ l)))], None)
      | _, _ => (g, Some ValueError)
      end
  | ORemoveDose nm admid =>
      match find_compartment g nm with
      | Some c =>
          let ds := match admid_true admid with
                    | Some a => filter (fun x => negb (Z.eqb (dose_admid x) a)) (doses_prop c)
                    | None => []
                    end in
          (relabel g [(Cmt c, Cmt (with_doses c ds))], None)
      | None => (g, Some ValueError)
      end
  | OSetLag nm e =>
      match find_compartment g nm with
      | Some c => (relabel g [(Cmt c, Cmt (with_lag c e))], None)
      | None => (g, Some AttributeError)
      end
  | OSetBio nm e =>
      match find_compartment g nm with
      | Some c => (relabel g [(Cmt c, Cmt (with_bio c e))], None)
      | None => (g, Some AttributeError)
      end
  | OSetInput nm e =>
      match find_compartment g nm with
      | Some c => (relabel g [(Cmt c, Cmt (with_input c e))], None)
      | None => (g, Some AttributeError)
      end
  | OFreeze => (g, None)        (* copy() keeps node order and adjacency order *)
  | OAddFlowObj u v r => (add_edge g (Cmt u) v r, None)
  end.

Fixpoint apply_ops (g : graph) (ops : list op) : graph * list (option err) :=
  match ops with
  | [] => (g, [])
  | o :: tl => let '(g1, e) := apply_op g o in let '(g2, es) := apply_ops g1 tl in (g2, e :: es)
  end.

Definition build (ops : list op) : graph := fst (apply_ops empty_builder ops).

(* ---- CompartmentalSystem ------------------------------------------------------------------------ *)
Fixpoint comps (g : graph) : list comp :=
  match g with
  | [] => []
  | (Cmt c, _) :: tl => c :: comps tl
  | (Out, _) :: tl => comps tl
  end.

Definition memc (c : comp) (l : list comp) : bool := existsb (comp_eqb c) l.

(* sorted(l, key=lambda c: c.name): stable *)
Fixpoint ins_by_name (c : comp) (l : list comp) : list comp :=
  match l with
  | [] => [c]
  | y :: tl => if name_ltb (c_name y) (c_name c) then y :: ins_by_name c tl else c :: l
  end.
Definition sort_by_name (l : list comp) : list comp := fold_right ins_by_name [] l.

(* get_flow: the rate, Expr.integer(0) when there is no such edge *)
Definition get_flow (g : graph) (u v : node) : expr :=
  match adj_lookup (adj_of g u) v with Some r => r | None => Num 0%Q end.

(* list(self._g.predecessors(output)) of a copied graph: node order *)
Definition preds_of (g : graph) (v : node) : list node := map fst (in_edges g v).

Definition str (s : list N) : name := s.
Definition n_METABOLITE : name := [77;69;84;65;66;79;76;73;84;69]%N.
Definition n_EFFECT : name := [69;70;70;69;67;84]%N.
Definition n_COMPLEX : name := [67;79;77;80;76;69;88]%N.
Definition n_RESPONSE : name := [82;69;83;80;79;78;83;69]%N.
Definition n_CENTRAL : name := [67;69;78;84;82;65;76]%N.

(* central_compartment: None = ValueError.  (A predecessor of output is always a compartment in a
   graph made by the builder; an Output predecessor would be an AttributeError and is mapped to
   None as well.) *)
Definition central_compartment (g : graph) : option comp :=
  match last (map Some (preds_of g Out)) None with
  | Some (Cmt c) =>
      if name_eqb (c_name c) n_METABOLITE || name_eqb (c_name c) n_EFFECT
         || name_eqb (c_name c) n_COMPLEX || name_eqb (c_name c) n_RESPONSE
      then find_compartment g n_CENTRAL
      else Some c
  | _ => None
  end.

(* dosing_compartments: None = ValueError (no dose at all, or a dose exists and there is no central
   compartment — self.central_compartment is evaluated for every compartment that has a dose) *)
Definition dosing_step (central : comp) (acc : list comp) (nd : comp) : list comp :=
  match doses_prop nd with
  | [] => acc
  | _ =>
      if negb (name_eqb (c_name nd) (c_name central))
      then if 2 <=? length acc then removelast acc ++ [nd] ++ [last acc nd] else nd :: acc
      else acc ++ [nd]
  end.

Definition has_doses (c : comp) : bool := match doses_prop c with [] => false | _ => true end.

Definition dosing_compartments (g : graph) : option (list comp) :=
  let cs := sort_by_name (comps g) in
  if existsb has_doses cs then
    match central_compartment g with
    | Some central => Some (fold_left (dosing_step central) cs [])
    | None => None
    end
  else None.

(* sort_neighbors: successors without output, sorted by name *)
Fixpoint adj_comps (a : adj) : list comp :=
  match a with
  | [] => []
  | (Cmt c, _) :: tl => c :: adj_comps tl
  | (Out, _) :: tl => adj_comps tl
  end.
Definition nbrs (g : graph) (c : comp) : list comp := sort_by_name (adj_comps (adj_of g (Cmt c))).

(* list(nx.bfs_tree(G, source, sort_neighbors=...)): nodes in discovery order *)
Definition visit (qs : list comp * list comp) (c : comp) : list comp * list comp :=
  let '(q, seen) := qs in if memc c seen then (q, seen) else (q ++ [c], seen ++ [c]).

Fixpoint bfs_loop (g : graph) (fuel : nat) (queue seen : list comp) : list comp :=
  match fuel with
  | 0 => seen
  | S f =>
      match queue with
      | [] => seen
      | p :: q => let '(q', seen') := fold_left visit (nbrs g p) (q, seen) in bfs_loop g f q' seen'
      end
  end.
Definition bfs (g : graph) (src : comp) : list comp := bfs_loop g (S (length g)) [src] [src].

Fixpoint remove_first (c : comp) (l : list comp) : list comp :=
  match l with
  | [] => []
  | x :: tl => if comp_eqb x c then tl else x :: remove_first c tl
  end.

Definition has_input (c : comp) : bool := negb (expr_eqb (c_input c) (Num 0%Q)).

(* the `while remaining:` loop *)
Definition absorb (cmp : comp) (st : list comp * list comp) (c : comp) : list comp * list comp :=
  let '(ns, rm) := st in
  if memc c ns then (ns, rm)
  else (ns ++ [c], if comp_eqb c cmp then rm else remove_first c rm).

Fixpoint order_loop (g : graph) (fuel : nat) (remaining ns : list comp) : list comp :=
  match fuel with
  | 0 => ns
  | S f =>
      match remaining with
      | [] => ns
      | cmp :: rm =>
          let '(ns', rm') := fold_left (absorb cmp) (bfs g cmp) (ns, rm) in
          order_loop g f rm' ns'
      end
  end.

(* _order_compartments *)
Definition order (g : graph) : list comp :=
  match dosing_compartments g with
  | Some (dosecmt :: _) =>
      let ns := bfs g dosecmt in
      let rest := filter (fun c => negb (memc c ns)) (comps g) in
      let remaining := sort_by_name (filter has_input rest)
                       ++ sort_by_name (filter (fun c => negb (has_input c)) rest) in
      order_loop g (length remaining) remaining ns
  | _ => sort_by_name (comps g)
  end.

Definition amounts (g : graph) : list expr := map c_amount (order g).
Definition compartment_names (g : graph) : list name := map c_name (order g).
Definition zero_order_inputs (g : graph) : list expr := map c_input (order g).

(* compartmental_matrix, the two loops (after fix 34eef54):  for i != j (INDEX comparison)
   f[j,i] = rate(i -> j) and diagsum -= rate;  f[i,i] = diagsum - outrate.  A flow from a
   compartment to itself is read by get_flow but used nowhere. *)
Definition dflt : comp := mkComp [] (Num 0%Q) [] (Num 0%Q) (Num 0%Q) (Num 1%Q).
Definition nthc (l : list comp) (i : nat) : comp := nth i l dflt.

Definition diag_entry (g : graph) (ns : list comp) (i : nat) : expr :=
  Add (fold_left (fun acc j => if Nat.eqb i j then acc
                               else Add acc (Neg (get_flow g (Cmt (nthc ns i)) (Cmt (nthc ns j)))))
                 (seq 0 (length ns)) (Num 0%Q))
      (Neg (get_flow g (Cmt (nthc ns i)) Out)).

Definition matrix_entry (g : graph) (ns : list comp) (row col : nat) : expr :=
  if Nat.eqb row col then diag_entry g ns col
  else get_flow g (Cmt (nthc ns col)) (Cmt (nthc ns row)).

Definition matrix_on (g : graph) (ns : list comp) : list (list expr) :=
  map (fun row => map (fun col => matrix_entry g ns row col) (seq 0 (length ns))) (seq 0 (length ns)).
Definition compartmental_matrix (g : graph) : list (list expr) := matrix_on g (order g).

(* eqs: compartmental_matrix @ amounts + zero_order_inputs, row by row *)
Definition row_expr (g : graph) (ns : list comp) (row : nat) : expr :=
  fold_left (fun acc col => Add acc (Mul (matrix_entry g ns row col) (c_amount (nthc ns col))))
            (seq 0 (length ns)) (Num 0%Q).
Definition eq_rhs_on (g : graph) (ns : list comp) (row : nat) : expr :=
  Add (row_expr g ns row) (c_input (nthc ns row)).
Definition eqs_rhs (g : graph) : list expr :=
  map (eq_rhs_on g (order g)) (seq 0 (length (order g))).
Definition eqs_lhs (g : graph) : list expr := amounts g.   (* Derivative(amount_i, t) *)

(* ---- to_dict / from_dict ------------------------------------------------------------------------- *)
Inductive ddose :=
| DBolus (amount : expr) (admid : Z)                             (* {'class': 'Bolus', ...} *)
| DInfusion (amount : expr) (rate duration : option expr) (admid : Z).

Inductive ndict :=
| DOutput
| DCompartment (nm : name) (amount : expr) (doses : option (list ddose)) (input lag bio : expr).

Record csdict := mkDict { dd_comps : list ndict; dd_rates : list (nat * nat * expr); dd_t : expr }.

Definition dose_to_dict (d : dose) : ddose :=
  match d with Bolus a i => DBolus a i | Infusion a i r du => DInfusion a r du i end.
Definition dose_from_dict (d : ddose) : dose :=
  match d with DBolus a i => Bolus a i | DInfusion a r du i => Infusion a i r du end.

Definition node_to_dict (n : node) : ndict :=
  match n with
  | Out => DOutput
  | Cmt c => DCompartment (c_name c) (c_amount c)
               (match c_doses c with [] => None | ds => Some (map dose_to_dict ds) end)
               (c_input c) (c_lag c) (c_bio c)
  end.

Definition comp_from_dict (nm : name) (a : expr) (ds : option (list ddose)) (i l b : expr) : comp :=
  mkComp nm a (match ds with None => [] | Some l => map dose_from_dict l end) i l b.

(* comps.index(x): first position holding an == node *)
Fixpoint index_of (l : list node) (n : node) : nat :=
  match l with
  | [] => 0
  | x :: tl => if node_eqb x n then 0 else S (index_of tl n)
  end.

Definition cs := (graph * expr)%type.      (* the frozen graph and the independent variable t *)

Definition dict_rates (g : graph) : list (nat * nat * expr) :=
  let ns := nodes g in
  flat_map (fun p => map (fun e => (index_of ns (fst p), index_of ns (fst e), snd e)) (snd p)) g.

Definition to_dict (s : cs) : csdict :=
  let '(g, t) := s in mkDict (map node_to_dict (nodes g)) (dict_rates g) t.

(* from_dict; None = IndexError *)
Definition from_dict_node_step (st : graph * list node) (d : ndict) : graph * list node :=
  let '(g, cl) := st in
  match d with
  | DOutput => (g, cl ++ [Out])
  | DCompartment nm a dl i l b =>
      let c := Cmt (comp_from_dict nm a dl i l b) in (add_node g c, cl ++ [c])
  end.
Definition from_dict_nodes (ds : list ndict) : graph * list node :=
  fold_left from_dict_node_step ds (empty_builder, []).

Definition from_dict_step (cl : list node) (acc : option graph) (e : nat * nat * expr) : option graph :=
  let '(i, j, r) := e in
  match acc, nth_error cl i, nth_error cl j with
  | Some g, Some u, Some v => Some (add_edge g u v r)
  | _, _, _ => None
  end.

Definition from_dict (d : csdict) : option cs :=
  let '(g0, cl) := from_dict_nodes (dd_comps d) in
  match fold_left (from_dict_step cl) (dd_rates d) (Some g0) with
  | Some g => Some (g, dd_t d)
  | None => None
  end.

(* ---- __eq__ ----------------------------------------------------------------------------------- *)
(* dict == dict: same number of keys and every key of the first maps to an equal value in the second *)
Definition adj_dict_eqb (a b : adj) : bool :=
  Nat.eqb (length a) (length b)
  && forallb (fun p => match adj_lookup b (fst p) with Some r => expr_eqb (snd p) r | None => false end) a.

Definition dod_eqb (g1 g2 : graph) : bool :=
  Nat.eqb (length g1) (length g2)
  && forallb (fun p => has_node g2 (fst p) && adj_dict_eqb (snd p) (adj_of g2 (fst p))) g1.

(* _dosing_compartments_or_none (fix 876afb2): "no dosing compartments" (no dose, or no central
   compartment) is a value of the comparison, == never raises *)
Definition odosing_eqb (a b : option (list comp)) : bool :=
  match a, b with
  | Some d1, Some d2 => list_eqb comp_eqb d1 d2
  | None, None => true
  | _, _ => false
  end.

Definition cs_eq (a b : cs) : bool :=
  let '(g1, t1) := a in
  let '(g2, t2) := b in
  expr_eqb t1 t2 && dod_eqb g1 g2 && odosing_eqb (dosing_compartments g1) (dosing_compartments g2).

(* ---- subs ---------------------------------------------------------------------------------------- *)
Definition osubs (m : list (id * expr)) (e : option expr) : option expr := option_map (subs_map m) e.
Definition dose_subs (m : list (id * expr)) (d : dose) : dose :=
  match d with
  | Bolus a i => Bolus (subs_map m a) i
  | Infusion a i r du => Infusion (subs_map m a) i (osubs m r) (osubs m du)
  end.
(* Compartment.subs goes through the [doses] property (sorted) *)
Definition comp_subs (m : list (id * expr)) (c : comp) : comp :=
  mkComp (c_name c) (subs_map m (c_amount c)) (map (dose_subs m) (doses_prop c))
         (subs_map m (c_input c)) (subs_map m (c_lag c)) (subs_map m (c_bio c)).
Definition node_subs (m : list (id * expr)) (n : node) : node :=
  match n with Out => Out | Cmt c => Cmt (comp_subs m c) end.

(* CompartmentalSystem.subs up to node order: the real method relabels the changed compartments in
   an order that depends on set iteration (hash) order; the node ORDER of the result is therefore
   not modelled, the correspondence compares this result with the real one as dict-of-dicts. *)
Definition cs_subs (m : list (id * expr)) (s : cs) : cs :=
  let '(g, t) := s in
  (map (fun p => (node_subs m (fst p), map (fun e => (node_subs m (fst e), subs_map m (snd e))) (snd p))) g, t).

(* CompartmentalSystem.subs with its node order.  The method substitutes the rates in place, then calls
   nx.relabel_nodes(cb._g, {comp: comp.subs(...) for comp in _comps(self._g)}, copy=False).
   - every compartment changes: no key is a value, the nodes are relabelled in NODE order (each goes to the
     end in turn, so the relative order is kept);
   - at most one compartment changes: only that one moves (to the end), whatever the processing order;
   - otherwise (two or more change, one or more unchanged) keys and values overlap and networkx processes
     the entries in reversed topological order of a graph built from the items of a dict whose order is the
     iteration order of a SET of compartments, i.e. it depends on the string hash seed: not determined. *)
Definition subs_rates (m : list (id * expr)) (g : graph) : graph :=
  map (fun p => (fst p, map (fun e => (fst e, subs_map m (snd e))) (snd p))) g.
Definition subs_changed (m : list (id * expr)) (g : graph) : list comp :=
  filter (fun c => negb (comp_eqb (comp_subs m c) c)) (comps g).
Definition subs_order_determined (m : list (id * expr)) (g : graph) : bool :=
  Nat.eqb (length (subs_changed m g)) (length (comps g)) || (length (subs_changed m g) <=? 1).

(* relabel the given old nodes, in the given order *)
Definition relabel_olds (m : list (id * expr)) (olds : list node) (g : graph) : graph :=
  fold_left (fun acc old => let new := node_subs m old in
                            if node_eqb new old then acc
                            else if has_node acc old then relabel1 acc old new else acc) olds g.

(* the result when the order is determined (changed compartments processed in node order) *)
Definition cs_subs_exact (m : list (id * expr)) (s : cs) : cs :=
  let '(g, t) := s in (relabel_olds m (nodes g) (subs_rates m g), t).

(* ---- guards -------------------------------------------------------------------------------------- *)
Definition no_self_loop (g : graph) : bool :=
  forallb (fun p => negb (has_edge g (fst p) (fst p))) g.

Fixpoint names_unique (l : list comp) : bool :=
  match l with
  | [] => true
  | c :: tl => negb (existsb (fun c' => name_eqb (c_name c') (c_name c)) tl) && names_unique tl
  end.

Fixpoint nodup_nodes (l : list node) : bool :=
  match l with
  | [] => true
  | n :: tl => negb (existsb (node_eqb n) tl) && nodup_nodes tl
  end.

(* what every graph held by a builder satisfies: output is the first node and has no successor,
   keys are distinct, adjacency keys are distinct and are nodes of the graph *)
Definition wf_graph (g : graph) : bool :=
  match g with
  | (Out, []) :: _ => true
  | _ => false
  end
  && nodup_nodes (nodes g)
  && forallb (fun p => nodup_nodes (map fst (snd p)) && forallb (fun e => has_node g (fst e)) (snd p)) g.
