(* PV.C05.Check — the comparison run inside Coq by the correspondence check: re-runs the model on the
   exported builder operations, compares with what the real objects report (tags 1..9), evaluates
   the property statements on the implementation's own outputs (tags 11..), reports guard facts
   (tags 201..).  Tags >= 1000: the evaluation-based comparison was undefined at too many points. *)
From Coq Require Import QArith ZArith NArith List Bool PArith Arith.
From PV Require Import Base.PyData Base.Expr Base.Interp Base.Stmts C05.Model C05.ToCs C05.Access.
Import ListNotations.
Local Open Scope nat_scope.

Inductive eqres := EqTrue | EqFalse | EqRaises.

Record case := mkCase {
  k_ops : list op;
  k_errs : list (option err);                 (* error raised by each operation *)
  k_t : expr;
  k_graph : graph;                            (* cs._g: nodes in order, successors in order *)
  k_preds_out : list name;                    (* list(cs._g.predecessors(output)) *)
  k_central : option name;                    (* None = ValueError *)
  k_dosing : option (list name);
  k_order : list comp;                        (* cs._order_compartments() *)
  k_names : list name;                        (* cs.compartment_names *)
  k_amounts : list expr;                      (* cs.amounts *)
  k_inputs : list expr;                       (* cs.zero_order_inputs *)
  k_matrix : list (list expr);                (* cs.compartmental_matrix, rows *)
  k_eqs : list (expr * expr);                 (* cs.eqs: (function under the derivative, rhs) *)
  k_dict : csdict;                            (* cs.to_dict() *)
  k_rt : option cs;                           (* from_dict(to_dict(cs)): its graph and t *)
  k_rt_eq : eqres;                            (* from_dict(to_dict(cs)) == cs *)
  k_other : option (list op * eqres * bool);  (* a second system: cs == other, to_dict equal *)
  k_subs : option (list (id * expr) * graph * list name);
      (* substitution, graph of cs.subs(...), its compartment_names *)
  k_rebuilt : option (list (name * expr));    (* eqs of to_compartmental_system(names, cs.eqs), by name *)
  k_tocs : option (list comp * list expr * list leq * graph);
      (* to_compartmental_system: default compartments, lhs functions, expanded terms of cs.eqs, real result graph *)
  k_access : list (node * list (node * expr) * list (node * expr) * list node * nat) * nat;
      (* per node (every compartment; for output only the inflows are real): get_compartment_outflows,
         get_compartment_inflows, get_bidirectionals, get_n_connected; and len(cs) *)
  k_envs : list (list (id * Q))
}.

Definition envs_of (c : case) : list env := map env_of (k_envs c).
Definition tag (b : bool) (t : nat) : list nat := if b then [] else [t].
Definition tag3 (v : nat) (tfail tinc : nat) : list nat :=
  match v with 0 => [] | 1 => [tfail] | _ => [tinc] end.

(* ---- exact comparisons ----------------------------------------------------------------------------- *)
Definition err_eqb (a b : err) : bool :=
  match a, b with
  | ValueError, ValueError | NetworkXError, NetworkXError | AttributeError, AttributeError => true
  | _, _ => false
  end.
Definition oerr_eqb (a b : option err) : bool :=
  match a, b with Some x, Some y => err_eqb x y | None, None => true | _, _ => false end.
Definition oname_eqb (a b : option name) : bool :=
  match a, b with Some x, Some y => name_eqb x y | None, None => true | _, _ => false end.
Definition onames_eqb (a b : option (list name)) : bool :=
  match a, b with Some x, Some y => list_eqb name_eqb x y | None, None => true | _, _ => false end.

Definition adj_eqb (a b : adj) : bool :=
  list_eqb (fun p q => node_eqb (fst p) (fst q) && expr_eqb (snd p) (snd q)) a b.
Definition graph_eqb (a b : graph) : bool :=
  list_eqb (fun p q => node_eqb (fst p) (fst q) && adj_eqb (snd p) (snd q)) a b.

Definition ddose_eqb (a b : ddose) : bool :=
  match a, b with
  | DBolus x i, DBolus y j => expr_eqb x y && Z.eqb i j
  | DInfusion x r d i, DInfusion y r' d' j => expr_eqb x y && oexpr_eqb r r' && oexpr_eqb d d' && Z.eqb i j
  | _, _ => false
  end.
Definition ndict_eqb (a b : ndict) : bool :=
  match a, b with
  | DOutput, DOutput => true
  | DCompartment n a ds i l bb, DCompartment n' a' ds' i' l' bb' =>
      name_eqb n n' && expr_eqb a a'
      && match ds, ds' with Some x, Some y => list_eqb ddose_eqb x y | None, None => true | _, _ => false end
      && expr_eqb i i' && expr_eqb l l' && expr_eqb bb bb'
  | _, _ => false
  end.
Definition csdict_eqb (a b : csdict) : bool :=
  list_eqb ndict_eqb (dd_comps a) (dd_comps b)
  && list_eqb (fun p q => Nat.eqb (fst (fst p)) (fst (fst q)) && Nat.eqb (snd (fst p)) (snd (fst q))
                          && expr_eqb (snd p) (snd q)) (dd_rates a) (dd_rates b)
  && expr_eqb (dd_t a) (dd_t b).

(* the model's == never raises (fix 876afb2); an observed EqRaises is a disagreement *)
Definition eqres_of (r : bool) : eqres := if r then EqTrue else EqFalse.
Definition eqres_eqb (a b : eqres) : bool :=
  match a, b with EqTrue, EqTrue | EqFalse, EqFalse | EqRaises, EqRaises => true | _, _ => false end.

(* ---- evaluation-based comparisons ------------------------------------------------------------------- *)
Fixpoint worst (l : list nat) : nat :=     (* 1 beats 2 beats 0 *)
  match l with
  | [] => 0
  | 1 :: _ => 1
  | 0 :: tl => worst tl
  | _ :: tl => match worst tl with 1 => 1 | _ => 2 end
  end.

Definition exprs_agree (need : nat) (envs : list env) (a b : list expr) : nat :=
  if Nat.eqb (length a) (length b) then worst (map (fun p => expr_agree need envs (fst p) (snd p)) (combine a b))
  else 1.

Definition sum_expr (l : list expr) : expr := fold_left Add l (Num 0%Q).

(* ---- correspondence ------------------------------------------------------------------------------------ *)
Definition model_graph (c : case) : graph := build (k_ops c).
Definition model_errs (c : case) : list (option err) := snd (apply_ops empty_builder (k_ops c)).

Definition node_names (l : list node) : list name :=
  flat_map (fun n => match n with Cmt c => [c_name c] | Out => [] end) l.

Definition check_graph (c : case) : list nat :=
  tag (graph_eqb (model_graph c) (k_graph c)) 1
  ++ tag (list_eqb oerr_eqb (model_errs c) (k_errs c)) 1
  ++ tag (list_eqb name_eqb (node_names (preds_of (model_graph c) Out)) (k_preds_out c)) 1.

Definition check_dosing (c : case) : list nat :=
  let g := model_graph c in
  tag (oname_eqb (option_map c_name (central_compartment g)) (k_central c)) 2
  ++ tag (onames_eqb (option_map (map c_name) (dosing_compartments g)) (k_dosing c)) 2.

Definition check_order (c : case) : list nat :=
  let g := model_graph c in
  tag (list_eqb comp_eqb (order g) (k_order c)) 3
  ++ tag (list_eqb name_eqb (compartment_names g) (k_names c)) 3
  ++ tag (list_eqb expr_eqb (amounts g) (k_amounts c)) 3
  ++ tag (list_eqb expr_eqb (zero_order_inputs g) (k_inputs c)) 3.

Definition check_matrix (c : case) : list nat :=
  let g := model_graph c in
  tag3 (exprs_agree 2 (envs_of c) (concat (compartmental_matrix g)) (concat (k_matrix c))) 4 1004
  ++ tag (list_eqb Nat.eqb (map (@length expr) (compartmental_matrix g)) (map (@length expr) (k_matrix c))) 4.

Definition check_eqs (c : case) : list nat :=
  let g := model_graph c in
  tag3 (exprs_agree 2 (envs_of c) (eqs_rhs g) (map snd (k_eqs c))) 5 1005
  ++ tag (list_eqb expr_eqb (eqs_lhs g) (map fst (k_eqs c))) 5.

Definition check_dict (c : case) : list nat :=
  tag (csdict_eqb (to_dict (model_graph c, k_t c)) (k_dict c)) 6.

Definition cs_eqb (a b : option cs) : bool :=
  match a, b with
  | Some (g, t), Some (g', t') => graph_eqb g g' && expr_eqb t t'
  | None, None => true
  | _, _ => false
  end.

Definition check_from_dict (c : case) : list nat :=
  let s := (model_graph c, k_t c) in
  (* the model's from_dict run on the REAL dict *)
  tag (cs_eqb (from_dict (k_dict c)) (k_rt c)) 7
  ++ tag (match from_dict (k_dict c) with
          | Some s' => eqres_eqb (eqres_of (cs_eq s' s)) (k_rt_eq c)
          | None => false
          end) 7
  ++ match k_other c with
     | Some (ops2, r, same_dict) =>
         let s2 := (build ops2, k_t c) in
         tag (eqres_eqb (eqres_of (cs_eq s s2)) r) 7
         ++ tag (Bool.eqb (csdict_eqb (to_dict s) (to_dict s2)) same_dict) 7
     | None => []
     end.

(* graphs as dict of dicts, expressions by evaluation: [a] is matched into [b] by node NAME *)
Definition dose_agree (need : nat) (envs : list env) (a b : dose) : nat :=
  match a, b with
  | Bolus x i, Bolus y j => if Z.eqb i j then expr_agree need envs x y else 1
  | Infusion x i (Some r) None, Infusion y j (Some r') None =>
      if Z.eqb i j then worst [expr_agree need envs x y; expr_agree need envs r r'] else 1
  | Infusion x i None (Some d), Infusion y j None (Some d') =>
      if Z.eqb i j then worst [expr_agree need envs x y; expr_agree need envs d d'] else 1
  | _, _ => 1
  end.

Definition comp_agree (need : nat) (envs : list env) (a b : comp) : nat :=
  if name_eqb (c_name a) (c_name b) && Nat.eqb (length (c_doses a)) (length (c_doses b)) then
    worst ([expr_agree need envs (c_amount a) (c_amount b); expr_agree need envs (c_input a) (c_input b);
            expr_agree need envs (c_lag a) (c_lag b); expr_agree need envs (c_bio a) (c_bio b)]
           ++ map (fun p => dose_agree need envs (fst p) (snd p)) (combine (c_doses a) (c_doses b)))
  else 1.

Definition node_name (n : node) : option name := match n with Out => None | Cmt c => Some (c_name c) end.
Definition find_by_name (g : graph) (n : node) : option (node * adj) :=
  find (fun p => oname_eqb (node_name (fst p)) (node_name n)) g.

Definition node_agree (need : nat) (envs : list env) (a b : node) : nat :=
  match a, b with
  | Out, Out => 0
  | Cmt x, Cmt y => comp_agree need envs x y
  | _, _ => 1
  end.

Definition adj_agree (need : nat) (envs : list env) (a b : adj) : nat :=
  if Nat.eqb (length a) (length b) then
    worst (map (fun e => match find (fun e' => oname_eqb (node_name (fst e')) (node_name (fst e))) b with
                         | Some e' => expr_agree need envs (snd e) (snd e')
                         | None => 1
                         end) a)
  else 1.

Definition dod_agree (need : nat) (envs : list env) (a b : graph) : nat :=
  if Nat.eqb (length a) (length b) then
    worst (map (fun p => match find_by_name b (fst p) with
                         | Some q => worst [node_agree need envs (fst p) (fst q); adj_agree need envs (snd p) (snd q)]
                         | None => 1
                         end) a)
  else 1.

Definition check_subs (c : case) : list nat :=
  match k_subs c with
  | Some (m, g', _) =>
      tag3 (dod_agree 2 (envs_of c) (fst (cs_subs m (model_graph c, k_t c))) g') 8 1008
      (* node order and adjacency order, when they do not depend on set iteration order *)
      ++ (if subs_order_determined m (model_graph c) then
            let ge := fst (cs_subs_exact m (model_graph c, k_t c)) in
            tag (list_eqb oname_eqb (map node_name (nodes ge)) (map node_name (nodes g'))
                 && list_eqb (list_eqb oname_eqb) (map (fun p => map (fun e => node_name (fst e)) (snd p)) ge)
                                                  (map (fun p => map (fun e => node_name (fst e)) (snd p)) g')) 8
            ++ tag3 (dod_agree 2 (envs_of c) ge g') 8 1008
          else [])
  | None => []
  end.

(* ---- the property on the implementation's own outputs ---------------------------------------------------- *)
Definition nthe (l : list expr) (i : nat) : expr := nth i l (Num 0%Q).
Definition nthrow (m : list (list expr)) (i : nat) : list expr := nth i m [].

(* 11: the reported order is a permutation of the compartments of the graph *)
Fixpoint count_comp (c : comp) (l : list comp) : nat :=
  match l with [] => 0 | x :: tl => (if comp_eqb x c then 1 else 0) + count_comp c tl end.
Definition perm_comps (a b : list comp) : bool :=
  Nat.eqb (length a) (length b) && forallb (fun c => Nat.eqb (count_comp c a) (count_comp c b)) a.

Definition oracle_order (c : case) : list nat :=
  tag (perm_comps (k_order c) (comps (k_graph c))) 11
  (* 12: names, amounts, inputs all follow that one order *)
  ++ tag (list_eqb name_eqb (k_names c) (map c_name (k_order c))
          && list_eqb expr_eqb (k_amounts c) (map c_amount (k_order c))
          && list_eqb expr_eqb (k_inputs c) (map c_input (k_order c))
          && list_eqb expr_eqb (map fst (k_eqs c)) (map c_amount (k_order c))
          && Nat.eqb (length (k_matrix c)) (length (k_order c))
          && forallb (fun row => Nat.eqb (length row) (length (k_order c))) (k_matrix c)) 12.

(* 13: eq_i = sum_j M_ij A_j + u_i with the implementation's own M, A, u *)
Definition oracle_eqs (c : case) : list nat :=
  let n := length (k_order c) in
  let expected := map (fun i => Add (sum_expr (map (fun j => Mul (nthe (nthrow (k_matrix c) i) j) (nthe (k_amounts c) j))
                                                   (seq 0 n))) (nthe (k_inputs c) i)) (seq 0 n) in
  tag3 (exprs_agree 2 (envs_of c) (map snd (k_eqs c)) expected) 13 1013.

(* 14: matrix against the graph: off-diagonal M_ji = rate(i -> j); diagonal = -(sum of the flows to
   the OTHER compartments + flow to output) *)
Definition oracle_matrix (c : case) : list nat :=
  let g := k_graph c in
  let ns := k_order c in
  let n := length ns in
  let expected :=
    map (fun row => map (fun col =>
      if Nat.eqb row col then
        Neg (Add (sum_expr (map (fun e => snd e)
                                (filter (fun e => negb (node_eqb (fst e) (Cmt (nthc ns col))) && negb (node_eqb (fst e) Out))
                                        (adj_of g (Cmt (nthc ns col))))))
                 (get_flow g (Cmt (nthc ns col)) Out))
      else get_flow g (Cmt (nthc ns col)) (Cmt (nthc ns row))) (seq 0 n)) (seq 0 n) in
  tag3 (exprs_agree 2 (envs_of c) (concat (k_matrix c)) (concat expected)) 14 1014.

(* 15: mass balance of the implementation's equations: sum_i rhs_i = sum_i u_i - sum_i rate(i->output) A_i *)
Definition oracle_mass (c : case) : list nat :=
  let g := k_graph c in
  let lhs := sum_expr (map snd (k_eqs c)) in
  let rhs := Add (sum_expr (k_inputs c))
                 (Neg (sum_expr (map (fun cm => Mul (get_flow g (Cmt cm) Out) (c_amount cm)) (k_order c)))) in
  tag3 (expr_agree 2 (envs_of c) lhs rhs) 15 1015.

(* 16/17: serialisation round trip *)
Definition oracle_dict (c : case) : list nat :=
  tag (cs_eqb (k_rt c) (Some (k_graph c, k_t c))) 16
  ++ tag (eqres_eqb (k_rt_eq c) EqTrue) 17.

(* 18: to_compartmental_system(names, eqs) gives a system with the same equations *)
Definition oracle_rebuilt (c : case) : list nat :=
  match k_rebuilt c with
  | None => []
  | Some l =>
      tag (Nat.eqb (length l) (length (k_order c))) 18
      ++ tag3 (worst (map (fun p =>
                 match find (fun q => name_eqb (fst q) (c_name (fst p))) l with
                 | Some q => expr_agree 2 (envs_of c) (snd (snd p)) (snd q)
                 | None => 1
                 end) (combine (k_order c) (k_eqs c)))) 18 1018
  end.

(* 19: substitution keeps the structure, and every expression of the result evaluates like the
   original under the substituted environment *)
Definition sub_envs (m : list (id * expr)) (envs : list env) : list env := map (fun r => upd_map r std_fi m) envs.

Definition expr_agree2 (need : nat) (envs envs' : list env) (a b : expr) : nat :=
  summarize need (map (fun rr => cmp_oq (eval (fst rr) std_fi a) (eval (snd rr) std_fi b)) (combine envs envs')).

Definition oracle_subs (c : case) : list nat :=
  match k_subs c with
  | None => []
  | Some (m, g', _) =>
      let g := k_graph c in
      let E := envs_of c in
      let E' := sub_envs m E in
      tag (Nat.eqb (length g) (length g')) 19
      ++ tag3 (worst (map (fun p =>
           match find_by_name g' (fst p) with
           | None => 1
           | Some q =>
               worst ((match fst p, fst q with
                       | Cmt x, Cmt y =>
                           worst [expr_agree2 2 E E' (c_input y) (c_input x); expr_agree2 2 E E' (c_lag y) (c_lag x);
                                  expr_agree2 2 E E' (c_bio y) (c_bio x);
                                  if Nat.eqb (length (c_doses x)) (length (c_doses y)) then 0 else 1]
                       | Out, Out => 0
                       | _, _ => 1
                       end)
                      :: (if Nat.eqb (length (snd p)) (length (snd q)) then 0 else 1)
                      :: map (fun e => match find (fun e' => oname_eqb (node_name (fst e')) (node_name (fst e))) (snd q) with
                                       | Some e' => expr_agree2 2 E E' (snd e') (snd e)
                                       | None => 1
                                       end) (snd p))
           end) g)) 19 1019
  end.

(* 21: substitution does not change the compartment order *)
Definition oracle_subs_order (c : case) : list nat :=
  match k_subs c with
  | Some (_, _, names') => tag (list_eqb name_eqb names' (k_names c)) 21
  | None => []
  end.

(* 10: flow accessors *)
Definition flows_eqb (a b : list (node * expr)) : bool :=
  list_eqb (fun p q => node_eqb (fst p) (fst q) && expr_eqb (snd p) (snd q)) a b.
Definition check_access (c : case) : list nat :=
  let g := model_graph c in
  tag (Nat.eqb (cs_len g) (snd (k_access c))) 10
  ++ flat_map (fun r =>
       let '(nd, outs, ins, bi, nc) := r in
       tag (flows_eqb (inflows g nd) ins) 10
       ++ match nd with
          | Out => []
          | Cmt _ => tag (flows_eqb (outflows g nd) outs && list_eqb node_eqb (bidirectionals g nd) bi
                          && Nat.eqb (n_connected g nd) nc) 10
          end) (fst (k_access c)).

(* 9: the model of to_compartmental_system run on the real expanded equations gives the real graph
   (node order by name, exact; compartments and rates by evaluation) *)
Definition check_tocs (c : case) : list nat :=
  match k_tocs c with
  | None => []
  | Some (cmts, amts, eqs, g') =>
      let gm := to_cs cmts amts eqs in
      tag (list_eqb oname_eqb (map node_name (nodes gm)) (map node_name (nodes g'))) 9
      ++ tag3 (dod_agree 2 (envs_of c) gm g') 9 1009
  end.

(* 20: on the implementation: when the system is linear with pairwise distinct rates, the rebuilt system has
   the same flows, output flows and inputs as the original (doses, lag, bioavailability are not recoverable) *)
Definition strip (g : graph) : graph :=
  map (fun p => (match fst p with Out => Out | Cmt x => Cmt (with_input (default_comp x) (c_input x)) end,
                 map (fun e => (match fst e with Out => Out | Cmt x => Cmt (with_input (default_comp x) (c_input x)) end, snd e))
                     (snd p))) g.

Definition oracle_tocs (c : case) : list nat :=
  match k_tocs c with
  | None => []
  | Some (_, _, _, g') =>
      if linear_distinct (k_graph c) then tag3 (dod_agree 2 (envs_of c) (strip (k_graph c)) g') 20 1020
      else []
  end.

Definition guard_tags (c : case) : list nat :=
  let g := k_graph c in
  tag (no_self_loop g) 201
  ++ tag (match dosing_compartments g with Some _ => true | None => false end) 202
  ++ tag (names_unique (comps g)) 203
  ++ tag (wf_graph g) 204
  ++ (match k_tocs c with Some _ => tag (linear_distinct g) 205 | None => [] end)
  ++ tag (length (preds_of g Out) <=? 1) 207
  ++ (match k_subs c with Some (m, _, _) => tag (subs_order_determined m g) 208 | None => [] end).

Definition verdict (c : case) : list nat :=
  check_graph c ++ check_dosing c ++ check_order c ++ check_matrix c ++ check_eqs c ++ check_dict c
  ++ check_from_dict c ++ check_subs c ++ check_tocs c ++ check_access c
  ++ oracle_order c ++ oracle_eqs c ++ oracle_matrix c ++ oracle_mass c ++ oracle_dict c
  ++ oracle_rebuilt c ++ oracle_subs c ++ oracle_subs_order c ++ oracle_tocs c ++ guard_tags c.
