(* PV.C05.Refuted — counter-models and regression examples.
   No guard conjunct of C05 is refuted any more; both code defects found are fixed in /repo:
     C05-SELF-FLOW (34eef54)          compartmental_matrix used to subtract a self flow CENTRAL -> CENTRAL on
                                      the diagonal without adding it anywhere; the former witness of
                                      mass_balance_refuted_selfloop now balances (selfloop_fixed);
     C05-EQ-RAISES-NO-DOSE (876afb2)  CompartmentalSystem.__eq__ used to raise ValueError for a system without
                                      dose or central compartment; the former witness of eq_raises_refuted now
                                      compares equal to its serialisation round trip (nodose_eq_fixed).
   Still refuted (shared with C12, not a C05 statement): to_dict is not a function of the == class. *)
From Coq Require Import QArith ZArith NArith List Bool PArith Arith.
From PV Require Import Base.PyData Base.Expr Base.Interp C05.Model C05.ToCs C05.Proofs.
Import ListNotations.
Local Open Scope nat_scope.

Definition sK : id := 2%positive.  Definition sKS : id := 3%positive.  Definition sAC : id := 4%positive.
Definition sAP : id := 5%positive. Definition sK12 : id := 6%positive. Definition sK21 : id := 7%positive.
Definition sAMT : id := 8%positive. Definition sT : id := 1%positive. Definition sALAG : id := 9%positive.
Definition n_PERI : name := [80; 69; 82; 73]%N.

Definition central_nodose : comp := mkComp n_CENTRAL (Sym sAC) [] (Num 0) (Num 0) (Num 1).
Definition central : comp := mkComp n_CENTRAL (Sym sAC) [Bolus (Sym sAMT) 1] (Num 0) (Num 0) (Num 1).
Definition peri : comp := mkComp n_PERI (Sym sAP) [] (Num 0) (Num 0) (Num 1).

(* CENTRAL with dose, CENTRAL -> output K, CENTRAL -> CENTRAL KS *)
Definition selfloop_ops : list op :=
  [OAddCompartment central; OAddFlow n_CENTRAL TOut (Sym sK); OAddFlow n_CENTRAL (TName n_CENTRAL) (Sym sKS)].
Definition selfloop_env : env := env_of [(sK, 1%Q); (sKS, 1%Q); (sAC, 1%Q); (sAMT, 1%Q)].

(* formerly dA_CENTRAL/dt = (-K - KS) A_CENTRAL (total changed by -2 with K = KS = A = 1 although only
   1 leaves through the output); now the self flow is ignored: -1 = 0 - 1 *)
Example selfloop_fixed :
  no_self_loop (build selfloop_ops) = false /\
  eval selfloop_env std_fi (total_rhs (build selfloop_ops)) = Some (- (1))%Q /\
  eval selfloop_env std_fi (total_input (build selfloop_ops)) = Some 0%Q /\
  eval selfloop_env std_fi (total_output (build selfloop_ops)) = Some 1%Q /\
  eqs_rhs (build selfloop_ops)
  = [Add (Add (Num 0) (Mul (Add (Num 0) (Neg (Sym sK))) (Sym sAC))) (Num 0)].
Proof. repeat split; vm_compute; reflexivity. Qed.

(* a system without dose: formerly == raised ValueError on the serialisation round trip *)
Definition nodose_ops : list op := [OAddCompartment central_nodose; OAddFlow n_CENTRAL TOut (Sym sK)].

Example nodose_eq_fixed :
  dosing_compartments (build nodose_ops) = None /\
  (exists s', from_dict (to_dict (build nodose_ops, Sym sT)) = Some s' /\ cs_eq s' (build nodose_ops, Sym sT) = true) /\
  (* a dosed and an undosed system are still different, both ways *)
  cs_eq (build nodose_ops, Sym sT) (build (OAddCompartment central :: tl nodose_ops), Sym sT) = false /\
  cs_eq (build (OAddCompartment central :: tl nodose_ops), Sym sT) (build nodose_ops, Sym sT) = false.
Proof.
  split; [vm_compute; reflexivity|]. split; [|split; vm_compute; reflexivity].
  eexists. split; [apply dict_roundtrip_lemma, build_WF | vm_compute; reflexivity].
Qed.

(* two == systems with different to_dict (shared with C12): the same two-compartment system entered
   CENTRAL, PERI and PERI, CENTRAL; and a system before / after set_lag_time(x); set_lag_time(0) *)
Definition two_ops_a : list op :=
  [OAddCompartment central; OAddCompartment peri; OAddFlow n_CENTRAL (TName n_PERI) (Sym sK12);
   OAddFlow n_PERI (TName n_CENTRAL) (Sym sK21); OAddFlow n_CENTRAL TOut (Sym sK)].
Definition two_ops_b : list op :=
  [OAddCompartment peri; OAddCompartment central; OAddFlow n_CENTRAL (TName n_PERI) (Sym sK12);
   OAddFlow n_PERI (TName n_CENTRAL) (Sym sK21); OAddFlow n_CENTRAL TOut (Sym sK)].

Theorem dict_order_refuted :
  exists ops1 ops2 t,
    cs_eq (build ops1, t) (build ops2, t) = true /\ to_dict (build ops1, t) <> to_dict (build ops2, t).
Proof.
  exists two_ops_a, two_ops_b, (Sym sT). split; [vm_compute; reflexivity|]. vm_compute. discriminate.
Qed.

Theorem dict_order_refuted_relabel :
  exists ops t,
    let ops' := ops ++ [OSetLag n_CENTRAL (Sym sALAG); OSetLag n_CENTRAL (Num 0)] in
    cs_eq (build ops, t) (build ops', t) = true /\ to_dict (build ops, t) <> to_dict (build ops', t).
Proof.
  exists two_ops_a, (Sym sT). split; [vm_compute; reflexivity|]. vm_compute. discriminate.
Qed.

(* ---- subs: the node order of the result is not determined by the system (finding C05-SUBS-REORDERS) -------- *)
(* A (dose AMT) -> C, B (dose AMT) -> C, A -> output, B -> output; subs {AMT: DOSE} changes A and B and leaves C
   unchanged, so networkx relabels A and B in an order taken from the iteration order of a set of compartments
   (string hashes): relabelling A last makes A the central compartment and the compartment order B, C, A;
   relabelling B last keeps B central and the order A, C, B.  Both orders are observed on the real code with
   different PYTHONHASHSEED. *)
Definition sDOSE : id := 20%positive. Definition sK10 : id := 21%positive. Definition sK20 : id := 22%positive.
Definition n_A : name := [65]%N. Definition n_B : name := [66]%N. Definition n_C : name := [67]%N.
Definition cA : comp := mkComp n_A (Sym sAC) [Bolus (Sym sAMT) 1] (Num 0) (Num 0) (Num 1).
Definition cB : comp := mkComp n_B (Sym sAP) [Bolus (Sym sAMT) 2] (Num 0) (Num 0) (Num 1).
Definition cC : comp := mkComp n_C (Sym sKS) [] (Num 0) (Num 0) (Num 1).
Definition subs_ops : list op :=
  [OAddCompartment cA; OAddCompartment cB; OAddCompartment cC;
   OAddFlow n_A (TName n_C) (Sym sK12); OAddFlow n_B (TName n_C) (Sym sK21);
   OAddFlow n_A TOut (Sym sK10); OAddFlow n_B TOut (Sym sK20)].
Definition subs_m : list (id * expr) := [(sAMT, Sym sDOSE)].

Theorem subs_order_refuted :
  exists g m o1 o2,
    wf_graph g = true /\ names_unique (comps g) = true /\ subs_order_determined m g = false /\
    Permutation.Permutation o1 o2 /\ (forall n, In n o1 <-> In n (map Cmt (subs_changed m g))) /\
    map c_name (order (relabel_olds m o1 (subs_rates m g))) <> map c_name (order (relabel_olds m o2 (subs_rates m g))) /\
    map c_name (order (relabel_olds m o2 (subs_rates m g))) = map c_name (order g).
Proof.
  exists (build subs_ops), subs_m, [Cmt cB; Cmt cA], [Cmt cA; Cmt cB].
  split; [vm_compute; reflexivity|]. split; [vm_compute; reflexivity|]. split; [vm_compute; reflexivity|].
  split; [apply Permutation.perm_swap|]. split.
  - intros n. vm_compute. tauto.
  - split; [vm_compute; discriminate | vm_compute; reflexivity].
Qed.

(* ---- to_compartmental_system: guard conjuncts of the flow-recovery theorem ------------------------------------------- *)
(* hard-coded independent variable: the compartments are made by Compartment.create(name), i.e. with the amount
   A_<name>(t); for a system whose amounts are functions of another variable the rebuilt system has other
   amounts (on the real code the result even mixes A(t) and A(TIME)) *)
Theorem tocs_idv_refuted :
  exists amt_t g,
    linear_distinct g = true /\ g_default_idv amt_t g = false /\ same_flows g (rebuilt_with amt_t g) (order g) = false.
Proof.
  exists (fun _ => Sym 999%positive), (build [OAddCompartment central; OAddFlow n_CENTRAL TOut (Sym sK)]).
  repeat split; vm_compute; reflexivity.
Qed.

(* merged monomials: A -> B with rate K and A -> output with rate K (or 2*K next to K): expand() turns the
   equation of A into the single term -2*K*A_A, the term +K*A_A of B finds no -K*A_A, and the flow A -> B is
   NOT recovered (it becomes a "zero-order input" K*A_A of B, the output rate becomes 2*K) although the
   equations are the same.  [eqs] are the expanded equations sympy produces (reproduced on the real code). *)
Definition merged_g : graph :=
  build [OAddCompartment cA; OAddCompartment (mkComp n_B (Sym sAP) [] (Num 0) (Num 0) (Num 1));
         OAddFlow n_A (TName n_B) (Sym sK); OAddFlow n_A TOut (Sym sK)].
Definition merged_eqs : list leq :=
  [[mkT false (Mul (Num 2) (Sym sK)) (Some 0%nat)]; [mkT true (Sym sK) (Some 0%nat)]].

Theorem tocs_merged_rates_refuted :
  let g' := to_cs (map default_comp (order merged_g)) (amounts merged_g) merged_eqs in
  linear_distinct merged_g = false /\ same_flows merged_g g' (order merged_g) = false /\
  map c_name (order merged_g) = [n_A; n_B] /\
  option_map (fun b => (get_flow g' (Cmt (default_comp cA)) (Cmt b), c_input b)) (find_compartment g' n_B)
  = Some (Num 0, Mul (Sym sK) (Sym sAC)) /\
  get_flow g' (Cmt (default_comp cA)) Out = Mul (Num 2) (Sym sK).
Proof. repeat split; vm_compute; reflexivity. Qed.
