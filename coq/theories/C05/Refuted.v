(* PV.C05.Refuted — counter-models and regression examples.
   No guard conjunct of C05 is refuted any more; both code defects found are fixed in /repo:
     C05-SELF-FLOW (34eef54)          compartmental_matrix used to subtract a self flow CENTRAL -> CENTRAL on
                                      the diagonal without adding it anywhere; the former witness of
                                      mass_balance_refuted_selfloop now balances (selfloop_fixed);
     C05-EQ-RAISES-NO-DOSE (876afb2)  CompartmentalSystem.__eq__ used to raise ValueError for a system without
                                      dose or central compartment; the former witness of eq_raises_refuted now
                                      compares equal to its serialisation round trip (nodose_eq_fixed).
   Still refuted (shared with C12, not a C05 statement): to_dict is not a function of the == class. *)
From Coq Require Import QArith ZArith NArith List Bool PArith Arith.
From PV Require Import Base.PyData Base.Expr Base.Interp C05.Model C05.Proofs.
Import ListNotations.
Local Open Scope nat_scope.

Definition sK : id := 2%positive.  Definition sKS : id := 3%positive.  Definition sAC : id := 4%positive.
Definition sAP : id := 5%positive. Definition sK12 : id := 6%positive. Definition sK21 : id := 7%positive.
Definition sAMT : id := 8%positive. Definition sT : id := 1%positive. Definition sALAG : id := 9%positive.
Definition n_PERI : name := [80; 69; 82; 73]%N.

Definition central_nodose : comp := mkComp n_CENTRAL (Sym sAC) [] (Num 0) (Num 0) (Num 1).
Definition central : comp := mkComp n_CENTRAL (Sym sAC) [Bolus (Sym sAMT) 1] (Num 0) (Num 0) (Num 1).
Definition peri : comp := mkComp n_PERI (Sym sAP) [] (Num 0) (Num 0) (Num 1).

(* CENTRAL with dose, CENTRAL -> output K, CENTRAL -> CENTRAL KS *)
Definition selfloop_ops : list op :=
  [OAddCompartment central; OAddFlow n_CENTRAL TOut (Sym sK); OAddFlow n_CENTRAL (TName n_CENTRAL) (Sym sKS)].
Definition selfloop_env : env := env_of [(sK, 1%Q); (sKS, 1%Q); (sAC, 1%Q); (sAMT, 1%Q)].

(* formerly dA_CENTRAL/dt = (-K - KS) A_CENTRAL (total changed by -2 with K = KS = A = 1 although only
   1 leaves through the output); now the self flow is ignored: -1 = 0 - 1 *)
Example selfloop_fixed :
  no_self_loop (build selfloop_ops) = false /\
  eval selfloop_env std_fi (total_rhs (build selfloop_ops)) = Some (- (1))%Q /\
  eval selfloop_env std_fi (total_input (build selfloop_ops)) = Some 0%Q /\
  eval selfloop_env std_fi (total_output (build selfloop_ops)) = Some 1%Q /\
  eqs_rhs (build selfloop_ops)
  = [Add (Add (Num 0) (Mul (Add (Num 0) (Neg (Sym sK))) (Sym sAC))) (Num 0)].
Proof. repeat split; vm_compute; reflexivity. Qed.

(* a system without dose: formerly == raised ValueError on the serialisation round trip *)
Definition nodose_ops : list op := [OAddCompartment central_nodose; OAddFlow n_CENTRAL TOut (Sym sK)].

Example nodose_eq_fixed :
  dosing_compartments (build nodose_ops) = None /\
  (exists s', from_dict (to_dict (build nodose_ops, Sym sT)) = Some s' /\ cs_eq s' (build nodose_ops, Sym sT) = true) /\
  (* a dosed and an undosed system are still different, both ways *)
  cs_eq (build nodose_ops, Sym sT) (build (OAddCompartment central :: tl nodose_ops), Sym sT) = false /\
  cs_eq (build (OAddCompartment central :: tl nodose_ops), Sym sT) (build nodose_ops, Sym sT) = false.
Proof.
  split; [vm_compute; reflexivity|]. split; [|split; vm_compute; reflexivity].
  eexists. split; [apply dict_roundtrip_lemma, build_WF | vm_compute; reflexivity].
Qed.

(* two == systems with different to_dict (shared with C12): the same two-compartment system entered
   CENTRAL, PERI and PERI, CENTRAL; and a system before / after set_lag_time(x); set_lag_time(0) *)
Definition two_ops_a : list op :=
  [OAddCompartment central; OAddCompartment peri; OAddFlow n_CENTRAL (TName n_PERI) (Sym sK12);
   OAddFlow n_PERI (TName n_CENTRAL) (Sym sK21); OAddFlow n_CENTRAL TOut (Sym sK)].
Definition two_ops_b : list op :=
  [OAddCompartment peri; OAddCompartment central; OAddFlow n_CENTRAL (TName n_PERI) (Sym sK12);
   OAddFlow n_PERI (TName n_CENTRAL) (Sym sK21); OAddFlow n_CENTRAL TOut (Sym sK)].

Theorem dict_order_refuted :
  exists ops1 ops2 t,
    cs_eq (build ops1, t) (build ops2, t) = true /\ to_dict (build ops1, t) <> to_dict (build ops2, t).
Proof.
  exists two_ops_a, two_ops_b, (Sym sT). split; [vm_compute; reflexivity|]. vm_compute. discriminate.
Qed.

Theorem dict_order_refuted_relabel :
  exists ops t,
    let ops' := ops ++ [OSetLag n_CENTRAL (Sym sALAG); OSetLag n_CENTRAL (Num 0)] in
    cs_eq (build ops, t) (build ops', t) = true /\ to_dict (build ops, t) <> to_dict (build ops', t).
Proof.
  exists two_ops_a, (Sym sT). split; [vm_compute; reflexivity|]. vm_compute. discriminate.
Qed.
