(* PV.C05.ToCs — executable model of pharmpy.model.statements.to_compartmental_system(names, eqs) for
   equations whose expanded right-hand sides are sums of terms  +-k * A_j  (k free of amounts, exactly one
   amount) and constant terms  +-k  (zero-order inputs).  No proofs here.

   sympy is an engine: an equation is given as the list of the arguments of [Add.make_args(expand(rhs))],
   each decomposed by the harness into (is it positive under "all symbols positive", |coefficient|,
   index of its amount).  Mirrored: creation of the default compartments in equation order, the loop over
   equations / amounts / terms, the search of an equation containing [-term] (the LAST one wins), the flow
   accumulation [term / comp_func (+ current_flow)], the bookkeeping of the remaining equations
   ([expand(rhs - term)], [expand(rhs + term)], modelled on term lists), and the final pass that turns what is
   left into a flow to output ([-o / comp_func]) and a zero-order input (set_input relabels the node).
   Not mirrored: terms with two or more amounts (second-order absorption branch), coefficients that contain
   amounts; numeric merging of equal monomials by [expand] inside the remaining equations. *)
From Coq Require Import QArith ZArith NArith List Bool PArith Arith.
From PV Require Import Base.PyData Base.Expr C05.Model.
Import ListNotations.
Local Open Scope nat_scope.

Record term := mkT { t_pos : bool; t_k : expr; t_a : option nat }.
Definition leq := list term.

Definition oa_eqb (a b : option nat) : bool :=
  match a, b with Some x, Some y => Nat.eqb x y | None, None => true | _, _ => false end.
Definition term_eqb (s t : term) : bool :=
  Bool.eqb (t_pos s) (t_pos t) && expr_eqb (t_k s) (t_k t) && oa_eqb (t_a s) (t_a t).
Definition tneg (t : term) : term := mkT (negb (t_pos t)) (t_k t) (t_a t).

Fixpoint remove_term (t : term) (l : leq) : option leq :=
  match l with
  | [] => None
  | x :: tl => if term_eqb x t then Some tl else option_map (cons x) (remove_term t tl)
  end.
(* expand(rhs + t): an occurrence of -t cancels, otherwise t is a new term *)
Definition add_term (l : leq) (t : term) : leq :=
  match remove_term (tneg t) l with Some l' => l' | None => l ++ [t] end.
Definition sub_term (l : leq) (t : term) : leq := add_term l (tneg t).

Definition nth_leq (l : list leq) (i : nat) : leq := nth i l [].
Fixpoint set_nth {A} (l : list A) (i : nat) (x : A) : list A :=
  match l, i with
  | [], _ => []
  | _ :: tl, 0 => x :: tl
  | y :: tl, S k => y :: set_nth tl k x
  end.

(* for eq_2 in eqs: if -term in Add.make_args(eq_2.rhs.expand()): from_comp = ...   (no break) *)
Definition find_from (eqs : list leq) (t : term) : option nat :=
  fold_left (fun acc ie => if existsb (term_eqb (tneg t)) (snd ie) then Some (fst ie) else acc)
            (combine (seq 0 (length eqs)) eqs) None.

Definition step_term (cmts : list comp) (eqs : list leq) (i j : nat) (st : graph * list leq) (t : term)
  : graph * list leq :=
  let '(g, neweqs) := st in
  if t_pos t then
    match find_from eqs t with
    | Some f =>
        let from := Cmt (nthc cmts f) in
        let to := Cmt (nthc cmts i) in
        let cur := get_flow g from to in
        let rate := if expr_eqb cur (Num 0%Q) then t_k t else Add (t_k t) cur in
        let ne1 := set_nth neweqs i (sub_term (nth_leq neweqs i) t) in
        let ne2 := if Nat.eqb i j then ne1 else set_nth ne1 j (add_term (nth_leq ne1 j) t) in
        (add_edge g from to rate, ne2)
    | None => st
    end
  else st.

Definition has_amount (j : nat) (t : term) : bool := oa_eqb (t_a t) (Some j).

Definition step_eq (cmts : list comp) (eqs : list leq) (st : graph * list leq) (i : nat) : graph * list leq :=
  fold_left (fun st1 j => fold_left (step_term cmts eqs i j) (filter (has_amount j) (nth_leq eqs i)) st1)
            (seq 0 (length eqs)) st.

Definition sum_exprs (l : list expr) : expr :=
  match l with [] => Num 0%Q | x :: tl => fold_left Add tl x end.

Definition term_abs_expr (amts : list expr) (t : term) : expr :=
  match t_a t with Some j => Mul (t_k t) (nth j amts (Num 0%Q)) | None => t_k t end.

(* -o / comp_func *)
Definition out_rate (amts : list expr) (i : nat) (o : leq) : expr :=
  if forallb (has_amount i) o then sum_exprs (map t_k o)
  else Div (sum_exprs (map (term_abs_expr amts) o)) (nth i amts (Num 0%Q)).

Definition final_eq (cmts : list comp) (amts : list expr) (g : graph) (il : nat * leq) : graph :=
  let '(i, l) := il in
  match l with
  | [] => g
  | _ =>
      let c := nthc cmts i in
      let ins := filter t_pos l in
      let o := filter (fun t => negb (t_pos t)) l in
      let g1 := match o with [] => g | _ => add_edge g (Cmt c) Out (out_rate amts i o) end in
      match ins with
      | [] => g1
      | _ => relabel g1 [(Cmt c, Cmt (with_input c (sum_exprs (map (term_abs_expr amts) ins))))]
      end
  end.

(* cmts: the compartments Compartment.create(name) makes, in equation order; amts: the functions on the
   left-hand sides of the equations *)
Definition to_cs (cmts : list comp) (amts : list expr) (eqs : list leq) : graph :=
  let g0 := fold_left (fun g c => add_node g (Cmt c)) cmts empty_builder in
  let '(g1, neweqs) := fold_left (step_eq cmts eqs) (seq 0 (length eqs)) (g0, eqs) in
  fold_left (final_eq cmts amts) (combine (seq 0 (length neweqs)) neweqs) g1.

(* ---- what expand() makes of the equations of a graph whose rates and inputs are single monomials ---------- *)
Fixpoint index_comp (c : comp) (l : list comp) : option nat :=
  match l with
  | [] => None
  | x :: tl => if comp_eqb x c then Some 0 else option_map S (index_comp c tl)
  end.

Definition terms_of_row (g : graph) (ns : list comp) (i : nat) : leq :=
  let c := nthc ns i in
  flat_map (fun j => if Nat.eqb i j then []
                     else match adj_lookup (adj_of g (Cmt (nthc ns j))) (Cmt c) with
                          | Some k => [mkT true k (Some j)]
                          | None => []
                          end) (seq 0 (length ns))
  ++ flat_map (fun e => if node_eqb (fst e) (Cmt c) then [] else [mkT false (snd e) (Some i)]) (adj_of g (Cmt c))
  ++ (if has_input c then [mkT true (c_input c) None] else []).

Definition terms_of (g : graph) : list leq := map (terms_of_row g (order g)) (seq 0 (length (order g))).

Definition default_comp (c : comp) : comp := mkComp (c_name c) (c_amount c) [] (Num 0%Q) (Num 0%Q) (Num 1%Q).

(* the round trip through the equations *)
Definition rebuilt (g : graph) : graph := to_cs (map default_comp (order g)) (amounts g) (terms_of g).

(* to_compartmental_system creates its compartments with Compartment.create(name), whose amount is the
   function A_<name> of the DEFAULT independent variable t: [amt_t name]. *)
Definition created_comp (amt_t : name -> expr) (c : comp) : comp :=
  mkComp (c_name c) (amt_t (c_name c)) [] (Num 0%Q) (Num 0%Q) (Num 1%Q).
Definition rebuilt_with (amt_t : name -> expr) (g : graph) : graph :=
  to_cs (map (created_comp amt_t) (order g)) (amounts g) (terms_of g).
Definition g_default_idv (amt_t : name -> expr) (g : graph) : bool :=
  forallb (fun c => expr_eqb (c_amount c) (amt_t (c_name c))) (order g).

(* guard: no self flow (it leaves no trace in the equations), unique names, every rate and input is an
   amount-free expression, all of them pairwise different, no rate with a numeric factor *)
Fixpoint all_distinct (l : list expr) : bool :=
  match l with [] => true | x :: tl => negb (existsb (expr_eqb x) tl) && all_distinct tl end.
Definition graph_rates (g : graph) : list expr := flat_map (fun p => map snd (snd p)) g.
Definition graph_inputs (g : graph) : list expr := map c_input (filter has_input (comps g)).
Definition amount_free (amts : list expr) (e : expr) : bool :=
  negb (existsb (fun a => existsb (fun s => memp s (free_syms e)) (free_syms a)) amts).
(* a numeric factor (2*KA next to KA) makes expand() merge the monomials of two flows leaving one compartment *)
Fixpoint num_factor (e : expr) : bool :=
  match e with
  | Num _ => true
  | Mul a b => num_factor a || num_factor b
  | Neg a => num_factor a
  | _ => false
  end.
Definition linear_distinct (g : graph) : bool :=
  no_self_loop g && names_unique (comps g)
  && negb (existsb num_factor (graph_rates g))
  && all_distinct (graph_rates g ++ graph_inputs g)
  && forallb (amount_free (map c_amount (comps g))) (graph_rates g ++ graph_inputs g).

(* same flows between compartments, same flows to output, same inputs, same names and amounts — doses,
   lag times and bioavailabilities are NOT recoverable from the equations *)
Definition same_flows (g g' : graph) (ns : list comp) : bool :=
  forallb (fun c => let c' := match find_compartment g' (c_name c) with Some x => x | None => dflt end in
             expr_eqb (c_amount c') (c_amount c) && expr_eqb (c_input c') (c_input c)
             && expr_eqb (get_flow g' (Cmt c') Out) (get_flow g (Cmt c) Out)
             && forallb (fun d => let d' := match find_compartment g' (c_name d) with Some x => x | None => dflt end in
                                  expr_eqb (get_flow g' (Cmt c') (Cmt d')) (get_flow g (Cmt c) (Cmt d))) ns) ns
  && Nat.eqb (length (comps g')) (length ns).

(* ---- all systems on at most three compartments with pairwise distinct symbolic rates ---------------- *)
Fixpoint subsets {A} (l : list A) : list (list A) :=
  match l with [] => [[]] | x :: tl => let r := subsets tl in r ++ map (cons x) r end.

Record shape := mkShape { s_n : nat; s_edges : list (nat * nat); s_outs : list nat; s_inps : list nat; s_doses : list nat }.

Definition shape_comp (s : shape) (i : nat) : comp :=
  mkComp [N.of_nat (67 - i)] (Sym (Pos.of_nat (100 + i)))           (* names C, B, A: name order <> entry order *)
         (if memn i (s_doses s) then [Bolus (Sym 99%positive) 1] else [])
         (if memn i (s_inps s) then Sym (Pos.of_nat (200 + i)) else Num 0%Q) (Num 0%Q) (Num 1%Q).

Definition shape_graph (s : shape) : graph :=
  (Out, []) ::
  map (fun i => (Cmt (shape_comp s i),
                 map (fun e => (Cmt (shape_comp s (snd e)), Sym (Pos.of_nat (10 + 3 * fst e + snd e))))
                     (filter (fun e => Nat.eqb (fst e) i) (s_edges s))
                 ++ (if memn i (s_outs s) then [(Out, Sym (Pos.of_nat (50 + i)))] else [])))
      (seq 0 (s_n s)).

Definition pairs_upto (n : nat) : list (nat * nat) :=
  flat_map (fun i => flat_map (fun j => if Nat.eqb i j then [] else [(i, j)]) (seq 0 n)) (seq 0 n).

Definition shapes_n (n : nat) : list shape :=
  flat_map (fun e => flat_map (fun o => flat_map (fun i => map (fun d => mkShape n e o i d) [[]; [0]; [0; n - 1]])
                                                 (subsets (seq 0 n)))
                              (subsets (seq 0 n)))
           (subsets (pairs_upto n)).
Definition all_shapes : list shape := shapes_n 1 ++ shapes_n 2 ++ shapes_n 3.

Definition roundtrip_ok (g : graph) : bool :=
  wf_graph g && linear_distinct g && same_flows g (rebuilt g) (order g).

