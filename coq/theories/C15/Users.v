(* PV.C15.Users — how the two users of `path_lock` in the anchor files
   (workflows/contexts/local_directory.py, workflows/model_database/local_directory.py) take the lock.
   The list of lock sites is REGENERATED from the source on every run by the fail-closed `ast` translator in
   harness/props/c15.py (function -> lock helper used -> file operations performed inside the `with` body) and
   the obligations `writers_take_exclusive` / `sites_as_specified` are compiled against it; this file holds the
   vocabulary, the executable predicates and the hand-written specification of which operations must be locked how. *)
From Coq Require Import List Bool String.
Import ListNotations.
Local Open Scope string_scope.

Inductive lmode := Shared | Exclusive.
Definition lmode_eqb (a b : lmode) : bool :=
  match a, b with Shared, Shared | Exclusive, Exclusive => true | _, _ => false end.

Record site := mkSite {
  site_fn : string;        (* Class.method containing `with self._read_lock(..)` / `with self._write_lock(..)` *)
  site_mode : lmode;       (* mode the helper it calls passes to path_lock (shared=True -> Shared) *)
  site_writes : bool;      (* the body opens a file with 'w'/'a'/'x'/'+', or writes / renames / removes / creates, or yields a transaction handle *)
  site_reads : bool        (* the body reads *)
}.

Definition writers_ok (l : list site) : bool :=
  forallb (fun s => implb (site_writes s) (lmode_eqb (site_mode s) Exclusive)) l.
Definition readers_shared (l : list site) : bool :=
  forallb (fun s => implb (negb (site_writes s)) (lmode_eqb (site_mode s) Shared)) l.

(* Specification: the operations of the two classes that must run under the path lock, in source order, with the mode
   and whether the locked section modifies the file system (store_annotation reads the file, writes annotations.tmp and
   renames it over the original with os.replace: a writer). *)
Definition specified_sites : list (string * lmode * bool) :=
  [ ("LocalDirectoryContext.store_annotation", Exclusive, true);
    ("LocalDirectoryContext.retrieve_annotation", Shared, false);
    ("LocalDirectoryContext.store_message", Exclusive, true);
    ("LocalDirectoryContext.retrieve_log", Shared, false);
    ("LocalModelDirectoryDatabase.snapshot", Shared, false);
    ("LocalModelDirectoryDatabase.transaction", Exclusive, true) ].

Fixpoint spec_eqb (a b : list (string * lmode * bool)) : bool :=
  match a, b with
  | [], [] => true
  | (n1, m1, w1) :: a', (n2, m2, w2) :: b' =>
      String.eqb n1 n2 && lmode_eqb m1 m2 && Bool.eqb w1 w2 && spec_eqb a' b'
  | _, _ => false
  end.
Definition sites_as_specified (l : list site) : bool :=
  spec_eqb (map (fun s => (site_fn s, site_mode s, site_writes s)) l) specified_sites.
