(* PV.C15.Proofs — lemmas about the thread-level LTS of Model.v. *)
From Coq Require Import List Bool Arith PeanoNat Lia.
From PV Require Import C15.Model.
Import ListNotations.
Local Open Scope nat_scope.

(* ------------------------------------------------------------------ padded lists *)
Lemma nth_set_nth_same {A} (d : A) n v l : nth n (set_nth d n v l) d = v.
Proof.
  revert l. induction n as [|n IH]; intros [|x tl]; cbn; auto.
Qed.

Lemma nth_nil {A} (d : A) n : nth n (@nil A) d = d.
Proof. destruct n; reflexivity. Qed.

Lemma nth_set_nth_other {A} (d : A) n m v l : m <> n -> nth m (set_nth d n v l) d = nth m l d.
Proof.
  revert m l. induction n as [|n IH]; intros [|m] [|x tl] H; cbn [set_nth nth]; auto; try congruence.
  all: rewrite ?IH by congruence; rewrite ?nth_nil; auto.
  destruct m; reflexivity.
Qed.

Lemma nth_set_nth {A} (d : A) n m v l : nth m (set_nth d n v l) d = if Nat.eqb m n then v else nth m l d.
Proof.
  destruct (Nat.eqb_spec m n) as [->|H]; [apply nth_set_nth_same | now apply nth_set_nth_other].
Qed.

(* ------------------------------------------------------------------ state accessors *)
Lemma stk_set_stk s t v u : stk (set_stk s t v) u = if Nat.eqb u t then v else stk s u.
Proof. unfold stk, set_stk; cbn. apply nth_set_nth. Qed.
Lemma cnt_set_stk s t v u : cnt (set_stk s t v) u = cnt s u.
Proof. reflexivity. Qed.
Lemma owner_set_stk s t v : owner (set_stk s t v) = owner s.
Proof. reflexivity. Qed.
Lemma stk_set_cnt s t v u : stk (set_cnt s t v) u = stk s u.
Proof. reflexivity. Qed.
Lemma cnt_set_cnt s t v u : cnt (set_cnt s t v) u = if Nat.eqb u t then v else cnt s u.
Proof. unfold cnt, set_cnt; cbn. apply nth_set_nth. Qed.
Lemma owner_set_cnt s t v : owner (set_cnt s t v) = owner s.
Proof. reflexivity. Qed.
Lemma stk_set_owner s o u : stk (set_owner s o) u = stk s u.
Proof. reflexivity. Qed.
Lemma cnt_set_owner s o u : cnt (set_owner s o) u = cnt s u.
Proof. reflexivity. Qed.
Lemma owner_set_owner s o : owner (set_owner s o) = o.
Proof. reflexivity. Qed.
Lemma stk_notify_all s u : stk (notify_all s) u = notify_stack (stk s u).
Proof. unfold stk, notify_all; cbn. apply (map_nth notify_stack (stacks s) [] u). Qed.
Lemma cnt_notify_all s u : cnt (notify_all s) u = cnt s u.
Proof. reflexivity. Qed.
Lemma owner_notify_all s : owner (notify_all s) = owner s.
Proof. reflexivity. Qed.
Lemma stk_release s t u : stk (release s t) u = stk s u.
Proof. reflexivity. Qed.
Lemma cnt_release s t u : cnt (release s t) u = cnt s u.
Proof. reflexivity. Qed.
Lemma owner_release s t : owner (release s t) = if has_ex (stk s t) then Some t else None.
Proof. reflexivity. Qed.

#[export] Hint Rewrite stk_set_stk cnt_set_stk owner_set_stk stk_set_cnt cnt_set_cnt owner_set_cnt
  stk_set_owner cnt_set_owner owner_set_owner stk_notify_all cnt_notify_all owner_notify_all
  stk_release cnt_release owner_release Nat.eqb_refl : st.

Lemma stk_init t : stk init t = [].
Proof. unfold stk, init; cbn. apply nth_nil. Qed.
Lemma cnt_init t : cnt init t = 0.
Proof. unfold cnt, init; cbn. apply nth_nil. Qed.

(* ------------------------------------------------------------------ the tests of the code *)
Lemma others_from_spec i t l :
  others_from i t l = true <-> exists k, i + k <> t /\ nth k l 0 > 0.
Proof.
  revert i. induction l as [|c tl IH]; intros i; cbn [others_from].
  - split; [discriminate|]. intros [k [_ H]]. rewrite nth_nil in H. lia.
  - rewrite orb_true_iff, andb_true_iff, negb_true_iff, Nat.eqb_neq, Nat.ltb_lt, IH. split.
    + intros [[H1 H2]|[k [H1 H2]]].
      * exists 0. cbn. split; [lia|lia].
      * exists (S k). cbn. split; [lia|exact H2].
    + intros [[|k] [H1 H2]]; cbn in H2.
      * left. split; [lia|lia].
      * right. exists k. split; [lia|exact H2].
Qed.

Lemma others_hold_spec s t : others_hold s t = true <-> exists u, u <> t /\ cnt s u > 0.
Proof. unfold others_hold. rewrite others_from_spec. cbn. reflexivity. Qed.

Lemma others_hold_false s t : others_hold s t = false <-> forall u, u <> t -> cnt s u = 0.
Proof.
  split.
  - intros H u Hu. destruct (cnt s u) eqn:E; [reflexivity|].
    assert (others_hold s t = true) by (apply others_hold_spec; exists u; split; [exact Hu|lia]). congruence.
  - intros H. destruct (others_hold s t) eqn:E; [|reflexivity].
    apply others_hold_spec in E. destruct E as [u [Hu Hc]]. rewrite (H u Hu) in Hc. lia.
Qed.

Lemma acq_empty_spec s : acq_empty s = true <-> forall u, cnt s u = 0.
Proof.
  unfold acq_empty, cnt. rewrite forallb_forall. split.
  - intros H u. destruct (Nat.lt_ge_cases u (length (acq s))) as [L|L].
    + symmetry. apply Nat.eqb_eq. apply H. now apply nth_In.
    + now apply nth_overflow.
  - intros H x Hx. apply (In_nth _ _ 0) in Hx. destruct Hx as [n [_ <-]]. apply Nat.eqb_eq. symmetry. apply H.
Qed.

Lemma free_for_spec s t : free_for s t = true <-> owner s = None \/ owner s = Some t.
Proof.
  unfold free_for. destruct (owner s) as [o|].
  - rewrite Nat.eqb_eq. split; [intros ->; auto|intros [H|H]; congruence].
  - split; auto.
Qed.

(* ------------------------------------------------------------------ frames and stacks *)
Lemma ncounted_cons f l : ncounted (f :: l) = (if counted f then 1 else 0) + ncounted l.
Proof. unfold ncounted. cbn. destruct (counted f); reflexivity. Qed.
Lemma has_ex_cons f l : has_ex (f :: l) = is_exbody f || has_ex l.
Proof. reflexivity. Qed.
Lemma ncounted_notify l : ncounted (notify_stack l) = ncounted l.
Proof. destruct l as [|[] tl]; reflexivity. Qed.
Lemma has_ex_notify l : has_ex (notify_stack l) = has_ex l.
Proof. destruct l as [|[] tl]; reflexivity. Qed.

Definition wf_stack (l : list frame) : Prop :=
  match l with [] => True | _ :: rest => forallb is_body rest = true end.

Lemma wf_notify l : wf_stack l -> wf_stack (notify_stack l).
Proof. destruct l as [|[] tl]; auto. Qed.

Lemma bodies_counted l : forallb is_body l = true -> ncounted l = length l.
Proof.
  induction l as [|f tl IH]; [reflexivity|]. cbn [forallb]. rewrite andb_true_iff. intros [Hf Ht].
  rewrite ncounted_cons, IH by exact Ht. destruct f; cbn in *; try discriminate; reflexivity.
Qed.

Lemma has_ex_counted l : has_ex l = true -> ncounted l > 0.
Proof.
  induction l as [|f tl IH]; [discriminate|]. rewrite has_ex_cons, ncounted_cons, orb_true_iff.
  intros [H|H]; [destruct f; try discriminate; cbn; lia | specialize (IH H); lia].
Qed.

(* ------------------------------------------------------------------ the safety invariant *)
Record Inv (s : state) : Prop := {
  i_cnt : forall t, cnt s t = ncounted (stk s t);
  i_own : forall t, owner s = Some t <-> has_ex (stk s t) = true;
  i_ex : forall t u, has_ex (stk s t) = true -> u <> t -> cnt s u = 0;
  i_wf : forall t, wf_stack (stk s t);
}.

Lemma inv_init : Inv init.
Proof.
  constructor; intros; rewrite ?stk_init, ?cnt_init in *; cbn in *; try split; try discriminate; auto.
Qed.

(* case analysis of one step: all the leaves with s' explicit *)
Ltac break_step H :=
  match type of H with
  | context[match ?x with _ => _ end] =>
      let E := fresh "E" in destruct x eqn:E; try discriminate H; break_step H
  | context[if ?x then _ else _] =>
      let E := fresh "E" in destruct x eqn:E; try discriminate H; break_step H
  | _ => idtac
  end.


Lemma wf_of_bodies l : forallb is_body l = true -> wf_stack l.
Proof. destruct l as [|f tl]; cbn; auto. rewrite andb_true_iff. tauto. Qed.

Lemma req_not_ex f : is_req f = true -> is_exbody f = false /\ counted f = false.
Proof. destruct f; cbn; auto; discriminate. Qed.

Ltac use_own :=
  repeat match goal with
  | Io : forall t, owner ?s = Some t <-> has_ex (stk ?s t) = true, H : has_ex (stk ?s ?t0) = true |- _ =>
      lazymatch goal with
      | _ : owner s = Some t0 |- _ => fail
      | _ => assert (owner s = Some t0) by (apply Io; exact H)
      end
  end.

Ltac brk :=
  repeat match goal with
    | H : _ \/ _ |- _ => destruct H
    | H : exists _, _ |- _ => destruct H
    | H : _ /\ _ |- _ => destruct H
  end.

Lemma can_push_bodies l : can_push l = true -> wf_stack l -> forallb is_body l = true.
Proof. destruct l as [|f tl]; cbn; auto. intros -> ->. reflexivity. Qed.

Ltac fin0 := solve [auto | lia | congruence | exfalso; lia | exfalso; congruence
                    | apply wf_notify; auto | apply wf_of_bodies; auto | apply wf_notify, wf_of_bodies; auto
                    | apply can_push_bodies; auto | intuition congruence ].

Ltac case_ex := repeat match goal with
  | |- context[if has_ex ?l then _ else _] => destruct (has_ex l) eqn:?
  | H : context[if has_ex ?l then _ else _] |- _ => destruct (has_ex l) eqn:?
  end.

Ltac use_ixt := repeat match goal with
  | Ixt : forall u, has_ex ?l = true -> u <> ?t -> cnt ?s u = 0, H : has_ex ?l = true, H1 : ?x <> ?t |- _ =>
      lazymatch goal with _ : cnt s x = 0 |- _ => fail | _ => pose proof (Ixt x H H1) end
  end.

Ltac fin :=
  try fin0;
  try (split; intros);
  use_own; brk; case_ex; use_ixt;
  try fin0;
  try solve [ match goal with Ix : forall t u, has_ex (stk ?s t) = true -> u <> t -> cnt ?s u = 0 |- cnt ?s ?u = 0 =>
                eapply Ix; eauto end ].

Lemma step_inv s l s' : Inv s -> step s l = Some s' -> Inv s'.
Proof.
  intros I H. destruct l as [t a]. unfold step, stepo, ex_check in H.
  break_step H.
  all: cbn in H; injection H as <-.
  all: pose proof (i_cnt _ I) as Ic; pose proof (i_own _ I) as Io; pose proof (i_ex _ I) as Ix; pose proof (i_wf _ I) as Iw.
  all: pose proof (Ic t) as Ict; pose proof (Io t) as Iot; pose proof (Iw t) as Iwt; pose proof (Ix t) as Ixt.
  all: try match goal with E : stk _ _ = _ :: _ |- _ => rewrite E in Ict, Iot, Iwt, Ixt end.
  all: rewrite ?ncounted_cons, ?has_ex_cons in Ict, Iot, Ixt; cbn [counted is_exbody orb wf_stack] in Ict, Iot, Iwt, Ixt.
  all: repeat match goal with
       | H : free_for _ _ = true |- _ => apply free_for_spec in H
       | H : others_hold _ _ = false |- _ => rewrite others_hold_false in H
       | H : others_hold _ _ = true |- _ => rewrite others_hold_spec in H
       | H : _ && _ = true |- _ => apply andb_true_iff in H; destruct H
       | H : is_req _ = true |- _ => apply req_not_ex in H; destruct H
       end.
  all: constructor.
  all: intros; autorewrite with st in *.
  all: repeat match goal with
  | |- context[Nat.eqb ?u ?t] => destruct (Nat.eqb_spec u t); subst
  | H : context[Nat.eqb ?u ?t] |- _ => destruct (Nat.eqb_spec u t); subst
  end.
  all: rewrite ?ncounted_notify, ?has_ex_notify in *.
  all: rewrite ?ncounted_cons, ?has_ex_cons in *; cbn [counted is_exbody orb wf_stack] in *.
  all: repeat match goal with H : is_exbody ?f = false |- _ => rewrite H in * end.
  all: repeat match goal with H : counted ?f = false |- _ => rewrite H in * end.
  all: cbn [orb] in *.
  all: fin.
Qed.

(* ------------------------------------------------------------------ consequences for reachable states *)
Lemma reachable_inv s : reachable s -> Inv s.
Proof. induction 1; [apply inv_init | eapply step_inv; eauto]. Qed.

Lemma reachable_g_reachable s : reachable_g s -> reachable s.
Proof. induction 1; [constructor | econstructor; eauto]. Qed.

Lemma has_ex_In l : has_ex l = true <-> In ExBody l.
Proof.
  unfold has_ex. rewrite existsb_exists. split.
  - intros [f [Hf E]]. destruct f; try discriminate. exact Hf.
  - intros H. exists ExBody. split; auto.
Qed.

Lemma ncounted_zero l : ncounted l = 0 -> forall f, In f l -> counted f = false.
Proof.
  induction l as [|g tl IH]; [contradiction|]. rewrite ncounted_cons. intros H f [->|Hf].
  - destruct (counted f); [discriminate|reflexivity].
  - apply IH; [destruct (counted g); [discriminate|exact H] | exact Hf].
Qed.

(* ---- safety *)
Lemma excl_excludes_lemma s t u :
  reachable s -> In ExBody (stk s t) -> u <> t -> forall f, In f (stk s u) -> counted f = false.
Proof.
  intros R Ht Hu. apply reachable_inv in R. apply ncounted_zero. rewrite <- (i_cnt _ R).
  apply (i_ex _ R t u); [apply has_ex_In; exact Ht | exact Hu].
Qed.

Lemma excl_owner_lemma s t : reachable s -> (In ExBody (stk s t) <-> owner s = Some t).
Proof. intros R. apply reachable_inv in R. rewrite <- has_ex_In. symmetry. apply (i_own _ R). Qed.

Lemma count_lemma s t : reachable s -> cnt s t = ncounted (stk s t).
Proof. intros R. apply reachable_inv in R. apply (i_cnt _ R). Qed.

Lemma free_for_no_other_ex s t :
  Inv s -> (forall u, u <> t -> ~ In ExBody (stk s u)) -> free_for s t = true.
Proof.
  intros I H. apply free_for_spec. destruct (owner s) as [o|] eqn:E; [|auto]. right.
  destruct (Nat.eq_dec o t) as [->|N]; [reflexivity|]. exfalso. apply (H o N). apply has_ex_In. now apply (i_own _ I).
Qed.

Lemma shared_compatible_lemma s t b r rest :
  reachable s -> stk s t = ShReq b r :: rest ->
  (forall u, u <> t -> ~ In ExBody (stk s u)) ->
  (r = true \/ cnt s t = 0) ->
  stepo s (t, AGo) = Some (set_cnt (set_stk s t (ShBody :: rest)) t (S (cnt s t)), OEnterSh).
Proof.
  intros R E H C. apply reachable_inv in R. cbn. rewrite E, (free_for_no_other_ex _ _ R H).
  destruct C as [-> | ->]; [reflexivity | cbn; rewrite andb_false_r; reflexivity].
Qed.

Lemma quiescent_empty_lemma s :
  reachable s -> (forall t, stk s t = []) -> (forall t, cnt s t = 0) /\ owner s = None /\ acq_empty s = true.
Proof.
  intros R H. apply reachable_inv in R.
  assert (C : forall t, cnt s t = 0) by (intros t; rewrite (i_cnt _ R), H; reflexivity).
  split; [exact C|]. split; [|apply acq_empty_spec; exact C].
  destruct (owner s) as [o|] eqn:E; [|reflexivity]. apply (i_own _ R) in E. rewrite H in E. discriminate.
Qed.

(* ---- frame: a step of t changes nothing of another thread u, except that a notify_all marks waiters *)
Lemma filter_counted_notify l : filter counted (notify_stack l) = filter counted l.
Proof. destruct l as [|[] tl]; reflexivity. Qed.

Lemma step_other s t a s' :
  step s (t, a) = Some s' ->
  (forall u, u <> t -> cnt s' u = cnt s u) /\
  ((forall u, u <> t -> stk s' u = stk s u) \/
   ((forall u, u <> t -> stk s' u = notify_stack (stk s u)) /\ cnt s' t = 0)).
Proof.
  intros H. unfold step, stepo, ex_check in H. break_step H.
  all: cbn in H; injection H as <-.
  all: split; [intros u Hu; autorewrite with st; apply Nat.eqb_neq in Hu; rewrite ?Hu; reflexivity|].
  all: try (left; intros u Hu; autorewrite with st; apply Nat.eqb_neq in Hu; rewrite ?Hu; reflexivity).
  right. split.
  - intros u Hu. autorewrite with st. apply Nat.eqb_neq in Hu. rewrite Hu. reflexivity.
  - autorewrite with st. apply Nat.eqb_eq. assumption.
Qed.

Lemma no_spurious_release_lemma s t a s' u :
  step s (t, a) = Some s' -> u <> t ->
  cnt s' u = cnt s u /\ filter counted (stk s' u) = filter counted (stk s u) /\
  (stk s' u = stk s u \/ stk s' u = notify_stack (stk s u)).
Proof.
  intros H Hu. destruct (step_other _ _ _ _ H) as [Hc [Hs|[Hs _]]].
  - rewrite (Hc u Hu), (Hs u Hu). auto.
  - rewrite (Hc u Hu), (Hs u Hu), filter_counted_notify. auto.
Qed.

(* ---- non-blocking requests *)
Lemma nonblocking_never_blocks_lemma s t r rest :
  (stk s t = ShReq false r :: rest \/ stk s t = ExReq false r :: rest) ->
  exists s' o, stepo s (t, AGo) = Some (s', o) /\ o <> OWait /\
               (stk s' t = rest \/ exists f, is_body f = true /\ stk s' t = f :: rest).
Proof.
  intros [E|E]; unfold stepo; rewrite E; unfold ex_check.
  - destruct (free_for s t); [destruct (negb r && (0 <? cnt s t))|]; eexists; eexists; (split; [reflexivity|]);
      (split; [discriminate|]); autorewrite with st; auto. right. exists ShBody. auto.
  - destruct (free_for s t); [destruct (others_hold s t); [|destruct ((0 <? cnt s t) && negb r)]|];
      eexists; eexists; (split; [reflexivity|]); (split; [discriminate|]); autorewrite with st; auto.
    right. exists ExBody. auto.
Qed.

Lemma nonblocking_refuses_sh_lemma s t r rest u :
  reachable s -> stk s t = ShReq false r :: rest -> u <> t -> In ExBody (stk s u) ->
  stepo s (t, AGo) = Some (set_stk s t rest, ORaise WouldBlock).
Proof.
  intros R E Hu Hx. apply reachable_inv in R. unfold stepo. rewrite E.
  assert (O : owner s = Some u) by (apply (i_own _ R), has_ex_In; exact Hx).
  unfold free_for. rewrite O. apply Nat.eqb_neq in Hu. rewrite Hu. reflexivity.
Qed.

Lemma nonblocking_refuses_ex_lemma s t r rest u :
  reachable s -> stk s t = ExReq false r :: rest -> u <> t -> cnt s u > 0 ->
  exists s', stepo s (t, AGo) = Some (s', ORaise WouldBlock) /\ stk s' t = rest /\
             (forall v, cnt s' v = cnt s v) /\ (forall v, v <> t -> stk s' v = stk s v).
Proof.
  intros R E Hu Hc. apply reachable_inv in R. unfold stepo. rewrite E. unfold ex_check.
  assert (O : others_hold s t = true) by (apply others_hold_spec; exists u; auto).
  rewrite O. destruct (free_for s t); eexists; (split; [reflexivity|]); autorewrite with st;
    (split; [reflexivity|]); (split; [reflexivity|]); intros v Hv; autorewrite with st;
    apply Nat.eqb_neq in Hv; rewrite Hv; reflexivity.
Qed.

(* a refusal is never spurious at this granularity: a conflicting holder exists *)
Lemma refusal_justified_lemma s t s' :
  reachable s -> stepo s (t, AGo) = Some (s', ORaise WouldBlock) ->
  (exists b r rest, stk s t = ShReq b r :: rest /\ b = false /\ exists u, u <> t /\ In ExBody (stk s u)) \/
  (exists b r rest, stk s t = ExReq b r :: rest /\ b = false /\ exists u, u <> t /\ cnt s u > 0).
Proof.
  intros R H. apply reachable_inv in R. unfold stepo, ex_check in H.
  assert (FF : free_for s t = false -> exists u, u <> t /\ In ExBody (stk s u) /\ cnt s u > 0).
  { unfold free_for. destruct (owner s) as [o|] eqn:O; [|discriminate]. intros N. apply Nat.eqb_neq in N.
    exists o. split; [exact N|]. apply (i_own _ R) in O. split; [apply has_ex_In; exact O|].
    rewrite (i_cnt _ R). apply has_ex_counted. exact O. }
  break_step H; injection H as <-; subst.
  - left. destruct (FF eq_refl) as [u [H1 [H2 _]]]. repeat eexists; eauto.
  - right. match goal with H : others_hold _ _ = true |- _ => apply others_hold_spec in H; destruct H as [u [H1 H2]] end.
    repeat eexists; eauto.
  - right. destruct (FF eq_refl) as [u [H1 [_ H2]]]. repeat eexists; eauto.
Qed.

(* ---- recursion *)
Lemma holder_free s t : Inv s -> cnt s t > 0 -> free_for s t = true.
Proof.
  intros I C. apply free_for_spec. destruct (owner s) as [o|] eqn:O; [|auto]. right.
  destruct (Nat.eq_dec o t) as [->|N]; [reflexivity|]. exfalso.
  apply (i_own _ I) in O. assert (cnt s t = 0) by (apply (i_ex _ I o t); auto). lia.
Qed.

Lemma recursive_sh_raises_lemma s t b rest :
  reachable s -> stk s t = ShReq b false :: rest -> cnt s t > 0 ->
  stepo s (t, AGo) = Some (set_stk s t rest, ORaise Recursive).
Proof.
  intros R E C. apply reachable_inv in R. unfold stepo. rewrite E, (holder_free _ _ R C).
  apply Nat.ltb_lt in C. rewrite C. reflexivity.
Qed.

Lemma recursive_ex_raises_lemma s t b rest :
  reachable s -> stk s t = ExReq b false :: rest -> cnt s t > 0 ->
  (b = false \/ others_hold s t = false) ->
  exists e, stepo s (t, AGo) = Some (release (set_stk s t rest) t, ORaise e) /\
            (e = Recursive <-> others_hold s t = false).
Proof.
  intros R E C H. apply reachable_inv in R. unfold stepo, ex_check. rewrite E, (holder_free _ _ R C).
  apply Nat.ltb_lt in C. rewrite C. destruct (others_hold s t).
  - destruct H as [->|H]; [|discriminate]. exists WouldBlock. split; [reflexivity|]. split; discriminate.
  - exists Recursive. cbn. split; [reflexivity|]. split; reflexivity.
Qed.

(* ---- any number of threads can hold the lock shared at the same time *)
Lemma shared_together_lemma n :
  exists s, reachable s /\ (forall t, t < n -> stk s t = [ShBody]) /\ (forall t, n <= t -> stk s t = []) /\ owner s = None.
Proof.
  induction n as [|n [s [R [H1 [H2 O]]]]].
  - exists init. split; [constructor|]. split; [intros t Ht; lia|]. split; [intros; apply stk_init|reflexivity].
  - pose proof (reachable_inv _ R) as I.
    assert (C : cnt s n = 0) by (rewrite (i_cnt _ I), H2 by lia; reflexivity).
    set (s1 := set_stk s n [ShReq true false]).
    set (s2 := set_cnt (set_stk s1 n [ShBody]) n 1).
    assert (S1 : step s (n, APush (ShReq true false)) = Some s1).
    { unfold step, stepo. rewrite H2 by lia. reflexivity. }
    assert (S2 : step s1 (n, AGo) = Some s2).
    { unfold step, stepo, s2, s1. autorewrite with st. unfold free_for. autorewrite with st. rewrite O, C. reflexivity. }
    exists s2. split; [econstructor; [econstructor; [exact R|exact S1]|exact S2]|].
    unfold s2, s1. split; [|split].
    + intros t Ht. autorewrite with st. destruct (Nat.eqb_spec t n); [reflexivity|]. apply H1. lia.
    + intros t Ht. autorewrite with st. destruct (Nat.eqb_spec t n); [lia|]. apply H2. lia.
    + autorewrite with st. exact O.
Qed.

(* ------------------------------------------------------------------ progress under the guard *)
Fixpoint bottom (l : list frame) : option frame :=
  match l with [] => None | f :: tl => match tl with [] => Some f | _ => bottom tl end end.
Definition sh_counted (f : frame) : bool := match f with ShBody | ShExit => true | _ => false end.
Definition bottom_sh (l : list frame) : bool := match bottom l with Some f => sh_counted f | None => false end.

Lemma bottom_cons f l : l <> [] -> bottom (f :: l) = bottom l.
Proof. destruct l; [congruence|reflexivity]. Qed.
Lemma bottom_sh_cons f l : l <> [] -> bottom_sh (f :: l) = bottom_sh l.
Proof. intros H. unfold bottom_sh. now rewrite bottom_cons. Qed.
Lemma bottom_sh_single f : bottom_sh [f] = sh_counted f.
Proof. reflexivity. Qed.
Lemma bottom_sh_notify l : bottom_sh (notify_stack l) = bottom_sh l.
Proof.
  destruct l as [|f tl]; [reflexivity|]. cbn [notify_stack]. destruct tl as [|g tl].
  - destruct f; reflexivity.
  - rewrite !bottom_sh_cons by discriminate. reflexivity.
Qed.
Lemma bottom_sh_counted l : bottom_sh l = true -> ncounted l > 0.
Proof.
  induction l as [|f tl IH]; [discriminate|]. destruct tl as [|g tl].
  - rewrite bottom_sh_single, ncounted_cons. destruct f; cbn; try discriminate; lia.
  - rewrite bottom_sh_cons by discriminate. intros H. specialize (IH H). rewrite ncounted_cons. lia.
Qed.
Lemma bodies_bottom_sh l : forallb is_body l = true -> has_ex l = false -> l <> [] -> bottom_sh l = true.
Proof.
  induction l as [|f tl IH]; [congruence|]. cbn [forallb]. rewrite has_ex_cons, andb_true_iff, orb_false_iff.
  intros [Hf Ht] [Ef Et] _. destruct tl as [|g tl].
  - rewrite bottom_sh_single. destruct f; cbn in *; congruence.
  - rewrite bottom_sh_cons by discriminate. apply IH; auto. discriminate.
Qed.

(* a holder that does not own the RLock holds shared at the bottom of its stack *)
Lemma holder_bottom_sh s u : Inv s -> owner s <> Some u -> cnt s u > 0 -> bottom_sh (stk s u) = true.
Proof.
  intros I O C. rewrite (i_cnt _ I) in C. pose proof (i_wf _ I u) as W.
  assert (X : has_ex (stk s u) = false).
  { destruct (has_ex (stk s u)) eqn:E; [|reflexivity]. apply (i_own _ I) in E. congruence. }
  destruct (stk s u) as [|f tl]; [cbn in C; lia|]. cbn [wf_stack] in W.
  rewrite has_ex_cons, orb_false_iff in X. destruct X as [Xf Xt]. destruct tl as [|g tl].
  - rewrite bottom_sh_single. rewrite ncounted_cons in C. destruct f; cbn in *; try lia; congruence.
  - rewrite bottom_sh_cons by discriminate. apply bodies_bottom_sh; auto. discriminate.
Qed.

(* without any guard: an un-notified waiter still has a conflicting holder (some other thread holds shared) *)
Definition InvW (s : state) : Prop :=
  forall t r rest, stk s t = ExWait r false :: rest -> exists u, u <> t /\ bottom_sh (stk s u) = true.

(* under the guard: a blocking exclusive request is made only by a thread that holds nothing or holds exclusively,
   hence a waiter holds nothing *)
Record InvG (s : state) : Prop := {
  g_req : forall t r rest, stk s t = ExReq true r :: rest -> cnt s t = 0 \/ has_ex rest = true;
  g_wait : forall t r n rest, stk s t = ExWait r n :: rest -> cnt s t = 0
}.

Lemma invg_init : InvG init.
Proof. constructor; intros *; rewrite stk_init; discriminate. Qed.
Lemma invw_init : InvW init.
Proof. intros t r rest. rewrite stk_init. discriminate. Qed.

Lemma acq_nonempty s : acq_empty s = false -> exists u, cnt s u > 0.
Proof.
  unfold acq_empty, cnt. induction (acq s) as [|c tl IH]; [discriminate|]. cbn [forallb].
  rewrite andb_false_iff. intros [H|H].
  - exists 0. cbn. apply Nat.eqb_neq in H. lia.
  - destruct (IH H) as [u Hu]. exists (S u). exact Hu.
Qed.

Lemma notify_stack_inv l f tl : notify_stack l = f :: tl ->
  (l = f :: tl /\ forall r n, f <> ExWait r n) \/ (exists r n, l = ExWait r n :: tl /\ f = ExWait r true).
Proof.
  destruct l as [|g l']; [discriminate|]. cbn. intros H. injection H as <- <-.
  destruct g; try (left; split; [reflexivity|discriminate]). right. eauto.
Qed.

Lemma step_invg_req_wait s l s' :
  Inv s -> InvG s -> g_label s l = true -> step s l = Some s' ->
  (forall t r rest, stk s' t = ExReq true r :: rest -> cnt s' t = 0 \/ has_ex rest = true) /\
  (forall t r n rest, stk s' t = ExWait r n :: rest -> cnt s' t = 0).
Proof.
  intros I G GL H. destruct l as [t a]. unfold step, stepo, ex_check in H.
  break_step H.
  all: cbn in H; injection H as <-.
  all: pose proof (i_cnt _ I) as Ic; pose proof (i_own _ I) as Io; pose proof (i_ex _ I) as Ix; pose proof (i_wf _ I) as Iw.
  all: pose proof (g_req _ G) as Gr; pose proof (g_wait _ G) as Gw.
  all: pose proof (Ic t) as Ict; pose proof (Io t) as Iot; pose proof (Iw t) as Iwt; pose proof (Ix t) as Ixt;
       pose proof (Gr t) as Grt; pose proof (Gw t) as Gwt.
  all: try match goal with E : stk _ _ = _ :: _ |- _ => rewrite E in Ict, Iot, Iwt, Ixt, Grt, Gwt end.
  all: rewrite ?ncounted_cons, ?has_ex_cons in Ict, Iot, Ixt; cbn [counted is_exbody orb wf_stack] in Ict, Iot, Iwt, Ixt.
  all: repeat match goal with
       | H : free_for _ _ = true |- _ => apply free_for_spec in H
       | H : others_hold _ _ = false |- _ => rewrite others_hold_false in H
       | H : others_hold _ _ = true |- _ => rewrite others_hold_spec in H
       | H : _ && _ = true |- _ => apply andb_true_iff in H; destruct H
       end.
  all: split.
  all: intros; autorewrite with st in *.
  all: repeat match goal with
  | |- context[Nat.eqb ?u ?t] => destruct (Nat.eqb_spec u t); subst
  | H : context[Nat.eqb ?u ?t] |- _ => destruct (Nat.eqb_spec u t); subst
  end.
  all: try match goal with H : notify_stack _ = _ :: _ |- _ =>
         apply notify_stack_inv in H; destruct H as [[H ?]|[? [? [H ?]]]] end.
  all: try solve [eauto | congruence].
  all: try (cbn [forallb is_body andb] in Iwt; discriminate Iwt).
  all: try match goal with H : _ :: _ = _ :: _ |- _ => injection H as ? ?; subst end.
  all: try (cbn in H; discriminate H).
  all: try (cbn [g_label] in GL; apply orb_true_iff in GL; destruct GL as [GL|GL]; [apply Nat.eqb_eq in GL|]; auto).
  all: try (destruct (Grt _ _ eq_refl) as [?|Hx]; [assumption|]; destruct E3 as [u [Hu Hc]];
            rewrite (Ixt u Hx Hu) in Hc; lia).
Qed.

Lemma bottom_sh_step s t a s' u :
  step s (t, a) = Some s' -> bottom_sh (stk s u) = true ->
  bottom_sh (stk s' u) = true \/ (u = t /\ stk s t = [ShExit]).
Proof.
  intros H B. destruct (Nat.eq_dec u t) as [->|N].
  - unfold step, stepo, ex_check in H. break_step H.
    all: cbn in H; injection H as <-.
    all: autorewrite with st.
    all: try match goal with E : stk _ _ = _ :: _ |- _ => rewrite E in B end.
    all: rewrite ?bottom_sh_notify.
    all: try match goal with |- context[bottom_sh (?f :: stk ?s ?t)] =>
           left; rewrite bottom_sh_cons; [exact B | intro X; rewrite X in B; discriminate B] end.
    all: match goal with B : bottom_sh (_ :: ?l) = true |- _ => destruct l as [|g l'] end.
    all: rewrite ?bottom_sh_cons in * by discriminate.
    all: try (cbn in B; discriminate B).
    all: auto.
  - destruct (step_other _ _ _ _ H) as [_ [Hs|[Hs _]]]; rewrite (Hs u N), ?bottom_sh_notify; auto.
Qed.

Lemma new_waiter s t a s' r rest :
  Inv s -> step s (t, a) = Some s' -> stk s' t = ExWait r false :: rest ->
  (owner s = None \/ owner s = Some t) /\ others_hold s t = true /\ (forall u, u <> t -> stk s' u = stk s u).
Proof.
  intros I H W. pose proof (i_wf _ I t) as Iwt. unfold step, stepo, ex_check in H. break_step H.
  all: cbn in H; injection H as <-.
  all: autorewrite with st in W.
  all: try discriminate W.
  all: try match goal with E : stk _ _ = _ :: _ |- _ => rewrite E in Iwt; cbn [wf_stack] in Iwt end.
  all: try (rewrite W in Iwt; cbn in Iwt; discriminate Iwt).
  all: try (injection W as ? ?; subst; cbn in *; discriminate).
  all: try (destruct (stk s t) as [|[] ?]; cbn in W; discriminate W).
  all: repeat match goal with H : free_for _ _ = true |- _ => apply free_for_spec in H end.
  all: try (split; [auto|split; [auto|intros u Hu; autorewrite with st; apply Nat.eqb_neq in Hu; rewrite ?Hu; reflexivity]]).
  apply notify_stack_inv in W. destruct W as [[W _]|[? [? [_ W]]]]; [|discriminate W].
  rewrite W in Iwt. cbn in Iwt. discriminate Iwt.
Qed.

Lemma other_waiter s t a s' t0 r rest :
  step s (t, a) = Some s' -> t0 <> t -> stk s' t0 = ExWait r false :: rest ->
  stk s t0 = ExWait r false :: rest /\ (forall u, u <> t -> stk s' u = stk s u).
Proof.
  intros H N W. destruct (step_other _ _ _ _ H) as [_ [Hs|[Hs _]]].
  - rewrite (Hs t0 N) in W. auto.
  - rewrite (Hs t0 N) in W. apply notify_stack_inv in W. destruct W as [[_ W]|[? [? [_ W]]]]; [|discriminate W].
    exfalso. eapply W. reflexivity.
Qed.

Lemma last_sh_exit s t a s' :
  step s (t, a) = Some s' -> stk s t = [ShExit] -> cnt s t = 1 ->
  forall u, u <> t -> stk s' u = notify_stack (stk s u).
Proof.
  intros H E C. unfold step, stepo in H. destruct a; [rewrite E in H; cbn in H; rewrite andb_false_r in H; discriminate|].
  rewrite E in H. destruct (free_for s t) eqn:F; [|discriminate]. rewrite C in H. cbn [Nat.sub Nat.eqb] in H.
  cbn in H. injection H as <-. intros u Hu. autorewrite with st. apply Nat.eqb_neq in Hu. rewrite Hu. reflexivity.
Qed.

Lemma step_invg s l s' : Inv s -> InvG s -> g_label s l = true -> step s l = Some s' -> InvG s'.
Proof.
  intros I G GL H. destruct (step_invg_req_wait _ _ _ I G GL H) as [Gr Gw]. constructor; [exact Gr|exact Gw].
Qed.

Lemma step_invw s l s' : Inv s -> InvW s -> step s l = Some s' -> InvW s'.
Proof.
  intros I G H. destruct l as [t a]. intros t0 r rest W. destruct (Nat.eq_dec t0 t) as [->|N].
  - destruct (new_waiter _ _ _ _ _ _ I H W) as [O [OH Hs]]. apply others_hold_spec in OH. destruct OH as [u [Hu Hc]].
    exists u. split; [exact Hu|]. rewrite (Hs u Hu). apply holder_bottom_sh; auto.
    destruct O as [O|O]; rewrite O; congruence.
  - destruct (other_waiter _ _ _ _ _ _ _ H N W) as [W0 Hs].
    destruct (G _ _ _ W0) as [u [Hu Hb]].
    destruct (bottom_sh_step _ _ _ _ _ H Hb) as [Hb'|[-> E]].
    + exists u. auto.
    + assert (C : cnt s t = 1) by (rewrite (i_cnt _ I), E; reflexivity).
      pose proof (last_sh_exit _ _ _ _ H E C t0 N) as Hn. rewrite Hn, W0 in W. discriminate W.
Qed.

Lemma reachable_invw s : reachable s -> InvW s.
Proof.
  induction 1 as [|s l s' R IH H]; [apply invw_init|]. eapply step_invw; eauto. apply reachable_inv. exact R.
Qed.

Lemma reachable_g_invs s : reachable_g s -> Inv s /\ InvG s.
Proof.
  induction 1 as [|s l s' R [I G] GL H].
  - split; [apply inv_init|apply invg_init].
  - split; [eapply step_inv; eauto|eapply step_invg; eauto].
Qed.

(* no guard any more: holds in every reachable state *)
Lemma no_lost_wakeup_lemma s t r n rest :
  reachable s -> stk s t = ExWait r n :: rest -> others_hold s t = false -> n = true.
Proof.
  intros R E O. pose proof (reachable_inv _ R) as I. destruct n; [reflexivity|].
  destruct (reachable_invw _ R _ _ _ E) as [u [Hu Hb]]. apply bottom_sh_counted in Hb. rewrite <- (i_cnt _ I) in Hb.
  rewrite others_hold_false in O. rewrite (O u Hu) in Hb. lia.
Qed.

Lemma notified_waiter_enabled_lemma s t r rest :
  stk s t = ExWait r true :: rest -> owner s = None -> exists s', step s (t, AGo) = Some s'.
Proof. intros E O. unfold step, stepo. rewrite E, O. eexists. reflexivity. Qed.

(* what a thread that cannot move looks like *)
Lemma enabled_cases s t :
  enabled s t = false -> stk s t <> [] ->
  (free_for s t = false /\ exists f rest, stk s t = f :: rest /\ (f = ShExit \/ (exists r, f = ShReq true r) \/ exists r, f = ExReq true r)) \/
  (exists r rest, stk s t = ExWait r true :: rest /\ owner s <> None) \/
  (exists r rest, stk s t = ExWait r false :: rest).
Proof.
  unfold enabled, step, stepo, ex_check. intros H N. destruct (stk s t) as [|f rest] eqn:E; [congruence|].
  cbv zeta in H.
  destruct f as [b r| | |b r|r n| ];
    repeat match goal with H : context[if ?x then _ else _] |- _ => destruct x eqn:? end;
    repeat match goal with H : context[match ?x with _ => _ end] |- _ => destruct x eqn:? end;
    try discriminate; try (match goal with H : option_map _ _ = None |- _ => cbn in H; discriminate H end).
  all: try (left; split; [reflexivity|]; eauto 8; fail).
  all: try (right; left; repeat eexists; congruence).
  all: eauto 8.
Qed.

Lemma stuck_spec s : stuck s = true -> forall t, enabled s t = false.
Proof.
  unfold stuck. rewrite forallb_forall. intros H t. destruct (Nat.lt_ge_cases t (nthreads s)) as [L|L].
  - apply negb_true_iff. apply H. unfold threads. apply in_seq. lia.
  - unfold enabled, step, stepo. unfold stk. rewrite nth_overflow by exact L. reflexivity.
Qed.

Lemma not_stuck s : stuck s = false -> exists t s', step s (t, AGo) = Some s'.
Proof.
  unfold stuck. intros H. assert (X : exists t, enabled s t = true).
  { induction (threads s) as [|t tl IH]; [discriminate|]. cbn in H. apply andb_false_iff in H. destruct H as [H|H].
    - exists t. now apply negb_false_iff. 
    - auto. }
  destruct X as [t X]. unfold enabled in X. destruct (step s (t, AGo)) as [s'|] eqn:E; [|discriminate]. eauto.
Qed.

Lemma deadlock_free_lemma s :
  reachable_g s -> (exists t, stk s t <> []) -> exists t s', step s (t, AGo) = Some s'.
Proof.
  intros R [t Nt]. destruct (reachable_g_invs _ R) as [I G].
  destruct (stuck s) eqn:S; [exfalso|apply not_stuck; exact S].
  pose proof (stuck_spec _ S) as St.
  (* the RLock is free: its owner would be able to move *)
  assert (O : owner s = None).
  { destruct (owner s) as [o|] eqn:O; [exfalso|reflexivity].
    pose proof (proj1 (i_own _ I o) O) as X. pose proof (has_ex_counted _ X) as C. rewrite <- (i_cnt _ I) in C.
    assert (No : stk s o <> []) by (intros Z; rewrite Z in X; discriminate).
    destruct (enabled_cases _ _ (St o) No) as [[F _]|[[r [rest [E _]]]|[r [rest E]]]].
    - unfold free_for in F. rewrite O, Nat.eqb_refl in F. discriminate.
    - rewrite (g_wait _ G _ _ _ _ E) in C. lia.
    - rewrite (g_wait _ G _ _ _ _ E) in C. lia. }
  assert (W : forall u, stk s u <> [] -> exists r rest, stk s u = ExWait r false :: rest).
  { intros u Nu. destruct (enabled_cases _ _ (St u) Nu) as [[F _]|[[r [rest [_ E]]]|E]].
    - unfold free_for in F. rewrite O in F. discriminate.
    - congruence.
    - exact E. }
  destruct (W t Nt) as [r [rest E]]. destruct (reachable_invw _ (reachable_g_reachable _ R) _ _ _ E) as [u [_ Hb]].
  assert (Nu : stk s u <> []) by (intros Z; rewrite Z in Hb; discriminate).
  destruct (W u Nu) as [r' [rest' E']]. apply bottom_sh_counted in Hb. rewrite <- (i_cnt _ I) in Hb.
  rewrite (g_wait _ G _ _ _ _ E') in Hb. lia.
Qed.

Lemma run_reachable s ls s' : reachable s -> run s ls = Some s' -> reachable s'.
Proof.
  revert s. induction ls as [|l tl IH]; intros s R H; cbn in H.
  - injection H as <-. exact R.
  - destruct (step s l) as [s1|] eqn:S; [|discriminate]. eapply IH; [|exact H]. econstructor; eauto.
Qed.

Lemma g_run_reachable s ls s' : reachable_g s -> g_run s ls = true -> run s ls = Some s' -> reachable_g s'.
Proof.
  revert s. induction ls as [|l tl IH]; intros s R G H; cbn in H, G.
  - injection H as <-. exact R.
  - apply andb_true_iff in G. destruct G as [G1 G2]. destruct (step s l) as [s1|] eqn:S; [|discriminate].
    eapply IH; [|exact G2|exact H]. econstructor; eauto.
Qed.
