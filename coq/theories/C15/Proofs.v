(* PV.C15.Proofs — lemmas about the thread-level LTS of Model.v. *)
From Coq Require Import List Bool Arith PeanoNat Lia.
From PV Require Import C15.Model.
Import ListNotations.
Local Open Scope nat_scope.

(* ------------------------------------------------------------------ padded lists *)
Lemma nth_set_nth_same {A} (d : A) n v l : nth n (set_nth d n v l) d = v.
Proof.
  revert l. induction n as [|n IH]; intros [|x tl]; cbn; auto.
Qed.

Lemma nth_nil {A} (d : A) n : nth n (@nil A) d = d.
Proof. destruct n; reflexivity. Qed.

Lemma nth_set_nth_other {A} (d : A) n m v l : m <> n -> nth m (set_nth d n v l) d = nth m l d.
Proof.
  revert m l. induction n as [|n IH]; intros [|m] [|x tl] H; cbn [set_nth nth]; auto; try congruence.
  all: rewrite ?IH by congruence; rewrite ?nth_nil; auto.
  destruct m; reflexivity.
Qed.

Lemma nth_set_nth {A} (d : A) n m v l : nth m (set_nth d n v l) d = if Nat.eqb m n then v else nth m l d.
Proof.
  destruct (Nat.eqb_spec m n) as [->|H]; [apply nth_set_nth_same | now apply nth_set_nth_other].
Qed.

(* ------------------------------------------------------------------ state accessors *)
Lemma stk_set_stk s t v u : stk (set_stk s t v) u = if Nat.eqb u t then v else stk s u.
Proof. unfold stk, set_stk; cbn. apply nth_set_nth. Qed.
Lemma cnt_set_stk s t v u : cnt (set_stk s t v) u = cnt s u.
Proof. reflexivity. Qed.
Lemma owner_set_stk s t v : owner (set_stk s t v) = owner s.
Proof. reflexivity. Qed.
Lemma stk_set_cnt s t v u : stk (set_cnt s t v) u = stk s u.
Proof. reflexivity. Qed.
Lemma cnt_set_cnt s t v u : cnt (set_cnt s t v) u = if Nat.eqb u t then v else cnt s u.
Proof. unfold cnt, set_cnt; cbn. apply nth_set_nth. Qed.
Lemma owner_set_cnt s t v : owner (set_cnt s t v) = owner s.
Proof. reflexivity. Qed.
Lemma stk_set_owner s o u : stk (set_owner s o) u = stk s u.
Proof. reflexivity. Qed.
Lemma cnt_set_owner s o u : cnt (set_owner s o) u = cnt s u.
Proof. reflexivity. Qed.
Lemma owner_set_owner s o : owner (set_owner s o) = o.
Proof. reflexivity. Qed.
Lemma stk_notify_all s u : stk (notify_all s) u = notify_stack (stk s u).
Proof. unfold stk, notify_all; cbn. apply (map_nth notify_stack (stacks s) [] u). Qed.
Lemma cnt_notify_all s u : cnt (notify_all s) u = cnt s u.
Proof. reflexivity. Qed.
Lemma owner_notify_all s : owner (notify_all s) = owner s.
Proof. reflexivity. Qed.
Lemma stk_release s t u : stk (release s t) u = stk s u.
Proof. reflexivity. Qed.
Lemma cnt_release s t u : cnt (release s t) u = cnt s u.
Proof. reflexivity. Qed.
Lemma owner_release s t : owner (release s t) = if has_ex (stk s t) then Some t else None.
Proof. reflexivity. Qed.

#[export] Hint Rewrite stk_set_stk cnt_set_stk owner_set_stk stk_set_cnt cnt_set_cnt owner_set_cnt
  stk_set_owner cnt_set_owner owner_set_owner stk_notify_all cnt_notify_all owner_notify_all
  stk_release cnt_release owner_release Nat.eqb_refl : st.

Lemma stk_init t : stk init t = [].
Proof. unfold stk, init; cbn. apply nth_nil. Qed.
Lemma cnt_init t : cnt init t = 0.
Proof. unfold cnt, init; cbn. apply nth_nil. Qed.

(* ------------------------------------------------------------------ the tests of the code *)
Lemma others_from_spec i t l :
  others_from i t l = true <-> exists k, i + k <> t /\ nth k l 0 > 0.
Proof.
  revert i. induction l as [|c tl IH]; intros i; cbn [others_from].
  - split; [discriminate|]. intros [k [_ H]]. rewrite nth_nil in H. lia.
  - rewrite orb_true_iff, andb_true_iff, negb_true_iff, Nat.eqb_neq, Nat.ltb_lt, IH. split.
    + intros [[H1 H2]|[k [H1 H2]]].
      * exists 0. cbn. split; [lia|lia].
      * exists (S k). cbn. split; [lia|exact H2].
    + intros [[|k] [H1 H2]]; cbn in H2.
      * left. split; [lia|lia].
      * right. exists k. split; [lia|exact H2].
Qed.

Lemma others_hold_spec s t : others_hold s t = true <-> exists u, u <> t /\ cnt s u > 0.
Proof. unfold others_hold. rewrite others_from_spec. cbn. reflexivity. Qed.

Lemma others_hold_false s t : others_hold s t = false <-> forall u, u <> t -> cnt s u = 0.
Proof.
  split.
  - intros H u Hu. destruct (cnt s u) eqn:E; [reflexivity|].
    assert (others_hold s t = true) by (apply others_hold_spec; exists u; split; [exact Hu|lia]). congruence.
  - intros H. destruct (others_hold s t) eqn:E; [|reflexivity].
    apply others_hold_spec in E. destruct E as [u [Hu Hc]]. rewrite (H u Hu) in Hc. lia.
Qed.

Lemma acq_empty_spec s : acq_empty s = true <-> forall u, cnt s u = 0.
Proof.
  unfold acq_empty, cnt. rewrite forallb_forall. split.
  - intros H u. destruct (Nat.lt_ge_cases u (length (acq s))) as [L|L].
    + symmetry. apply Nat.eqb_eq. apply H. now apply nth_In.
    + now apply nth_overflow.
  - intros H x Hx. apply (In_nth _ _ 0) in Hx. destruct Hx as [n [_ <-]]. apply Nat.eqb_eq. symmetry. apply H.
Qed.

Lemma free_for_spec s t : free_for s t = true <-> owner s = None \/ owner s = Some t.
Proof.
  unfold free_for. destruct (owner s) as [o|].
  - rewrite Nat.eqb_eq. split; [intros ->; auto|intros [H|H]; congruence].
  - split; auto.
Qed.

(* ------------------------------------------------------------------ frames and stacks *)
Lemma ncounted_cons f l : ncounted (f :: l) = (if counted f then 1 else 0) + ncounted l.
Proof. unfold ncounted. cbn. destruct (counted f); reflexivity. Qed.
Lemma has_ex_cons f l : has_ex (f :: l) = is_exbody f || has_ex l.
Proof. reflexivity. Qed.
Lemma ncounted_notify l : ncounted (notify_stack l) = ncounted l.
Proof. destruct l as [|[] tl]; reflexivity. Qed.
Lemma has_ex_notify l : has_ex (notify_stack l) = has_ex l.
Proof. destruct l as [|[] tl]; reflexivity. Qed.

Definition wf_stack (l : list frame) : Prop :=
  match l with [] => True | _ :: rest => forallb is_body rest = true end.

Lemma wf_notify l : wf_stack l -> wf_stack (notify_stack l).
Proof. destruct l as [|[] tl]; auto. Qed.

Lemma bodies_counted l : forallb is_body l = true -> ncounted l = length l.
Proof.
  induction l as [|f tl IH]; [reflexivity|]. cbn [forallb]. rewrite andb_true_iff. intros [Hf Ht].
  rewrite ncounted_cons, IH by exact Ht. destruct f; cbn in *; try discriminate; reflexivity.
Qed.

Lemma has_ex_counted l : has_ex l = true -> ncounted l > 0.
Proof.
  induction l as [|f tl IH]; [discriminate|]. rewrite has_ex_cons, ncounted_cons, orb_true_iff.
  intros [H|H]; [destruct f; try discriminate; cbn; lia | specialize (IH H); lia].
Qed.
