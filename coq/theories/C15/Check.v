(* PV.C15.Check — comparison run inside Coq for the thread level.
   A case is ONE schedule of the real `ShareableThreadLock` executed by the deterministic scheduler of
   harness/props/c15.py: for every granted atomic section the label (thread, action) and what the real
   objects looked like afterwards.  `verdict` replays the labels through `Model.stepo` and compares
   step by step (correspondence tags 1..9), evaluates the property statements on the observations of
   the implementation alone (oracle tags 11..29), and reports guard facts (tags >= 200). *)
From Coq Require Import List Bool Arith PeanoNat.
From PV Require Import C15.Model.
Import ListNotations.
Local Open Scope nat_scope.

Record tstep := mkStep {
  s_tid : nat;
  s_act : action;
  s_obs : obs;                        (* what the real thread did in this atomic section *)
  s_acq : list (nat * nat);           (* items of the real `_acquired_by` afterwards *)
  s_owner : option nat;               (* owner of the real (virtual) RLock afterwards *)
  s_depth : nat;                      (* its recursion depth *)
  s_waiting : list nat;               (* threads inside Condition.wait(), not notified *)
  s_notified : list nat;              (* threads inside Condition.wait(), notified, not yet resumed *)
  s_runnable : list nat;              (* threads the scheduler could grant next (parked, not blocked) *)
  s_done : list nat;                  (* threads whose program has ended *)
  s_bodies : list (nat * list bool);  (* per thread: the `with` bodies it is inside, innermost first; true = shared.
                                         Recorded by the thread programs themselves (enter after __enter__ returned,
                                         removed after __exit__ returned) *)
  s_stutter : bool;                   (* this step ran the code that FOLLOWS a release (up to the next blocking
                                         primitive): it must not change anything; the model does not move *)
  s_released : list nat               (* threads parked right after a release (their own body record lags one step) *)
}.

Record case := mkCase {
  c_nthreads : nat;
  c_steps : list tstep;
  c_final : nat;                      (* 0 = every thread finished, 1 = no thread runnable (deadlock), 2 = step bound *)
  c_parked : list (nat * list frame); (* at the end: threads not finished and the model frame stack the harness expects
                                         (computed from the program position of the real thread) *)
  c_crash : nat                       (* number of unexpected exceptions that escaped from lock.py / bad observations *)
}.

Definition tag (b : bool) (t : nat) : list nat := if b then [] else [t].

Definition frame_eqb (a b : frame) : bool :=
  match a, b with
  | ShReq b1 r1, ShReq b2 r2 | ExReq b1 r1, ExReq b2 r2 | ExWait b1 r1, ExWait b2 r2 => Bool.eqb b1 b2 && Bool.eqb r1 r2
  | ShBody, ShBody | ShExit, ShExit | ExBody, ExBody => true
  | _, _ => false
  end.
Definition exc_eqb (a b : exc) : bool :=
  match a, b with WouldBlock, WouldBlock | Recursive, Recursive => true | _, _ => false end.
Definition obs_eqb (a b : obs) : bool :=
  match a, b with
  | OPush, OPush | OEnterSh, OEnterSh | OEnterEx, OEnterEx | OLeave, OLeave | OExitEx, OExitEx | OWait, OWait => true
  | OExitSh x, OExitSh y => Bool.eqb x y
  | ORaise x, ORaise y => exc_eqb x y
  | _, _ => false
  end.
Definition onat_eqb (a b : option nat) : bool :=
  match a, b with Some x, Some y => Nat.eqb x y | None, None => true | _, _ => false end.
Fixpoint list_eqb {A} (eqb : A -> A -> bool) (a b : list A) : bool :=
  match a, b with
  | [], [] => true
  | x :: a', y :: b' => eqb x y && list_eqb eqb a' b'
  | _, _ => false
  end.

Fixpoint lookup (t : nat) (l : list (nat * nat)) : nat :=
  match l with [] => 0 | (k, v) :: tl => if Nat.eqb k t then v else lookup t tl end.

(* the model's view of the same observables; n = number of threads of the case *)
Definition m_acq_ok (n : nat) (s : state) (items : list (nat * nat)) : bool :=
  forallb (fun t => Nat.eqb (cnt s t) (lookup t items)) (seq 0 n)
  && forallb (fun kv => (0 <? snd kv) && (fst kv <? n)) items.     (* no zero entries are left in the Counter *)
Definition m_depth (s : state) : nat := match owner s with Some o => depth_of (stk s o) | None => 0 end.
Definition m_waiting (n : nat) (s : state) (notified : bool) : list nat :=
  filter (fun t => match stk s t with ExWait _ x :: _ => Bool.eqb x notified | _ => false end) (seq 0 n).
Definition m_runnable (n : nat) (s : state) (finished released : list nat) : list nat :=
  filter (fun t => negb (existsb (Nat.eqb t) finished) &&
                   (existsb (Nat.eqb t) released ||
                    match stk s t with
                    | [] => true                 (* parked before its next request *)
                    | f :: _ => if is_body f then true else enabled s t
                    end)) (seq 0 n).
Definition m_bodies (s : state) (t : nat) : list bool :=   (* counted frames, true = shared *)
  map (fun f => negb (is_exbody f)) (filter counted (stk s t)).

Fixpoint lookupl {A} (t : nat) (l : list (nat * list A)) : list A :=
  match l with [] => [] | (k, v) :: tl => if Nat.eqb k t then v else lookupl t tl end.

(* a thread parked right after a release has a body record that lags one step: the oracles conclude nothing from it *)
Definition drop_released {A} (rel : list nat) (bod : list (nat * list A)) : list (nat * list A) :=
  filter (fun kv => negb (existsb (Nat.eqb (fst kv)) rel)) bod.

(* ---- oracle statements on the implementation's observations *)
Definition excl_ok (n : nat) (bod : list (nat * list bool)) : bool :=
  forallb (fun t =>
    if existsb negb (lookupl t bod)        (* t is inside an exclusive body *)
    then forallb (fun u => Nat.eqb u t || match lookupl u bod with [] => true | _ => false end) (seq 0 n)
    else true) (seq 0 n).
Definition others_in_body (n : nat) (bod : list (nat * list bool)) (t : nat) : bool :=
  existsb (fun u => negb (Nat.eqb u t) && match lookupl u bod with [] => false | _ => true end) (seq 0 n).
Definition other_in_exbody (n : nat) (bod : list (nat * list bool)) (t : nat) : bool :=
  existsb (fun u => negb (Nat.eqb u t) && existsb negb (lookupl u bod)) (seq 0 n).

(* one step: (model state, bodies before, finished) -> tags *)
Definition check_step (n : nat) (s : state) (before0 : list (nat * list bool)) (rbefore : list nat) (st : tstep)
  : option state * list nat :=
  let t := s_tid st in
  let before := drop_released (filter (fun u => negb (Nat.eqb u t)) rbefore) before0 in
  let top := match stk s t with f :: _ => Some f | [] => None end in
  let oracle :=
    (* 11: exclusion *)
    tag (excl_ok n (drop_released (s_released st) (s_bodies st))) 11 ++
    (* 13: nobody else's holds change in a step of t *)
    tag (forallb (fun u => Nat.eqb u t || list_eqb Bool.eqb (lookupl u before0) (lookupl u (s_bodies st))) (seq 0 n)) 13 ++
    match (if s_stutter st then APush ShBody else s_act st), top, s_obs st with
    (* 12: a shared request refused although no other thread is in an exclusive body *)
    | AGo, Some (ShReq _ _), ORaise WouldBlock => tag (other_in_exbody n before t) 12
    (* 14: a non-blocking request never waits, and raises when a conflicting holder exists *)
    | AGo, Some (ExReq false _), OWait => [14]
    | AGo, Some (ExReq false _), OEnterEx => tag (negb (others_in_body n before t)) 14
    | AGo, Some (ShReq false _), OEnterSh => tag (negb (other_in_exbody n before t)) 14
    | _, _, _ => []
    end ++
    (* 15: a non-reentrant request by a thread already inside a body never enters *)
    match (if s_stutter st then APush ShBody else s_act st), top, s_obs st with
    | AGo, Some (ShReq _ false), OEnterSh | AGo, Some (ExReq _ false), OEnterEx
    | AGo, Some (ExWait false _), OEnterEx =>
        tag (match lookupl t before with [] => true | _ => false end) 15
    | _, _, _ => []
    end in
  let state_tags (s' : state) :=
       tag (m_acq_ok n s' (s_acq st)) 3 ++
       tag (onat_eqb (owner s') (s_owner st) && Nat.eqb (m_depth s') (s_depth st)) 4 ++
       tag (list_eqb Nat.eqb (m_waiting n s' false) (s_waiting st) &&
            list_eqb Nat.eqb (m_waiting n s' true) (s_notified st)) 5 ++
       tag (list_eqb Nat.eqb (m_runnable n s' (s_done st) (s_released st)) (s_runnable st)) 7 ++
       tag (forallb (fun u => existsb (Nat.eqb u) (s_released st) ||
                              list_eqb Bool.eqb (m_bodies s' u) (lookupl u (s_bodies st))) (seq 0 n)) 8 in
  if s_stutter st then (Some s, state_tags s ++ oracle)
  else
  match stepo s (t, s_act st) with
  | None => (None, 1 :: oracle)
  | Some (s', o) => (Some s', tag (obs_eqb o (s_obs st)) 2 ++ state_tags s' ++ oracle)
  end.

(* g = (no upgrade at all [g_label], at most one upgrader at a time [g1_label]) *)
Fixpoint check_steps (n : nat) (s : state) (before : list (nat * list bool)) (rbefore : list nat) (g : bool * bool) (l : list tstep)
  : option state * (bool * bool) * list (nat * list bool) * list nat :=
  match l with
  | [] => (Some s, g, before, [])
  | st :: tl =>
      let g' := (fst g && (s_stutter st || g_label s (s_tid st, s_act st)),
                 snd g && (s_stutter st || g1_label s (s_tid st, s_act st))) in
      match check_step n s before rbefore st with
      | (None, tags) => (None, g', s_bodies st, tags)
      | (Some s', tags) =>
          let '(r, g'', b, tags') := check_steps n s' (s_bodies st) (s_released st) g' tl in (r, g'', b, tags ++ tags')
      end
  end.

Definition last_step (c : case) : option tstep := last (map Some (c_steps c)) None.

Definition check_final (c : case) (s : state) (bod : list (nat * list bool)) : list nat :=
  let n := c_nthreads c in
  (* 6: the threads that did not finish are where the model says they are, the others are idle *)
  tag (forallb (fun t => list_eqb frame_eqb (stk s t) (lookupl t (c_parked c))) (seq 0 n)) 6 ++
  (* 7: the model agrees about who can run at the end *)
  tag (match c_final c with
       | 0 => negb (busy s)
       | 1 => busy s && stuck s
       | _ => true end) 7 ++
  match c_final c, last_step c with
  | 0, Some st =>
      (* 16: quiescent: all bookkeeping of the real object is empty *)
      tag (match s_acq st, s_owner st, s_depth st, s_waiting st, s_notified st with
           | [], None, 0, [], [] => true | _, _, _, _, _ => false end
           && forallb (fun t => match lookupl t bod with [] => true | _ => false end) (seq 0 n)) 16
  | 1, Some st =>
      (* 21: deadlock in which some thread sits in wait(), was not notified, and no other thread is inside a body
         22: any other state in which no thread can move *)
      if existsb (fun t => negb (others_in_body n bod t)) (s_waiting st) then [21] else [22]
  | 1, None => [22]
  | 2, _ => [23]
  | _, _ => []
  end.

Definition verdict (c : case) : list nat :=
  let n := c_nthreads c in
  let '(r, g, bod, tags) := check_steps n init [] [] (true, true) (c_steps c) in
  nodup Nat.eq_dec
    (tags ++
     match r with
     | Some s => check_final c s bod
     | None => match c_final c with 1 => [22] | 2 => [23] | _ => [] end
     end ++
     tag (Nat.eqb (c_crash c) 0) 9 ++
     tag (fst g) 201 ++ tag (snd g) 203).
