(* PV.C15.Upgrade — narrowing the progress guard.  Since 01dac8d a SINGLE upgrader (a thread that makes a blocking
   exclusive request while it holds the lock only shared) makes progress; only two simultaneous upgraders deadlock
   (C15-MUTUAL-UPGRADE-DEADLOCK).  g1_label allows an upgrade push when no OTHER thread is currently an upgrader. *)
From Coq Require Import List Bool Arith PeanoNat Lia.
From PV Require Import C15.Model C15.Proofs C15.PathModel C15.PathProofs C15.PathProgress.
Import ListNotations.
Local Open Scope nat_scope.

Lemma g_label_g1 s l : g_label s l = true -> g1_label s l = true.
Proof.
  destruct l as [t [f|]]; [|auto]. destruct f as [| | |b r| |]; auto. destruct b; auto. cbn. intros H. rewrite H. reflexivity.
Qed.

Lemma reachable_g_g1 s : reachable_g s -> reachable_g1 s.
Proof. induction 1; [constructor|econstructor; eauto using g_label_g1]. Qed.
Lemma reachable_g1_reachable s : reachable_g1 s -> reachable s.
Proof. induction 1; [constructor|econstructor; eauto]. Qed.

Definition single_upgrader (s : state) : Prop :=
  forall t u, upgraderb s t = true -> upgraderb s u = true -> t = u.

Lemma upgraderb_threads s u : upgraderb s u = true -> In u (seq 0 (length (stacks s))).
Proof.
  unfold upgraderb, stk. intros H. apply in_seq. split; [lia|]. cbn.
  destruct (Nat.lt_ge_cases u (length (stacks s))) as [L|L]; [exact L|]. rewrite nth_overflow in H by exact L. discriminate H.
Qed.

Lemma upgraderb_other s t a s' u : step s (t, a) = Some s' -> u <> t -> upgraderb s' u = upgraderb s u.
Proof.
  intros H N. destruct (step_other _ _ _ _ H) as [Hc [Hs|[Hs _]]]; unfold upgraderb; rewrite (Hc u N), (Hs u N); [reflexivity|].
  destruct (stk s u) as [|[] tl]; reflexivity.
Qed.

Lemma upgraderb_self s t a s' :
  Inv s -> step s (t, a) = Some s' -> upgraderb s' t = true ->
  upgraderb s t = true \/ (exists r, a = APush (ExReq true r) /\ (0 <? cnt s t) = true /\ has_ex (stk s t) = false).
Proof.
  intros I H U. pose proof (i_wf _ I t) as W. pose proof (i_ex _ I t) as Ix.
  unfold step, stepo, ex_check in H. break_step H.
  all: cbn in H; injection H as <-.
  all: unfold upgraderb in *; autorewrite with st in *.
  all: try discriminate U.
  all: try match goal with E0 : stk _ _ = _ :: _ |- _ => rewrite E0 in W, Ix; cbn [wf_stack] in W end.
  all: try (left; exact U).
  (* a pop reveals a body frame: not an upgrader *)
  all: try (destruct l as [|g l']; [discriminate U|]; cbn in W; apply andb_true_iff in W; destruct W as [Wg _];
            destruct g; cbn in Wg; try discriminate Wg; cbn in U; discriminate U).
  all: try (rewrite notify_bodies in U by exact W; destruct l as [|g l']; [discriminate U|]; cbn in W;
            apply andb_true_iff in W; destruct W as [Wg _]; destruct g; cbn in Wg; try discriminate Wg; cbn in U; discriminate U).
  - (* push *) right. apply andb_true_iff in E0. destruct E0 as [Ef _]. destruct f as [| | |b r| |]; try discriminate U; try discriminate Ef.
    destruct b; [|discriminate U]. apply andb_true_iff in U. destruct U as [U1 U2]. apply negb_true_iff in U2. eauto.
  - (* a blocking exclusive request starts to wait: it already was the upgrader *)
    left. rewrite E0. rewrite U. cbn. destruct (has_ex l) eqn:Hx; [exfalso|reflexivity].
    apply others_hold_spec in E3. destruct E3 as [v [Hv Hc]]. rewrite has_ex_cons in Ix. cbn [is_exbody orb] in Ix.
    rewrite (Ix v Hx Hv) in Hc. lia.
  - left. rewrite E0. exact U.
Qed.

Lemma step_single_upgrader s l s' :
  Inv s -> single_upgrader s -> g1_label s l = true -> step s l = Some s' -> single_upgrader s'.
Proof.
  intros I U G H. destruct l as [t0 a].
  assert (Old : forall x, upgraderb s' x = true -> upgraderb s x = true \/
                  (x = t0 /\ forall u, u <> t0 -> upgraderb s u = false)).
  { intros x Hx. destruct (Nat.eq_dec x t0) as [->|N]; [|left; rewrite <- (upgraderb_other _ _ _ _ x H N); exact Hx].
    destruct (upgraderb_self _ _ _ _ I H Hx) as [Y|[r [-> [C X]]]]; [left; exact Y|right]. split; [reflexivity|].
    intros u Nu. cbn in G. apply Nat.ltb_lt in C. assert (Z : (cnt s t0 =? 0) = false) by (apply Nat.eqb_neq; lia).
    rewrite Z, X in G. cbn in G. rewrite forallb_forall in G.
    destruct (upgraderb s u) eqn:Eu; [exfalso|reflexivity]. specialize (G u (upgraderb_threads _ _ Eu)).
    apply Nat.eqb_neq in Nu. rewrite Nu, Eu in G. discriminate G. }
  intros x y Hx Hy. destruct (Old x Hx) as [Ox|[-> Ox]]; destruct (Old y Hy) as [Oy|[-> Oy]]; auto.
  - destruct (Nat.eq_dec x t0) as [|N]; [assumption|]. rewrite (Oy x N) in Ox. discriminate Ox.
  - destruct (Nat.eq_dec y t0) as [|N]; [auto|]. rewrite (Ox y N) in Oy. discriminate Oy.
Qed.

Lemma reachable_g1_single s : reachable_g1 s -> single_upgrader s.
Proof.
  induction 1 as [|s l s' R IH G H].
  - intros t u Ht. unfold upgraderb in Ht. rewrite stk_init in Ht. discriminate Ht.
  - eapply step_single_upgrader; eauto. apply reachable_inv. apply reachable_g1_reachable. exact R.
Qed.

(* Deadlock freedom with at most one upgrader at a time (thread level, any number of threads). *)
Lemma deadlock_free_g1_lemma s :
  reachable_g1 s -> (exists t, stk s t <> []) -> exists t s', step s (t, AGo) = Some s'.
Proof.
  intros Rg [t Nt]. pose proof (reachable_g1_reachable _ Rg) as R. pose proof (reachable_inv _ R) as I.
  pose proof (reachable_g1_single _ Rg) as U. pose proof (reachable_invw _ R) as IW.
  destruct (stuck s) eqn:S; [exfalso|apply not_stuck; exact S].
  pose proof (stuck_spec _ S) as St.
  assert (O : owner s = None).
  { destruct (owner s) as [o|] eqn:O; [exfalso|reflexivity].
    pose proof (proj1 (i_own _ I o) O) as X.
    assert (No : stk s o <> []) by (intros Z; rewrite Z in X; discriminate).
    destruct (enabled_cases _ _ (St o) No) as [[F _]|[[r [rest [E _]]]|[r [rest E]]]].
    - unfold free_for in F. rewrite O, Nat.eqb_refl in F. discriminate.
    - rewrite E, has_ex_cons in X. cbn in X. rewrite (waiter_no_ex _ R _ _ _ _ E) in X. discriminate X.
    - rewrite E, has_ex_cons in X. cbn in X. rewrite (waiter_no_ex _ R _ _ _ _ E) in X. discriminate X. }
  assert (W : forall u, stk s u <> [] -> exists r rest, stk s u = ExWait r false :: rest).
  { intros u Nu. destruct (enabled_cases _ _ (St u) Nu) as [[F _]|[[r [rest [_ E]]]|E]].
    - unfold free_for in F. rewrite O in F. discriminate.
    - congruence.
    - exact E. }
  assert (Up : forall x r rest, stk s x = ExWait r false :: rest ->
                 exists u, u <> x /\ upgraderb s u = true /\ exists r' rest', stk s u = ExWait r' false :: rest').
  { intros x r rest E. destruct (IW _ _ _ E) as [u [Hu Hb]].
    assert (Nu : stk s u <> []) by (intros Z; rewrite Z in Hb; discriminate).
    destruct (W u Nu) as [r' [rest' E']]. apply bottom_sh_counted in Hb. rewrite <- (i_cnt _ I) in Hb.
    exists u. split; [exact Hu|]. split; [|eauto]. unfold upgraderb. rewrite E'. apply Nat.ltb_lt. exact Hb. }
  destruct (W t Nt) as [r [rest E]]. destruct (Up _ _ _ E) as [u1 [_ [H1 [r1 [rest1 E1]]]]].
  destruct (Up _ _ _ E1) as [u2 [N2 [H2 _]]]. apply N2. apply U; assumption.
Qed.

Lemma g1_run_reachable s ls s' : reachable_g1 s -> g1_run s ls = true -> run s ls = Some s' -> reachable_g1 s'.
Proof.
  revert s. induction ls as [|l tl IH]; intros s R G H; cbn in H, G.
  - injection H as <-. exact R.
  - apply andb_true_iff in G. destruct G as [G1 G2]. destruct (step s l) as [s1|] eqn:S; [|discriminate].
    eapply IH; [|exact G2|exact H]. econstructor; eauto.
Qed.
