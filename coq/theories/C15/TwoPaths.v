(* PV.C15.TwoPaths — a thread may hold locks on TWO different paths (nested `with path_lock(a): with path_lock(b): ...`).
   The state is one PathModel state per path; a thread's requests are nested LIFO across the two paths (`order`: the
   paths of its open requests, innermost first), so a thread can only continue the request on top.  Everything a path's
   objects contain (pools entries, lock objects, kernel lock of that file) is keyed by the path: a step on one path
   leaves the other component untouched (`two_paths_independent`), and each component of a reachable two-path state is
   a reachable one-path state (`two_paths_project`), so every safety theorem of Properties.v holds for each path.
   The pool mutexes, shared by both paths, are never held across a blocking point (checked by the tie's stutter steps).
   Deadlocks by inconsistent lock ORDER between the two paths are the caller's duty (module docstring): the guard
   `lock_ordered` says no thread requests path 0 while it has an open request on path 1. *)
From Coq Require Import List Bool Arith PeanoNat.
From PV Require Import C15.Model C15.PathModel C15.PathProofs.
Import ListNotations.
Local Open Scope nat_scope.

Record state2 := mkS2 { comp0 : pstate; comp1 : pstate; order : list (list bool) }.   (* false = path 0, true = path 1 *)
Definition init2 : state2 := mkS2 pinit pinit [].
Definition ord (s : state2) (t : tid) : list bool := nth t (order s) [].
Definition set_ord (s : state2) (t : tid) (v : list bool) : state2 := mkS2 (comp0 s) (comp1 s) (set_nth [] t v (order s)).
Definition comp (s : state2) (i : bool) : pstate := if i then comp1 s else comp0 s.
Definition set_comp (s : state2) (i : bool) (c : pstate) : state2 :=
  if i then mkS2 (comp0 s) c (order s) else mkS2 c (comp1 s) (order s).

Definition label2 := (bool * plabel)%type.

Definition step2 (pof : tid -> nat) (s : state2) (l : label2) : option state2 :=
  let '(i, (t, a)) := l in
  match a with
  | PPush _ _ _ =>
      match pstep pof (comp s i) (t, a) with
      | Some c => Some (set_ord (set_comp s i c) t (i :: ord s t))
      | None => None
      end
  | PGo =>
      match ord s t with
      | j :: rest =>
          if Bool.eqb i j then
            match pstep pof (comp s i) (t, a) with
            | Some c =>
                (* the request is finished when its frame has been popped *)
                let s' := set_comp s i c in
                if length (gets c t) <? length (gets (comp s i) t) then Some (set_ord s' t rest) else Some s'
            | None => None
            end
          else None
      | [] => None
      end
  end.

Inductive reachable2 (pof : tid -> nat) : state2 -> Prop :=
| r2_init : reachable2 pof init2
| r2_step : forall s l s', reachable2 pof s -> step2 pof s l = Some s' -> reachable2 pof s'.

(* no thread requests path 0 while it has an open request on path 1 *)
Definition lock_ordered_label (s : state2) (l : label2) : bool :=
  match l with
  | (false, (t, PPush _ _ _)) => negb (existsb (fun b => b) (ord s t))
  | _ => true
  end.

Lemma comp_set_comp_same s i c : comp (set_comp s i c) i = c.
Proof. destruct i; reflexivity. Qed.
Lemma comp_set_comp_other s i c : comp (set_comp s i c) (negb i) = comp s (negb i).
Proof. destruct i; reflexivity. Qed.
Lemma comp_set_ord s t v i : comp (set_ord s t v) i = comp s i.
Proof. destruct i; reflexivity. Qed.

(* a step on path i is a PathModel step of component i and leaves the other component alone *)
Lemma step2_components pof s i t a s' :
  step2 pof s (i, (t, a)) = Some s' ->
  pstep pof (comp s i) (t, a) = Some (comp s' i) /\ comp s' (negb i) = comp s (negb i).
Proof.
  unfold step2. destruct a as [sh b r|].
  - destruct (pstep pof (comp s i) (t, PPush sh b r)) as [c|] eqn:E; [|discriminate]. intros H. injection H as <-.
    rewrite !comp_set_ord, comp_set_comp_same, comp_set_comp_other. auto.
  - destruct (ord s t) as [|j rest]; [discriminate|]. destruct (Bool.eqb i j); [|discriminate].
    destruct (pstep pof (comp s i) (t, PGo)) as [c|] eqn:E; [|discriminate].
    destruct (length (gets c t) <? length (gets (comp s i) t)); intros H; injection H as <-;
      rewrite ?comp_set_ord, comp_set_comp_same, comp_set_comp_other; auto.
Qed.

Theorem two_paths_independent_lemma pof s i t a s' :
  step2 pof s (i, (t, a)) = Some s' -> comp s' (negb i) = comp s (negb i).
Proof. intros H. exact (proj2 (step2_components pof s i t a s' H)). Qed.

Theorem two_paths_project_lemma pof s :
  reachable2 pof s -> preachable pof (comp0 s) /\ preachable pof (comp1 s).
Proof.
  induction 1 as [|s l s' R [IH0 IH1] H]; [split; constructor|].
  destruct l as [i [t a]]. destruct (step2_components _ _ _ _ _ _ H) as [Hs Ho].
  destruct i; cbn [comp negb] in Hs, Ho.
  - split; [rewrite Ho; exact IH0|eapply pr_step; [exact IH1|exact Hs]].
  - split; [eapply pr_step; [exact IH0|exact Hs]|rewrite Ho; exact IH1].
Qed.

(* reader-writer exclusion on each of the two paths, for threads that may hold both *)
Theorem two_paths_excl_lemma pof s i t u f g :
  reachable2 pof s -> In f (gets (comp s i) t) -> at_body f = true -> f_sh f = false ->
  u <> t -> In g (gets (comp s i) u) -> at_body g = true -> False.
Proof.
  intros R. destruct (two_paths_project_lemma _ _ R) as [R0 R1].
  destruct i; cbn [comp]; [apply (path_excl_excludes_lemma pof _ t u f g R1)|apply (path_excl_excludes_lemma pof _ t u f g R0)].
Qed.
