(* PV.C15.TwoPaths — a thread may hold locks on TWO different paths (nested `with path_lock(a): with path_lock(b): ...`).
   The state is one PathModel state per path; a thread's requests are nested LIFO across the two paths (`order`: the
   paths of its open requests, innermost first), so a thread can only continue the request on top.  Everything a path's
   objects contain (pools entries, lock objects, kernel lock of that file) is keyed by the path: a step on one path
   leaves the other component untouched (`two_paths_independent`), and each component of a reachable two-path state is
   a reachable one-path state (`two_paths_project`), so every safety theorem of Properties.v holds for each path.
   The pool mutexes, shared by both paths, are never held across a blocking point (checked by the tie's stutter steps).
   Deadlocks by inconsistent lock ORDER between the two paths are the caller's duty (module docstring): the guard
   `lock_ordered` says no thread requests path 0 while it has an open request on path 1. *)
From Coq Require Import List Bool Arith PeanoNat.
From PV Require Import C15.Model C15.PathModel C15.PathProofs.
Import ListNotations.
Local Open Scope nat_scope.

Record state2 := mkS2 { comp0 : pstate; comp1 : pstate; order : list (list bool) }.   (* false = path 0, true = path 1 *)
Definition init2 : state2 := mkS2 pinit pinit [].
Definition ord (s : state2) (t : tid) : list bool := nth t (order s) [].
Definition set_ord (s : state2) (t : tid) (v : list bool) : state2 := mkS2 (comp0 s) (comp1 s) (set_nth [] t v (order s)).
Definition comp (s : state2) (i : bool) : pstate := if i then comp1 s else comp0 s.
Definition set_comp (s : state2) (i : bool) (c : pstate) : state2 :=
  if i then mkS2 (comp0 s) c (order s) else mkS2 c (comp1 s) (order s).

Definition label2 := (bool * plabel)%type.

Definition step2 (pof : tid -> nat) (s : state2) (l : label2) : option state2 :=
  let '(i, (t, a)) := l in
  match a with
  | PPush _ _ _ =>
      match pstep pof (comp s i) (t, a) with
      | Some c => Some (set_ord (set_comp s i c) t (i :: ord s t))
      | None => None
      end
  | PGo =>
      match ord s t with
      | j :: rest =>
          if Bool.eqb i j then
            match pstep pof (comp s i) (t, a) with
            | Some c =>
                (* the request is finished when its frame has been popped *)
                let s' := set_comp s i c in
                if length (gets c t) <? length (gets (comp s i) t) then Some (set_ord s' t rest) else Some s'
            | None => None
            end
          else None
      | [] => None
      end
  end.

Inductive reachable2 (pof : tid -> nat) : state2 -> Prop :=
| r2_init : reachable2 pof init2
| r2_step : forall s l s', reachable2 pof s -> step2 pof s l = Some s' -> reachable2 pof s'.

(* no thread requests path 0 while it has an open request on path 1 *)
Definition lock_ordered_label (s : state2) (l : label2) : bool :=
  match l with
  | (false, (t, PPush _ _ _)) => negb (existsb (fun b => b) (ord s t))
  | _ => true
  end.

Lemma comp_set_comp_same s i c : comp (set_comp s i c) i = c.
Proof. destruct i; reflexivity. Qed.
Lemma comp_set_comp_other s i c : comp (set_comp s i c) (negb i) = comp s (negb i).
Proof. destruct i; reflexivity. Qed.
Lemma comp_set_ord s t v i : comp (set_ord s t v) i = comp s i.
Proof. destruct i; reflexivity. Qed.

(* a step on path i is a PathModel step of component i and leaves the other component alone *)
Lemma step2_components pof s i t a s' :
  step2 pof s (i, (t, a)) = Some s' ->
  pstep pof (comp s i) (t, a) = Some (comp s' i) /\ comp s' (negb i) = comp s (negb i).
Proof.
  unfold step2. destruct a as [sh b r|].
  - destruct (pstep pof (comp s i) (t, PPush sh b r)) as [c|] eqn:E; [|discriminate]. intros H. injection H as <-.
    rewrite !comp_set_ord, comp_set_comp_same, comp_set_comp_other. auto.
  - destruct (ord s t) as [|j rest]; [discriminate|]. destruct (Bool.eqb i j); [|discriminate].
    destruct (pstep pof (comp s i) (t, PGo)) as [c|] eqn:E; [|discriminate].
    destruct (length (gets c t) <? length (gets (comp s i) t)); intros H; injection H as <-;
      rewrite ?comp_set_ord, comp_set_comp_same, comp_set_comp_other; auto.
Qed.

Theorem two_paths_independent_lemma pof s i t a s' :
  step2 pof s (i, (t, a)) = Some s' -> comp s' (negb i) = comp s (negb i).
Proof. intros H. exact (proj2 (step2_components pof s i t a s' H)). Qed.

Theorem two_paths_project_lemma pof s :
  reachable2 pof s -> preachable pof (comp0 s) /\ preachable pof (comp1 s).
Proof.
  induction 1 as [|s l s' R [IH0 IH1] H]; [split; constructor|].
  destruct l as [i [t a]]. destruct (step2_components _ _ _ _ _ _ H) as [Hs Ho].
  destruct i; cbn [comp negb] in Hs, Ho.
  - split; [rewrite Ho; exact IH0|eapply pr_step; [exact IH1|exact Hs]].
  - split; [eapply pr_step; [exact IH0|exact Hs]|rewrite Ho; exact IH1].
Qed.

(* reader-writer exclusion on each of the two paths, for threads that may hold both *)
Theorem two_paths_excl_lemma pof s i t u f g :
  reachable2 pof s -> In f (gets (comp s i) t) -> at_body f = true -> f_sh f = false ->
  u <> t -> In g (gets (comp s i) u) -> at_body g = true -> False.
Proof.
  intros R. destruct (two_paths_project_lemma _ _ R) as [R0 R1].
  destruct i; cbn [comp]; [apply (path_excl_excludes_lemma pof _ t u f g R1)|apply (path_excl_excludes_lemma pof _ t u f g R0)].
Qed.

(* ================================================================================================
   Deadlock freedom with two paths, under the caller's lock-ordering duty and the no-upgrade guard. *)
From PV Require Import C15.PathProgress.
From Coq Require Import Lia.

Definition guard2 (s : state2) (l : label2) : bool :=
  lock_ordered_label s l && (let '(i, pl) := l in pg_label (comp s i) pl).

Inductive reachable2_g (pof : tid -> nat) : state2 -> Prop :=
| r2g_init : reachable2_g pof init2
| r2g_step : forall s l s', reachable2_g pof s -> guard2 s l = true -> step2 pof s l = Some s' -> reachable2_g pof s'.

Lemma ord_set_ord s t v u : ord (set_ord s t v) u = if Nat.eqb u t then v else ord s u.
Proof. unfold ord, set_ord; cbn. apply Proofs.nth_set_nth. Qed.
Lemma ord_set_comp s i c u : ord (set_comp s i c) u = ord s u.
Proof. destruct i; reflexivity. Qed.

(* how a one-path step changes the length of a thread's stack *)
Lemma pstep_length pof ps t a ps' :
  pstep pof ps (t, a) = Some ps' ->
  (forall u, u <> t -> gets ps' u = gets ps u) /\
  match a with
  | PPush _ _ _ => length (gets ps' t) = S (length (gets ps t))
  | PGo => length (gets ps' t) = length (gets ps t) \/ S (length (gets ps' t)) = length (gets ps t)
  end.
Proof.
  intros H. split; [intros u N; exact (pstep_other_thread pof ps t a ps' u H N)|].
  unfold pstep, pstepo in H. cbv zeta in H. break_pstep H.
  all: cbn in H; injection H as <-.
  all: autorewrite with pst.
  all: try match goal with E : gets _ _ = _ :: _ |- _ => rewrite ?E end.
  all: cbn [length]; auto.
Qed.

(* the order of a thread lists its open requests: as many entries for a path as it has frames there; under lock ordering
   all entries for path 1 are above all entries for path 0 *)
Fixpoint cnt_path (i : bool) (l : list bool) : nat :=
  match l with [] => 0 | b :: tl => (if Bool.eqb b i then 1 else 0) + cnt_path i tl end.
Fixpoint ones_first (l : list bool) : bool :=
  match l with [] => true | true :: tl => ones_first tl | false :: tl => negb (existsb (fun b => b) tl) end.

Record Inv2 (s : state2) : Prop := {
  o_cnt : forall t i, cnt_path i (ord s t) = length (gets (comp s i) t);
  o_sorted : forall t, ones_first (ord s t) = true
}.

Lemma inv2_init : Inv2 init2.
Proof.
  constructor.
  - intros t i. assert (Z : ord init2 t = []) by (unfold ord, init2; cbn [order]; apply Proofs.nth_nil).
    rewrite Z. destruct i; cbn [comp comp0 comp1 init2 cnt_path]; rewrite gets_pinit; reflexivity.
  - intros t. assert (Z : ord init2 t = []) by (unfold ord, init2; cbn [order]; apply Proofs.nth_nil). rewrite Z. reflexivity.
Qed.

Lemma no_true_ones_first l : existsb (fun b : bool => b) l = false -> ones_first l = true.
Proof.
  induction l as [|b tl IH]; [reflexivity|]. cbn. destruct b; [discriminate|]. cbn. intros H. rewrite H. reflexivity.
Qed.

Lemma ones_first_tail b l : ones_first (b :: l) = true -> ones_first l = true.
Proof. destruct b; cbn; [auto|]. intros H. apply no_true_ones_first. apply negb_true_iff. exact H. Qed.

Lemma comp_other_eq s i c j : j <> i -> comp (set_comp s i c) j = comp s j.
Proof. destruct i, j; try congruence; reflexivity. Qed.

Lemma step2_inv2 pof s l s' : Inv2 s -> lock_ordered_label s l = true -> step2 pof s l = Some s' -> Inv2 s'.
Proof.
  intros [Oc Os] G H. destruct l as [i [t a]]. unfold step2 in H. destruct a as [sh b r|].
  - destruct (pstep pof (comp s i) (t, PPush sh b r)) as [c|] eqn:E; [|discriminate]. injection H as <-.
    destruct (pstep_length _ _ _ _ _ E) as [Lo Lt]. constructor.
    + intros u j. rewrite ord_set_ord, ord_set_comp, comp_set_ord. destruct (Nat.eqb_spec u t) as [->|N].
      * cbn [cnt_path]. rewrite Oc. destruct (Bool.eqb_spec i j) as [->|Nij].
        -- rewrite comp_set_comp_same, Lt. reflexivity.
        -- rewrite comp_other_eq by congruence. reflexivity.
      * rewrite Oc. destruct (Bool.eqb_spec i j) as [->|Nij].
        -- rewrite comp_set_comp_same, (Lo u N). reflexivity.
        -- rewrite comp_other_eq by congruence. reflexivity.
    + intros u. rewrite ord_set_ord, ord_set_comp. destruct (Nat.eqb_spec u t) as [->|N]; [|apply Os].
      destruct i; cbn [ones_first]; [apply Os|]. cbn in G. exact G.
  - destruct (ord s t) as [|j rest] eqn:Eo; [discriminate|]. destruct (Bool.eqb_spec i j) as [->|Nij]; [|discriminate].
    destruct (pstep pof (comp s j) (t, PGo)) as [c|] eqn:E; [|discriminate].
    destruct (pstep_length _ _ _ _ _ E) as [Lo Lt]. pose proof (Oc t) as Oct. pose proof (Os t) as Ost. rewrite Eo in Oct, Ost.
    destruct (length (gets c t) <? length (gets (comp s j) t)) eqn:Lb; injection H as <-.
    + apply Nat.ltb_lt in Lb. constructor.
      * intros u k. rewrite ord_set_ord, ord_set_comp, comp_set_ord. destruct (Nat.eqb_spec u t) as [->|N].
        -- specialize (Oct k). cbn [cnt_path] in Oct. destruct (Bool.eqb_spec j k) as [->|Njk].
           ++ rewrite comp_set_comp_same. lia.
           ++ rewrite comp_other_eq by congruence. lia.
        -- rewrite Oc. destruct (Bool.eqb_spec j k) as [->|Njk].
           ++ rewrite comp_set_comp_same, (Lo u N). reflexivity.
           ++ rewrite comp_other_eq by congruence. reflexivity.
      * intros u. rewrite ord_set_ord, ord_set_comp. destruct (Nat.eqb_spec u t) as [->|N]; [|apply Os].
        eapply ones_first_tail; exact Ost.
    + apply Nat.ltb_ge in Lb. constructor.
      * intros u k. rewrite ord_set_comp. destruct (Nat.eq_dec u t) as [->|N].
        -- rewrite Eo. specialize (Oct k). destruct (Bool.eqb_spec j k) as [->|Njk].
           ++ rewrite comp_set_comp_same. lia.
           ++ rewrite comp_other_eq by congruence. exact Oct.
        -- rewrite Oc. destruct (Bool.eqb_spec j k) as [->|Njk].
           ++ rewrite comp_set_comp_same, (Lo u N). reflexivity.
           ++ rewrite comp_other_eq by congruence. reflexivity.
      * intros u. rewrite ord_set_comp. apply Os.
Qed.

Lemma reachable2_g_facts pof s :
  reachable2_g pof s -> Inv2 s /\ preachable_g pof (comp0 s) /\ preachable_g pof (comp1 s).
Proof.
  induction 1 as [|s l s' R [I [R0 R1]] G H]; [split; [apply inv2_init|split; constructor]|].
  unfold guard2 in G. apply andb_true_iff in G. destruct G as [G1 G2]. split; [eapply step2_inv2; eauto|].
  destruct l as [i [t a]]. destruct (step2_components _ _ _ _ _ _ H) as [Hs Ho].
  destruct i; cbn [comp negb] in Hs, Ho, G2.
  - split; [rewrite Ho; exact R0|eapply prg_step; [exact R1|exact G2|exact Hs]].
  - split; [eapply prg_step; [exact R0|exact G2|exact Hs]|rewrite Ho; exact R1].
Qed.

Lemma stacks_empty_dec ps : (forall t, gets ps t = []) \/ (exists t, gets ps t <> []).
Proof.
  unfold gets. induction (pstk ps) as [|x tl IH].
  - left. intros t. apply Proofs.nth_nil.
  - destruct x as [|f r].
    + destruct IH as [IH|[t IH]]; [left; intros [|t]; [reflexivity|apply IH]|right; exists (S t); exact IH].
    + right. exists 0. discriminate.
Qed.

Lemma step2_go_enabled pof s i t c rest :
  ord s t = i :: rest -> pstep pof (comp s i) (t, PGo) = Some c -> exists s', step2 pof s (i, (t, PGo)) = Some s'.
Proof.
  intros Eo E. unfold step2. rewrite Eo, Bool.eqb_reflx, E.
  destruct (length (gets c t) <? length (gets (comp s i) t)); eexists; reflexivity.
Qed.

(* Two-path deadlock freedom: if every thread respects the lock order (path 0 before path 1) and nobody makes a blocking
   exclusive request while inside shared blocks of the same path only, then whenever some thread has an open request,
   some thread can run its next atomic section -- any number of processes and threads. *)
Theorem two_paths_deadlock_free_lemma pof s :
  reachable2_g pof s -> (exists t, ord s t <> []) -> exists i t s', step2 pof s (i, (t, PGo)) = Some s'.
Proof.
  intros R [t0 N0]. destruct (reachable2_g_facts _ _ R) as [[Oc Os] [R0 R1]].
  assert (Head : forall t i, gets (comp s i) t <> [] -> (i = true \/ forall u, gets (comp1 s) u = []) ->
                 exists rest, ord s t = i :: rest).
  { intros t i Ne Hi. pose proof (Oc t i) as C. pose proof (Os t) as S.
    destruct (ord s t) as [|j rest] eqn:Eo.
    { cbn [cnt_path] in C. destruct (gets (comp s i) t) as [|x y]; [congruence|cbn [length] in C; discriminate C]. }
    destruct (Bool.eqb_spec j i) as [->|Nji]; [eauto|exfalso]. destruct Hi as [->|Hi].
    - (* i = path 1, head = path 0: no path-1 entry may follow *)
      destruct j; [congruence|]. cbn [ones_first] in S. apply negb_true_iff in S. cbn [cnt_path Bool.eqb] in C.
      assert (Z : cnt_path true rest = 0).
      { clear - S. induction rest as [|b tl IH]; [reflexivity|]. cbn in S. destruct b; [discriminate|]. cbn. apply IH. exact S. }
      destruct (gets (comp s true) t); [congruence|]. cbn in C. lia.
    - (* no frame on path 1 at all: the head cannot be path 1 *)
      destruct j, i; try congruence.
      + pose proof (Oc t true) as C1. cbn [comp] in C1. rewrite Hi, Eo in C1. cbn in C1. discriminate C1.
      + apply Ne. cbn [comp]. apply Hi. }
  destruct (stacks_empty_dec (comp1 s)) as [E1|[t1 N1]].
  - (* everybody is on path 0 *)
    assert (Ne0 : gets (comp0 s) t0 <> []).
    { pose proof (Oc t0 false) as C0. pose proof (Oc t0 true) as C1. cbn [comp] in C0, C1. rewrite E1 in C1. cbn in C1.
      destruct (ord s t0) as [|j rest]; [congruence|]. destruct j; cbn in C0, C1; [discriminate C1|].
      intros Z. rewrite Z in C0. discriminate C0. }
    destruct (path_deadlock_free_lemma pof _ R0 (ex_intro _ t0 Ne0)) as [t [c Hc]].
    assert (Nt : gets (comp0 s) t <> []).
    { intros Z. unfold pstep, pstepo in Hc. rewrite Z in Hc. discriminate Hc. }
    destruct (Head t false Nt (or_intror E1)) as [rest Eo]. destruct (step2_go_enabled pof s false t c rest Eo Hc) as [s' Hs]. eauto.
  - destruct (path_deadlock_free_lemma pof _ R1 (ex_intro _ t1 N1)) as [t [c Hc]].
    assert (Nt : gets (comp1 s) t <> []).
    { intros Z. unfold pstep, pstepo in Hc. rewrite Z in Hc. discriminate Hc. }
    destruct (Head t true Nt (or_introl eq_refl)) as [rest Eo]. destruct (step2_go_enabled pof s true t c rest Eo Hc) as [s' Hs]. eauto.
Qed.

(* ================================================================================================
   Quiescence with two paths (no guard): when no thread has an open request on either path, every pool of every process is
   empty on both paths (lock objects dropped, descriptors closed) and no process holds a kernel lock on either file. *)

Definition cnt_ok (s : state2) : Prop := forall t i, cnt_path i (ord s t) = length (gets (comp s i) t).

Lemma step2_cnt_ok pof s l s' : cnt_ok s -> step2 pof s l = Some s' -> cnt_ok s'.
Proof.
  intros Oc H. destruct l as [i [t a]]. unfold step2 in H. destruct a as [sh b r|].
  - destruct (pstep pof (comp s i) (t, PPush sh b r)) as [c|] eqn:E; [|discriminate]. injection H as <-.
    destruct (pstep_length _ _ _ _ _ E) as [Lo Lt].
    intros u j. rewrite ord_set_ord, ord_set_comp, comp_set_ord. destruct (Nat.eqb_spec u t) as [->|N].
    + cbn [cnt_path]. rewrite Oc. destruct (Bool.eqb_spec i j) as [->|Nij].
      * rewrite comp_set_comp_same, Lt. reflexivity.
      * rewrite comp_other_eq by congruence. reflexivity.
    + rewrite Oc. destruct (Bool.eqb_spec i j) as [->|Nij].
      * rewrite comp_set_comp_same, (Lo u N). reflexivity.
      * rewrite comp_other_eq by congruence. reflexivity.
  - destruct (ord s t) as [|j rest] eqn:Eo; [discriminate|]. destruct (Bool.eqb_spec i j) as [->|Nij]; [|discriminate].
    destruct (pstep pof (comp s j) (t, PGo)) as [c|] eqn:E; [|discriminate].
    destruct (pstep_length _ _ _ _ _ E) as [Lo Lt]. pose proof (Oc t) as Oct. rewrite Eo in Oct.
    destruct (length (gets c t) <? length (gets (comp s j) t)) eqn:Lb; injection H as <-.
    + apply Nat.ltb_lt in Lb. intros u k. rewrite ord_set_ord, ord_set_comp, comp_set_ord. destruct (Nat.eqb_spec u t) as [->|N].
      * specialize (Oct k). cbn [cnt_path] in Oct. destruct (Bool.eqb_spec j k) as [->|Njk].
        -- rewrite comp_set_comp_same. lia.
        -- rewrite comp_other_eq by congruence. lia.
      * rewrite Oc. destruct (Bool.eqb_spec j k) as [->|Njk].
        -- rewrite comp_set_comp_same, (Lo u N). reflexivity.
        -- rewrite comp_other_eq by congruence. reflexivity.
    + apply Nat.ltb_ge in Lb. intros u k. rewrite ord_set_comp. destruct (Nat.eq_dec u t) as [->|N].
      * rewrite Eo. specialize (Oct k). destruct (Bool.eqb_spec j k) as [->|Njk].
        -- rewrite comp_set_comp_same. lia.
        -- rewrite comp_other_eq by congruence. exact Oct.
      * rewrite Oc. destruct (Bool.eqb_spec j k) as [->|Njk].
        -- rewrite comp_set_comp_same, (Lo u N). reflexivity.
        -- rewrite comp_other_eq by congruence. reflexivity.
Qed.

Lemma reachable2_cnt_ok pof s : reachable2 pof s -> cnt_ok s.
Proof.
  induction 1 as [|s l s1 R IH H]; [exact (o_cnt _ inv2_init)|eapply step2_cnt_ok; eauto].
Qed.

Theorem two_paths_quiescent_lemma pof s :
  reachable2 pof s -> (forall t, ord s t = []) ->
  forall (i : bool) (p : nat),
    tl_ref (getp (comp s i) p) = 0 /\ fd_ref (getp (comp s i) p) = 0 /\ pl_ref (getp (comp s i) p) = 0 /\
    getk (comp s i) p = KNone.
Proof.
  intros R E i p. pose proof (reachable2_cnt_ok _ _ R) as Oc.
  assert (Z : forall t, gets (comp s i) t = []).
  { intros t. pose proof (Oc t i) as C. rewrite E in C. cbn in C. destruct (gets (comp s i) t); [reflexivity|discriminate C]. }
  destruct (two_paths_project_lemma _ _ R) as [R0 R1].
  destruct i; cbn [comp] in *; [exact (path_quiescent_lemma pof _ R1 Z p)|exact (path_quiescent_lemma pof _ R0 Z p)].
Qed.

(* running a two-path schedule *)
Fixpoint run2 (pof : tid -> nat) (s : state2) (ls : list label2) : option state2 :=
  match ls with
  | [] => Some s
  | l :: tl => match step2 pof s l with Some s' => run2 pof s' tl | None => None end
  end.

Lemma run2_reachable pof s ls s' : reachable2 pof s -> run2 pof s ls = Some s' -> reachable2 pof s'.
Proof.
  revert s. induction ls as [|l tl IH]; intros s R H; cbn in H.
  - injection H as <-. exact R.
  - destruct (step2 pof s l) as [s1|] eqn:S; [|discriminate]. eapply IH; [|exact H]. eapply r2_step; eauto.
Qed.
