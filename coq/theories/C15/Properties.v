(* PV.C15.Properties — the property theorems of C15 and nothing else.  First the thread level
   (ShareableThreadLock, Model.v), then the whole of path_lock with several processes (PathModel.v).
   Every statement quantifies over ALL reachable states of the labelled transition system of Model.v,
   i.e. over every number of threads, every program (any nesting / sequence of requests with any
   (shared, blocking, reentrant) flags) and every interleaving of their atomic sections. *)
From Coq Require Import List Bool Arith PeanoNat.
From PV Require Import C15.Model C15.Proofs C15.PathModel C15.PathProofs C15.PathProgress C15.TwoPaths C15.Upgrade C15.Users.
Import ListNotations.

(* While a thread is inside an exclusive body no other thread holds the lock in any mode: every
   frame of every other thread is uncounted (a request that is still parked, or a waiter). *)
Theorem excl_excludes :
  forall (s : state) (t u : tid),
    reachable s -> In ExBody (stk s t) -> u <> t ->
    forall f, In f (stk s u) -> counted f = false.
Proof. exact excl_excludes_lemma. Qed.

(* ... and the exclusive holder is exactly the owner of the condition's RLock. *)
Theorem excl_owns_rlock :
  forall (s : state) (t : tid), reachable s -> (In ExBody (stk s t) <-> owner s = Some t).
Proof. exact excl_owner_lemma. Qed.

(* `_acquired_by[t]` is exactly the number of bodies t is inside (plus a shared exit in progress). *)
Theorem acquired_by_counts :
  forall (s : state) (t : tid), reachable s -> cnt s t = ncounted (stk s t).
Proof. exact count_lemma. Qed.

(* A shared request is granted immediately whenever no OTHER thread is inside an exclusive body,
   however many threads hold the lock shared (and unless it is a non-reentrant recursive one). *)
Theorem shared_compatible :
  forall (s : state) (t : tid) (b r : bool) (rest : list frame),
    reachable s -> stk s t = ShReq b r :: rest ->
    (forall u, u <> t -> ~ In ExBody (stk s u)) ->
    (r = true \/ cnt s t = 0) ->
    stepo s (t, AGo) = Some (set_cnt (set_stk s t (ShBody :: rest)) t (S (cnt s t)), OEnterSh).
Proof. exact shared_compatible_lemma. Qed.

(* Any number n of threads can be inside a shared body at the same time. *)
Theorem shared_together :
  forall n : nat, exists s, reachable s /\ (forall t, t < n -> stk s t = [ShBody]) /\
                            (forall t, n <= t -> stk s t = []) /\ owner s = None.
Proof. exact shared_together_lemma. Qed.

(* A step of thread t never changes what another thread u holds: u's count and u's counted frames are
   untouched; the only possible change of u's stack is the notified flag of a waiter. *)
Theorem no_spurious_release :
  forall (s : state) (t : tid) (a : action) (s' : state) (u : tid),
    step s (t, a) = Some s' -> u <> t ->
    cnt s' u = cnt s u /\ filter counted (stk s' u) = filter counted (stk s u) /\
    (stk s' u = stk s u \/ stk s' u = notify_stack (stk s u)).
Proof. exact no_spurious_release_lemma. Qed.

(* A non-blocking request can always run (it never blocks), never ends up waiting, and either is
   refused/raises (frame popped) or enters its body. *)
Theorem nonblocking_never_blocks :
  forall (s : state) (t : tid) (r : bool) (rest : list frame),
    (stk s t = ShReq false r :: rest \/ stk s t = ExReq false r :: rest) ->
    exists s' o, stepo s (t, AGo) = Some (s', o) /\ o <> OWait /\
                 (stk s' t = rest \/ exists f, is_body f = true /\ stk s' t = f :: rest).
Proof. exact nonblocking_never_blocks_lemma. Qed.

(* A non-blocking shared request raises the would-block error when another thread is inside an
   exclusive body; nothing but the request's own frame changes. *)
Theorem nonblocking_refuses_sh :
  forall (s : state) (t : tid) (r : bool) (rest : list frame) (u : tid),
    reachable s -> stk s t = ShReq false r :: rest -> u <> t -> In ExBody (stk s u) ->
    stepo s (t, AGo) = Some (set_stk s t rest, ORaise WouldBlock).
Proof. exact nonblocking_refuses_sh_lemma. Qed.

(* A non-blocking exclusive request raises the would-block error when another thread holds the lock
   in any mode; counts and the other threads' stacks are unchanged. *)
Theorem nonblocking_refuses_ex :
  forall (s : state) (t : tid) (r : bool) (rest : list frame) (u : tid),
    reachable s -> stk s t = ExReq false r :: rest -> u <> t -> cnt s u > 0 ->
    exists s', stepo s (t, AGo) = Some (s', ORaise WouldBlock) /\ stk s' t = rest /\
               (forall v, cnt s' v = cnt s v) /\ (forall v, v <> t -> stk s' v = stk s v).
Proof. exact nonblocking_refuses_ex_lemma. Qed.

(* Conversely a would-block error is raised only by a non-blocking request that has a conflicting holder. *)
Theorem refusal_justified :
  forall (s : state) (t : tid) (s' : state),
    reachable s -> stepo s (t, AGo) = Some (s', ORaise WouldBlock) ->
    (exists b r rest, stk s t = ShReq b r :: rest /\ b = false /\ exists u, u <> t /\ In ExBody (stk s u)) \/
    (exists b r rest, stk s t = ExReq b r :: rest /\ b = false /\ exists u, u <> t /\ cnt s u > 0).
Proof. exact refusal_justified_lemma. Qed.

(* A non-reentrant shared request by a thread that already holds the lock can run at once (blocking or
   not) and raises RecursiveDeadlockError; it never hangs. *)
Theorem recursive_nonreentrant_raises_sh :
  forall (s : state) (t : tid) (b : bool) (rest : list frame),
    reachable s -> stk s t = ShReq b false :: rest -> cnt s t > 0 ->
    stepo s (t, AGo) = Some (set_stk s t rest, ORaise Recursive).
Proof. exact recursive_sh_raises_lemma. Qed.

(* A non-reentrant exclusive request by a holder can run at once and raises — RecursiveDeadlockError
   when no other thread holds, the would-block error otherwise — provided it is non-blocking or no
   other thread holds.  (The remaining case, blocking with other holders, is the upgrade pattern:
   it waits first; see Refuted.v.) *)
Theorem recursive_nonreentrant_raises_ex :
  forall (s : state) (t : tid) (b : bool) (rest : list frame),
    reachable s -> stk s t = ExReq b false :: rest -> cnt s t > 0 ->
    (b = false \/ others_hold s t = false) ->
    exists e, stepo s (t, AGo) = Some (release (set_stk s t rest) t, ORaise e) /\
              (e = Recursive <-> others_hold s t = false).
Proof. exact recursive_ex_raises_lemma. Qed.

(* When no thread is inside or entering, all bookkeeping is empty and the RLock is free. *)
Theorem quiescent_empty :
  forall s : state,
    reachable s -> (forall t, stk s t = []) ->
    (forall t, cnt s t = 0) /\ owner s = None /\ acq_empty s = true.
Proof. exact quiescent_empty_lemma. Qed.

(* ---- progress *)

(* No lost wake-up, in EVERY reachable state (no guard: since the repair of C15-LOST-WAKEUP-UPGRADE a shared holder
   notifies whenever its own count reaches zero): a thread inside wait() whose conflicting holders have all released
   has been notified ... *)
Theorem no_lost_wakeup :
  forall (s : state) (t : tid) (r n : bool) (rest : list frame),
    reachable s -> stk s t = ExWait r n :: rest -> others_hold s t = false -> n = true.
Proof. exact no_lost_wakeup_lemma. Qed.

(* ... and a notified waiter runs as soon as the RLock is free. *)
Theorem notified_waiter_enabled :
  forall (s : state) (t : tid) (r : bool) (rest : list frame),
    stk s t = ExWait r true :: rest -> owner s = None -> exists s', step s (t, AGo) = Some s'.
Proof. exact notified_waiter_enabled_lemma. Qed.

(* No deadlock, under the guard that no thread makes a blocking exclusive request while it holds the lock only shared
   (g_label; reachable_g = reachable by guarded labels only; the guard is still needed because two simultaneous
   upgraders wait for each other, see Refuted.v): in every guarded-reachable state in which some thread is inside or
   entering the lock, some thread can run its next atomic section (pushes, i.e. program decisions, do not count). *)
Theorem deadlock_free :
  forall s : state,
    reachable_g s -> (exists t, stk s t <> []) -> exists t s', step s (t, AGo) = Some s'.
Proof. exact deadlock_free_lemma. Qed.

(* ================================================================================================
   The whole of path_lock on one path (PathModel.v): the thread level, the three reference-counted pools,
   ShareableProcessLock and the kernel's fcntl table, for ANY number of processes and threads, any
   assignment `pof` of threads to processes, any programs and any interleaving. *)

(* Inside path_lock every process's ShareableThreadLock is in a reachable state of the thread-level model:
   all the theorems above about `reachable` states hold for it at every moment. *)
Theorem path_thread_level_embedded :
  forall (pof : tid -> nat) (ps : pstate) (p : nat), preachable pof ps -> reachable (tl (getp ps p)).
Proof. intros pof ps p H. exact (preachable_tl pof ps H p). Qed.

(* Reader-writer exclusion through path_lock, across threads AND processes: while a thread is inside the body
   of an exclusive `with path_lock(...)`, no other thread of any process is inside the body of any
   `with path_lock(...)` on the path. *)
Theorem path_excl_excludes :
  forall (pof : tid -> nat) (ps : pstate) (t u : tid) (f g : pframe),
    preachable pof ps -> In f (gets ps t) -> at_body f = true -> f_sh f = false ->
    u <> t -> In g (gets ps u) -> at_body g = true -> False.
Proof. exact path_excl_excludes_lemma. Qed.

(* While a thread is inside a body its process holds the fcntl lock in a sufficient mode and the single
   descriptor of the path is open: no close / unlock / downgrade caused by another thread (of the same or of
   another process) finishing with the file has dropped it.  (This is the statement at every reachable state,
   hence after every step of every other thread.) *)
Theorem path_body_holds_kernel_lock :
  forall (pof : tid -> nat) (ps : pstate) (t : tid) (f : pframe),
    preachable pof ps -> In f (gets ps t) -> at_body f = true ->
    (f_sh f = false -> getk ps (pof t) = KEx) /\ getk ps (pof t) <> KNone /\ fd_ref (getp ps (pof t)) > 0.
Proof. exact path_body_kernel_lemma. Qed.

(* The kernel never holds incompatible locks: an exclusive lock of one process excludes any lock of another. *)
Theorem kernel_table_compatible :
  forall (pof : tid -> nat) (ps : pstate) (p q : nat),
    preachable pof ps -> p <> q -> getk ps p = KEx -> getk ps q = KNone.
Proof. intros pof ps p q H. exact (preachable_kernel pof ps H p q). Qed.

(* A step of a thread of one process changes neither the pools / lock objects nor the kernel lock of another
   process, and no step changes the frames of another thread. *)
Theorem path_no_spurious_release :
  forall (pof : tid -> nat) (ps : pstate) (t : tid) (a : paction) (ps' : pstate),
    pstep pof ps (t, a) = Some ps' ->
    (forall p, pof t <> p -> getp ps' p = getp ps p /\ getk ps' p = getk ps p) /\
    (forall u, u <> t -> gets ps' u = gets ps u).
Proof.
  intros pof ps t a ps' H. split.
  - intros p N. exact (pstep_other_process pof ps t a ps' p H N).
  - intros u N. exact (pstep_other_thread pof ps t a ps' u H N).
Qed.

(* The pool reference counts are exactly the numbers of requests inside the respective scope; in particular the
   descriptor is closed, and the lock objects are dropped, only when no request of the process uses them. *)
Theorem pool_refcounts_exact :
  forall (pof : tid -> nat) (ps : pstate) (p : nat),
    preachable pof ps ->
    tl_ref (getp ps p) = nsum pof p tl_scope ps /\ fd_ref (getp ps p) = nsum pof p fd_scope ps /\
    pl_ref (getp ps p) = nsum pof p pl_scope ps.
Proof. intros pof ps p H. exact (pi_refs pof ps (preachable_pinv pof ps H) p). Qed.

(* When the last user has left: every pool is empty (so the lock objects are gone and the descriptor is closed)
   and no process holds a lock in the kernel table. *)
Theorem path_quiescent_empty :
  forall (pof : tid -> nat) (ps : pstate),
    preachable pof ps -> (forall t, gets ps t = []) ->
    forall p, tl_ref (getp ps p) = 0 /\ fd_ref (getp ps p) = 0 /\ pl_ref (getp ps p) = 0 /\ getk ps p = KNone.
Proof. exact path_quiescent_lemma. Qed.

(* No lost wake-up through path_lock, in every reachable state: a thread sitting in wait() of the path's
   ShareableThreadLock of a process while no other thread holds that lock has been notified.  (Deadlock freedom of the
   whole path_lock with several processes is NOT proved: it is checked on every executed schedule.) *)
Theorem path_no_lost_wakeup :
  forall (pof : tid -> nat) (ps : pstate) (p : nat) (t : tid) (r n : bool) (rest : list frame),
    preachable pof ps -> stk (tl (getp ps p)) t = ExWait r n :: rest ->
    others_hold (tl (getp ps p)) t = false -> n = true.
Proof. exact path_no_lost_wakeup_lemma. Qed.

(* Narrower guard (Upgrade.v): deadlock freedom of the thread level with AT MOST ONE UPGRADER AT A TIME.  g1_label
   allows a blocking exclusive request by a thread that holds the lock only shared as long as no other thread currently
   has such a request pending; every g_label-guarded schedule is g1-guarded (reachable_g_implies_g1).  So, since 01dac8d,
   a single upgrader always makes progress; only two simultaneous upgraders can hang (Refuted.mutual_upgrade_deadlock_refuted). *)
Theorem deadlock_free_single_upgrader :
  forall s : state,
    reachable_g1 s -> (exists t, stk s t <> []) -> exists t s', step s (t, AGo) = Some s'.
Proof. exact deadlock_free_g1_lemma. Qed.

Theorem reachable_g_implies_g1 : forall s : state, reachable_g s -> reachable_g1 s.
Proof. exact reachable_g_g1. Qed.

(* ... and in every such state at most one thread is an upgrader. *)
Theorem at_most_one_upgrader :
  forall (s : state) (t u : tid), reachable_g1 s -> upgraderb s t = true -> upgraderb s u = true -> t = u.
Proof. intros s t u R. exact (reachable_g1_single s R t u). Qed.

(* ================================================================================================
   Progress (PathProgress.v). *)

(* Deadlock freedom of the WHOLE path_lock -- thread level, pools, ShareableProcessLock mutex, fcntl table -- for any
   number of processes and threads and any assignment pof, under the guard that no thread makes a blocking exclusive
   request while it is inside shared blocks only (preachable_g; the guard is needed because of the still open
   C15-MUTUAL-UPGRADE-DEADLOCK): whenever some thread is inside or entering path_lock, some thread can run its next
   atomic section.  (Lock-ordering between different paths is outside: the model is one path.) *)
Theorem path_deadlock_free :
  forall (pof : tid -> nat) (ps : pstate),
    preachable_g pof ps -> (exists t, gets ps t <> []) -> exists t ps', pstep pof ps (t, PGo) = Some ps'.
Proof. exact path_deadlock_free_lemma. Qed.

(* Granted once the conflicting holders are gone, thread level, every reachable state, no guard.
   A blocking shared request / a shared exit can run as soon as no OTHER thread is inside an exclusive body ... *)
Theorem granted_once_conflicts_gone_sh :
  forall (s : state) (t : tid) (f : frame) (rest : list frame),
    reachable s -> stk s t = f :: rest -> (f = ShExit \/ exists r, f = ShReq true r) ->
    (forall u, u <> t -> ~ In ExBody (stk s u)) -> exists s', step s (t, AGo) = Some s'.
Proof. exact granted_sh_lemma. Qed.

(* ... and a blocking exclusive request -- parked at the acquire or inside wait() -- can run, and does not go (back) to
   waiting, as soon as no other thread holds the lock in any mode. *)
Theorem granted_once_conflicts_gone_ex :
  forall (s : state) (t : tid) (f : frame) (rest : list frame),
    reachable s -> stk s t = f :: rest -> ((exists r, f = ExReq true r) \/ exists r n, f = ExWait r n) ->
    others_hold s t = false -> exists s' o, stepo s (t, AGo) = Some (s', o) /\ o <> OWait.
Proof. exact granted_ex_lemma. Qed.

(* Path level, every reachable state, no guard.  A kernel lock request (parked in fcntl.lockf) is granted as soon as no
   thread of ANOTHER process is inside, or still leaving, a conflicting block: for a shared request no exclusive block
   and no pending downgrade, for an exclusive request no block at all. *)
Theorem path_granted_once_conflicts_gone :
  forall (pof : tid -> nat) (ps : pstate) (t : tid) (f : pframe) (rest : list pframe),
    preachable pof ps -> gets ps t = f :: rest -> f_pc f = PLockf ->
    (forall u g, pof u <> pof t -> In g (gets ps u) -> holds_pc (f_pc g) = true ->
       f_sh f = true /\ f_sh g = true /\ f_pc g <> PXDown) ->
    exists ps', pstep pof ps (t, PGo) = Some ps'.
Proof. exact path_granted_lockf_lemma. Qed.

(* The mutex of ShareableProcessLock is waited for only while a thread of the same process is parked inside fcntl.lockf. *)
Theorem path_mutex_granted :
  forall (pof : tid -> nat) (ps : pstate) (t : tid) (f : pframe) (rest : list pframe),
    preachable pof ps -> gets ps t = f :: rest -> (f_pc f = PMutex \/ f_pc f = PXMutex) ->
    (forall u g rest', pof u = pof t -> gets ps u = g :: rest' -> holds_mutex_pc (f_pc g) = false) ->
    exists ps', pstep pof ps (t, PGo) = Some ps'.
Proof. exact path_granted_mutex_lemma. Qed.

(* Inside the thread-level part of path_lock a request moves exactly when the thread-level request does (so the two
   thread-level theorems above apply to path_lock through path_thread_level_embedded). *)
Theorem path_thread_granted :
  forall (pof : tid -> nat) (ps : pstate) (t : tid) (f : pframe) (rest : list pframe) (s' : state),
    preachable pof ps -> gets ps t = f :: rest -> (f_pc f = PThread \/ exists e, f_pc f = PXThread e) ->
    step (tl (getp ps (pof t))) (t, AGo) = Some s' -> exists ps', pstep pof ps (t, PGo) = Some ps'.
Proof. exact path_granted_thread_lemma. Qed.

(* ================================================================================================
   Two paths per thread (TwoPaths.v): one PathModel state per path, requests nested LIFO across the paths. *)

(* A step on one path leaves everything that belongs to the other path untouched. *)
Theorem two_paths_independent :
  forall (pof : tid -> nat) (s : state2) (i : bool) (t : tid) (a : paction) (s' : state2),
    step2 pof s (i, (t, a)) = Some s' -> comp s' (negb i) = comp s (negb i).
Proof. exact two_paths_independent_lemma. Qed.

(* Each component of a reachable two-path state is a reachable one-path state: every safety theorem above
   (exclusion, kernel lock held inside bodies, exact refcounts, quiescence) holds for each of the two paths. *)
Theorem two_paths_project :
  forall (pof : tid -> nat) (s : state2), reachable2 pof s -> preachable pof (comp0 s) /\ preachable pof (comp1 s).
Proof. exact two_paths_project_lemma. Qed.

(* ... in particular reader-writer exclusion on each path, for threads that may hold both paths at once. *)
Theorem two_paths_excl_excludes :
  forall (pof : tid -> nat) (s : state2) (i : bool) (t u : tid) (f g : pframe),
    reachable2 pof s -> In f (gets (comp s i) t) -> at_body f = true -> f_sh f = false ->
    u <> t -> In g (gets (comp s i) u) -> at_body g = true -> False.
Proof. exact two_paths_excl_lemma. Qed.

(* Two-path deadlock freedom, any number of processes and threads: in every state reachable by steps that respect the
   caller's lock-ordering duty (no request on path 0 while a request on path 1 is open: lock_ordered_label) and the
   no-upgrade guard on each path (pg_label), whenever some thread has an open request some thread can run its next
   atomic section. *)
Theorem two_paths_deadlock_free :
  forall (pof : tid -> nat) (s : state2),
    reachable2_g pof s -> (exists t, ord s t <> []) -> exists i t s', step2 pof s (i, (t, PGo)) = Some s'.
Proof. exact two_paths_deadlock_free_lemma. Qed.

(* Quiescence with two paths, any number of processes and threads, every interleaving, NO guard: when no thread has an
   open request on either path, every pool of every process is empty on both paths (the lock objects are dropped, the
   descriptors closed) and no process holds a kernel lock on either file. *)
Theorem two_paths_quiescent_empty :
  forall (pof : tid -> nat) (s : state2),
    reachable2 pof s -> (forall t, ord s t = []) ->
    forall (i : bool) (p : nat),
      tl_ref (getp (comp s i) p) = 0 /\ fd_ref (getp (comp s i) p) = 0 /\ pl_ref (getp (comp s i) p) = 0 /\
      getk (comp s i) p = KNone.
Proof. exact two_paths_quiescent_lemma. Qed.

(* ================================================================================================
   The users of path_lock (Users.v).  What the regenerated obligation `writers_take_exclusive :
   writers_ok sites = true` (compiled on every run against the site list read from the source) means:
   every lock site whose body writes takes the lock exclusively. *)
Theorem writers_ok_meaning :
  forall (l : list site), writers_ok l = true ->
    forall s, In s l -> site_writes s = true -> site_mode s = Exclusive.
Proof.
  intros l H s Hs W. unfold writers_ok in H. rewrite forallb_forall in H. specialize (H s Hs).
  rewrite W in H. destruct (site_mode s); [discriminate H|reflexivity].
Qed.
