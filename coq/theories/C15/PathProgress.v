(* PV.C15.PathProgress — progress of the whole path_lock (PathModel.v), any number of processes and threads:
   more kernel invariants, the shape of a thread that cannot move, deadlock freedom under the no-upgrade guard,
   and "granted once the conflicting holders are gone". *)
From Coq Require Import List Bool Arith PeanoNat Lia.
From PV Require Import C15.Model C15.Proofs C15.PathModel C15.PathProofs.
Import ListNotations.
Local Open Scope nat_scope.

Ltac simp_proc :=
  cbn [mutex sh_by ex_by fd_ref pl_ref tl_ref p_tl p_tlref p_fdref p_plref p_mutex p_sh p_ex p_fresh_pl] in *.

Section Progress.
Variable pof : tid -> nat.

(* ---- two more facts about the kernel table *)
Record KInv2 (ps : pstate) : Prop := {
  (* a thread parked in the downgrade still has the exclusive kernel lock *)
  k_down_ex : forall t f rest, gets ps t = f :: rest -> f_pc f = PXDown ->
                getk ps (pof t) = KEx /\ cnonempty (sh_by (getp ps (pof t))) = true;
  (* a process holds a kernel lock only while one of its threads is counted in the ShareableProcessLock *)
  k_held : forall p, getk ps p <> KNone -> cnonempty (sh_by (getp ps p)) || cnonempty (ex_by (getp ps p)) = true
}.

Lemma kinv2_init : KInv2 pinit.
Proof.
  constructor.
  - intros t f rest. rewrite gets_pinit. discriminate.
  - intros p. rewrite getk_pinit. congruence.
Qed.

Lemma top_counted ps t f rest :
  counters_ok pof ps -> gets ps t = f :: rest -> counted_pc (f_pc f) = true ->
  cget (if f_sh f then sh_by (getp ps (pof t)) else ex_by (getp ps (pof t))) t >= 1.
Proof.
  intros C E Hc. destruct (C (pof t) t) as [C1 C2]. rewrite Nat.eqb_refl, E, cntf_cons, Hc in C1, C2.
  destruct (f_sh f); cbn in C1, C2; lia.
Qed.

Lemma no_pl_counters ps p :
  refs_ok pof ps -> counters_ok pof ps -> pl_ref (getp ps p) = 0 ->
  cnonempty (sh_by (getp ps p)) = false /\ cnonempty (ex_by (getp ps p)) = false.
Proof.
  intros R C Z. split; apply cnonempty_false; intros u; destruct (C p u) as [C1 C2].
  - rewrite C1. destruct (Nat.eqb_spec (pof u) p) as [E|]; [apply (no_pl_frames pof ps p u true R Z E)|reflexivity].
  - rewrite C2. destruct (Nat.eqb_spec (pof u) p) as [E|]; [apply (no_pl_frames pof ps p u false R Z E)|reflexivity].
Qed.

Lemma pstep_kinv2 ps l ps' :
  pstep pof ps l = Some ps' -> refs_ok pof ps -> (forall t, pwf (gets ps t)) -> counters_ok pof ps -> MInv pof ps -> KInv pof ps ->
  KInv2 ps -> KInv2 ps'.
Proof.
  intros H R W C MI KI [A1 A2]. destruct l as [t a]. pose proof (W t) as Wt.
  pose proof (m_held _ _ MI) as M2. pose proof (k_ex _ _ KI) as K1.
  unfold pstep, pstepo in H. cbv zeta in H. break_pstep H.
  all: cbn in H; injection H as <-.
  all: try match goal with E0 : gets _ _ = ?p :: _, E1 : f_pc ?p = ?X |- _ =>
         first [ assert (Mt : mutex (getp ps (pof t)) = Some t) by (eapply M2; [exact E0|rewrite E1; reflexivity])
               | idtac ] end.
  all: constructor; [intros u g rest' Eg Hg | intros q Hq].
  all: autorewrite with pst in *.
  all: try (destruct (Nat.eqb_spec u t) as [->|Nu]).
  all: try (destruct (Nat.eqb_spec (pof u) (pof t)) as [Eu|Npu]).
  all: try (destruct (Nat.eqb_spec q (pof t)) as [Eq|Nq]; [subst q|]).
  all: rewrite ?Nat.eqb_refl in *.
  all: simp_proc.
  all: try (unfold count_in, count_out in *; destruct (f_sh _) eqn:S; simp_proc).
  all: try (eapply A1; eassumption).
  all: try (rewrite <- ?Eu; eapply A1; eassumption).
  all: try (apply A2; exact Hq).
  all: try reflexivity.
  all: try congruence.
  (* k_down_ex, another thread of the same process parked in the downgrade: the stepping thread cannot have touched the kernel lock *)
  all: try (exfalso; assert (Mu : mutex (getp ps (pof u)) = Some u) by (eapply M2; [exact Eg|rewrite Hg; reflexivity]);
            rewrite Eu in Mu; congruence).
  all: try (exfalso; apply Nat.eqb_eq in E5; simp_proc;
            assert (X : fd_ref (getp ps (pof u)) > 0) by (eapply in_fd_scope_ref; [exact R|exact Eg|rewrite Hg; reflexivity]);
            rewrite Eu in X; lia).
  (* k_down_ex, the stepping thread *)
  all: try (rewrite Eg in Wt; cbn in Wt; apply andb_true_iff in Wt; destruct Wt as [Wg _]; unfold at_body in Wg;
            rewrite Hg in Wg; discriminate Wg).
  all: try (injection Eg; intros; subst; cbn [f_pc with_pc f_sh] in *; try discriminate; try congruence).
  all: rewrite ?cnonempty_incr, ?orb_true_r; try reflexivity.
  all: try (apply negb_false_iff in E3; exact E3).
  all: try (exfalso; apply Nat.eqb_eq in E2; destruct (no_pl_counters ps (pof t) R C E2) as [Z1 Z2];
            pose proof (A2 _ Hq) as Z; rewrite Z1, Z2 in Z; discriminate Z).
  - exfalso. apply Nat.eqb_eq in E2.
    assert (X : pl_ref (getp ps (pof u)) > 0) by (eapply in_pl_scope_ref; [exact R|exact Eg|rewrite Hg; reflexivity]).
    rewrite Eu in X. lia.
  - cbn in E4. rewrite andb_false_r in E4. discriminate E4.
  - split.
    + apply K1. apply cnonempty_true. exists t. pose proof (top_counted ps t p rest' C E0) as X. rewrite E1, S in X.
      specialize (X eq_refl). lia.
    + cbn in E4. rewrite andb_true_r in E4. apply negb_true_iff in E4. rewrite E4, orb_false_r in E3.
      apply negb_false_iff in E3. exact E3.
  - destruct (A1 _ _ _ E0 E1) as [_ X]. rewrite X. reflexivity.
  - exfalso. apply Nat.eqb_eq in E5. simp_proc.
    destruct (last_fd_ref_counters pof ps t p l e R C W E0 E1 E5) as [Da _].
    destruct (A1 _ _ _ Eg Hg) as [_ X]. rewrite Eu in X. congruence.
  - exfalso. apply Nat.eqb_eq in E5. simp_proc.
    destruct (last_fd_ref_counters pof ps t p l e R C W E0 E1 E5) as [Da _].
    destruct (A1 _ _ _ Eg Hg) as [_ X]. rewrite Eu in X. congruence.
Qed.

Lemma preachable_kinv2 ps : preachable pof ps -> KInv2 ps.
Proof.
  induction 1 as [|ps l ps' Rp IH H]; [apply kinv2_init|].
  destruct (preachable_pinv2 pof _ Rp) as [B C M K]. eapply pstep_kinv2; eauto. apply (pi_refs _ _ B). apply (pi_wf _ _ B).
Qed.

(* ---- the thread-level lock of a process only ever contains frames of that process's threads *)
Definition others_empty (ps : pstate) : Prop := forall p w, pof w <> p -> stk (tl (getp ps p)) w = [].

Lemma pstep_others_empty ps l ps' : pstep pof ps l = Some ps' -> others_empty ps -> others_empty ps'.
Proof.
  intros H A q w N. destruct l as [t a]. pose proof (A q w N) as Aw.
  unfold pstep, pstepo in H. cbv zeta in H. break_pstep H.
  all: cbn in H; injection H as <-.
  all: autorewrite with pst.
  all: try (destruct (Nat.eqb_spec q (pof t)) as [->|Nq]; [|exact Aw]).
  all: try exact Aw.
  all: cbn [tl p_tl p_tlref p_fdref p_plref p_mutex p_sh p_ex p_fresh_pl].
  all: try (unfold count_in, count_out; destruct (f_sh _); cbn [tl p_tl p_tlref p_fdref p_plref p_mutex p_sh p_ex p_fresh_pl]; exact Aw).
  all: assert (Nw : w <> t) by (intros ->; apply N; reflexivity).
  all: match goal with H : stepo _ (_, _) = Some (?s, _), Nw0 : ?w0 <> _ |- stk ?s ?w0 = [] =>
         destruct (stepo_other _ _ _ _ _ w0 H Nw0) as [X|X]; rewrite X; cbn [tl p_tl p_tlref p_fdref];
         rewrite ?stk_init, ?Aw; reflexivity end.
Qed.

Lemma preachable_others_empty ps : preachable pof ps -> others_empty ps.
Proof.
  induction 1 as [|ps l ps' _ IH H].
  - intros p w _. rewrite getp_pinit. apply stk_init.
  - eapply pstep_others_empty; eauto.
Qed.

(* a frame that is counted in the ShareableProcessLock has its body frame in the thread-level lock *)
Lemma link_counted_in pl ml g : pwf pl -> link pl ml -> In g pl -> counted_pc (f_pc g) = true -> In (body_of g) ml.
Proof.
  destruct pl as [|f rest]; [contradiction|]. intros W [mtop [T ->]] [->|Hg] Cg.
  - unfold top_ok in T. destruct (f_pc g); try discriminate Cg; subst mtop; left; reflexivity.
  - apply in_or_app. right. apply in_map. exact Hg.
Qed.

Lemma counted_body g : counted (body_of g) = true.
Proof. unfold body_of. destruct (f_sh g); reflexivity. Qed.

Lemma in_counted_pos l x : In x l -> counted x = true -> ncounted l > 0.
Proof.
  induction l as [|y tl IH]; [contradiction|]. intros [->|H] C; rewrite ncounted_cons.
  - rewrite C. lia.
  - specialize (IH H C). lia.
Qed.

(* ---- what a thread that cannot move looks like *)
Inductive blocked_at (ps : pstate) (t : tid) (f : pframe) : Prop :=
| b_mutex : f_pc f = PMutex -> f_b f = true -> (exists x, mutex (getp ps (pof t)) = Some x) -> blocked_at ps t f
| b_xmutex : f_pc f = PXMutex -> (exists x, mutex (getp ps (pof t)) = Some x) -> blocked_at ps t f
| b_lockf : f_pc f = PLockf -> f_b f = true ->
            kernel_grants ps (pof t) (if f_sh f then KSh else KEx) = false -> blocked_at ps t f
| b_down : f_pc f = PXDown -> kernel_grants ps (pof t) KSh = false -> blocked_at ps t f
| b_thread : (f_pc f = PThread \/ exists e, f_pc f = PXThread e) -> step (tl (getp ps (pof t))) (t, AGo) = None ->
             blocked_at ps t f.

Lemma stepo_entry_obs s t s' o f rest :
  Inv s -> stk s t = f :: rest -> is_entry f = true -> stepo s (t, AGo) = Some (s', o) ->
  o = OEnterSh \/ o = OEnterEx \/ o = OWait \/ exists e, o = ORaise e.
Proof.
  intros I E F H. pose proof (stepo_go_inv _ _ _ _ I H) as V. destruct o; eauto.
  - contradiction.
  - destruct V as [r [E1 _]]. rewrite E in E1. injection E1 as -> _. discriminate F.
  - destruct V as [r [E1 _]]. rewrite E in E1. injection E1 as -> _. discriminate F.
  - destruct V as [r [E1 _]]. rewrite E in E1. injection E1 as -> _. discriminate F.
Qed.

Lemma penabled_cases ps t f rest :
  preachable pof ps -> gets ps t = f :: rest -> penabled pof ps t = false -> blocked_at ps t f.
Proof.
  intros R E H. destruct (preachable_pinv pof _ R) as [I1 I2 I3 I4 _]. pose proof (I4 t) as L. rewrite E in L.
  destruct L as [mtop [T Em]]. pose proof (reachable_inv _ (I1 (pof t))) as It. pose proof (I2 t) as Wt. rewrite E in Wt.
  unfold penabled, pstep, pstepo in H. rewrite E in H. cbv zeta in H. unfold top_ok in T.
  destruct (f_pc f) eqn:Epc.
  - (* PTPool: the thread-level push is always possible *)
    exfalso. subst mtop. cbn [app] in Em.
    assert (X : forall s0, (stk s0 t = [] \/ stk s0 t = map body_of rest) ->
                exists r, stepo s0 (t, APush (req_of f)) = Some r).
    { intros s0 Hs. unfold stepo. assert (Q : is_req (req_of f) = true) by (unfold req_of; destruct (f_sh f); reflexivity).
      rewrite Q. assert (P : can_push (stk s0 t) = true).
      { destruct Hs as [->| ->]; [reflexivity|]. destruct rest as [|g r']; [reflexivity|]. cbn. unfold body_of. destruct (f_sh g); reflexivity. }
      rewrite P. eexists. reflexivity. }
    destruct (tl_ref (getp ps (pof t)) =? 0).
    + destruct (X (tl (p_tlref (p_tl (getp ps (pof t)) init) (S (tl_ref (p_tl (getp ps (pof t)) init)))))) as [[s1 o1] Y];
        [left; apply stk_init|]. rewrite Y in H. discriminate H.
    + destruct (X (tl (p_tlref (getp ps (pof t)) (S (tl_ref (getp ps (pof t))))))) as [[s1 o1] Y];
        [right; exact Em|]. rewrite Y in H. discriminate H.
  - (* PThread *)
    apply b_thread; [left; exact Epc|]. unfold step.
    destruct (stepo (tl (getp ps (pof t))) (t, AGo)) as [[s1 o1]|] eqn:Y; [exfalso|reflexivity].
    assert (F : exists m, stk (tl (getp ps (pof t))) t = m :: map body_of rest /\ is_entry m = true).
    { rewrite Em. destruct (f_sh f).
      - subst mtop. eexists. split; reflexivity.
      - destruct T as [->|[n ->]]; eexists; split; reflexivity. }
    destruct F as [m [Fm Fe]].
    destruct (stepo_entry_obs _ _ _ _ _ _ It Fm Fe Y) as [->|[->|[->|[e ->]]]]; discriminate H.
  - discriminate H.
  - discriminate H.
  - (* PMutex *)
    destruct (mutex (getp ps (pof t))) as [x|] eqn:M.
    + destruct (f_b f) eqn:B; [|discriminate H]. apply b_mutex; eauto.
    + exfalso. repeat match goal with H : context[if ?c then _ else _] |- _ => lazymatch type of c with bool => destruct c end end; discriminate H.
  - (* PLockf *)
    destruct (kernel_grants ps (pof t) (if f_sh f then KSh else KEx)) eqn:K; [discriminate H|].
    destruct (f_b f) eqn:B; [|discriminate H]. apply b_lockf; auto.
  - discriminate H.
  - (* PXMutex *)
    destruct (mutex (getp ps (pof t))) as [x|] eqn:M; [apply b_xmutex; eauto|].
    exfalso. repeat match goal with H : context[if ?c then _ else _] |- _ => lazymatch type of c with bool => destruct c end end; discriminate H.
  - (* PXDown *)
    destruct (kernel_grants ps (pof t) KSh) eqn:K; [discriminate H|]. apply b_down; auto.
  - discriminate H.
  - (* PXFdPool: the thread-level exit step is always possible *)
    exfalso. subst mtop. cbn [app] in Em. cbn [tl p_fdref] in H.
    assert (Y : exists s1, stepo (tl (getp ps (pof t))) (t, AGo) = Some (s1, if f_sh f then OLeave else OExitEx)).
    { unfold stepo. rewrite Em. unfold body_of. destruct (f_sh f); eexists; reflexivity. }
    destruct Y as [s1 Y]. rewrite Y in H. destruct (f_sh f); repeat match goal with H : context[if ?c then _ else _] |- _ => lazymatch type of c with bool => destruct c end end; discriminate H.
  - (* PXThread *)
    apply b_thread; [right; eauto|]. unfold step.
    destruct (stepo (tl (getp ps (pof t))) (t, AGo)) as [[s1 o1]|] eqn:Y; [exfalso|reflexivity].
    destruct T as [-> _]. cbn [app] in Em. unfold stepo in Y. rewrite Em in Y.
    destruct (free_for (tl (getp ps (pof t))) t); [|discriminate Y]. cbv zeta in Y.
    destruct (cnt (tl (getp ps (pof t))) t - 1 =? 0); injection Y as <- <-; discriminate H.
  - discriminate H.
Qed.

(* ---- a downgrade never waits *)
Lemma pxdown_granted ps t f rest :
  preachable pof ps -> gets ps t = f :: rest -> f_pc f = PXDown -> kernel_grants ps (pof t) KSh = true.
Proof.
  intros R E Epc. destruct (k_down_ex _ (preachable_kinv2 _ R) _ _ _ E Epc) as [K _].
  apply kernel_grants_spec. intros q Nq. rewrite (preachable_kernel pof _ R (pof t) q); [reflexivity|congruence|exact K].
Qed.

(* counted in the ShareableProcessLock => counted in the thread-level lock *)
Lemma counted_thread_level ps v g :
  preachable pof ps -> In g (gets ps v) -> counted_pc (f_pc g) = true ->
  In (body_of g) (stk (tl (getp ps (pof v))) v) /\ cnt (tl (getp ps (pof v))) v > 0.
Proof.
  intros R Hg Cg. destruct (preachable_pinv pof _ R) as [I1 I2 _ I4 _].
  pose proof (link_counted_in _ _ _ (I2 v) (I4 v) Hg Cg) as X. split; [exact X|].
  rewrite (i_cnt _ (reachable_inv _ (I1 (pof v)))). eapply in_counted_pos; [exact X|apply counted_body].
Qed.

Lemma cntf_pos_in sh l : cntf sh l > 0 -> exists g, In g l /\ f_sh g = sh /\ counted_pc (f_pc g) = true.
Proof.
  induction l as [|g tl IH]; [cbn; lia|]. rewrite cntf_cons. destruct (Bool.eqb (f_sh g) sh && counted_pc (f_pc g)) eqn:B.
  - intros _. apply andb_true_iff in B. destruct B as [B1 B2]. apply Bool.eqb_prop in B1. exists g. cbn. auto.
  - intros H. assert (P : cntf sh tl > 0) by lia. destruct (IH P) as [x [H1 H2]]. exists x. cbn. auto.
Qed.

Lemma counter_frame ps p (sh : bool) :
  preachable pof ps -> cnonempty (if sh then sh_by (getp ps p) else ex_by (getp ps p)) = true ->
  exists v g, pof v = p /\ In g (gets ps v) /\ f_sh g = sh /\ counted_pc (f_pc g) = true.
Proof.
  intros R H. apply cnonempty_true in H. destruct H as [v Hv]. destruct (preachable_pinv2 pof _ R) as [_ C _ _].
  destruct (C p v) as [C1 C2]. destruct (Nat.eqb_spec (pof v) p) as [E|N].
  - destruct sh; [rewrite C1 in Hv|rewrite C2 in Hv]; destruct (cntf_pos_in _ _ Hv) as [g [G1 [G2 G3]]]; exists v, g; auto.
  - destruct sh; [rewrite C1 in Hv|rewrite C2 in Hv]; lia.
Qed.

(* under the guard a thread that is kept waiting in lockf belongs to a process that holds no kernel lock *)
Lemma lockf_blocked_kernel_none ps t f rest :
  preachable_g pof ps -> gets ps t = f :: rest -> f_pc f = PLockf -> f_b f = true ->
  kernel_grants ps (pof t) (if f_sh f then KSh else KEx) = false -> getk ps (pof t) = KNone.
Proof.
  intros Rg E Epc B Kg. pose proof (preachable_g_preachable _ _ Rg) as R.
  destruct (preachable_pinv2 pof _ R) as [Bs C M K]. pose proof (preachable_kinv2 _ R) as K2.
  assert (Hfalse : getk ps (pof t) <> KNone -> False).
  { intros Hn. pose proof (k_held _ K2 _ Hn) as Hc. destruct (f_sh f) eqn:S.
    - destruct (d_lockf _ _ K _ _ _ E Epc S) as [D1 D2]. rewrite D1, D2 in Hc. discriminate Hc.
    - (* exclusive request: every counted frame of the process belongs to t itself, below an exclusive frame of t *)
      assert (X : In ExBody (stk (tl (getp ps (pof t))) t)).
      { pose proof (pi_link _ _ Bs t) as LL. rewrite E in LL. destruct LL as [mtop [T Em]]. unfold top_ok in T.
        rewrite Epc in T. subst mtop. rewrite Em. left. unfold body_of. rewrite S. reflexivity. }
      assert (Own : forall v g, pof v = pof t -> In g (gets ps v) -> counted_pc (f_pc g) = true -> v = t).
      { intros v g Ev Hg Cg. destruct (Nat.eq_dec v t) as [|Nv]; [assumption|exfalso].
        destruct (counted_thread_level _ _ _ R Hg Cg) as [Y _]. rewrite Ev in Y.
        pose proof (excl_excludes_lemma _ t v (pi_tl _ _ Bs (pof t)) X Nv _ Y) as Z. rewrite counted_body in Z. discriminate Z. }
      assert (Ex : cnonempty (ex_by (getp ps (pof t))) = true).
      { destruct (preachable_g_tl _ _ Rg) as [Gs _]. pose proof (Gs t) as Gt. rewrite E in Gt. cbn [gstack] in Gt.
        destruct Gt as [Gt _]. specialize (Gt S B).
        apply orb_true_iff in Hc. destruct Hc as [Hc|Hc]; [|exact Hc].
        destruct (counter_frame ps (pof t) true R Hc) as [v [g [Ev [Hg [Sg Cg]]]]].
        pose proof (Own v g Ev Hg Cg) as Evt. subst v. rewrite E in Hg. destruct Hg as [Hg|Hg]; [subst g; rewrite Epc in Cg; discriminate Cg|].
        destruct Gt as [Gt|Gt]; [subst rest; contradiction|].
        unfold p_holds_ex in Gt. apply existsb_exists in Gt. destruct Gt as [h [Hh Sh]]. apply negb_true_iff in Sh.
        apply cnonempty_true. exists t. destruct (C (pof t) t) as [_ C2]. rewrite C2, Nat.eqb_refl, E, cntf_cons.
        assert (cntf false rest >= 1); [|lia].
        pose proof (pi_wf _ _ Bs t) as Wt. rewrite E in Wt. cbn [pwf] in Wt. rewrite forallb_forall in Wt.
        rewrite <- Sh. apply cntf_in; [exact Hh|apply Wt; exact Hh]. }
      pose proof (k_ex _ _ K _ Ex) as Kx.
      assert (G : kernel_grants ps (pof t) KEx = true).
      { apply kernel_grants_spec. intros q Nq. rewrite (preachable_kernel pof _ R (pof t) q); [reflexivity|congruence|exact Kx]. }
      congruence. }
  destruct (getk ps (pof t)) eqn:Ek; [reflexivity|exfalso; apply Hfalse; discriminate|exfalso; apply Hfalse; discriminate].
Qed.

(* ---- deadlock freedom of the whole path_lock *)
Definition pstuck (ps : pstate) : bool := forallb (fun t => negb (penabled pof ps t)) (seq 0 (length (pstk ps))).

Lemma pstuck_spec ps : pstuck ps = true -> forall t, gets ps t <> [] -> penabled pof ps t = false.
Proof.
  unfold pstuck. rewrite forallb_forall. intros H t Nt. destruct (Nat.lt_ge_cases t (length (pstk ps))) as [L|L].
  - apply negb_true_iff. apply H. apply in_seq. lia.
  - exfalso. apply Nt. unfold gets. apply nth_overflow. exact L.
Qed.

Lemma not_pstuck ps : pstuck ps = false -> exists t ps', pstep pof ps (t, PGo) = Some ps'.
Proof.
  unfold pstuck. intros H. assert (X : exists t, penabled pof ps t = true).
  { induction (seq 0 (length (pstk ps))) as [|t tl IH]; [discriminate|]. cbn in H. apply andb_false_iff in H. destruct H as [H|H].
    - exists t. now apply negb_false_iff.
    - auto. }
  destruct X as [t X]. unfold penabled in X. destruct (pstep pof ps (t, PGo)) as [ps'|] eqn:E; [|discriminate]. eauto.
Qed.

Lemma path_deadlock_free_lemma ps :
  preachable_g pof ps -> (exists t, gets ps t <> []) -> exists t ps', pstep pof ps (t, PGo) = Some ps'.
Proof.
  intros Rg [t0 Nt0]. pose proof (preachable_g_preachable _ _ Rg) as R.
  destruct (pstuck ps) eqn:St; [exfalso|apply not_pstuck; exact St].
  pose proof (pstuck_spec _ St) as Bl.
  destruct (preachable_pinv2 pof _ R) as [Bs C M K]. pose proof (preachable_kinv2 _ R) as K2.
  destruct (preachable_g_tl _ _ Rg) as [Gs Gt].
  assert (Blk : forall t f rest, gets ps t = f :: rest -> blocked_at ps t f).
  { intros t f rest E. apply (penabled_cases ps t f rest R E). apply Bl. rewrite E. discriminate. }
  (* 1. nobody is parked in the downgrade *)
  assert (NoDown : forall t f rest, gets ps t = f :: rest -> f_pc f <> PXDown).
  { intros t f rest E Epc. pose proof (pxdown_granted _ _ _ _ R E Epc) as G.
    destruct (Blk _ _ _ E) as [X|X|X|X G'|[X|[e X]]]; congruence. }
  (* 2. a thread parked in lockf: its process holds no kernel lock *)
  assert (LockfNone : forall t f rest, gets ps t = f :: rest -> f_pc f = PLockf -> getk ps (pof t) = KNone).
  { intros t f rest E Epc. destruct (Blk _ _ _ E) as [X|X|X B G|X|[X|[e X]]]; try congruence.
    eapply lockf_blocked_kernel_none; eauto. }
  (* 3. a process that holds a kernel lock has a free mutex *)
  assert (FreeMutex : forall q, getk ps q <> KNone -> mutex (getp ps q) = None).
  { intros q Hq. destruct (mutex (getp ps q)) as [x|] eqn:Mx; [exfalso|reflexivity].
    destruct (m_owner _ _ M _ _ Mx) as [Ex [f [rest [E Hm]]]]. destruct (f_pc f) eqn:Epc; try discriminate Hm.
    - apply Hq. rewrite <- Ex. eapply LockfNone; eauto.
    - eapply NoDown; eauto. }
  (* 4. no process holds a kernel lock *)
  assert (NoKernel : forall q, getk ps q = KNone).
  { intros q. destruct (getk ps q) eqn:Ek; [reflexivity|exfalso|exfalso].
    all: assert (Hq : getk ps q <> KNone) by congruence; clear Ek.
    all: pose proof (k_held _ K2 _ Hq) as Hc; apply orb_true_iff in Hc.
    all: assert (V : exists v g, pof v = q /\ In g (gets ps v) /\ counted_pc (f_pc g) = true)
           by (destruct Hc as [Hc|Hc]; [destruct (counter_frame ps q true R Hc) as [v [g [A1 [A2 [_ A3]]]]]
                                        |destruct (counter_frame ps q false R Hc) as [v [g [A1 [A2 [_ A3]]]]]]; eauto).
    all: destruct V as [v [g [Ev [Hg Cg]]]]; subst q.
    all: destruct (gets ps v) as [|f rest] eqn:E; [contradiction|].
    all: destruct (counted_thread_level ps v g R) as [_ Cv]; [rewrite E; exact Hg|exact Cg|].
    all: pose proof (reachable_inv _ (pi_tl _ _ Bs (pof v))) as Iv.
    all: pose proof (holder_free _ _ Iv Cv) as Fv.
    all: destruct (Blk _ _ _ E) as [X B [x Mx]|X [x Mx]|X B G|X G|X Sn].
    all: try (rewrite (FreeMutex _ Hq) in Mx; discriminate Mx).
    all: try (apply Hq; eapply LockfNone; eauto; fail).
    all: try (eapply NoDown; eauto; fail).
    all: (* blocked inside the thread-level lock although it holds it *)
      pose proof (pi_link _ _ Bs v) as L; rewrite E in L; destruct L as [mtop [T Em]]; unfold top_ok in T;
      unfold step, stepo in Sn; destruct X as [X|[e X]]; rewrite X in T.
    all: try (destruct T as [-> _]; cbn [app] in Em; rewrite Em, Fv in Sn; cbv zeta in Sn;
              destruct (cnt (tl (getp ps (pof v))) v - 1 =? 0); discriminate Sn).
    all: destruct (f_sh f); [subst mtop; cbn [app] in Em; rewrite Em, Fv in Sn;
                             destruct (negb (f_r f) && (0 <? cnt (tl (getp ps (pof v))) v)); discriminate Sn|].
    all: destruct T as [->|[n ->]]; cbn [app] in Em; rewrite Em in Sn; [rewrite Fv in Sn; discriminate Sn|].
    all: destruct (reachable_g_invs _ (Gt (pof v))) as [_ Gv]; pose proof (g_wait _ Gv _ _ _ _ Em) as Z; lia. }
  (* 5. hence nobody is kept in lockf, every mutex is free, and every thread that is somewhere is blocked inside the
        thread-level lock of its process: contradiction with the thread-level deadlock freedom *)
  assert (Grants : forall p m, kernel_grants ps p m = true).
  { intros p m. apply kernel_grants_spec. intros q _. rewrite NoKernel. destruct m; reflexivity. }
  assert (AllThread : forall t f rest, gets ps t = f :: rest ->
            (f_pc f = PThread \/ exists e, f_pc f = PXThread e) /\ step (tl (getp ps (pof t))) (t, AGo) = None).
  { intros t f rest E. destruct (Blk _ _ _ E) as [X B [x Mx]|X [x Mx]|X B G|X G|X Sn]; auto.
    - exfalso. destruct (m_owner _ _ M _ _ Mx) as [Ex [f' [rest' [E' Hm]]]]. destruct (Blk _ _ _ E') as [Y|Y|Y B' G|Y G|[Y|[e Y]]];
        rewrite Y in Hm; try discriminate Hm; rewrite Grants in G; discriminate G.
    - exfalso. destruct (m_owner _ _ M _ _ Mx) as [Ex [f' [rest' [E' Hm]]]]. destruct (Blk _ _ _ E') as [Y|Y|Y B' G|Y G|[Y|[e Y]]];
        rewrite Y in Hm; try discriminate Hm; rewrite Grants in G; discriminate G.
    - rewrite Grants in G. discriminate G.
    - rewrite Grants in G. discriminate G. }
  destruct (gets ps t0) as [|f0 rest0] eqn:E0; [congruence|]. destruct (AllThread _ _ _ E0) as [Pc0 _].
  set (p := pof t0).
  assert (Ne : stk (tl (getp ps p)) t0 <> []).
  { pose proof (pi_link _ _ Bs t0) as L. rewrite E0 in L. destruct L as [mtop [T Em]]. unfold top_ok in T. unfold p. rewrite Em.
    destruct Pc0 as [X|[e X]]; rewrite X in T.
    - destruct (f_sh f0); [subst mtop; discriminate|destruct T as [->|[n ->]]; discriminate].
    - destruct T as [-> _]. discriminate. }
  destruct (deadlock_free_lemma _ (Gt p) (ex_intro _ t0 Ne)) as [w [s' Sw]].
  assert (Nw : stk (tl (getp ps p)) w <> []) by (intros Z; unfold step, stepo in Sw; rewrite Z in Sw; discriminate Sw).
  assert (Pw : pof w = p).
  { destruct (Nat.eq_dec (pof w) p) as [|N]; [assumption|]. exfalso. apply Nw. apply (preachable_others_empty _ R p w N). }
  destruct (gets ps w) as [|fw restw] eqn:Ew.
  - apply Nw. pose proof (pi_link _ _ Bs w) as L. rewrite Ew, Pw in L. exact L.
  - destruct (AllThread _ _ _ Ew) as [_ Sn]. rewrite Pw in Sn. congruence.
Qed.

End Progress.

(* ================================================================================================
   "Granted once the conflicting holders are gone", thread level (no guard). *)

Lemma waiter_no_ex s : reachable s -> forall t r n rest, stk s t = ExWait r n :: rest -> has_ex rest = false.
Proof.
  induction 1 as [|s l s' R IH H]; [intros t r n rest; rewrite stk_init; discriminate|].
  intros t r n rest E. destruct l as [u a]. pose proof (reachable_inv _ R) as I.
  destruct (Nat.eq_dec t u) as [->|N].
  - pose proof (i_ex _ I u) as Ix. pose proof (IH u) as IHu.
    unfold step, stepo, ex_check in H. break_step H.
    all: cbn in H; injection H as <-.
    all: autorewrite with st in E.
    all: try discriminate E.
    all: try match goal with E0 : stk _ _ = _ :: _ |- _ => rewrite E0 in Ix, IHu end.
    all: pose proof (i_wf _ I u) as W; try match goal with E0 : stk _ _ = _ :: _ |- _ => rewrite E0 in W; cbn [wf_stack] in W end.
    all: try (rewrite E in W; cbn in W; discriminate W).
    all: try (rewrite notify_bodies in E by exact W; rewrite E in W; cbn in W; discriminate W).
    all: try (injection E; intros; subst; eapply IHu; reflexivity).
    all: try (injection E; intros; subst).
    all: try (destruct (has_ex rest) eqn:Hx; [|reflexivity]; exfalso;
              match goal with Ho : others_hold _ _ = true |- _ => apply others_hold_spec in Ho; destruct Ho as [v [Hv Hc]] end;
              rewrite has_ex_cons in Ix; cbn [is_exbody orb] in Ix; rewrite (Ix v Hx Hv) in Hc; lia).
    all: try (destruct (stk s u) as [|[] ?]; cbn in *; discriminate).
  - destruct (step_other _ _ _ _ H) as [_ [Hs|[Hs _]]]; rewrite (Hs t N) in E.
    + eapply IH; eauto.
    + apply notify_stack_inv in E. destruct E as [[E _]|[r' [n' [E _]]]]; eapply IH; eauto.
Qed.

Lemma granted_sh_lemma s t f rest :
  reachable s -> stk s t = f :: rest -> (f = ShExit \/ exists r, f = ShReq true r) ->
  (forall u, u <> t -> ~ In ExBody (stk s u)) -> exists s', step s (t, AGo) = Some s'.
Proof.
  intros R E F H. pose proof (reachable_inv _ R) as I. pose proof (free_for_no_other_ex _ _ I H) as FF.
  unfold step, stepo. rewrite E. destruct F as [->|[r ->]]; rewrite FF.
  - cbv zeta. destruct (cnt s t - 1 =? 0); eexists; reflexivity.
  - destruct (negb r && (0 <? cnt s t)); eexists; reflexivity.
Qed.

Lemma granted_ex_lemma s t f rest :
  reachable s -> stk s t = f :: rest -> ((exists r, f = ExReq true r) \/ exists r n, f = ExWait r n) ->
  others_hold s t = false -> exists s' o, stepo s (t, AGo) = Some (s', o) /\ o <> OWait.
Proof.
  intros R E F O. pose proof (reachable_inv _ R) as I.
  assert (Own : owner s = None \/ owner s = Some t).
  { destruct (owner s) as [o|] eqn:Eo; [|auto]. right. destruct (Nat.eq_dec o t) as [->|N]; [reflexivity|exfalso].
    apply (i_own _ I) in Eo. pose proof (has_ex_counted _ Eo) as C. rewrite <- (i_cnt _ I) in C.
    rewrite others_hold_false in O. rewrite (O o N) in C. lia. }
  unfold stepo, ex_check. rewrite E. destruct F as [[r ->]|[r [n ->]]].
  - assert (FF : free_for s t = true) by (apply free_for_spec; exact Own). rewrite FF, O.
    destruct ((0 <? cnt s t) && negb r); eexists; eexists; (split; [reflexivity|discriminate]).
  - pose proof (no_lost_wakeup_lemma _ _ _ _ _ R E O) as ->.
    assert (On : owner s = None).
    { destruct Own as [X|X]; [exact X|exfalso]. apply (i_own _ I) in X. rewrite E, has_ex_cons in X. cbn in X.
      rewrite (waiter_no_ex _ R _ _ _ _ E) in X. discriminate X. }
    rewrite On, O. destruct ((0 <? cnt s t) && negb r); eexists; eexists; (split; [reflexivity|discriminate]).
Qed.

Section Progress2.
Variable pof : tid -> nat.

(* an exclusive kernel lock is held only while an exclusive holder is counted or a downgrade is pending *)
Definition kex_ok (ps : pstate) : Prop :=
  forall q, getk ps q = KEx ->
    cnonempty (ex_by (getp ps q)) = true \/ exists u f rest, pof u = q /\ gets ps u = f :: rest /\ f_pc f = PXDown.

Lemma pstep_kex ps l ps' :
  pstep pof ps l = Some ps' -> refs_ok pof ps -> counters_ok pof ps -> MInv pof ps -> KInv pof ps -> KInv2 pof ps ->
  kex_ok ps -> kex_ok ps'.
Proof.
  intros H R C MI KI K2 A q Hq. destruct l as [t a].
  destruct (Nat.eq_dec q (pof t)) as [->|Nq].
  2: { destruct (pstep_other_process pof _ _ _ _ q H) as [Ep Ek]; [congruence|]. rewrite Ek in Hq. rewrite Ep.
       destruct (A q Hq) as [X|[u [f [rest [Eu [Eg Hg]]]]]]; [left; exact X|right].
       exists u, f, rest. split; [exact Eu|]. split; [|exact Hg]. rewrite (pstep_other_thread pof _ _ _ _ u H); [exact Eg|congruence]. }
  pose proof (m_held _ _ MI) as M2. pose proof (A (pof t)) as At.
  (* a pending downgrade of ANOTHER thread of the process survives the step *)
  assert (Keep : forall u f rest, u <> t -> gets ps u = f :: rest -> f_pc f = PXDown -> gets ps' u = f :: rest).
  { intros u f rest Nu Eg _. rewrite (pstep_other_thread pof _ _ _ _ u H Nu). exact Eg. }
  unfold pstep, pstepo in H. cbv zeta in H. break_pstep H.
  all: cbn in H; injection H as <-.
  all: autorewrite with pst in *.
  all: rewrite ?Nat.eqb_refl in *.
  all: simp_proc.
  all: try (unfold count_in, count_out in *; destruct (f_sh _) eqn:S; simp_proc).
  all: try discriminate Hq.
  all: rewrite ?cnonempty_incr; try (left; reflexivity).
  (* a fresh ShareableProcessLock: the process held no kernel lock *)
  all: try (exfalso; apply Nat.eqb_eq in E2; destruct (no_pl_counters pof ps (pof t) R C E2) as [Z1 Z2];
            assert (Hn : getk ps (pof t) <> KNone) by congruence;
            pose proof (k_held _ _ K2 _ Hn) as Z; rewrite Z1, Z2 in Z; discriminate Z).
  (* the last exclusive holder leaves: downgrade pending / exclusive holders remain *)
  all: try (right; exists t; eexists; eexists; split; [reflexivity|]; split; [autorewrite with pst; reflexivity|reflexivity]).
  all: try (left; cbn in E4; rewrite andb_true_r in E4; apply negb_false_iff in E4; exact E4).
  (* kernel lock and exclusive Counter untouched *)
  all: try (destruct (At Hq) as [X|[u [f0 [rest0 [Eu [Eg Hg]]]]]]; [left; exact X|right];
            destruct (Nat.eq_dec u t) as [->|Nu];
            [exfalso; first [ rewrite E0 in Eg; injection Eg; intros; subst; rewrite E1 in Hg; discriminate Hg
                            | rewrite Eg in E0; cbn in E0; rewrite Hg in E0; discriminate E0 ]
            |exists u, f0, rest0; split; [exact Eu|split; [exact (Keep _ _ _ Nu Eg Hg)|exact Hg]]]).
Qed.

Lemma preachable_kex ps : preachable pof ps -> kex_ok ps.
Proof.
  induction 1 as [|ps l ps' Rp IH H].
  - intros q. rewrite getk_pinit. discriminate.
  - destruct (preachable_pinv2 pof _ Rp) as [B C M K]. eapply pstep_kex; eauto. apply (pi_refs _ _ B). apply preachable_kinv2. exact Rp.
Qed.

Definition holds_pc (pc : ppc) : bool := match pc with PBody | PXMutex | PXDown => true | _ => false end.

(* a kernel lock request is granted as soon as no thread of ANOTHER process is inside (or still leaving) a conflicting
   `with path_lock` block: for a shared request no exclusive block and no pending downgrade, for an exclusive request
   no block at all *)
Lemma path_granted_lockf_lemma ps t f rest :
  preachable pof ps -> gets ps t = f :: rest -> f_pc f = PLockf ->
  (forall u g, pof u <> pof t -> In g (gets ps u) -> holds_pc (f_pc g) = true ->
     f_sh f = true /\ f_sh g = true /\ f_pc g <> PXDown) ->
  exists ps', pstep pof ps (t, PGo) = Some ps'.
Proof.
  intros R E Epc Hc.
  assert (G : kernel_grants ps (pof t) (if f_sh f then KSh else KEx) = true).
  { apply kernel_grants_spec. intros q Nq. destruct (getk ps q) eqn:Ek; [destruct (f_sh f); reflexivity| |].
    - destruct (f_sh f) eqn:S; [reflexivity|exfalso].
      assert (Hn : getk ps q <> KNone) by congruence. pose proof (k_held _ _ (preachable_kinv2 _ _ R) _ Hn) as Z.
      apply orb_true_iff in Z.
      assert (V : exists v g, pof v = q /\ In g (gets ps v) /\ counted_pc (f_pc g) = true)
        by (destruct Z as [Z|Z]; [destruct (counter_frame pof ps q true R Z) as [v [g [A1 [A2 [_ A3]]]]]
                                 |destruct (counter_frame pof ps q false R Z) as [v [g [A1 [A2 [_ A3]]]]]]; eauto).
      destruct V as [v [g [Ev [Hg Cg]]]]. destruct (Hc v g) as [X _]; [congruence|exact Hg| |congruence].
      destruct (f_pc g); try discriminate Cg; reflexivity.
    - exfalso. destruct (preachable_kex _ R q Ek) as [Z|[u [g [rest' [Eu [Eg Hg]]]]]].
      + destruct (counter_frame pof ps q false R Z) as [v [g [Ev [Hg [Sg Cg]]]]].
        destruct (Hc v g) as [_ [X _]]; [congruence|exact Hg| |congruence]. destruct (f_pc g); try discriminate Cg; reflexivity.
      + destruct (Hc u g) as [_ [_ X]]; [congruence|rewrite Eg; left; reflexivity|rewrite Hg; reflexivity|]. apply X. exact Hg. }
  unfold pstep, pstepo. rewrite E. cbv zeta. rewrite Epc, G. eexists. reflexivity.
Qed.

(* the two mutex acquisitions wait only for a thread of the same process that is parked inside fcntl.lockf *)
Lemma path_granted_mutex_lemma ps t f rest :
  preachable pof ps -> gets ps t = f :: rest -> (f_pc f = PMutex \/ f_pc f = PXMutex) ->
  (forall u g rest', pof u = pof t -> gets ps u = g :: rest' -> holds_mutex_pc (f_pc g) = false) ->
  exists ps', pstep pof ps (t, PGo) = Some ps'.
Proof.
  intros R E Epc Hc. destruct (penabled pof ps t) eqn:P.
  - unfold penabled in P. destruct (pstep pof ps (t, PGo)) as [ps'|]; [eauto|discriminate].
  - exfalso. destruct (preachable_pinv2 pof _ R) as [_ _ M _].
    destruct (penabled_cases pof ps t f rest R E P) as [X B [x Mx]|X [x Mx]|X|X|[X|[e X]]]; try (destruct Epc; congruence).
    all: destruct (m_owner _ _ M _ _ Mx) as [Ex [g [rest' [Eg Hm]]]]; rewrite (Hc x g rest' Ex Eg) in Hm; discriminate Hm.
Qed.

(* inside the thread-level lock the path-level request moves exactly when the thread-level one does *)
Lemma path_granted_thread_lemma ps t f rest s' :
  preachable pof ps -> gets ps t = f :: rest -> (f_pc f = PThread \/ exists e, f_pc f = PXThread e) ->
  step (tl (getp ps (pof t))) (t, AGo) = Some s' -> exists ps', pstep pof ps (t, PGo) = Some ps'.
Proof.
  intros R E Epc Hs. destruct (penabled pof ps t) eqn:P.
  - unfold penabled in P. destruct (pstep pof ps (t, PGo)) as [ps'|]; [eauto|discriminate].
  - exfalso. destruct (penabled_cases pof ps t f rest R E P) as [X|X|X|X|X Sn]; try (destruct Epc as [Y|[e Y]]; congruence).
Qed.

End Progress2.
