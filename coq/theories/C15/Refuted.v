(* PV.C15.Refuted — counter-models: what goes wrong without the guard `g_label` (the upgrade pattern:
   a BLOCKING EXCLUSIVE request by a thread that holds the lock only SHARED).  Both witnesses are
   replayed on the real ShareableThreadLock by the check (known findings C15-LOST-WAKEUP-UPGRADE and
   C15-MUTUAL-UPGRADE-DEADLOCK). *)
From Coq Require Import List Bool Arith PeanoNat Lia.
From PV Require Import C15.Model C15.Proofs C15.PathModel C15.PathProofs.
Import ListNotations.
Local Open Scope nat_scope.

Definition sh_rr : frame := ShReq true true.
Definition ex_rr : frame := ExReq true true.

(* T0 shared (reentrant); T1 shared; T0 requests exclusive -> waits for T1; T1 leaves and exits:
   `if not self._acquired_by: notify_all()` is skipped because T0's own entry is still there. *)
Definition lost_wakeup_schedule : list label :=
  [(0, APush sh_rr); (0, AGo); (1, APush sh_rr); (1, AGo); (0, APush ex_rr); (0, AGo); (1, AGo); (1, AGo)].
Definition lost_wakeup_state : state := mkState [[ExWait true false; ShBody]; []] [1; 0] None.

(* T0 and T1 hold shared; both request exclusive (blocking): each waits for the other. *)
Definition mutual_upgrade_schedule : list label :=
  [(0, APush sh_rr); (0, AGo); (1, APush sh_rr); (1, AGo); (0, APush ex_rr); (0, AGo); (1, APush ex_rr); (1, AGo)].
Definition mutual_upgrade_state : state :=
  mkState [[ExWait true false; ShBody]; [ExWait true false; ShBody]] [1; 1] None.

Lemma enabled_false_step s u : enabled s u = false -> step s (u, AGo) = None.
Proof. unfold enabled. destruct (step s (u, AGo)); [discriminate|reflexivity]. Qed.

(* A waiter that itself holds the lock is never notified, whatever any thread does afterwards: the
   general form of the defect (for every state, not only the witness). *)
Theorem waiting_holder_never_notified :
  forall (s : state) (t : tid) (r : bool) (rest : list frame) (ls : list label) (s' : state),
    stk s t = ExWait r false :: rest -> cnt s t > 0 -> run s ls = Some s' ->
    stk s' t = ExWait r false :: rest /\ cnt s' t > 0.
Proof. exact waiting_holder_forever. Qed.

(* The reproduced defect: a reachable state in which thread 0 sits in wait(), every conflicting holder
   has released (others_hold = false), it has not been notified, no thread can run, and it stays so
   in every continuation.  The schedule violates the guard (g_run = false). *)
Theorem lost_wakeup_refuted :
  exists (ls : list label) (s : state) (t : tid) (r : bool) (rest : list frame),
    run init ls = Some s /\ reachable s /\ g_run init ls = false /\
    stk s t = ExWait r false :: rest /\ others_hold s t = false /\
    (forall u, step s (u, AGo) = None) /\
    (forall ls' s', run s ls' = Some s' -> stk s' t = ExWait r false :: rest).
Proof.
  exists lost_wakeup_schedule, lost_wakeup_state, 0, true, [ShBody].
  assert (R : run init lost_wakeup_schedule = Some lost_wakeup_state) by (vm_compute; reflexivity).
  split; [exact R|]. split; [eapply run_reachable; [constructor|exact R]|].
  split; [vm_compute; reflexivity|]. split; [reflexivity|]. split; [vm_compute; reflexivity|]. split.
  - intros u. apply enabled_false_step. apply stuck_spec. vm_compute. reflexivity.
  - intros ls' s' H. refine (proj1 (waiting_holder_forever lost_wakeup_state 0 true [ShBody] ls' s' eq_refl _ H)). cbn. lia.
Qed.

Theorem no_lost_wakeup_unguarded_refuted :
  ~ (forall (s : state) (t : tid) (r n : bool) (rest : list frame),
       reachable s -> stk s t = ExWait r n :: rest -> others_hold s t = false -> n = true).
Proof.
  intros H. destruct lost_wakeup_refuted as [ls [s [t [r [rest [_ [R [_ [E [O _]]]]]]]]]].
  specialize (H s t r false rest R E O). discriminate H.
Qed.

Theorem deadlock_free_unguarded_refuted :
  ~ (forall s : state, reachable s -> (exists t, stk s t <> []) -> exists t s', step s (t, AGo) = Some s').
Proof.
  intros H. destruct lost_wakeup_refuted as [ls [s [t [r [rest [_ [R [_ [E [_ [St _]]]]]]]]]]].
  destruct (H s R) as [u [s' X]]; [exists t; rewrite E; discriminate|]. rewrite St in X. discriminate X.
Qed.

(* Two simultaneous upgraders: both wait, each one's conflicting holder is the other one, nobody can run. *)
Theorem mutual_upgrade_deadlock_refuted :
  exists (ls : list label) (s : state),
    run init ls = Some s /\ reachable s /\ g_run init ls = false /\
    stk s 0 = [ExWait true false; ShBody] /\ stk s 1 = [ExWait true false; ShBody] /\
    others_hold s 0 = true /\ others_hold s 1 = true /\
    (forall u, step s (u, AGo) = None) /\
    (forall ls' s', run s ls' = Some s' ->
       stk s' 0 = [ExWait true false; ShBody] /\ stk s' 1 = [ExWait true false; ShBody]).
Proof.
  exists mutual_upgrade_schedule, mutual_upgrade_state.
  assert (R : run init mutual_upgrade_schedule = Some mutual_upgrade_state) by (vm_compute; reflexivity).
  split; [exact R|]. split; [eapply run_reachable; [constructor|exact R]|].
  split; [vm_compute; reflexivity|]. do 4 (split; [reflexivity|]). split.
  - intros u. apply enabled_false_step. apply stuck_spec. vm_compute. reflexivity.
  - intros ls' s' H. split.
    + refine (proj1 (waiting_holder_forever mutual_upgrade_state 0 true [ShBody] ls' s' eq_refl _ H)). cbn. lia.
    + refine (proj1 (waiting_holder_forever mutual_upgrade_state 1 true [ShBody] ls' s' eq_refl _ H)). cbn. lia.
Qed.

(* The same lost wake-up through the whole of path_lock (two threads of one process): thread 0 is inside
   `with path_lock(shared, reentrant)`, requests `path_lock(exclusive, blocking)` and waits at the thread level;
   thread 1 leaves its shared body and runs all its exit steps; afterwards thread 0 sits in wait(), not notified,
   no other thread holds the lock, and no thread can run. *)
Fixpoint pgos (t : tid) (n : nat) : list plabel := match n with 0 => [] | S k => (t, PGo) :: pgos t k end.
Definition one_process : tid -> nat := fun _ => 0.
Definition path_lost_wakeup_schedule : list plabel :=
  (0, PPush true true true) :: pgos 0 6 ++ (1, PPush true true true) :: pgos 1 5 ++
  (0, PPush false true true) :: pgos 0 2 ++ pgos 1 6.

Theorem path_lost_wakeup_refuted :
  exists ps,
    prun one_process pinit path_lost_wakeup_schedule = Some ps /\ preachable one_process ps /\
    pg_run one_process pinit path_lost_wakeup_schedule = false /\
    stk (tl (getp ps 0)) 0 = [ExWait true false; ShBody] /\ others_hold (tl (getp ps 0)) 0 = false /\
    gets ps 1 = [] /\ penabled one_process ps 0 = false /\ penabled one_process ps 1 = false.
Proof.
  eexists. split; [vm_compute; reflexivity|]. split.
  - eapply (prun_preachable one_process pinit path_lost_wakeup_schedule); [apply pr_init|vm_compute; reflexivity].
  - repeat split; vm_compute; reflexivity.
Qed.
