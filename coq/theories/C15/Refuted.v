(* PV.C15.Refuted — counter-models and regression examples.
   C15-LOST-WAKEUP-UPGRADE is FIXED in /repo (a shared holder now notifies whenever its own count reaches zero): the
   former witness is kept as a regression Example of the repaired behaviour.  C15-MUTUAL-UPGRADE-DEADLOCK is still
   open: what goes wrong without the guard `g_label` (two simultaneous upgraders). *)
From Coq Require Import List Bool Arith PeanoNat Lia.
From PV Require Import C15.Model C15.Proofs C15.PathModel C15.PathProofs.
Import ListNotations.
Local Open Scope nat_scope.

Definition sh_rr : frame := ShReq true true.
Definition ex_rr : frame := ExReq true true.

(* T0 shared (reentrant); T1 shared; T0 requests exclusive -> waits for T1; T1 leaves and exits.
   Formerly `if not self._acquired_by: notify_all()` was skipped because T0's own entry was still there. *)
Definition lost_wakeup_schedule : list label :=
  [(0, APush sh_rr); (0, AGo); (1, APush sh_rr); (1, AGo); (0, APush ex_rr); (0, AGo); (1, AGo); (1, AGo)].
Definition lost_wakeup_state : state := mkState [[ExWait true true; ShBody]; []] [1; 0] None.

(* T0 and T1 hold shared; both request exclusive (blocking): each waits for the other. *)
Definition mutual_upgrade_schedule : list label :=
  [(0, APush sh_rr); (0, AGo); (1, APush sh_rr); (1, AGo); (0, APush ex_rr); (0, AGo); (1, APush ex_rr); (1, AGo)].
Definition mutual_upgrade_state : state :=
  mkState [[ExWait true false; ShBody]; [ExWait true false; ShBody]] [1; 1] None.

Lemma enabled_false_step s u : enabled s u = false -> step s (u, AGo) = None.
Proof. unfold enabled. destruct (step s (u, AGo)); [discriminate|reflexivity]. Qed.

(* Regression of the repaired behaviour (formerly lost_wakeup_refuted): after the same schedule T0 HAS been notified,
   it can run, and running everybody to the end leaves the lock quiescent. *)
Example lost_wakeup_fixed :
  run init lost_wakeup_schedule = Some lost_wakeup_state /\
  enabled lost_wakeup_state 0 = true /\
  run lost_wakeup_state [(0, AGo); (0, AGo); (0, AGo); (0, AGo)] = Some (mkState [[]; []] [0; 0] None).
Proof. repeat split; vm_compute; reflexivity. Qed.

(* Still refuted without the guard: two simultaneous upgraders; both wait, each one's conflicting holder is the other
   one, nobody can run. *)
Theorem mutual_upgrade_deadlock_refuted :
  exists (ls : list label) (s : state),
    run init ls = Some s /\ reachable s /\ g_run init ls = false /\
    stk s 0 = [ExWait true false; ShBody] /\ stk s 1 = [ExWait true false; ShBody] /\
    others_hold s 0 = true /\ others_hold s 1 = true /\
    (forall u, step s (u, AGo) = None).
Proof.
  exists mutual_upgrade_schedule, mutual_upgrade_state.
  assert (R : run init mutual_upgrade_schedule = Some mutual_upgrade_state) by (vm_compute; reflexivity).
  split; [exact R|]. split; [eapply run_reachable; [constructor|exact R]|].
  split; [vm_compute; reflexivity|]. do 4 (split; [reflexivity|]).
  intros u. apply enabled_false_step. apply stuck_spec. vm_compute. reflexivity.
Qed.

Theorem deadlock_free_unguarded_refuted :
  ~ (forall s : state, reachable s -> (exists t, stk s t <> []) -> exists t s', step s (t, AGo) = Some s').
Proof.
  intros H. destruct mutual_upgrade_deadlock_refuted as [ls [s [_ [R [_ [E [_ [_ [_ St]]]]]]]]].
  destruct (H s R) as [u [s' X]]; [exists 0; rewrite E; discriminate|]. rewrite St in X. discriminate X.
Qed.

(* The repaired behaviour through the whole of path_lock (formerly path_lost_wakeup_refuted): after the same schedule
   thread 0 has been notified and is enabled. *)
Fixpoint pgos (t : tid) (n : nat) : list plabel := match n with 0 => [] | S k => (t, PGo) :: pgos t k end.
Definition one_process : tid -> nat := fun _ => 0.
Definition path_lost_wakeup_schedule : list plabel :=
  (0, PPush true true true) :: pgos 0 6 ++ (1, PPush true true true) :: pgos 1 5 ++
  (0, PPush false true true) :: pgos 0 2 ++ pgos 1 6.

Example path_lost_wakeup_fixed :
  exists ps,
    prun one_process pinit path_lost_wakeup_schedule = Some ps /\
    stk (tl (getp ps 0)) 0 = [ExWait true true; ShBody] /\ others_hold (tl (getp ps 0)) 0 = false /\
    gets ps 1 = [] /\ penabled one_process ps 0 = true.
Proof.
  eexists. split; [vm_compute; reflexivity|]. repeat split; vm_compute; reflexivity.
Qed.
