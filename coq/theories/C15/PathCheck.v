(* PV.C15.PathCheck — comparison run inside Coq for the path level (whole path_lock, several processes).
   One case = one schedule of the real `path_lock` executed by the deterministic scheduler with a
   virtual kernel; after every granted atomic section the real pools, the real ShareableThreadLock and
   ShareableProcessLock objects and the kernel table are exported and compared with PathModel.pstepo
   (correspondence tags 31..38); the property statements are evaluated on the observations alone
   (oracle tags 9, 11, 13, 16, 17, 18, 21, 22, 23); guard tag 201. *)
From Coq Require Import List Bool Arith PeanoNat.
From PV Require Import C15.Model C15.Check C15.PathModel.
Import ListNotations.
Local Open Scope nat_scope.

Record tlobs := mkTL { o_acq : list (nat * nat); o_owner : option nat; o_depth : nat;
                       o_waiting : list nat; o_notified : list nat }.
Record plobs := mkPL { o_mutex : option nat; o_sh : list (nat * nat); o_ex : list (nat * nat) }.
Record procobs := mkPO { o_tlref : nat; o_fdref : nat; o_plref : nat; o_tl : option tlobs; o_pl : option plobs;
                         o_kern : kmode; o_nfds : nat }.
Record pstepobs := mkPStep {
  ps_tid : nat; ps_act : paction; ps_obs : pobs;
  ps_procs : list procobs;              (* one per process *)
  ps_runnable : list nat; ps_done : list nat;
  ps_inside : list (nat * list bool);   (* per thread: the bodies of `with path_lock` the program is inside, innermost first; true = shared *)
  ps_fdbad : bool;                      (* harness-side descriptor checks failed (several keys in a pool, yielded fd is not the open one, ...) *)
  ps_stutter : bool;                    (* this step ran the code FOLLOWING a release: nothing may change, the model does not move *)
  ps_released : list nat;               (* threads parked right after a release (their own body record lags one step) *)
  ps_holding : list (nat * list bool);  (* per thread: `with path_lock` blocks entered and not yet completely left (true = shared) *)
  ps_lockf : list (nat * kmode);        (* threads parked inside fcntl.lockf after this step, with the requested mode *)
  ps_lockf_failed : option kmode        (* a non-blocking fcntl.lockf of this mode failed in this step *)
}.
Record pcase := mkPCase {
  pc_n : nat; pc_pof : list nat; pc_steps : list pstepobs;
  pc_final : nat;                       (* 0 all finished, 1 nobody runnable, 2 step bound *)
  pc_inwait : list nat;                 (* at the end: threads parked inside Condition.wait *)
  pc_crash : nat
}.

Definition pexc_eqb (a b : pexc) : bool :=
  match a, b with
  | PThreadWouldBlock, PThreadWouldBlock | PRecursive, PRecursive | PProcWouldBlock, PProcWouldBlock => true
  | _, _ => false end.
Definition pobs_eqb (a b : pobs) : bool :=
  match a, b with
  | POPush, POPush | POStep, POStep | POWait, POWait | POEnter, POEnter | POExit, POExit => true
  | PORaise x, PORaise y => pexc_eqb x y
  | _, _ => false end.
Definition kmode_eqb (a b : kmode) : bool :=
  match a, b with KNone, KNone | KSh, KSh | KEx, KEx => true | _, _ => false end.
Definition kmode_geb (have need : kmode) : bool :=
  match need, have with KNone, _ => true | KSh, KSh | KSh, KEx | KEx, KEx => true | _, _ => false end.

Definition counter_ok (n : nat) (l : list nat) (items : list (nat * nat)) : bool :=
  forallb (fun t => Nat.eqb (nth t l 0) (lookup t items)) (seq 0 n)
  && forallb (fun kv => (0 <? snd kv) && (fst kv <? n)) items.

Definition tl_ok (n : nat) (s : state) (o : tlobs) : bool :=
  m_acq_ok n s (o_acq o) && onat_eqb (owner s) (o_owner o) && Nat.eqb (m_depth s) (o_depth o)
  && list_eqb Nat.eqb (m_waiting n s false) (o_waiting o) && list_eqb Nat.eqb (m_waiting n s true) (o_notified o).

Definition pof_of (c : pcase) : nat -> nat := fun t => nth t (pc_pof c) 0.
Definition nprocs (c : pcase) : nat := S (fold_right Nat.max 0 (pc_pof c)).

Definition inside_of (l : list pframe) : list bool :=
  map f_sh (filter (fun f => match f_pc f with PBody => true | _ => false end) l).

Definition p_runnable (pof : nat -> nat) (n : nat) (ps : pstate) (done released : list nat) : list nat :=
  filter (fun t => negb (existsb (Nat.eqb t) done) &&
                   (existsb (Nat.eqb t) released ||
                    match gets ps t with
                    | [] => true
                    | f :: _ => match f_pc f with PBody => true | _ => penabled pof ps t end
                    end)) (seq 0 n).

(* a kernel request of mode m by process p may legitimately have to wait / fail only if a thread of ANOTHER process is
   inside (or still leaving) a conflicting `with path_lock` block -- or is parked right after a release, in which case
   its own record lags and nothing is concluded *)
Definition conflict_legit (pof : nat -> nat) (n : nat) (holding : list (nat * list bool)) (released : list nat)
  (p : nat) (m : kmode) : bool :=
  existsb (fun u => negb (Nat.eqb (pof u) p) &&
                    (existsb (Nat.eqb u) released ||
                     match m with
                     | KSh => existsb negb (lookupl u holding)
                     | _ => match lookupl u holding with [] => false | _ => true end
                     end)) (seq 0 n).

(* ---- oracle statements on the observations *)
Definition need_of (pof : nat -> nat) (n : nat) (ins : list (nat * list bool)) (p : nat) : kmode :=
  let mine := filter (fun t => Nat.eqb (pof t) p) (seq 0 n) in
  if existsb (fun t => existsb negb (lookupl t ins)) mine then KEx
  else if existsb (fun t => match lookupl t ins with [] => false | _ => true end) mine then KSh
  else KNone.

Definition check_pstep (c : pcase) (ps : pstate) (before : list (nat * list bool)) (kbefore : list kmode)
  (hbefore : list (nat * list bool)) (rbefore : list nat) (st : pstepobs)
  : option pstate * list nat :=
  let n := pc_n c in
  let pof := pof_of c in
  let t := ps_tid st in
  let np := nprocs c in
  let kerns := map o_kern (ps_procs st) in
  let oracle :=
    tag (excl_ok n (drop_released (ps_released st) (ps_inside st))) 11 ++
    (* 12: a kernel lock request waits / fails although no other process holds a conflicting lock legitimately *)
    tag (forallb (fun um => existsb (Nat.eqb (fst um)) (ps_runnable st) ||
                            conflict_legit pof n (ps_holding st) (ps_released st) (pof (fst um)) (snd um)) (ps_lockf st)
         && match ps_lockf_failed st with
            | Some m => conflict_legit pof n hbefore rbefore (pof t) m
            | None => true end) 12 ++
    tag (forallb (fun u => Nat.eqb u t || list_eqb Bool.eqb (lookupl u before) (lookupl u (ps_inside st))) (seq 0 n)
         && forallb (fun p => Nat.eqb p (pof t) || kmode_eqb (nth p kbefore KNone) (nth p kerns KNone)) (seq 0 np)) 13 ++
    tag (forallb (fun p => kmode_geb (nth p kerns KNone) (need_of pof n (ps_inside st) p)) (seq 0 np)) 17 ++
    tag (negb (ps_fdbad st) &&
         forallb (fun p => match nth_error (ps_procs st) p with
                           | Some o => Nat.eqb (o_nfds o) (if 0 <? o_fdref o then 1 else 0) &&
                                       (match need_of pof n (ps_inside st) p with KNone => true | _ => 0 <? o_fdref o end)
                           | None => false end) (seq 0 np)) 18 in
  let state_tags (ps' : pstate) :=
       flat_map (fun p =>
         match nth_error (ps_procs st) p with
         | None => [33]
         | Some po =>
             let P := getp ps' p in
             tag (Nat.eqb (tl_ref P) (o_tlref po) && Nat.eqb (fd_ref P) (o_fdref po) && Nat.eqb (pl_ref P) (o_plref po)) 33 ++
             tag (match o_tl po with
                  | Some x => (0 <? tl_ref P) && tl_ok n (tl P) x
                  | None => Nat.eqb (tl_ref P) 0 end) 34 ++
             tag (match o_pl po with
                  | Some y => (0 <? pl_ref P) && onat_eqb (mutex P) (o_mutex y) && counter_ok n (sh_by P) (o_sh y)
                              && counter_ok n (ex_by P) (o_ex y)
                  | None => Nat.eqb (pl_ref P) 0 end) 35 ++
             tag (kmode_eqb (getk ps' p) (o_kern po)) 36
         end) (seq 0 np) ++
       tag (list_eqb Nat.eqb (p_runnable pof n ps' (ps_done st) (ps_released st)) (ps_runnable st)) 37 ++
       tag (forallb (fun u => existsb (Nat.eqb u) (ps_released st) ||
                              list_eqb Bool.eqb (inside_of (gets ps' u)) (lookupl u (ps_inside st))) (seq 0 n)) 38 in
  if ps_stutter st then (Some ps, state_tags ps ++ oracle)
  else
  match pstepo pof ps (t, ps_act st) with
  | None => (None, 31 :: oracle)
  | Some (ps', o) => (Some ps', tag (pobs_eqb o (ps_obs st)) 32 ++ state_tags ps' ++ oracle)
  end.

Fixpoint check_psteps (c : pcase) (ps : pstate) (before : list (nat * list bool)) (kbefore : list kmode)
  (hbefore : list (nat * list bool)) (rbefore : list nat) (g : bool)
  (l : list pstepobs) : option pstate * bool * list nat :=
  match l with
  | [] => (Some ps, g, [])
  | st :: tl =>
      let g' := g && (ps_stutter st || pg_label ps (ps_tid st, ps_act st)) in
      match check_pstep c ps before kbefore hbefore rbefore st with
      | (None, tags) => (None, g', tags)
      | (Some ps', tags) =>
          let '(r, g'', tags') := check_psteps c ps' (ps_inside st) (map o_kern (ps_procs st))
                                    (ps_holding st) (ps_released st) g' tl in
          (r, g'', tags ++ tags')
      end
  end.

Definition quiescent_obs (po : procobs) : bool :=
  match po with
  | mkPO 0 0 0 None None KNone 0 => true
  | _ => false
  end.

Definition lost_wakeup_obs (c : pcase) (st : pstepobs) : bool :=
  (* some thread sits in wait(), not notified, and every entry of its lock's _acquired_by is its own *)
  existsb (fun po => match o_tl po with
                     | Some x => existsb (fun t => forallb (fun kv => Nat.eqb (fst kv) t) (o_acq x)) (o_waiting x)
                     | None => false end) (ps_procs st).

Definition check_pfinal (c : pcase) (r : option pstate) : list nat :=
  let n := pc_n c in
  let pof := pof_of c in
  let lastst := last (map Some (pc_steps c)) None in
  match r with
  | Some ps =>
      tag (match pc_final c with
           | 0 => forallb (fun t => match gets ps t with [] => true | _ => false end) (seq 0 n)
           | 1 => forallb (fun t => match gets ps t with
                                    | [] => true
                                    | f :: _ => match f_pc f with PBody => false | _ => negb (penabled pof ps t) end
                                    end) (seq 0 n)
           | _ => true end) 37
  | None => []
  end ++
  match pc_final c, lastst with
  | 0, Some st => tag (forallb quiescent_obs (ps_procs st) &&
                       forallb (fun t => match lookupl t (ps_inside st) with [] => true | _ => false end) (seq 0 n)) 16
  | 1, Some st => if lost_wakeup_obs c st then [21] else [22]
  | 1, None => [22]
  | 2, _ => [23]
  | _, _ => []
  end.

Definition pverdict (c : pcase) : list nat :=
  let '(r, g, tags) := check_psteps c pinit [] [] [] [] true (pc_steps c) in
  nodup Nat.eq_dec (tags ++ check_pfinal c r ++ tag (Nat.eqb (pc_crash c) 0) 9 ++ tag g 201).
