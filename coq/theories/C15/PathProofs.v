(* PV.C15.PathProofs — lemmas about the path-level LTS of PathModel.v (whole path_lock, any number of
   processes and threads, one path).  Layers:
   1. every process's ShareableThreadLock is always in a reachable state of the thread-level model (so every
      theorem of Properties.v about `reachable` applies to it inside path_lock); the kernel table stays compatible;
   2. the three pool reference counts are exactly the numbers of frames inside the respective scope
      (so a fresh lock object is only created when nobody uses the old one, and the descriptor is closed only
      when nobody is inside); the thread-level frames of a thread mirror its path frames (link);
   3. ShareableProcessLock: Counters = frames inside bodies; the mutex is owned exactly by the thread parked in
      lockf; the kernel lock mode covers what the Counters say (EX while an exclusive holder exists, not NONE
      while any holder exists, NONE when the descriptor is closed). *)
From Coq Require Import List Bool Arith PeanoNat Lia.
From PV Require Import C15.Model C15.Proofs C15.PathModel.
Import ListNotations.
Local Open Scope nat_scope.

(* ---- accessors *)
Lemma gets_sets ps t v u : gets (sets ps t v) u = if Nat.eqb u t then v else gets ps u.
Proof. unfold gets, sets; cbn. apply nth_set_nth. Qed.
Lemma getp_sets ps t v p : getp (sets ps t v) p = getp ps p. Proof. reflexivity. Qed.
Lemma getk_sets ps t v p : getk (sets ps t v) p = getk ps p. Proof. reflexivity. Qed.
Lemma gets_setp ps p v u : gets (setp ps p v) u = gets ps u. Proof. reflexivity. Qed.
Lemma getp_setp ps p v q : getp (setp ps p v) q = if Nat.eqb q p then v else getp ps q.
Proof. unfold getp, setp; cbn. apply nth_set_nth. Qed.
Lemma getk_setp ps p v q : getk (setp ps p v) q = getk ps q. Proof. reflexivity. Qed.
Lemma gets_setk ps p k u : gets (setk ps p k) u = gets ps u. Proof. reflexivity. Qed.
Lemma getp_setk ps p k q : getp (setk ps p k) q = getp ps q. Proof. reflexivity. Qed.
Lemma getk_setk ps p k q : getk (setk ps p k) q = if Nat.eqb q p then k else getk ps q.
Proof. unfold getk, setk; cbn. apply nth_set_nth. Qed.
Lemma gets_pinit t : gets pinit t = []. Proof. unfold gets, pinit; cbn. apply nth_nil. Qed.
Lemma getp_pinit p : getp pinit p = proc0. Proof. unfold getp, pinit; cbn. apply nth_nil. Qed.
Lemma getk_pinit p : getk pinit p = KNone. Proof. unfold getk, pinit; cbn. apply nth_nil. Qed.

#[export] Hint Rewrite gets_sets getp_sets getk_sets gets_setp getp_setp getk_setp gets_setk getp_setk getk_setk
  Nat.eqb_refl : pst.

Ltac break_pstep H :=
  match type of H with
  | context[match ?x with _ => _ end] =>
      let E := fresh "E" in destruct x eqn:E; try discriminate H; break_pstep H
  | context[if ?x then _ else _] =>
      let E := fresh "E" in destruct x eqn:E; try discriminate H; break_pstep H
  | _ => idtac
  end.

Section Path.
Variable pof : tid -> nat.

(* ---- stage 1: every process's ShareableThreadLock is in a reachable state of the thread-level model *)
Lemma step_of_stepo s l s' o : stepo s l = Some (s', o) -> step s l = Some s'.
Proof. unfold step. intros ->. reflexivity. Qed.

Lemma pstep_tl ps l ps' :
  pstep pof ps l = Some ps' -> (forall p, reachable (tl (getp ps p))) -> forall p, reachable (tl (getp ps' p)).
Proof.
  intros H R p. destruct l as [t a]. unfold pstep, pstepo in H. cbv zeta in H.
  break_pstep H.
  all: cbn in H; injection H as <-.
  all: autorewrite with pst.
  all: try (destruct (Nat.eqb_spec p (pof t)) as [->|N]; [|apply R]).
  all: try apply R.
  all: cbn [tl p_tl p_tlref p_fdref p_plref p_mutex p_sh p_ex p_fresh_pl count_in count_out].
  all: try (unfold count_in, count_out; destruct (f_sh _); cbn; apply R).
  all: match goal with H : stepo _ _ = Some (?s, _) |- reachable ?s =>
         eapply r_step; [|eapply step_of_stepo; exact H]; cbn; try apply R; try constructor end.
Qed.

Lemma preachable_tl ps : preachable pof ps -> forall p, reachable (tl (getp ps p)).
Proof.
  induction 1 as [|ps l ps' _ IH H].
  - intros p. rewrite getp_pinit. constructor.
  - eapply pstep_tl; eauto.
Qed.

(* ---- the kernel table stays compatible: an exclusive lock of one process excludes any lock of another *)
Lemma compat_from_spec i p want l :
  compat_from i p want l = true <-> forall k, i + k <> p -> k_compat want (nth k l KNone) = true.
Proof.
  revert i. induction l as [|x tl IH]; intros i; cbn [compat_from].
  - split; [|reflexivity]. intros _ k _. rewrite nth_nil. destruct want; reflexivity.
  - rewrite andb_true_iff, orb_true_iff, Nat.eqb_eq, IH. split.
    + intros [H1 H2] [|k] Hk; cbn.
      * destruct H1 as [H1|H1]; [lia|exact H1].
      * apply H2. lia.
    + intros H. split.
      * destruct (Nat.eq_dec i p) as [->|N]; [left; reflexivity|right]. apply (H 0). lia.
      * intros k Hk. apply (H (S k)). lia.
Qed.

Lemma kernel_grants_spec ps p want :
  kernel_grants ps p want = true <-> forall q, q <> p -> k_compat want (getk ps q) = true.
Proof. unfold kernel_grants. rewrite compat_from_spec. cbn. reflexivity. Qed.

Definition kernel_ok (ps : pstate) : Prop :=
  forall p q, p <> q -> getk ps p = KEx -> getk ps q = KNone.

Lemma pstep_kernel ps l ps' : pstep pof ps l = Some ps' -> kernel_ok ps -> kernel_ok ps'.
Proof.
  intros H K. destruct l as [t a]. unfold pstep, pstepo in H. cbv zeta in H.
  break_pstep H.
  all: cbn in H; injection H as <-.
  all: intros kp kq Hpq; autorewrite with pst.
  all: try (apply K; exact Hpq).
  all: repeat match goal with H : kernel_grants _ _ _ = true |- _ => rewrite kernel_grants_spec in H end.
  all: destruct (Nat.eqb_spec kp (pof t)) as [->|Np]; destruct (Nat.eqb_spec kq (pof t)) as [->|Nq];
       try congruence; try (apply K; exact Hpq); try (intros _; reflexivity); try discriminate.
  all: try match goal with H : forall q, q <> _ -> k_compat _ (getk _ q) = true |- _ =>
         intros X; first [ specialize (H _ Nq); destruct (getk ps kq); try reflexivity; discriminate H
                         | specialize (H _ Np); rewrite X in H; discriminate H ] end.
  all: try (intros X; pose proof (K _ _ Hpq X) as Y; congruence).
Qed.

Lemma preachable_kernel ps : preachable pof ps -> kernel_ok ps.
Proof.
  induction 1 as [|ps l ps' _ IH H].
  - intros p q _. rewrite getk_pinit. discriminate.
  - eapply pstep_kernel; eauto.
Qed.

(* ---- shape of the path stacks: every frame below the top one is inside its body *)
Definition at_body (f : pframe) : bool := match f_pc f with PBody => true | _ => false end.
Definition pwf (l : list pframe) : Prop := match l with [] => True | _ :: rest => forallb at_body rest = true end.

Lemma p_can_push_bodies l : p_can_push l = true -> pwf l -> forallb at_body l = true.
Proof.
  destruct l as [|f rest]; [reflexivity|]. cbn. unfold at_body. destruct (f_pc f); try discriminate. intros _ ->. reflexivity.
Qed.
Lemma pwf_of_bodies l : forallb at_body l = true -> pwf l.
Proof. destruct l as [|f rest]; cbn; auto. rewrite andb_true_iff. tauto. Qed.

Lemma pstep_wf ps l ps' : pstep pof ps l = Some ps' -> (forall t, pwf (gets ps t)) -> forall t, pwf (gets ps' t).
Proof.
  intros H W u. destruct l as [t a]. pose proof (W t) as Wt. unfold pstep, pstepo in H. cbv zeta in H.
  break_pstep H.
  all: cbn in H; injection H as <-.
  all: autorewrite with pst.
  all: destruct (Nat.eqb_spec u t) as [->|N]; try apply W.
  all: try match goal with E : gets _ _ = _ :: _ |- _ => rewrite E in Wt; cbn [pwf] in Wt end.
  all: try exact Wt.
  all: try (apply pwf_of_bodies; exact Wt).
  cbn [pwf]. apply p_can_push_bodies; assumption.
Qed.

Lemma preachable_wf ps : preachable pof ps -> forall t, pwf (gets ps t).
Proof.
  induction 1 as [|ps l ps' _ IH H].
  - intros t. rewrite gets_pinit. exact I.
  - eapply pstep_wf; eauto.
Qed.

(* ---- counting frames of a process *)
Definition scope_count (sc : ppc -> bool) (l : list pframe) : nat := length (filter (fun f => sc (f_pc f)) l).
Fixpoint nsum_from (i p : nat) (sc : ppc -> bool) (l : list (list pframe)) : nat :=
  match l with
  | [] => 0
  | x :: tl => (if Nat.eqb (pof i) p then scope_count sc x else 0) + nsum_from (S i) p sc tl
  end.
Definition nsum (p : nat) (sc : ppc -> bool) (ps : pstate) : nat := nsum_from 0 p sc (pstk ps).
Definition mine (p : nat) (sc : ppc -> bool) (t : tid) (l : list pframe) : nat :=
  if Nat.eqb (pof t) p then scope_count sc l else 0.

Lemma nsum_from_set i p sc t v l :
  nsum_from i p sc (set_nth [] t v l) + mine p sc (i + t) (nth t l []) = nsum_from i p sc l + mine p sc (i + t) v.
Proof.
  revert i l. induction t as [|t IH]; intros i l.
  - rewrite Nat.add_0_r. destruct l as [|x tl]; cbn [set_nth nth nsum_from]; unfold mine; destruct (Nat.eqb (pof i) p); cbn; lia.
  - replace (i + S t) with (S i + t) by lia. destruct l as [|x tl]; cbn [set_nth nth nsum_from].
    + specialize (IH (S i) []). rewrite nth_nil in IH. cbn [nsum_from] in IH.
      change (scope_count sc []) with 0. destruct (Nat.eqb (pof i) p); lia.
    + specialize (IH (S i) tl). lia.
Qed.

Lemma nsum_sets p sc ps t v :
  nsum p sc (sets ps t v) + mine p sc t (gets ps t) = nsum p sc ps + mine p sc t v.
Proof. unfold nsum, sets, gets. cbn. apply (nsum_from_set 0). Qed.

Lemma nsum_from_ge i p sc t l : mine p sc (i + t) (nth t l []) <= nsum_from i p sc l.
Proof.
  revert i l. induction t as [|t IH]; intros i l.
  - rewrite Nat.add_0_r. destruct l as [|x tl]; cbn; unfold mine; [destruct (Nat.eqb (pof i) p); cbn; lia|lia].
  - replace (i + S t) with (S i + t) by lia. destruct l as [|x tl]; cbn [nth nsum_from].
    + unfold mine. destruct (Nat.eqb _ p); cbn; lia.
    + specialize (IH (S i) tl). lia.
Qed.
Lemma nsum_ge p sc ps t : mine p sc t (gets ps t) <= nsum p sc ps.
Proof. apply (nsum_from_ge 0). Qed.

Lemma nsum_setp p sc ps q v : nsum p sc (setp ps q v) = nsum p sc ps. Proof. reflexivity. Qed.
Lemma nsum_setk p sc ps q v : nsum p sc (setk ps q v) = nsum p sc ps. Proof. reflexivity. Qed.
Lemma nsum_pinit p sc : nsum p sc pinit = 0. Proof. reflexivity. Qed.

Definition tl_scope (pc : ppc) : bool := match pc with PTPool => false | _ => true end.
Definition fd_scope (pc : ppc) : bool :=
  match pc with PPLPool | PMutex | PLockf | PBody | PXMutex | PXDown | PXPLPool _ | PXFdPool _ => true | _ => false end.
Definition pl_scope (pc : ppc) : bool :=
  match pc with PMutex | PLockf | PBody | PXMutex | PXDown | PXPLPool _ => true | _ => false end.

Definition refs_ok (ps : pstate) : Prop :=
  forall p, tl_ref (getp ps p) = nsum p tl_scope ps /\ fd_ref (getp ps p) = nsum p fd_scope ps /\
            pl_ref (getp ps p) = nsum p pl_scope ps.

Lemma scope_count_cons sc f l : scope_count sc (f :: l) = (if sc (f_pc f) then 1 else 0) + scope_count sc l.
Proof. unfold scope_count. cbn. destruct (sc (f_pc f)); reflexivity. Qed.

Lemma pstep_refs ps l ps' : pstep pof ps l = Some ps' -> refs_ok ps -> refs_ok ps'.
Proof.
  intros H R q. destruct l as [t a]. destruct (R q) as [R1 [R2 R3]].
  unfold pstep, pstepo in H. cbv zeta in H.
  break_pstep H.
  all: cbn in H; injection H as <-.
  all: repeat first [rewrite nsum_setp | rewrite nsum_setk].
  all: try match goal with |- context[nsum _ _ (sets ?ps ?t ?v)] =>
         pose proof (nsum_sets q tl_scope ps t v) as S1; pose proof (nsum_sets q fd_scope ps t v) as S2;
         pose proof (nsum_sets q pl_scope ps t v) as S3;
         pose proof (nsum_ge q tl_scope ps t) as G1; pose proof (nsum_ge q fd_scope ps t) as G2;
         pose proof (nsum_ge q pl_scope ps t) as G3 end.
  all: rewrite ?nsum_setk in *.
  all: autorewrite with pst in *.
  all: try match goal with E : gets _ _ = _ :: _ |- _ => rewrite E in * end.
  all: unfold mine in *; rewrite ?scope_count_cons in *; cbn [f_pc with_pc tl_scope fd_scope pl_scope] in *.
  all: repeat match goal with E : f_pc _ = _ |- _ => rewrite E in * end.
  all: cbn [tl_scope fd_scope pl_scope] in *.
  all: destruct (Nat.eqb_spec q (pof t)) as [->|N]; rewrite ?Nat.eqb_refl in *;
       [|assert (X : Nat.eqb (pof t) q = false) by (apply Nat.eqb_neq; congruence); rewrite ?X in *].
  all: cbn [tl_ref fd_ref pl_ref p_tl p_tlref p_fdref p_plref p_mutex p_sh p_ex p_fresh_pl].
  all: unfold count_in, count_out; try destruct (f_sh _).
  all: cbn [tl_ref fd_ref pl_ref p_tl p_tlref p_fdref p_plref p_mutex p_sh p_ex p_fresh_pl].
  all: repeat match goal with E : (_ =? 0) = true |- _ => apply Nat.eqb_eq in E end.
  all: try lia.
Qed.

Lemma preachable_refs ps : preachable pof ps -> refs_ok ps.
Proof.
  induction 1 as [|ps l ps' _ IH H].
  - intros p. rewrite getp_pinit. repeat split.
  - eapply pstep_refs; eauto.
Qed.

(* ---- thread-level steps seen through their observation *)
Definition is_entry (f : frame) : bool := match f with ShReq _ _ | ExReq _ _ | ExWait _ _ => true | _ => false end.

Lemma notify_bodies l : forallb is_body l = true -> notify_stack l = l.
Proof. destruct l as [|f tl]; [reflexivity|]. cbn. destruct f; cbn; try discriminate; reflexivity. Qed.

Lemma stepo_go_inv s t s' o :
  Inv s -> stepo s (t, AGo) = Some (s', o) ->
  match o with
  | OEnterSh => exists b r rest, stk s t = ShReq b r :: rest /\ stk s' t = ShBody :: rest
  | OEnterEx => exists rest, ((exists b r, stk s t = ExReq b r :: rest) \/ (exists r, stk s t = ExWait r true :: rest))
                             /\ stk s' t = ExBody :: rest
  | OWait => exists r rest, (stk s t = ExReq true r :: rest \/ stk s t = ExWait r true :: rest)
                            /\ stk s' t = ExWait r false :: rest
  | ORaise _ => exists f rest, stk s t = f :: rest /\ is_entry f = true /\ stk s' t = rest
  | OLeave => exists rest, stk s t = ShBody :: rest /\ stk s' t = ShExit :: rest
  | OExitSh _ => exists rest, stk s t = ShExit :: rest /\ stk s' t = rest
  | OExitEx => exists rest, stk s t = ExBody :: rest /\ stk s' t = rest
  | OPush => False
  end.
Proof.
  intros I H. pose proof (i_wf _ I t) as W. unfold stepo, ex_check in H. break_step H.
  all: injection H as <- <-.
  all: autorewrite with st.
  all: try match goal with E : stk _ _ = _ :: _ |- _ => rewrite E in W; cbn [wf_stack] in W end.
  all: rewrite ?(notify_bodies _ W).
  all: eauto 10.
Qed.

Lemma stepo_push_inv s t f s' o : stepo s (t, APush f) = Some (s', o) -> stk s' t = f :: stk s t.
Proof.
  unfold stepo. destruct (is_req f && can_push (stk s t)); [|discriminate]. intros H. injection H as <- _.
  autorewrite with st. reflexivity.
Qed.

Lemma stepo_other s t a s' o u :
  stepo s (t, a) = Some (s', o) -> u <> t -> stk s' u = stk s u \/ stk s' u = notify_stack (stk s u).
Proof.
  intros H N. destruct (step_other s t a s' (step_of_stepo _ _ _ _ H)) as [_ [X|[X _]]]; rewrite (X u N); auto.
Qed.

(* ---- link between the path frames of a thread and its frames in the thread-level lock of its process *)
Definition body_of (f : pframe) : frame := if f_sh f then ShBody else ExBody.
Definition top_ok (f : pframe) (mtop : list frame) : Prop :=
  match f_pc f with
  | PTPool | PXTPool _ => mtop = []
  | PThread => if f_sh f then mtop = [ShReq (f_b f) (f_r f)]
               else mtop = [ExReq (f_b f) (f_r f)] \/ exists n, mtop = [ExWait (f_r f) n]
  | PXThread _ => mtop = [ShExit] /\ f_sh f = true
  | _ => mtop = [body_of f]
  end.
Definition link (pl : list pframe) (ml : list frame) : Prop :=
  match pl with
  | [] => ml = []
  | f :: rest => exists mtop, top_ok f mtop /\ ml = mtop ++ map body_of rest
  end.
Definition link_ok (ps : pstate) : Prop := forall t, link (gets ps t) (stk (tl (getp ps (pof t))) t).

Lemma notify_map_bodies l : notify_stack (map body_of l) = map body_of l.
Proof. destruct l as [|f tl]; [reflexivity|]. cbn. unfold body_of. destruct (f_sh f); reflexivity. Qed.

Lemma link_notify pl ml : link pl ml -> link pl (notify_stack ml).
Proof.
  destruct pl as [|f rest]; cbn; [intros ->; reflexivity|]. intros [mtop [T ->]].
  unfold top_ok in T. destruct (f_pc f) eqn:E.
  all: try (subst mtop; exists []; split; [unfold top_ok; rewrite E; reflexivity|cbn [app]; apply notify_map_bodies]).
  all: try (subst mtop; exists [body_of f]; split; [unfold top_ok; rewrite E; reflexivity|unfold body_of; destruct (f_sh f); reflexivity]).
  - destruct (f_sh f) eqn:S.
    + subst mtop. exists [ShReq (f_b f) (f_r f)]. split; [unfold top_ok; rewrite E, S; reflexivity|reflexivity].
    + destruct T as [->|[n ->]].
      * exists [ExReq (f_b f) (f_r f)]. split; [unfold top_ok; rewrite E, S; auto|reflexivity].
      * exists [ExWait (f_r f) true]. split; [unfold top_ok; rewrite E, S; eauto|reflexivity].
  - destruct T as [-> S]. exists [ShExit]. split; [unfold top_ok; rewrite E; split; [reflexivity|exact S]|reflexivity].
Qed.

Lemma scope_bodies sc l : forallb at_body l = true -> sc PBody = true -> scope_count sc l = length l.
Proof.
  intros H S. induction l as [|f tl IH]; [reflexivity|]. cbn in H. apply andb_true_iff in H. destruct H as [Hf Ht].
  rewrite scope_count_cons, IH by exact Ht. unfold at_body in Hf. destruct (f_pc f); try discriminate. rewrite S. reflexivity.
Qed.

Lemma no_frames_link ps u : refs_ok ps -> pwf (gets ps u) -> tl_ref (getp ps (pof u)) = 0 -> link (gets ps u) [].
Proof.
  intros R W Z. destruct (R (pof u)) as [R1 _]. pose proof (nsum_ge (pof u) tl_scope ps u) as G.
  unfold mine in G. rewrite Nat.eqb_refl in G. rewrite <- R1, Z in G.
  destruct (gets ps u) as [|f rest]; [reflexivity|]. cbn [pwf] in W. rewrite scope_count_cons in G.
  rewrite (scope_bodies tl_scope rest W eq_refl) in G. destruct rest; [|cbn in G; lia].
  exists []. split; [|reflexivity]. unfold top_ok. destruct (f_pc f); cbn in G; try lia. reflexivity.
Qed.

Lemma link_bodies l ml : forallb at_body l = true -> link l ml -> ml = map body_of l.
Proof.
  destruct l as [|f rest]; cbn; [auto|]. rewrite andb_true_iff. intros [Hf _] [mtop [T ->]].
  unfold top_ok in T. unfold at_body in Hf. destruct (f_pc f); try discriminate. subst mtop. reflexivity.
Qed.
Lemma link_of_bodies l : forallb at_body l = true -> link l (map body_of l).
Proof.
  destruct l as [|f rest]; cbn; [auto|]. rewrite andb_true_iff. intros [Hf _]. exists [body_of f]. split; [|reflexivity].
  unfold top_ok. unfold at_body in Hf. destruct (f_pc f); try discriminate. reflexivity.
Qed.
Lemma no_frames_below ps t f l : refs_ok ps -> gets ps t = f :: l -> forallb at_body l = true ->
  tl_ref (getp ps (pof t)) = 0 -> l = [].
Proof.
  intros R E W Z. destruct (R (pof t)) as [R1 _]. pose proof (nsum_ge (pof t) tl_scope ps t) as G.
  unfold mine in G. rewrite Nat.eqb_refl, E in G. rewrite <- R1, Z in G. rewrite scope_count_cons in G.
  rewrite (scope_bodies tl_scope l W eq_refl) in G. destruct l; [reflexivity|cbn in G; lia].
Qed.

(* the top frame changes its program counter but keeps its thread-level frame *)
Lemma link_repc f pc l ml :
  link (f :: l) ml -> (forall mtop, top_ok f mtop -> top_ok (with_pc f pc) mtop) -> link (with_pc f pc :: l) ml.
Proof. intros [mtop [T ->]] H. exists mtop. split; [apply H; exact T|reflexivity]. Qed.

Lemma pstep_link ps l ps' :
  pstep pof ps l = Some ps' -> (forall p, Inv (tl (getp ps p))) -> (forall t, pwf (gets ps t)) -> refs_ok ps ->
  link_ok ps -> link_ok ps'.
Proof.
  intros H I W R L u. destruct l as [t a]. pose proof (L t) as Lt. pose proof (L u) as Lu. pose proof (W t) as Wt.
  pose proof (I (pof t)) as It.
  unfold pstep, pstepo in H. cbv zeta in H.
  break_pstep H.
  all: cbn in H; injection H as <-.
  all: autorewrite with pst.
  all: destruct (Nat.eqb_spec u t) as [->|N]; rewrite ?Nat.eqb_refl.
  all: try (destruct (Nat.eqb_spec (pof u) (pof t)) as [Ep|Np]; [|exact Lu]).
  all: cbn [tl p_tl p_tlref p_fdref p_plref p_mutex p_sh p_ex p_fresh_pl].
  all: try (unfold count_in, count_out; destruct (f_sh _); cbn [tl p_tl p_tlref p_fdref p_plref p_mutex p_sh p_ex p_fresh_pl]).
  all: try exact Lu.
  all: try (rewrite Ep in Lu; exact Lu).
  all: try match goal with H : stepo _ (_, _) = Some (?s, _), N : ?u <> _ |- link _ (stk ?s ?u) =>
         destruct (stepo_other _ _ _ _ _ u H N) as [X|X]; rewrite X; cbn [tl p_tl p_tlref];
         try apply link_notify; try exact Lu; try (rewrite Ep in Lu; exact Lu) end.
  (* other threads of the same process when a fresh ShareableThreadLock is created *)
  all: try match goal with |- link (gets _ ?u) (stk init ?u) =>
         rewrite stk_init; apply no_frames_link; [exact R|apply W|rewrite Ep; apply Nat.eqb_eq; assumption] end.
  all: try match goal with |- link (gets _ ?u) (notify_stack (stk init ?u)) =>
         rewrite stk_init; apply no_frames_link; [exact R|apply W|rewrite Ep; apply Nat.eqb_eq; assumption] end.
  (* the stepping thread: program counter moves, thread-level frame stays *)
  all: try match goal with E0 : gets _ _ = ?p :: ?l |- link (with_pc ?p _ :: ?l) (stk (tl (getp _ _)) _) =>
         apply link_repc; [exact Lt|]; intros mtop T; unfold top_ok in *; cbn [f_pc with_pc f_sh f_b f_r] in *;
         rewrite ?E1 in *; unfold body_of in *; cbn [f_pc with_pc f_sh f_b f_r]; exact T end.
  (* path-level push *)
  1: { exists []. split; [reflexivity|]. cbn [app]. apply link_bodies; [apply p_can_push_bodies; assumption|exact Lt]. }
  (* pop at PXTPool *)
  12-13: destruct Lt as [mtop [T ->]]; unfold top_ok in T; rewrite E1 in T; subst mtop; cbn [app];
         apply link_of_bodies; exact Wt.
  (* thread-level sub-steps *)
  all: try match goal with H : stepo _ (_, AGo) = Some (?s, _) |- link _ (stk ?s _) =>
         let V := fresh "V" in pose proof (stepo_go_inv _ _ _ _ It H) as V; cbn beta iota in V;
         destruct Lt as [mtop [T Em]]; unfold top_ok in T; rewrite E1 in T end.
  all: try (repeat match goal with
         | H : exists _, _ |- _ => destruct H
         | H : _ /\ _ |- _ => destruct H
         | H : _ \/ _ |- _ => destruct H end;
       destruct (f_sh p) eqn:S; try (destruct T as [T|[? T]]); subst mtop;
       match goal with V1 : stk ?A ?t = _ :: _, Em : stk ?A ?t = _ |- _ => rewrite V1 in Em end;
       cbn [app] in Em; try discriminate Em; injection Em; intros; subst;
       match goal with V2 : stk ?s ?t = ?New :: _ |- link _ (stk ?s ?t) =>
         rewrite V2; exists [New]; split; [|reflexivity] end;
       unfold top_ok, body_of; cbn [f_pc with_pc f_sh f_b f_r]; rewrite ?S; eauto; fail).
  (* thread-level frame popped: raise, exclusive exit, shared exit *)
  all: try (repeat match goal with
         | H : exists _, _ |- _ => destruct H
         | H : _ /\ _ |- _ => destruct H end;
       try unfold body_of in T; destruct (f_sh p) eqn:S; try discriminate; try (destruct T as [T|[? T]]); subst mtop;
       match goal with V1 : stk ?A ?t = _ :: _, Em : stk ?A ?t = _ |- _ => rewrite V1 in Em end;
       cbn [app] in Em; try discriminate Em; injection Em; intros; subst;
       match goal with V2 : stk ?s ?t = _ |- link _ (stk ?s ?t) => rewrite V2 end;
       first [ exists []; split; [unfold top_ok; cbn [f_pc with_pc]; reflexivity|reflexivity]
             | exists [ShExit]; split; [unfold top_ok; cbn [f_pc with_pc f_sh]; auto|reflexivity] ]; fail).
  (* PTPool: the thread-level request frame is pushed (possibly onto a fresh lock) *)
  all: pose proof (stepo_push_inv _ _ _ _ _ E2) as V; cbn [tl p_tl p_tlref] in V; rewrite V;
       destruct Lt as [mtop [T Em]]; unfold top_ok in T; rewrite E1 in T; subst mtop; cbn [app] in Em.
  - apply Nat.eqb_eq in E4. assert (l = []) by (eapply no_frames_below; eauto). subst l. rewrite stk_init.
    exists [req_of p]. split; [|reflexivity]. unfold top_ok, req_of; cbn [f_pc with_pc f_sh f_b f_r].
    destruct (f_sh p); auto.
  - rewrite Em. exists [req_of p]. split; [|reflexivity]. unfold top_ok, req_of; cbn [f_pc with_pc f_sh f_b f_r].
    destruct (f_sh p); auto.
Qed.

Record PInv (ps : pstate) : Prop := {
  pi_tl : forall p, reachable (tl (getp ps p));
  pi_wf : forall t, pwf (gets ps t);
  pi_refs : refs_ok ps;
  pi_link : link_ok ps;
  pi_kernel : kernel_ok ps
}.

Lemma preachable_pinv ps : preachable pof ps -> PInv ps.
Proof.
  induction 1 as [|ps l ps' _ IH H].
  - constructor.
    + intros p. rewrite getp_pinit. constructor.
    + intros t. rewrite gets_pinit. exact I.
    + intros p. rewrite getp_pinit. repeat split.
    + intros t. rewrite gets_pinit, getp_pinit. cbn. apply stk_init.
    + intros p q _. rewrite getk_pinit. discriminate.
  - destruct IH as [I1 I2 I3 I4 I5]. constructor.
    + eapply pstep_tl; eauto.
    + eapply pstep_wf; eauto.
    + eapply pstep_refs; eauto.
    + eapply pstep_link; eauto. intros p. apply reachable_inv. apply I1.
    + eapply pstep_kernel; eauto.
Qed.

Lemma link_body_in pl ml f : link pl ml -> In f pl -> at_body f = true -> In (body_of f) ml.
Proof.
  destruct pl as [|g rest]; [contradiction|]. intros [mtop [T ->]] [->|Hf] B.
  - unfold top_ok in T. unfold at_body in B. destruct (f_pc f); try discriminate. subst mtop. left. reflexivity.
  - apply in_or_app. right. apply in_map. exact Hf.
Qed.

(* exclusion between threads of the same process, through the whole of path_lock *)
Lemma path_excl_same_process_lemma ps t u f g :
  preachable pof ps -> In f (gets ps t) -> at_body f = true -> f_sh f = false ->
  u <> t -> pof u = pof t -> In g (gets ps u) -> at_body g = true -> False.
Proof.
  intros R Hf Bf Sf N Ep Hg Bg. destruct (preachable_pinv _ R) as [I1 _ _ I4 _].
  pose proof (link_body_in _ _ _ (I4 t) Hf Bf) as X. pose proof (link_body_in _ _ _ (I4 u) Hg Bg) as Y.
  rewrite Ep in Y. unfold body_of in X. rewrite Sf in X.
  pose proof (excl_excludes_lemma _ t u (I1 (pof t)) X N _ Y) as C.
  unfold body_of in C. destruct (f_sh g); discriminate C.
Qed.

(* ---- stage 3: ShareableProcessLock and the kernel table *)
Definition counted_pc (pc : ppc) : bool := match pc with PBody | PXMutex => true | _ => false end.
Definition cntf (sh : bool) (l : list pframe) : nat :=
  length (filter (fun f => Bool.eqb (f_sh f) sh && counted_pc (f_pc f)) l).
Lemma cntf_cons sh f l : cntf sh (f :: l) = (if Bool.eqb (f_sh f) sh && counted_pc (f_pc f) then 1 else 0) + cntf sh l.
Proof. unfold cntf. cbn. destruct (Bool.eqb (f_sh f) sh && counted_pc (f_pc f)); reflexivity. Qed.

Definition counters_ok (ps : pstate) : Prop :=
  forall p t, cget (sh_by (getp ps p)) t = (if Nat.eqb (pof t) p then cntf true (gets ps t) else 0) /\
              cget (ex_by (getp ps p)) t = (if Nat.eqb (pof t) p then cntf false (gets ps t) else 0).

Lemma cget_cset l t v u : cget (cset l t v) u = if Nat.eqb u t then v else cget l u.
Proof. unfold cget, cset. apply nth_set_nth. Qed.
Lemma cget_nil t : cget [] t = 0. Proof. apply nth_nil. Qed.

Lemma cntf_le_pl sh l : cntf sh l <= scope_count pl_scope l.
Proof.
  induction l as [|f tl IH]; [cbn; lia|]. rewrite cntf_cons, scope_count_cons.
  destruct (f_pc f); cbn; rewrite ?andb_false_r; cbn; try lia; destruct (Bool.eqb (f_sh f) sh); cbn; lia.
Qed.

Lemma no_pl_frames ps p t sh : refs_ok ps -> pl_ref (getp ps p) = 0 -> pof t = p -> cntf sh (gets ps t) = 0.
Proof.
  intros R Z E. destruct (R p) as [_ [_ R3]]. pose proof (nsum_ge p pl_scope ps t) as G. unfold mine in G.
  subst p. rewrite Nat.eqb_refl in G. pose proof (cntf_le_pl sh (gets ps t)). lia.
Qed.

Lemma pstep_counters ps l ps' :
  pstep pof ps l = Some ps' -> refs_ok ps -> counters_ok ps -> counters_ok ps'.
Proof.
  intros H R C q u. destruct l as [t a]. destruct (C q u) as [C1 C2]. destruct (C q t) as [C1t C2t].
  unfold pstep, pstepo in H. cbv zeta in H.
  break_pstep H.
  all: cbn in H; injection H as <-.
  all: autorewrite with pst.
  all: destruct (Nat.eqb_spec q (pof t)) as [->|Nq].
  all: cbn [sh_by ex_by p_tl p_tlref p_fdref p_plref p_mutex p_sh p_ex p_fresh_pl].
  all: unfold count_in, count_out; try destruct (f_sh _) eqn:S.
  all: cbn [sh_by ex_by p_tl p_tlref p_fdref p_plref p_mutex p_sh p_ex p_fresh_pl].
  all: rewrite ?cget_cset, ?cget_nil.
  all: destruct (Nat.eqb_spec u t) as [->|N].
  all: try (split; assumption).
  all: try match goal with E : gets _ _ = _ :: _ |- _ => rewrite E in * end.
  all: rewrite ?cntf_cons in *; cbn [f_pc f_sh with_pc counted_pc] in *.
  all: repeat match goal with E : f_pc _ = _ |- _ => rewrite E in * end.
  all: cbn [counted_pc] in *; rewrite ?andb_false_r, ?andb_true_r in *.
  all: rewrite ?Nat.eqb_refl in *.
  all: try (split; assumption).
  all: rewrite ?S in *; cbn [Bool.eqb] in *.
  all: try (split; lia).
  all: try (assert (X : Nat.eqb (pof t) q = false) by (apply Nat.eqb_neq; congruence); rewrite X in *; split; assumption).
  all: apply Nat.eqb_eq in E2.
  - pose proof (no_pl_frames ps (pof t) t true R E2 eq_refl) as Z1.
    pose proof (no_pl_frames ps (pof t) t false R E2 eq_refl) as Z2.
    rewrite E0, cntf_cons, E1 in Z1, Z2. cbn in Z1, Z2. rewrite andb_false_r in Z1, Z2. split; lia.
  - destruct (Nat.eqb_spec (pof u) (pof t)) as [Eu|Nu]; [|split; reflexivity].
    rewrite (no_pl_frames ps (pof t) u true R E2 Eu), (no_pl_frames ps (pof t) u false R E2 Eu). split; reflexivity.
Qed.

Lemma preachable_counters ps : preachable pof ps -> counters_ok ps.
Proof.
  induction 1 as [|ps l ps' Rp IH H].
  - intros p t. rewrite getp_pinit, gets_pinit. cbn [sh_by ex_by proc0]. rewrite cget_nil. destruct (Nat.eqb (pof t) p); split; reflexivity.
  - eapply pstep_counters; eauto. apply preachable_pinv in Rp. apply (pi_refs _ Rp).
Qed.

Definition holds_mutex_pc (pc : ppc) : bool := match pc with PLockf | PXDown => true | _ => false end.

Record MInv (ps : pstate) : Prop := {
  m_owner : forall p t, mutex (getp ps p) = Some t ->
              pof t = p /\ exists f rest, gets ps t = f :: rest /\ holds_mutex_pc (f_pc f) = true;
  m_held : forall t f rest, gets ps t = f :: rest -> holds_mutex_pc (f_pc f) = true -> mutex (getp ps (pof t)) = Some t
}.

Lemma in_pl_scope_ref ps t f rest :
  refs_ok ps -> gets ps t = f :: rest -> pl_scope (f_pc f) = true -> pl_ref (getp ps (pof t)) > 0.
Proof.
  intros R E S. destruct (R (pof t)) as [_ [_ R3]]. pose proof (nsum_ge (pof t) pl_scope ps t) as G.
  unfold mine in G. rewrite Nat.eqb_refl, E, scope_count_cons, S in G. lia.
Qed.

Lemma holds_pl_scope pc : holds_mutex_pc pc = true -> pl_scope pc = true.
Proof. destruct pc; cbn; auto; discriminate. Qed.

Lemma pstep_minv ps l ps' :
  pstep pof ps l = Some ps' -> refs_ok ps -> (forall t, pwf (gets ps t)) -> MInv ps -> MInv ps'.
Proof.
  intros H R W [M1 M2]. destruct l as [t a]. pose proof (W t) as Wt.
  unfold pstep, pstepo in H. cbv zeta in H.
  break_pstep H.
  all: cbn in H; injection H as <-.
  all: try match goal with E0 : gets _ _ = ?p :: _, E1 : f_pc ?p = ?X |- _ =>
         first [ assert (Mt : mutex (getp ps (pof t)) = Some t) by (eapply M2; [exact E0|rewrite E1; reflexivity])
               | idtac ] end.
  all: constructor.
  all: match goal with
       | |- forall (p : nat) (t : tid), mutex _ = Some t -> _ => intros q u Hm
       | |- _ => intros u g rest' Eg Hg end.
  all: autorewrite with pst in *.
  all: try (destruct (Nat.eqb_spec u t) as [->|Nu]).
  all: try (destruct (Nat.eqb_spec q (pof t)) as [Eq|Nq]; [subst q|]).
  all: try (destruct (Nat.eqb_spec (pof u) (pof t)) as [Eu|Npu]).
  all: rewrite ?Nat.eqb_refl in *.
  all: cbn [mutex p_tl p_tlref p_fdref p_plref p_mutex p_sh p_ex p_fresh_pl] in *.
  all: try (unfold count_in, count_out in *; destruct (f_sh _) eqn:S; cbn [mutex p_tl p_tlref p_fdref p_plref p_mutex p_sh p_ex p_fresh_pl] in * ).
  all: try discriminate.
  all: try congruence.
  (* held, another thread *)
  all: try (pose proof (M2 _ _ _ Eg Hg) as Mu; rewrite ?Eu in Mu; congruence).
  all: try (exact (M2 _ _ _ Eg Hg)).
  (* owner, via the old state *)
  all: try (destruct (M1 _ _ Hm) as [? [f0 [r0 [? ?]]]]; split; [assumption|]; exists f0, r0; split; assumption).
  (* held, the stepping thread itself *)
  all: try (injection Eg; intros; subst; cbn [f_pc with_pc] in Hg; first [discriminate Hg | reflexivity]).
  all: try (rewrite Eg in Wt; cbn in Wt; apply andb_true_iff in Wt; destruct Wt as [Wg _]; unfold at_body in Wg;
            destruct (f_pc g); discriminate).
  (* owner = the stepping thread, via the old state *)
  all: try (destruct (M1 _ _ Hm) as [Hp [f0 [r0 [Ef Hf]]]]; try congruence;
            first [ rewrite E0 in Ef; injection Ef; intros; subst; rewrite E1 in Hf; discriminate Hf
                  | rewrite Ef in E0; cbn in E0; destruct (f_pc f0); discriminate ]).
  (* the new owner *)
  all: try (split; [reflexivity|]; eexists; eexists; split; [reflexivity|reflexivity]).
  (* a fresh ShareableProcessLock cannot appear while some thread is inside the old one *)
  exfalso. apply Nat.eqb_eq in E2. pose proof (in_pl_scope_ref ps u g rest' R Eg (holds_pl_scope _ Hg)) as X.
  rewrite Eu in X. lia.
Qed.

Lemma minv_init : MInv pinit.
Proof.
  constructor.
  - intros p t. rewrite getp_pinit. discriminate.
  - intros t f rest. rewrite gets_pinit. discriminate.
Qed.

(* ---- Counter facts *)
Lemma cnonempty_true l : cnonempty l = true <-> exists t, cget l t > 0.
Proof.
  unfold cnonempty, cget. rewrite negb_true_iff. split.
  - induction l as [|c tl IH]; [discriminate|]. cbn [forallb]. rewrite andb_false_iff. intros [H|H].
    + exists 0. cbn. apply Nat.eqb_neq in H. lia.
    + destruct (IH H) as [t Ht]. exists (S t). exact Ht.
  - intros [t Ht]. destruct (forallb (Nat.eqb 0) l) eqn:E; [|reflexivity]. rewrite forallb_forall in E.
    destruct (Nat.lt_ge_cases t (length l)) as [L|L].
    + specialize (E _ (nth_In l 0 L)). apply Nat.eqb_eq in E. lia.
    + rewrite nth_overflow in Ht by exact L. lia.
Qed.
Lemma cnonempty_false l : cnonempty l = false <-> forall t, cget l t = 0.
Proof.
  split.
  - intros H t. destruct (cget l t) eqn:E; [reflexivity|]. assert (cnonempty l = true) by (apply cnonempty_true; exists t; lia). congruence.
  - intros H. destruct (cnonempty l) eqn:E; [|reflexivity]. apply cnonempty_true in E. destruct E as [t Ht]. rewrite H in Ht. lia.
Qed.
Lemma cnonempty_incr l t : cnonempty (cset l t (S (cget l t))) = true.
Proof. apply cnonempty_true. exists t. rewrite cget_cset, Nat.eqb_refl. lia. Qed.
Lemma cnonempty_decr l t : cnonempty (cset l t (cget l t - 1)) = true -> cnonempty l = true.
Proof.
  rewrite !cnonempty_true. intros [u Hu]. rewrite cget_cset in Hu. destruct (Nat.eq_dec u t) as [E|N].
  - subst u. rewrite Nat.eqb_refl in Hu. exists t. lia.
  - apply Nat.eqb_neq in N. rewrite N in Hu. exists u. exact Hu.
Qed.
Lemma cnonempty_incr_other l t : cnonempty l = true -> cnonempty (cset l t (S (cget l t))) = true.
Proof. intros _. apply cnonempty_incr. Qed.

Record KInv (ps : pstate) : Prop := {
  d_down : forall t f rest, gets ps t = f :: rest -> f_pc f = PXDown -> cnonempty (ex_by (getp ps (pof t))) = false;
  d_lockf : forall t f rest, gets ps t = f :: rest -> f_pc f = PLockf -> f_sh f = true ->
              cnonempty (sh_by (getp ps (pof t))) = false /\ cnonempty (ex_by (getp ps (pof t))) = false;
  k_ex : forall p, cnonempty (ex_by (getp ps p)) = true -> getk ps p = KEx;
  k_any : forall p, cnonempty (sh_by (getp ps p)) || cnonempty (ex_by (getp ps p)) = true -> getk ps p <> KNone;
  k_closed : forall p, fd_ref (getp ps p) = 0 -> getk ps p = KNone
}.

Lemma kinv_init : KInv pinit.
Proof.
  constructor.
  - intros t f rest. rewrite gets_pinit. discriminate.
  - intros t f rest. rewrite gets_pinit. discriminate.
  - intros p. rewrite getp_pinit. discriminate.
  - intros p. rewrite getp_pinit. discriminate.
  - intros p _. apply getk_pinit.
Qed.

Ltac pk_setup H :=
  unfold pstep, pstepo in H; cbv zeta in H; break_pstep H; cbn in H; injection H as <-.

Ltac simp_proc :=
  cbn [mutex sh_by ex_by fd_ref pl_ref tl_ref p_tl p_tlref p_fdref p_plref p_mutex p_sh p_ex p_fresh_pl] in *.

(* the two "parked with the mutex" facts *)
Lemma pstep_dinv ps l ps' :
  pstep pof ps l = Some ps' -> refs_ok ps -> (forall t, pwf (gets ps t)) -> MInv ps -> KInv ps ->
  (forall t f rest, gets ps' t = f :: rest -> f_pc f = PXDown -> cnonempty (ex_by (getp ps' (pof t))) = false) /\
  (forall t f rest, gets ps' t = f :: rest -> f_pc f = PLockf -> f_sh f = true ->
     cnonempty (sh_by (getp ps' (pof t))) = false /\ cnonempty (ex_by (getp ps' (pof t))) = false).
Proof.
  intros H R W MI KI. destruct l as [t a]. pose proof (W t) as Wt.
  pose proof (d_down _ KI) as D1. pose proof (d_lockf _ KI) as D2. pose proof (m_held _ MI) as M2.
  unfold pstep, pstepo in H. cbv zeta in H. break_pstep H.
  all: cbn in H; injection H as <-.
  all: try match goal with E0 : gets _ _ = ?p :: _, E1 : f_pc ?p = ?X |- _ =>
         first [ assert (Mt : mutex (getp ps (pof t)) = Some t) by (eapply M2; [exact E0|rewrite E1; reflexivity])
               | idtac ] end.
  all: split; [intros u g rest' Eg Hg | intros u g rest' Eg Hg Sg].
  all: autorewrite with pst in *.
  all: destruct (Nat.eqb_spec u t) as [->|Nu].
  all: try (destruct (Nat.eqb_spec (pof u) (pof t)) as [Eu|Npu]).
  all: rewrite ?Nat.eqb_refl in *.
  all: simp_proc.
  all: try (unfold count_in, count_out in *; destruct (f_sh _) eqn:S; simp_proc).
  (* untouched process or untouched counters *)
  all: try (eapply D1; eassumption).
  all: try (eapply D2; eassumption).
  all: try (rewrite <- ?Eu; eapply D1; eassumption).
  all: try (rewrite <- ?Eu; eapply D2; eassumption).
  all: try discriminate.
  (* another thread of the same process is parked with the mutex: the stepping thread cannot have touched the Counters *)
  all: try (exfalso; assert (Mu : mutex (getp ps (pof u)) = Some u) by (eapply M2; [exact Eg|rewrite Hg; reflexivity]);
            rewrite Eu in Mu; congruence).
  all: try (exfalso; apply Nat.eqb_eq in E2;
            assert (X : pl_ref (getp ps (pof u)) > 0) by (eapply in_pl_scope_ref; [exact R|exact Eg|rewrite Hg; reflexivity]);
            rewrite Eu in X; lia).
  (* the stepping thread *)
  all: try (rewrite Eg in Wt; cbn in Wt; apply andb_true_iff in Wt; destruct Wt as [Wg _]; unfold at_body in Wg;
            rewrite Hg in Wg; discriminate Wg).
  all: try (injection Eg; intros; subst; cbn [f_pc with_pc f_sh] in *; try discriminate; try congruence).
  - destruct (cnonempty (sh_by (getp ps (pof t)))), (cnonempty (ex_by (getp ps (pof t)))); cbn in E4; try discriminate E4; auto.
  - cbn in E4. rewrite andb_false_r in E4. discriminate E4.
  - cbn in E4. rewrite andb_true_r in E4. apply negb_true_iff in E4. exact E4.
Qed.

Lemma in_fd_scope_ref ps t f rest :
  refs_ok ps -> gets ps t = f :: rest -> fd_scope (f_pc f) = true -> fd_ref (getp ps (pof t)) > 0.
Proof.
  intros R E S. destruct (R (pof t)) as [_ [R2 _]]. pose proof (nsum_ge (pof t) fd_scope ps t) as G.
  unfold mine in G. rewrite Nat.eqb_refl, E, scope_count_cons, S in G. lia.
Qed.

Lemma cntf_le_fd sh l : cntf sh l <= scope_count fd_scope l.
Proof.
  induction l as [|f tl IH]; [cbn; lia|]. rewrite cntf_cons, scope_count_cons.
  destruct (f_pc f); cbn; rewrite ?andb_false_r; cbn; try lia; destruct (Bool.eqb (f_sh f) sh); cbn; lia.
Qed.

(* when the last reference to the descriptor goes away no thread of the process is inside the process-level lock *)
Lemma last_fd_ref_counters ps t f rest e :
  refs_ok ps -> counters_ok ps -> (forall u, pwf (gets ps u)) -> gets ps t = f :: rest -> f_pc f = PXFdPool e ->
  fd_ref (getp ps (pof t)) - 1 = 0 ->
  cnonempty (sh_by (getp ps (pof t))) = false /\ cnonempty (ex_by (getp ps (pof t))) = false.
Proof.
  intros R C W E E1 Z. destruct (R (pof t)) as [_ [R2 _]].
  assert (F : forall u sh, pof u = pof t -> cntf sh (gets ps u) = 0).
  { intros u sh Eu. destruct (Nat.eq_dec u t) as [->|N].
    - pose proof (nsum_ge (pof t) fd_scope ps t) as G. unfold mine in G. rewrite Nat.eqb_refl, E, scope_count_cons, E1 in G.
      cbn [fd_scope] in G. rewrite E, cntf_cons, E1. cbn [counted_pc]. rewrite andb_false_r. cbn.
      pose proof (cntf_le_fd sh rest). lia.
    - pose proof (nsum_sets (pof t) fd_scope ps t []) as S1. pose proof (nsum_ge (pof t) fd_scope (sets ps t []) u) as G.
      rewrite gets_sets in G. apply Nat.eqb_neq in N. rewrite N in G. unfold mine in *. rewrite Eu, Nat.eqb_refl in *.
      rewrite E, scope_count_cons, E1 in S1. cbn [fd_scope scope_count filter length] in S1.
      pose proof (cntf_le_fd sh (gets ps u)). lia. }
  split; apply cnonempty_false; intros u; destruct (C (pof t) u) as [C1 C2].
  - rewrite C1. destruct (Nat.eqb_spec (pof u) (pof t)) as [Eu|]; [apply F; exact Eu|reflexivity].
  - rewrite C2. destruct (Nat.eqb_spec (pof u) (pof t)) as [Eu|]; [apply F; exact Eu|reflexivity].
Qed.

Lemma pstep_kinv3 ps l ps' :
  pstep pof ps l = Some ps' -> refs_ok ps -> (forall t, pwf (gets ps t)) -> counters_ok ps -> MInv ps -> KInv ps ->
  (forall p, cnonempty (ex_by (getp ps' p)) = true -> getk ps' p = KEx) /\
  (forall p, cnonempty (sh_by (getp ps' p)) || cnonempty (ex_by (getp ps' p)) = true -> getk ps' p <> KNone) /\
  (forall p, fd_ref (getp ps' p) = 0 -> getk ps' p = KNone).
Proof.
  intros H R W C MI KI. destruct l as [t a]. pose proof (W t) as Wt.
  pose proof (d_down _ KI t) as D1. pose proof (d_lockf _ KI t) as D2.
  pose proof (k_ex _ KI) as K1. pose proof (k_any _ KI) as K2. pose proof (k_closed _ KI) as K3.
  pose proof (K1 (pof t)) as K1t. pose proof (K2 (pof t)) as K2t. pose proof (K3 (pof t)) as K3t.
  unfold pstep, pstepo in H. cbv zeta in H. break_pstep H.
  all: cbn in H; injection H as <-.
  all: split; [|split]; intros q Hq.
  all: autorewrite with pst in *.
  all: destruct (Nat.eqb_spec q (pof t)) as [Eq|Nq]; [subst q|].
  all: rewrite ?Nat.eqb_refl in *.
  all: simp_proc.
  all: try (unfold count_in, count_out in *; destruct (f_sh _) eqn:S; simp_proc).
  all: try (apply K1; exact Hq).
  all: try (apply K2; exact Hq).
  all: try (apply K3; exact Hq).
  all: try reflexivity.
  all: try discriminate.
  (* the stepping thread is inside the descriptor's scope: its reference count is not 0 *)
  all: try (exfalso; assert (X : fd_ref (getp ps (pof t)) > 0)
              by (eapply in_fd_scope_ref; [exact R|exact E0|rewrite E1; reflexivity]); lia).
  (* parked in lockf for a shared lock / for the downgrade: the Counters are as they were when it decided *)
  all: try (destruct (D2 _ _ eq_refl E1 S) as [Da Db]; congruence).
  all: try (pose proof (D1 _ _ eq_refl E1) as Da; congruence).
  all: try (apply Nat.eqb_neq in E5; simp_proc; congruence).
  (* last reference to the descriptor *)
  all: try (apply Nat.eqb_eq in E5; simp_proc;
            destruct (last_fd_ref_counters ps t p l e R C W E0 E1 E5) as [Da Db]; rewrite ?Da, ?Db in Hq; discriminate Hq).
  (* Counter arithmetic *)
  all: try (pose proof (cnonempty_decr (sh_by (getp ps (pof t))) t) as Dsh;
            pose proof (cnonempty_decr (ex_by (getp ps (pof t))) t) as Dex;
            rewrite ?cnonempty_incr in *;
            destruct (cnonempty (cset (sh_by (getp ps (pof t))) t (cget (sh_by (getp ps (pof t))) t - 1)));
            destruct (cnonempty (cset (ex_by (getp ps (pof t))) t (cget (ex_by (getp ps (pof t))) t - 1)));
            destruct (cnonempty (sh_by (getp ps (pof t)))) eqn:A; destruct (cnonempty (ex_by (getp ps (pof t)))) eqn:B;
            cbn in *; try discriminate;
            try (specialize (Dsh eq_refl); discriminate); try (specialize (Dex eq_refl); discriminate);
            first [apply K1t; reflexivity | apply K2t; reflexivity]).
Qed.

Lemma pstep_kinv ps l ps' :
  pstep pof ps l = Some ps' -> refs_ok ps -> (forall t, pwf (gets ps t)) -> counters_ok ps -> MInv ps -> KInv ps -> KInv ps'.
Proof.
  intros H R W C MI KI. destruct (pstep_dinv _ _ _ H R W MI KI) as [A1 A2].
  destruct (pstep_kinv3 _ _ _ H R W C MI KI) as [A3 [A4 A5]]. constructor; assumption.
Qed.

Record PInv2 (ps : pstate) : Prop := {
  pi_base : PInv ps; pi_counters : counters_ok ps; pi_minv : MInv ps; pi_kinv : KInv ps
}.

Lemma preachable_pinv2 ps : preachable pof ps -> PInv2 ps.
Proof.
  induction 1 as [|ps l ps' Rp IH H].
  - constructor; [apply preachable_pinv; constructor|apply preachable_counters; constructor|apply minv_init|apply kinv_init].
  - destruct IH as [B Cn M K]. pose proof (pi_refs _ B) as R. pose proof (pi_wf _ B) as W. constructor.
    + apply preachable_pinv. econstructor; eauto.
    + eapply pstep_counters; eauto.
    + eapply pstep_minv; eauto.
    + eapply pstep_kinv; eauto.
Qed.

(* ---- consequences *)
Lemma cntf_in l f : In f l -> at_body f = true -> cntf (f_sh f) l >= 1.
Proof.
  induction l as [|g tl IH]; [contradiction|]. intros [->|H] B; rewrite cntf_cons.
  - unfold at_body in B. destruct (f_pc f); try discriminate. rewrite Bool.eqb_reflx. cbn. lia.
  - specialize (IH H B). lia.
Qed.

Lemma body_counted ps t f :
  preachable pof ps -> In f (gets ps t) -> at_body f = true ->
  cget (if f_sh f then sh_by (getp ps (pof t)) else ex_by (getp ps (pof t))) t >= 1.
Proof.
  intros R H B. destruct (preachable_pinv2 _ R) as [_ C _ _]. destruct (C (pof t) t) as [C1 C2].
  rewrite Nat.eqb_refl in C1, C2. pose proof (cntf_in _ _ H B) as X. destruct (f_sh f); lia.
Qed.

Lemma path_body_kernel_lemma ps t f :
  preachable pof ps -> In f (gets ps t) -> at_body f = true ->
  (f_sh f = false -> getk ps (pof t) = KEx) /\ getk ps (pof t) <> KNone /\ fd_ref (getp ps (pof t)) > 0.
Proof.
  intros R H B. pose proof (body_counted _ _ _ R H B) as X. destruct (preachable_pinv2 _ R) as [Bs _ _ K].
  split; [|split].
  - intros S. rewrite S in X. cbv iota in X. apply (k_ex _ K). apply cnonempty_true. exists t. lia.
  - apply (k_any _ K). apply orb_true_iff. destruct (f_sh f); cbv iota in X; [left|right]; apply cnonempty_true; exists t; lia.
  - destruct (In_nth _ _ f H) as [n [Hn _]]. destruct (gets ps t) as [|g rest] eqn:E; [contradiction|].
    pose proof (pi_refs _ Bs (pof t)) as [_ [R2 _]]. pose proof (nsum_ge (pof t) fd_scope ps t) as G.
    unfold mine in G. rewrite Nat.eqb_refl, E in G.
    assert (scope_count fd_scope (g :: rest) >= 1).
    { clear - H B. induction (g :: rest) as [|x tl IH]; [contradiction|]. rewrite scope_count_cons. destruct H as [->|H].
      - unfold at_body in B. destruct (f_pc f); try discriminate. cbn. lia.
      - specialize (IH H). lia. }
    lia.
Qed.

Lemma path_excl_excludes_lemma ps t u f g :
  preachable pof ps -> In f (gets ps t) -> at_body f = true -> f_sh f = false ->
  u <> t -> In g (gets ps u) -> at_body g = true -> False.
Proof.
  intros R Hf Bf Sf N Hg Bg. destruct (Nat.eq_dec (pof u) (pof t)) as [E|NE].
  - exact (path_excl_same_process_lemma ps t u f g R Hf Bf Sf N E Hg Bg).
  - destruct (path_body_kernel_lemma _ _ _ R Hf Bf) as [X _]. destruct (path_body_kernel_lemma _ _ _ R Hg Bg) as [_ [Y _]].
    destruct (preachable_pinv2 _ R) as [Bs _ _ _]. apply Y. apply (pi_kernel _ Bs (pof t) (pof u)); [congruence|auto].
Qed.

Lemma pstep_other_process ps t a ps' p :
  pstep pof ps (t, a) = Some ps' -> pof t <> p -> getp ps' p = getp ps p /\ getk ps' p = getk ps p.
Proof.
  intros H N. unfold pstep, pstepo in H. cbv zeta in H. break_pstep H.
  all: cbn in H; injection H as <-.
  all: autorewrite with pst.
  all: assert (X : Nat.eqb p (pof t) = false) by (apply Nat.eqb_neq; congruence); rewrite ?X; split; reflexivity.
Qed.

Lemma pstep_other_thread ps t a ps' u : pstep pof ps (t, a) = Some ps' -> u <> t -> gets ps' u = gets ps u.
Proof.
  intros H N. unfold pstep, pstepo in H. cbv zeta in H. break_pstep H.
  all: cbn in H; injection H as <-.
  all: autorewrite with pst.
  all: apply Nat.eqb_neq in N; rewrite ?N; reflexivity.
Qed.

Lemma nsum_from_empty i p sc l : (forall k, nth k l [] = []) -> nsum_from i p sc l = 0.
Proof.
  revert i. induction l as [|x tl IH]; intros i H; [reflexivity|]. cbn [nsum_from].
  pose proof (H 0) as H0. cbn in H0. subst x. rewrite IH; [|intros k; apply (H (S k))].
  destruct (Nat.eqb (pof i) p); reflexivity.
Qed.

Lemma path_quiescent_lemma ps :
  preachable pof ps -> (forall t, gets ps t = []) ->
  forall p, tl_ref (getp ps p) = 0 /\ fd_ref (getp ps p) = 0 /\ pl_ref (getp ps p) = 0 /\ getk ps p = KNone.
Proof.
  intros R H p. destruct (preachable_pinv2 _ R) as [Bs _ _ K]. destruct (pi_refs _ Bs p) as [R1 [R2 R3]].
  assert (Z : forall sc, nsum p sc ps = 0) by (intros sc; apply nsum_from_empty; exact H).
  rewrite Z in R1, R2, R3. repeat split; try assumption. apply (k_closed _ K). exact R2.
Qed.

End Path.

(* ------------------------------------------------------------------ progress: transfer of no_lost_wakeup *)
Section PathG.
Variable pof : tid -> nat.

Lemma preachable_g_preachable ps : preachable_g pof ps -> preachable pof ps.
Proof. induction 1; [constructor|econstructor; eauto]. Qed.

(* every blocking exclusive frame was pushed by a thread that held nothing or held exclusively *)
Fixpoint gstack (l : list pframe) : Prop :=
  match l with
  | [] => True
  | f :: rest => (f_sh f = false -> f_b f = true -> rest = [] \/ p_holds_ex rest = true) /\ gstack rest
  end.

Lemma pstep_gstack ps l ps' :
  pg_label ps l = true -> pstep pof ps l = Some ps' -> (forall t, gstack (gets ps t)) -> forall t, gstack (gets ps' t).
Proof.
  intros G H A u. destruct l as [t a]. pose proof (A t) as At. unfold pstep, pstepo in H. cbv zeta in H.
  break_pstep H.
  all: cbn in H; injection H as <-.
  all: autorewrite with pst.
  all: destruct (Nat.eqb_spec u t) as [->|N]; try apply A.
  all: try match goal with E : gets _ _ = _ :: _ |- _ => rewrite E in At; cbn [gstack] in At; destruct At as [At1 At2] end.
  all: try (cbn [gstack f_sh f_b with_pc]; split; assumption).
  all: try assumption.
  all: try (cbn [gstack] in At; destruct At as [At1 At2]; first [assumption | cbn [gstack f_sh f_b with_pc]; split; assumption]).
  (* push *)
  cbn [gstack f_sh f_b]. split; [|exact At]. intros -> ->. cbn in G.
  destruct (gets ps t) as [|x y]; [left; reflexivity|right; exact G].
Qed.

Lemma has_ex_map_bodies l : p_holds_ex l = true -> has_ex (map body_of l) = true.
Proof.
  unfold p_holds_ex, has_ex. rewrite !existsb_exists. intros [f [Hf Sf]]. exists (body_of f). split; [apply in_map; exact Hf|].
  unfold body_of. apply negb_true_iff in Sf. rewrite Sf. reflexivity.
Qed.

Lemma pstep_tl_g ps l ps' :
  pg_label ps l = true -> pstep pof ps l = Some ps' -> preachable pof ps -> (forall t, gstack (gets ps t)) ->
  (forall p, reachable_g (tl (getp ps p))) -> forall p, reachable_g (tl (getp ps' p)).
Proof.
  intros G H Rp A R q. destruct l as [t a]. pose proof (A t) as At.
  destruct (preachable_pinv pof _ Rp) as [I1 I2 I3 I4 _]. pose proof (I4 t) as Lt.
  pose proof (reachable_inv _ (I1 (pof t))) as It.
  unfold pstep, pstepo in H. cbv zeta in H.
  break_pstep H.
  all: cbn in H; injection H as <-.
  all: autorewrite with pst.
  all: try (destruct (Nat.eqb_spec q (pof t)) as [->|N]; [|apply R]).
  all: try apply R.
  all: cbn [tl p_tl p_tlref p_fdref p_plref p_mutex p_sh p_ex p_fresh_pl count_in count_out].
  all: try (unfold count_in, count_out; destruct (f_sh _); cbn; apply R).
  (* thread-level AGo steps: the guard only constrains pushes *)
  all: try match goal with H : stepo _ (_, AGo) = Some (?s, _) |- reachable_g ?s =>
         refine (rg_step _ _ _ _ _ (step_of_stepo _ _ _ _ H)); [cbn [tl p_tl p_tlref p_fdref]; apply R|reflexivity] end.
  (* the thread-level push at PTPool *)
  all: match goal with H : stepo ?s0 (_, APush _) = Some (?s, _) |- reachable_g ?s =>
         refine (rg_step _ _ _ _ _ (step_of_stepo _ _ _ _ H)); cbn [tl p_tl p_tlref]; [first [apply R|constructor]|] end.
  all: rewrite ?E0 in At, Lt; cbn [gstack] in At; destruct At as [At1 _].
  all: unfold g_label, req_of; destruct (f_sh p) eqn:S; [reflexivity|]; destruct (f_b p) eqn:B; [|reflexivity].
  - (* fresh lock *) rewrite cnt_init. reflexivity.
  - destruct Lt as [mtop [T Em]]. unfold top_ok in T. rewrite E1 in T. subst mtop. cbn [app] in Em.
    rewrite Em. destruct (At1 eq_refl eq_refl) as [->|X].
    + rewrite (i_cnt _ It), Em. reflexivity.
    + rewrite (has_ex_map_bodies _ X). apply orb_true_r.
Qed.

Lemma preachable_g_tl ps :
  preachable_g pof ps -> (forall t, gstack (gets ps t)) /\ forall p, reachable_g (tl (getp ps p)).
Proof.
  induction 1 as [|ps l ps' Rg [A R] G H].
  - split; [intros t; rewrite gets_pinit; exact I|intros p; rewrite getp_pinit; constructor].
  - split; [eapply pstep_gstack; eauto|eapply pstep_tl_g; eauto using preachable_g_preachable].
Qed.

(* no lost wake-up through path_lock: a thread of process p that sits in wait() of the path's ShareableThreadLock
   while no other thread holds that lock has been notified (every reachable state) *)
Lemma path_no_lost_wakeup_lemma ps p t r n rest :
  preachable pof ps -> stk (tl (getp ps p)) t = ExWait r n :: rest -> others_hold (tl (getp ps p)) t = false -> n = true.
Proof.
  intros R E O. eapply no_lost_wakeup_lemma; [exact (preachable_tl pof ps R p)|exact E|exact O].
Qed.

End PathG.

Lemma prun_preachable pof ps ls ps' : preachable pof ps -> prun pof ps ls = Some ps' -> preachable pof ps'.
Proof.
  revert ps. induction ls as [|l tl IH]; intros ps R H; cbn in H.
  - injection H as <-. exact R.
  - destruct (pstep pof ps l) as [ps1|] eqn:S; [|discriminate]. eapply IH; [|exact H]. eapply pr_step; [exact R|exact S].
Qed.
