(* PV.C15.Examples — non-vacuity: concrete, non-trivial reachable states meeting the hypotheses of the
   theorems of Properties.v (all computed by running the executable model). *)
From Coq Require Import List Bool Arith PeanoNat Lia.
From PV Require Import C15.Model C15.Proofs C15.PathModel C15.PathProofs C15.PathProgress C15.TwoPaths C15.Upgrade C15.Refuted.
Import ListNotations.
Local Open Scope nat_scope.

(* T0 holds shared and, alone, upgrades (non-blocking, reentrant) to exclusive while T1's shared request
   is parked and T2 (non-blocking exclusive) has been refused: hypotheses of excl_excludes, excl_owns_rlock,
   acquired_by_counts, nonblocking_refuses_sh/ex, refusal_justified.  The schedule respects the guard. *)
Definition ex_sched1 : list label :=
  [(0, APush (ShReq true true)); (0, AGo); (0, APush (ExReq false true)); (0, AGo); (1, APush (ShReq false false))].
Definition ex_state1 : state := mkState [[ExBody; ShBody]; [ShReq false false]] [2] (Some 0).

Example guarded_exclusive_state :
  run init ex_sched1 = Some ex_state1 /\ g_run init ex_sched1 = true /\ reachable_g ex_state1 /\
  In ExBody (stk ex_state1 0) /\ cnt ex_state1 0 = 2 /\ owner ex_state1 = Some 0 /\
  stepo ex_state1 (1, AGo) = Some (set_stk ex_state1 1 [], ORaise WouldBlock).
Proof.
  assert (R : run init ex_sched1 = Some ex_state1) by (vm_compute; reflexivity).
  assert (G : g_run init ex_sched1 = true) by (vm_compute; reflexivity).
  split; [exact R|]. split; [exact G|]. split; [eapply g_run_reachable; [constructor|exact G|exact R]|].
  split; [left; reflexivity|]. repeat split; vm_compute; reflexivity.
Qed.

(* A guarded state with a justified, un-notified waiter: T0 holds shared, T1 (no holds) requests exclusive
   blocking and waits; then T0 exits and T1 is notified and enabled: hypotheses of no_lost_wakeup,
   notified_waiter_enabled, deadlock_free. *)
Definition ex_sched2 : list label :=
  [(0, APush (ShReq true false)); (0, AGo); (1, APush (ExReq true false)); (1, AGo)].
Definition ex_state2 : state := mkState [[ShBody]; [ExWait false false]] [1] None.
Definition ex_state3 : state := mkState [[]; [ExWait false true]] [0] None.

Example guarded_waiter_state :
  run init ex_sched2 = Some ex_state2 /\ reachable_g ex_state2 /\
  stk ex_state2 1 = [ExWait false false] /\ others_hold ex_state2 1 = true /\
  run ex_state2 [(0, AGo); (0, AGo)] = Some ex_state3 /\ reachable_g ex_state3 /\
  others_hold ex_state3 1 = false /\ stk ex_state3 1 = [ExWait false true] /\ owner ex_state3 = None /\
  step ex_state3 (1, AGo) = Some (mkState [[]; [ExBody]] [0; 1] (Some 1)).
Proof.
  assert (R : run init ex_sched2 = Some ex_state2) by (vm_compute; reflexivity).
  assert (G : g_run init ex_sched2 = true) by (vm_compute; reflexivity).
  assert (RG : reachable_g ex_state2) by (eapply g_run_reachable; [constructor|exact G|exact R]).
  assert (R3 : run ex_state2 [(0, AGo); (0, AGo)] = Some ex_state3) by (vm_compute; reflexivity).
  split; [exact R|]. split; [exact RG|]. split; [reflexivity|]. split; [vm_compute; reflexivity|].
  split; [exact R3|]. split; [eapply g_run_reachable; [exact RG| |exact R3]; vm_compute; reflexivity|].
  repeat split; vm_compute; reflexivity.
Qed.

(* hypotheses of shared_compatible with two other shared holders present *)
Example shared_compatible_nonvacuous :
  exists s, reachable s /\ stk s 2 = [ShReq false false] /\ stk s 0 = [ShBody] /\ stk s 1 = [ShBody] /\
            (forall u, u <> 2 -> ~ In ExBody (stk s u)) /\ cnt s 2 = 0.
Proof.
  exists (mkState [[ShBody]; [ShBody]; [ShReq false false]] [1; 1] None).
  split.
  - eapply (run_reachable init [(0, APush (ShReq true true)); (0, AGo); (1, APush (ShReq true true)); (1, AGo);
                                (2, APush (ShReq false false))]); [constructor|vm_compute; reflexivity].
  - repeat split; try reflexivity. intros u Hu.
    do 4 (try (destruct u as [|u]; cbn; try tauto; try lia; try (intros [X|[]]; discriminate X))).
Qed.

(* hypotheses of the recursion theorems: a holder with a non-reentrant request on top *)
Example recursive_nonvacuous :
  exists s, reachable s /\ stk s 0 = [ExReq true false; ExBody] /\ cnt s 0 = 1 /\ others_hold s 0 = false /\
            stepo s (0, AGo) = Some (mkState [[ExBody]] [1] (Some 0), ORaise Recursive).
Proof.
  exists (mkState [[ExReq true false; ExBody]] [1] (Some 0)). split.
  - eapply (run_reachable init [(0, APush (ExReq true true)); (0, AGo); (0, APush (ExReq true false))]);
      [constructor|vm_compute; reflexivity].
  - repeat split; vm_compute; reflexivity.
Qed.

(* quiescent_empty after a non-trivial run: both threads went through nested bodies *)
Example quiescent_nonvacuous :
  run init [(0, APush (ShReq true true)); (0, AGo); (1, APush (ShReq true true)); (1, AGo); (1, AGo); (1, AGo);
            (0, APush (ExReq true true)); (0, AGo); (0, AGo); (0, AGo); (0, AGo)]
  = Some (mkState [[]; []] [0; 0] None).
Proof. vm_compute. reflexivity. Qed.

(* ---- path level.  Thread i belongs to process i (pof = identity). *)
Definition idp : tid -> nat := fun t => t.
Fixpoint gos (t : tid) (n : nat) : list plabel := match n with 0 => [] | S k => (t, PGo) :: gos t k end.

Definition psched1 : list plabel := (0, PPush true true false) :: gos 0 6 ++ (1, PPush true true false) :: gos 1 6.
Definition psched2 : list plabel := (0, PPush false true false) :: gos 0 6 ++ (1, PPush true true false) :: gos 1 5.
Definition psched3 : list plabel := (0, PPush true true true) :: gos 0 6 ++ (0, PPush false true true) :: gos 0 12 ++ gos 0 6.

(* two processes are inside shared bodies at the same time: both hold SH in the kernel, each has its descriptor open:
   hypotheses of path_body_holds_kernel_lock (shared case) *)
Example path_two_readers :
  exists ps, prun idp pinit psched1 = Some ps /\
             preachable idp ps /\
             map f_pc (gets ps 0) = [PBody] /\ map f_pc (gets ps 1) = [PBody] /\
             getk ps 0 = KSh /\ getk ps 1 = KSh /\ fd_ref (getp ps 0) = 1 /\ fd_ref (getp ps 1) = 1.
Proof.
  eexists. split; [vm_compute; reflexivity|]. split.
  - eapply (prun_preachable idp pinit psched1); [apply pr_init|vm_compute; reflexivity].
  - repeat split; vm_compute; reflexivity.
Qed.

(* process 0 is inside an exclusive body; the blocking shared request of process 1 is parked in lockf (not enabled)
   while holding its process mutex: hypotheses of path_excl_excludes / kernel_table_compatible *)
Example path_writer_blocks_other_process :
  exists ps, prun idp pinit psched2 = Some ps /\
             preachable idp ps /\
             map f_pc (gets ps 0) = [PBody] /\ map f_sh (gets ps 0) = [false] /\ getk ps 0 = KEx /\
             map f_pc (gets ps 1) = [PLockf] /\ getk ps 1 = KNone /\ mutex (getp ps 1) = Some 1 /\
             penabled idp ps 1 = false.
Proof.
  eexists. split; [vm_compute; reflexivity|]. split.
  - eapply (prun_preachable idp pinit psched2); [apply pr_init|vm_compute; reflexivity].
  - repeat split; vm_compute; reflexivity.
Qed.

(* a complete upgrade / downgrade round trip of one thread ends quiescent: hypotheses of path_quiescent_empty *)
Example path_round_trip_quiescent :
  exists ps, prun idp pinit psched3 = Some ps /\
             (forall t, gets ps t = []) /\ getk ps 0 = KNone /\ fd_ref (getp ps 0) = 0.
Proof.
  eexists. split; [vm_compute; reflexivity|]. split; [|split; vm_compute; reflexivity].
  intros t. unfold gets. cbn. destruct t as [|[|t]]; reflexivity.
Qed.

(* ---- guarded path-level reachability is inhabited by non-trivial states (hypothesis of path_deadlock_free), and the
   blocked reader of path_writer_blocks_other_process is a state in which path_granted_once_conflicts_gone does NOT apply
   (a conflicting block exists) while the writer itself can move *)
Lemma pg_run_preachable_g pof ps ls ps' :
  preachable_g pof ps -> pg_run pof ps ls = true -> prun pof ps ls = Some ps' -> preachable_g pof ps'.
Proof.
  revert ps. induction ls as [|l tl IH]; intros ps R G H; cbn in H, G.
  - injection H as <-. exact R.
  - apply andb_true_iff in G. destruct G as [G1 G2]. destruct (pstep pof ps l) as [ps1|] eqn:S; [|discriminate].
    eapply IH; [|exact G2|exact H]. eapply prg_step; eauto.
Qed.

Example path_guarded_blocked_state :
  exists ps, prun idp pinit psched2 = Some ps /\ preachable_g idp ps /\ (exists t, gets ps t <> []) /\
             penabled idp ps 1 = false /\ penabled idp ps 0 = true.
Proof.
  eexists. split; [vm_compute; reflexivity|]. split.
  - eapply (pg_run_preachable_g idp pinit psched2); [apply prg_init|vm_compute; reflexivity|vm_compute; reflexivity].
  - split; [exists 0; vm_compute; discriminate|]. split; vm_compute; reflexivity.
Qed.

(* the single-upgrader guard is strictly weaker than the no-upgrade guard: the former lost-wake-up schedule (one
   upgrader) satisfies g1 but not g and reaches a state with an upgrader waiting (hypothesis of
   deadlock_free_single_upgrader); the mutual-upgrade schedule violates g1 as well *)
Example single_upgrader_guard :
  g1_run init lost_wakeup_schedule = true /\ g_run init lost_wakeup_schedule = false /\
  g1_run init mutual_upgrade_schedule = false /\
  (exists s, run init [(0, APush sh_rr); (0, AGo); (1, APush sh_rr); (1, AGo); (0, APush ex_rr); (0, AGo)] = Some s /\
             reachable_g1 s /\ upgraderb s 0 = true /\ stk s 0 = [ExWait true false; ShBody] /\ enabled s 1 = true).
Proof.
  repeat split; try (vm_compute; reflexivity).
  eexists. split; [vm_compute; reflexivity|]. split.
  - eapply (g1_run_reachable init [(0, APush sh_rr); (0, AGo); (1, APush sh_rr); (1, AGo); (0, APush ex_rr); (0, AGo)]);
      [constructor|vm_compute; reflexivity|vm_compute; reflexivity].
  - repeat split; vm_compute; reflexivity.
Qed.

(* ---- two paths: thread 0 (process 0) nests an exclusive lock on path 1 inside a shared lock on path 0; thread 1
   (process 1) asks for path 1 shared, non-blocking, while process 0 holds it exclusively: it is refused at the process level
   and unwinds through all pools; then everybody leaves.  Hypotheses of two_paths_quiescent_empty (and a non-trivial history). *)
Fixpoint gos2 (i : bool) (t : tid) (n : nat) : list label2 := match n with 0 => [] | S k => (i, (t, PGo)) :: gos2 i t k end.
Definition sched2 : list label2 :=
  (false, (0, PPush true true false)) :: gos2 false 0 6 ++ (true, (0, PPush false true false)) :: gos2 true 0 6 ++
  (true, (1, PPush true false false)) :: gos2 true 1 6.
Definition sched2_rest : list label2 := gos2 true 0 5 ++ gos2 false 0 6 ++ gos2 true 1 4.

Example two_paths_quiescent_nonvacuous :
  exists s1 s2,
    run2 idp init2 sched2 = Some s1 /\ ord s1 0 = [true; false] /\ getk (comp1 s1) 0 = KEx /\ getk (comp0 s1) 0 = KSh /\
    map f_pc (gets (comp1 s1) 1) = [PXPLPool (Some PProcWouldBlock)] /\
    run2 idp s1 sched2_rest = Some s2 /\ reachable2 idp s2 /\ (forall t, ord s2 t = []).
Proof.
  eexists. eexists. split; [vm_compute; reflexivity|]. do 4 (split; [vm_compute; reflexivity|]).
  split; [vm_compute; reflexivity|]. split.
  - eapply (run2_reachable idp init2 (sched2 ++ sched2_rest)); [apply r2_init|vm_compute; reflexivity].
  - intros t. destruct t as [|[|t]]; vm_compute; try reflexivity. destruct t; reflexivity.
Qed.
