(* PV.C15.PathModel — the whole of `path_lock` on ONE path, for any number of processes and threads:
   the thread level (Model.v, one ShareableThreadLock per process), the three reference-counted pools
   (`_thread_level_lock_ref`, `_fd_ref`, `_process_level_lock_ref`), `ShareableProcessLock` (mutex, the
   two Counters, first-lock / upgrade / downgrade / unlock decisions) and the kernel's fcntl table
   (one lock mode per process for the file; closing the descriptor drops the process's lock).
   NO proofs in this file.

   Granularity: as in Model.v one transition = the code a thread runs from one blocking primitive to
   the next.  Blocking primitives: every `Lock.acquire` (pool mutexes, ShareableProcessLock._lock),
   `Condition.acquire/wait`, and `fcntl.lockf` with LOCK_SH / LOCK_EX (LOCK_UN never blocks and is not a
   scheduling point).  The pool mutexes are never held across a scheduling point, hence always free when
   a thread is parked on them: they are not part of the state.  `ShareableProcessLock._lock` IS held
   across `fcntl.lockf` and is part of the state.

   A thread belongs to a process (`pof : tid -> nat`, a parameter of the step function).  Every thread
   has a stack of path frames, one per `with path_lock(...)` it is inside or entering; the thread-level
   frames of the same thread live in the process's `Model.state` and move in lock step. *)
From Coq Require Import List Bool Arith PeanoNat.
From PV Require Import C15.Model.
Import ListNotations.
Local Open Scope nat_scope.

Inductive pexc := PThreadWouldBlock | PRecursive | PProcWouldBlock.
Inductive kmode := KNone | KSh | KEx.

Inductive ppc :=
| PTPool                       (* parked at the mutex of _thread_level_lock_ref, entering *)
| PThread                      (* inside ShareableThreadLock.lock entry: Model frame ShReq/ExReq/ExWait on top *)
| PFdPool                      (* parked at the mutex of _fd_ref, entering *)
| PPLPool                      (* parked at the mutex of _process_level_lock_ref, entering *)
| PMutex                       (* parked at ShareableProcessLock._lock.acquire(blocking) *)
| PLockf                       (* parked in fcntl.lockf (first lock or upgrade), holding ShareableProcessLock._lock *)
| PBody                        (* inside the body of `with path_lock(...)` *)
| PXMutex                      (* parked at `with self._lock` in the finally of ShareableProcessLock.lock *)
| PXDown                       (* parked in fcntl.lockf(LOCK_SH) (downgrade), holding ShareableProcessLock._lock *)
| PXPLPool (e : option pexc)   (* parked at the mutex of _process_level_lock_ref, leaving (e = exception in flight) *)
| PXFdPool (e : option pexc)   (* parked at the mutex of _fd_ref, leaving *)
| PXThread (e : option pexc)   (* parked at condition.acquire in the finally of _lock_sh: Model frame ShExit *)
| PXTPool (e : option pexc).   (* parked at the mutex of _thread_level_lock_ref, leaving *)

Record pframe := mkPF { f_sh : bool; f_b : bool; f_r : bool; f_pc : ppc }.

Record proc := mkProc {
  tl : state;            (* the ShareableThreadLock of the path (meaningful while tl_ref > 0) *)
  tl_ref : nat;          (* refcount in _thread_level_lock_ref; 0 = no entry *)
  fd_ref : nat;          (* refcount in _fd_ref; the descriptor is open iff > 0 *)
  pl_ref : nat;          (* refcount in _process_level_lock_ref *)
  mutex : option tid;    (* owner of ShareableProcessLock._lock *)
  sh_by : list nat;      (* ShareableProcessLock._shared_by *)
  ex_by : list nat       (* ShareableProcessLock._exclusively_held_by *)
}.

Record pstate := mkP {
  procs : list proc;
  kern : list kmode;           (* kernel fcntl table: lock held by each process on the file *)
  pstk : list (list pframe)
}.

Definition proc0 : proc := mkProc init 0 0 0 None [] [].
Definition pinit : pstate := mkP [] [] [].

Inductive paction := PPush (sh b r : bool) | PGo.
Inductive pobs := POPush | POStep | POWait | POEnter | POExit | PORaise (e : pexc).
Definition plabel := (tid * paction)%type.

Definition getp (ps : pstate) (p : nat) : proc := nth p (procs ps) proc0.
Definition setp (ps : pstate) (p : nat) (v : proc) : pstate := mkP (set_nth proc0 p v (procs ps)) (kern ps) (pstk ps).
Definition getk (ps : pstate) (p : nat) : kmode := nth p (kern ps) KNone.
Definition setk (ps : pstate) (p : nat) (k : kmode) : pstate := mkP (procs ps) (set_nth KNone p k (kern ps)) (pstk ps).
Definition gets (ps : pstate) (t : tid) : list pframe := nth t (pstk ps) [].
Definition sets (ps : pstate) (t : tid) (v : list pframe) : pstate := mkP (procs ps) (kern ps) (set_nth [] t v (pstk ps)).

Definition with_pc (f : pframe) (pc : ppc) : pframe := mkPF (f_sh f) (f_b f) (f_r f) pc.
Definition req_of (f : pframe) : frame := if f_sh f then ShReq (f_b f) (f_r f) else ExReq (f_b f) (f_r f).
Definition lift_exc (e : exc) : pexc := match e with WouldBlock => PThreadWouldBlock | Recursive => PRecursive end.

Definition p_can_push (l : list pframe) : bool :=
  match l with [] => true | f :: _ => match f_pc f with PBody => true | _ => false end end.

(* process record updates *)
Definition p_tl (P : proc) (s : state) : proc := mkProc s (tl_ref P) (fd_ref P) (pl_ref P) (mutex P) (sh_by P) (ex_by P).
Definition p_tlref (P : proc) (n : nat) : proc := mkProc (tl P) n (fd_ref P) (pl_ref P) (mutex P) (sh_by P) (ex_by P).
Definition p_fdref (P : proc) (n : nat) : proc := mkProc (tl P) (tl_ref P) n (pl_ref P) (mutex P) (sh_by P) (ex_by P).
Definition p_plref (P : proc) (n : nat) : proc := mkProc (tl P) (tl_ref P) (fd_ref P) n (mutex P) (sh_by P) (ex_by P).
Definition p_mutex (P : proc) (m : option tid) : proc := mkProc (tl P) (tl_ref P) (fd_ref P) (pl_ref P) m (sh_by P) (ex_by P).
Definition p_sh (P : proc) (l : list nat) : proc := mkProc (tl P) (tl_ref P) (fd_ref P) (pl_ref P) (mutex P) l (ex_by P).
Definition p_ex (P : proc) (l : list nat) : proc := mkProc (tl P) (tl_ref P) (fd_ref P) (pl_ref P) (mutex P) (sh_by P) l.
Definition p_fresh_pl (P : proc) : proc := mkProc (tl P) (tl_ref P) (fd_ref P) (pl_ref P) None [] [].

Definition cget (l : list nat) (t : tid) : nat := nth t l 0.
Definition cset (l : list nat) (t : tid) (v : nat) : list nat := set_nth 0 t v l.
Definition cnonempty (l : list nat) : bool := negb (forallb (Nat.eqb 0) l).   (* bool(Counter) *)

(* the kernel grants `want` to process p iff it is compatible with every OTHER process's lock *)
Definition k_compat (want other : kmode) : bool :=
  match want, other with
  | KEx, KNone => true | KEx, _ => false
  | KSh, KEx => false
  | _, _ => true
  end.
Fixpoint compat_from (i p : nat) (want : kmode) (l : list kmode) : bool :=
  match l with
  | [] => true
  | k :: tl => (Nat.eqb i p || k_compat want k) && compat_from (S i) p want tl
  end.
Definition kernel_grants (ps : pstate) (p : nat) (want : kmode) : bool := compat_from 0 p want (kern ps).

(* increment the Counter chosen by the mode *)
Definition count_in (P : proc) (t : tid) (sh : bool) : proc :=
  if sh then p_sh P (cset (sh_by P) t (S (cget (sh_by P) t))) else p_ex P (cset (ex_by P) t (S (cget (ex_by P) t))).
Definition count_out (P : proc) (t : tid) (sh : bool) : proc :=
  if sh then p_sh P (cset (sh_by P) t (cget (sh_by P) t - 1)) else p_ex P (cset (ex_by P) t (cget (ex_by P) t - 1)).

Definition pstepo (pof : tid -> nat) (ps : pstate) (l : plabel) : option (pstate * pobs) :=
  let (t, a) := l in
  let p := pof t in
  let P := getp ps p in
  match a with
  | PPush sh b r =>
      if p_can_push (gets ps t) then Some (sets ps t (mkPF sh b r PTPool :: gets ps t), POPush) else None
  | PGo =>
      match gets ps t with
      | [] => None
      | f :: rest =>
          let top pc := sets ps t (with_pc f pc :: rest) in
          match f_pc f with
          | PTPool =>
              (* pool: create the ShareableThreadLock or count one more reference; then ref.lock(...) parks at condition.acquire *)
              let P1 := if tl_ref P =? 0 then p_tl P init else P in
              let P2 := p_tlref P1 (S (tl_ref P1)) in
              match stepo (tl P2) (t, APush (req_of f)) with
              | Some (s', _) => Some (setp (top PThread) p (p_tl P2 s'), POStep)
              | None => None
              end
          | PThread =>
              match stepo (tl P) (t, AGo) with
              | Some (s', OEnterSh) | Some (s', OEnterEx) => Some (setp (top PFdPool) p (p_tl P s'), POStep)
              | Some (s', OWait) => Some (setp (top PThread) p (p_tl P s'), POWait)
              | Some (s', ORaise e) => Some (setp (top (PXTPool (Some (lift_exc e)))) p (p_tl P s'), POStep)
              | _ => None
              end
          | PFdPool =>
              (* os.open on the first reference *)
              Some (setp (top PPLPool) p (p_fdref P (S (fd_ref P))), POStep)
          | PPLPool =>
              let P1 := if pl_ref P =? 0 then p_fresh_pl P else P in
              Some (setp (top PMutex) p (p_plref P1 (S (pl_ref P1))), POStep)
          | PMutex =>
              match mutex P with
              | Some _ => if f_b f then None
                          else Some (top (PXPLPool (Some PProcWouldBlock)), POStep)
              | None =>
                  if negb (f_r f) && ((0 <? cget (sh_by P) t) || (0 <? cget (ex_by P) t))
                  then Some (top (PXPLPool (Some PRecursive)), POStep)
                  else
                    let held_sh := cnonempty (sh_by P) in
                    let held_ex := cnonempty (ex_by P) in
                    if negb (held_sh || held_ex) || (held_sh && negb (f_sh f))
                    then Some (setp (top PLockf) p (p_mutex P (Some t)), POStep)
                    else Some (setp (top PBody) p (count_in P t (f_sh f)), POEnter)
              end
          | PLockf =>
              let want := if f_sh f then KSh else KEx in
              if kernel_grants ps p want
              then Some (setk (setp (top PBody) p (p_mutex (count_in P t (f_sh f)) None)) p want, POEnter)
              else if f_b f then None
              else Some (setp (top (PXPLPool (Some PProcWouldBlock))) p (p_mutex P None), POStep)
          | PBody => Some (top PXMutex, POStep)
          | PXMutex =>
              match mutex P with
              | Some _ => None
              | None =>
                  let P1 := count_out P t (f_sh f) in
                  let held_sh := cnonempty (sh_by P1) in
                  let held_ex := cnonempty (ex_by P1) in
                  if negb (held_sh || held_ex)
                  then Some (setk (setp (top (PXPLPool None)) p P1) p KNone, POStep)
                  else if negb held_ex && negb (f_sh f)
                  then Some (setp (top PXDown) p (p_mutex P1 (Some t)), POStep)
                  else Some (setp (top (PXPLPool None)) p P1, POStep)
              end
          | PXDown =>
              if kernel_grants ps p KSh
              then Some (setk (setp (top (PXPLPool None)) p (p_mutex P None)) p KSh, POStep)
              else None
          | PXPLPool e => Some (setp (top (PXFdPool e)) p (p_plref P (pl_ref P - 1)), POStep)
          | PXFdPool e =>
              (* os.close on the last reference drops the process's fcntl lock; then the thread-level exit begins *)
              let P1 := p_fdref P (fd_ref P - 1) in
              let ps1 := if fd_ref P1 =? 0 then setk ps p KNone else ps in
              match stepo (tl P1) (t, AGo) with
              | Some (s', OLeave) => Some (setp (sets ps1 t (with_pc f (PXThread e) :: rest)) p (p_tl P1 s'), POStep)
              | Some (s', OExitEx) => Some (setp (sets ps1 t (with_pc f (PXTPool e) :: rest)) p (p_tl P1 s'), POStep)
              | _ => None
              end
          | PXThread e =>
              match stepo (tl P) (t, AGo) with
              | Some (s', OExitSh _) => Some (setp (top (PXTPool e)) p (p_tl P s'), POStep)
              | _ => None
              end
          | PXTPool e =>
              Some (setp (sets ps t rest) p (p_tlref P (tl_ref P - 1)),
                    match e with None => POExit | Some x => PORaise x end)
          end
      end
  end.

Definition pstep (pof : tid -> nat) (ps : pstate) (l : plabel) : option pstate := option_map fst (pstepo pof ps l).

Inductive preachable (pof : tid -> nat) : pstate -> Prop :=
| pr_init : preachable pof pinit
| pr_step : forall ps l ps', preachable pof ps -> pstep pof ps l = Some ps' -> preachable pof ps'.

Fixpoint prun (pof : tid -> nat) (ps : pstate) (ls : list plabel) : option pstate :=
  match ls with
  | [] => Some ps
  | l :: tl => match pstep pof ps l with Some ps' => prun pof ps' tl | None => None end
  end.

(* the upgrade pattern at path level: a blocking exclusive request by a thread that is inside shared bodies only *)
Definition p_holds_ex (l : list pframe) : bool := existsb (fun f => negb (f_sh f)) l.
Definition pg_label (ps : pstate) (l : plabel) : bool :=
  match l with
  | (t, PPush false true _) => match gets ps t with [] => true | _ => p_holds_ex (gets ps t) end
  | _ => true
  end.

Inductive preachable_g (pof : tid -> nat) : pstate -> Prop :=
| prg_init : preachable_g pof pinit
| prg_step : forall ps l ps', preachable_g pof ps -> pg_label ps l = true -> pstep pof ps l = Some ps' -> preachable_g pof ps'.

Fixpoint pg_run (pof : tid -> nat) (ps : pstate) (ls : list plabel) : bool :=
  match ls with
  | [] => true
  | l :: tl => pg_label ps l && match pstep pof ps l with Some ps' => pg_run pof ps' tl | None => false end
  end.

Definition penabled (pof : tid -> nat) (ps : pstate) (t : tid) : bool :=
  match pstep pof ps (t, PGo) with Some _ => true | None => false end.
