(* PV.C15.Model — thread level of pharmpy.internals.fs.lock: `ShareableThreadLock` as an executable
   labelled transition system.  NO proofs in this file.

   Granularity.  One transition = one *atomic section* of lock.py: the code a thread runs from one
   blocking point (`Condition.acquire`, `Condition.wait`) up to the next one.  `release` is not a
   blocking point (the code after it touches only thread-local data), so the statements
       acquire ; check ; count += 1 ; release        (_lock_sh, entry)
       acquire ; count -= 1 ; del ; notify_all (whenever the thread's own count reaches 0) ; release   (_lock_sh, finally)
       acquire ; while others: wait                   (_lock_ex, up to wait / yield / raise)
   are single transitions.  The harness schedules the real code at this granularity (a virtual
   Condition/RLock parks the thread at every acquire / wait) and ADDITIONALLY right after a thread has
   released the last lock it holds: the code that follows runs as a separate "stutter" step in which
   the model does not move and all compared state must be unchanged (Check.v, field s_stutter) -- so the
   assumption that nothing shared is touched outside the critical sections is checked, not assumed.

   Representation (DESIGN.md section 6 C15): every thread carries a stack of frames (top = head), one
   frame per `with lock.lock(...)` it is inside or entering; a frame is a program counter.  Of the RLock
   only the owner is stored; its depth is DEFINED as the owner's number of `ExBody` frames (the only
   frames that keep the RLock across blocking points) and compared with the real depth by the tie.
   `_acquired_by` is a total map thread -> nat (0 = key absent: the code deletes zero entries).
   Threads are natural numbers; the per-thread components are lists indexed by thread id, padded on
   demand, so the number of threads is unbounded. *)
From Coq Require Import List Bool Arith PeanoNat.
Import ListNotations.
Local Open Scope nat_scope.

Definition tid := nat.

Inductive frame :=
| ShReq (b r : bool)            (* parked at `self._condition.acquire(blocking=b)` of _lock_sh(reentrant=r) *)
| ShBody                        (* inside the body of `with lock(shared=True)` *)
| ShExit                        (* parked at `self._condition.acquire(blocking=True)` in the finally of _lock_sh *)
| ExReq (b r : bool)            (* parked at `self._condition.acquire(blocking=b)` of _lock_ex(reentrant=r) *)
| ExWait (r : bool) (n : bool)  (* inside `self._condition.wait()`; n = has been notified *)
| ExBody.                       (* inside the body of `with lock(shared=False)`: still owns the RLock *)

Inductive exc := WouldBlock | Recursive.   (* AcquiringThreadLevelLockWouldBlockError | RecursiveDeadlockError *)

Inductive obs :=
| OPush | OEnterSh | OEnterEx | OLeave | OExitSh (notified : bool) | OExitEx | OWait | ORaise (e : exc).

Inductive action :=
| APush (f : frame)   (* the thread's program starts a new request (only from idle or from inside a body) *)
| AGo.                (* the thread runs its next atomic section *)

Definition label := (tid * action)%type.

Record state := mkState {
  stacks : list (list frame);
  acq : list nat;              (* ShareableThreadLock._acquired_by *)
  owner : option tid           (* owner of the Condition's RLock *)
}.

Definition init : state := mkState [] [] None.

(* ---- padded list update *)
Fixpoint set_nth {A} (d : A) (n : nat) (v : A) (l : list A) : list A :=
  match n, l with
  | 0, [] => [v]
  | 0, _ :: tl => v :: tl
  | S n', [] => d :: set_nth d n' v []
  | S n', x :: tl => x :: set_nth d n' v tl
  end.

Definition stk (s : state) (t : tid) : list frame := nth t (stacks s) [].
Definition cnt (s : state) (t : tid) : nat := nth t (acq s) 0.

Definition set_stk (s : state) (t : tid) (v : list frame) : state :=
  mkState (set_nth [] t v (stacks s)) (acq s) (owner s).
Definition set_cnt (s : state) (t : tid) (v : nat) : state :=
  mkState (stacks s) (set_nth 0 t v (acq s)) (owner s).
Definition set_owner (s : state) (o : option tid) : state := mkState (stacks s) (acq s) o.

(* ---- frame classes *)
Definition is_req (f : frame) : bool := match f with ShReq _ _ | ExReq _ _ => true | _ => false end.
Definition is_body (f : frame) : bool := match f with ShBody | ExBody => true | _ => false end.
Definition is_exbody (f : frame) : bool := match f with ExBody => true | _ => false end.
(* frames that are counted in _acquired_by *)
Definition counted (f : frame) : bool := match f with ShBody | ShExit | ExBody => true | _ => false end.
Definition ncounted (l : list frame) : nat := length (filter counted l).
Definition has_ex (l : list frame) : bool := existsb is_exbody l.
Definition depth_of (l : list frame) : nat := length (filter is_exbody l).

(* a program may start a request when it is idle or inside a body *)
Definition can_push (l : list frame) : bool :=
  match l with [] => true | f :: _ => is_body f end.

(* ---- the conditions the code tests *)
(* RLock.acquire succeeds for t iff nobody or t itself owns it *)
Definition free_for (s : state) (t : tid) : bool :=
  match owner s with None => true | Some o => Nat.eqb o t end.

Fixpoint others_from (i : nat) (t : tid) (l : list nat) : bool :=
  match l with
  | [] => false
  | c :: tl => (negb (Nat.eqb i t) && (0 <? c)) || others_from (S i) t tl
  end.
(* `self._acquired_by - Counter({t: self._acquired_by[t]})` is non-empty *)
Definition others_hold (s : state) (t : tid) : bool := others_from 0 t (acq s).
(* `not self._acquired_by` *)
Definition acq_empty (s : state) : bool := forallb (Nat.eqb 0) (acq s).

(* Condition.notify_all: every thread inside wait() becomes notified *)
Definition notify_frame (f : frame) : frame := match f with ExWait r _ => ExWait r true | _ => f end.
Definition notify_stack (l : list frame) : list frame :=
  match l with f :: tl => notify_frame f :: tl | [] => [] end.
Definition notify_all (s : state) : state := mkState (map notify_stack (stacks s)) (acq s) (owner s).

(* Condition.release by t after its frame has been popped: one level less; the RLock stays owned
   iff an enclosing exclusive body of t still holds a level *)
Definition release (s : state) (t : tid) : state :=
  set_owner s (if has_ex (stk s t) then Some t else None).

(* _lock_ex after the RLock has been (re)acquired by t: the `while ...: wait()` test, the
   non-blocking test, the recursion test, the increment *)
Definition ex_check (s : state) (t : tid) (b r : bool) (rest : list frame) : state * obs :=
  if others_hold s t then
    if b then (set_owner (set_stk s t (ExWait r false :: rest)) None, OWait)
    else (release (set_stk s t rest) t, ORaise WouldBlock)
  else if (0 <? cnt s t) && negb r then (release (set_stk s t rest) t, ORaise Recursive)
  else (set_owner (set_cnt (set_stk s t (ExBody :: rest)) t (S (cnt s t))) (Some t), OEnterEx).

Definition stepo (s : state) (l : label) : option (state * obs) :=
  let (t, a) := l in
  match a with
  | APush f =>
      if is_req f && can_push (stk s t) then Some (set_stk s t (f :: stk s t), OPush) else None
  | AGo =>
      match stk s t with
      | [] => None
      | ShReq b r :: rest =>
          if free_for s t then
            if negb r && (0 <? cnt s t) then Some (set_stk s t rest, ORaise Recursive)
            else Some (set_cnt (set_stk s t (ShBody :: rest)) t (S (cnt s t)), OEnterSh)
          else if b then None
          else Some (set_stk s t rest, ORaise WouldBlock)
      | ShBody :: rest => Some (set_stk s t (ShExit :: rest), OLeave)
      | ShExit :: rest =>
          if free_for s t then
            let s1 := set_cnt (set_stk s t rest) t (cnt s t - 1) in
            if cnt s t - 1 =? 0 then Some (notify_all s1, OExitSh true)
            else Some (s1, OExitSh false)
          else None
      | ExReq b r :: rest =>
          if free_for s t then Some (ex_check s t b r rest)
          else if b then None
          else Some (set_stk s t rest, ORaise WouldBlock)
      | ExWait r n :: rest =>
          if n then match owner s with
                    | None => Some (ex_check s t true r rest)
                    | Some _ => None
                    end
          else None
      | ExBody :: rest =>
          Some (release (set_cnt (set_stk s t rest) t (cnt s t - 1)) t, OExitEx)
      end
  end.

Definition step (s : state) (l : label) : option state := option_map fst (stepo s l).

Inductive reachable : state -> Prop :=
| r_init : reachable init
| r_step : forall s l s', reachable s -> step s l = Some s' -> reachable s'.

(* ---- the upgrade pattern: a BLOCKING EXCLUSIVE request by a thread that holds the lock only shared.
   g_label is the guard of the progress theorems; it is false exactly on such a push. *)
Definition g_label (s : state) (l : label) : bool :=
  match l with
  | (t, APush (ExReq true _)) => (cnt s t =? 0) || has_ex (stk s t)
  | _ => true
  end.

Inductive reachable_g : state -> Prop :=
| rg_init : reachable_g init
| rg_step : forall s l s', reachable_g s -> g_label s l = true -> step s l = Some s' -> reachable_g s'.

(* ---- the narrower progress guard: an upgrade push is allowed when no OTHER thread is currently an upgrader
   (a thread with a blocking exclusive request pending while it holds the lock only shared).  Since 01dac8d a single
   upgrader makes progress; only two simultaneous upgraders deadlock. *)
Definition upgraderb (s : state) (t : tid) : bool :=
  match stk s t with
  | ExReq true _ :: rest => (0 <? cnt s t) && negb (has_ex rest)
  | ExWait _ _ :: _ => 0 <? cnt s t
  | _ => false
  end.

Definition g1_label (s : state) (l : label) : bool :=
  match l with
  | (t, APush (ExReq true _)) =>
      (cnt s t =? 0) || has_ex (stk s t) || forallb (fun u => Nat.eqb u t || negb (upgraderb s u)) (seq 0 (length (stacks s)))
  | _ => true
  end.

Inductive reachable_g1 : state -> Prop :=
| rg1_init : reachable_g1 init
| rg1_step : forall s l s', reachable_g1 s -> g1_label s l = true -> step s l = Some s' -> reachable_g1 s'.

Fixpoint g1_run (s : state) (ls : list label) : bool :=
  match ls with
  | [] => true
  | l :: tl => g1_label s l && match step s l with Some s' => g1_run s' tl | None => false end
  end.

(* running a schedule; None = some label was not enabled *)
Fixpoint run (s : state) (ls : list label) : option state :=
  match ls with
  | [] => Some s
  | l :: tl => match step s l with Some s' => run s' tl | None => None end
  end.
Fixpoint g_run (s : state) (ls : list label) : bool :=
  match ls with
  | [] => true
  | l :: tl => g_label s l && match step s l with Some s' => g_run s' tl | None => false end
  end.

(* ---- observables of a state, used by the statements and by the tie *)
Definition nthreads (s : state) : nat := length (stacks s).
Definition threads (s : state) : list tid := seq 0 (nthreads s).
(* some thread other than the pushers can run an atomic section *)
Definition enabled (s : state) (t : tid) : bool := match step s (t, AGo) with Some _ => true | None => false end.
Definition stuck (s : state) : bool := forallb (fun t => negb (enabled s t)) (threads s).
Definition busy (s : state) : bool := existsb (fun t => match stk s t with [] => false | _ => true end) (threads s).
Definition is_unnotified_waiter (l : list frame) : bool :=
  match l with ExWait _ false :: _ => true | _ => false end.
