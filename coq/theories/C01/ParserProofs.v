(* PV.C01.ParserProofs — parse (print p) = Some p. *)
From Coq Require Import QArith List Bool PArith Arith Lia.
From PV Require Import Base.PyData Base.Expr Base.Interp C01.Model C01.Proofs C01.Parser.
Import ListNotations.
Local Open Scope nat_scope.

(* ---- unfolding equations ---------------------------------------------------------------------- *)
Lemma p_add_S n ts : p_add (S n) ts = match p_mul n ts with Some (a, r) => add_loop n a r | None => None end.
Proof. reflexivity. Qed.
Lemma add_loop_S n acc ts : add_loop (S n) acc ts =
  match ts with
  | TPlus :: r => match p_mul n r with Some (b, r') => add_loop n (Add acc b) r' | None => None end
  | TMinus :: r => match p_mul n r with Some (b, r') => add_loop n (Add acc (Neg b)) r' | None => None end
  | _ => Some (acc, ts)
  end.
Proof. reflexivity. Qed.
Lemma p_mul_S n ts : p_mul (S n) ts = match p_sgn n ts with Some (a, r) => mul_loop n a r | None => None end.
Proof. reflexivity. Qed.
Lemma mul_loop_S n acc ts : mul_loop (S n) acc ts =
  match ts with
  | TStar :: r => match p_sgn n r with Some (b, r') => mul_loop n (Mul acc b) r' | None => None end
  | TSlash :: r => match p_sgn n r with Some (b, r') => mul_loop n (Div acc b) r' | None => None end
  | _ => Some (acc, ts)
  end.
Proof. reflexivity. Qed.
Lemma p_sgn_S n ts : p_sgn (S n) ts =
  match ts with
  | TMinus :: r => match p_pow n r with Some (a, r') => Some (Neg a, r') | None => None end
  | TPlus :: r => p_pow n r
  | _ => p_pow n ts
  end.
Proof. reflexivity. Qed.
Lemma p_pow_S n ts : p_pow (S n) ts =
  match p_atom n ts with
  | Some (a, TPow :: r) => match p_sgn n r with Some (b, r') => Some (Fn2 F_POW a b, r') | None => None end
  | other => other
  end.
Proof. reflexivity. Qed.
Lemma p_atom_S n ts : p_atom (S n) ts =
  match ts with
  | TNum q :: r => Some (Num q, r)
  | TId s :: r => Some (Sym s, r)
  | TLp :: r => match p_add n r with Some (a, TRp :: r') => Some (a, r') | _ => None end
  | TFn f :: TLp :: r =>
      match p_add n r with
      | Some (a, TRp :: r') => Some (Fn1 f a, r')
      | Some (a, TComma :: r') => match p_add n r' with Some (b, TRp :: r'') => Some (Fn2 f a b, r'') | _ => None end
      | _ => None
      end
  | _ => None
  end.
Proof. reflexivity. Qed.

(* ---- what may follow an operand ----------------------------------------------------------------- *)
Definition no_pow (ts : list tok) : bool := match ts with TPow :: _ => false | _ => true end.
Definition no_mul (ts : list tok) : bool := match ts with TPow :: _ | TStar :: _ | TSlash :: _ => false | _ => true end.
Definition no_add (ts : list tok) : bool :=
  match ts with TPow :: _ | TStar :: _ | TSlash :: _ | TPlus :: _ | TMinus :: _ => false | _ => true end.
Definition start_ok (ts : list tok) : bool :=
  match ts with TNum _ :: _ | TId _ :: _ | TFn _ :: _ | TLp :: _ => true | _ => false end.

Lemma sgn_start n ts rest : start_ok ts = true -> p_sgn (S n) (ts ++ rest) = p_pow n (ts ++ rest).
Proof.
  intro H. rewrite p_sgn_S. destruct ts as [|t tl]; [discriminate|]. cbn [app].
  destruct t; try discriminate; reflexivity.
Qed.

Section Lift.
  Variables (ts : list tok) (e : expr) (k : nat).
  Hypothesis Hat : forall n rest, k <= n -> p_atom n (ts ++ rest) = Some (e, rest).
  Hypothesis Hst : start_ok ts = true.

  Lemma pow_ok n rest : k + 1 <= n -> no_pow rest = true -> p_pow n (ts ++ rest) = Some (e, rest).
  Proof.
    intros Hn Hr. destruct n as [|n]; [lia|]. rewrite p_pow_S, Hat by lia.
    destruct rest as [|t r]; [reflexivity|]. destruct t; try reflexivity. discriminate.
  Qed.

  Lemma sgn_ok n rest : k + 2 <= n -> no_pow rest = true -> p_sgn n (ts ++ rest) = Some (e, rest).
  Proof.
    intros Hn Hr. destruct n as [|n]; [lia|]. rewrite (sgn_start n ts rest Hst).
    apply pow_ok; assumption || lia.
  Qed.

  Lemma mul_ok n rest : k + 4 <= n -> no_mul rest = true -> p_mul n (ts ++ rest) = Some (e, rest).
  Proof.
    intros Hn Hr. destruct n as [|n]; [lia|]. rewrite p_mul_S, sgn_ok; [|lia|].
    - destruct n as [|n]; [lia|]. rewrite mul_loop_S.
      destruct rest as [|t r]; [reflexivity|]. destruct t; try reflexivity; discriminate.
    - destruct rest as [|t r]; [reflexivity|]. destruct t; try reflexivity; discriminate.
  Qed.

  Lemma add_ok n rest : k + 6 <= n -> no_add rest = true -> p_add n (ts ++ rest) = Some (e, rest).
  Proof.
    intros Hn Hr. destruct n as [|n]; [lia|]. rewrite p_add_S, mul_ok; [|lia|].
    - destruct n as [|n]; [lia|]. rewrite add_loop_S.
      destruct rest as [|t r]; [reflexivity|]. destruct t; try reflexivity; discriminate.
    - destruct rest as [|t r]; [reflexivity|]. destruct t; try reflexivity; discriminate.
  Qed.
End Lift.

(* ---- expressions ---------------------------------------------------------------------------------- *)
Fixpoint esize (e : expr) : nat :=
  match e with
  | Num _ | Sym _ | PwNil => 1
  | Fn1 _ a | Neg a => S (esize a)
  | Fn2 _ a b | Add a b | Mul a b | Div a b => S (esize a + esize b)
  | PwCons _ a b => S (esize a + esize b)
  end.
Definition need (e : expr) : nat := 12 * esize e.

Lemma pr_start e : wfe e = true -> start_ok (pr e) = true.
Proof.
  destruct e; cbn [wfe pr]; try reflexivity; try discriminate.
  - intros _. destruct (Pos.eqb f F_POW); reflexivity.
  - intros _. destruct e2; reflexivity.
Qed.

Lemma atom_ok_size m : forall e, esize e <= m -> wfe e = true ->
  forall n rest, need e <= n -> p_atom n (pr e ++ rest) = Some (e, rest).
Proof.
  induction m as [|m IH]; intros e Hs Hw n rest Hn.
  - destruct e; cbn in Hs; lia.
  - assert (A : forall x, esize x <= m -> wfe x = true ->
               (forall n rest, need x <= n -> p_atom n (pr x ++ rest) = Some (x, rest)) /\ start_ok (pr x) = true).
    { intros x Hx Hwx. split; [apply IH; assumption | apply pr_start; exact Hwx]. }
    unfold need in *.
    destruct e as [q|s|f a|f a b|a b|a b|a|a b| |c a b]; cbn [wfe] in Hw; try discriminate; cbn [esize] in Hs, Hn.
    + destruct n as [|n]; [lia|]. reflexivity.
    + destruct n as [|n]; [lia|]. reflexivity.
    + (* Fn1 *)
      destruct (A a ltac:(lia) Hw) as [Ha Sa].
      destruct n as [|n]; [lia|]. cbn [pr app]. rewrite p_atom_S. rewrite <- app_assoc. cbn [app].
      rewrite (add_ok (pr a) a (12 * esize a) Ha Sa) by (reflexivity || lia). reflexivity.
    + (* Fn2 *)
      apply andb_true_iff in Hw. destruct Hw as [Hwa Hwb].
      destruct (A a ltac:(lia) Hwa) as [Ha Sa]. destruct (A b ltac:(lia) Hwb) as [Hb Sb].
      cbn [pr]. destruct (Pos.eqb f F_POW) eqn:Ef.
      * apply Pos.eqb_eq in Ef. subst f.
        destruct n as [|n]; [lia|]. cbn [app]. rewrite p_atom_S. rewrite <- app_assoc. cbn [app]. rewrite <- app_assoc. cbn [app].
        destruct n as [|n]; [lia|]. rewrite p_add_S.
        destruct n as [|n]; [lia|]. rewrite p_mul_S.
        destruct n as [|n]; [lia|]. rewrite p_sgn_S.
        assert (Hp : p_pow n (pr a ++ TPow :: pr b ++ TRp :: rest) = Some (Fn2 F_POW a b, TRp :: rest)).
        { destruct n as [|n]; [lia|]. rewrite p_pow_S, Ha by lia.
          rewrite (sgn_ok (pr b) b (12 * esize b) Hb Sb) by (reflexivity || lia). reflexivity. }
        destruct (pr a) as [|t tl] eqn:Epa; [discriminate|]. cbn [app] in *.
        destruct t; try discriminate; rewrite Hp;
          (destruct n as [|n]; [lia|]); rewrite mul_loop_S;
          (destruct n as [|n]; [lia|]); rewrite add_loop_S; reflexivity.
      * destruct n as [|n]; [lia|]. cbn [app]. rewrite p_atom_S. rewrite <- app_assoc. cbn [app]. rewrite <- app_assoc. cbn [app].
        rewrite (add_ok (pr a) a (12 * esize a) Ha Sa) by (reflexivity || lia).
        rewrite (add_ok (pr b) b (12 * esize b) Hb Sb) by (reflexivity || lia). reflexivity.
    + (* Add *)
      apply andb_true_iff in Hw. destruct Hw as [Hwa Hwb].
      destruct (A a ltac:(lia) Hwa) as [Ha Sa].
      assert (Hgen : forall b' (tk : tok) (mk : expr -> expr),
                 (tk = TPlus /\ mk = (fun x => x)) \/ (tk = TMinus /\ mk = Neg) ->
                 esize b' <= m -> esize b' <= esize b -> wfe b' = true ->
                 p_atom n ((TLp :: pr a ++ tk :: pr b' ++ [TRp]) ++ rest) = Some (Add a (mk b'), rest)).
      { intros b' tk mk Hk Hb'm Hb'b Hwb'. destruct (A b' Hb'm Hwb') as [Hb Sb].
        destruct n as [|n]; [lia|]. cbn [app]. rewrite p_atom_S. rewrite <- app_assoc. cbn [app]. rewrite <- app_assoc. cbn [app].
        destruct n as [|n]; [lia|]. rewrite p_add_S.
        rewrite (mul_ok (pr a) a (12 * esize a) Ha Sa) by (destruct Hk as [[-> _]|[-> _]]; reflexivity || lia).
        destruct n as [|n]; [lia|]. rewrite add_loop_S.
        destruct Hk as [[-> ->]|[-> ->]];
          rewrite (mul_ok (pr b') b' (12 * esize b') Hb Sb) by (reflexivity || lia);
          (destruct n as [|n]; [lia|]); rewrite add_loop_S; reflexivity. }
      cbn [pr]. destruct b as [q|s|f x|f x y|x y|x y|x|x y| |c x y];
        try (apply (Hgen _ TPlus (fun x => x)); [left; split; reflexivity | cbn [esize] in *; lia | lia | exact Hwb]).
      apply (Hgen x TMinus Neg); [right; split; reflexivity | cbn [esize] in *; lia | cbn [esize]; lia | exact Hwb].
    + (* Mul *)
      apply andb_true_iff in Hw. destruct Hw as [Hwa Hwb].
      destruct (A a ltac:(lia) Hwa) as [Ha Sa]. destruct (A b ltac:(lia) Hwb) as [Hb Sb].
      destruct n as [|n]; [lia|]. cbn [pr app]. rewrite p_atom_S. rewrite <- app_assoc. cbn [app]. rewrite <- app_assoc. cbn [app].
      destruct n as [|n]; [lia|]. rewrite p_add_S.
      destruct n as [|n]; [lia|]. rewrite p_mul_S.
      rewrite (sgn_ok (pr a) a (12 * esize a) Ha Sa) by (reflexivity || lia).
      destruct n as [|n]; [lia|]. rewrite mul_loop_S.
      rewrite (sgn_ok (pr b) b (12 * esize b) Hb Sb) by (reflexivity || lia).
      destruct n as [|n]; [lia|]. rewrite mul_loop_S. rewrite add_loop_S. reflexivity.
    + (* Neg *)
      destruct (A a ltac:(lia) Hw) as [Ha Sa].
      destruct n as [|n]; [lia|]. cbn [pr app]. rewrite p_atom_S. rewrite <- app_assoc. cbn [app].
      destruct n as [|n]; [lia|]. rewrite p_add_S.
      destruct n as [|n]; [lia|]. rewrite p_mul_S.
      destruct n as [|n]; [lia|]. rewrite p_sgn_S.
      rewrite (pow_ok (pr a) a (12 * esize a) Ha) by (reflexivity || lia).
      destruct n as [|n]; [lia|]. rewrite mul_loop_S. rewrite add_loop_S. reflexivity.
    + (* Div *)
      apply andb_true_iff in Hw. destruct Hw as [Hwa Hwb].
      destruct (A a ltac:(lia) Hwa) as [Ha Sa]. destruct (A b ltac:(lia) Hwb) as [Hb Sb].
      destruct n as [|n]; [lia|]. cbn [pr app]. rewrite p_atom_S. rewrite <- app_assoc. cbn [app]. rewrite <- app_assoc. cbn [app].
      destruct n as [|n]; [lia|]. rewrite p_add_S.
      destruct n as [|n]; [lia|]. rewrite p_mul_S.
      rewrite (sgn_ok (pr a) a (12 * esize a) Ha Sa) by (reflexivity || lia).
      destruct n as [|n]; [lia|]. rewrite mul_loop_S.
      rewrite (sgn_ok (pr b) b (12 * esize b) Hb Sb) by (reflexivity || lia).
      destruct n as [|n]; [lia|]. rewrite mul_loop_S. rewrite add_loop_S. reflexivity.
Qed.

Lemma atom_ok e : wfe e = true -> forall n rest, need e <= n -> p_atom n (pr e ++ rest) = Some (e, rest).
Proof. intro H. apply (atom_ok_size (esize e) e (le_n _) H). Qed.

Lemma expr_ok e : wfe e = true -> forall n rest, need e + 6 <= n -> no_add rest = true ->
  p_add n (pr e ++ rest) = Some (e, rest).
Proof.
  intros H n rest Hn Hr. apply (add_ok (pr e) e (need e)); try assumption.
  - apply atom_ok. exact H.
  - apply pr_start. exact H.
Qed.

(* ---- conditions ------------------------------------------------------------------------------------ *)
Fixpoint csize (c : cond) : nat :=
  match c with
  | CTrue | CFalse => 1
  | CRel _ a b => S (esize a + esize b)
  | CNot a => S (csize a)
  | CAnd a b | COr a b => S (csize a + csize b)
  end.

Lemma rel_ok c : wf_rel c = true -> forall n rest, 12 * csize c <= n -> no_add rest = true ->
  p_rel n (prc c ++ rest) = Some (c, rest).
Proof.
  intro Hw. destruct c as [| |o a b|a b|a b|a]; cbn in Hw; try discriminate Hw. cbn [csize prc]. intros n rest Hn Hr.
  apply andb_true_iff in Hw. destruct Hw as [Ha Hb]. unfold p_rel.
  rewrite <- app_assoc. cbn [app].
  rewrite (expr_ok a Ha) by (reflexivity || unfold need; lia).
  rewrite (expr_ok b Hb) by (assumption || unfold need; lia). reflexivity.
Qed.

Lemma prc_start c : wf_not c = true -> match c with CNot _ => True | _ => start_ok (prc c) = true end.
Proof.
  intro H. destruct c as [| |o a b|a b|a b|a]; cbn in H; try discriminate H; [|trivial].
  cbn [prc]. apply andb_true_iff in H. destruct H as [Ha _].
  pose proof (pr_start a Ha) as S. destruct (pr a) as [|t tl]; [discriminate|]. exact S.
Qed.

Lemma not_ok c : wf_not c = true -> forall n rest, 12 * csize c <= n -> no_add rest = true ->
  p_not n (prc c ++ rest) = Some (c, rest).
Proof.
  intros Hw n rest Hn Hr. pose proof (prc_start c Hw) as Hs.
  destruct c as [| |o a b|a b|a b|a]; cbn in Hw; try discriminate Hw.
  - unfold p_not. destruct (prc (CRel o a b)) as [|t tl] eqn:E; [discriminate|].
    cbn [app]. destruct t; try discriminate; rewrite app_comm_cons, <- E; apply rel_ok; assumption.
  - cbn [wf_not] in Hw. cbn [prc app csize] in *. unfold p_not.
    rewrite (rel_ok a Hw) by (assumption || lia). reflexivity.
Qed.

Fixpoint cnt_and (c : cond) : nat := match c with CAnd a _ => S (cnt_and a) | _ => 0 end.
Fixpoint cnt_or (c : cond) : nat := match c with COr a _ => S (cnt_or a) | _ => 0 end.

Lemma cnt_and_le c : cnt_and c <= csize c.
Proof. induction c; cbn [cnt_and csize]; lia. Qed.
Lemma cnt_or_le c : cnt_or c <= csize c.
Proof. induction c; cbn [cnt_or csize]; lia. Qed.

Lemma and_chain c : wf_and c = true -> forall n k rest, 12 * csize c <= n -> cnt_and c < k -> no_add rest = true ->
  match p_not n (prc c ++ rest) with Some (a, r) => and_loop k n a r | None => None end =
  and_loop (k - cnt_and c) n c rest.
Proof.
  induction c as [| |o a b|a IHa b IHb|a IHa b IHb|a IHa]; intros Hw n k rest Hn Hk Hr;
    try (cbn [cnt_and]; rewrite Nat.sub_0_r; rewrite not_ok by assumption; reflexivity).
  cbn [wf_and] in Hw. apply andb_true_iff in Hw. destruct Hw as [Hwa Hwb].
    cbn [prc csize cnt_and] in *. rewrite <- app_assoc. cbn [app].
    rewrite (IHa Hwa n k (TAnd :: prc b ++ rest)) by (reflexivity || lia).
    destruct (k - cnt_and a) as [|k'] eqn:Ek; [lia|]. cbn [and_loop].
    rewrite (not_ok b Hwb) by (assumption || lia).
    replace (k - S (cnt_and a)) with k' by lia. reflexivity.
Qed.

Definition no_and (ts : list tok) : bool := match ts with TAnd :: _ => false | _ => no_add ts end.
Definition no_or (ts : list tok) : bool := match ts with TOr :: _ => false | _ => no_and ts end.

Lemma no_and_add ts : no_and ts = true -> no_add ts = true.
Proof. destruct ts as [|t r]; [reflexivity|]. destruct t; cbn; congruence. Qed.
Lemma no_or_and ts : no_or ts = true -> no_and ts = true.
Proof. destruct ts as [|t r]; [reflexivity|]. destruct t; cbn; congruence. Qed.

Lemma and_ok c : wf_and c = true -> forall n rest, 12 * csize c + 2 <= n -> no_and rest = true ->
  p_and n (prc c ++ rest) = Some (c, rest).
Proof.
  intros Hw n rest Hn Hr. unfold p_and. pose proof (cnt_and_le c) as Hc.
  rewrite (and_chain c Hw n n rest) by (try apply no_and_add; assumption || lia).
  destruct (n - cnt_and c) as [|k'] eqn:Ek; [lia|]. cbn [and_loop].
  destruct rest as [|t r]; [reflexivity|]. destruct t; try reflexivity. discriminate.
Qed.

Lemma or_chain c : wf_or c = true -> forall n k rest, 12 * csize c + 2 <= n -> cnt_or c < k -> no_and rest = true ->
  match p_and n (prc c ++ rest) with Some (a, r) => or_loop k n a r | None => None end =
  or_loop (k - cnt_or c) n c rest.
Proof.
  induction c as [| |o a b|a IHa b IHb|a IHa b IHb|a IHa]; intros Hw n k rest Hn Hk Hr;
    try (cbn [cnt_or]; rewrite Nat.sub_0_r; rewrite and_ok by assumption; reflexivity).
  cbn [wf_or] in Hw. apply andb_true_iff in Hw. destruct Hw as [Hwa Hwb].
    cbn [prc csize cnt_or] in *. rewrite <- app_assoc. cbn [app].
    rewrite (IHa Hwa n k (TOr :: prc b ++ rest)) by (reflexivity || lia).
    destruct (k - cnt_or a) as [|k'] eqn:Ek; [lia|]. cbn [or_loop].
    rewrite (and_ok b Hwb) by (assumption || lia).
    replace (k - S (cnt_or a)) with k' by lia. reflexivity.
Qed.

Lemma cond_ok c : wf_or c = true -> forall n rest, 12 * csize c + 4 <= n -> no_or rest = true ->
  p_cond n (prc c ++ rest) = Some (c, rest).
Proof.
  intros Hw n rest Hn Hr. unfold p_cond. pose proof (cnt_or_le c) as Hc.
  rewrite (or_chain c Hw n n rest) by (try apply no_or_and; assumption || lia).
  destruct (n - cnt_or c) as [|k'] eqn:Ek; [lia|]. cbn [or_loop].
  destruct rest as [|t r]; [reflexivity|]. destruct t; try reflexivity. discriminate.
Qed.

(* ---- statements ------------------------------------------------------------------------------------- *)
Fixpoint ssize (s : nmstmt) : nat :=
  match s with
  | NAssign _ e => S (esize e)
  | NIf c _ e => S (csize c + esize e)
  | NBlock brs els => S (brsize brs + bsize els)
  end
with bsize (b : body) : nat :=
  match b with BNil => 1 | BCons s tl => S (ssize s + bsize tl) end
with brsize (brs : branches) : nat :=
  match brs with BrNil => 1 | BrCons c b tl => S (csize c + bsize b + brsize tl) end.

Lemma p_body_S n ts : p_body (S n) ts =
    match ts with
    | TId x :: TAssign :: r =>
        match p_add n r with
        | Some (e, TNl :: r') => match p_body n r' with Some (b, r'') => Some (BCons (NAssign x e) b, r'') | None => None end
        | _ => None
        end
    | TIf :: TLp :: r =>
        match p_cond n r with
        | Some (c, TRp :: TId x :: TAssign :: r') =>
            match p_add n r' with
            | Some (e, TNl :: r'') =>
                match p_body n r'' with Some (b, r3) => Some (BCons (NIf c x e) b, r3) | None => None end
            | _ => None
            end
        | Some (c, TRp :: TThen :: TNl :: r') =>
            match p_body n r' with
            | Some (b1, r'') =>
                match p_branches n r'' with
                | Some (brs, els, r3) =>
                    match p_body n r3 with
                    | Some (b, r4) => Some (BCons (NBlock (BrCons c b1 brs) els) b, r4)
                    | None => None
                    end
                | None => None
                end
            | None => None
            end
        | _ => None
        end
    | _ => Some (BNil, ts)
    end.
Proof. reflexivity. Qed.

Lemma p_branches_S n ts : p_branches (S n) ts =
    match ts with
    | TElseIf :: TLp :: r =>
        match p_cond n r with
        | Some (c, TRp :: TThen :: TNl :: r') =>
            match p_body n r' with
            | Some (b, r'') =>
                match p_branches n r'' with
                | Some (brs, els, r3) => Some (BrCons c b brs, els, r3)
                | None => None
                end
            | None => None
            end
        | _ => None
        end
    | TElse :: TNl :: r =>
        match p_body n r with
        | Some (els, TEndIf :: TNl :: r') => Some (BrNil, els, r')
        | _ => None
        end
    | TEndIf :: TNl :: r => Some (BrNil, BNil, r)
    | _ => None
    end.
Proof. reflexivity. Qed.

Definition bend (ts : list tok) : bool :=
  match ts with [] | TElseIf :: _ | TElse :: _ | TEndIf :: _ => true | _ => false end.

Definition Pb (b : body) : Prop :=
  wf_body b = true -> forall n rest, 12 * bsize b <= n -> bend rest = true ->
  p_body n (pr_body b ++ rest) = Some (b, rest).
Definition Ps (s : nmstmt) : Prop :=
  wf_stmt s = true -> forall tl, Pb tl -> wf_body tl = true -> forall n rest,
  12 * (ssize s + bsize tl) + 12 <= n -> bend rest = true ->
  p_body n (pr_stmt s ++ pr_body tl ++ rest) = Some (BCons s tl, rest).
Definition Pbr (brs : branches) : Prop :=
  wf_branches brs = true -> forall els, Pb els -> wf_body els = true -> forall n rest,
  12 * (brsize brs + bsize els) <= n ->
  p_branches n (pr_elseifs brs ++ pr_else pr_body els ++ TEndIf :: TNl :: rest) = Some (brs, els, rest).

Lemma bend_tail brs els rest : bend (pr_elseifs brs ++ pr_else pr_body els ++ TEndIf :: TNl :: rest) = true.
Proof. destruct brs; [destruct els|]; reflexivity. Qed.

Lemma wf_stmt_block c b tl els :
  wf_stmt (NBlock (BrCons c b tl) els) = wf_or c && wf_body b && wf_branches tl && wf_body els.
Proof. reflexivity. Qed.
Lemma wf_body_cons s tl : wf_body (BCons s tl) = wf_stmt s && wf_body tl.
Proof. reflexivity. Qed.
Lemma wf_branches_cons c b tl : wf_branches (BrCons c b tl) = wf_or c && wf_body b && wf_branches tl.
Proof. reflexivity. Qed.

Definition Pbr2 (brs : branches) : Prop :=
  Pbr brs /\ match brs with BrNil => True | BrCons _ b tl => Pb b /\ Pbr tl end.

Lemma parse_all : (forall s, Ps s) /\ (forall b, Pb b) /\ (forall brs, Pbr2 brs).
Proof.
  apply nm_mutind.
  - (* NAssign *)
    intros x e Hw tl Ptl Hwtl n rest Hn Hr. change (wfe e = true) in Hw.
    change (ssize (NAssign x e)) with (S (esize e)) in Hn.
    destruct n as [|n]; [lia|].
    change (pr_stmt (NAssign x e)) with (TId x :: TAssign :: pr e ++ [TNl]).
    cbn [app]. rewrite <- app_assoc. cbn [app]. rewrite p_body_S.
    rewrite (expr_ok e Hw) by (reflexivity || unfold need; lia).
    rewrite (Ptl Hwtl) by (assumption || lia). reflexivity.
  - (* NIf *)
    intros c x e Hw tl Ptl Hwtl n rest Hn Hr. change (wf_or c && wfe e = true) in Hw.
    apply andb_true_iff in Hw. destruct Hw as [Hc He].
    change (ssize (NIf c x e)) with (S (csize c + esize e)) in Hn.
    destruct n as [|n]; [lia|].
    change (pr_stmt (NIf c x e)) with (TIf :: TLp :: prc c ++ TRp :: TId x :: TAssign :: pr e ++ [TNl]).
    cbn [app]. rewrite <- app_assoc. cbn [app]. rewrite <- app_assoc. cbn [app]. rewrite p_body_S.
    rewrite (cond_ok c Hc) by (reflexivity || lia).
    rewrite (expr_ok e He) by (reflexivity || unfold need; lia).
    rewrite (Ptl Hwtl) by (assumption || lia). reflexivity.
  - (* NBlock *)
    intros brs IHbrs els IHels Hw tl Ptl Hwtl n rest Hn Hr.
    destruct brs as [|c b1 brs']; [discriminate Hw|].
    destruct IHbrs as [_ [Pb1 Pbrs']].
    rewrite wf_stmt_block in Hw.
    apply andb_true_iff in Hw. destruct Hw as [Hw Hwe].
    apply andb_true_iff in Hw. destruct Hw as [Hw Hwbr].
    apply andb_true_iff in Hw. destruct Hw as [Hwc Hwb].
    change (ssize (NBlock (BrCons c b1 brs') els)) with (S (S (csize c + bsize b1 + brsize brs') + bsize els)) in Hn.
    destruct n as [|n]; [lia|].
    change (pr_stmt (NBlock (BrCons c b1 brs') els)) with
      (TIf :: TLp :: prc c ++ TRp :: TThen :: TNl :: pr_body b1 ++ pr_elseifs brs' ++ pr_else pr_body els ++ [TEndIf; TNl]).
    cbn [app]. rewrite <- app_assoc. cbn [app]. rewrite <- !app_assoc. cbn [app]. rewrite p_body_S.
    rewrite (cond_ok c Hwc) by (reflexivity || lia).
    rewrite (Pb1 Hwb) by (apply bend_tail || lia).
    rewrite (Pbrs' Hwbr els IHels Hwe) by lia.
    rewrite (Ptl Hwtl) by (assumption || lia). reflexivity.
  - (* BNil *)
    intros _ n rest Hn Hr. change (bsize BNil) with 1 in Hn. destruct n as [|n]; [lia|].
    change (pr_body BNil ++ rest) with rest. rewrite p_body_S.
    destruct rest as [|t r]; [reflexivity|]. destruct t; try discriminate Hr; reflexivity.
  - (* BCons *)
    intros s IHs tl IHtl Hw n rest Hn Hr. rewrite wf_body_cons in Hw.
    apply andb_true_iff in Hw. destruct Hw as [Hws Hwt].
    change (bsize (BCons s tl)) with (S (ssize s + bsize tl)) in Hn.
    change (pr_body (BCons s tl)) with (pr_stmt s ++ pr_body tl). rewrite <- app_assoc.
    apply (IHs Hws tl IHtl Hwt); [lia|exact Hr].
  - (* BrNil *)
    split; [|exact I]. intros _ els Pels Hwe n rest Hn.
    change (brsize BrNil) with 1 in Hn. destruct n as [|n]; [lia|].
    change (pr_elseifs BrNil) with (@nil tok). cbn [app]. rewrite p_branches_S.
    destruct els as [|s tl].
    + reflexivity.
    + change (pr_else pr_body (BCons s tl)) with (TElse :: TNl :: pr_body (BCons s tl)). cbn [app].
      rewrite (Pels Hwe) by (reflexivity || lia). reflexivity.
  - (* BrCons *)
    intros c b IHb tl IHtl. destruct IHtl as [Ptl _]. split; [|split; assumption].
    intros Hw els Pels Hwe n rest Hn. rewrite wf_branches_cons in Hw.
    apply andb_true_iff in Hw. destruct Hw as [Hw Hwt]. apply andb_true_iff in Hw. destruct Hw as [Hwc Hwb].
    change (brsize (BrCons c b tl)) with (S (csize c + bsize b + brsize tl)) in Hn.
    destruct n as [|n]; [lia|].
    change (pr_elseifs (BrCons c b tl)) with (TElseIf :: TLp :: prc c ++ TRp :: TThen :: TNl :: pr_body b ++ pr_elseifs tl).
    cbn [app]. rewrite <- !app_assoc. cbn [app]. rewrite <- !app_assoc. rewrite p_branches_S.
    rewrite (cond_ok c Hwc) by (reflexivity || lia).
    rewrite (IHb Hwb) by (apply bend_tail || lia).
    rewrite (Ptl Hwt els Pels Hwe) by lia. reflexivity.
Qed.

(* ---- token counts bound the sizes, so the fuel chosen by parse_prog suffices --------------------- *)
Lemma pr_add_eq a b : pr (Add a b) = match b with
                                      | Neg x => TLp :: pr a ++ TMinus :: pr x ++ [TRp]
                                      | _ => TLp :: pr a ++ TPlus :: pr b ++ [TRp]
                                      end.
Proof. destruct b; reflexivity. Qed.

Lemma esize_len1 e : wfe e = true -> esize e + 1 <= 2 * length (pr e).
Proof.
  induction e as [q|s|f a IHa|f a IHa b IHb|a IHa b IHb|a IHa b IHb|a IHa|a IHa b IHb| |c a IHa b IHb];
    cbn [wfe]; intro H; try discriminate H; cbn [esize].
  - cbn. lia.
  - cbn. lia.
  - specialize (IHa H). cbn [pr length]. rewrite app_length. cbn [length]. lia.
  - apply andb_true_iff in H. destruct H as [Ha Hb]. specialize (IHa Ha). specialize (IHb Hb).
    cbn [pr]. destruct (Pos.eqb f F_POW); cbn [length]; rewrite !app_length; cbn [length]; rewrite ?app_length; cbn [length]; lia.
  - apply andb_true_iff in H. destruct H as [Ha Hb]. specialize (IHa Ha). specialize (IHb Hb).
    rewrite pr_add_eq.
    destruct b; try (cbn [length]; rewrite !app_length; cbn [length]; rewrite ?app_length; cbn [length]; lia).
    cbn [esize] in *. change (pr (Neg b)) with (TLp :: TMinus :: pr b ++ [TRp]) in IHb.
    cbn [length] in *. rewrite !app_length in *. cbn [length] in *. rewrite ?app_length in *. cbn [length] in *. lia.
  - apply andb_true_iff in H. destruct H as [Ha Hb]. specialize (IHa Ha). specialize (IHb Hb).
    cbn [pr length]; rewrite !app_length; cbn [length]; rewrite ?app_length; cbn [length]; lia.
  - specialize (IHa H). cbn [pr length]. rewrite app_length. cbn [length]. lia.
  - apply andb_true_iff in H. destruct H as [Ha Hb]. specialize (IHa Ha). specialize (IHb Hb).
    cbn [pr length]; rewrite !app_length; cbn [length]; rewrite ?app_length; cbn [length]; lia.
Qed.

Lemma esize_len e : wfe e = true -> esize e <= 2 * length (pr e).
Proof. intro H. pose proof (esize_len1 e H). lia. Qed.

Lemma csize_len c : wf_or c = true -> csize c <= 2 * length (prc c).
Proof.
  assert (Hrel : forall c, wf_rel c = true -> csize c <= 2 * length (prc c)).
  { intros c0 H. destruct c0 as [| |o a b|a b|a b|a]; cbn in H; try discriminate H.
    apply andb_true_iff in H. destruct H as [Ha Hb]. pose proof (esize_len a Ha). pose proof (esize_len b Hb).
    cbn [csize prc]. rewrite app_length. cbn [length]. lia. }
  assert (Hnot : forall c, wf_not c = true -> csize c <= 2 * length (prc c)).
  { intros c0 H. destruct c0 as [| |o a b|a b|a b|a]; try (apply Hrel; exact H).
    cbn [wf_not] in H. pose proof (Hrel a H). cbn [csize prc length]. lia. }
  assert (Hand : forall c, wf_and c = true -> csize c <= 2 * length (prc c)).
  { induction c0 as [| |o a b|a IHa b IHb|a IHa b IHb|a IHa]; intro H; try (apply Hnot; exact H).
    cbn [wf_and] in H. apply andb_true_iff in H. destruct H as [Ha Hb].
    pose proof (IHa Ha). pose proof (Hnot b Hb). cbn [csize prc]. rewrite app_length. cbn [length]. lia. }
  induction c as [| |o a b|a IHa b IHb|a IHa b IHb|a IHa]; intro H; try (apply Hand; exact H).
  cbn [wf_or] in H. apply andb_true_iff in H. destruct H as [Ha Hb].
  pose proof (IHa Ha). pose proof (Hand b Hb). cbn [csize prc]. rewrite app_length. cbn [length]. lia.
Qed.

Lemma size_len_all :
  (forall s, wf_stmt s = true -> ssize s + 1 <= 2 * length (pr_stmt s)) /\
  (forall b, wf_body b = true -> bsize b <= 2 * length (pr_body b) + 1) /\
  (forall brs, wf_branches brs = true -> brsize brs <= 2 * length (pr_elseifs brs) + 1).
Proof.
  apply nm_mutind.
  - intros x e H. change (wfe e = true) in H. pose proof (esize_len e H).
    change (ssize (NAssign x e)) with (S (esize e)).
    change (pr_stmt (NAssign x e)) with (TId x :: TAssign :: pr e ++ [TNl]).
    cbn [length]. rewrite app_length. cbn [length]. lia.
  - intros c x e H. change (wf_or c && wfe e = true) in H. apply andb_true_iff in H. destruct H as [Hc He].
    pose proof (esize_len e He). pose proof (csize_len c Hc).
    change (ssize (NIf c x e)) with (S (csize c + esize e)).
    change (pr_stmt (NIf c x e)) with (TIf :: TLp :: prc c ++ TRp :: TId x :: TAssign :: pr e ++ [TNl]).
    cbn [length]. rewrite app_length. cbn [length]. rewrite app_length. cbn [length]. lia.
  - intros brs IHbrs els IHels H. destruct brs as [|c b tl]; [discriminate H|].
    rewrite wf_stmt_block in H.
    apply andb_true_iff in H. destruct H as [H Hwe].
    assert (Hbr : wf_branches (BrCons c b tl) = true) by (rewrite wf_branches_cons; exact H).
    specialize (IHbrs Hbr). specialize (IHels Hwe).
    change (ssize (NBlock (BrCons c b tl) els)) with (S (brsize (BrCons c b tl) + bsize els)).
    change (pr_stmt (NBlock (BrCons c b tl) els)) with
      (TIf :: TLp :: prc c ++ TRp :: TThen :: TNl :: pr_body b ++ pr_elseifs tl ++ pr_else pr_body els ++ [TEndIf; TNl]).
    change (pr_elseifs (BrCons c b tl)) with (TElseIf :: TLp :: prc c ++ TRp :: TThen :: TNl :: pr_body b ++ pr_elseifs tl) in IHbrs.
    cbn [length] in *. rewrite !app_length in *. cbn [length] in *. rewrite !app_length in *. cbn [length] in *.
    assert (He : 2 * length (pr_body els) <= 2 * length (pr_else pr_body els) + 0) by (destruct els; [change (pr_body BNil) with (@nil tok) | unfold pr_else]; cbn [length]; lia).
    lia.
  - intros _. cbn. lia.
  - intros s IHs tl IHtl H. rewrite wf_body_cons in H. apply andb_true_iff in H. destruct H as [Hs Ht].
    specialize (IHs Hs). specialize (IHtl Ht).
    change (bsize (BCons s tl)) with (S (ssize s + bsize tl)).
    change (pr_body (BCons s tl)) with (pr_stmt s ++ pr_body tl). rewrite app_length. lia.
  - intros _. cbn. lia.
  - intros c b IHb tl IHtl H. rewrite wf_branches_cons in H.
    apply andb_true_iff in H. destruct H as [H Ht]. apply andb_true_iff in H. destruct H as [Hc Hb].
    specialize (IHb Hb). specialize (IHtl Ht). pose proof (csize_len c Hc).
    change (brsize (BrCons c b tl)) with (S (csize c + bsize b + brsize tl)).
    change (pr_elseifs (BrCons c b tl)) with (TElseIf :: TLp :: prc c ++ TRp :: TThen :: TNl :: pr_body b ++ pr_elseifs tl).
    cbn [length]. rewrite !app_length. cbn [length]. rewrite !app_length. lia.
Qed.

Theorem parse_print_lemma (p : body) : wf_body p = true -> parse_prog (pr_body p) = Some p.
Proof.
  intro H. unfold parse_prog.
  pose proof (proj1 (proj2 parse_all) p H (100 * length (pr_body p) + 100) []) as P.
  rewrite app_nil_r in P. rewrite P; [reflexivity| |reflexivity].
  pose proof (proj1 (proj2 size_len_all) p H). lia.
Qed.

Theorem parse_print_expr_lemma (e : expr) : wfe e = true ->
  p_add (need e + 6) (pr e) = Some (e, []).
Proof.
  intro H. pose proof (expr_ok e H (need e + 6) [] (le_n _) eq_refl) as P. rewrite app_nil_r in P. exact P.
Qed.
