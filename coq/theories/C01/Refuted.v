(* PV.C01.Refuted — counter-models: every guard conjunct of translate_sound is necessary.
   Each witness is the faithful model of _parse_tree on a program the REAL code reads the same
   way (replayed on every run by harness/props/c01.py: known findings C01-BLOCK-...). *)
From Coq Require Import QArith List Bool PArith Arith.
From PV Require Import Base.PyData Base.Expr Base.Interp Base.Stmts C01.Model C01.Check.
Import ListNotations.

Definition sA : id := 1%positive.  Definition sB : id := 2%positive.  Definition sX : id := 3%positive.
Definition th1 : id := 11%positive. Definition th2 : id := 12%positive.

Definition gt1 (s : id) : cond := CRel OGt (Sym s) (Num 1).
Definition gt0 (s : id) : cond := CRel OGt (Sym s) (Num 0).
Definition one_branch (c : cond) (l : list nmstmt) : nmstmt := NBlock (BrCons c (body_of_list l) BrNil) BNil.

(* the statement that fails: the translation of p, executed, gives v the reference value *)
Definition agrees_on (p : body) (r : env) (v : id) : Prop :=
  forall r', nm_body std_fi r p = Some r' -> exec std_fi std_ode r (translate p) v = r' v.

Definition env2 : env := env_of [(th1, 2%Q); (th2, 1%Q)].

Ltac fresh_env_tac :=
  intros v Hv; cbn in Hv;
  repeat (destruct Hv as [Hv|Hv]; [subst v; reflexivity|]); destruct Hv.

(* A = THETA(1);  IF (A.GT.1) THEN;  A = 0;  B = 2;  ENDIF        at THETA(1) = 2:
   NM-TRAN: B = 2.  Read as  A = {0 if A>1, A};  B = {2 if A>1}  — B's condition sees the new A. *)
Definition p_fresh : body :=
  body_of_list [NAssign sA (Sym th1); one_branch (gt1 sA) [NAssign sA (Num 0); NAssign sB (Num 2)]].

Theorem translate_refuted_cond_fresh :
  exists p r v, g_cond_fresh p = false /\ g_flat p = true /\ g_once p = true /\ g_cover p = true /\
                fresh_env r p /\ ~ agrees_on p r v.
Proof.
  exists p_fresh, env2, sB. repeat split; try (vm_compute; reflexivity).
  - fresh_env_tac.
  - intro H. specialize (H _ eq_refl). vm_compute in H. discriminate.
Qed.

(* X = 0;  IF (THETA(1).GT.1) THEN;  IF (THETA(2).GT.0) X = 1;  B = 2;  ENDIF    at (2, 1):
   NM-TRAN: X = 1.  The logical IF nested in the block is dropped: X stays 0. *)
Definition p_flat : body :=
  body_of_list [NAssign sX (Num 0);
                one_branch (gt1 th1) [NIf (gt0 th2) sX (Num 1); NAssign sB (Num 2)]].

Theorem translate_refuted_flat :
  exists p r v, g_flat p = false /\ g_once p = true /\ g_cond_fresh p = true /\ g_cover p = true /\
                fresh_env r p /\ ~ agrees_on p r v.
Proof.
  exists p_flat, env2, sX. repeat split; try (vm_compute; reflexivity).
  - fresh_env_tac.
  - intro H. specialize (H _ eq_refl). vm_compute in H. discriminate.
Qed.

(* IF (THETA(1).GT.1) THEN;  X = 1;  X = X + 1;  ENDIF     at THETA(1) = 2:
   NM-TRAN: X = 2.  Read as X = {1 if c, X+1 if c}: the first pair wins, X = 1. *)
Definition p_once : body :=
  body_of_list [one_branch (gt1 th1) [NAssign sX (Num 1); NAssign sX (Add (Sym sX) (Num 1))]].

Theorem translate_refuted_once :
  exists p r v, g_once p = false /\ g_flat p = true /\ g_cover p = true /\
                fresh_env r p /\ ~ agrees_on p r v.
Proof.
  exists p_once, env2, sX. repeat split; try (vm_compute; reflexivity).
  - fresh_env_tac.
  - intro H. specialize (H _ eq_refl). vm_compute in H. discriminate.
Qed.

(* X = 5;  IF (THETA(1).GT.1) THEN;  B = 1;  ELSE;  X = 2;  ENDIF     at THETA(1) = 2:
   NM-TRAN: X = 5 (the ELSE branch is not executed).  Read as X = {2 if True}: X = 2 always. *)
Definition p_cover : body :=
  body_of_list [NAssign sX (Num 5);
                NBlock (BrCons (gt1 th1) (body_of_list [NAssign sB (Num 1)]) BrNil)
                       (body_of_list [NAssign sX (Num 2)])].

Theorem translate_refuted_cover :
  exists p r v, g_cover p = false /\ g_flat p = true /\ g_once p = true /\ g_cond_fresh p = true /\
                fresh_env r p /\ ~ agrees_on p r v.
Proof.
  exists p_cover, env2, sX. repeat split; try (vm_compute; reflexivity).
  - fresh_env_tac.
  - intro H. specialize (H _ eq_refl). vm_compute in H. discriminate.
Qed.

(* same defect with ELSEIF: IF (T1.GT.1) THEN; B = 1; ELSEIF (T2.GT.0) THEN; X = 2; ENDIF at (2,1):
   NM-TRAN leaves X alone (first branch taken); read as X = {2 if T2>0}. *)
Definition p_cover_elseif : body :=
  body_of_list [NAssign sX (Num 5);
                NBlock (BrCons (gt1 th1) (body_of_list [NAssign sB (Num 1)])
                        (BrCons (gt0 th2) (body_of_list [NAssign sX (Num 2)]) BrNil)) BNil].

Example cover_elseif_witness :
  g_cover p_cover_elseif = false /\
  exec std_fi std_ode env2 (translate p_cover_elseif) sX = Some 2%Q /\
  option_map (fun r' : env => r' sX) (nm_body std_fi env2 p_cover_elseif) = Some (Some 5%Q).
Proof. repeat split; vm_compute; reflexivity. Qed.

(* FIXED (81bb571), kept as a regression example of the repaired behaviour:
   X = MOD(THETA(1), 3) at THETA(1) = -7.  NM-TRAN: X = -1.  It used to be read as sympy.Mod (= 2);
   the reading now keeps MOD's Fortran meaning (F_FMOD, interpreted in C01/Check.v). *)
Definition p_mod : body := body_of_list [NAssign sX (Fn2 F_FMOD (Sym th1) (Num 3))].

Example mod_fixed :
  exec c01_fi std_ode (env_of [(th1, (-7 # 1)%Q)]) (read_code p_mod) sX = Some (-1 # 1)%Q /\
  option_map (fun r' : env => r' sX) (nm_body c01_fi (env_of [(th1, (-7 # 1)%Q)]) p_mod) = Some (Some (-1 # 1)%Q) /\
  (* the floored modulo the old code produced *)
  std_fi2 F_MOD (-7 # 1)%Q 3%Q = Some 2%Q.
Proof. repeat split; vm_compute; reflexivity. Qed.
