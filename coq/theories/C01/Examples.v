(* PV.C01.Examples — non-vacuity: concrete non-trivial inputs meeting the hypotheses of the theorems. *)
From Coq Require Import QArith List Bool PArith Arith Lia.
From PV Require Import Base.PyData Base.Expr Base.Interp Base.Stmts C01.Model C01.Check C01.Refuted C01.ProofsParams C01.Parser C01.Des C01.PrecPrinter C01.ParserProofs.
Import ListNotations.

(* A = THETA(1)
   IF (THETA(1).GT.1) THEN;  X = A + 1;  B = 2;  ELSEIF (THETA(2).GT.0) THEN;  X = 3;  B = A;  ELSE;  X = 4;  B = 0;  ENDIF
   IF (THETA(2).GT.0) X = X + B
   IF (THETA(2).GT.1) THEN;  ELSE;  B = 7;  ENDIF            (the special-cased empty IF) *)
Definition ex_prog : body :=
  body_of_list
    [NAssign sA (Sym th1);
     NBlock (BrCons (gt1 th1) (body_of_list [NAssign sX (Add (Sym sA) (Num 1)); NAssign sB (Num 2)])
            (BrCons (gt0 th2) (body_of_list [NAssign sX (Num 3); NAssign sB (Sym sA)]) BrNil))
            (body_of_list [NAssign sX (Num 4); NAssign sB (Num 0)]);
     NIf (gt0 th2) sX (Add (Sym sX) (Sym sB));
     NBlock (BrCons (gt1 th2) BNil BrNil) (body_of_list [NAssign sB (Num 7)])].

(* the guard of translate_sound holds on a program with a three-way block, a logical IF that reads
   its own target and the special-cased empty IF; the environment hypothesis and the definedness
   hypothesis hold too, and the conclusion is a non-trivial fact *)
Example guard_nonvacuous : guard_code ex_prog = true.
Proof. vm_compute. reflexivity. Qed.

Example fresh_env_nonvacuous : fresh_env env2 ex_prog.
Proof. fresh_env_tac. Qed.

Example nm_defined_nonvacuous :
  exists r', nm_body std_fi env2 ex_prog = Some r' /\ r' sX = Some 5%Q /\ r' sB = Some 7%Q /\ r' sA = Some 2%Q.
Proof. eexists. split; [reflexivity|]. repeat split; vm_compute; reflexivity. Qed.

Example translate_example :
  map (fun st => match st with Assign x _ => x | _ => 1%positive end) (translate ex_prog) = [sA; sX; sB; sX; sB] /\
  exec std_fi std_ode env2 (translate ex_prog) sX = Some 5%Q /\
  exec std_fi std_ode env2 (translate ex_prog) sB = Some 7%Q.
Proof. repeat split; vm_compute; reflexivity. Qed.

(* each conjunct of the guard is satisfiable together with a block that is not trivial *)
Example conjuncts_nonvacuous :
  g_flat ex_prog = true /\ g_once ex_prog = true /\ g_cond_fresh ex_prog = true /\ g_cover ex_prog = true /\
  length (translate ex_prog) = 5%nat.
Proof. repeat split; vm_compute; reflexivity. Qed.

(* translate_targets_complete: hypothesis g_flat and a symbol assigned only inside a block *)
Example targets_example : In sB (assigned_body ex_prog) /\ In sB (lhs_of (translate ex_prog)).
Proof. split; vm_compute; tauto. Qed.

(* nm_frame: a symbol the program does not assign keeps its value *)
Example frame_example :
  ~ In th1 (assigned_body ex_prog) /\
  option_map (fun r' : env => r' th1) (nm_body std_fi env2 ex_prog) = Some (Some 2%Q).
Proof.
  split; [|vm_compute; reflexivity].
  intro H. vm_compute in H. repeat (destruct H as [H|H]; [discriminate H|]). exact H.
Qed.

(* find_rates_roundtrip: hypotheses satisfiable in each digit class, and the ambiguous class is inhabited *)
Example rates_nonvacuous :
  unambiguous 1 2 3 = true /\ find_rate (rate_name_of 1 2) 3 = RFlow 1 2 /\
  unambiguous 2 0 3 = true /\ find_rate (rate_name_of 2 0) 3 = RFlow 2 3 /\
  unambiguous 1 10 10 = true /\ find_rate (rate_name_of 1 10) 10 = RFlow 1 10 /\
  unambiguous 12 3 20 = true /\ find_rate (rate_name_of 12 3) 20 = RFlow 12 3 /\
  unambiguous 11 12 12 = true /\ find_rate (rate_name_of 11 12) 12 = RFlow 11 12.
Proof. repeat split; vm_compute; reflexivity. Qed.

Example rates_ambiguous_nonvacuous :
  unambiguous 1 10 12 = false /\ find_rate (rate_name_of 1 10) 12 = RAmbiguous.
Proof. split; vm_compute; reflexivity. Qed.

(* the ADVAN/TRANS specification: `supported` and `only_inputs` are satisfiable *)
Example supported_nonvacuous :
  supported A4 T4 = true /\ supported A11 T4 = true /\ supported A3 T5 = false /\
  only_inputs A4 T4 [(s_CL, 2%Q); (s_V2, 3%Q); (s_Q, 5%Q); (s_V3, 7%Q); (s_KA, 11%Q)] = true.
Proof. repeat split; vm_compute; reflexivity. Qed.

(* NONMEM's TRANS5 definition evaluates on its inputs alone: AOB=2, ALPHA=3, BETA=5 gives
   K21 = 13/3, K = 45/13, K12 = 8 - 13/3 - 45/13 *)
Example trans5_spec_value :
  option_map (eval_flows (env_of [(s_AOB, 2%Q); (s_ALPHA, 3%Q); (s_BETA, 5%Q)]) std_fi) (nonmem_flows A3 T5)
  = Some [(1%nat, 0%nat, Some (45 # 13)%Q); (1%nat, 2%nat, Some (8 # 39)%Q); (2%nat, 1%nat, Some (13 # 3)%Q)].
Proof. vm_compute. reflexivity. Qed.

(* read_code_sound: the interpretation used by the correspondence respects the protection rules,
   and a program with PEXP / LOG10 is expanded *)
Example protected_spec_nonvacuous : protected_spec c01_fi.
Proof.
  intros f p x H. unfold c01_fi at 1. cbn [fi1]. unfold c01_fi1. rewrite H. destruct p; reflexivity.
Qed.
Example read_expr_example :
  read_expr (Fn1 F_PEXP (Sym th1)) =
    PwCons (CRel OGt (Sym th1) (Num 100)) (Fn1 F_EXP (Num 100)) (PwCons CTrue (Fn1 F_EXP (Sym th1)) PwNil) /\
  eval (env_of [(th1, 3%Q)]) c01_fi (Fn1 F_PEXP (Sym th1)) = Some 8%Q /\
  eval (env_of [(th1, 8%Q)]) c01_fi (Fn1 F_LOG10 (Sym th1)) = Some 1%Q /\
  read_code ex_prog = translate ex_prog.
Proof. repeat split; vm_compute; reflexivity. Qed.

(* the reference parser: precedence decisions on unparenthesised token lists
   -A**2 = -(A**2);  A**B**2 = A**(B**2);  A/B*C = (A/B)*C;  2**-1;  A-B-C = (A-B)-C;  A+B*C *)
Definition tA := TId sA. Definition tB := TId sB. Definition tX := TId sX.
Example prec_examples :
  p_add 20 [TMinus; tA; TPow; TNum 2] = Some (Neg (Fn2 F_POW (Sym sA) (Num 2)), []) /\
  p_add 20 [tA; TPow; tB; TPow; TNum 2] = Some (Fn2 F_POW (Sym sA) (Fn2 F_POW (Sym sB) (Num 2)), []) /\
  p_add 20 [tA; TSlash; tB; TStar; tX] = Some (Mul (Div (Sym sA) (Sym sB)) (Sym sX), []) /\
  p_add 20 [TNum 2; TPow; TMinus; TNum 1] = Some (Fn2 F_POW (Num 2) (Neg (Num 1)), []) /\
  p_add 20 [tA; TMinus; tB; TMinus; tX] = Some (Add (Add (Sym sA) (Neg (Sym sB))) (Neg (Sym sX)), []) /\
  p_add 20 [tA; TPlus; tB; TStar; tX] = Some (Add (Sym sA) (Mul (Sym sB) (Sym sX)), []) /\
  p_cond 20 [TNot; tA; TRel OGt; TNum 1; TAnd; tB; TRel OLt; TNum 2; TOr; tX; TRel OEq; TNum 3] =
    Some (COr (CAnd (CNot (CRel OGt (Sym sA) (Num 1))) (CRel OLt (Sym sB) (Num 2))) (CRel OEq (Sym sX) (Num 3)), []).
Proof. repeat split; vm_compute; reflexivity. Qed.

(* parse_print: ex_prog is well formed, and its printed form parses back *)
Example parse_print_nonvacuous :
  wf_body ex_prog = true /\ parse_prog (pr_body ex_prog) = Some ex_prog /\ length (pr_body ex_prog) = 82%nat.
Proof. repeat split; vm_compute; reflexivity. Qed.

(* omega_positions: a 3x3 lower triangle starting at row 4 *)
Example positions_nonvacuous :
  tri_rows 0 [[1%Q]; [2%Q; 3%Q]; [4%Q; 5%Q; 6%Q]] /\
  map (fun p => (op_row p, op_col p)) (fst (fst (walk 4 4 4 [1%Q; 2%Q; 3%Q; 4%Q; 5%Q; 6%Q] false))) =
  [(4, 4); (5, 4); (5, 5); (6, 4); (6, 5); (6, 6)]%nat.
Proof. split; [cbn; tauto | vm_compute; reflexivity]. Qed.

(* BLOCK(2), SAME, then a diagonal element: parameters at rows 1-2 and 5; etas 1-2 (IOV), 3-4 (IOV, same
   covariance), 5 (IIV) *)
Definition ex_blocks : list oblock :=
  [mkOB [1%Q; 2%Q; 3%Q] false false; mkOB [] false true; mkOB [7%Q] true false].
Example blocks_example :
  option_map (map (fun p => (op_row p, op_col p))) (parameters_from_blocks ex_blocks) =
    Some [(1, 1); (2, 1); (2, 2); (5, 5)]%nat /\
  map rv_etas (rvs_from_blocks false ex_blocks) = [[1; 2]; [3; 4]; [5]]%nat /\
  map rv_level (rvs_from_blocks false ex_blocks) = [IOV; IOV; IIV] /\
  map rv_cov (rvs_from_blocks false ex_blocks) = [[0; 1; 2]; [0; 1; 2]; [3]]%nat.
Proof. repeat split; vm_compute; reflexivity. Qed.

(* sdcorr_forms / parse_form_spec on the nmhelp-style sample: S = [[4]; [1, 9/4]] (sd 2 and 3/2, r = 1/3) *)
Definition ex_S : list (list Q) := [[4%Q]; [1%Q; (9 # 4)%Q]].
Example forms_nonvacuous :
  encode sqrt_exact FSdCorr ex_S = [[2%Q]; [(1 / (2 * (3 # 2)))%Q; (3 # 2)%Q]] /\
  map (map Qred) (parse_form sqrt_exact FSdCorr (encode sqrt_exact FSdCorr ex_S)) = map (map Qred) ex_S /\
  map (map Qred) (parse_form sqrt_exact FVarCorr (encode sqrt_exact FVarCorr ex_S)) = map (map Qred) ex_S /\
  map (map Qred) (parse_form sqrt_exact FSdCov (encode sqrt_exact FSdCov ex_S)) = map (map Qred) ex_S /\
  (forall i, (i < length ex_S)%nat -> (0 < tget ex_S i i)%Q).
Proof.
  repeat split; try (vm_compute; reflexivity).
  intros i Hi. destruct i as [|[|i]]; [reflexivity | reflexivity | cbn in Hi; lia].
Qed.
(* CHOLESKY 1 2 3 denotes [[1]; [2, 13]] *)
Example cholesky_example :
  match omega_block_parse sqrt_exact 2 false false true [1%Q; 2%Q; 3%Q] with OOk l => map Qred l | _ => [] end = [1%Q; 2%Q; 13%Q] /\
  omega_block_parse sqrt_exact 3 false false false [1%Q; 2%Q; 3%Q] = OSyntaxError /\
  omega_block_parse sqrt_exact 2 false false false [1%Q; 2%Q] = OInternalError.
Proof. repeat split; vm_compute; reflexivity. Qed.

(* des_sound: depot -> central <-> peripheral with elimination (amounts 1, 2, 3; rate constants 11..14)
   DADT(1) = -KA*A1;  DADT(2) = KA*A1 - K20*A2 - K23*A2 + K32*A3;  DADT(3) = K23*A2 - K32*A3 *)
Definition ex_des : list deq :=
  [(1%positive, [mkDT false 11%positive 1%positive]);
   (2%positive, [mkDT true 11%positive 1%positive; mkDT false 12%positive 2%positive; mkDT false 13%positive 2%positive;
                 mkDT true 14%positive 3%positive]);
   (3%positive, [mkDT true 13%positive 2%positive; mkDT false 14%positive 3%positive])].
Example des_nonvacuous :
  des_guard ex_des = true /\
  des_flows ex_des = [(1, 2, 11); (3, 2, 14); (2, 3, 13)]%positive /\
  des_outs ex_des = [(2, 12)]%positive /\
  terms_of_expr [1; 2; 3]%positive true
    (Add (Add (Mul (Sym 11%positive) (Sym 1%positive)) (Neg (Mul (Sym 12%positive) (Sym 2%positive))))
         (Mul (Sym 3%positive) (Sym 14%positive))) =
    Some [mkDT true 11%positive 1%positive; mkDT false 12%positive 2%positive; mkDT true 14%positive 3%positive].
Proof. repeat split; vm_compute; reflexivity. Qed.
(* the guard is needed: with the same rate constant on two flows leaving one compartment the attribution
   of loss terms to flows is no longer determined *)
Example des_guard_rejects :
  des_guard [(1%positive, [mkDT false 11%positive 1%positive; mkDT false 11%positive 1%positive]);
             (2%positive, [mkDT true 11%positive 1%positive])] = false.
Proof. vm_compute. reflexivity. Qed.

(* parse_print_prec: the minimal-parentheses form of  -A**2 + (A + B)*X - (B - X)/2**(-A)  and of ex_prog *)
Definition ex_e : expr :=
  Add (Add (Neg (Fn2 F_POW (Sym sA) (Num 2))) (Mul (Add (Sym sA) (Sym sB)) (Sym sX)))
      (Neg (Div (Add (Sym sB) (Neg (Sym sX))) (Fn2 F_POW (Num 2) (Neg (Sym sA))))).
Example prec_printer_nonvacuous :
  wfe ex_e = true /\
  prE ex_e = [TMinus; TId sA; TPow; TNum 2; TPlus; TLp; TId sA; TPlus; TId sB; TRp; TStar; TId sX; TMinus;
              TLp; TId sB; TMinus; TId sX; TRp; TSlash; TNum 2; TPow; TMinus; TId sA] /\
  p_add (40 * esize ex_e + 6) (prE ex_e) = Some (ex_e, []) /\
  wf_body ex_prog = true /\ length (prP_body ex_prog) = 78%nat /\
  p_body (40 * bsize ex_prog) (prP_body ex_prog) = Some (ex_prog, []).
Proof. repeat split; vm_compute; reflexivity. Qed.

Example prec_prog_nonvacuous : wf_body ex_prog = true /\ parse_prog (prP_body ex_prog) = Some ex_prog.
Proof. split; vm_compute; reflexivity. Qed.
