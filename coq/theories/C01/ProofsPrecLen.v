(* PV.C01.ProofsPrecLen — token counts of the minimal-parentheses printer bound the sizes, so the fuel that
   parse_prog computes itself suffices. *)
From Coq Require Import QArith List Bool PArith Arith Lia.
From PV Require Import Base.PyData Base.Expr Base.Interp C01.Model C01.Proofs C01.Parser C01.ParserProofs C01.PrecPrinter C01.ProofsPrec.
Import ListNotations.
Local Open Scope nat_scope.

Lemma paren_len b ts : length ts <= length (paren b ts).
Proof. destruct b; cbn [paren length]; [rewrite app_length; cbn [length]; lia|lia]. Qed.

Lemma esizeP_len1_size m : forall e, esize e <= m -> wfe e = true -> forall lvl, esize e + 1 <= 2 * length (prp lvl e).
Proof.
  induction m as [|m IH]; intros e Hs Hw lvl.
  - destruct e; cbn in Hs; lia.
  - destruct e as [q|s|f a|f a b|a b|a b|a|a b| |c a b]; cbn [wfe] in Hw; try discriminate; cbn [esize] in *.
    + cbn. lia.
    + cbn. lia.
    + pose proof (IH a ltac:(lia) Hw 1). cbn [prp length]. rewrite app_length. cbn [length]. lia.
    + apply andb_true_iff in Hw. destruct Hw as [Ha Hb]. cbn [prp]. destruct (Pos.eqb f F_POW).
      * pose proof (IH a ltac:(lia) Ha 5). pose proof (IH b ltac:(lia) Hb 3).
        pose proof (paren_len (4 <? lvl) (prp 5 a ++ TPow :: prp 3 b)) as P. rewrite app_length in P. cbn [length] in P. lia.
      * pose proof (IH a ltac:(lia) Ha 1). pose proof (IH b ltac:(lia) Hb 1).
        cbn [length]. rewrite !app_length. cbn [length]. rewrite app_length. cbn [length]. lia.
    + apply andb_true_iff in Hw. destruct Hw as [Ha Hb]. pose proof (IH a ltac:(lia) Ha 1) as Pa. cbn [prp].
      destruct b as [q|s|f x|f x y|x y|x y|x|x y| |c x y];
        try (match goal with |- context [prp 2 ?bb] =>
               pose proof (IH bb ltac:(cbn [esize] in *; lia) Hb 2) as Pb;
               pose proof (paren_len (1 <? lvl) (prp 1 a ++ TPlus :: prp 2 bb)) as P;
               rewrite app_length in P; cbn [length] in P; cbn [esize] in *; lia end).
      cbn [wfe] in Hb. pose proof (IH x ltac:(cbn [esize] in *; lia) Hb 2) as Pb.
      pose proof (paren_len (1 <? lvl) (prp 1 a ++ TMinus :: prp 2 x)) as P.
      rewrite app_length in P. cbn [length] in P. cbn [esize] in *. lia.
    + apply andb_true_iff in Hw. destruct Hw as [Ha Hb].
      pose proof (IH a ltac:(lia) Ha 2). pose proof (IH b ltac:(lia) Hb 3). cbn [prp].
      pose proof (paren_len (2 <? lvl) (prp 2 a ++ TStar :: prp 3 b)) as P. rewrite app_length in P. cbn [length] in P. lia.
    + pose proof (IH a ltac:(lia) Hw 4). cbn [prp].
      pose proof (paren_len (3 <? lvl) (TMinus :: prp 4 a)) as P. cbn [length] in P. lia.
    + apply andb_true_iff in Hw. destruct Hw as [Ha Hb].
      pose proof (IH a ltac:(lia) Ha 2). pose proof (IH b ltac:(lia) Hb 3). cbn [prp].
      pose proof (paren_len (2 <? lvl) (prp 2 a ++ TSlash :: prp 3 b)) as P. rewrite app_length in P. cbn [length] in P. lia.
Qed.

Lemma esizeP_len e : wfe e = true -> esize e <= 2 * length (prE e).
Proof. intro H. pose proof (esizeP_len1_size (esize e) e (le_n _) H 1). unfold prE. lia. Qed.

Lemma csizeP_len c : wf_or c = true -> csize c <= 2 * length (prcP c).
Proof.
  assert (Hrel : forall c, wf_rel c = true -> csize c <= 2 * length (prcP c)).
  { intros c0 H. destruct c0 as [| |o a b|a b|a b|a]; cbn in H; try discriminate H.
    apply andb_true_iff in H. destruct H as [Ha Hb]. pose proof (esizeP_len a Ha). pose proof (esizeP_len b Hb).
    cbn [csize prcP]. rewrite app_length. cbn [length]. lia. }
  assert (Hnot : forall c, wf_not c = true -> csize c <= 2 * length (prcP c)).
  { intros c0 H. destruct c0 as [| |o a b|a b|a b|a]; try (apply Hrel; exact H).
    cbn [wf_not] in H. pose proof (Hrel a H). cbn [csize prcP length]. lia. }
  assert (Hand : forall c, wf_and c = true -> csize c <= 2 * length (prcP c)).
  { induction c0 as [| |o a b|a IHa b IHb|a IHa b IHb|a IHa]; intro H; try (apply Hnot; exact H).
    cbn [wf_and] in H. apply andb_true_iff in H. destruct H as [Ha Hb].
    pose proof (IHa Ha). pose proof (Hnot b Hb). cbn [csize prcP]. rewrite app_length. cbn [length]. lia. }
  induction c as [| |o a b|a IHa b IHb|a IHa b IHb|a IHa]; intro H; try (apply Hand; exact H).
  cbn [wf_or] in H. apply andb_true_iff in H. destruct H as [Ha Hb].
  pose proof (IHa Ha). pose proof (Hand b Hb). cbn [csize prcP]. rewrite app_length. cbn [length]. lia.
Qed.

Lemma sizeP_len_all :
  (forall s, wf_stmt s = true -> ssize s + 1 <= 2 * length (prP_stmt s)) /\
  (forall b, wf_body b = true -> bsize b <= 2 * length (prP_body b) + 1) /\
  (forall brs, wf_branches brs = true -> brsize brs <= 2 * length (prP_elseifs brs) + 1).
Proof.
  apply nm_mutind.
  - intros x e H. change (wfe e = true) in H. pose proof (esizeP_len e H).
    change (ssize (NAssign x e)) with (S (esize e)).
    change (prP_stmt (NAssign x e)) with (TId x :: TAssign :: prE e ++ [TNl]).
    cbn [length]. rewrite app_length. cbn [length]. lia.
  - intros c x e H. change (wf_or c && wfe e = true) in H. apply andb_true_iff in H. destruct H as [Hc He].
    pose proof (esizeP_len e He). pose proof (csizeP_len c Hc).
    change (ssize (NIf c x e)) with (S (csize c + esize e)).
    change (prP_stmt (NIf c x e)) with (TIf :: TLp :: prcP c ++ TRp :: TId x :: TAssign :: prE e ++ [TNl]).
    cbn [length]. rewrite app_length. cbn [length]. rewrite app_length. cbn [length]. lia.
  - intros brs IHbrs els IHels H. destruct brs as [|c b tl]; [discriminate H|].
    rewrite wf_stmt_block in H.
    apply andb_true_iff in H. destruct H as [H Hwe].
    assert (Hbr : wf_branches (BrCons c b tl) = true) by (rewrite wf_branches_cons; exact H).
    specialize (IHbrs Hbr). specialize (IHels Hwe).
    change (ssize (NBlock (BrCons c b tl) els)) with (S (brsize (BrCons c b tl) + bsize els)).
    change (prP_stmt (NBlock (BrCons c b tl) els)) with
      (TIf :: TLp :: prcP c ++ TRp :: TThen :: TNl :: prP_body b ++ prP_elseifs tl ++ pr_else prP_body els ++ [TEndIf; TNl]).
    change (prP_elseifs (BrCons c b tl)) with (TElseIf :: TLp :: prcP c ++ TRp :: TThen :: TNl :: prP_body b ++ prP_elseifs tl) in IHbrs.
    cbn [length] in *. rewrite !app_length in *. cbn [length] in *. rewrite !app_length in *. cbn [length] in *.
    assert (He : 2 * length (prP_body els) <= 2 * length (pr_else prP_body els) + 0) by (destruct els; [change (prP_body BNil) with (@nil tok) | unfold pr_else]; cbn [length]; lia).
    lia.
  - intros _. cbn. lia.
  - intros s IHs tl IHtl H. rewrite wf_body_cons in H. apply andb_true_iff in H. destruct H as [Hs Ht].
    specialize (IHs Hs). specialize (IHtl Ht).
    change (bsize (BCons s tl)) with (S (ssize s + bsize tl)).
    change (prP_body (BCons s tl)) with (prP_stmt s ++ prP_body tl). rewrite app_length. lia.
  - intros _. cbn. lia.
  - intros c b IHb tl IHtl H. rewrite wf_branches_cons in H.
    apply andb_true_iff in H. destruct H as [H Ht]. apply andb_true_iff in H. destruct H as [Hc Hb].
    specialize (IHb Hb). specialize (IHtl Ht). pose proof (csizeP_len c Hc).
    change (brsize (BrCons c b tl)) with (S (csize c + bsize b + brsize tl)).
    change (prP_elseifs (BrCons c b tl)) with (TElseIf :: TLp :: prcP c ++ TRp :: TThen :: TNl :: prP_body b ++ prP_elseifs tl).
    cbn [length]. rewrite !app_length. cbn [length]. rewrite !app_length. lia.
Qed.


Theorem parse_print_prec_fuel (p : body) : wf_body p = true ->
  p_body (100 * length (prP_body p) + 100) (prP_body p) = Some (p, []).
Proof.
  intro H. apply parse_print_prec_lemma; [exact H|].
  pose proof (proj1 (proj2 sizeP_len_all) p H). lia.
Qed.

(* ... hence with the fuel parse_prog computes from the token count *)
Theorem parse_print_prec_prog_lemma (p : body) : wf_body p = true -> parse_prog (prP_body p) = Some p.
Proof. intro H. unfold parse_prog. rewrite (parse_print_prec_fuel p H). reflexivity. Qed.
