(* PV.C01.ProofsDes — the system built from linear $DES equations has those equations. *)
From Coq Require Import QArith List Bool PArith Arith Lia Permutation.
From PV Require Import Base.PyData Base.Expr C01.Model C01.Proofs C01.ProofsOmega C01.Des.
Import ListNotations.
Local Open Scope Q_scope.

(* ---- sums ------------------------------------------------------------------------------------------ *)
Lemma qsum_flat_map {A B} (g : B -> Q) (h : A -> list B) (l : list A) :
  qsum (map g (flat_map h l)) == qsum (map (fun x => qsum (map g (h x))) l).
Proof.
  induction l as [|x tl IH]; cbn [flat_map map qsum]; [reflexivity|].
  rewrite map_app, qsum_app, IH. reflexivity.
Qed.

Lemma qsum_scale {A} (c : Q) (g : A -> Q) (l : list A) : qsum (map (fun x => c * g x) l) == c * qsum (map g l).
Proof. induction l as [|x tl IH]; cbn [map qsum]; [ring | rewrite IH; ring]. Qed.

Lemma qsum_perm (l l' : list Q) : Permutation l l' -> qsum l == qsum l'.
Proof.
  induction 1; cbn [qsum]; try reflexivity.
  - rewrite IHPermutation. reflexivity.
  - ring.
  - rewrite IHPermutation1. exact IHPermutation2.
Qed.

Lemma qsum_filter_split {A} (p : A -> bool) (g : A -> Q) (l : list A) :
  qsum (map g l) == qsum (map g (filter p l)) + qsum (map g (filter (fun x => negb (p x)) l)).
Proof.
  induction l as [|x tl IH]; cbn [map filter qsum]; [ring|].
  destruct (p x); cbn [negb map qsum]; rewrite IH; ring.
Qed.

(* exactly one key of an association list contributes *)
Lemma qsum_single {B} (G : id * B -> Q) (l : list (id * B)) a b :
  NoDup (map fst l) -> In (a, b) l -> (forall e, In e l -> fst e <> a -> G e == 0) ->
  qsum (map G l) == G (a, b).
Proof.
  induction l as [|e tl IH]; intros Hnd Hin Hz; [destruct Hin|].
  cbn [map qsum]. cbn [map fst] in Hnd. inversion Hnd as [|x xs Hnotin Hnd']; subst.
  destruct Hin as [Hin|Hin].
  - subst e. rewrite (qsum_map_zero G tl); [ring|].
    intros e He. apply Hz; [right; exact He|]. intro Hc. apply Hnotin. cbn [fst]. rewrite <- Hc. apply in_map. exact He.
  - rewrite IH; try assumption.
    + rewrite (Hz e (or_introl eq_refl)); [ring|].
      intro Hc. apply Hnotin. rewrite Hc. change a with (fst (a, b)). apply in_map. exact Hin.
    + intros e' He' Hne. apply Hz; [right; exact He'|exact Hne].
Qed.

(* ---- consequences of the guard --------------------------------------------------------------------- *)
Lemma alookup_in_nodup {B} (l : list (id * B)) a b : NoDup (map fst l) -> In (a, b) l -> alookup l a = Some b.
Proof.
  induction l as [|[k v] tl IH]; intros Hnd Hin; [destruct Hin|].
  cbn [map fst] in Hnd. inversion Hnd as [|x xs Hnotin Hnd']; subst. cbn [alookup].
  destruct Hin as [Hin|Hin].
  - injection Hin as -> ->. rewrite Pos.eqb_refl. reflexivity.
  - destruct (Pos.eqb k a) eqn:E.
    + apply Pos.eqb_eq in E. subst k. exfalso. apply Hnotin. change a with (fst (a, b)). apply in_map. exact Hin.
    + apply IH; assumption.
Qed.

Section Guarded.
  Variable eqs : list deq.
  Hypothesis Hg : des_guard eqs = true.

  Lemma g_nodup : NoDup (map fst eqs).
  Proof. unfold des_guard in Hg. apply andb_true_iff in Hg. apply nodup_p_NoDup. exact (proj1 Hg). Qed.

  Lemma g_eq e : In e eqs ->
    forallb (term_ok eqs e) (snd e) = true /\ nodup_p (neg_ks (snd e)) = true /\ nodup_p (pos_ks_of eqs (fst e)) = true.
  Proof.
    intro He. unfold des_guard in Hg. apply andb_true_iff in Hg. destruct Hg as [_ H].
    rewrite forallb_forall in H. specialize (H e He).
    apply andb_true_iff in H. destruct H as [H H3]. apply andb_true_iff in H. destruct H as [H1 H2]. auto.
  Qed.

  Lemma g_term e t : In e eqs -> In t (snd e) -> term_ok eqs e t = true.
  Proof. intros He Ht. destruct (g_eq e He) as [H _]. rewrite forallb_forall in H. exact (H t Ht). Qed.

  (* a loss term -k*A_x can only stand in x's equation *)
  Lemma neg_in_own e k a : In e eqs -> neg_in (snd e) k a = true -> fst e = a.
  Proof.
    intros He H. unfold neg_in in H. apply existsb_exists in H. destruct H as [t [Ht Hi]].
    unfold is_term in Hi. apply andb_true_iff in Hi. destruct Hi as [Hi Ha]. apply andb_true_iff in Hi. destruct Hi as [Hp Hk].
    pose proof (g_term e t He Ht) as Ok. unfold term_ok in Ok.
    apply eqb_prop in Hp. rewrite Hp in Ok. apply Pos.eqb_eq in Ok. apply Pos.eqb_eq in Ha. congruence.
  Qed.

  Lemma find_from_gen k a l : (forall e, In e l -> neg_in (snd e) k a = true -> fst e = a) ->
    forall acc, fold_left (fun acc e => if neg_in (snd e) k a then Some (fst e) else acc) l acc =
                if existsb (fun e => neg_in (snd e) k a) l then Some a else acc.
  Proof.
    induction l as [|e tl IH]; intros H acc; [reflexivity|].
    cbn [fold_left existsb]. rewrite IH by (intros e' He'; apply H; right; exact He').
    destruct (neg_in (snd e) k a) eqn:E; cbn [orb].
    - rewrite (H e (or_introl eq_refl) E). destruct (existsb _ tl); reflexivity.
    - reflexivity.
  Qed.

  (* a gain term +k*A_x of a guarded system comes from compartment x *)
  Lemma find_from_pos e t : In e eqs -> In t (snd e) -> dt_pos t = true ->
    find_from eqs (dt_k t) (dt_a t) = Some (dt_a t).
  Proof.
    intros He Ht Hp. pose proof (g_term e t He Ht) as Ok. unfold term_ok in Ok. rewrite Hp in Ok.
    apply andb_true_iff in Ok. destruct Ok as [_ Ok].
    destruct (alookup eqs (dt_a t)) as [ts'|] eqn:El; [|discriminate].
    unfold find_from. rewrite find_from_gen by (intros e' He' H; apply (neg_in_own e' _ _ He' H)).
    assert (Hex : existsb (fun e0 => neg_in (snd e0) (dt_k t) (dt_a t)) eqs = true).
    { apply existsb_exists. exists (dt_a t, ts'). split; [apply alookup_some_in; exact El|exact Ok]. }
    rewrite Hex. reflexivity.
  Qed.
End Guarded.

Lemma filter_filter {A} (p q : A -> bool) (l : list A) :
  filter p (filter q l) = filter (fun x => q x && p x) l.
Proof.
  induction l as [|x tl IH]; [reflexivity|]. cbn [filter].
  destruct (q x); cbn [filter andb]; [destruct (p x)|]; rewrite IH; reflexivity.
Qed.

Lemma NoDup_map_filter {A B} (f : A -> B) (p : A -> bool) (l : list A) :
  NoDup (map f l) -> NoDup (map f (filter p l)).
Proof.
  induction l as [|x tl IH]; intro H; [constructor|].
  cbn [map] in H. inversion H as [|y ys Hn Hnd]; subst. cbn [filter].
  destruct (p x); [|apply IH; exact Hnd]. cbn [map]. constructor; [|apply IH; exact Hnd].
  intro Hin. apply Hn. apply in_map_iff in Hin. destruct Hin as [z [Hz1 Hz2]].
  apply filter_In in Hz2. apply in_map_iff. exists z. split; [exact Hz1|exact (proj1 Hz2)].
Qed.

Section Sound.
  Variable eqs : list deq.
  Hypothesis Hg : des_guard eqs = true.
  Variable rho : id -> Q.
  Variables (a : id) (ts : list dterm).
  Hypothesis Hin : In (a, ts) eqs.

  Definition gain (t : dterm) : Q := if dt_pos t then rho (dt_k t) * rho (dt_a t) else 0.
  Definition loss (t : dterm) : Q := if dt_pos t then 0 else rho (dt_k t) * rho (dt_a t).

  Lemma terms_split l : terms_val rho l == qsum (map gain l) - qsum (map loss l).
  Proof.
    unfold terms_val. induction l as [|t tl IH]; cbn [map qsum]; [ring|].
    rewrite IH. unfold term_val, gain, loss. destruct (dt_pos t); ring.
  Qed.

  (* flows into a = the gain terms of a's equation *)
  Lemma in_sum : qsum (map (in_val rho a) (des_flows eqs)) == qsum (map gain ts).
  Proof.
    unfold des_flows. rewrite qsum_flat_map.
    rewrite (qsum_single (fun e => qsum (map (in_val rho a) (flows_of_eq eqs e))) eqs a ts (g_nodup eqs Hg) Hin).
    - unfold flows_of_eq. cbn [snd fst]. rewrite qsum_flat_map. apply qsum_map_ext. intros t Ht.
      unfold gain. destruct (dt_pos t) eqn:Ep; [|reflexivity].
      rewrite (find_from_pos eqs Hg (a, ts) t Hin Ht Ep). cbn [map qsum in_val]. rewrite Pos.eqb_refl. ring.
    - intros e He Hne. unfold flows_of_eq. rewrite qsum_flat_map. apply qsum_map_zero. intros t Ht.
      destruct (dt_pos t); [|reflexivity].
      destruct (find_from eqs (dt_k t) (dt_a t)); [|reflexivity].
      cbn [map qsum in_val]. destruct (Pos.eqb (fst e) a) eqn:E; [apply Pos.eqb_eq in E; contradiction|ring].
  Qed.

  (* flows out of a to other compartments = the gain terms k*A_a anywhere *)
  Lemma out_sum : qsum (map (out_val rho a) (des_flows eqs)) == rho a * qsum (map rho (pos_ks_of eqs a)).
  Proof.
    unfold des_flows, pos_ks_of. rewrite !qsum_flat_map. rewrite <- qsum_scale.
    apply qsum_map_ext. intros e He. unfold flows_of_eq.
    assert (H : forall l, (forall t, In t l -> In t (snd e)) ->
               qsum (map (out_val rho a) (flat_map (fun t => if dt_pos t then match find_from eqs (dt_k t) (dt_a t) with
                                                       | Some f => [(f, fst e, dt_k t)] | None => [] end else []) l))
               == rho a * qsum (map rho (map dt_k (filter (fun t => dt_pos t && Pos.eqb (dt_a t) a) l)))).
    { induction l as [|t tl IH]; intro Hsub; cbn [flat_map map filter qsum]; [ring|].
      rewrite map_app, qsum_app, IH by (intros t' Ht'; apply Hsub; right; exact Ht').
      destruct (dt_pos t) eqn:Ep; cbn [andb].
      - rewrite (find_from_pos eqs Hg e t He (Hsub t (or_introl eq_refl)) Ep). cbn [map qsum out_val].
        destruct (Pos.eqb (dt_a t) a); cbn [map qsum]; ring.
      - cbn [map qsum]. ring. }
    apply H. auto.
  Qed.

  (* flow to output = the loss terms of a's equation that no gain term cancels *)
  Definition unpartnered (t : dterm) : bool := negb (dt_pos t) && negb (partner eqs (dt_k t) (dt_a t)).
  Definition partnered (t : dterm) : bool := negb (dt_pos t) && partner eqs (dt_k t) (dt_a t).

  Lemma outp_sum : qsum (map (outp_val rho a) (des_outs eqs)) == rho a * qsum (map rho (map dt_k (filter unpartnered ts))).
  Proof.
    unfold des_outs. rewrite qsum_flat_map.
    rewrite (qsum_single (fun e => qsum (map (outp_val rho a) (outs_of_eq eqs e))) eqs a ts (g_nodup eqs Hg) Hin).
    - unfold outs_of_eq. cbn [snd fst]. clear Hin. induction ts as [|t tl IH]; cbn [flat_map map filter qsum]; [ring|].
      rewrite map_app, qsum_app, IH. unfold unpartnered at 2.
      destruct (negb (dt_pos t) && negb (partner eqs (dt_k t) (dt_a t))); cbn [map qsum].
      + unfold outp_val. cbn [fst snd]. rewrite Pos.eqb_refl. ring.
      + ring.
    - intros e He Hne. unfold outs_of_eq. rewrite qsum_flat_map. apply qsum_map_zero. intros t Ht.
      destruct (negb (dt_pos t) && negb (partner eqs (dt_k t) (dt_a t))); [|reflexivity].
      cbn [map qsum]. unfold outp_val. cbn [fst snd]. destruct (Pos.eqb (fst e) a) eqn:E; [apply Pos.eqb_eq in E; contradiction|ring].
  Qed.

  (* the loss terms of a's equation are all multiples of A_a *)
  Lemma loss_sum : qsum (map loss ts) == rho a * qsum (map rho (neg_ks ts)).
  Proof.
    assert (H : forall l, (forall t, In t l -> In t ts) ->
               qsum (map loss l) == rho a * qsum (map rho (neg_ks l))).
    { induction l as [|t tl IH]; intro Hsub; unfold neg_ks; cbn [map filter qsum]; [ring|].
      fold (neg_ks tl). rewrite IH by (intros t' Ht'; apply Hsub; right; exact Ht').
      unfold loss at 1. destruct (dt_pos t) eqn:Ep; cbn [negb map qsum].
      - fold (neg_ks tl). ring.
      - fold (neg_ks tl). pose proof (g_term eqs Hg (a, ts) t Hin (Hsub t (or_introl eq_refl))) as Ok.
        unfold term_ok in Ok. rewrite Ep in Ok. cbn [fst] in Ok. apply Pos.eqb_eq in Ok. rewrite Ok. ring. }
    apply H. auto.
  Qed.

  Lemma neg_split : qsum (map rho (neg_ks ts)) ==
    qsum (map rho (map dt_k (filter partnered ts))) + qsum (map rho (map dt_k (filter unpartnered ts))).
  Proof.
    unfold neg_ks. rewrite !map_map.
    rewrite (qsum_filter_split (fun t => partner eqs (dt_k t) (dt_a t)) (fun t => rho (dt_k t)) (filter (fun t => negb (dt_pos t)) ts)).
    rewrite !filter_filter. reflexivity.
  Qed.

  (* the cancelled loss terms of a's equation are exactly the gain terms k*A_a of the system *)
  Lemma partnered_perm : Permutation (map dt_k (filter partnered ts)) (pos_ks_of eqs a).
  Proof.
    destruct (g_eq eqs Hg (a, ts) Hin) as [_ [Hn1 Hn2]]. cbn [fst snd] in Hn1, Hn2.
    apply NoDup_Permutation.
    - assert (E : map dt_k (filter partnered ts) =
                  map dt_k (filter (fun t => partner eqs (dt_k t) (dt_a t)) (filter (fun t => negb (dt_pos t)) ts))).
      { rewrite filter_filter. reflexivity. }
      rewrite E. apply NoDup_map_filter. apply nodup_p_NoDup. exact Hn1.
    - apply nodup_p_NoDup. exact Hn2.
    - intro k. split.
      + intro H. apply in_map_iff in H. destruct H as [t [Hk Ht]]. apply filter_In in Ht. destruct Ht as [Ht Hp].
        unfold partnered in Hp. apply andb_true_iff in Hp. destruct Hp as [Hneg Hpa].
        apply negb_true_iff in Hneg.
        pose proof (g_term eqs Hg (a, ts) t Hin Ht) as Ok. unfold term_ok in Ok. rewrite Hneg in Ok.
        cbn [fst] in Ok. apply Pos.eqb_eq in Ok.
        unfold partner in Hpa. apply existsb_exists in Hpa. destruct Hpa as [e' [He' Hpi]].
        unfold pos_in in Hpi. apply existsb_exists in Hpi. destruct Hpi as [t' [Ht' Hi]].
        unfold is_term in Hi. apply andb_true_iff in Hi. destruct Hi as [Hi Ha']. apply andb_true_iff in Hi. destruct Hi as [Hp' Hk'].
        apply eqb_prop in Hp'. apply Pos.eqb_eq in Hk'. apply Pos.eqb_eq in Ha'.
        unfold pos_ks_of. apply in_flat_map. exists e'. split; [exact He'|].
        apply in_map_iff. exists t'. split; [congruence|].
        apply filter_In. split; [exact Ht'|]. rewrite Hp'. cbn [andb]. apply Pos.eqb_eq. congruence.
      + intro H. unfold pos_ks_of in H. apply in_flat_map in H. destruct H as [e' [He' H]].
        apply in_map_iff in H. destruct H as [t' [Hk' Ht']]. apply filter_In in Ht'. destruct Ht' as [Ht' Hp'].
        apply andb_true_iff in Hp'. destruct Hp' as [Hpos Ha']. apply Pos.eqb_eq in Ha'.
        pose proof (g_term eqs Hg e' t' He' Ht') as Ok. unfold term_ok in Ok. rewrite Hpos in Ok.
        apply andb_true_iff in Ok. destruct Ok as [_ Ok].
        rewrite Ha' in Ok. rewrite (alookup_in_nodup eqs a ts (g_nodup eqs Hg) Hin) in Ok.
        unfold neg_in in Ok. apply existsb_exists in Ok. destruct Ok as [t [Ht Hi]].
        unfold is_term in Hi. apply andb_true_iff in Hi. destruct Hi as [Hi Hta]. apply andb_true_iff in Hi. destruct Hi as [Hneg Htk].
        apply eqb_prop in Hneg. apply Pos.eqb_eq in Htk. apply Pos.eqb_eq in Hta.
        apply in_map_iff. exists t. split; [congruence|]. apply filter_In. split; [exact Ht|].
        unfold partnered. rewrite Hneg. cbn [negb andb].
        unfold partner. apply existsb_exists. exists e'. split; [exact He'|].
        unfold pos_in. apply existsb_exists. exists t'. split; [exact Ht'|].
        unfold is_term. rewrite Hpos, Htk, Hta, Hk', Ha'. cbn [Bool.eqb andb]. rewrite !Pos.eqb_refl. reflexivity.
  Qed.

  Theorem des_sound_lemma : sys_rhs rho (des_flows eqs) (des_outs eqs) a == terms_val rho ts.
  Proof.
    unfold sys_rhs. rewrite in_sum, out_sum, outp_sum, terms_split, loss_sum, neg_split.
    rewrite (qsum_perm _ _ (Permutation_map rho partnered_perm)). ring.
  Qed.
End Sound.
