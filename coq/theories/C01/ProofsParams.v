(* PV.C01.ProofsParams — parameters_from_blocks / rvs_from_blocks: positions and numbering. *)
From Coq Require Import QArith List Bool PArith Arith Lia.
From PV Require Import Base.PyData Base.Expr C01.Model.
Import ListNotations.
Local Open Scope nat_scope.

(* a lower triangle given row by row: row k (counted from [i]) has k + 1 entries *)
Fixpoint tri_rows (i : nat) (rows : list (list Q)) : Prop :=
  match rows with
  | [] => True
  | r :: tl => length r = S i /\ tri_rows (S i) tl
  end.

Fixpoint row_params (r c : nat) (vs : list Q) (fx : bool) : list oparam :=
  match vs with [] => [] | v :: tl => mkOP r c v fx :: row_params r (S c) tl fx end.
Fixpoint rows_params (r0 i : nat) (rows : list (list Q)) (fx : bool) : list oparam :=
  match rows with [] => [] | row :: tl => row_params (r0 + i) r0 row fx ++ rows_params r0 (S i) tl fx end.

Lemma walk_cons br row col v tl fx :
  walk br row col (v :: tl) fx =
  let next := if row =? col then (S row, br) else (row, S col) in
  let '(ps, r, c) := walk br (fst next) (snd next) tl fx in (mkOP row col v fx :: ps, r, c).
Proof. reflexivity. Qed.

Lemma walk_row vs : forall r0 i j rest fx,
  length vs = S (i - j) -> j <= i ->
  walk r0 (r0 + i) (r0 + j) (vs ++ rest) fx =
  let '(ps, r, c) := walk r0 (r0 + S i) r0 rest fx in (row_params (r0 + i) (r0 + j) vs fx ++ ps, r, c).
Proof.
  induction vs as [|v tl IH]; intros r0 i j rest fx Hlen Hji; [discriminate|].
  cbn [app]. rewrite walk_cons. cbv zeta.
  destruct tl as [|v' tl'].
  - (* last element of the row: on the diagonal *)
    cbn [length] in Hlen. assert (i = j) by lia. subst j.
    rewrite Nat.eqb_refl. cbn [fst snd app row_params].
    replace (S (r0 + i)) with (r0 + S i) by lia.
    destruct (walk r0 (r0 + S i) r0 rest fx) as [[ps r] c]. reflexivity.
  - cbn [length] in Hlen. assert (Hlt : j < i) by lia.
    assert (E : (r0 + i =? r0 + j) = false) by (apply Nat.eqb_neq; lia). rewrite E. cbn [fst snd].
    replace (S (r0 + j)) with (r0 + S j) by lia.
    rewrite (IH r0 i (S j) rest fx) by (cbn [length]; lia).
    destruct (walk r0 (r0 + S i) r0 rest fx) as [[ps r] c].
    cbn [row_params app]. replace (S (r0 + j)) with (r0 + S j) by lia. reflexivity.
Qed.

Lemma walk_rows rows : forall r0 i fx,
  tri_rows i rows ->
  walk r0 (r0 + i) r0 (concat rows) fx = (rows_params r0 i rows fx, r0 + i + length rows, r0).
Proof.
  induction rows as [|row tl IH]; intros r0 i fx Ht.
  - cbn. rewrite Nat.add_0_r. reflexivity.
  - cbn [tri_rows] in Ht. destruct Ht as [Hl Ht]. cbn [concat].
    pose proof (walk_row row r0 i 0 (concat tl) fx) as W. rewrite Nat.add_0_r in W.
    rewrite W by (try rewrite Hl; lia). clear W.
    rewrite (IH r0 (S i) fx Ht). cbn [rows_params length]. f_equal. f_equal. lia.
Qed.

Lemma row_params_pos vs : forall r c fx,
  map (fun p => (op_row p, op_col p)) (row_params r c vs fx) = map (fun j => (r, c + j)) (seq 0 (length vs)).
Proof.
  induction vs as [|v tl IH]; intros r c fx; [reflexivity|].
  cbn [row_params map length seq op_row op_col]. rewrite Nat.add_0_r. f_equal.
  rewrite IH. rewrite <- seq_shift, map_map. apply map_ext. intro j. f_equal. lia.
Qed.

Lemma rows_params_pos rows : forall r0 i fx,
  tri_rows i rows ->
  map (fun p => (op_row p, op_col p)) (rows_params r0 i rows fx) =
  flat_map (fun k => map (fun j => (r0 + k, r0 + j)) (seq 0 (S k))) (seq i (length rows)).
Proof.
  induction rows as [|row tl IH]; intros r0 i fx Ht; [reflexivity|].
  cbn [tri_rows] in Ht. destruct Ht as [Hl Ht].
  cbn [rows_params length seq flat_map]. rewrite map_app, row_params_pos, Hl. f_equal.
  apply IH. exact Ht.
Qed.

(* parameters_from_blocks on one block whose inits are a lower triangle (given row by row) starting
   at row r0: the NONMEM positions OMEGA(r, c) it hands out are exactly the lower triangle
   r0 <= c <= r < r0 + n in row-major order, and it continues at row r0 + n *)
Lemma omega_positions_lemma rows r0 fx :
  tri_rows 0 rows ->
  let '(ps, r, c) := walk r0 r0 r0 (concat rows) fx in
  map (fun p => (op_row p, op_col p)) ps = tri_positions r0 (length rows) /\
  map op_init ps = concat rows /\
  r = r0 + length rows /\ c = r0.
Proof.
  intro Ht. pose proof (walk_rows rows r0 0 fx Ht) as W. rewrite Nat.add_0_r in W. rewrite W.
  split; [|split; [|split; [lia|reflexivity]]].
  - unfold tri_positions. apply (rows_params_pos rows r0 0 fx Ht).
  - clear W. revert Ht. generalize 0 as i. induction rows as [|row tl IH]; intros i Ht; [reflexivity|].
    cbn [tri_rows] in Ht. destruct Ht as [_ Ht]. cbn [rows_params concat]. rewrite map_app, (IH (S i) Ht). f_equal.
    generalize r0 at 2 as c. generalize (r0 + i) as r. induction row as [|v vs IHv]; intros r c; [reflexivity|].
    cbn [row_params map op_init]. f_equal. apply IHv.
Qed.

(* a SAME block advances the position by the size of the previous block and adds no parameter *)
Lemma params_same_lemma row col k b tl :
  ob_same b = true -> params_from row col (Some k) (b :: tl) = params_from (row + k) (col + k) (Some k) tl.
Proof. intro H. cbn [params_from]. rewrite H. reflexivity. Qed.

Lemma params_first_same_lemma b tl : ob_same b = true -> parameters_from_blocks (b :: tl) = None.
Proof. intro H. unfold parameters_from_blocks. cbn [params_from]. rewrite H. reflexivity. Qed.

(* rvs_from_blocks numbers the etas consecutively *)
Lemma rvs_etas_consecutive bs : forall is_eps e p n pc,
  concat (map rv_etas (rvs_from is_eps e p n pc bs)) =
  seq e (length (concat (map rv_etas (rvs_from is_eps e p n pc bs)))).
Proof.
  induction bs as [|b tl IH]; intros is_eps e p n pc; [reflexivity|].
  cbn [rvs_from map concat rv_etas]. rewrite app_length, seq_length, seq_app. f_equal.
  apply IH.
Qed.

(* a SAME block has as many etas as, and the covariance parameters of, the block before it *)
Lemma same_repeats_previous_lemma is_eps e p n pc b1 b2 tl d1 d2 rest :
  rvs_from is_eps e p n pc (b1 :: b2 :: tl) = d1 :: d2 :: rest -> ob_same b2 = true ->
  rv_cov d2 = rv_cov d1 /\ length (rv_etas d2) = length (rv_etas d1) /\
  rv_etas d2 = seq (e + length (rv_etas d1)) (length (rv_etas d1)).
Proof.
  intros H Hs. cbn [rvs_from] in H. rewrite Hs in H. injection H as H1 H2 _. subst d1 d2.
  cbn [rv_cov rv_etas]. rewrite !seq_length. repeat split; reflexivity.
Qed.

(* the level rule: epsilons are RUV; an eta block is IOV exactly when it is SAME or followed by SAME *)
Lemma level_rule_lemma is_eps e p n pc b tl d rest :
  rvs_from is_eps e p n pc (b :: tl) = d :: rest ->
  rv_level d = if is_eps then RUV else if ob_same b || next_same tl then IOV else IIV.
Proof. intro H. cbn [rvs_from] in H. injection H as H _. subst d. reflexivity. Qed.
