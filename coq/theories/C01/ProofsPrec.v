(* PV.C01.ProofsPrec — parse (print) = id for the minimal-parentheses printer. *)
From Coq Require Import QArith List Bool PArith Arith Lia.
From PV Require Import Base.PyData Base.Expr Base.Interp C01.Model C01.Proofs C01.Parser C01.ParserProofs C01.PrecPrinter.
Import ListNotations.
Local Open Scope nat_scope.

(* ---- more fuel never changes a successful parse --------------------------------------------------- *)
Definition mono_at (n : nat) : Prop :=
  (forall ts r, p_add n ts = Some r -> p_add (S n) ts = Some r) /\
  (forall acc ts r, add_loop n acc ts = Some r -> add_loop (S n) acc ts = Some r) /\
  (forall ts r, p_mul n ts = Some r -> p_mul (S n) ts = Some r) /\
  (forall acc ts r, mul_loop n acc ts = Some r -> mul_loop (S n) acc ts = Some r) /\
  (forall ts r, p_sgn n ts = Some r -> p_sgn (S n) ts = Some r) /\
  (forall ts r, p_pow n ts = Some r -> p_pow (S n) ts = Some r) /\
  (forall ts r, p_atom n ts = Some r -> p_atom (S n) ts = Some r).

Lemma mono_all n : mono_at n.
Proof.
  induction n as [|n IH].
  - repeat split; intros; discriminate.
  - destruct IH as [Ha [Hal [Hm [Hml [Hs [Hp Hat]]]]]].
    repeat split.
    + intros ts r H. rewrite p_add_S in H. rewrite p_add_S.
      destruct (p_mul n ts) as [[a r']|] eqn:E; [|discriminate].
      rewrite (Hm _ _ E). apply Hal. exact H.
    + intros acc ts r H. rewrite add_loop_S in H. rewrite add_loop_S.
      destruct ts as [|t tl]; [exact H|].
      destruct t; try exact H;
        (destruct (p_mul n tl) as [[b r']|] eqn:E; [|discriminate]; rewrite (Hm _ _ E); apply Hal; exact H).
    + intros ts r H. rewrite p_mul_S in H. rewrite p_mul_S.
      destruct (p_sgn n ts) as [[a r']|] eqn:E; [|discriminate].
      rewrite (Hs _ _ E). apply Hml. exact H.
    + intros acc ts r H. rewrite mul_loop_S in H. rewrite mul_loop_S.
      destruct ts as [|t tl]; [exact H|].
      destruct t; try exact H;
        (destruct (p_sgn n tl) as [[b r']|] eqn:E; [|discriminate]; rewrite (Hs _ _ E); apply Hml; exact H).
    + intros ts r H. rewrite p_sgn_S in H. rewrite p_sgn_S.
      destruct ts as [|t tl]; [apply Hp; exact H|].
      destruct t; try (apply Hp; exact H).
      destruct (p_pow n tl) as [[a r']|] eqn:E; [|discriminate]. rewrite (Hp _ _ E). exact H.
    + intros ts r H. rewrite p_pow_S in H. rewrite p_pow_S.
      destruct (p_atom n ts) as [[a r']|] eqn:E; [|discriminate].
      rewrite (Hat _ _ E).
      destruct r' as [|t tl]; [exact H|].
      destruct t; try exact H.
      destruct (p_sgn n tl) as [[b r'']|] eqn:E2; [|discriminate]. rewrite (Hs _ _ E2). exact H.
    + intros ts r H. rewrite p_atom_S in H. rewrite p_atom_S.
      destruct ts as [|t tl]; [discriminate|].
      destruct t; try discriminate; try exact H.
      * (* TFn *)
        destruct tl as [|t2 tl2]; [discriminate|]. destruct t2; try discriminate.
        destruct (p_add n tl2) as [[a r']|] eqn:E; [|discriminate]. rewrite (Ha _ _ E).
        destruct r' as [|t3 tl3]; [discriminate|]. destruct t3; try discriminate; try exact H.
        destruct (p_add n tl3) as [[b r'']|] eqn:E2; [|discriminate]. rewrite (Ha _ _ E2). exact H.
      * (* TLp *)
        destruct (p_add n tl) as [[a r']|] eqn:E; [|discriminate]. rewrite (Ha _ _ E). exact H.
Qed.

Lemma add_loop_le n m acc ts r : n <= m -> add_loop n acc ts = Some r -> add_loop m acc ts = Some r.
Proof. intro Hle. induction Hle; intro H0; [exact H0|]. apply (proj1 (proj2 (mono_all m))). apply IHHle. exact H0. Qed.
Lemma mul_loop_le n m acc ts r : n <= m -> mul_loop n acc ts = Some r -> mul_loop m acc ts = Some r.
Proof. intro Hle. induction Hle; intro H0; [exact H0|]. apply (proj1 (proj2 (proj2 (proj2 (mono_all m))))). apply IHHle. exact H0. Qed.

(* ---- forms of "these tokens parse to e" at each level, with an explicit fuel bound k ------------- *)
Definition F5 (ts : list tok) (e : expr) (k : nat) : Prop :=
  forall n rest, k <= n -> p_atom n (ts ++ rest) = Some (e, rest).
Definition F4 (ts : list tok) (e : expr) (k : nat) : Prop :=
  forall n rest, k <= n -> no_pow rest = true -> p_pow n (ts ++ rest) = Some (e, rest).
Definition F3 (ts : list tok) (e : expr) (k : nat) : Prop :=
  forall n rest, k <= n -> no_pow rest = true -> p_sgn n (ts ++ rest) = Some (e, rest).
Definition F2 (ts : list tok) (e : expr) (k : nat) : Prop :=
  forall n rest, k <= n -> no_mul rest = true -> p_mul n (ts ++ rest) = Some (e, rest).
Definition F1 (ts : list tok) (e : expr) (k : nat) : Prop :=
  forall n rest, k <= n -> no_add rest = true -> p_add n (ts ++ rest) = Some (e, rest).
(* loop forms: the tokens may be followed by more operands of the same level *)
Definition L2 (ts : list tok) (e : expr) (k : nat) : Prop :=
  forall rest r m n, no_pow rest = true -> mul_loop m e rest = Some r -> k + m <= n -> p_mul n (ts ++ rest) = Some r.
Definition L1 (ts : list tok) (e : expr) (k : nat) : Prop :=
  forall rest r m n, no_mul rest = true -> add_loop m e rest = Some r -> k + m <= n -> p_add n (ts ++ rest) = Some r.

Lemma F5_F4 ts e k : F5 ts e k -> F4 ts e (k + 1).
Proof. intros H n rest Hn Hr. apply (pow_ok ts e k H); assumption. Qed.
Lemma F4_F3 ts e k : start_ok ts = true -> F4 ts e k -> F3 ts e (k + 1).
Proof.
  intros Hs H n rest Hn Hr. destruct n as [|n]; [lia|]. rewrite (sgn_start n ts rest Hs). apply H; [lia|exact Hr].
Qed.
Lemma F3_L2 ts e k : F3 ts e k -> L2 ts e (k + 1).
Proof.
  intros H rest r m n Hr Hl Hn. destruct n as [|n]; [lia|]. rewrite p_mul_S, H by (assumption || lia).
  apply (mul_loop_le m n); [lia|exact Hl].
Qed.
Lemma no_mul_pow rest : no_mul rest = true -> no_pow rest = true.
Proof. destruct rest as [|t r]; [reflexivity|]. destruct t; cbn; congruence. Qed.
Lemma no_add_mul rest : no_add rest = true -> no_mul rest = true.
Proof. destruct rest as [|t r]; [reflexivity|]. destruct t; cbn; congruence. Qed.
Lemma L2_F2 ts e k : L2 ts e k -> F2 ts e (k + 1).
Proof.
  intros H n rest Hn Hr. apply (H rest (e, rest) 1 n (no_mul_pow rest Hr)); [|lia].
  rewrite mul_loop_S. destruct rest as [|t r]; [reflexivity|]. destruct t; try reflexivity; discriminate.
Qed.
Lemma F2_L1 ts e k : F2 ts e k -> L1 ts e (k + 1).
Proof.
  intros H rest r m n Hr Hl Hn. destruct n as [|n]; [lia|]. rewrite p_add_S, H by (assumption || lia).
  apply (add_loop_le m n); [lia|exact Hl].
Qed.
Lemma L1_F1 ts e k : L1 ts e k -> F1 ts e (k + 1).
Proof.
  intros H n rest Hn Hr. apply (H rest (e, rest) 1 n (no_add_mul rest Hr)); [|lia].
  rewrite add_loop_S. destruct rest as [|t r]; [reflexivity|]. destruct t; try reflexivity; discriminate.
Qed.
Lemma F1_F5paren ts e k : F1 ts e k -> F5 (TLp :: ts ++ [TRp]) e (k + 1).
Proof.
  intros H n rest Hn. destruct n as [|n]; [lia|]. cbn [app]. rewrite p_atom_S, <- app_assoc. cbn [app].
  rewrite H by (reflexivity || lia). reflexivity.
Qed.

(* chains *)
Lemma chain_add x tsx y tsy kx ky (plus : bool) :
  L1 tsx x kx -> F2 tsy y ky ->
  L1 (tsx ++ (if plus then TPlus else TMinus) :: tsy) (Add x (if plus then y else Neg y)) (kx + ky + 1).
Proof.
  intros Hx Hy rest r m n Hr Hl Hn. rewrite <- app_assoc. cbn [app].
  apply (Hx _ r (S (Nat.max m ky)) n); [destruct plus; reflexivity| |lia].
  rewrite add_loop_S.
  destruct plus; rewrite (Hy (Nat.max m ky) rest) by (assumption || lia);
    apply (add_loop_le m); [lia|exact Hl|lia|exact Hl].
Qed.

Lemma chain_mul x tsx y tsy kx ky (star : bool) :
  L2 tsx x kx -> F3 tsy y ky ->
  L2 (tsx ++ (if star then TStar else TSlash) :: tsy) (if star then Mul x y else Div x y) (kx + ky + 1).
Proof.
  intros Hx Hy rest r m n Hr Hl Hn. rewrite <- app_assoc. cbn [app].
  apply (Hx _ r (S (Nat.max m ky)) n); [destruct star; reflexivity| |lia].
  rewrite mul_loop_S.
  destruct star; rewrite (Hy (Nat.max m ky) rest) by (assumption || lia);
    apply (mul_loop_le m); [lia|exact Hl|lia|exact Hl].
Qed.

(* weakening of the fuel bound *)
Lemma F5_w ts e k k' : k <= k' -> F5 ts e k -> F5 ts e k'.
Proof. intros Hk H n rest Hn. apply H. lia. Qed.
Lemma F4_w ts e k k' : k <= k' -> F4 ts e k -> F4 ts e k'.
Proof. intros Hk H n rest Hn Hr. apply H; [lia|exact Hr]. Qed.
Lemma F3_w ts e k k' : k <= k' -> F3 ts e k -> F3 ts e k'.
Proof. intros Hk H n rest Hn Hr. apply H; [lia|exact Hr]. Qed.
Lemma L2_w ts e k k' : k <= k' -> L2 ts e k -> L2 ts e k'.
Proof. intros Hk H rest r m n Hr Hl Hn. apply (H rest r m n Hr Hl). lia. Qed.
Lemma L1_w ts e k k' : k <= k' -> L1 ts e k -> L1 ts e k'.
Proof. intros Hk H rest r m n Hr Hl Hn. apply (H rest r m n Hr Hl). lia. Qed.

Lemma start_app ts r : start_ok ts = true -> start_ok (ts ++ r) = true.
Proof. destruct ts as [|t tl]; [discriminate|]. destruct t; try discriminate; reflexivity. Qed.

(* native facts *)
Lemma fn1_native f tsa a k : F1 tsa a k -> F5 (TFn f :: TLp :: tsa ++ [TRp]) (Fn1 f a) (k + 1).
Proof.
  intros H n rest Hn. destruct n as [|n]; [lia|]. cbn [app]. rewrite p_atom_S, <- app_assoc. cbn [app].
  rewrite H by (reflexivity || lia). reflexivity.
Qed.
Lemma fn2_native f tsa a ka tsb b kb :
  F1 tsa a ka -> F1 tsb b kb -> F5 (TFn f :: TLp :: tsa ++ TComma :: tsb ++ [TRp]) (Fn2 f a b) (Nat.max ka kb + 1).
Proof.
  intros Ha Hb n rest Hn. destruct n as [|n]; [lia|]. cbn [app]. rewrite p_atom_S, <- app_assoc. cbn [app].
  rewrite <- app_assoc. cbn [app].
  rewrite Ha by (reflexivity || lia). rewrite Hb by (reflexivity || lia). reflexivity.
Qed.
Lemma pow_native tsa a ka tsb b kb :
  F5 tsa a ka -> F3 tsb b kb -> F4 (tsa ++ TPow :: tsb) (Fn2 F_POW a b) (Nat.max ka kb + 1).
Proof.
  intros Ha Hb n rest Hn Hr. destruct n as [|n]; [lia|]. rewrite <- app_assoc. cbn [app].
  rewrite p_pow_S, Ha by lia. rewrite Hb by (assumption || lia). reflexivity.
Qed.
Lemma neg_native tsa a k : F4 tsa a k -> F3 (TMinus :: tsa) (Neg a) (k + 1).
Proof.
  intros H n rest Hn Hr. destruct n as [|n]; [lia|]. cbn [app]. rewrite p_sgn_S, H by (assumption || lia). reflexivity.
Qed.

Definition B (e : expr) : nat := 40 * esize e.
Definition All (e : expr) : Prop :=
  F5 (prp 5 e) e (B e) /\ F4 (prp 4 e) e (B e) /\ F3 (prp 3 e) e (B e) /\ L2 (prp 2 e) e (B e) /\ L1 (prp 1 e) e (B e).

(* from a fact at the native level of the construct to all five levels:
   below the native level the tokens are [body], above it they are ( body ) *)
Lemma from_atom ts e k : start_ok ts = true -> F5 ts e k ->
  F5 ts e k /\ F4 ts e (k + 1) /\ F3 ts e (k + 2) /\ L2 ts e (k + 3) /\ L1 ts e (k + 5).
Proof.
  intros Hs H. pose proof (F5_F4 _ _ _ H) as H4. pose proof (F4_F3 _ _ _ Hs H4) as H3.
  pose proof (F3_L2 _ _ _ H3) as H2. pose proof (F2_L1 _ _ _ (L2_F2 _ _ _ H2)) as H1.
  repeat split; [exact H | exact H4 | eapply F3_w; [|exact H3]; lia | eapply L2_w; [|exact H2]; lia | eapply L1_w; [|exact H1]; lia].
Qed.

Lemma from_atom' ts e k : F5 ts e k -> start_ok ts = true ->
  F5 ts e k /\ F4 ts e (k + 1) /\ F3 ts e (k + 2) /\ L2 ts e (k + 3) /\ L1 ts e (k + 5).
Proof. intros H Hs. apply from_atom; assumption. Qed.

Lemma above_paren body e k : F1 body e k ->
  F5 (TLp :: body ++ [TRp]) e (k + 1) /\ F4 (TLp :: body ++ [TRp]) e (k + 2) /\ F3 (TLp :: body ++ [TRp]) e (k + 3)
  /\ L2 (TLp :: body ++ [TRp]) e (k + 4).
Proof.
  intro H. pose proof (F1_F5paren _ _ _ H) as H5.
  destruct (from_atom' _ _ _ H5 eq_refl) as [_ [H4 [H3 [H2 _]]]].
  repeat split; [exact H5 | eapply F4_w; [|exact H4]; lia | eapply F3_w; [|exact H3]; lia | eapply L2_w; [|exact H2]; lia].
Qed.

Lemma prp5_start e : wfe e = true -> start_ok (prp 5 e) = true.
Proof.
  destruct e; cbn [wfe prp]; try reflexivity; try discriminate.
  intros _. destruct (Pos.eqb f F_POW); reflexivity.
Qed.

Lemma all_size m : forall e, esize e <= m -> wfe e = true -> All e.
Proof.
  induction m as [|m IH]; intros e Hs Hw.
  - destruct e; cbn in Hs; lia.
  - assert (A : forall x, esize x <= m -> wfe x = true -> All x) by exact IH.
    unfold All, B in *.
    destruct e as [q|s|f a|f a b|a b|a b|a|a b| |c a b]; cbn [wfe] in Hw; try discriminate; cbn [esize] in *.
    + (* Num *)
      assert (H5 : F5 [TNum q] (Num q) 1) by (intros n rest Hn; destruct n as [|n]; [lia|reflexivity]).
      destruct (from_atom' _ _ _ H5 eq_refl) as [G5 [G4 [G3 [G2 G1]]]]. cbn [prp].
      repeat split; [eapply F5_w|eapply F4_w|eapply F3_w|eapply L2_w|eapply L1_w]; try eassumption; lia.
    + (* Sym *)
      assert (H5 : F5 [TId s] (Sym s) 1) by (intros n rest Hn; destruct n as [|n]; [lia|reflexivity]).
      destruct (from_atom' _ _ _ H5 eq_refl) as [G5 [G4 [G3 [G2 G1]]]]. cbn [prp].
      repeat split; [eapply F5_w|eapply F4_w|eapply F3_w|eapply L2_w|eapply L1_w]; try eassumption; lia.
    + (* Fn1 *)
      destruct (A a ltac:(lia) Hw) as [_ [_ [_ [_ La]]]].
      pose proof (fn1_native f _ _ _ (L1_F1 _ _ _ La)) as H5.
      destruct (from_atom' _ _ _ H5 eq_refl) as [G5 [G4 [G3 [G2 G1]]]]. cbn [prp].
      repeat split; [eapply F5_w|eapply F4_w|eapply F3_w|eapply L2_w|eapply L1_w]; try eassumption; lia.
    + (* Fn2 *)
      apply andb_true_iff in Hw. destruct Hw as [Hwa Hwb].
      destruct (A a ltac:(lia) Hwa) as [Fa5 [_ [_ [_ La]]]]. destruct (A b ltac:(lia) Hwb) as [_ [_ [Fb3 [_ Lb]]]].
      cbn [prp]. destruct (Pos.eqb f F_POW) eqn:Ef.
      * apply Pos.eqb_eq in Ef. subst f.
        pose proof (pow_native _ _ _ _ _ _ Fa5 Fb3) as H4.
        set (body := prp 5 a ++ TPow :: prp 3 b) in *.
        assert (Sb : start_ok body = true) by (apply start_app; apply prp5_start; exact Hwa).
        pose proof (F4_F3 _ _ _ Sb H4) as H3. pose proof (F3_L2 _ _ _ H3) as H2.
        pose proof (F2_L1 _ _ _ (L2_F2 _ _ _ H2)) as H1.
        destruct (above_paren _ _ _ (L1_F1 _ _ _ H1)) as [P5 _].
        cbn [Nat.ltb Nat.leb paren].
        repeat split; [eapply F5_w|eapply F4_w|eapply F3_w|eapply L2_w|eapply L1_w]; try eassumption; lia.
      * pose proof (fn2_native f _ _ _ _ _ _ (L1_F1 _ _ _ La) (L1_F1 _ _ _ Lb)) as H5.
        destruct (from_atom' _ _ _ H5 eq_refl) as [G5 [G4 [G3 [G2 G1]]]].
        repeat split; [eapply F5_w|eapply F4_w|eapply F3_w|eapply L2_w|eapply L1_w]; try eassumption; lia.
    + (* Add *)
      apply andb_true_iff in Hw. destruct Hw as [Hwa Hwb].
      destruct (A a ltac:(lia) Hwa) as [_ [_ [_ [_ La]]]].
      assert (Hn : exists body k, prp 1 (Add a b) = body /\ L1 body (Add a b) k /\ k <= 40 * (esize a + esize b) + 10 /\
                   forall lvl, prp lvl (Add a b) = paren (1 <? lvl) body).
      { destruct b as [q|s|f x|f x y|x y|x y|x|x y| |c x y];
          try (match goal with |- context [Add a ?bb] =>
                 destruct (A bb ltac:(cbn [esize] in *; lia) Hwb) as [_ [_ [_ [Lb2 _]]]];
                 pose proof (chain_add a _ bb _ _ _ true La (L2_F2 _ _ _ Lb2)) as H1;
                 eexists; eexists; split; [reflexivity|]; split; [exact H1|]; split; [cbn [esize] in *; lia | intro lvl; reflexivity]
               end).
        cbn [wfe] in Hwb. destruct (A x ltac:(cbn [esize] in *; lia) Hwb) as [_ [_ [_ [Lb2 _]]]].
        pose proof (chain_add a _ x _ _ _ false La (L2_F2 _ _ _ Lb2)) as H1.
        eexists; eexists; split; [reflexivity|]; split; [exact H1|]; split; [cbn [esize] in *; lia | intro lvl; reflexivity]. }
      destruct Hn as [body [k [Eb [H1 [Hk Hl]]]]].
      destruct (above_paren _ _ _ (L1_F1 _ _ _ H1)) as [P5 [P4 [P3 P2]]].
      rewrite !Hl. cbn [Nat.ltb Nat.leb paren].
      repeat split; [eapply F5_w|eapply F4_w|eapply F3_w|eapply L2_w|eapply L1_w]; try eassumption; lia.
    + (* Mul *)
      apply andb_true_iff in Hw. destruct Hw as [Hwa Hwb].
      destruct (A a ltac:(lia) Hwa) as [_ [_ [_ [La2 _]]]]. destruct (A b ltac:(lia) Hwb) as [_ [_ [Fb3 _]]].
      pose proof (chain_mul a _ b _ _ _ true La2 Fb3) as H2.
      pose proof (F2_L1 _ _ _ (L2_F2 _ _ _ H2)) as H1.
      destruct (above_paren _ _ _ (L1_F1 _ _ _ H1)) as [P5 [P4 [P3 _]]].
      cbn [prp Nat.ltb Nat.leb paren].
      repeat split; [eapply F5_w|eapply F4_w|eapply F3_w|eapply L2_w|eapply L1_w]; try eassumption; lia.
    + (* Neg *)
      destruct (A a ltac:(lia) Hw) as [_ [Fa4 _]].
      pose proof (neg_native _ _ _ Fa4) as H3. pose proof (F3_L2 _ _ _ H3) as H2.
      pose proof (F2_L1 _ _ _ (L2_F2 _ _ _ H2)) as H1.
      destruct (above_paren _ _ _ (L1_F1 _ _ _ H1)) as [P5 [P4 _]].
      cbn [prp Nat.ltb Nat.leb paren].
      repeat split; [eapply F5_w|eapply F4_w|eapply F3_w|eapply L2_w|eapply L1_w]; try eassumption; lia.
    + (* Div *)
      apply andb_true_iff in Hw. destruct Hw as [Hwa Hwb].
      destruct (A a ltac:(lia) Hwa) as [_ [_ [_ [La2 _]]]]. destruct (A b ltac:(lia) Hwb) as [_ [_ [Fb3 _]]].
      pose proof (chain_mul a _ b _ _ _ false La2 Fb3) as H2.
      pose proof (F2_L1 _ _ _ (L2_F2 _ _ _ H2)) as H1.
      destruct (above_paren _ _ _ (L1_F1 _ _ _ H1)) as [P5 [P4 [P3 _]]].
      cbn [prp Nat.ltb Nat.leb paren].
      repeat split; [eapply F5_w|eapply F4_w|eapply F3_w|eapply L2_w|eapply L1_w]; try eassumption; lia.
Qed.

Lemma exprP_ok e : wfe e = true -> forall n rest, 40 * esize e + 6 <= n -> no_add rest = true ->
  p_add n (prE e ++ rest) = Some (e, rest).
Proof.
  intros H n rest Hn Hr. destruct (all_size (esize e) e (le_n _) H) as [_ [_ [_ [_ L]]]].
  apply (L1_F1 _ _ _ L); [unfold B; lia|exact Hr].
Qed.

(* ---- conditions and statements (same proofs as for the fully parenthesising printer) ---------- *)
Lemma relP_ok c : wf_rel c = true -> forall n rest, 40 * csize c <= n -> no_add rest = true ->
  p_rel n (prcP c ++ rest) = Some (c, rest).
Proof.
  intro Hw. destruct c as [| |o a b|a b|a b|a]; cbn in Hw; try discriminate Hw. cbn [csize prcP]. intros n rest Hn Hr.
  apply andb_true_iff in Hw. destruct Hw as [Ha Hb]. unfold p_rel.
  rewrite <- app_assoc. cbn [app].
  rewrite (exprP_ok a Ha) by (reflexivity || lia).
  rewrite (exprP_ok b Hb) by (assumption || lia). reflexivity.
Qed.

Definition nonot (ts : list tok) : bool := match ts with [] | TNot :: _ => false | _ => true end.
Lemma nonot_prp e : wfe e = true -> forall lvl r, nonot (prp lvl e ++ r) = true.
Proof.
  induction e as [q|s|f a IHa|f a IHa b IHb|a IHa b IHb|a IHa b IHb|a IHa|a IHa b IHb| |c a IHa b IHb];
    cbn [wfe]; intros H lvl r; try discriminate H; cbn [prp]; try reflexivity.
  - destruct (Pos.eqb f F_POW); [|reflexivity]. apply andb_true_iff in H. destruct H as [Ha _].
    destruct (4 <? lvl); cbn [paren]; [reflexivity|]. rewrite <- app_assoc. apply IHa. exact Ha.
  - apply andb_true_iff in H. destruct H as [Ha _].
    destruct (1 <? lvl); cbn [paren]; [reflexivity|]. destruct b; rewrite <- app_assoc; apply IHa; exact Ha.
  - apply andb_true_iff in H. destruct H as [Ha _].
    destruct (2 <? lvl); cbn [paren]; [reflexivity|]. rewrite <- app_assoc. apply IHa. exact Ha.
  - destruct (3 <? lvl); reflexivity.
  - apply andb_true_iff in H. destruct H as [Ha _].
    destruct (2 <? lvl); cbn [paren]; [reflexivity|]. rewrite <- app_assoc. apply IHa. exact Ha.
Qed.

Lemma prcP_first c : wf_not c = true -> match c with CNot _ => True | _ => nonot (prcP c) = true end.
Proof.
  intro H. destruct c as [| |o a b|a b|a b|a]; cbn in H; try discriminate H; [|trivial].
  cbn [prcP]. apply andb_true_iff in H. destruct H as [Ha _]. unfold prE. apply nonot_prp. exact Ha.
Qed.

Lemma notP_ok c : wf_not c = true -> forall n rest, 40 * csize c <= n -> no_add rest = true ->
  p_not n (prcP c ++ rest) = Some (c, rest).
Proof.
  intros Hw n rest Hn Hr. pose proof (prcP_first c Hw) as Hs.
  destruct c as [| |o a b|a b|a b|a]; cbn in Hw; try discriminate Hw.
  - unfold p_not. destruct (prcP (CRel o a b)) as [|t tl] eqn:E; [discriminate|].
    cbn [app]. destruct t; try discriminate; rewrite app_comm_cons, <- E; apply relP_ok; assumption.
  - cbn [wf_not] in Hw. cbn [prcP app csize] in *. unfold p_not.
    rewrite (relP_ok a Hw) by (assumption || lia). reflexivity.
Qed.


Lemma andP_chain c : wf_and c = true -> forall n k rest, 40 * csize c <= n -> cnt_and c < k -> no_add rest = true ->
  match p_not n (prcP c ++ rest) with Some (a, r) => and_loop k n a r | None => None end =
  and_loop (k - cnt_and c) n c rest.
Proof.
  induction c as [| |o a b|a IHa b IHb|a IHa b IHb|a IHa]; intros Hw n k rest Hn Hk Hr;
    try (cbn [cnt_and]; rewrite Nat.sub_0_r; rewrite notP_ok by assumption; reflexivity).
  cbn [wf_and] in Hw. apply andb_true_iff in Hw. destruct Hw as [Hwa Hwb].
    cbn [prcP csize cnt_and] in *. rewrite <- app_assoc. cbn [app].
    rewrite (IHa Hwa n k (TAnd :: prcP b ++ rest)) by (reflexivity || lia).
    destruct (k - cnt_and a) as [|k'] eqn:Ek; [lia|]. cbn [and_loop].
    rewrite (notP_ok b Hwb) by (assumption || lia).
    replace (k - S (cnt_and a)) with k' by lia. reflexivity.
Qed.

Lemma andP_ok c : wf_and c = true -> forall n rest, 40 * csize c + 2 <= n -> no_and rest = true ->
  p_and n (prcP c ++ rest) = Some (c, rest).
Proof.
  intros Hw n rest Hn Hr. unfold p_and. pose proof (cnt_and_le c) as Hc.
  rewrite (andP_chain c Hw n n rest) by (try apply no_and_add; assumption || lia).
  destruct (n - cnt_and c) as [|k'] eqn:Ek; [lia|]. cbn [and_loop].
  destruct rest as [|t r]; [reflexivity|]. destruct t; try reflexivity. discriminate.
Qed.

Lemma orP_chain c : wf_or c = true -> forall n k rest, 40 * csize c + 2 <= n -> cnt_or c < k -> no_and rest = true ->
  match p_and n (prcP c ++ rest) with Some (a, r) => or_loop k n a r | None => None end =
  or_loop (k - cnt_or c) n c rest.
Proof.
  induction c as [| |o a b|a IHa b IHb|a IHa b IHb|a IHa]; intros Hw n k rest Hn Hk Hr;
    try (cbn [cnt_or]; rewrite Nat.sub_0_r; rewrite andP_ok by assumption; reflexivity).
  cbn [wf_or] in Hw. apply andb_true_iff in Hw. destruct Hw as [Hwa Hwb].
    cbn [prcP csize cnt_or] in *. rewrite <- app_assoc. cbn [app].
    rewrite (IHa Hwa n k (TOr :: prcP b ++ rest)) by (reflexivity || lia).
    destruct (k - cnt_or a) as [|k'] eqn:Ek; [lia|]. cbn [or_loop].
    rewrite (andP_ok b Hwb) by (assumption || lia).
    replace (k - S (cnt_or a)) with k' by lia. reflexivity.
Qed.

Lemma condP_ok c : wf_or c = true -> forall n rest, 40 * csize c + 4 <= n -> no_or rest = true ->
  p_cond n (prcP c ++ rest) = Some (c, rest).
Proof.
  intros Hw n rest Hn Hr. unfold p_cond. pose proof (cnt_or_le c) as Hc.
  rewrite (orP_chain c Hw n n rest) by (try apply no_or_and; assumption || lia).
  destruct (n - cnt_or c) as [|k'] eqn:Ek; [lia|]. cbn [or_loop].
  destruct rest as [|t r]; [reflexivity|]. destruct t; try reflexivity. discriminate.
Qed.

Definition QPb (b : body) : Prop :=
  wf_body b = true -> forall n rest, 40 * bsize b <= n -> bend rest = true ->
  p_body n (prP_body b ++ rest) = Some (b, rest).
Definition QPs (s : nmstmt) : Prop :=
  wf_stmt s = true -> forall tl, QPb tl -> wf_body tl = true -> forall n rest,
  40 * (ssize s + bsize tl) + 12 <= n -> bend rest = true ->
  p_body n (prP_stmt s ++ prP_body tl ++ rest) = Some (BCons s tl, rest).
Definition QPbr (brs : branches) : Prop :=
  wf_branches brs = true -> forall els, QPb els -> wf_body els = true -> forall n rest,
  40 * (brsize brs + bsize els) <= n ->
  p_branches n (prP_elseifs brs ++ pr_else prP_body els ++ TEndIf :: TNl :: rest) = Some (brs, els, rest).

Lemma bendP_tail brs els rest : bend (prP_elseifs brs ++ pr_else prP_body els ++ TEndIf :: TNl :: rest) = true.
Proof. destruct brs; [destruct els|]; reflexivity. Qed.

Definition QQPbr2 (brs : branches) : Prop :=
  QPbr brs /\ match brs with BrNil => True | BrCons _ b tl => QPb b /\ QPbr tl end.

Lemma parseP_all : (forall s, QPs s) /\ (forall b, QPb b) /\ (forall brs, QQPbr2 brs).
Proof.
  apply nm_mutind.
  - (* NAssign *)
    intros x e Hw tl Ptl Hwtl n rest Hn Hr. change (wfe e = true) in Hw.
    change (ssize (NAssign x e)) with (S (esize e)) in Hn.
    destruct n as [|n]; [lia|].
    change (prP_stmt (NAssign x e)) with (TId x :: TAssign :: prE e ++ [TNl]).
    cbn [app]. rewrite <- app_assoc. cbn [app]. rewrite p_body_S.
    rewrite (exprP_ok e Hw) by (reflexivity || lia).
    rewrite (Ptl Hwtl) by (assumption || lia). reflexivity.
  - (* NIf *)
    intros c x e Hw tl Ptl Hwtl n rest Hn Hr. change (wf_or c && wfe e = true) in Hw.
    apply andb_true_iff in Hw. destruct Hw as [Hc He].
    change (ssize (NIf c x e)) with (S (csize c + esize e)) in Hn.
    destruct n as [|n]; [lia|].
    change (prP_stmt (NIf c x e)) with (TIf :: TLp :: prcP c ++ TRp :: TId x :: TAssign :: prE e ++ [TNl]).
    cbn [app]. rewrite <- app_assoc. cbn [app]. rewrite <- app_assoc. cbn [app]. rewrite p_body_S.
    rewrite (condP_ok c Hc) by (reflexivity || lia).
    rewrite (exprP_ok e He) by (reflexivity || lia).
    rewrite (Ptl Hwtl) by (assumption || lia). reflexivity.
  - (* NBlock *)
    intros brs IHbrs els IHels Hw tl Ptl Hwtl n rest Hn Hr.
    destruct brs as [|c b1 brs']; [discriminate Hw|].
    destruct IHbrs as [_ [Pb1 QPbrs']].
    rewrite wf_stmt_block in Hw.
    apply andb_true_iff in Hw. destruct Hw as [Hw Hwe].
    apply andb_true_iff in Hw. destruct Hw as [Hw Hwbr].
    apply andb_true_iff in Hw. destruct Hw as [Hwc Hwb].
    change (ssize (NBlock (BrCons c b1 brs') els)) with (S (S (csize c + bsize b1 + brsize brs') + bsize els)) in Hn.
    destruct n as [|n]; [lia|].
    change (prP_stmt (NBlock (BrCons c b1 brs') els)) with
      (TIf :: TLp :: prcP c ++ TRp :: TThen :: TNl :: prP_body b1 ++ prP_elseifs brs' ++ pr_else prP_body els ++ [TEndIf; TNl]).
    cbn [app]. rewrite <- app_assoc. cbn [app]. rewrite <- !app_assoc. cbn [app]. rewrite p_body_S.
    rewrite (condP_ok c Hwc) by (reflexivity || lia).
    rewrite (Pb1 Hwb) by (apply bendP_tail || lia).
    rewrite (QPbrs' Hwbr els IHels Hwe) by lia.
    rewrite (Ptl Hwtl) by (assumption || lia). reflexivity.
  - (* BNil *)
    intros _ n rest Hn Hr. change (bsize BNil) with 1 in Hn. destruct n as [|n]; [lia|].
    change (prP_body BNil ++ rest) with rest. rewrite p_body_S.
    destruct rest as [|t r]; [reflexivity|]. destruct t; try discriminate Hr; reflexivity.
  - (* BCons *)
    intros s IHs tl IHtl Hw n rest Hn Hr. rewrite wf_body_cons in Hw.
    apply andb_true_iff in Hw. destruct Hw as [Hws Hwt].
    change (bsize (BCons s tl)) with (S (ssize s + bsize tl)) in Hn.
    change (prP_body (BCons s tl)) with (prP_stmt s ++ prP_body tl). rewrite <- app_assoc.
    apply (IHs Hws tl IHtl Hwt); [lia|exact Hr].
  - (* BrNil *)
    split; [|exact I]. intros _ els Pels Hwe n rest Hn.
    change (brsize BrNil) with 1 in Hn. destruct n as [|n]; [lia|].
    change (prP_elseifs BrNil) with (@nil tok). cbn [app]. rewrite p_branches_S.
    destruct els as [|s tl].
    + reflexivity.
    + change (pr_else prP_body (BCons s tl)) with (TElse :: TNl :: prP_body (BCons s tl)). cbn [app].
      rewrite (Pels Hwe) by (reflexivity || lia). reflexivity.
  - (* BrCons *)
    intros c b IHb tl IHtl. destruct IHtl as [Ptl _]. split; [|split; assumption].
    intros Hw els Pels Hwe n rest Hn. rewrite wf_branches_cons in Hw.
    apply andb_true_iff in Hw. destruct Hw as [Hw Hwt]. apply andb_true_iff in Hw. destruct Hw as [Hwc Hwb].
    change (brsize (BrCons c b tl)) with (S (csize c + bsize b + brsize tl)) in Hn.
    destruct n as [|n]; [lia|].
    change (prP_elseifs (BrCons c b tl)) with (TElseIf :: TLp :: prcP c ++ TRp :: TThen :: TNl :: prP_body b ++ prP_elseifs tl).
    cbn [app]. rewrite <- !app_assoc. cbn [app]. rewrite <- !app_assoc. rewrite p_branches_S.
    rewrite (condP_ok c Hwc) by (reflexivity || lia).
    rewrite (IHb Hwb) by (apply bendP_tail || lia).
    rewrite (Ptl Hwt els Pels Hwe) by lia. reflexivity.
Qed.


Theorem parse_print_prec_lemma (p : body) : wf_body p = true ->
  forall n, 40 * bsize p <= n -> p_body n (prP_body p) = Some (p, []).
Proof.
  intros H n Hn. pose proof (proj1 (proj2 parseP_all) p H n [] Hn eq_refl) as P. rewrite app_nil_r in P. exact P.
Qed.

Theorem parse_print_prec_expr_lemma (e : expr) : wfe e = true ->
  forall n, 40 * esize e + 6 <= n -> p_add n (prE e) = Some (e, []).
Proof. intros H n Hn. pose proof (exprP_ok e H n [] Hn eq_refl) as P. rewrite app_nil_r in P. exact P. Qed.
