(* PV.C01.PrecPrinter — the minimal-parentheses (precedence) printer of NM-TRAN abbreviated code. *)
From Coq Require Import QArith List Bool PArith Arith.
From PV Require Import Base.PyData Base.Expr Base.Interp C01.Model C01.Parser.
Import ListNotations.
Local Open Scope nat_scope.

Definition paren (b : bool) (ts : list tok) : list tok := if b then TLp :: ts ++ [TRp] else ts.

(* [prp lvl e]: e printed as an operand of a construct of precedence level lvl
   (1 = + -, 2 = * /, 3 = unary sign, 4 = **, 5 = atom); parentheses only where the level requires them *)
Fixpoint prp (lvl : nat) (e : expr) : list tok :=
  match e with
  | Num q => [TNum q]
  | Sym s => [TId s]
  | Fn1 f a => TFn f :: TLp :: prp 1 a ++ [TRp]
  | Fn2 f a b => if Pos.eqb f F_POW then paren (4 <? lvl) (prp 5 a ++ TPow :: prp 3 b)
                 else TFn f :: TLp :: prp 1 a ++ TComma :: prp 1 b ++ [TRp]
  | Add a b => paren (1 <? lvl) (match b with
                                 | Neg b' => prp 1 a ++ TMinus :: prp 2 b'
                                 | _ => prp 1 a ++ TPlus :: prp 2 b
                                 end)
  | Mul a b => paren (2 <? lvl) (prp 2 a ++ TStar :: prp 3 b)
  | Div a b => paren (2 <? lvl) (prp 2 a ++ TSlash :: prp 3 b)
  | Neg a => paren (3 <? lvl) (TMinus :: prp 4 a)
  | PwNil => []
  | PwCons _ _ _ => []
  end.

Definition prE (e : expr) : list tok := prp 1 e.

Fixpoint prcP (c : cond) : list tok :=
  match c with
  | CRel o a b => prE a ++ TRel o :: prE b
  | CNot a => TNot :: prcP a
  | CAnd a b => prcP a ++ TAnd :: prcP b
  | COr a b => prcP a ++ TOr :: prcP b
  | CTrue | CFalse => []
  end.

Fixpoint prP_stmt (s : nmstmt) : list tok :=
  match s with
  | NAssign x e => TId x :: TAssign :: prE e ++ [TNl]
  | NIf c x e => TIf :: TLp :: prcP c ++ TRp :: TId x :: TAssign :: prE e ++ [TNl]
  | NBlock brs els =>
      match brs with
      | BrCons c b tl => TIf :: TLp :: prcP c ++ TRp :: TThen :: TNl :: prP_body b ++ prP_elseifs tl
                         ++ pr_else prP_body els ++ [TEndIf; TNl]
      | BrNil => []
      end
  end
with prP_body (b : body) : list tok :=
  match b with BNil => [] | BCons s tl => prP_stmt s ++ prP_body tl end
with prP_elseifs (brs : branches) : list tok :=
  match brs with
  | BrCons c b tl => TElseIf :: TLp :: prcP c ++ TRp :: TThen :: TNl :: prP_body b ++ prP_elseifs tl
  | BrNil => []
  end.
