(* PV.C01.Proofs — lemmas for translate_sound. *)
From Coq Require Import QArith List Bool PArith Arith Lia.
From PV Require Import Base.PyData Base.Expr Base.Interp Base.Stmts C01.Model.
Import ListNotations.
Local Open Scope nat_scope.

Definition ext_eq (r r' : env) : Prop := forall v, r v = r' v.

Lemma ext_eq_refl r : ext_eq r r.
Proof. intro v; reflexivity. Qed.
Lemma ext_eq_trans r1 r2 r3 : ext_eq r1 r2 -> ext_eq r2 r3 -> ext_eq r1 r3.
Proof. intros H1 H2 v. rewrite H1. apply H2. Qed.
Lemma ext_eq_sym r1 r2 : ext_eq r1 r2 -> ext_eq r2 r1.
Proof. intros H v. symmetry. apply H. Qed.

(* ---- small list facts ---------------------------------------------------------------------- *)
Lemma nodup_p_NoDup l : nodup_p l = true -> NoDup l.
Proof.
  induction l as [|x tl IH]; cbn [nodup_p]; intro H; [constructor|].
  apply andb_true_iff in H. destruct H as [H1 H2]. constructor; [|apply IH; exact H2].
  intro Hin. apply memp_In in Hin. rewrite Hin in H1. discriminate.
Qed.

Lemma In_dedup x l : In x (dedup l) <-> In x l.
Proof.
  induction l as [|y tl IH]; cbn [dedup]; [tauto|].
  cbn [In]. rewrite filter_In, IH. split.
  - intros [H|[H _]]; auto.
  - intros [H|H]; auto. destruct (Pos.eqb x y) eqn:E.
    + apply Pos.eqb_eq in E. left. symmetry. exact E.
    + right. split; [exact H|]. reflexivity.
Qed.

Lemma NoDup_dedup l : NoDup (dedup l).
Proof.
  induction l as [|y tl IH]; cbn [dedup]; constructor.
  - rewrite filter_In. intros [_ H]. cbv beta in H. rewrite Pos.eqb_refl in H. discriminate.
  - apply NoDup_filter. exact IH.
Qed.

Lemma last_app_nonnil {A} (l1 l2 : list A) d : l2 <> [] -> last (l1 ++ l2) d = last l2 d.
Proof.
  intro H. induction l1 as [|a tl IH]; [reflexivity|].
  cbn [app]. destruct (tl ++ l2) eqn:E.
  - apply app_eq_nil in E. destruct E as [_ E]. contradiction.
  - exact IH.
Qed.

Lemma alookup_none_notin {A} (l : list (id * A)) x : alookup l x = None <-> ~ In x (map fst l).
Proof.
  induction l as [|[k v] tl IH]; cbn [alookup map fst In]; [tauto|].
  destruct (Pos.eqb k x) eqn:E.
  - apply Pos.eqb_eq in E. split; [discriminate|]. intro H. exfalso. apply H. left. exact E.
  - rewrite IH. split.
    + intros H [H1|H1]; [subst; rewrite Pos.eqb_refl in E; discriminate | auto].
    + intros H H1. apply H. right. exact H1.
Qed.

Lemma alookup_some_in {A} (l : list (id * A)) x e : alookup l x = Some e -> In (x, e) l.
Proof.
  induction l as [|[k v] tl IH]; cbn [alookup]; [discriminate|].
  destruct (Pos.eqb k x) eqn:E.
  - apply Pos.eqb_eq in E. intro H. injection H as H. subst. left. reflexivity.
  - intro H. right. apply IH. exact H.
Qed.

Lemma filter_key_nodup (l : list asg) x :
  nodup_p (map fst l) = true ->
  filter (fun a => Pos.eqb (fst a) x) l = match alookup l x with Some e => [(x, e)] | None => [] end.
Proof.
  induction l as [|[k e] tl IH]; cbn [map fst nodup_p filter alookup]; [reflexivity|].
  intro H. apply andb_true_iff in H. destruct H as [H1 H2].
  destruct (Pos.eqb k x) eqn:E.
  - apply Pos.eqb_eq in E. subst k. f_equal.
    assert (Hn : alookup tl x = None).
    { apply alookup_none_notin. intro Hin. apply memp_In in Hin. rewrite Hin in H1. discriminate. }
    rewrite (IH H2), Hn. reflexivity.
  - apply IH. exact H2.
Qed.

Lemma alookup_map_key {A} (f : id -> A) (s : list id) v :
  alookup (map (fun x => (x, f x)) s) v = if memp v s then Some (f v) else None.
Proof.
  induction s as [|y tl IH]; [reflexivity|].
  cbn [map alookup]. unfold memp. cbn [existsb].
  destruct (Pos.eqb y v) eqn:E.
  - apply Pos.eqb_eq in E. subst. rewrite Pos.eqb_refl. reflexivity.
  - rewrite Pos.eqb_sym in E. rewrite E. cbn [orb]. exact IH.
Qed.

Section Sound.
  Variable fi : finterp.
  Variable ode : id -> list (option Q) -> option Q.

  (* ---- extensionality of evaluation and execution ------------------------------------------ *)
  Lemma eval_ext r r' e : ext_eq r r' -> eval r fi e = eval r' fi e.
  Proof. intro H. apply eval_coincidence. intros x _. apply H. Qed.

  Lemma evalc_ext r r' c : ext_eq r r' -> evalc r fi c = evalc r' fi c.
  Proof. intro H. apply (proj2 (coincidence fi r r')). intros x _. apply H. Qed.

  Lemma exec1_ext r r' st : ext_eq r r' -> ext_eq (exec1 fi ode r st) (exec1 fi ode r' st).
  Proof.
    intros H v. destruct st as [s e|am rh]; cbn [exec1].
    - unfold upd. rewrite (eval_ext r r' e H). destruct (Pos.eqb v s); [reflexivity|apply H].
    - unfold upd_list. destruct (memp v am); [|apply H].
      f_equal. apply map_ext. intro a. apply H.
  Qed.

  Lemma exec_ext l : forall r r', ext_eq r r' -> ext_eq (exec fi ode r l) (exec fi ode r' l).
  Proof.
    induction l as [|st tl IH]; intros r r' H; cbn [exec]; [exact H|].
    apply IH. apply exec1_ext. exact H.
  Qed.

  Lemma exec_app l1 : forall l2 r, exec fi ode r (l1 ++ l2) = exec fi ode (exec fi ode r l1) l2.
  Proof. induction l1 as [|st tl IH]; intros l2 r; cbn [app exec]; [reflexivity|apply IH]. Qed.

  Lemma exec_frame l : forall r v, ~ In v (lhs_of l) -> exec fi ode r l v = r v.
  Proof.
    induction l as [|st tl IH]; intros r v H; cbn [exec]; [reflexivity|].
    unfold lhs_of in H. cbn [flat_map] in H. rewrite in_app_iff in H.
    rewrite IH by (intro Hc; apply H; right; exact Hc).
    destruct st as [s e|am rh]; cbn [exec1 defs] in *.
    - unfold upd. destruct (Pos.eqb v s) eqn:E; [|reflexivity].
      apply Pos.eqb_eq in E. subst. exfalso. apply H. left. left. reflexivity.
    - unfold upd_list. destruct (memp v am) eqn:E; [|reflexivity].
      apply memp_In in E. exfalso. apply H. left. exact E.
  Qed.

  Definition asg_stmts (l : list asg) : list stmt := map (fun a => Assign (fst a) (snd a)) l.
  Definition exec_assigns (r : env) (l : list asg) : env := exec fi ode r (asg_stmts l).

  Lemma lhs_of_asg_stmts l : lhs_of (asg_stmts l) = map fst l.
  Proof.
    induction l as [|a tl IH]; [reflexivity|].
    unfold lhs_of, asg_stmts in *. cbn [map flat_map defs app]. f_equal. exact IH.
  Qed.

  (* a list of assignments with distinct targets in which no right-hand side reads another
     target: every target gets its right-hand side evaluated in the INITIAL environment *)
  Lemma exec_indep (l : list asg) : forall r,
    NoDup (map fst l) ->
    (forall x e, In (x, e) l -> forall y, In y (free_syms e) -> In y (map fst l) -> y = x) ->
    forall v, exec_assigns r l v = match alookup l v with Some e => eval r fi e | None => r v end.
  Proof.
    induction l as [|[x e] tl IH]; intros r Hnd Hind v; [reflexivity|].
    unfold exec_assigns, asg_stmts. cbn [map exec exec1 fst snd].
    fold (asg_stmts tl). fold (exec_assigns (upd r x (eval r fi e)) tl).
    cbn [map fst] in Hnd. inversion Hnd as [|x' tl' Hnotin Hnd']; subst.
    rewrite IH; [| exact Hnd' |].
    - cbn [alookup]. destruct (Pos.eqb x v) eqn:E.
      + apply Pos.eqb_eq in E. subst v.
        assert (Hn : alookup tl x = None) by (apply alookup_none_notin; exact Hnotin).
        rewrite Hn. unfold upd. rewrite Pos.eqb_refl. reflexivity.
      + destruct (alookup tl v) as [e'|] eqn:El.
        * apply eval_coincidence. intros y Hy. unfold upd.
          destruct (Pos.eqb y x) eqn:Eyx; [|reflexivity].
          apply Pos.eqb_eq in Eyx. subst y. exfalso.
          assert (Hin : In (v, e') ((x, e) :: tl)) by (right; apply alookup_some_in; exact El).
          specialize (Hind v e' Hin x Hy (or_introl eq_refl)). subst.
          rewrite Pos.eqb_refl in E. discriminate.
        * unfold upd. rewrite Pos.eqb_sym in E. rewrite E. reflexivity.
    - intros x0 e0 Hin y Hy Hyin. apply (Hind x0 e0 (or_intror Hin) y Hy). right. exact Hyin.
  Qed.

  (* ---- unfolding equations of the reference semantics (the mutual fixpoint does not refold) -- *)
  Lemma nm_stmt_assign r x e : nm_stmt fi r (NAssign x e) = Some (assign fi r x e).
  Proof. reflexivity. Qed.
  Lemma nm_stmt_if r c x e :
    nm_stmt fi r (NIf c x e) =
    match evalc r fi c with None => None | Some true => Some (assign fi r x e) | Some false => Some r end.
  Proof. reflexivity. Qed.
  Lemma nm_stmt_block r brs els :
    nm_stmt fi r (NBlock brs els) =
    match nm_branches fi r brs with Some res => res | None => nm_body fi r els end.
  Proof. reflexivity. Qed.
  Lemma nm_body_nil r : nm_body fi r BNil = Some r.
  Proof. reflexivity. Qed.
  Lemma nm_body_cons r s tl :
    nm_body fi r (BCons s tl) = match nm_stmt fi r s with None => None | Some r' => nm_body fi r' tl end.
  Proof. reflexivity. Qed.
  Lemma nm_branches_nil r : nm_branches fi r BrNil = None.
  Proof. reflexivity. Qed.
  Lemma nm_branches_cons r c b tl :
    nm_branches fi r (BrCons c b tl) =
    match evalc r fi c with
    | None => Some None
    | Some true => Some (nm_body fi r b)
    | Some false => nm_branches fi r tl
    end.
  Proof. reflexivity. Qed.

  (* ---- flat bodies --------------------------------------------------------------------------- *)
  Lemma flat_body_nm b : forall r,
    flat_body b = true -> nm_body fi r b = Some (exec_assigns r (body_assigns b)).
  Proof.
    induction b as [|s tl IH]; intros r H; [reflexivity|].
    destruct s as [x e|c x e|brs els]; cbn [flat_body] in H; try discriminate.
    rewrite nm_body_cons, nm_stmt_assign. cbn [body_assigns]. rewrite (IH _ H). reflexivity.
  Qed.

  Lemma flat_assigned b : flat_body b = true -> assigned_body b = map fst (body_assigns b).
  Proof.
    induction b as [|s tl IH]; intro H; [reflexivity|].
    destruct s as [x e|c x e|brs els]; cbn [flat_body] in H; try discriminate.
    cbn [assigned_body assigned_stmt body_assigns map fst app]. f_equal. apply IH. exact H.
  Qed.

  (* ---- the intermediate semantics of a list of blocks ------------------------------------- *)
  Fixpoint blocks_pick (r : env) (B : list block) : option (option (list asg)) :=
    match B with
    | [] => Some None
    | b :: tl =>
        match fst b with
        | None => Some (Some (snd b))
        | Some c =>
            match evalc r fi c with
            | None => None
            | Some true => Some (Some (snd b))
            | Some false => blocks_pick r tl
            end
        end
    end.

  Definition run_pick (r : env) (o : option (list asg)) : env :=
    match o with None => r | Some a => exec_assigns r a end.

  Definition some_block (p : cond * list asg) : block := (Some (fst p), snd p).

  Lemma nm_branches_pick brs : forall r X,
    flat_branches brs = true ->
    match nm_branches fi r brs with
    | Some None => blocks_pick r (map some_block (branch_list brs) ++ X) = None
    | Some (Some r') => exists a, blocks_pick r (map some_block (branch_list brs) ++ X) = Some (Some a)
                                  /\ r' = exec_assigns r a
    | None => blocks_pick r (map some_block (branch_list brs) ++ X) = blocks_pick r X
    end.
  Proof.
    induction brs as [|c b tl IH]; intros r X H; [reflexivity|].
    cbn [flat_branches] in H. apply andb_true_iff in H. destruct H as [Hb Htl].
    rewrite nm_branches_cons. cbn [branch_list map app blocks_pick some_block fst snd].
    destruct (evalc r fi c) as [[|]|] eqn:Ec.
    - rewrite (flat_body_nm b r Hb). eexists. split; reflexivity.
    - apply IH. exact Htl.
    - reflexivity.
  Qed.

  Lemma branch_list_single brs c :
    branch_list brs = [(c, [])] -> exists b, brs = BrCons c b BrNil /\ body_assigns b = [].
  Proof.
    destruct brs as [|c' b tl]; cbn [branch_list]; [discriminate|].
    intro H. injection H as H1 H2 H3. destruct tl; [|discriminate].
    exists b. subst. split; [reflexivity|exact H2].
  Qed.

  Lemma nm_block_pick brs els r r' :
    flat_branches brs = true -> flat_body els = true ->
    nm_stmt fi r (NBlock brs els) = Some r' ->
    exists o, blocks_pick r (blocks_of brs els) = Some o /\ r' = run_pick r o.
  Proof.
    intros Hf He Hnm. rewrite nm_stmt_block in Hnm.
    unfold blocks_of. fold some_block.
    destruct (is_bnil els) eqn:Enil.
    - destruct els; [|discriminate]. rewrite nm_body_nil in Hnm.
      pose proof (nm_branches_pick brs r [] Hf) as P. rewrite app_nil_r in P.
      destruct (nm_branches fi r brs) as [[r1|]|].
      + destruct P as [a [P1 P2]]. injection Hnm as Hnm. subst. exists (Some a). split; [exact P1|reflexivity].
      + discriminate.
      + injection Hnm as Hnm. subst. exists None. split; [exact P|reflexivity].
    - set (X := [(else_logic (branch_list brs), body_assigns els)]).
      pose proof (nm_branches_pick brs r X Hf) as P.
      destruct (nm_branches fi r brs) as [[r1|]|] eqn:Enb.
      + destruct P as [a [P1 P2]]. injection Hnm as Hnm. subst. exists (Some a). split; [exact P1|reflexivity].
      + discriminate.
      + rewrite (flat_body_nm els r He) in Hnm. injection Hnm as Hnm.
        exists (Some (body_assigns els)). split; [|subst; reflexivity].
        transitivity (blocks_pick r X); [exact P|]. unfold X. cbn [blocks_pick fst snd].
        destruct (else_logic (branch_list brs)) as [c'|] eqn:El; [|reflexivity].
        unfold else_logic in El.
        destruct (branch_list brs) as [|[c l] rest] eqn:Ebl; [discriminate|].
        destruct l; [|discriminate]. destruct rest; [|discriminate]. injection El as El. subst c'.
        destruct (branch_list_single brs c Ebl) as [b [Hb1 Hb2]]. subst brs.
        rewrite nm_branches_cons, nm_branches_nil in Enb. cbn [evalc].
        destruct (evalc r fi c) as [[|]|]; try discriminate. reflexivity.
  Qed.

  (* ---- evaluation of the Piecewise chain --------------------------------------------------- *)
  Lemma pw_chain_app l1 l2 d : pw_chain (l1 ++ l2) d = pw_chain l1 (pw_chain l2 d).
  Proof. unfold pw_chain. apply fold_right_app. Qed.

  Lemma pairs_of_cons x b tl :
    pairs_of x (b :: tl) =
    map (fun a => (snd a, fst b)) (filter (fun a => Pos.eqb (fst a) x) (snd b)) ++ pairs_of x tl.
  Proof. reflexivity. Qed.

  Lemma filter_notin (l : list asg) x : ~ In x (map fst l) -> filter (fun a => Pos.eqb (fst a) x) l = [].
  Proof.
    induction l as [|a tl IH]; intro H; [reflexivity|].
    cbn [filter]. cbn [map In] in H.
    match goal with |- context [Pos.eqb ?u x] => destruct (Pos.eqb u x) eqn:E end.
    - apply Pos.eqb_eq in E. exfalso. apply H. left. exact E.
    - apply IH. intro Hc. apply H. right. exact Hc.
  Qed.

  Lemma pairs_of_nil x B : ~ In x (lhs_all B) -> pairs_of x B = [].
  Proof.
    induction B as [|b tl IH]; intro H; [reflexivity|].
    rewrite pairs_of_cons. unfold lhs_all in H. cbn [flat_map] in H. rewrite in_app_iff in H.
    rewrite IH by (intro Hc; apply H; right; exact Hc).
    rewrite filter_notin by (intro Hc; apply H; left; exact Hc). reflexivity.
  Qed.

  Lemma pairs_of_nonnil x B : In x (lhs_all B) -> pairs_of x B <> [].
  Proof.
    induction B as [|b tl IH]; intro H; [destruct H|].
    rewrite pairs_of_cons. unfold lhs_all in H. cbn [flat_map] in H. rewrite in_app_iff in H.
    destruct H as [H|H].
    - apply in_map_iff in H. destruct H as [a [Ha1 Ha2]].
      assert (Hin : In a (filter (fun a0 => Pos.eqb (fst a0) x) (snd b))).
      { apply filter_In. split; [exact Ha2|]. apply Pos.eqb_eq. exact Ha1. }
      destruct (filter (fun a0 => Pos.eqb (fst a0) x) (snd b)); [destruct Hin|]. cbn [map app]. discriminate.
    - intro Hc. apply app_eq_nil in Hc. destruct Hc as [_ Hc]. exact (IH H Hc).
  Qed.

  Definition chain_target (r : env) (o : option (list asg)) (x : id) (d : expr) : option Q :=
    match o with
    | Some a => match alookup a x with Some e => eval r fi e | None => eval r fi d end
    | None => eval r fi d
    end.

  Lemma cover_notin_tl (b : block) (tl : list block) x :
    forallb (fun y => memp y (map fst (snd b))) (lhs_all tl) = true ->
    ~ In x (map fst (snd b)) -> ~ In x (lhs_all tl).
  Proof.
    intros Hc Hn Hin. rewrite forallb_forall in Hc. specialize (Hc x Hin).
    apply memp_In in Hc. exact (Hn Hc).
  Qed.

  Lemma chain_eval_cover B : forall r o x d,
    once_blocks B = true -> cover_blocks B = true -> blocks_pick r B = Some o ->
    eval r fi (pw_chain (pairs_of x B) d) = chain_target r o x d.
  Proof.
    induction B as [|b tl IH]; intros r o x d Ho Hc Hp.
    - cbn in Hp. injection Hp as Hp. subst. reflexivity.
    - cbn [once_blocks forallb] in Ho. apply andb_true_iff in Ho. destruct Ho as [Ho1 Ho2].
      cbn [cover_blocks] in Hc. apply andb_true_iff in Hc. destruct Hc as [Hc1 Hc2].
      rewrite pairs_of_cons, pw_chain_app. rewrite (filter_key_nodup (snd b) x Ho1).
      cbn [blocks_pick] in Hp.
      assert (Hsel : forall c, evalc r fi c = Some true \/ c = CTrue -> lg_cond (fst b) = c ->
                     eval r fi (pw_chain (map (fun a => (snd a, fst b))
                        match alookup (snd b) x with Some e => [(x, e)] | None => [] end)
                        (pw_chain (pairs_of x tl) d)) = chain_target r (Some (snd b)) x d).
      { intros c Hct Hlg. unfold chain_target.
        destruct (alookup (snd b) x) as [e|] eqn:El.
        - cbn [map pw_chain fold_right fst snd]. rewrite Hlg. cbn [eval].
          destruct Hct as [Hct|Hct]; [rewrite Hct|subst c; cbn [evalc]]; reflexivity.
        - cbn [map pw_chain fold_right].
          rewrite pairs_of_nil; [reflexivity|].
          apply (cover_notin_tl b tl x Hc1). apply alookup_none_notin. exact El. }
      destruct (fst b) as [c|] eqn:Elg.
      + destruct (evalc r fi c) as [[|]|] eqn:Ec; try discriminate.
        * injection Hp as Hp. subst o. apply (Hsel c); [left; exact Ec|reflexivity].
        * rewrite <- (IH r o x d Ho2 Hc2 Hp).
          destruct (alookup (snd b) x) as [e|]; [|reflexivity].
          cbn [map pw_chain fold_right fst snd lg_cond eval]. rewrite Ec. reflexivity.
      + injection Hp as Hp. subst o. apply (Hsel CTrue); [right; reflexivity|reflexivity].
  Qed.

  Lemma last_true_picked B : forall r o x,
    cover_blocks B = true -> last_is_true (pairs_of x B) = true -> blocks_pick r B = Some o ->
    exists a e, o = Some a /\ alookup a x = Some e.
  Proof.
    induction B as [|b tl IH]; intros r o x Hc Hl Hp.
    - cbn in Hl. discriminate.
    - cbn [cover_blocks] in Hc. apply andb_true_iff in Hc. destruct Hc as [Hc1 Hc2].
      cbn [blocks_pick] in Hp.
      assert (Hdec : In x (lhs_all tl) \/ ~ In x (lhs_all tl)).
      { destruct (memp x (lhs_all tl)) eqn:E; [left; apply memp_In; exact E|right].
        intro Hin. apply memp_In in Hin. congruence. }
      destruct Hdec as [Hin|Hnin].
      + (* x occurs later, hence (cover) also here *)
        assert (Hhere : exists e, alookup (snd b) x = Some e).
        { rewrite forallb_forall in Hc1. specialize (Hc1 x Hin). apply memp_In in Hc1.
          destruct (alookup (snd b) x) as [e|] eqn:El; [exists e; reflexivity|].
          apply alookup_none_notin in El. contradiction. }
        destruct Hhere as [e He].
        assert (Hl' : last_is_true (pairs_of x tl) = true).
        { unfold last_is_true in *. rewrite pairs_of_cons, map_app in Hl.
          rewrite last_app_nonnil in Hl; [exact Hl|].
          intro Hm. apply map_eq_nil in Hm. exact (pairs_of_nonnil x tl Hin Hm). }
        destruct (fst b) as [c|].
        * destruct (evalc r fi c) as [[|]|]; try discriminate.
          -- injection Hp as Hp. subst. exists (snd b), e. split; [reflexivity|exact He].
          -- exact (IH r o x Hc2 Hl' Hp).
        * injection Hp as Hp. subst. exists (snd b), e. split; [reflexivity|exact He].
      + (* all pairs of x come from this block *)
        unfold last_is_true in Hl. rewrite pairs_of_cons, (pairs_of_nil x tl Hnin), app_nil_r in Hl.
        rewrite map_map in Hl. cbn [snd] in Hl.
        destruct (filter (fun a => Pos.eqb (fst a) x) (snd b)) as [|a0 fl] eqn:Ef.
        * cbn in Hl. discriminate.
        * assert (Hlg : fst b = None).
          { destruct (fst b) as [c|]; [|reflexivity]. exfalso.
            assert (Hall : forall (l : list asg) dflt, l <> [] ->
                     last (map (fun _ : asg => Some c) l) dflt = Some c).
            { induction l as [|y [|z l'] IHl]; intros dflt Hne; [congruence|reflexivity|].
              change (last (map (fun _ : asg => Some c) (z :: l')) dflt = Some c).
              apply IHl. discriminate. }
            rewrite Hall in Hl by discriminate. discriminate. }
          rewrite Hlg in Hp. injection Hp as Hp. subst o.
          assert (Hin0 : In a0 (filter (fun a => Pos.eqb (fst a) x) (snd b))) by (rewrite Ef; left; reflexivity).
          apply filter_In in Hin0. destruct Hin0 as [Hin0 Hk]. apply Pos.eqb_eq in Hk.
          destruct (alookup (snd b) x) as [e|] eqn:El.
          -- exists (snd b), e. split; [reflexivity|exact El].
          -- apply alookup_none_notin in El. exfalso. apply El. apply in_map_iff. exists a0. split; assumption.
  Qed.

  (* free symbols of the chain *)
  Lemma free_pw_chain ps d y :
    In y (free_syms (pw_chain ps d)) ->
    (exists p, In p ps /\ (In y (free_symsc (lg_cond (snd p))) \/ In y (free_syms (fst p)))) \/
    In y (free_syms d).
  Proof.
    induction ps as [|p tl IH]; intro H; [right; exact H|].
    cbn [pw_chain fold_right free_syms] in H. fold (pw_chain tl d) in H.
    rewrite !in_app_iff in H. destruct H as [H|[H|H]].
    - left. exists p. split; [left; reflexivity|left; exact H].
    - left. exists p. split; [left; reflexivity|right; exact H].
    - destruct (IH H) as [[q [Hq1 Hq2]]|Hd]; [left; exists q; split; [right; exact Hq1|exact Hq2]|right; exact Hd].
  Qed.

  Lemma In_pairs_of x B p :
    In p (pairs_of x B) -> exists b, In b B /\ snd p = fst b /\ In (x, fst p) (snd b).
  Proof.
    unfold pairs_of. rewrite in_flat_map. intros [b [Hb Hp]].
    apply in_map_iff in Hp. destruct Hp as [a [Ha1 Ha2]].
    apply filter_In in Ha2. destruct Ha2 as [Ha2 Hk]. apply Pos.eqb_eq in Hk.
    exists b. subst p. cbn [fst snd]. split; [exact Hb|]. split; [reflexivity|].
    destruct a as [k e]. cbn [fst snd] in *. subst. exact Ha2.
  Qed.

  Lemma In_lhs_all B b a : In b B -> In a (snd b) -> In (fst a) (lhs_all B).
  Proof.
    intros Hb Ha. unfold lhs_all. apply in_flat_map. exists b. split; [exact Hb|].
    apply in_map. exact Ha.
  Qed.

  Lemma fresh_pw_of B defd x y :
    fresh_blocks B = true -> In y (free_syms (pw_of defd x B)) -> In y (lhs_all B) -> y = x.
  Proof.
    intros Hf Hy HyA. unfold pw_of in Hy. apply free_pw_chain in Hy.
    unfold fresh_blocks in Hf. rewrite forallb_forall in Hf.
    destruct Hy as [[p [Hp Hy]]|Hd].
    - apply In_pairs_of in Hp. destruct Hp as [b [Hb [Hlg Hin]]].
      specialize (Hf b Hb). apply andb_true_iff in Hf. destruct Hf as [Hf1 Hf2].
      destruct Hy as [Hy|Hy].
      + exfalso. rewrite Hlg in Hy. unfold fresh_cond in Hf1.
        destruct (fst b) as [c|]; [|destruct Hy].
        cbn [lg_cond] in Hy. apply negb_true_iff in Hf1.
        assert (Ht : interp_nonempty (free_symsc c) (lhs_all B) = true).
        { apply interp_nonempty_spec. exists y. split; assumption. }
        congruence.
      + rewrite forallb_forall in Hf2. specialize (Hf2 _ Hin). unfold fresh_asg in Hf2.
        rewrite forallb_forall in Hf2. specialize (Hf2 y Hy). cbn [fst snd] in Hf2.
        apply orb_true_iff in Hf2. destruct Hf2 as [Hf2|Hf2].
        * apply negb_true_iff in Hf2. apply memp_In in HyA. congruence.
        * apply Pos.eqb_eq in Hf2. exact Hf2.
    - destruct (last_is_true (pairs_of x B)); [destruct Hd|].
      unfold else_val in Hd. destruct (memp x defd); [|destruct Hd].
      cbn in Hd. destruct Hd as [Hd|[]]. symmetry. exact Hd.
  Qed.

  Lemma else_val_eval r defd x : (~ In x defd -> r x = None) -> eval r fi (else_val defd x) = r x.
  Proof.
    intro H. unfold else_val. destruct (memp x defd) eqn:E; [reflexivity|].
    cbn [eval]. symmetry. apply H. intro Hin. apply memp_In in Hin. congruence.
  Qed.

  (* exec of the picked branch, target by target *)
  Lemma run_pick_value B r o :
    once_blocks B = true -> fresh_blocks B = true -> blocks_pick r B = Some o ->
    forall v, run_pick r o v =
              match o with
              | Some a => match alookup a v with Some e => eval r fi e | None => r v end
              | None => r v
              end.
  Proof.
    intros Ho Hf Hp v. destruct o as [a|]; [|reflexivity].
    assert (Hab : exists b, In b B /\ snd b = a).
    { clear Ho Hf. revert Hp. induction B as [|b tl IH]; cbn [blocks_pick]; [discriminate|].
      destruct (fst b) as [c|].
      - destruct (evalc r fi c) as [[|]|]; try discriminate.
        + intro H. injection H as H. exists b. split; [left; reflexivity|exact H].
        + intro H. destruct (IH H) as [b' [H1 H2]]. exists b'. split; [right; exact H1|exact H2].
      - intro H. injection H as H. exists b. split; [left; reflexivity|exact H]. }
    destruct Hab as [b [Hb Ha]]. unfold run_pick. apply exec_indep.
    - apply nodup_p_NoDup. unfold once_blocks in Ho. rewrite forallb_forall in Ho. rewrite <- Ha. apply Ho. exact Hb.
    - intros x e Hin y Hy Hyin.
      unfold fresh_blocks in Hf. rewrite forallb_forall in Hf. specialize (Hf b Hb).
      apply andb_true_iff in Hf. destruct Hf as [_ Hf2]. rewrite forallb_forall in Hf2.
      rewrite <- Ha in Hin. specialize (Hf2 _ Hin). unfold fresh_asg in Hf2. rewrite forallb_forall in Hf2.
      specialize (Hf2 y Hy). cbn [fst snd] in Hf2. apply orb_true_iff in Hf2. destruct Hf2 as [Hf2|Hf2].
      + apply negb_true_iff in Hf2. exfalso.
        assert (Hm : memp y (lhs_all B) = true).
        { apply memp_In. apply in_map_iff in Hyin. destruct Hyin as [a0 [Ha1 Ha2]].
          rewrite <- Ha1. rewrite <- Ha in Ha2. exact (In_lhs_all B b a0 Hb Ha2). }
        congruence.
      + apply Pos.eqb_eq in Hf2. exact Hf2.
  Qed.

  Definition CoverOK (B : list block) : Prop :=
    cover_blocks B = true \/ exists c E, B = [(Some c, []); (Some (CNot c), E)].

  (* value of the translated Piecewise of x, evaluated in the environment at block entry *)
  Lemma pw_of_value B defd r o x :
    once_blocks B = true -> CoverOK B -> blocks_pick r B = Some o ->
    (~ In x defd -> r x = None) ->
    eval r fi (pw_of defd x B) =
    match o with
    | Some a => match alookup a x with Some e => eval r fi e | None => r x end
    | None => r x
    end.
  Proof.
    intros Ho Hc Hp Hx. unfold pw_of. destruct Hc as [Hc|[c [E HB]]].
    - rewrite (chain_eval_cover B r o x _ Ho Hc Hp). unfold chain_target.
      destruct (last_is_true (pairs_of x B)) eqn:El.
      + destruct (last_true_picked B r o x Hc El Hp) as [a [e [H1 H2]]]. subst o. rewrite H2. reflexivity.
      + rewrite (else_val_eval r defd x Hx). reflexivity.
    - subst B. cbn [once_blocks forallb snd] in Ho. rewrite andb_true_r in Ho.
      cbn [map fst nodup_p] in Ho. cbn [andb] in Ho.
      unfold pairs_of. cbn [flat_map fst snd filter map app]. rewrite app_nil_r.
      rewrite (filter_key_nodup E x Ho).
      cbn [blocks_pick fst snd evalc] in Hp.
      destruct (evalc r fi c) as [[|]|] eqn:Ec; cbn [obind negb] in Hp; try discriminate.
      + injection Hp as Hp. subst o. cbn [alookup].
        destruct (alookup E x) as [e|].
        * cbn [map fst snd last_is_true last pw_chain fold_right lg_cond eval evalc]. rewrite Ec. cbn [obind negb].
          apply (else_val_eval r defd x Hx).
        * cbn [map last_is_true last pw_chain fold_right]. apply (else_val_eval r defd x Hx).
      + injection Hp as Hp. subst o.
        destruct (alookup E x) as [e|].
        * cbn [map fst snd last_is_true last pw_chain fold_right lg_cond eval evalc]. rewrite Ec. cbn [obind negb]. reflexivity.
        * cbn [map last_is_true last pw_chain fold_right]. apply (else_val_eval r defd x Hx).
  Qed.

  Lemma block_sound B defd r o :
    once_blocks B = true -> fresh_blocks B = true -> CoverOK B ->
    (forall x, In x (lhs_all B) -> ~ In x defd -> r x = None) ->
    blocks_pick r B = Some o ->
    ext_eq (exec fi ode r (block_stmts defd B)) (run_pick r o).
  Proof.
    intros Ho Hf Hc Hr Hp v.
    unfold block_stmts, reorder_block_statements.
    set (l := map (fun x => (x, pw_of defd x B)) (block_syms B)).
    assert (El : map (fun x => Assign x (pw_of defd x B)) (block_syms B) = asg_stmts l).
    { unfold l, asg_stmts. rewrite map_map. reflexivity. }
    rewrite El. fold (exec_assigns r l).
    assert (Hfst : map fst l = block_syms B).
    { unfold l. rewrite map_map. cbn [fst]. apply map_id. }
    rewrite exec_indep.
    - unfold l. rewrite alookup_map_key. rewrite (run_pick_value B r o Ho Hf Hp).
      destruct (memp v (block_syms B)) eqn:Em.
      + apply memp_In in Em. unfold block_syms in Em. apply (proj1 (In_dedup _ _)) in Em.
        apply (pw_of_value B defd r o v Ho Hc Hp). apply Hr. exact Em.
      + destruct o as [a|]; [|reflexivity].
        destruct (alookup a v) as [e|] eqn:Ea; [|reflexivity]. exfalso.
        assert (Hin : In v (lhs_all B)).
        { apply alookup_some_in in Ea.
          assert (Hab : exists b, In b B /\ snd b = a).
          { clear - Hp. revert Hp. induction B as [|b tl IH]; cbn [blocks_pick]; [discriminate|].
            destruct (fst b) as [c|].
            - destruct (evalc r fi c) as [[|]|]; try discriminate.
              + intro H. injection H as H. exists b. split; [left; reflexivity|exact H].
              + intro H. destruct (IH H) as [b' [H1 H2]]. exists b'. split; [right; exact H1|exact H2].
            - intro H. injection H as H. exists b. split; [left; reflexivity|exact H]. }
          destruct Hab as [b [Hb Hab]]. rewrite <- Hab in Ea.
          exact (In_lhs_all B b (v, e) Hb Ea). }
        assert (Hm : memp v (block_syms B) = true).
        { apply memp_In. unfold block_syms. apply (proj2 (In_dedup _ _)). exact Hin. }
        congruence.
    - rewrite Hfst. apply NoDup_dedup.
    - intros x e Hin y Hy Hyin. rewrite Hfst in Hyin. unfold block_syms in Hyin. apply (proj1 (In_dedup _ _)) in Hyin.
      unfold l in Hin. apply in_map_iff in Hin. destruct Hin as [x0 [Hx0 _]]. injection Hx0 as Hx1 Hx2. subst x0 e.
      exact (fresh_pw_of B defd x y Hf Hy Hyin).
  Qed.

  (* ---- statement level ----------------------------------------------------------------------- *)
  Lemma lhs_body_assigns b x : In x (map fst (body_assigns b)) -> In x (assigned_body b).
  Proof.
    induction b as [|s tl IH]; cbn [body_assigns]; [intros []|].
    cbn [assigned_body]. rewrite in_app_iff.
    destruct s as [y e|c y e|brs els]; cbn [map fst In assigned_stmt].
    - intros [H|H]; [left; left; exact H|right; apply IH; exact H].
    - intro H. right. apply IH. exact H.
    - intro H. right. apply IH. exact H.
  Qed.

  Lemma lhs_blocks_of brs els x :
    In x (lhs_all (blocks_of brs els)) -> In x (assigned_branches brs ++ assigned_body els).
  Proof.
    assert (Hbr : forall brs, In x (lhs_all (map some_block (branch_list brs))) -> In x (assigned_branches brs)).
    { induction brs0 as [|c b tl IH]; [intros []|].
      cbn [branch_list map]. unfold lhs_all. cbn [flat_map some_block snd fst assigned_branches].
      rewrite !in_app_iff. intros [H|H]; [left; apply lhs_body_assigns; exact H|right; apply IH; exact H]. }
    unfold blocks_of. fold some_block. rewrite in_app_iff. destruct (is_bnil els).
    - intro H. left. apply Hbr. exact H.
    - unfold lhs_all. rewrite flat_map_app, in_app_iff. cbn [flat_map snd]. rewrite app_nil_r.
      intros [H|H]; [left; apply Hbr; exact H|right; apply lhs_body_assigns; exact H].
  Qed.

  Lemma lhs_of_block_stmts defd B : lhs_of (block_stmts defd B) = block_syms B.
  Proof.
    unfold block_stmts, reorder_block_statements, lhs_of.
    induction (block_syms B) as [|x tl IH]; [reflexivity|].
    cbn [map flat_map defs app]. f_equal. exact IH.
  Qed.

  Lemma assigned_in_blocks brs els x :
    flat_branches brs = true -> flat_body els = true ->
    In x (assigned_branches brs ++ assigned_body els) -> In x (lhs_all (blocks_of brs els)).
  Proof.
    intros Hf He.
    assert (Hbr : forall brs, flat_branches brs = true -> In x (assigned_branches brs) ->
                              In x (lhs_all (map some_block (branch_list brs)))).
    { induction brs0 as [|c b tl IH]; [intros _ []|].
      cbn [flat_branches]. intro H. apply andb_true_iff in H. destruct H as [H1 H2].
      cbn [branch_list map assigned_branches]. unfold lhs_all. cbn [flat_map some_block snd fst].
      rewrite !in_app_iff. rewrite (flat_assigned b H1).
      intros [H|H]; [left; exact H|right; apply (IH H2); exact H]. }
    rewrite in_app_iff. unfold blocks_of. fold some_block. intros [H|H].
    - destruct (is_bnil els); [apply Hbr; assumption|].
      unfold lhs_all. rewrite flat_map_app, in_app_iff. left. apply Hbr; assumption.
    - destruct (is_bnil els) eqn:En; [destruct els; [destruct H|discriminate]|].
      unfold lhs_all. rewrite flat_map_app, in_app_iff. right. cbn [flat_map snd]. rewrite app_nil_r.
      rewrite <- (flat_assigned els He). exact H.
  Qed.

  Lemma cover_ok_of_guard brs els :
    special brs || cover_blocks (blocks_of brs els) = true -> CoverOK (blocks_of brs els).
  Proof.
    intro H. apply orb_true_iff in H. destruct H as [H|H]; [|left; exact H].
    unfold special in H. destruct (branch_list brs) as [|[c l] rest] eqn:Ebl; [discriminate|].
    destruct l; [|discriminate]. destruct rest; [|discriminate].
    unfold blocks_of. rewrite Ebl. cbn [map fst snd else_logic].
    destruct (is_bnil els).
    - left. reflexivity.
    - right. exists c, (body_assigns els). reflexivity.
  Qed.

  Lemma stmt_sound s defd r r1 :
    guard_stmt s = true ->
    (forall x, In x (assigned_stmt s) -> ~ In x defd -> r x = None) ->
    nm_stmt fi r s = Some r1 ->
    ext_eq (exec fi ode r (translate_stmt defd s)) r1.
  Proof.
    intros Hg Hr Hnm. destruct s as [x e|c x e|brs els].
    - rewrite nm_stmt_assign in Hnm. injection Hnm as Hnm. subst. intro v. reflexivity.
    - rewrite nm_stmt_if in Hnm. cbn [translate_stmt exec exec1 eval].
      destruct (evalc r fi c) as [[|]|] eqn:Ec; try discriminate; injection Hnm as Hnm; subst r1; cbn [obind].
      + intro v. reflexivity.
      + intro v. rewrite else_val_eval by (apply Hr; left; reflexivity).
        unfold upd. destruct (Pos.eqb v x) eqn:E; [|reflexivity]. apply Pos.eqb_eq in E. subst. reflexivity.
    - unfold guard_stmt in Hg.
      apply andb_true_iff in Hg. destruct Hg as [Hg Hcov].
      apply andb_true_iff in Hg. destruct Hg as [Hg Hfr].
      apply andb_true_iff in Hg. destruct Hg as [Hfl Hon].
      cbn [g_flat_stmt g_once_stmt g_fresh_stmt g_cover_stmt] in *.
      apply andb_true_iff in Hfl. destruct Hfl as [Hf He].
      destruct (nm_block_pick brs els r r1 Hf He Hnm) as [o [Hp Hr1]]. subst r1.
      cbn [translate_stmt]. apply block_sound; try assumption.
      + apply cover_ok_of_guard. assumption.
      + intros x Hx. apply Hr. cbn [assigned_stmt]. apply lhs_blocks_of. exact Hx.
  Qed.

  Lemma lhs_translate_stmt s defd x :
    g_flat_stmt s = true -> In x (assigned_stmt s) -> In x (lhs_of (translate_stmt defd s)).
  Proof.
    intros Hg Hx. destruct s as [y e|c y e|brs els].
    - cbn in *. destruct Hx as [Hx|[]]. left. exact Hx.
    - cbn in *. destruct Hx as [Hx|[]]. left. exact Hx.
    - cbn [g_flat_stmt] in Hg. apply andb_true_iff in Hg. destruct Hg as [Hf He].
      cbn [translate_stmt]. rewrite lhs_of_block_stmts. unfold block_syms. apply (proj2 (In_dedup _ _)).
      apply assigned_in_blocks; assumption.
  Qed.

  Lemma nm_stmt_frame s r r1 v :
    g_flat_stmt s = true -> nm_stmt fi r s = Some r1 -> ~ In v (assigned_stmt s) -> r1 v = r v.
  Proof.
    intros Hg Hnm Hv. destruct s as [x e|c x e|brs els].
    - rewrite nm_stmt_assign in Hnm. cbn [assigned_stmt] in Hv. injection Hnm as Hnm. subst. unfold assign, upd.
      destruct (Pos.eqb v x) eqn:E; [|reflexivity]. apply Pos.eqb_eq in E. exfalso. apply Hv. left. symmetry. exact E.
    - rewrite nm_stmt_if in Hnm. cbn [assigned_stmt] in Hv. destruct (evalc r fi c) as [[|]|]; try discriminate; injection Hnm as Hnm; subst; [|reflexivity].
      unfold assign, upd. destruct (Pos.eqb v x) eqn:E; [|reflexivity]. apply Pos.eqb_eq in E. exfalso. apply Hv. left. symmetry. exact E.
    - cbn [g_flat_stmt] in Hg. apply andb_true_iff in Hg. destruct Hg as [Hf He].
      destruct (nm_block_pick brs els r r1 Hf He Hnm) as [o [Hp Hr1]]. subst r1.
      destruct o as [a|]; [|reflexivity]. unfold run_pick, exec_assigns.
      apply exec_frame. rewrite lhs_of_asg_stmts. intro Hin. apply Hv. cbn [assigned_stmt].
      apply lhs_blocks_of.
      assert (Hab : exists b, In b (blocks_of brs els) /\ snd b = a).
      { clear - Hp. revert Hp. induction (blocks_of brs els) as [|b tl IH]; cbn [blocks_pick]; [discriminate|].
        destruct (fst b) as [c|].
        - destruct (evalc r fi c) as [[|]|]; try discriminate.
          + intro H. injection H as H. exists b. split; [left; reflexivity|exact H].
          + intro H. destruct (IH H) as [b' [H1 H2]]. exists b'. split; [right; exact H1|exact H2].
        - intro H. injection H as H. exists b. split; [left; reflexivity|exact H]. }
      destruct Hab as [b [Hb Hab]]. apply in_map_iff in Hin. destruct Hin as [a0 [Ha1 Ha2]].
      rewrite <- Ha1. rewrite <- Hab in Ha2. exact (In_lhs_all _ b a0 Hb Ha2).
  Qed.

  Lemma translate_from_sound p : forall defd r r',
    forall_body guard_stmt p = true ->
    (forall v, In v (assigned_body p) -> ~ In v defd -> r v = None) ->
    nm_body fi r p = Some r' ->
    ext_eq (exec fi ode r (translate_from defd p)) r'.
  Proof.
    induction p as [|s tl IH]; intros defd r r' Hg Hr Hnm.
    - cbn in *. injection Hnm as Hnm. subst. apply ext_eq_refl.
    - cbn [forall_body] in Hg. apply andb_true_iff in Hg. destruct Hg as [Hgs Hgt].
      rewrite nm_body_cons in Hnm. destruct (nm_stmt fi r s) as [r1|] eqn:Es; [|discriminate].
      cbn [translate_from]. rewrite exec_app.
      assert (Hflat : g_flat_stmt s = true).
      { unfold guard_stmt in Hgs. repeat (apply andb_true_iff in Hgs; destruct Hgs as [Hgs ?]). exact Hgs. }
      assert (Hs : ext_eq (exec fi ode r (translate_stmt defd s)) r1).
      { apply stmt_sound; [exact Hgs| |exact Es].
        intros x Hx. apply Hr. cbn [assigned_body]. apply in_or_app. left. exact Hx. }
      eapply ext_eq_trans; [apply exec_ext; exact Hs|].
      apply IH; [exact Hgt| |exact Hnm].
      intros v Hv Hnd.
      rewrite (nm_stmt_frame s r r1 v Hflat Es).
      + apply Hr; [cbn [assigned_body]; apply in_or_app; right; exact Hv|].
        intro Hc. apply Hnd. apply in_or_app. right. exact Hc.
      + intro Hc. apply Hnd. apply in_or_app. left. apply lhs_translate_stmt; assumption.
  Qed.

  Lemma guard_code_forall p : guard_code p = true -> forall_body guard_stmt p = true.
  Proof.
    unfold guard_code, g_flat, g_once, g_cond_fresh, g_cover.
    induction p as [|s tl IH]; [reflexivity|].
    cbn [forall_body]. intro H.
    repeat (apply andb_true_iff in H; destruct H as [H ?]).
    repeat match goal with H : _ && _ = true |- _ => apply andb_true_iff in H; destruct H end.
    apply andb_true_iff. split.
    - unfold guard_stmt. repeat (apply andb_true_iff; split); assumption.
    - apply IH. repeat (apply andb_true_iff; split); assumption.
  Qed.

  Lemma translate_sound_lemma p r r' :
    guard_code p = true -> fresh_env r p -> nm_body fi r p = Some r' ->
    forall v, exec fi ode r (translate p) v = r' v.
  Proof.
    intros Hg Hf Hnm. apply (translate_from_sound p [] r r').
    - apply guard_code_forall. exact Hg.
    - intros v Hv _. apply Hf. exact Hv.
    - exact Hnm.
  Qed.
End Sound.

(* ---- targets of the translation ------------------------------------------------------------ *)
Lemma lhs_of_app l1 l2 : lhs_of (l1 ++ l2) = lhs_of l1 ++ lhs_of l2.
Proof. unfold lhs_of. apply flat_map_app. Qed.

Lemma lhs_translate_stmt_sub defd s x : In x (lhs_of (translate_stmt defd s)) -> In x (assigned_stmt s).
Proof.
  destruct s as [y e|c y e|brs els].
  - cbn. tauto.
  - cbn. tauto.
  - cbn [translate_stmt]. rewrite lhs_of_block_stmts. unfold block_syms. intro H.
    apply (proj1 (In_dedup _ _)) in H.
    change (assigned_stmt (NBlock brs els)) with (assigned_branches brs ++ assigned_body els).
    apply lhs_blocks_of. exact H.
Qed.

Lemma translate_from_targets p : forall defd x,
  In x (lhs_of (translate_from defd p)) -> In x (assigned_body p).
Proof.
  induction p as [|s tl IH]; intros defd x H; [destruct H|].
  cbn [translate_from] in H. rewrite lhs_of_app, in_app_iff in H.
  change (assigned_body (BCons s tl)) with (assigned_stmt s ++ assigned_body tl).
  apply in_or_app. destruct H as [H|H].
  - left. exact (lhs_translate_stmt_sub defd s x H).
  - right. exact (IH _ x H).
Qed.

Lemma translate_targets_lemma p x : In x (lhs_of (translate p)) -> In x (assigned_body p).
Proof. apply translate_from_targets. Qed.

Lemma translate_from_targets_complete p : forall defd x,
  g_flat p = true -> In x (assigned_body p) -> In x (lhs_of (translate_from defd p)).
Proof.
  induction p as [|s tl IH]; intros defd x Hg H; [destruct H|].
  unfold g_flat in Hg. cbn [forall_body] in Hg. apply andb_true_iff in Hg. destruct Hg as [Hs Ht].
  change (assigned_body (BCons s tl)) with (assigned_stmt s ++ assigned_body tl) in H.
  cbn [translate_from]. rewrite lhs_of_app. apply in_or_app. apply in_app_or in H. destruct H as [H|H].
  - left. apply lhs_translate_stmt; assumption.
  - right. apply IH; assumption.
Qed.

Lemma translate_targets_complete_lemma p x :
  g_flat p = true -> In x (assigned_body p) -> In x (lhs_of (translate p)).
Proof. apply translate_from_targets_complete. Qed.

(* ---- frame property of the reference semantics (no guard) --------------------------------- *)
Scheme nmstmt_mut := Induction for nmstmt Sort Prop
with body_mut := Induction for body Sort Prop
with branches_mut := Induction for branches Sort Prop.
Combined Scheme nm_mutind from nmstmt_mut, body_mut, branches_mut.

Lemma nm_frame_all (fi : finterp) :
  (forall s r r' v, nm_stmt fi r s = Some r' -> ~ In v (assigned_stmt s) -> r' v = r v) /\
  (forall b r r' v, nm_body fi r b = Some r' -> ~ In v (assigned_body b) -> r' v = r v) /\
  (forall brs r r' v, nm_branches fi r brs = Some (Some r') -> ~ In v (assigned_branches brs) -> r' v = r v).
Proof.
  apply nm_mutind.
  - intros x e r r' v H Hv. rewrite nm_stmt_assign in H. injection H as H. subst.
    unfold assign, upd. destruct (Pos.eqb v x) eqn:E; [|reflexivity].
    apply Pos.eqb_eq in E. exfalso. apply Hv. left. symmetry. exact E.
  - intros c x e r r' v H Hv. rewrite nm_stmt_if in H.
    destruct (evalc r fi c) as [[|]|]; try discriminate; injection H as H; subst; [|reflexivity].
    unfold assign, upd. destruct (Pos.eqb v x) eqn:E; [|reflexivity].
    apply Pos.eqb_eq in E. exfalso. apply Hv. left. symmetry. exact E.
  - intros brs IHb els IHe r r' v H Hv. rewrite nm_stmt_block in H.
    change (assigned_stmt (NBlock brs els)) with (assigned_branches brs ++ assigned_body els) in Hv.
    destruct (nm_branches fi r brs) as [[r1|]|] eqn:En.
    + injection H as H. subst r1. apply (IHb r r' v En). intro Hc. apply Hv. apply in_or_app. left. exact Hc.
    + discriminate.
    + apply (IHe r r' v H). intro Hc. apply Hv. apply in_or_app. right. exact Hc.
  - intros r r' v H _. rewrite nm_body_nil in H. injection H as H. subst. reflexivity.
  - intros s IHs tl IHt r r' v H Hv. rewrite nm_body_cons in H.
    change (assigned_body (BCons s tl)) with (assigned_stmt s ++ assigned_body tl) in Hv.
    destruct (nm_stmt fi r s) as [r1|] eqn:Es; [|discriminate].
    rewrite (IHt r1 r' v H) by (intro Hc; apply Hv; apply in_or_app; right; exact Hc).
    apply (IHs r r1 v Es). intro Hc. apply Hv. apply in_or_app. left. exact Hc.
  - intros r r' v H _. rewrite nm_branches_nil in H. discriminate.
  - intros c b IHb tl IHt r r' v H Hv. rewrite nm_branches_cons in H.
    change (assigned_branches (BrCons c b tl)) with (assigned_body b ++ assigned_branches tl) in Hv.
    destruct (evalc r fi c) as [[|]|]; try discriminate.
    + injection H as H. apply (IHb r r' v H). intro Hc. apply Hv. apply in_or_app. left. exact Hc.
    + apply (IHt r r' v H). intro Hc. apply Hv. apply in_or_app. right. exact Hc.
Qed.

Lemma nm_frame_lemma (fi : finterp) (p : body) (r r' : env) (v : id) :
  nm_body fi r p = Some r' -> ~ In v (assigned_body p) -> r' v = r v.
Proof. apply (proj1 (proj2 (nm_frame_all fi))). Qed.

(* ---- the function table: protected functions are expanded into their clamp rule ---------------- *)
Lemma template_closed p y : In y (free_syms (template p)) -> y = x0.
Proof. destruct p; cbn; intuition. Qed.

Lemma template_strict fi p r : r x0 = None -> eval r fi (template p) = None.
Proof. intro H. destruct p; cbn [template pw2 log10_of X0 eval evalc]; rewrite ?H; reflexivity. Qed.

Section ReadEval.
  Variable fi : finterp.
  Hypothesis Hspec : protected_spec fi.

  Lemma read_eval :
    (forall e r, eval r fi (read_expr e) = eval r fi e) /\
    (forall c r, evalc r fi (read_cond c) = evalc r fi c).
  Proof.
    apply expr_cond_mut; intros; cbn [read_expr read_cond eval evalc]; unfold read_fn2;
      repeat match goal with H : forall r, _ = _ |- _ => rewrite H; clear H end; try reflexivity.
    (* Fn1 *)
    destruct (prot_of_id f) as [p|] eqn:Ep.
    - rewrite subs_eval. rewrite H.
      destruct (eval r fi a) as [x|] eqn:Ea; cbn [obind].
      + rewrite (Hspec f p x Ep). apply eval_coincidence. intros y Hy.
        apply template_closed in Hy. subst y. unfold upd. rewrite Pos.eqb_refl. reflexivity.
      + apply template_strict. unfold upd. rewrite Pos.eqb_refl. reflexivity.
    - cbn [eval]. rewrite H. reflexivity.
  Qed.

  Lemma read_nm_all :
    (forall s r, nm_stmt fi r (read_stmt s) = nm_stmt fi r s) /\
    (forall b r, nm_body fi r (read_body b) = nm_body fi r b) /\
    (forall brs r, nm_branches fi r (read_branches brs) = nm_branches fi r brs).
  Proof.
    pose proof (proj1 read_eval) as He. pose proof (proj2 read_eval) as Hc.
    apply nm_mutind.
    - intros x e r. change (read_stmt (NAssign x e)) with (NAssign x (read_expr e)).
      rewrite !nm_stmt_assign. unfold assign. rewrite He. reflexivity.
    - intros c x e r. change (read_stmt (NIf c x e)) with (NIf (read_cond c) x (read_expr e)).
      rewrite !nm_stmt_if. unfold assign. rewrite Hc, He. reflexivity.
    - intros brs IHb els IHe r. change (read_stmt (NBlock brs els)) with (NBlock (read_branches brs) (read_body els)).
      rewrite !nm_stmt_block, IHb, IHe. reflexivity.
    - reflexivity.
    - intros s IHs tl IHt r. change (read_body (BCons s tl)) with (BCons (read_stmt s) (read_body tl)).
      rewrite !nm_body_cons, IHs. destruct (nm_stmt fi r s); [apply IHt|reflexivity].
    - reflexivity.
    - intros c b IHb tl IHt r. change (read_branches (BrCons c b tl)) with (BrCons (read_cond c) (read_body b) (read_branches tl)).
      rewrite !nm_branches_cons, Hc, IHb, IHt. reflexivity.
  Qed.

  Lemma read_code_sound_lemma ode p r r' :
    guard_code (read_body p) = true -> fresh_env r (read_body p) -> nm_body fi r p = Some r' ->
    forall v, exec fi ode r (read_code p) v = r' v.
  Proof.
    intros Hg Hf Hnm. unfold read_code.
    apply (translate_sound_lemma fi ode (read_body p) r r' Hg Hf).
    rewrite (proj1 (proj2 read_nm_all)). exact Hnm.
  Qed.
End ReadEval.

(* reading changes neither the assigned symbols nor the shape of the program *)
Lemma read_assigned_all :
  (forall s, assigned_stmt (read_stmt s) = assigned_stmt s) /\
  (forall b, assigned_body (read_body b) = assigned_body b) /\
  (forall brs, assigned_branches (read_branches brs) = assigned_branches brs).
Proof.
  apply nm_mutind.
  - reflexivity.
  - reflexivity.
  - intros brs IHb els IHe. change (assigned_stmt (read_stmt (NBlock brs els))) with
      (assigned_branches (read_branches brs) ++ assigned_body (read_body els)). rewrite IHb, IHe. reflexivity.
  - reflexivity.
  - intros s IHs tl IHt. change (assigned_body (read_body (BCons s tl))) with
      (assigned_stmt (read_stmt s) ++ assigned_body (read_body tl)). rewrite IHs, IHt. reflexivity.
  - reflexivity.
  - intros c b IHb tl IHt. change (assigned_branches (read_branches (BrCons c b tl))) with
      (assigned_body (read_body b) ++ assigned_branches (read_branches tl)). rewrite IHb, IHt. reflexivity.
Qed.

Lemma read_fresh_env r p : fresh_env r p -> fresh_env r (read_body p).
Proof. unfold fresh_env. rewrite (proj1 (proj2 read_assigned_all)). tauto. Qed.
