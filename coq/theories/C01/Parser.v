(* PV.C01.Parser — REFERENCE parser and printer of NM-TRAN abbreviated code on token lists. *)
From Coq Require Import QArith List Bool PArith Arith Lia.
From PV Require Import Base.PyData Base.Expr Base.Interp C01.Model.
Import ListNotations.
Local Open Scope nat_scope.

Inductive tok :=
| TNum (q : Q) | TId (s : id) | TFn (f : id)
| TLp | TRp | TComma
| TPlus | TMinus | TStar | TSlash | TPow
| TRel (o : relop) | TNot | TAnd | TOr
| TAssign | TIf | TThen | TElse | TElseIf | TEndIf | TNl.

(* ---- expressions: precedence  ** (right assoc.)  >  unary -  >  * /  >  + -  ------------------ *)
Fixpoint p_add (n : nat) (ts : list tok) {struct n} : option (expr * list tok) :=
  match n with 0 => None | S n =>
    match p_mul n ts with Some (a, r) => add_loop n a r | None => None end end
with add_loop (n : nat) (acc : expr) (ts : list tok) {struct n} : option (expr * list tok) :=
  match n with 0 => None | S n =>
    match ts with
    | TPlus :: r => match p_mul n r with Some (b, r') => add_loop n (Add acc b) r' | None => None end
    | TMinus :: r => match p_mul n r with Some (b, r') => add_loop n (Add acc (Neg b)) r' | None => None end
    | _ => Some (acc, ts)
    end end
with p_mul (n : nat) (ts : list tok) {struct n} : option (expr * list tok) :=
  match n with 0 => None | S n =>
    match p_sgn n ts with Some (a, r) => mul_loop n a r | None => None end end
with mul_loop (n : nat) (acc : expr) (ts : list tok) {struct n} : option (expr * list tok) :=
  match n with 0 => None | S n =>
    match ts with
    | TStar :: r => match p_sgn n r with Some (b, r') => mul_loop n (Mul acc b) r' | None => None end
    | TSlash :: r => match p_sgn n r with Some (b, r') => mul_loop n (Div acc b) r' | None => None end
    | _ => Some (acc, ts)
    end end
with p_sgn (n : nat) (ts : list tok) {struct n} : option (expr * list tok) :=
  match n with 0 => None | S n =>
    match ts with
    | TMinus :: r => match p_pow n r with Some (a, r') => Some (Neg a, r') | None => None end
    | TPlus :: r => p_pow n r
    | _ => p_pow n ts
    end end
with p_pow (n : nat) (ts : list tok) {struct n} : option (expr * list tok) :=
  match n with 0 => None | S n =>
    match p_atom n ts with
    | Some (a, TPow :: r) => match p_sgn n r with Some (b, r') => Some (Fn2 F_POW a b, r') | None => None end
    | other => other
    end end
with p_atom (n : nat) (ts : list tok) {struct n} : option (expr * list tok) :=
  match n with 0 => None | S n =>
    match ts with
    | TNum q :: r => Some (Num q, r)
    | TId s :: r => Some (Sym s, r)
    | TLp :: r => match p_add n r with Some (a, TRp :: r') => Some (a, r') | _ => None end
    | TFn f :: TLp :: r =>
        match p_add n r with
        | Some (a, TRp :: r') => Some (Fn1 f a, r')
        | Some (a, TComma :: r') => match p_add n r' with Some (b, TRp :: r'') => Some (Fn2 f a b, r'') | _ => None end
        | _ => None
        end
    | _ => None
    end end.

(* ---- conditions:  .NOT.  >  .AND.  >  .OR.   (no parenthesised logical sub-expressions) ------- *)
Definition p_rel (n : nat) (ts : list tok) : option (cond * list tok) :=
  match p_add n ts with
  | Some (a, TRel o :: r) => match p_add n r with Some (b, r') => Some (CRel o a b, r') | None => None end
  | _ => None
  end.
Definition p_not (n : nat) (ts : list tok) : option (cond * list tok) :=
  match ts with
  | TNot :: r => match p_rel n r with Some (c, r') => Some (CNot c, r') | None => None end
  | _ => p_rel n ts
  end.
Fixpoint and_loop (k n : nat) (acc : cond) (ts : list tok) : option (cond * list tok) :=
  match k with 0 => None | S k =>
    match ts with
    | TAnd :: r => match p_not n r with Some (b, r') => and_loop k n (CAnd acc b) r' | None => None end
    | _ => Some (acc, ts)
    end end.
Definition p_and (n : nat) (ts : list tok) : option (cond * list tok) :=
  match p_not n ts with Some (a, r) => and_loop n n a r | None => None end.
Fixpoint or_loop (k n : nat) (acc : cond) (ts : list tok) : option (cond * list tok) :=
  match k with 0 => None | S k =>
    match ts with
    | TOr :: r => match p_and n r with Some (b, r') => or_loop k n (COr acc b) r' | None => None end
    | _ => Some (acc, ts)
    end end.
Definition p_cond (n : nat) (ts : list tok) : option (cond * list tok) :=
  match p_and n ts with Some (a, r) => or_loop n n a r | None => None end.

(* ---- statements -------------------------------------------------------------------------------- *)
(* a body ends in front of ELSEIF / ELSE / ENDIF or at the end of the input *)
Fixpoint p_body (n : nat) (ts : list tok) {struct n} : option (body * list tok) :=
  match n with 0 => None | S n =>
    match ts with
    | TId x :: TAssign :: r =>
        match p_add n r with
        | Some (e, TNl :: r') => match p_body n r' with Some (b, r'') => Some (BCons (NAssign x e) b, r'') | None => None end
        | _ => None
        end
    | TIf :: TLp :: r =>
        match p_cond n r with
        | Some (c, TRp :: TId x :: TAssign :: r') =>
            match p_add n r' with
            | Some (e, TNl :: r'') =>
                match p_body n r'' with Some (b, r3) => Some (BCons (NIf c x e) b, r3) | None => None end
            | _ => None
            end
        | Some (c, TRp :: TThen :: TNl :: r') =>
            match p_body n r' with
            | Some (b1, r'') =>
                match p_branches n r'' with
                | Some (brs, els, r3) =>
                    match p_body n r3 with
                    | Some (b, r4) => Some (BCons (NBlock (BrCons c b1 brs) els) b, r4)
                    | None => None
                    end
                | None => None
                end
            | None => None
            end
        | _ => None
        end
    | _ => Some (BNil, ts)
    end end
with p_branches (n : nat) (ts : list tok) {struct n} : option (branches * body * list tok) :=
  match n with 0 => None | S n =>
    match ts with
    | TElseIf :: TLp :: r =>
        match p_cond n r with
        | Some (c, TRp :: TThen :: TNl :: r') =>
            match p_body n r' with
            | Some (b, r'') =>
                match p_branches n r'' with
                | Some (brs, els, r3) => Some (BrCons c b brs, els, r3)
                | None => None
                end
            | None => None
            end
        | _ => None
        end
    | TElse :: TNl :: r =>
        match p_body n r with
        | Some (els, TEndIf :: TNl :: r') => Some (BrNil, els, r')
        | _ => None
        end
    | TEndIf :: TNl :: r => Some (BrNil, BNil, r)
    | _ => None
    end end.

Definition parse_prog (ts : list tok) : option body :=
  match p_body (100 * length ts + 100) ts with
  | Some (b, []) => Some b
  | _ => None
  end.

(* ---- printer (fully parenthesised expressions) ---------------------------------------------- *)
Fixpoint pr (e : expr) : list tok :=
  match e with
  | Num q => [TNum q]
  | Sym s => [TId s]
  | Fn1 f a => TFn f :: TLp :: pr a ++ [TRp]
  | Fn2 f a b => if Pos.eqb f F_POW then TLp :: pr a ++ TPow :: pr b ++ [TRp]
                 else TFn f :: TLp :: pr a ++ TComma :: pr b ++ [TRp]
  | Add a b => match b with
               | Neg b' => TLp :: pr a ++ TMinus :: pr b' ++ [TRp]
               | _ => TLp :: pr a ++ TPlus :: pr b ++ [TRp]
               end
  | Mul a b => TLp :: pr a ++ TStar :: pr b ++ [TRp]
  | Div a b => TLp :: pr a ++ TSlash :: pr b ++ [TRp]
  | Neg a => TLp :: TMinus :: pr a ++ [TRp]
  | PwNil => []
  | PwCons _ _ _ => []
  end.

Fixpoint prc (c : cond) : list tok :=
  match c with
  | CRel o a b => pr a ++ TRel o :: pr b
  | CNot a => TNot :: prc a
  | CAnd a b => prc a ++ TAnd :: prc b
  | COr a b => prc a ++ TOr :: prc b
  | CTrue | CFalse => []
  end.

Definition pr_else (pb : body -> list tok) (els : body) : list tok :=
  match els with BNil => [] | _ => TElse :: TNl :: pb els end.

Fixpoint pr_stmt (s : nmstmt) : list tok :=
  match s with
  | NAssign x e => TId x :: TAssign :: pr e ++ [TNl]
  | NIf c x e => TIf :: TLp :: prc c ++ TRp :: TId x :: TAssign :: pr e ++ [TNl]
  | NBlock brs els =>
      match brs with
      | BrCons c b tl => TIf :: TLp :: prc c ++ TRp :: TThen :: TNl :: pr_body b ++ pr_elseifs tl
                         ++ pr_else pr_body els ++ [TEndIf; TNl]
      | BrNil => []
      end
  end
with pr_body (b : body) : list tok :=
  match b with BNil => [] | BCons s tl => pr_stmt s ++ pr_body tl end
with pr_elseifs (brs : branches) : list tok :=
  match brs with
  | BrCons c b tl => TElseIf :: TLp :: prc c ++ TRp :: TThen :: TNl :: pr_body b ++ pr_elseifs tl
  | BrNil => []
  end.

(* ---- well-formedness: what the concrete syntax can express ------------------------------------ *)
Fixpoint wfe (e : expr) : bool :=
  match e with
  | Num _ | Sym _ => true
  | Fn1 _ a | Neg a => wfe a
  | Fn2 _ a b | Add a b | Mul a b | Div a b => wfe a && wfe b
  | PwNil | PwCons _ _ _ => false
  end.
Definition wf_rel (c : cond) : bool := match c with CRel _ a b => wfe a && wfe b | _ => false end.
Definition wf_not (c : cond) : bool := match c with CNot a => wf_rel a | _ => wf_rel c end.
Fixpoint wf_and (c : cond) : bool := match c with CAnd a b => wf_and a && wf_not b | _ => wf_not c end.
Fixpoint wf_or (c : cond) : bool := match c with COr a b => wf_or a && wf_and b | _ => wf_and c end.

Fixpoint wf_stmt (s : nmstmt) : bool :=
  match s with
  | NAssign _ e => wfe e
  | NIf c _ e => wf_or c && wfe e
  | NBlock brs els => match brs with BrNil => false | BrCons c b tl => wf_or c && wf_body b && wf_branches tl end && wf_body els
  end
with wf_body (b : body) : bool :=
  match b with BNil => true | BCons s tl => wf_stmt s && wf_body tl end
with wf_branches (brs : branches) : bool :=
  match brs with BrNil => true | BrCons c b tl => wf_or c && wf_body b && wf_branches tl end.
