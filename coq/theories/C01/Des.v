(* PV.C01.Des — $DES: how advan.py's `elif des:` branch (through to_compartmental_system) turns linear
   differential equations with symbol-only coefficients into a compartmental system.  Model only.

   An equation DADT(a) = sum of terms  +-k*A_x  (k a rate-constant symbol, A_x an amount).  Mirrored from
   pharmpy.model.statements.to_compartmental_system for this class: every POSITIVE term +k*A_x of the
   equation of compartment e becomes a flow  from -> e  with rate k, where `from` is the (last) equation
   that contains -k*A_x; the term is removed from e's remaining equation and added to x's (where it
   cancels -k*A_x); what is left of an equation at the end — negative terms without a positive partner —
   becomes the flow to the output compartment (rate = -left/A).  Flows accumulate by addition.
   (C05/ToCs.v models the same function on a more general class for C05's round-trip statement; this file
   is the part C01 needs, with rate constants as symbols so that a full, unbounded theorem is provable.) *)
From Coq Require Import QArith List Bool PArith Arith.
From PV Require Import Base.PyData Base.Expr C01.Model.
Import ListNotations.

Record dterm := mkDT { dt_pos : bool; dt_k : id; dt_a : id }.
Definition deq := (id * list dterm)%type.          (* (amount on the left-hand side, terms of the right-hand side) *)

Definition is_term (p : bool) (k a : id) (t : dterm) : bool :=
  Bool.eqb (dt_pos t) p && Pos.eqb (dt_k t) k && Pos.eqb (dt_a t) a.
Definition neg_in (ts : list dterm) (k a : id) : bool := existsb (is_term false k a) ts.
Definition pos_in (ts : list dterm) (k a : id) : bool := existsb (is_term true k a) ts.

(* for eq_2 in eqs: if -term in Add.make_args(eq_2.rhs.expand()): from_comp = ...     (no break: last wins) *)
Definition find_from (eqs : list deq) (k a : id) : option id :=
  fold_left (fun acc e => if neg_in (snd e) k a then Some (fst e) else acc) eqs None.
(* a negative term is cancelled by the bookkeeping iff some equation has the positive term *)
Definition partner (eqs : list deq) (k a : id) : bool := existsb (fun e => pos_in (snd e) k a) eqs.

Definition dflow := (id * id * id)%type.            (* from amount, to amount, rate constant *)
Definition flows_of_eq (eqs : list deq) (e : deq) : list dflow :=
  flat_map (fun t => if dt_pos t then match find_from eqs (dt_k t) (dt_a t) with
                                       | Some f => [(f, fst e, dt_k t)] | None => [] end
                     else []) (snd e).
Definition des_flows (eqs : list deq) : list dflow := flat_map (flows_of_eq eqs) eqs.
Definition outs_of_eq (eqs : list deq) (e : deq) : list (id * id) :=
  flat_map (fun t => if negb (dt_pos t) && negb (partner eqs (dt_k t) (dt_a t)) then [(fst e, dt_k t)] else []) (snd e).
Definition des_outs (eqs : list deq) : list (id * id) := flat_map (outs_of_eq eqs) eqs.

(* ---- values (total valuation of rate constants and amounts) ------------------------------------- *)
Local Open Scope Q_scope.
Definition term_val (rho : id -> Q) (t : dterm) : Q :=
  if dt_pos t then rho (dt_k t) * rho (dt_a t) else - (rho (dt_k t) * rho (dt_a t)).
Definition terms_val (rho : id -> Q) (ts : list dterm) : Q := qsum (map (term_val rho) ts).

(* the differential equation of compartment a in a compartmental system given by its flows:
   dA_a/dt = sum_{f -> a} k*A_f  -  sum_{a -> t} k*A_a  -  sum_{a -> output} k*A_a *)
Definition in_val (rho : id -> Q) (a : id) (f : dflow) : Q :=
  let '(fr, to, k) := f in if Pos.eqb to a then rho k * rho fr else 0.
Definition out_val (rho : id -> Q) (a : id) (f : dflow) : Q :=
  let '(fr, to, k) := f in if Pos.eqb fr a then rho k * rho a else 0.
Definition outp_val (rho : id -> Q) (a : id) (o : id * id) : Q :=
  if Pos.eqb (fst o) a then rho (snd o) * rho a else 0.
Definition sys_rhs (rho : id -> Q) (flows : list dflow) (outs : list (id * id)) (a : id) : Q :=
  qsum (map (in_val rho a) flows) - qsum (map (out_val rho a) flows) - qsum (map (outp_val rho a) outs).
Local Close Scope Q_scope.

(* ---- guard: a first-order linear system ------------------------------------------------------------ *)
Definition neg_ks (ts : list dterm) : list id := map dt_k (filter (fun t => negb (dt_pos t)) ts).
Definition pos_ks_of (eqs : list deq) (a : id) : list id :=
  flat_map (fun e => map dt_k (filter (fun t => dt_pos t && Pos.eqb (dt_a t) a) (snd e))) eqs.
Definition term_ok (eqs : list deq) (e : deq) (t : dterm) : bool :=
  if dt_pos t
  then negb (Pos.eqb (dt_a t) (fst e)) &&
       match alookup eqs (dt_a t) with Some ts' => neg_in ts' (dt_k t) (dt_a t) | None => false end
  else Pos.eqb (dt_a t) (fst e).
(* distinct left-hand sides; a loss term of A_e stands in e's own equation; every gain term +k*A_x has its
   loss term -k*A_x in x's equation; within what leaves one compartment the rate constants are distinct *)
Definition des_guard (eqs : list deq) : bool :=
  nodup_p (map fst eqs) &&
  forallb (fun e => forallb (term_ok eqs e) (snd e) && nodup_p (neg_ks (snd e)) && nodup_p (pos_ks_of eqs (fst e))) eqs.

(* ---- from a parsed right-hand side to terms --------------------------------------------------------- *)
Definition mk_term (amts : list id) (p : bool) (x y : id) : option dterm :=
  if memp y amts then Some (mkDT p x y) else if memp x amts then Some (mkDT p y x) else None.
Fixpoint terms_of_expr (amts : list id) (p : bool) (e : expr) : option (list dterm) :=
  match e with
  | Add a b => match terms_of_expr amts p a, terms_of_expr amts p b with
               | Some l1, Some l2 => Some (l1 ++ l2) | _, _ => None end
  | Neg a => terms_of_expr amts (negb p) a
  | Mul (Sym x) (Sym y) => option_map (fun t => [t]) (mk_term amts p x y)
  | Mul (Neg (Sym x)) (Sym y) => option_map (fun t => [t]) (mk_term amts (negb p) x y)
  | Num q => if Qeq_bool q 0 then Some [] else None
  | _ => None
  end.
