(* PV.C01.Check — comparisons run inside Coq (vm_compute) by the correspondence check.

   Abbreviated code ([verdict]):
     correspondence  tag 1  model.statements differs from [read_code prog] = translate (read_body prog) (lock-step: same target
                            sequence, every right-hand side evaluated in the environment reached
                            by the model; exact over Q)
                     tag 2  the sequence of assigned symbols differs
     oracle          tag 11 the PROPERTY: a symbol that the NM-TRAN reference semantics defines has
                            another (or no) value after executing the implementation's statements
                     tag 21 internal: guard true but [translate] differs from the reference
                            (contradicts translate_sound; can only be a bug of this file)
     guards          201 g_flat, 202 g_once, 203 g_cond_fresh, 204 g_cover are false
     inconclusive    1001 no right-hand side was ever compared at a defined point,
                     1011 the reference semantics was undefined at every sample point
   ADVAN/TRANS streams ([verdict_adv]): see below. *)
From Coq Require Import QArith List Bool PArith Arith.
From PV Require Import Base.PyData Base.Expr Base.Interp Base.Stmts C01.Model C01.Parser C01.Des.
Import ListNotations.
Local Open Scope nat_scope.

(* Fortran MOD (remainder with the sign of the dividend): reference meaning of NM-TRAN's MOD *)
Definition c01_fi2 (f : id) (x y : Q) : option Q :=
  if Pos.eqb f F_FMOD then (if Qeq_bool y 0 then None else Some (Qred (x - y * q_trunc (x / y))))
  else std_fi2 f x y.
(* base functions: Base/Interp.v, plus a value for LOG(10) so that LOG10(x) = LOG(x)/LOG(10) is defined
   (sympy relates log(10) to nothing else the generator produces); the protected symbols are interpreted
   by their clamp rule over the base functions, so that [protected_spec c01_fi] holds (Examples.v) *)
Definition base_fi1 (f : id) (x : Q) : option Q :=
  if Pos.eqb f F_LOG && Qeq_bool x 10 then Some 3%Q else std_fi1 f x.
Definition base_fi : finterp := {| fi1 := base_fi1; fi2 := c01_fi2 |}.
Definition c01_fi1 (f : id) (x : Q) : option Q :=
  match prot_of_id f with
  | Some p => eval (upd (fun _ => None) x0 (Some x)) base_fi (template p)
  | None => base_fi1 f x
  end.
Definition c01_fi : finterp := {| fi1 := c01_fi1; fi2 := c01_fi2 |}.

Record case := mkCase {
  c_use_toks : bool;                 (* the program is obtained by parsing c_toks with the reference parser *)
  c_toks : list tok;                 (* the tokens of the printed control-stream code *)
  c_ast : body;                      (* (only when c_use_toks = false) the program given directly *)
  c_impl : list stmt;                (* model.statements of read_model_from_string(text) *)
  c_envs : list (list (id * Q))      (* values of THETA/ETA/EPS/data items; program symbols undefined *)
}.
Definition c_parsed (c : case) : option body := if c_use_toks c then parse_prog (c_toks c) else Some (c_ast c).
Definition c_prog (c : case) : body := match c_parsed c with Some p => p | None => BNil end.

Definition tag (b : bool) (t : nat) : list nat := if b then [] else [t].

(* comparison of the model's value [a] with the implementation's [b] at one point:
   0 equal, 1 different, 3 model defined / implementation undefined,
   2 model undefined / implementation defined (sympy may simplify a partial operation away),
   4 both undefined *)
Definition code (a b : option Q) : nat :=
  match a, b with
  | Some x, Some y => if Qeq_bool x y then 0 else 1
  | Some _, None => 3
  | None, Some _ => 2
  | None, None => 4
  end.

Fixpoint lockstep (r : env) (m i : list stmt) : list nat :=
  match m, i with
  | [], [] => []
  | Assign x e :: m', Assign y e' :: i' =>
      if Pos.eqb x y then
        let a := eval r c01_fi e in
        code a (eval r c01_fi e') :: lockstep (upd r x a) m' i'
      else [9]
  | _, _ => [9]
  end.

Definition has (k : nat) (l : list nat) : bool := existsb (Nat.eqb k) l.

Definition corr_codes (c : case) (m : list stmt) : list nat :=
  flat_map (fun e => lockstep (env_of e) m (c_impl c)) (c_envs c).

Definition check_corr (c : case) : list nat :=
  let codes := corr_codes c (read_code (c_prog c)) in
  tag (negb (has 9 codes)) 2 ++
  tag (negb (has 1 codes || has 3 codes)) 1 ++
  tag (has 0 codes || match read_code (c_prog c) with [] => true | _ => false end) 1001.

(* the property on the implementation's own statements *)
Definition oracle_at (p : body) (impl : list stmt) (m : list (id * Q)) : nat :=
  match nm_body c01_fi (env_of m) p with
  | None => 2
  | Some r' =>
      let ri := exec c01_fi std_ode (env_of m) impl in
      if forallb (fun v => match r' v with
                           | Some a => match ri v with Some b => Qeq_bool a b | None => false end
                           | None => true
                           end) (assigned_body p)
      then 0 else 1
  end.

Definition model_at (p : body) (m : list (id * Q)) : nat :=
  match nm_body c01_fi (env_of m) p with
  | None => 2
  | Some r' =>
      let rm := exec c01_fi std_ode (env_of m) (read_code p) in
      if forallb (fun v => match r' v, rm v with
                           | Some a, Some b => Qeq_bool a b
                           | None, None => true
                           | _, _ => false
                           end) (assigned_body p)
      then 0 else 1
  end.

Definition check_oracle (c : case) : list nat :=
  let os := map (oracle_at (c_prog c) (c_impl c)) (c_envs c) in
  let ms := map (model_at (c_prog c)) (c_envs c) in
  tag (negb (has 1 os)) 11 ++
  tag (has 0 os) 1011 ++
  tag (negb (guard_code (read_body (c_prog c)) && has 1 ms)) 21 ++
  (* information: the faithful model deviates from the reference on this input *)
  tag (negb (has 1 ms)) 301.

Definition guard_tags (p0 : body) : list nat :=
  let p := read_body p0 in
  tag (g_flat p) 201 ++ tag (g_once p) 202 ++ tag (g_cond_fresh p) 203 ++ tag (g_cover p) 204.

Definition verdict (c : case) : list nat :=
  match c_parsed c with
  | None => [1091]            (* the reference parser refuses the token list: nothing can be concluded *)
  | Some _ => check_corr c ++ check_oracle c ++ guard_tags (c_prog c)
  end.

(* ------------------------------------------------------------------------------------------ *)
(* ADVAN/TRANS: comparison of flow lists by evaluation (used on the regenerated tables and on the
   compartmental systems of real control streams) *)
Definition eflow_eqb (a b : nat * nat * option Q) : bool :=
  Nat.eqb (fst (fst a)) (fst (fst b)) && Nat.eqb (snd (fst a)) (snd (fst b)) && oq_eqb (snd a) (snd b).

Definition flows_agree (r : env) (code : list flow) (spec : option (list flow)) : bool :=
  match spec with
  | Some l => list_eqb eflow_eqb (eval_flows r c01_fi code) (eval_flows r c01_fi l)
  | None => false
  end.

(* at least one rate constant is defined (the comparison says something) *)
Definition flows_defined (r : env) (spec : option (list flow)) : bool :=
  match spec with
  | Some l => forallb (fun f => match snd f with Some _ => true | None => false end) (eval_flows r c01_fi l)
  | None => false
  end.

(* real control streams:
     41 the flows of model.statements.ode_system differ from NONMEM's definition of that ADVAN/TRANS
        (rates evaluated after executing the $PK statements)
     42 compartment numbering / dose compartment differs
     43 the F link (scaling by Sn / SC) differs
     44 lag time / bioavailability of a compartment differs
     241 (guard) TRANS5 / TRANS6;  1041 no sample point at which every specified rate is defined *)
Record acase := mkACase {
  a_advan : advan;
  a_trans : trans;
  a_pk : list stmt;
  a_flows : list flow;
  a_map : list (cname * nat);
  a_dosecomps : list nat;
  a_lag : list (nat * expr);
  a_bio : list (nat * expr);
  a_f : expr;
  a_envs : list (list (id * Q))
}.

Definition pk_env (c : acase) (m : list (id * Q)) : env := exec c01_fi std_ode (env_of m) (a_pk c).
Definition pk_assigned (c : acase) (s : id) : bool := memp s (lhs_of (a_pk c)).

(* SPECIFICATION of the scaled observation: F = A(obs)/S with S = Sn of the default observation
   compartment n when $PK assigns it, else SC when that compartment is the central one and $PK
   assigns SC, else no scaling *)
Definition central_no (a : advan) : nat :=
  match map_lookup (st_map (nonmem_struct a)) CENTRAL with Some n => n | None => 0 end.
Definition obs_name (a : advan) : cname :=
  match filter (fun p => Nat.eqb (snd p) (st_obs (nonmem_struct a))) (st_map (nonmem_struct a)) with
  | p :: _ => fst p | [] => OUTPUT end.
Definition spec_f (c : acase) : expr :=
  let a := a_advan c in
  let n := st_obs (nonmem_struct a) in
  let amt := Sym (amount_of (obs_name a)) in
  if pk_assigned c (s_S n) then Div amt (Sym (s_S n))
  else if Nat.eqb n (central_no a) && pk_assigned c s_SC then Div amt (Sym s_SC)
  else amt.

Definition spec_lag (c : acase) (n : nat) : expr := if pk_assigned c (s_ALAG n) then Sym (s_ALAG n) else Num 0.
Definition spec_bio (c : acase) (n : nat) : expr := if pk_assigned c (s_F n) then Sym (s_F n) else Num 1.

Definition agree_all (c : acase) (e1 e2 : expr) : bool :=
  forallb (fun m => oq_eqb (eval (pk_env c m) c01_fi e1) (eval (pk_env c m) c01_fi e2)) (a_envs c).

Definition verdict_adv (c : acase) : list nat :=
  let spec := nonmem_flows (a_advan c) (a_trans c) in
  let s := nonmem_struct (a_advan c) in
  tag (forallb (fun m => flows_agree (pk_env c m) (a_flows c) spec) (a_envs c)) 41 ++
  tag (map_eqb (a_map c) (st_map s) && list_eqb Nat.eqb (a_dosecomps c) [st_dose s]) 42 ++
  tag (agree_all c (a_f c) (spec_f c)) 43 ++
  tag (forallb (fun p => agree_all c (snd p) (spec_lag c (fst p))) (a_lag c) &&
       forallb (fun p => agree_all c (snd p) (spec_bio c (fst p))) (a_bio c) &&
       Nat.eqb (length (a_lag c) + 1) (length (st_map s)) && Nat.eqb (length (a_bio c) + 1) (length (st_map s))) 44 ++
  tag (supported (a_advan c) (a_trans c)) 241 ++
  tag (existsb (fun m => flows_defined (pk_env c m) spec) (a_envs c)) 1041.

(* _find_rates: 51 the real function's answer differs from find_rate *)
Definition rate_res_eqb (a b : rate_res) : bool :=
  match a, b with
  | RFlow f t, RFlow f' t' => Nat.eqb f f' && Nat.eqb t t'
  | RSkip, RSkip | RAmbiguous, RAmbiguous | RError, RError => true
  | _, _ => false
  end.
Definition verdict_rate (c : rate_name * nat * rate_res) : list nat :=
  let '(n, k, res) := c in tag (rate_res_eqb (find_rate n k) res) 51.

(* ------------------------------------------------------------------------------------------ *)
(* parameter records: the reference reading of the record text (expected) against what
   model.parameters / model.random_variables hold (observed); exact rationals, None = +-infinity.
     61 a THETA differs (initial value, lower, upper bound, fixedness, or their number)
     62 an OMEGA / SIGMA block differs (size, initial values of the lower triangle, fixedness) *)
Definition pval := (Q * option Q * option Q * bool)%type.
Definition pval_eqb (a b : pval) : bool :=
  let '(i, l, u, f) := a in let '(i', l', u', f') := b in
  Qeq_bool i i' && oq_eqb l l' && oq_eqb u u' && Bool.eqb f f'.
Definition cell_eqb (a b : Q * bool) : bool := Qeq_bool (fst a) (fst b) && Bool.eqb (snd a) (snd b).
(* a block: its size and the (init, fix) of its lower triangle, row by row *)
Definition cblock := (nat * list (Q * bool))%type.
Definition cblock_eqb (a b : cblock) : bool := Nat.eqb (fst a) (fst b) && list_eqb cell_eqb (snd a) (snd b).

Record pcase := mkPCase {
  p_theta_exp : list pval; p_theta_obs : list pval;
  p_omega_exp : list cblock; p_omega_obs : list cblock;
  p_sigma_exp : list cblock; p_sigma_obs : list cblock
}.

Definition verdict_params (c : pcase) : list nat :=
  tag (list_eqb pval_eqb (p_theta_exp c) (p_theta_obs c)) 61 ++
  tag (list_eqb cblock_eqb (p_omega_exp c) (p_omega_obs c) && list_eqb cblock_eqb (p_sigma_exp c) (p_sigma_obs c)) 62.

(* parameters_from_blocks / rvs_from_blocks on the blocks returned by the real OmegaRecord.parse():
     71 positions / initial values / fixedness of the parameters differ from the model
     72 eta numbering, level or covariance parameters of a distribution differ from the model *)
Record bcase := mkBCase {
  b_is_eps : bool;
  b_blocks : list oblock;
  b_params : option (list oparam);      (* None = ModelSyntaxError *)
  b_rvs : list rvdist
}.
Definition oparam_eqb (a b : oparam) : bool :=
  Nat.eqb (op_row a) (op_row b) && Nat.eqb (op_col a) (op_col b) && Qeq_bool (op_init a) (op_init b) &&
  Bool.eqb (op_fix a) (op_fix b).
Definition level_eqb (a b : level) : bool :=
  match a, b with IIV, IIV | IOV, IOV | RUV, RUV => true | _, _ => false end.
Definition rvdist_eqb (a b : rvdist) : bool :=
  list_eqb Nat.eqb (rv_etas a) (rv_etas b) && level_eqb (rv_level a) (rv_level b) && list_eqb Nat.eqb (rv_cov a) (rv_cov b).
Definition verdict_blocks (c : bcase) : list nat :=
  tag (match parameters_from_blocks (b_blocks c), b_params c with
       | Some l, Some l' => list_eqb oparam_eqb l l'
       | None, None => true
       | _, _ => false end) 71 ++
  tag (match b_params c with
       | Some _ => list_eqb rvdist_eqb (rvs_from_blocks (b_is_eps c) (b_blocks c)) (b_rvs c)
       | None => true end) 72.

(* ------------------------------------------------------------------------------------------ *)
(* numeric forms of $OMEGA/$SIGMA records: one case per record (BLOCK) or per DIAGONAL item.
     81 the inits returned by the real OmegaRecord.parse() differ from the model (omega_block_parse /
        diag_item_parse with the exact square root)                                  [correspondence]
     82 they differ from NONMEM's definition of the form (nm_cov on the full symmetric matrix)  [oracle]
     83 the initial values of the parameters of the model that was read differ from parse()'s
     1081 a square root of a non-square was needed (sample not exact: nothing is concluded) *)
Record ocase := mkOCase {
  o_diag : bool; o_size : nat; o_sd : bool; o_corr : bool; o_chol : bool;
  o_vals : list Q;                 (* the values as written *)
  o_obs : ores;                    (* inits of the parsed block, or the error class *)
  o_par : option (list Q)          (* inits of the corresponding Parameters of the model, when it was read *)
}.
Definition ores_eqb (a b : ores) : bool :=
  match a, b with
  | OOk x, OOk y => list_eqb Qeq_bool x y
  | OSyntaxError, OSyntaxError | OInternalError, OInternalError => true
  | _, _ => false
  end.
Definition model_omega (c : ocase) : ores :=
  if o_diag c then OOk (map (diag_item_parse (o_sd c)) (o_vals c))
  else omega_block_parse sqrt_exact (o_size c) (o_sd c) (o_corr c) (o_chol c) (o_vals c).
(* NONMEM: a BLOCK(n) record needs n(n+1)/2 values, anything else is refused *)
Definition spec_omega (c : ocase) : option (list Q) :=
  if o_diag c then Some (map (fun v => if o_sd c then (v * v)%Q else v) (o_vals c))
  else if Nat.eqb (o_size c * (o_size c + 1) / 2) (length (o_vals c)) then
    let rows := unflatten 0 (o_size c) (o_vals c) in
    Some (concat (tri_build (o_size c)
                    (nm_cov sqrt_exact (form_of_flags (o_sd c) (o_corr c) (o_chol c)) (o_size c) (sym_of rows))))
  else None.
Definition spec_agrees (s : option (list Q)) (o : ores) : bool :=
  match s, o with
  | Some x, OOk y => list_eqb Qeq_bool x y
  | None, OSyntaxError | None, OInternalError => true
  | _, _ => false
  end.
Definition sqrt_exact_ok (c : ocase) : bool :=
  if o_diag c || o_chol c || o_sd c || negb (o_corr c) then true
  else let rows := unflatten 0 (o_size c) (o_vals c) in
       forallb (fun i => match q_sqrt (tget rows i i) with Some _ => true | None => false end) (seq 0 (o_size c)).
Definition verdict_oform (c : ocase) : list nat :=
  if sqrt_exact_ok c then
    tag (ores_eqb (model_omega c) (o_obs c)) 81 ++
    tag (spec_agrees (spec_omega c) (o_obs c)) 82 ++
    tag (match o_par c with Some p => ores_eqb (OOk p) (o_obs c) | None => true end) 83
  else [1081].

(* ------------------------------------------------------------------------------------------ *)
(* $DES: the differential equations of the compartmental system rebuilt by to_compartmental_system
   (advan.py, `elif des:` branch) against the DADT(i) right-hand sides as written.  The written
   equations are passed as tokens `D_i = rhs` and parsed by the reference parser.
     91 the right-hand side of an equation of ode_system.eqs evaluates differently from DADT(i)
     92 an equation is missing;  1091 the reference parser refuses the tokens *)
Record dcase := mkDCase {
  d_toks : list tok;
  d_eqs : list (id * expr);            (* (symbol standing for DADT(i), right-hand side of cs.eqs[i]) *)
  d_lhs : list (id * id);              (* symbol standing for DADT(i) -> amount A_i *)
  d_flows : list (id * id * expr);     (* cs.get_flow: (amount of from, amount of to or 1 for output, rate) *)
  d_envs : list (list (id * Q))
}.
Fixpoint des_check (b : body) (c : dcase) : list nat :=
  match b with
  | BNil => []
  | BCons (NAssign x e) tl =>
      match alookup (d_eqs c) x with
      | Some e' => tag (forallb (fun m => match eval (env_of m) c01_fi e with
                                          | Some v => oq_eqb (Some v) (eval (env_of m) c01_fi e')
                                          | None => false end) (d_envs c)) 91
      | None => [92]
      end ++ des_check tl c
  | BCons _ tl => [92] ++ des_check tl c
  end.

(* the MODEL C01/Des.v on the parsed equations: 93 its flows differ from cs.get_flow (rates compared by
   evaluation, pair by pair, output included);  94 the parsed equations are not sums of terms k*A;
   295 (guard fact) des_guard is false;  96 internal: guard true but sys_rhs differs from the terms *)
Fixpoint des_eqs_of (amts : list id) (lhs : list (id * id)) (b : body) : option (list deq) :=
  match b with
  | BNil => Some []
  | BCons (NAssign x e) tl =>
      match alookup lhs x, terms_of_expr amts true e, des_eqs_of amts lhs tl with
      | Some a, Some ts, Some r => Some ((a, ts) :: r)
      | _, _, _ => None
      end
  | BCons _ _ => None
  end.
Definition total_env (m : list (id * Q)) : id -> Q := fun x => match alookup m x with Some q => q | None => 0%Q end.
Definition model_rate (rho : id -> Q) (eqs : list deq) (f t : id) : Q :=
  if Pos.eqb t 1 then qsum (map (fun o => if Pos.eqb (fst o) f then rho (snd o) else 0%Q) (des_outs eqs))
  else qsum (map (fun fl => let '(fr, to, k) := fl in if Pos.eqb fr f && Pos.eqb to t then rho k else 0%Q) (des_flows eqs)).
Definition impl_rate (m : list (id * Q)) (fl : list (id * id * expr)) (f t : id) : option Q :=
  match filter (fun x => Pos.eqb (fst (fst x)) f && Pos.eqb (snd (fst x)) t) fl with
  | [] => Some 0%Q
  | x :: _ => eval (env_of m) c01_fi (snd x)
  end.
Definition des_model_check (c : dcase) (eqs : list deq) : list nat :=
  let amts := map snd (d_lhs c) in
  tag (forallb (fun m =>
         forallb (fun f => forallb (fun t =>
           match impl_rate m (d_flows c) f t with
           | Some v => Qeq_bool v (model_rate (total_env m) eqs f t)
           | None => false end) (1%positive :: amts)) amts) (d_envs c)) 93 ++
  tag (des_guard eqs) 295 ++
  tag (negb (des_guard eqs) ||
       forallb (fun m => forallb (fun e => Qeq_bool (sys_rhs (total_env m) (des_flows eqs) (des_outs eqs) (fst e))
                                                     (terms_val (total_env m) (snd e))) eqs) (d_envs c)) 96.
Definition verdict_des (c : dcase) : list nat :=
  match parse_prog (d_toks c) with
  | Some b => des_check b c ++ tag (Nat.eqb (length (list_of_body b)) (length (d_eqs c))) 92 ++
              match des_eqs_of (map snd (d_lhs c)) (d_lhs c) b with
              | Some eqs => des_model_check c eqs
              | None => [94]
              end
  | None => [1091]
  end.
