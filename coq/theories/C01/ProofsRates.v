(* PV.C01.ProofsRates — _find_rates: naming of rate constants round-trips. *)
From Coq Require Import QArith ZArith List Bool PArith Arith Lia.
From PV Require Import Base.PyData Base.Expr C01.Model.
Import ListNotations.
Local Open Scope nat_scope.

Lemma num2_digits k : 10 <= k -> num2 (k / 10) (k mod 10) = k.
Proof. intros H1. unfold num2. pose proof (Nat.div_mod k 10). lia. Qed.

Lemma find_rate_t_lemma i j n : find_rate (RT i j) n = RFlow i (if j =? 0 then n else j).
Proof. reflexivity. Qed.

Lemma leb_true a b : a <= b -> (a <=? b) = true.
Proof. apply Nat.leb_le. Qed.

Lemma find_rate_3 a b c n :
  find_rate (RPlain [a; b; c]) n =
  let q1 := (a <=? n) && (num2 b c <=? n) && negb (num2 b c =? 0) in
  let q2 := (num2 a b <=? n) && (c <=? n) in
  if q1 && q2 then RAmbiguous
  else if q1 then RFlow a (if num2 b c =? 0 then n else num2 b c)
  else if q2 then RFlow (num2 a b) (if c =? 0 then n else c)
  else RSkip.
Proof. reflexivity. Qed.

Lemma find_rates_roundtrip_lemma i j n :
  1 <= i -> i <= n -> j <= n -> n < 100 -> unambiguous i j n = true ->
  find_rate (rate_name_of i j) n = RFlow i (if j =? 0 then n else j).
Proof.
  intros Hi1 Hin Hjn Hn Hu. unfold rate_name_of, digits_of, unambiguous in *.
  destruct (Nat.ltb_spec i 10) as [Ei|Ei]; destruct (Nat.ltb_spec j 10) as [Ej|Ej]; cbn [app andb] in *.
  - reflexivity.
  - (* one digit, two digits *)
    rewrite (leb_true 10 j Ej) in Hu. apply negb_true_iff in Hu.
    rewrite find_rate_3. cbv zeta. rewrite Hu, (num2_digits j Ej).
    rewrite (leb_true i n Hin), (leb_true j n Hjn).
    assert (E0 : (j =? 0) = false) by (apply Nat.eqb_neq; lia). rewrite E0. reflexivity.
  - (* two digits, one digit *)
    rewrite (leb_true 10 i Ei) in Hu. cbn [andb] in Hu. apply negb_true_iff in Hu.
    rewrite find_rate_3. cbv zeta. rewrite Hu, (num2_digits i Ei).
    rewrite (leb_true i n Hin), (leb_true j n Hjn). reflexivity.
  - cbn [find_rate]. rewrite !num2_digits by assumption. reflexivity.
Qed.

(* when the second reading is valid too the code refuses the name (ModelSyntaxError) *)
Lemma find_rates_ambiguous_lemma i j n :
  1 <= i -> i <= n -> 1 <= j -> j <= n -> n < 100 -> unambiguous i j n = false ->
  find_rate (rate_name_of i j) n = RAmbiguous.
Proof.
  intros Hi1 Hin Hj1 Hjn Hn Hu. unfold rate_name_of, digits_of, unambiguous in *.
  destruct (Nat.ltb_spec i 10) as [Ei|Ei]; destruct (Nat.ltb_spec j 10) as [Ej|Ej]; cbn [app andb] in *.
  - rewrite (proj2 (Nat.leb_gt 10 j) Ej), (proj2 (Nat.leb_gt 10 i) Ei) in Hu. discriminate.
  - rewrite (leb_true 10 j Ej) in Hu. apply negb_false_iff in Hu.
    rewrite find_rate_3. cbv zeta. rewrite Hu, (num2_digits j Ej).
    rewrite (leb_true i n Hin), (leb_true j n Hjn).
    assert (E0 : (j =? 0) = false) by (apply Nat.eqb_neq; lia). rewrite E0. reflexivity.
  - rewrite (leb_true 10 i Ei) in Hu. cbn [andb] in Hu. apply negb_false_iff in Hu.
    rewrite find_rate_3. cbv zeta. rewrite Hu, (num2_digits i Ei).
    rewrite (leb_true i n Hin), (leb_true j n Hjn). reflexivity.
  - rewrite andb_false_r in Hu. discriminate.
Qed.
