(* PV.C01.ProofsOmega — the numeric forms of $OMEGA/$SIGMA BLOCK records. *)
From Coq Require Import QArith List Bool PArith Arith Lia Field.
From PV Require Import Base.PyData Base.Expr C01.Model.
Import ListNotations.
Local Open Scope Q_scope.

Lemma nth_map_seq {A} (g : nat -> A) n i d : (i < n)%nat -> nth i (map g (seq 0 n)) d = g i.
Proof.
  intro H. rewrite (nth_indep _ d (g 0%nat)) by (rewrite map_length, seq_length; exact H).
  rewrite map_nth, seq_nth by exact H. reflexivity.
Qed.

Lemma length_build n f : length (tri_build n f) = n.
Proof. unfold tri_build. rewrite map_length, seq_length. reflexivity. Qed.

Lemma tget_build n f i j : (i < n)%nat -> (j <= i)%nat -> tget (tri_build n f) i j = f i j.
Proof.
  intros Hi Hj. unfold tget, tri_build. rewrite nth_map_seq by exact Hi.
  apply nth_map_seq. lia.
Qed.

Lemma qsum_app l1 l2 : qsum (l1 ++ l2) == qsum l1 + qsum l2.
Proof. induction l1 as [|x tl IH]; cbn [app qsum]; [ring | rewrite IH; ring]. Qed.

Lemma qsum_map_ext {A} (f g : A -> Q) l : (forall x, In x l -> f x == g x) -> qsum (map f l) == qsum (map g l).
Proof.
  induction l as [|x tl IH]; intro H; cbn [map qsum]; [reflexivity|].
  rewrite (H x (or_introl eq_refl)), IH; [reflexivity|]. intros y Hy. apply H. right. exact Hy.
Qed.

Lemma qsum_map_zero {A} (f : A -> Q) l : (forall x, In x l -> f x == 0) -> qsum (map f l) == 0.
Proof.
  induction l as [|x tl IH]; intro H; cbn [map qsum]; [reflexivity|].
  rewrite (H x (or_introl eq_refl)), IH; [ring|]. intros y Hy. apply H. right. exact Hy.
Qed.

Lemma qsum_map_nonneg {A} (f : A -> Q) l : (forall x, In x l -> 0 <= f x) -> 0 <= qsum (map f l).
Proof.
  induction l as [|x tl IH]; intro H; cbn [map qsum]; [apply Qle_refl|].
  rewrite <- (Qplus_0_l 0). apply Qplus_le_compat; [apply H; left; reflexivity|].
  apply IH. intros y Hy. apply H. right. exact Hy.
Qed.

Section Forms.
  Variable sqrt : Q -> Q.
  Hypothesis sqrt_sq : forall x, 0 <= x -> sqrt x * sqrt x == x.
  Hypothesis sqrt_pos : forall x, 0 < x -> 0 < sqrt x.

  Lemma sqrt_nz x : 0 < x -> ~ sqrt x == 0.
  Proof. intros H E. pose proof (sqrt_pos x H) as P. rewrite E in P. exact (Qlt_irrefl 0 P). Qed.

  (* writing a covariance matrix S in form f and reading it back with parse() gives S *)
  Lemma sdcorr_forms_lemma (f : oform) (S : list (list Q)) :
    f <> FChol ->
    (forall i, (i < length S)%nat -> 0 < tget S i i) ->
    forall i j, (i < length S)%nat -> (j <= i)%nat ->
      tget (parse_form sqrt f (encode sqrt f S)) i j == tget S i j.
  Proof.
    intros Hf Hpos i j Hi Hj.
    assert (Hjn : (j < length S)%nat) by lia.
    unfold parse_form, encode. rewrite length_build. rewrite tget_build by assumption.
    unfold parse_entry.
    rewrite !tget_build by (assumption || lia).
    pose proof (Hpos i Hi) as Pi. pose proof (Hpos j Hjn) as Pj.
    pose proof (sqrt_nz _ Pi) as Ni. pose proof (sqrt_nz _ Pj) as Nj.
    unfold encode_entry. rewrite !Nat.eqb_refl.
    destruct f; try (exfalso; apply Hf; reflexivity); destruct (Nat.eqb i j) eqn:E;
      try (apply Nat.eqb_eq in E; subst j); try reflexivity.
    - apply sqrt_sq. apply Qlt_le_weak. exact Pi.
    - field. split; assumption.
    - apply sqrt_sq. apply Qlt_le_weak. exact Pi.
    - field. split; assumption.
  Qed.

  (* parse() computes NONMEM's definition of every form (entries of the lower triangle) *)
  Lemma parse_form_spec_lemma (f : oform) (rows : list (list Q)) i j :
    (i < length rows)%nat -> (j <= i)%nat ->
    tget (parse_form sqrt f rows) i j == nm_cov sqrt f (length rows) (sym_of rows) i j.
  Proof.
    intros Hi Hj. unfold parse_form. rewrite tget_build by assumption.
    unfold parse_entry, nm_cov.
    assert (Sii : sym_of rows i i = tget rows i i) by (unfold sym_of; rewrite Nat.leb_refl; reflexivity).
    assert (Sjj : sym_of rows j j = tget rows j j) by (unfold sym_of; rewrite Nat.leb_refl; reflexivity).
    assert (Sij : sym_of rows i j = tget rows i j).
    { unfold sym_of. destruct (j <=? i)%nat eqn:E; [reflexivity|]. apply Nat.leb_gt in E. lia. }
    destruct f; rewrite ?Sii, ?Sjj, ?Sij; try reflexivity;
      try (destruct (Nat.eqb i j); [reflexivity | ring]).
    (* Cholesky: the sum over k <= j equals the full row-by-row product *)
    replace (length rows) with (S j + (length rows - S j))%nat by lia.
    rewrite seq_app, map_app, qsum_app.
    rewrite (qsum_map_zero _ (seq (0 + S j) (length rows - S j))).
    - rewrite Qplus_0_r. apply qsum_map_ext. intros k Hk. apply in_seq in Hk.
      assert (E1 : (k <=? i)%nat = true) by (apply Nat.leb_le; lia).
      assert (E2 : (k <=? j)%nat = true) by (apply Nat.leb_le; lia).
      rewrite E1, E2. unfold sym_of. rewrite E1, E2. reflexivity.
    - intros k Hk. apply in_seq in Hk.
      assert (E2 : (k <=? j)%nat = false) by (apply Nat.leb_gt; lia).
      rewrite E2. ring.
  Qed.

  (* the matrix a record denotes is symmetric *)
  Lemma nm_cov_symmetric_lemma f n (M : nat -> nat -> Q) i j :
    (forall a b, M a b = M b a) -> nm_cov sqrt f n M i j == nm_cov sqrt f n M j i.
  Proof.
    intro Hs. unfold nm_cov. destruct f.
    - rewrite (Hs i j). reflexivity.
    - rewrite (Nat.eqb_sym j i). destruct (Nat.eqb i j) eqn:E; [apply Nat.eqb_eq in E; subst; reflexivity | rewrite (Hs j i); reflexivity].
    - rewrite (Nat.eqb_sym j i). destruct (Nat.eqb i j) eqn:E; [apply Nat.eqb_eq in E; subst; reflexivity | rewrite (Hs j i); ring].
    - rewrite (Nat.eqb_sym j i). destruct (Nat.eqb i j) eqn:E; [apply Nat.eqb_eq in E; subst; reflexivity | rewrite (Hs j i); ring].
    - apply qsum_map_ext. intros k _. ring.
  Qed.

  (* a CHOLESKY record always denotes a matrix with non-negative diagonal (sum of squares) *)
  Lemma cholesky_diag_nonneg_lemma n (M : nat -> nat -> Q) i : 0 <= nm_cov sqrt FChol n M i i.
  Proof.
    unfold nm_cov. apply qsum_map_nonneg. intros k _.
    destruct (k <=? i)%nat.
    - destruct (Qlt_le_dec (M i k) 0) as [H|H].
      + setoid_replace (M i k * M i k) with ((- M i k) * (- M i k)) by ring.
        apply Qmult_le_0_compat; apply Qlt_le_weak; rewrite <- (Qopp_involutive 0); apply Qopp_lt_compat; exact H.
      + apply Qmult_le_0_compat; exact H.
    - setoid_replace (0 * 0) with 0 by ring. apply Qle_refl.
  Qed.
End Forms.
