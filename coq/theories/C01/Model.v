(* PV.C01.Model — reading NM-TRAN abbreviated code into the model IR.

   (1) an abstract syntax of NM-TRAN abbreviated code (assignment, logical IF, block IF with
       ELSEIF / ELSE, arbitrarily nested) and its REFERENCE semantics [nm_body]: sequential,
       Fortran-like execution (this is part of the trusted specification);
   (2) [translate], an executable model of
       pharmpy/model/external/nonmem/records/code_record.py:_parse_tree
       mirroring the Python statement by statement (blocks list, OrderedSet of block symbols, pairs,
       "else keeps the previous value only if previously assigned", the empty-IF special case,
       _reorder_block_statements — which is the identity on the objects it is given);
   (3) the decidable guards under which the two agree;
   (4) NONMEM's ADVAN/TRANS definitions (specification side of the regenerated table obligations)
       and a model of advan.py:_find_rates.
   No proofs in this file. *)
From Coq Require Import QArith List Bool PArith Arith Lia.
From PV Require Import Base.PyData Base.Expr Base.Interp Base.Stmts.
Import ListNotations.
Local Open Scope nat_scope.

(* ------------------------------------------------------------------------------------------ *)
(* 1. abstract syntax (a mutual inductive instead of nested lists, so that plain structural     *)
(*    recursion and the generated induction schemes work)                                      *)
Inductive nmstmt :=
| NAssign (x : id) (e : expr)                  (*  X = e                                   *)
| NIf (c : cond) (x : id) (e : expr)           (*  IF (c) X = e                            *)
| NBlock (brs : branches) (els : body)         (*  IF (c1) THEN b1 ELSEIF (c2) THEN b2 ... [ELSE els] ENDIF *)
with body :=
| BNil
| BCons (s : nmstmt) (tl : body)
with branches :=
| BrNil
| BrCons (c : cond) (b : body) (tl : branches).

Fixpoint body_of_list (l : list nmstmt) : body :=
  match l with [] => BNil | s :: tl => BCons s (body_of_list tl) end.
Fixpoint list_of_body (b : body) : list nmstmt :=
  match b with BNil => [] | BCons s tl => s :: list_of_body tl end.

(* ---- reference semantics ------------------------------------------------------------------ *)
(* An environment maps a symbol to its value or to "undefined" (None).  Executing an assignment
   whose right-hand side is undefined makes the target undefined.  A condition that has to be
   evaluated and is undefined gives the whole program no meaning ([None]): the property excludes
   such inputs.  A block IF evaluates its conditions in order in the environment at block entry,
   executes the statements of the first branch whose condition holds (the ELSE branch if none
   does) in order, and nothing else. *)
Section NM.
  Variable fi : finterp.

  Definition assign (r : env) (x : id) (e : expr) : env := upd r x (eval r fi e).

  Fixpoint nm_stmt (r : env) (s : nmstmt) {struct s} : option env :=
    match s with
    | NAssign x e => Some (assign r x e)
    | NIf c x e =>
        match evalc r fi c with
        | None => None
        | Some true => Some (assign r x e)
        | Some false => Some r
        end
    | NBlock brs els =>
        match nm_branches r brs with
        | Some res => res               (* a branch was selected (or its condition is undefined) *)
        | None => nm_body r els         (* no branch selected: ELSE part (empty when absent) *)
        end
    end
  with nm_body (r : env) (b : body) {struct b} : option env :=
    match b with
    | BNil => Some r
    | BCons s tl => match nm_stmt r s with None => None | Some r' => nm_body r' tl end
    end
  with nm_branches (r : env) (brs : branches) {struct brs} : option (option env) :=
    match brs with
    | BrNil => None
    | BrCons c b tl =>
        match evalc r fi c with
        | None => Some None
        | Some true => Some (nm_body r b)
        | Some false => nm_branches r tl
        end
    end.
End NM.

(* ------------------------------------------------------------------------------------------ *)
(* 2. _parse_tree                                                                              *)
Definition asg := (id * expr)%type.
(* (logic, [(symbol, expr) ...]);  logic = None is the Python object True of an ELSE block *)
Definition block := (option cond * list asg)%type.

(* for ifstat in blk.subtrees('statement'): for assign_node in ifstat.subtrees('assignment'):
   only the DIRECT assignment children of a branch are seen; logical IFs and nested block IFs
   inside a branch are skipped. *)
Fixpoint body_assigns (b : body) : list asg :=
  match b with
  | BNil => []
  | BCons s tl => match s with
                  | NAssign x e => (x, e) :: body_assigns tl
                  | _ => body_assigns tl
                  end
  end.

Fixpoint branch_list (brs : branches) : list (cond * list asg) :=
  match brs with
  | BrNil => []
  | BrCons c b tl => (c, body_assigns b) :: branch_list tl
  end.

(* piecewise_logic = True;  if len(blocks) == 1 and len(blocks[0][1]) == 0: Not(blocks[0][0]) *)
Definition else_logic (bl : list (cond * list asg)) : option cond :=
  match bl with
  | [(c, [])] => Some (CNot c)
  | _ => None
  end.

Definition is_bnil (b : body) : bool := match b with BNil => true | _ => false end.

(* an ELSE block without statements appends (logic, []) which contributes no pair: same as absent *)
Definition blocks_of (brs : branches) (els : body) : list block :=
  let bl := branch_list brs in
  let B := map (fun p => (Some (fst p), snd p)) bl in
  if is_bnil els then B else B ++ [(else_logic bl, body_assigns els)].

(* OrderedSet of the assigned symbols: first occurrence order *)
Fixpoint dedup (l : list id) : list id :=
  match l with
  | [] => []
  | x :: tl => x :: filter (fun y => negb (Pos.eqb y x)) (dedup tl)
  end.
Definition lhs_all (B : list block) : list id := flat_map (fun b => map fst (snd b)) B.
Definition block_syms (B : list block) : list id := dedup (lhs_all B).

(* pairs = [(expr, logic) for block in blocks for (cursymb, expr) in block[1] if cursymb == symbol] *)
Definition pairs_of (x : id) (B : list block) : list (expr * option cond) :=
  flat_map (fun b => map (fun a => (snd a, fst b)) (filter (fun a => Pos.eqb (fst a) x) (snd b))) B.

Definition lg_cond (lg : option cond) : cond := match lg with Some c => c | None => CTrue end.

(* sympy.Piecewise of the pairs, followed by the default [d] *)
Definition pw_chain (ps : list (expr * option cond)) (d : expr) : expr :=
  fold_right (fun p acc => PwCons (lg_cond (snd p)) (fst p) acc) d ps.

(* pairs[-1][1] is True *)
Definition last_is_true (ps : list (expr * option cond)) : bool :=
  match last (map snd ps) (Some CTrue) with None => true | Some _ => false end.

(* else_val = symbol if any(x.symbol == symbol for x in s) else None; pairs.append(else_val, True) *)
Definition else_val (defd : list id) (x : id) : expr :=
  if memp x defd then PwCons CTrue (Sym x) PwNil else PwNil.

Definition pw_of (defd : list id) (x : id) (B : list block) : expr :=
  let ps := pairs_of x B in
  pw_chain ps (if last_is_true ps then PwNil else else_val defd x).

(* _reorder_block_statements: `isinstance(ass.expression, sympy.Piecewise)` is asked of a
   pharmpy Expr wrapper and is never true, so piecewise = [] and the result is the input list *)
Definition reorder_block_statements (l : list stmt) : list stmt := l.

Definition block_stmts (defd : list id) (B : list block) : list stmt :=
  reorder_block_statements (map (fun x => Assign x (pw_of defd x B)) (block_syms B)).

Definition translate_stmt (defd : list id) (s : nmstmt) : list stmt :=
  match s with
  | NAssign x e => [Assign x e]
  | NIf c x e => [Assign x (PwCons c e (else_val defd x))]
  | NBlock brs els => block_stmts defd (blocks_of brs els)
  end.

Definition lhs_of (l : list stmt) : list id := flat_map defs l.

(* [defd] = symbols of the statements emitted so far (the list `s` of _parse_tree) *)
Fixpoint translate_from (defd : list id) (p : body) : list stmt :=
  match p with
  | BNil => []
  | BCons s tl =>
      let out := translate_stmt defd s in
      out ++ translate_from (lhs_of out ++ defd) tl
  end.

Definition translate (p : body) : list stmt := translate_from [] p.

(* ------------------------------------------------------------------------------------------ *)
(* 3. guards                                                                                   *)
Fixpoint assigned_stmt (s : nmstmt) : list id :=
  match s with
  | NAssign x _ => [x]
  | NIf _ x _ => [x]
  | NBlock brs els => assigned_branches brs ++ assigned_body els
  end
with assigned_body (b : body) : list id :=
  match b with BNil => [] | BCons s tl => assigned_stmt s ++ assigned_body tl end
with assigned_branches (brs : branches) : list id :=
  match brs with BrNil => [] | BrCons _ b tl => assigned_body b ++ assigned_branches tl end.

(* g_flat: the branches of a block IF contain only plain assignments *)
Fixpoint flat_body (b : body) : bool :=
  match b with
  | BNil => true
  | BCons s tl => match s with NAssign _ _ => flat_body tl | _ => false end
  end.
Fixpoint flat_branches (brs : branches) : bool :=
  match brs with BrNil => true | BrCons _ b tl => flat_body b && flat_branches tl end.

Fixpoint nodup_p (l : list id) : bool :=
  match l with [] => true | x :: tl => negb (memp x tl) && nodup_p tl end.

(* g_once: no symbol is assigned twice inside one branch *)
Definition once_blocks (B : list block) : bool := forallb (fun b => nodup_p (map fst (snd b))) B.

(* g_cond_fresh: no condition of the construct reads a symbol assigned anywhere in the construct,
   and no right-hand side reads a symbol assigned in the construct other than its own target *)
Definition fresh_cond (A : list id) (lg : option cond) : bool :=
  match lg with Some c => negb (interp_nonempty (free_symsc c) A) | None => true end.
Definition fresh_asg (A : list id) (a : asg) : bool :=
  forallb (fun y => negb (memp y A) || Pos.eqb y (fst a)) (free_syms (snd a)).
Definition fresh_blocks (B : list block) : bool :=
  let A := lhs_all B in
  forallb (fun b => fresh_cond A (fst b) && forallb (fresh_asg A) (snd b)) B.

(* g_cover: a symbol assigned in some branch is assigned in every EARLIER branch too (otherwise
   the Piecewise built for it ignores the conditions of the earlier branches) — except in the one
   shape the code special-cases (a single empty IF branch followed by ELSE) *)
Fixpoint cover_blocks (B : list block) : bool :=
  match B with
  | [] => true
  | b :: tl => forallb (fun x => memp x (map fst (snd b))) (lhs_all tl) && cover_blocks tl
  end.
Definition special (brs : branches) : bool :=
  match branch_list brs with [(_, [])] => true | _ => false end.

Definition g_flat_stmt (s : nmstmt) : bool :=
  match s with NBlock brs els => flat_branches brs && flat_body els | _ => true end.
Definition g_once_stmt (s : nmstmt) : bool :=
  match s with NBlock brs els => once_blocks (blocks_of brs els) | _ => true end.
Definition g_fresh_stmt (s : nmstmt) : bool :=
  match s with NBlock brs els => fresh_blocks (blocks_of brs els) | _ => true end.
Definition g_cover_stmt (s : nmstmt) : bool :=
  match s with NBlock brs els => special brs || cover_blocks (blocks_of brs els) | _ => true end.

Fixpoint forall_body (f : nmstmt -> bool) (p : body) : bool :=
  match p with BNil => true | BCons s tl => f s && forall_body f tl end.

Definition g_flat (p : body) : bool := forall_body g_flat_stmt p.
Definition g_once (p : body) : bool := forall_body g_once_stmt p.
Definition g_cond_fresh (p : body) : bool := forall_body g_fresh_stmt p.
Definition g_cover (p : body) : bool := forall_body g_cover_stmt p.

Definition guard_stmt (s : nmstmt) : bool :=
  g_flat_stmt s && g_once_stmt s && g_fresh_stmt s && g_cover_stmt s.
Definition guard_code (p : body) : bool := g_flat p && g_once p && g_cond_fresh p && g_cover p.

(* the initial environment gives no value to a symbol the program assigns (THETA, ETA, EPS and
   data items are never assigned) *)
Definition fresh_env (r : env) (p : body) : Prop := forall v, In v (assigned_body p) -> r v = None.
