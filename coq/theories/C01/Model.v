(* PV.C01.Model — reading NM-TRAN abbreviated code into the model IR.

   (1) an abstract syntax of NM-TRAN abbreviated code (assignment, logical IF, block IF with
       ELSEIF / ELSE, arbitrarily nested) and its REFERENCE semantics [nm_body]: sequential,
       Fortran-like execution (this is part of the trusted specification);
   (2) [translate], an executable model of
       pharmpy/model/external/nonmem/records/code_record.py:_parse_tree
       mirroring the Python statement by statement (blocks list, OrderedSet of block symbols, pairs,
       "else keeps the previous value only if previously assigned", the empty-IF special case,
       _reorder_block_statements — which is the identity on the objects it is given);
   (3) the decidable guards under which the two agree;
   (4) NONMEM's ADVAN/TRANS definitions (specification side of the regenerated table obligations)
       and a model of advan.py:_find_rates.
   No proofs in this file. *)
From Coq Require Import QArith List Bool PArith Arith Lia.
From PV Require Import Base.PyData Base.Expr Base.Interp Base.Stmts.
Import ListNotations.
Local Open Scope nat_scope.

(* ------------------------------------------------------------------------------------------ *)
(* 1. abstract syntax (a mutual inductive instead of nested lists, so that plain structural     *)
(*    recursion and the generated induction schemes work)                                      *)
Inductive nmstmt :=
| NAssign (x : id) (e : expr)                  (*  X = e                                   *)
| NIf (c : cond) (x : id) (e : expr)           (*  IF (c) X = e                            *)
| NBlock (brs : branches) (els : body)         (*  IF (c1) THEN b1 ELSEIF (c2) THEN b2 ... [ELSE els] ENDIF *)
with body :=
| BNil
| BCons (s : nmstmt) (tl : body)
with branches :=
| BrNil
| BrCons (c : cond) (b : body) (tl : branches).

Fixpoint body_of_list (l : list nmstmt) : body :=
  match l with [] => BNil | s :: tl => BCons s (body_of_list tl) end.
Fixpoint list_of_body (b : body) : list nmstmt :=
  match b with BNil => [] | BCons s tl => s :: list_of_body tl end.

(* ---- reference semantics ------------------------------------------------------------------ *)
(* An environment maps a symbol to its value or to "undefined" (None).  Executing an assignment
   whose right-hand side is undefined makes the target undefined.  A condition that has to be
   evaluated and is undefined gives the whole program no meaning ([None]): the property excludes
   such inputs.  A block IF evaluates its conditions in order in the environment at block entry,
   executes the statements of the first branch whose condition holds (the ELSE branch if none
   does) in order, and nothing else. *)
Section NM.
  Variable fi : finterp.

  Definition assign (r : env) (x : id) (e : expr) : env := upd r x (eval r fi e).

  Fixpoint nm_stmt (r : env) (s : nmstmt) {struct s} : option env :=
    match s with
    | NAssign x e => Some (assign r x e)
    | NIf c x e =>
        match evalc r fi c with
        | None => None
        | Some true => Some (assign r x e)
        | Some false => Some r
        end
    | NBlock brs els =>
        match nm_branches r brs with
        | Some res => res               (* a branch was selected (or its condition is undefined) *)
        | None => nm_body r els         (* no branch selected: ELSE part (empty when absent) *)
        end
    end
  with nm_body (r : env) (b : body) {struct b} : option env :=
    match b with
    | BNil => Some r
    | BCons s tl => match nm_stmt r s with None => None | Some r' => nm_body r' tl end
    end
  with nm_branches (r : env) (brs : branches) {struct brs} : option (option env) :=
    match brs with
    | BrNil => None
    | BrCons c b tl =>
        match evalc r fi c with
        | None => Some None
        | Some true => Some (nm_body r b)
        | Some false => nm_branches r tl
        end
    end.
End NM.

(* ------------------------------------------------------------------------------------------ *)
(* 2. _parse_tree                                                                              *)
Definition asg := (id * expr)%type.
(* (logic, [(symbol, expr) ...]);  logic = None is the Python object True of an ELSE block *)
Definition block := (option cond * list asg)%type.

(* for ifstat in blk.subtrees('statement'): for assign_node in ifstat.subtrees('assignment'):
   only the DIRECT assignment children of a branch are seen; logical IFs and nested block IFs
   inside a branch are skipped. *)
Fixpoint body_assigns (b : body) : list asg :=
  match b with
  | BNil => []
  | BCons s tl => match s with
                  | NAssign x e => (x, e) :: body_assigns tl
                  | _ => body_assigns tl
                  end
  end.

Fixpoint branch_list (brs : branches) : list (cond * list asg) :=
  match brs with
  | BrNil => []
  | BrCons c b tl => (c, body_assigns b) :: branch_list tl
  end.

(* piecewise_logic = True;  if len(blocks) == 1 and len(blocks[0][1]) == 0: Not(blocks[0][0]) *)
Definition else_logic (bl : list (cond * list asg)) : option cond :=
  match bl with
  | [(c, [])] => Some (CNot c)
  | _ => None
  end.

Definition is_bnil (b : body) : bool := match b with BNil => true | _ => false end.

(* an ELSE block without statements appends (logic, []) which contributes no pair: same as absent *)
Definition blocks_of (brs : branches) (els : body) : list block :=
  let bl := branch_list brs in
  let B := map (fun p => (Some (fst p), snd p)) bl in
  if is_bnil els then B else B ++ [(else_logic bl, body_assigns els)].

(* OrderedSet of the assigned symbols: first occurrence order *)
Fixpoint dedup (l : list id) : list id :=
  match l with
  | [] => []
  | x :: tl => x :: filter (fun y => negb (Pos.eqb y x)) (dedup tl)
  end.
Definition lhs_all (B : list block) : list id := flat_map (fun b => map fst (snd b)) B.
Definition block_syms (B : list block) : list id := dedup (lhs_all B).

(* pairs = [(expr, logic) for block in blocks for (cursymb, expr) in block[1] if cursymb == symbol] *)
Definition pairs_of (x : id) (B : list block) : list (expr * option cond) :=
  flat_map (fun b => map (fun a => (snd a, fst b)) (filter (fun a => Pos.eqb (fst a) x) (snd b))) B.

Definition lg_cond (lg : option cond) : cond := match lg with Some c => c | None => CTrue end.

(* sympy.Piecewise of the pairs, followed by the default [d] *)
Definition pw_chain (ps : list (expr * option cond)) (d : expr) : expr :=
  fold_right (fun p acc => PwCons (lg_cond (snd p)) (fst p) acc) d ps.

(* pairs[-1][1] is True *)
Definition last_is_true (ps : list (expr * option cond)) : bool :=
  match last (map snd ps) (Some CTrue) with None => true | Some _ => false end.

(* else_val = symbol if any(x.symbol == symbol for x in s) else None; pairs.append(else_val, True) *)
Definition else_val (defd : list id) (x : id) : expr :=
  if memp x defd then PwCons CTrue (Sym x) PwNil else PwNil.

Definition pw_of (defd : list id) (x : id) (B : list block) : expr :=
  let ps := pairs_of x B in
  pw_chain ps (if last_is_true ps then PwNil else else_val defd x).

(* _reorder_block_statements: `isinstance(ass.expression, sympy.Piecewise)` is asked of a
   pharmpy Expr wrapper and is never true, so piecewise = [] and the result is the input list *)
Definition reorder_block_statements (l : list stmt) : list stmt := l.

Definition block_stmts (defd : list id) (B : list block) : list stmt :=
  reorder_block_statements (map (fun x => Assign x (pw_of defd x B)) (block_syms B)).

Definition translate_stmt (defd : list id) (s : nmstmt) : list stmt :=
  match s with
  | NAssign x e => [Assign x e]
  | NIf c x e => [Assign x (PwCons c e (else_val defd x))]
  | NBlock brs els => block_stmts defd (blocks_of brs els)
  end.

Definition lhs_of (l : list stmt) : list id := flat_map defs l.

(* [defd] = symbols of the statements emitted so far (the list `s` of _parse_tree) *)
Fixpoint translate_from (defd : list id) (p : body) : list stmt :=
  match p with
  | BNil => []
  | BCons s tl =>
      let out := translate_stmt defd s in
      out ++ translate_from (lhs_of out ++ defd) tl
  end.

Definition translate (p : body) : list stmt := translate_from [] p.

(* ---- ExpressionInterpreter's function table ------------------------------------------------ *)
(* The generated programs carry the REFERENCE meaning of every intrinsic as a function symbol.
   MOD is the Fortran remainder F_FMOD (since fix 81bb571 the code builds x - y*INT(x/y), an
   expression of that meaning; checked by evaluation).  LOG10 and NONMEM's PROTECTED functions
   are uninterpreted symbols F_LOG10, F_PEXP, ...; pharmpy.internals.expr.funcs expands them at
   read time into a Piecewise that clamps the argument (PEXP(x) = EXP(100) for x > 100, ...):
   [template] is that expansion over the placeholder x0, [read_expr] substitutes the argument. *)
Definition F_FMOD : id := 20%positive.
Definition read_fn2 (f : id) : id := f.

Inductive prot := PEXP | PLOG | LOG10 | PLOG10 | PSQRT | PNG | PHE | PNP | PZR | PDZ.
Definition F_PEXP : id := 31%positive.   Definition F_PLOG : id := 32%positive.
Definition F_LOG10 : id := 33%positive.  Definition F_PLOG10 : id := 34%positive.
Definition F_PSQRT : id := 35%positive.  Definition F_PNG : id := 36%positive.
Definition F_PHE : id := 37%positive.    Definition F_PNP : id := 38%positive.
Definition F_PZR : id := 39%positive.    Definition F_PDZ : id := 40%positive.

Definition prot_of_id (f : id) : option prot :=
  if Pos.eqb f F_PEXP then Some PEXP else if Pos.eqb f F_PLOG then Some PLOG
  else if Pos.eqb f F_LOG10 then Some LOG10 else if Pos.eqb f F_PLOG10 then Some PLOG10
  else if Pos.eqb f F_PSQRT then Some PSQRT else if Pos.eqb f F_PNG then Some PNG
  else if Pos.eqb f F_PHE then Some PHE else if Pos.eqb f F_PNP then Some PNP
  else if Pos.eqb f F_PZR then Some PZR else if Pos.eqb f F_PDZ then Some PDZ else None.

Definition x0 : id := 1%positive.                       (* placeholder of the argument *)
Definition smallz : Q := (28 # 1000000000000000000000000000000000000000000000000000000000000000000000000000000000000000000000000000000000)%Q.   (* 2.8E-103 *)
Definition X0 : expr := Sym x0.
Definition pw2 (c : cond) (a b : expr) : expr := PwCons c a (PwCons CTrue b PwNil).
Definition log10_of (a : expr) : expr := Div (Fn1 F_LOG a) (Fn1 F_LOG (Num 10)).

(* funcs.py: PEXP, PLOG, LOG10, PLOG10, PSQRT, PNG, PHE, PNP, PZR, PDZ *)
Definition template (p : prot) : expr :=
  match p with
  | PEXP => pw2 (CRel OGt X0 (Num 100)) (Fn1 F_EXP (Num 100)) (Fn1 F_EXP X0)
  | PLOG => pw2 (CRel OLt X0 (Num smallz)) (Fn1 F_LOG (Num smallz)) (Fn1 F_LOG X0)
  | LOG10 => log10_of X0
  | PLOG10 => pw2 (CRel OLt X0 (Num smallz)) (log10_of (Num smallz)) (log10_of X0)
  | PSQRT => pw2 (CRel OLt X0 (Num 0)) (Num 0) (Fn1 F_SQRT X0)
  | PNG => pw2 (CRel OLt X0 (Num 0)) (Num 0) X0
  | PHE => pw2 (CRel OGt X0 (Num 100)) (Num 100) X0
  | PNP => pw2 (CRel OLt X0 (Num smallz)) (Num smallz) X0
  | PZR => pw2 (CRel OLt (Fn1 F_ABS X0) (Num smallz)) (Num smallz) X0
  | PDZ => pw2 (CRel OLt (Fn1 F_ABS X0) (Num smallz)) (Div (Num 1) (Num smallz)) (Div (Num 1) X0)
  end.

Fixpoint read_expr (e : expr) : expr :=
  match e with
  | Num q => Num q
  | Sym s => Sym s
  | Fn1 f a => match prot_of_id f with
               | Some p => subs x0 (read_expr a) (template p)
               | None => Fn1 f (read_expr a)
               end
  | Fn2 f a b => Fn2 (read_fn2 f) (read_expr a) (read_expr b)
  | Add a b => Add (read_expr a) (read_expr b)
  | Mul a b => Mul (read_expr a) (read_expr b)
  | Neg a => Neg (read_expr a)
  | Div a b => Div (read_expr a) (read_expr b)
  | PwNil => PwNil
  | PwCons c a rest => PwCons (read_cond c) (read_expr a) (read_expr rest)
  end
with read_cond (c : cond) : cond :=
  match c with
  | CTrue => CTrue
  | CFalse => CFalse
  | CRel o a b => CRel o (read_expr a) (read_expr b)
  | CAnd a b => CAnd (read_cond a) (read_cond b)
  | COr a b => COr (read_cond a) (read_cond b)
  | CNot a => CNot (read_cond a)
  end.

(* SPECIFICATION of the protected functions: an interpretation of the function symbols respects
   the protection rules when every protected symbol equals its clamp rule over the base functions *)
Definition protected_spec (fi : finterp) : Prop :=
  forall f p x, prot_of_id f = Some p ->
    fi1 fi f x = eval (upd (fun _ => None) x0 (Some x)) fi (template p).

Fixpoint read_stmt (s : nmstmt) : nmstmt :=
  match s with
  | NAssign x e => NAssign x (read_expr e)
  | NIf c x e => NIf (read_cond c) x (read_expr e)
  | NBlock brs els => NBlock (read_branches brs) (read_body els)
  end
with read_body (b : body) : body :=
  match b with BNil => BNil | BCons s tl => BCons (read_stmt s) (read_body tl) end
with read_branches (brs : branches) : branches :=
  match brs with BrNil => BrNil | BrCons c b tl => BrCons (read_cond c) (read_body b) (read_branches tl) end.

(* the whole reading of a code record: interpret the expressions, then build the statements *)
Definition read_code (p : body) : list stmt := translate (read_body p).

(* ------------------------------------------------------------------------------------------ *)
(* 3. guards                                                                                   *)
Fixpoint assigned_stmt (s : nmstmt) : list id :=
  match s with
  | NAssign x _ => [x]
  | NIf _ x _ => [x]
  | NBlock brs els => assigned_branches brs ++ assigned_body els
  end
with assigned_body (b : body) : list id :=
  match b with BNil => [] | BCons s tl => assigned_stmt s ++ assigned_body tl end
with assigned_branches (brs : branches) : list id :=
  match brs with BrNil => [] | BrCons _ b tl => assigned_body b ++ assigned_branches tl end.

(* g_flat: the branches of a block IF contain only plain assignments *)
Fixpoint flat_body (b : body) : bool :=
  match b with
  | BNil => true
  | BCons s tl => match s with NAssign _ _ => flat_body tl | _ => false end
  end.
Fixpoint flat_branches (brs : branches) : bool :=
  match brs with BrNil => true | BrCons _ b tl => flat_body b && flat_branches tl end.

Fixpoint nodup_p (l : list id) : bool :=
  match l with [] => true | x :: tl => negb (memp x tl) && nodup_p tl end.

(* g_once: no symbol is assigned twice inside one branch *)
Definition once_blocks (B : list block) : bool := forallb (fun b => nodup_p (map fst (snd b))) B.

(* g_cond_fresh: no condition of the construct reads a symbol assigned anywhere in the construct,
   and no right-hand side reads a symbol assigned in the construct other than its own target *)
Definition fresh_cond (A : list id) (lg : option cond) : bool :=
  match lg with Some c => negb (interp_nonempty (free_symsc c) A) | None => true end.
Definition fresh_asg (A : list id) (a : asg) : bool :=
  forallb (fun y => negb (memp y A) || Pos.eqb y (fst a)) (free_syms (snd a)).
Definition fresh_blocks (B : list block) : bool :=
  let A := lhs_all B in
  forallb (fun b => fresh_cond A (fst b) && forallb (fresh_asg A) (snd b)) B.

(* g_cover: a symbol assigned in some branch is assigned in every EARLIER branch too (otherwise
   the Piecewise built for it ignores the conditions of the earlier branches) — except in the one
   shape the code special-cases (a single empty IF branch followed by ELSE) *)
Fixpoint cover_blocks (B : list block) : bool :=
  match B with
  | [] => true
  | b :: tl => forallb (fun x => memp x (map fst (snd b))) (lhs_all tl) && cover_blocks tl
  end.
Definition special (brs : branches) : bool :=
  match branch_list brs with [(_, [])] => true | _ => false end.

Definition g_flat_stmt (s : nmstmt) : bool :=
  match s with NBlock brs els => flat_branches brs && flat_body els | _ => true end.
Definition g_once_stmt (s : nmstmt) : bool :=
  match s with NBlock brs els => once_blocks (blocks_of brs els) | _ => true end.
Definition g_fresh_stmt (s : nmstmt) : bool :=
  match s with NBlock brs els => fresh_blocks (blocks_of brs els) | _ => true end.
Definition g_cover_stmt (s : nmstmt) : bool :=
  match s with NBlock brs els => special brs || cover_blocks (blocks_of brs els) | _ => true end.

Fixpoint forall_body (f : nmstmt -> bool) (p : body) : bool :=
  match p with BNil => true | BCons s tl => f s && forall_body f tl end.

Definition g_flat (p : body) : bool := forall_body g_flat_stmt p.
Definition g_once (p : body) : bool := forall_body g_once_stmt p.
Definition g_cond_fresh (p : body) : bool := forall_body g_fresh_stmt p.
Definition g_cover (p : body) : bool := forall_body g_cover_stmt p.

Definition guard_stmt (s : nmstmt) : bool :=
  g_flat_stmt s && g_once_stmt s && g_fresh_stmt s && g_cover_stmt s.
Definition guard_code (p : body) : bool := g_flat p && g_once p && g_cond_fresh p && g_cover p.

(* the initial environment gives no value to a symbol the program assigns (THETA, ETA, EPS and
   data items are never assigned) *)
Definition fresh_env (r : env) (p : body) : Prop := forall v, In v (assigned_body p) -> r v = None.

(* ------------------------------------------------------------------------------------------ *)
(* 4. ADVAN / TRANS: NONMEM's definitions (SPECIFICATION, written from the NONMEM users guide,  *)
(*    PREDPP: "ADVANn", "TRANSn").  The code side (trans_table, advan_flows, advan_struct) is   *)
(*    regenerated from advan.py by harness/props/c01_tadvan.py on every run.                    *)
Inductive advan := A1 | A2 | A3 | A4 | A10 | A11 | A12.
Inductive trans := T1 | T2 | T3 | T4 | T5 | T6.
Inductive cname := CENTRAL | DEPOT | PERIPHERAL | PERIPHERAL1 | PERIPHERAL2 | OUTPUT.

Definition cname_eqb (a b : cname) : bool :=
  match a, b with
  | CENTRAL, CENTRAL | DEPOT, DEPOT | PERIPHERAL, PERIPHERAL | PERIPHERAL1, PERIPHERAL1
  | PERIPHERAL2, PERIPHERAL2 | OUTPUT, OUTPUT => true
  | _, _ => false
  end.

(* symbols of the PK parameters (ids mirrored in harness/props/c01_tadvan.py: PK_SYMS; the
   generated file re-checks the numbering) *)
Definition s_K : id := 101%positive.     Definition s_KA : id := 102%positive.
Definition s_K12 : id := 103%positive.   Definition s_K21 : id := 104%positive.
Definition s_K13 : id := 105%positive.   Definition s_K31 : id := 106%positive.
Definition s_K23 : id := 107%positive.   Definition s_K32 : id := 108%positive.
Definition s_K24 : id := 109%positive.   Definition s_K42 : id := 110%positive.
Definition s_CL : id := 111%positive.    Definition s_V : id := 112%positive.
Definition s_Q : id := 113%positive.     Definition s_VSS : id := 114%positive.
Definition s_V1 : id := 115%positive.    Definition s_V2 : id := 116%positive.
Definition s_V3 : id := 117%positive.    Definition s_V4 : id := 118%positive.
Definition s_Q2 : id := 119%positive.    Definition s_Q3 : id := 120%positive.
Definition s_Q4 : id := 121%positive.    Definition s_AOB : id := 122%positive.
Definition s_ALPHA : id := 123%positive. Definition s_BETA : id := 124%positive.
Definition s_GAMMA : id := 125%positive. Definition s_VM : id := 126%positive.
Definition s_KM : id := 127%positive.
(* amounts A_<NAME>(t) *)
Definition s_A_CENTRAL : id := 131%positive.     Definition s_A_DEPOT : id := 132%positive.
Definition s_A_PERIPHERAL : id := 133%positive.  Definition s_A_PERIPHERAL1 : id := 134%positive.
Definition s_A_PERIPHERAL2 : id := 135%positive.
(* scaling, lag, bioavailability *)
Definition s_SC : id := 140%positive.
Definition s_S (n : nat) : id := Pos.of_nat (140 + n).        (* S1 .. S5 : 141 .. 145; S0 : 150 *)
Definition s_S0 : id := 150%positive.
Definition s_ALAG (n : nat) : id := Pos.of_nat (150 + n).     (* 151 .. 155 *)
Definition s_F (n : nat) : id := Pos.of_nat (160 + n).        (* 161 .. 165 *)

Definition amount_of (c : cname) : id :=
  match c with
  | CENTRAL => s_A_CENTRAL | DEPOT => s_A_DEPOT | PERIPHERAL => s_A_PERIPHERAL
  | PERIPHERAL1 => s_A_PERIPHERAL1 | PERIPHERAL2 => s_A_PERIPHERAL2 | OUTPUT => 1%positive
  end.

Definition Sub (a b : expr) : expr := Add a (Neg b).
Definition V (s : id) : expr := Sym s.

(* a flow: (from compartment number, to compartment number (0 = output), rate constant) *)
Definition flow := (nat * nat * expr)%type.

(* the input parameters of each TRANS (what $PK has to define) *)
Definition trans_inputs (a : advan) (t : trans) : option (list id) :=
  match a, t with
  | A1, T1 => Some [s_K]
  | A1, T2 => Some [s_CL; s_V]
  | A2, T1 => Some [s_K; s_KA]
  | A2, T2 => Some [s_CL; s_V; s_KA]
  | A3, T1 => Some [s_K; s_K12; s_K21]
  | A3, T3 => Some [s_CL; s_V; s_Q; s_VSS]
  | A3, T4 => Some [s_CL; s_V1; s_Q; s_V2]
  | A3, T5 => Some [s_AOB; s_ALPHA; s_BETA]
  | A3, T6 => Some [s_ALPHA; s_BETA; s_K21]
  | A4, T1 => Some [s_K; s_K23; s_K32; s_KA]
  | A4, T3 => Some [s_CL; s_V; s_Q; s_VSS; s_KA]
  | A4, T4 => Some [s_CL; s_V2; s_Q; s_V3; s_KA]
  | A4, T5 => Some [s_AOB; s_ALPHA; s_BETA; s_KA]
  | A4, T6 => Some [s_ALPHA; s_BETA; s_K32; s_KA]
  | A10, T1 => Some [s_VM; s_KM]
  | A11, T1 => Some [s_K; s_K12; s_K21; s_K13; s_K31]
  | A11, T4 => Some [s_CL; s_V1; s_Q2; s_V2; s_Q3; s_V3]
  | A11, T6 => Some [s_ALPHA; s_BETA; s_GAMMA; s_K21; s_K31]
  | A12, T1 => Some [s_K; s_K23; s_K32; s_K24; s_K42; s_KA]
  | A12, T4 => Some [s_CL; s_V2; s_Q3; s_V3; s_Q4; s_V4; s_KA]
  | A12, T6 => Some [s_ALPHA; s_BETA; s_GAMMA; s_K32; s_K42; s_KA]
  | _, _ => None                               (* not a TRANS of that ADVAN *)
  end.

(* two-compartment micro constants from the TRANS parameters; c = central, p = peripheral *)
Definition two_cmt (t : trans) (kcp_in kpc_in vc vp : id) : option (expr * expr * expr) :=   (* K, Kcp, Kpc *)
  match t with
  | T1 => Some (V s_K, V kcp_in, V kpc_in)
  | T3 => Some (Div (V s_CL) (V s_V), Div (V s_Q) (V s_V), Div (V s_Q) (Sub (V s_VSS) (V s_V)))
  | T4 => Some (Div (V s_CL) (V vc), Div (V s_Q) (V vc), Div (V s_Q) (V vp))
  | T5 => let kpc := Div (Add (Mul (V s_AOB) (V s_BETA)) (V s_ALPHA)) (Add (V s_AOB) (Num 1)) in
          let k := Div (Mul (V s_ALPHA) (V s_BETA)) kpc in
          Some (k, Sub (Sub (Add (V s_ALPHA) (V s_BETA)) kpc) k, kpc)
  | T6 => let kpc := V kpc_in in
          let k := Div (Mul (V s_ALPHA) (V s_BETA)) kpc in
          Some (k, Sub (Sub (Add (V s_ALPHA) (V s_BETA)) kpc) k, kpc)
  | T2 => None
  end.

(* three-compartment micro constants; inputs of TRANS6: ALPHA BETA GAMMA and the two return constants *)
Definition three_cmt (t : trans) (k12 k21 k13 k31 vc q2 v2 q3 v3 : id)
  : option (expr * expr * expr * expr * expr) :=                      (* K, K12, K21, K13, K31 *)
  match t with
  | T1 => Some (V s_K, V k12, V k21, V k13, V k31)
  | T4 => Some (Div (V s_CL) (V vc), Div (V q2) (V vc), Div (V q2) (V v2), Div (V q3) (V vc), Div (V q3) (V v3))
  | T6 =>
      let al := V s_ALPHA in let be := V s_BETA in let ga := V s_GAMMA in
      let r21 := V k21 in let r31 := V k31 in
      let sum := Add (Add al be) ga in
      let prod2 := Add (Add (Mul al be) (Mul al ga)) (Mul be ga) in
      let k := Div (Mul (Mul al be) ga) (Mul r21 r31) in
      let r13 := Div (Sub (Sub (Add prod2 (Mul r31 r31)) (Mul r31 sum)) (Mul k r21)) (Sub r21 r31) in
      let r12 := Sub (Sub (Sub (Sub sum k) r13) r21) r31 in
      Some (k, r12, r21, r13, r31)
  | _ => None
  end.

Definition nonmem_flows (a : advan) (t : trans) : option (list flow) :=
  match a with
  | A1 => match t with
          | T1 => Some [(1, 0, V s_K)]
          | T2 => Some [(1, 0, Div (V s_CL) (V s_V))]
          | _ => None end
  | A2 => match t with
          | T1 => Some [(1, 2, V s_KA); (2, 0, V s_K)]
          | T2 => Some [(1, 2, V s_KA); (2, 0, Div (V s_CL) (V s_V))]
          | _ => None end
  | A3 => match two_cmt t s_K12 s_K21 s_V1 s_V2 with
          | Some (k, k12, k21) => Some [(1, 0, k); (1, 2, k12); (2, 1, k21)]
          | None => None end
  | A4 => match two_cmt t s_K23 s_K32 s_V2 s_V3 with
          | Some (k, k23, k32) => Some [(1, 2, V s_KA); (2, 0, k); (2, 3, k23); (3, 2, k32)]
          | None => None end
  | A10 => match t with
           | T1 => Some [(1, 0, Div (V s_VM) (Add (V s_KM) (V s_A_CENTRAL)))]
           | _ => None end
  | A11 => match three_cmt t s_K12 s_K21 s_K13 s_K31 s_V1 s_Q2 s_V2 s_Q3 s_V3 with
           | Some (k, k12, k21, k13, k31) => Some [(1, 0, k); (1, 2, k12); (2, 1, k21); (1, 3, k13); (3, 1, k31)]
           | None => None end
  | A12 => match three_cmt t s_K23 s_K32 s_K24 s_K42 s_V2 s_Q3 s_V3 s_Q4 s_V4 with
           | Some (k, k23, k32, k24, k42) =>
               Some [(1, 2, V s_KA); (2, 0, k); (2, 3, k23); (3, 2, k32); (2, 4, k24); (4, 2, k42)]
           | None => None end
  end.

(* compartment numbering, default dose and default observation compartment *)
Record astruct := mkStruct {
  st_map : list (cname * nat);
  st_dose : nat;
  st_obs : nat
}.

Definition nonmem_struct (a : advan) : astruct :=
  match a with
  | A1 | A10 => mkStruct [(CENTRAL, 1); (OUTPUT, 2)] 1 1
  | A2 => mkStruct [(DEPOT, 1); (CENTRAL, 2); (OUTPUT, 3)] 1 2
  | A3 => mkStruct [(CENTRAL, 1); (PERIPHERAL, 2); (OUTPUT, 3)] 1 1
  | A4 => mkStruct [(DEPOT, 1); (CENTRAL, 2); (PERIPHERAL, 3); (OUTPUT, 4)] 1 2
  | A11 => mkStruct [(CENTRAL, 1); (PERIPHERAL1, 2); (PERIPHERAL2, 3); (OUTPUT, 4)] 1 1
  | A12 => mkStruct [(DEPOT, 1); (CENTRAL, 2); (PERIPHERAL1, 3); (PERIPHERAL2, 4); (OUTPUT, 5)] 1 2
  end.

(* what the translator reads off one `if advan == ...` branch of _compartmental_model *)
Record comp_decl := mkComp {
  cd_name : cname;
  cd_dose : option nat;      (* find_dose(doses, comp_number=n); None for doses=tuple() *)
  cd_alag : nat;             (* _get_alag(control_stream, n) *)
  cd_bio : nat               (* _get_bioavailability(control_stream, n) *)
}.
Record code_struct := mkCode {
  cs_comps : list comp_decl;           (* in add_compartment order *)
  cs_map : list (cname * nat);         (* comp_map *)
  cs_defdose : nat;                    (* dosing(di, dataset, n) *)
  cs_obs : cname * nat                 (* _f_link_assignment(..., compartment, n) *)
}.

Fixpoint map_lookup (m : list (cname * nat)) (c : cname) : option nat :=
  match m with
  | [] => None
  | (k, n) :: tl => if cname_eqb k c then Some n else map_lookup tl c
  end.

Definition onat_eqb (a b : option nat) : bool :=
  match a, b with Some x, Some y => Nat.eqb x y | None, None => true | _, _ => false end.

Definition map_eqb (a b : list (cname * nat)) : bool :=
  list_eqb (fun p q => cname_eqb (fst p) (fst q) && Nat.eqb (snd p) (snd q)) a b.

(* the code's structure implements NONMEM's: same numbering; every declared compartment uses its
   own number for ALAGn / Fn / the dose lookup; default dose and observation compartments agree *)
Definition struct_ok (c : code_struct) (s : astruct) : bool :=
  map_eqb (cs_map c) (st_map s) &&
  forallb (fun d => match map_lookup (cs_map c) (cd_name d) with
                    | Some n => Nat.eqb (cd_alag d) n && Nat.eqb (cd_bio d) n &&
                                match cd_dose d with Some k => Nat.eqb k n | None => true end
                    | None => false
                    end) (cs_comps c) &&
  Nat.eqb (length (cs_comps c) + 1) (length (cs_map c)) &&
  Nat.eqb (cs_defdose c) (st_dose s) &&
  onat_eqb (map_lookup (cs_map c) (fst (cs_obs c))) (Some (snd (cs_obs c))) &&
  Nat.eqb (snd (cs_obs c)) (st_obs s) &&
  (* the default dose compartment can receive a dose *)
  existsb (fun d => onat_eqb (cd_dose d) (Some (st_dose s))) (cs_comps c).

(* flows as a canonical (sorted by from, to) list, compared by evaluation *)
Definition flow_key_ltb (a b : flow) : bool :=
  let '(i, j, _) := a in let '(k, l, _) := b in (i <? k) || ((i =? k) && (j <? l)).
Fixpoint insert_flow (f : flow) (l : list flow) : list flow :=
  match l with
  | [] => [f]
  | g :: tl => if flow_key_ltb f g then f :: l else g :: insert_flow f tl
  end.
Definition sort_flows (l : list flow) : list flow := fold_right insert_flow [] l.

Definition eval_flows (r : env) (fi : finterp) (l : list flow) : list (nat * nat * option Q) :=
  map (fun f => (fst (fst f), snd (fst f), eval r fi (snd f))) (sort_flows l).

(* TRANS choices for which the code's table is claimed correct; TRANS5 / TRANS6 are excluded
   (their expressions mention rate constants nothing defines: finding C01-TRANS56-UNDEFINED) *)
Definition supported (a : advan) (t : trans) : bool :=
  match trans_inputs a t, t with
  | Some _, T5 | Some _, T6 => false
  | Some _, _ => true
  | None, _ => false
  end.

(* the environment defines exactly the TRANS inputs (and the amounts) *)
Definition only_inputs (a : advan) (t : trans) (m : list (id * Q)) : bool :=
  match trans_inputs a t with
  | Some ins => forallb (fun p => memp (fst p) (s_A_CENTRAL :: ins)) m &&
                forallb (fun x => existsb (fun p => Pos.eqb (fst p) x) m) ins
  | None => false
  end.

(* ------------------------------------------------------------------------------------------ *)
(* 5. _find_rates: the name of a rate constant in $PK of a general linear model (ADVAN5/7)      *)
(*    K{i}{j} with one digit each, K{i}T{j}, three digits by the ambiguity rule, four digits    *)
(*    two and two; "to 0" means the output compartment ncomps.                                  *)
Inductive rate_name :=
| RPlain (digits : list nat)          (* K followed by decimal digits *)
| RT (from to : nat).                 (* K<from>T<to> *)

Inductive rate_res := RFlow (from to : nat) | RSkip | RAmbiguous | RError.

Definition num2 (a b : nat) : nat := 10 * a + b.

Definition find_rate (n : rate_name) (ncomps : nat) : rate_res :=
  let fin (f t : nat) := RFlow f (if t =? 0 then ncomps else t) in
  match n with
  | RT f t => fin f t
  | RPlain [a; b] => fin a b
  | RPlain [a; b; c] =>
      let f1 := a in let t1 := num2 b c in
      let f2 := num2 a b in let t2 := c in
      let q1 := (f1 <=? ncomps) && (t1 <=? ncomps) && negb (t1 =? 0) in
      let q2 := (f2 <=? ncomps) && (t2 <=? ncomps) in
      if q1 && q2 then RAmbiguous
      else if q1 then fin f1 t1
      else if q2 then fin f2 t2
      else RSkip
  | RPlain [a; b; c; d] => fin (num2 a b) (num2 c d)
  | RPlain _ => RError
  end.

(* how NM-TRAN writes the rate constant from compartment i to j (j = 0: output) when both are
   below 10, and the always unambiguous T form *)
Definition rate_name_short (i j : nat) : rate_name := RPlain [i; j].
Definition rate_name_t (i j : nat) : rate_name := RT i j.

(* the name NM-TRAN style code uses for the rate constant from compartment i to j (0 = output):
   the decimal digits of i followed by those of j (i, j < 100) *)
Definition digits_of (k : nat) : list nat := if k <? 10 then [k] else [k / 10; k mod 10].
Definition rate_name_of (i j : nat) : rate_name := RPlain (digits_of i ++ digits_of j).

(* the three-digit forms have a second reading; the name is usable when that reading is not a
   valid pair of compartment numbers *)
Definition unambiguous (i j n : nat) : bool :=
  if (i <? 10) && (10 <=? j) then negb ((num2 i (j / 10) <=? n) && (j mod 10 <=? n))
  else if (10 <=? i) && (j <? 10) then
    negb ((i / 10 <=? n) && (num2 (i mod 10) j <=? n) && negb (num2 (i mod 10) j =? 0))
  else true.

(* ------------------------------------------------------------------------------------------ *)
(* 6. parsing.py: parameters_from_blocks / rvs_from_blocks on the blocks returned by            *)
(*    OmegaRecord.parse(): (names, inits, fix, same)  (names only matter for naming)            *)
Record oblock := mkOB { ob_inits : list Q; ob_fix : bool; ob_same : bool }.
Record oparam := mkOP { op_row : nat; op_col : nat; op_init : Q; op_fix : bool }.

(* for i, name in enumerate(names): ... if row == col: row += 1; col = block_row  else: col += 1 *)
Fixpoint walk (block_row row col : nat) (inits : list Q) (fx : bool) : list oparam * nat * nat :=
  match inits with
  | [] => ([], row, col)
  | v :: tl =>
      let next := if row =? col then (S row, block_row) else (row, S col) in
      let '(ps, r, c) := walk block_row (fst next) (snd next) tl fx in
      (mkOP row col v fx :: ps, r, c)
  end.

(* None = ModelSyntaxError("First ... block cannot be SAME") *)
Fixpoint params_from (row col : nat) (prev : option nat) (bs : list oblock) : option (list oparam) :=
  match bs with
  | [] => Some []
  | b :: tl =>
      if ob_same b then
        match prev with
        | None => None
        | Some k => params_from (row + k) (col + k) prev tl
        end
      else
        let '(ps, r, c) := walk row row row (ob_inits b) (ob_fix b) in
        option_map (app ps) (params_from r c (Some (r - row)) tl)
  end.
Definition parameters_from_blocks (bs : list oblock) : option (list oparam) := params_from 1 1 None bs.

(* triangular_root(x) = math.floor(math.sqrt(2 * x))  (= n when x = n(n+1)/2) *)
Definition triangular_root (k : nat) : nat := Nat.sqrt (2 * k).

Inductive level := IIV | IOV | RUV.
(* one distribution: the eta numbers it covers, its level, and its covariance given as indices
   into the parameter list (lower triangle, row by row); a SAME block repeats the previous one *)
Record rvdist := mkRV { rv_etas : list nat; rv_level : level; rv_cov : list nat }.

Definition next_same (tl : list oblock) : bool := match tl with b :: _ => ob_same b | [] => false end.

Fixpoint rvs_from (is_eps : bool) (eta_index pidx n : nat) (prev_cov : list nat) (bs : list oblock) : list rvdist :=
  match bs with
  | [] => []
  | b :: tl =>
      let n' := if ob_same b then n else triangular_root (length (ob_inits b)) in
      let lvl := if is_eps then RUV else if ob_same b || next_same tl then IOV else IIV in
      let cov := if ob_same b then prev_cov else seq pidx (length (ob_inits b)) in
      let pidx' := if ob_same b then pidx else pidx + length (ob_inits b) in
      mkRV (seq eta_index n') lvl cov :: rvs_from is_eps (eta_index + n') pidx' n' cov tl
  end.
Definition rvs_from_blocks (is_eps : bool) (bs : list oblock) : list rvdist := rvs_from is_eps 1 0 0 [] bs.

(* SPECIFICATION: the positions of a full lower triangle of size n whose first row is r0 *)
Definition tri_positions (r0 n : nat) : list (nat * nat) :=
  flat_map (fun i => map (fun j => (r0 + i, r0 + j)) (seq 0 (S i))) (seq 0 n).

(* ------------------------------------------------------------------------------------------ *)
(* 7. OmegaRecord.parse: the numeric forms of a BLOCK record (and of a DIAGONAL item)           *)
(*    A lower triangle is a list of rows, row i having i + 1 entries.                           *)
Local Open Scope Q_scope.
Inductive oform := FVarCov | FSdCov | FVarCorr | FSdCorr | FChol.
Inductive ores := OOk (inits : list Q) | OSyntaxError | OInternalError.

(* fix, sd, corr, cholesky = self._block_flags();  `if not cholesky: ... else: L @ L.T` *)
Definition form_of_flags (sd corr chol : bool) : oform :=
  if chol then FChol
  else match sd, corr with
       | false, false => FVarCov | true, false => FSdCov | false, true => FVarCorr | true, true => FSdCorr
       end.

Definition tget (rows : list (list Q)) (i j : nat) : Q := nth j (nth i rows []) 0.
Definition tri_build (n : nat) (f : nat -> nat -> Q) : list (list Q) :=
  map (fun i => map (fun j => f i j) (seq 0 (S i))) (seq 0 n).

(* flattened_to_symmetric(inits): cut the flat list into rows of length 1, 2, ..., n *)
Fixpoint unflatten (i n : nat) (flat : list Q) : list (list Q) :=
  match n with
  | O => []
  | S m => firstn (S i) flat :: unflatten (S i) m (skipn (S i) flat)
  end.

Fixpoint qsum (l : list Q) : Q := match l with [] => 0 | x :: tl => x + qsum tl end.

Section OmegaForms.
  Variable sqrt : Q -> Q.

  (* entry (i, j), j <= i, of the matrix A after the in-place conversions of parse():
       if corr: A[i,j] = (A[i,i]*A[j,j] if sd else sqrt(A[i,i])*sqrt(A[j,j])) * A[i,j]   (i != j)
       if sd:   diagonal squared
       cholesky: (L @ L.T)[i,j] = sum_k L[i,k]*L[j,k]  (L is lower triangular: k <= j suffices) *)
  Definition parse_entry (f : oform) (rows : list (list Q)) (i j : nat) : Q :=
    let a := tget rows in
    match f with
    | FVarCov => a i j
    | FSdCov => if Nat.eqb i j then a i i * a i i else a i j
    | FVarCorr => if Nat.eqb i j then a i i else sqrt (a i i) * sqrt (a j j) * a i j
    | FSdCorr => if Nat.eqb i j then a i i * a i i else a i i * a j j * a i j
    | FChol => qsum (map (fun k => a i k * a j k) (seq 0 (S j)))
    end.

  Definition parse_form (f : oform) (rows : list (list Q)) : list (list Q) :=
    tri_build (length rows) (parse_entry f rows).

  (* the inits of the block returned by parse().  OSyntaxError = ModelSyntaxError('Wrong number of inits
     in BLOCK'); a non-triangular number of inits with size = floor(sqrt(2*len)) passes that test and fails
     inside numpy (ValueError: shape mismatch) = OInternalError *)
  Definition omega_block_parse (size : nat) (sd corr chol : bool) (vals : list Q) : ores :=
    if negb (Nat.eqb size (triangular_root (length vals))) then OSyntaxError
    else if negb (Nat.eqb (size * (size + 1) / 2) (length vals)) then OInternalError
    else OOk (concat (parse_form (form_of_flags sd corr chol) (unflatten 0 size vals))).

  (* a DIAGONAL item: if sd: init = init**2 *)
  Definition diag_item_parse (sd : bool) (v : Q) : Q := if sd then v * v else v.

  (* SPECIFICATION (NONMEM users guide, $OMEGA: VARIANCE|STANDARD, COVARIANCE|CORRELATION, CHOLESKY):
     the covariance matrix a record denotes, as a function of the FULL symmetric matrix M of the
     values written (M i j for any i, j < n) *)
  Definition nm_cov (f : oform) (n : nat) (M : nat -> nat -> Q) (i j : nat) : Q :=
    match f with
    | FVarCov => M i j
    | FSdCov => if Nat.eqb i j then M i i * M i i else M i j                        (* sd on the diagonal, covariances off it *)
    | FVarCorr => if Nat.eqb i j then M i i else M i j * (sqrt (M i i) * sqrt (M j j))  (* cov = r * sd_i * sd_j *)
    | FSdCorr => if Nat.eqb i j then M i i * M i i else M i j * (M i i * M j j)
    | FChol => (* M holds L (zero above the diagonal): Sigma = L * L^T, full sums *)
        qsum (map (fun k => (if (k <=? i)%nat then M i k else 0) * (if (k <=? j)%nat then M j k else 0)) (seq 0 n))
    end.

  (* how a covariance matrix S (lower triangle, positive diagonal) is written in form f *)
  Definition encode_entry (f : oform) (S : list (list Q)) (i j : nat) : Q :=
    let s := tget S in
    match f with
    | FVarCov | FChol => s i j
    | FSdCov => if Nat.eqb i j then sqrt (s i i) else s i j
    | FVarCorr => if Nat.eqb i j then s i i else s i j / (sqrt (s i i) * sqrt (s j j))
    | FSdCorr => if Nat.eqb i j then sqrt (s i i) else s i j / (sqrt (s i i) * sqrt (s j j))
    end.
  Definition encode (f : oform) (S : list (list Q)) : list (list Q) := tri_build (length S) (encode_entry f S).
End OmegaForms.

Definition sym_of (rows : list (list Q)) (i j : nat) : Q := if (j <=? i)%nat then tget rows i j else tget rows j i.

(* executable square root for the correspondence: exact on rational squares (Base/Interp.v) *)
Definition sqrt_exact (x : Q) : Q := match q_sqrt x with Some y => y | None => 0 end.
Local Close Scope Q_scope.
