(* PV.C01.Properties — the property theorems of C01 and nothing else.
   (The ADVAN/TRANS table obligations are REGENERATED from advan.py on every run into
   build/gen/C01/AdvanObligations.v and compiled there; see harness/props/c01_tadvan.py.) *)
From Coq Require Import QArith List Bool PArith Arith.
From PV Require Import Base.PyData Base.Expr Base.Stmts C01.Model C01.Proofs C01.ProofsRates C01.ProofsParams C01.ProofsOmega C01.Parser C01.ParserProofs C01.Des C01.ProofsDes C01.PrecPrinter C01.ProofsPrec C01.ProofsPrecLen.
Local Open Scope nat_scope.

(* Reading abbreviated code preserves its meaning.  For EVERY program (any length, any nesting,
   any expressions), every interpretation of the function symbols, every ODE oracle and every
   initial environment that gives no value to the symbols the program assigns: if the program
   satisfies the four decidable guards and the NM-TRAN reference semantics gives it a meaning
   (every condition that has to be evaluated is defined), then executing the statements produced by
   the model of _parse_tree yields exactly the reference environment — for every symbol. *)
Theorem translate_sound :
  forall (fi : finterp) (ode : id -> list (option Q) -> option Q) (p : body) (r r' : env),
    guard_code p = true -> fresh_env r p -> nm_body fi r p = Some r' ->
    forall v, exec fi ode r (translate p) v = r' v.
Proof. exact translate_sound_lemma. Qed.

(* Reading a code record = interpreting every expression with ExpressionInterpreter's function
   table (LOG10 and the protected functions PEXP, PLOG, PLOG10, PSQRT, PNG, PHE, PNP, PZR, PDZ are
   expanded into their clamp rule, MOD keeps its Fortran meaning), then building the statements.
   For every interpretation of the function symbols that respects the protection rules
   ([protected_spec]: each protected symbol equals its rule over EXP/LOG/SQRT/ABS), every program,
   every environment: the statements read evaluate like the NM-TRAN reference semantics of the
   ORIGINAL program (protected functions as symbols), under the four block-IF guards. *)
Theorem read_code_sound :
  forall (fi : finterp) (ode : id -> list (option Q) -> option Q) (p : body) (r r' : env),
    protected_spec fi ->
    guard_code (read_body p) = true -> fresh_env r p -> nm_body fi r p = Some r' ->
    forall v, exec fi ode r (read_code p) v = r' v.
Proof.
  intros fi ode p r r' Hs Hg Hf Hnm. apply (read_code_sound_lemma fi Hs ode p r r' Hg); [|exact Hnm].
  apply read_fresh_env. exact Hf.
Qed.

(* expanding the protected functions does not change the value of any expression or condition *)
Theorem read_expr_sound :
  forall (fi : finterp), protected_spec fi ->
    (forall e r, eval r fi (read_expr e) = eval r fi e) /\ (forall c r, evalc r fi (read_cond c) = evalc r fi c).
Proof. exact read_eval. Qed.

(* The translation invents no symbol: every statement it emits assigns a symbol the program assigns. *)
Theorem translate_targets :
  forall (p : body) (x : id), In x (lhs_of (translate p)) -> In x (assigned_body p).
Proof. exact translate_targets_lemma. Qed.

(* ... and under g_flat it emits an assignment for every symbol the program assigns. *)
Theorem translate_targets_complete :
  forall (p : body) (x : id), g_flat p = true -> In x (assigned_body p) -> In x (lhs_of (translate p)).
Proof. exact translate_targets_complete_lemma. Qed.

(* The reference semantics only changes symbols the program assigns. *)
Theorem nm_frame :
  forall (fi : finterp) (p : body) (r r' : env) (v : id),
    nm_body fi r p = Some r' -> ~ In v (assigned_body p) -> r' v = r v.
Proof. exact nm_frame_lemma. Qed.

(* _find_rates (general linear models, ADVAN5/7): the rate constant from compartment i to j
   (j = 0: the output compartment, numbered n) written as K followed by the digits of i and of j
   is read back as the flow i -> j, for every number of compartments below 100, whenever the
   three-digit form has no second valid reading ... *)
Theorem find_rates_roundtrip :
  forall i j n, 1 <= i -> i <= n -> j <= n -> n < 100 -> unambiguous i j n = true ->
    find_rate (rate_name_of i j) n = RFlow i (if j =? 0 then n else j).
Proof. exact find_rates_roundtrip_lemma. Qed.

(* ... when it has one, the name is refused (ModelSyntaxError), never silently misread ... *)
Theorem find_rates_ambiguous_refused :
  forall i j n, 1 <= i -> i <= n -> 1 <= j -> j <= n -> n < 100 -> unambiguous i j n = false ->
    find_rate (rate_name_of i j) n = RAmbiguous.
Proof. exact find_rates_ambiguous_lemma. Qed.

(* ... and the KiTj notation is always read as written. *)
Theorem find_rates_t_form :
  forall i j n, find_rate (RT i j) n = RFlow i (if j =? 0 then n else j).
Proof. exact find_rate_t_lemma. Qed.

(* parameters_from_blocks, one block: if the initial values are a lower triangle of size n given row
   by row (any n), the walk starting at row r0 hands out exactly the positions OMEGA(r, c) of the
   lower triangle r0 <= c <= r < r0 + n in row-major order, keeps the values in order, and the next
   block starts at row r0 + n. *)
Theorem omega_positions :
  forall (rows : list (list Q)) (r0 : nat) (fx : bool),
    tri_rows 0 rows ->
    let '(ps, r, c) := walk r0 r0 r0 (concat rows) fx in
    map (fun p => (op_row p, op_col p)) ps = tri_positions r0 (length rows) /\
    map op_init ps = concat rows /\ r = r0 + length rows /\ c = r0.
Proof. exact omega_positions_lemma. Qed.

(* a SAME block adds no parameter and moves on by the size of the previous block; a leading SAME is refused *)
Theorem params_same_skips :
  forall row col k b tl, ob_same b = true ->
    params_from row col (Some k) (b :: tl) = params_from (row + k) (col + k) (Some k) tl.
Proof. exact params_same_lemma. Qed.

Theorem params_first_same_refused :
  forall b tl, ob_same b = true -> parameters_from_blocks (b :: tl) = None.
Proof. exact params_first_same_lemma. Qed.

(* rvs_from_blocks numbers the etas consecutively, whatever the blocks are *)
Theorem rvs_eta_count :
  forall (is_eps : bool) (bs : list oblock),
    concat (map rv_etas (rvs_from_blocks is_eps bs)) =
    seq 1 (length (concat (map rv_etas (rvs_from_blocks is_eps bs)))).
Proof. intros. apply rvs_etas_consecutive. Qed.

(* a SAME block repeats the previous block: same covariance parameters, same number of etas, the next eta numbers *)
Theorem same_repeats_previous :
  forall is_eps e p n pc b1 b2 tl d1 d2 rest,
    rvs_from is_eps e p n pc (b1 :: b2 :: tl) = d1 :: d2 :: rest -> ob_same b2 = true ->
    rv_cov d2 = rv_cov d1 /\ length (rv_etas d2) = length (rv_etas d1) /\
    rv_etas d2 = seq (e + length (rv_etas d1)) (length (rv_etas d1)).
Proof. exact same_repeats_previous_lemma. Qed.

(* $OMEGA / $SIGMA BLOCK records in the forms VARIANCE|STANDARD x COVARIANCE|CORRELATION.  For every
   function sqrt that is a square root on the non-negative rationals, every size and every
   covariance matrix S (lower triangle) with positive diagonal: writing S in form f (standard
   deviations on the diagonal and/or correlations off it) and reading the values back with the
   model of OmegaRecord.parse gives S again, entry by entry. *)
Theorem sdcorr_forms :
  forall (sqrt : Q -> Q),
    (forall x, (0 <= x)%Q -> (sqrt x * sqrt x == x)%Q) -> (forall x, (0 < x)%Q -> (0 < sqrt x)%Q) ->
    forall (f : oform) (S : list (list Q)),
      f <> FChol -> (forall i, i < length S -> (0 < tget S i i)%Q) ->
      forall i j, i < length S -> j <= i ->
        (tget (parse_form sqrt f (encode sqrt f S)) i j == tget S i j)%Q.
Proof. exact sdcorr_forms_lemma. Qed.

(* For every form, CHOLESKY included (the record holds L, the matrix is L * L^T with full sums),
   every lower triangle of written values and every sqrt, parse() computes NONMEM's definition
   nm_cov of the form on the full symmetric matrix of the written values. *)
Theorem parse_form_spec :
  forall (sqrt : Q -> Q) (f : oform) (rows : list (list Q)) (i j : nat),
    i < length rows -> j <= i ->
    (tget (parse_form sqrt f rows) i j == nm_cov sqrt f (length rows) (sym_of rows) i j)%Q.
Proof. exact parse_form_spec_lemma. Qed.

(* the matrix a record denotes is symmetric, and a CHOLESKY record has a non-negative diagonal *)
Theorem nm_cov_symmetric :
  forall (sqrt : Q -> Q) f n (M : nat -> nat -> Q) i j,
    (forall a b, M a b = M b a) -> (nm_cov sqrt f n M i j == nm_cov sqrt f n M j i)%Q.
Proof. exact nm_cov_symmetric_lemma. Qed.

Theorem cholesky_diag_nonneg :
  forall (sqrt : Q -> Q) n (M : nat -> nat -> Q) i, (0 <= nm_cov sqrt FChol n M i i)%Q.
Proof. exact cholesky_diag_nonneg_lemma. Qed.

(* REFERENCE PARSER.  Printing any well-formed program (expressions fully parenthesised; conditions in
   the .OR. of .AND. of [.NOT.] relation shape the concrete syntax has; blocks with at least one branch)
   to tokens and parsing the tokens with the reference parser gives the program back - every program,
   any nesting depth; the fuel parse_prog computes from the token count always suffices. *)
Theorem parse_print : forall p : body, wf_body p = true -> parse_prog (pr_body p) = Some p.
Proof. exact parse_print_lemma. Qed.

Theorem parse_print_expr : forall e : expr, wfe e = true -> p_add (need e + 6) (pr e) = Some (e, nil).
Proof. exact parse_print_expr_lemma. Qed.

(* $DES.  For EVERY system of differential equations DADT(a) = sum of terms +-k*A_x (any number of
   compartments and terms) that satisfies the decidable guard [des_guard] (distinct left-hand sides, loss
   terms in their own equation, every gain term has its loss term, distinct rate constants among what
   leaves one compartment), and every valuation of rate constants and amounts: the compartmental system
   that the model of to_compartmental_system builds (flows between compartments [des_flows], flows to
   output [des_outs]) has, for every compartment, exactly the written right-hand side as its differential
   equation  dA_a/dt = inflow - outflow - output. *)
Theorem des_sound :
  forall (eqs : list deq) (rho : id -> Q) (a : id) (ts : list dterm),
    des_guard eqs = true -> In (a, ts) eqs ->
    (sys_rhs rho (des_flows eqs) (des_outs eqs) a == terms_val rho ts)%Q.
Proof. intros eqs rho a ts Hg Hin. exact (des_sound_lemma eqs Hg rho a ts Hin). Qed.

(* in a guarded system every gain term +k*A_x is attributed to compartment x *)
Theorem des_flow_source :
  forall (eqs : list deq) (e : deq) (t : dterm),
    des_guard eqs = true -> In e eqs -> In t (snd e) -> dt_pos t = true ->
    find_from eqs (dt_k t) (dt_a t) = Some (dt_a t).
Proof. intros eqs e t Hg. exact (find_from_pos eqs Hg e t). Qed.

(* The MINIMAL-PARENTHESES (precedence) printer.  [prp lvl e] parenthesises an operand only where its
   precedence level requires it (a + b*c, -a**2, a**b**c, a/b*c, a - (b + c), (a + b)*c ...); prP_body prints
   programs with it.  For EVERY well-formed program (any size, any nesting) the reference parser, given at
   least 40 * bsize p units of fuel, reads the printed tokens back as the program itself; likewise for
   every well-formed expression.  (Uses the fuel monotonicity of the parser; parse_prog's own fuel
   24 * length + 24 is proved sufficient only for the fully parenthesising printer above.) *)
Theorem parse_print_prec :
  forall p : body, wf_body p = true -> forall n, 40 * bsize p <= n -> p_body n (prP_body p) = Some (p, nil).
Proof. exact parse_print_prec_lemma. Qed.

Theorem parse_print_prec_expr :
  forall e : expr, wfe e = true -> forall n, 40 * esize e + 6 <= n -> p_add n (prE e) = Some (e, nil).
Proof. exact parse_print_prec_expr_lemma. Qed.

(* more fuel never changes a successful parse (all seven mutually recursive parser functions) *)
Theorem parser_fuel_monotone : forall n, mono_at n.
Proof. exact mono_all. Qed.

(* ... and with the fuel that parse_prog computes itself from the token count (100 * length + 100): for EVERY
   well-formed program, parse_prog reads its minimal-parentheses text back as the program — the same statement
   as parse_print, now for the precedence printer, with no explicit fuel. *)
Theorem parse_print_prec_prog : forall p : body, wf_body p = true -> parse_prog (prP_body p) = Some p.
Proof. exact parse_print_prec_prog_lemma. Qed.
