(* PV.C10.ModelUnused — executable model of pharmpy.modeling.common._get_unused_parameters_and_rvs
   (the body of remove_unused_parameters_and_rvs) together with the pieces of RandomVariables it
   calls: Statements.free_symbols, RandomVariables.unjoin, the distributions' free_symbols.
   No proofs here.

   Abstraction: the function only looks at FREE SYMBOLS of means and variance entries and moves the
   entries around, so a matrix entry is represented by the list of its free symbols (a single parameter
   symbol in the usual case, [] for a literal 0).  A joint normal distribution is a list of rows
   (name, mean entry, row of the variance matrix); a covariance matrix is symmetric (guard [wf_rvs]
   where a theorem needs it). *)
From Coq Require Import QArith List Bool PArith Arith Lia.
From PV Require Import Base.PyData Base.Expr Base.Stmts.
Import ListNotations.
Local Open Scope nat_scope.

Record param := mkParam { p_sym : id; p_fix : bool; p_init : Q }.

Record jrow := mkRow { r_name : id; r_mean : list id; r_entries : list (list id) }.

Inductive dist :=
| Normal (n : id) (mean var : list id)
| Joint (rows : list jrow).

(* ---- Statements.free_symbols: union of Assignment.free_symbols (lhs included) and
   CompartmentalSystem.free_symbols (= rhs_symbols; the amounts are not in it) ------------------- *)
Definition stmt_free (st : stmt) : list id :=
  match st with Assign s e => s :: free_syms e | Ode _ r => r end.
Definition stmts_free (l : list stmt) : list id := flat_map stmt_free l.

(* set.isdisjoint *)
Definition disjointp (a b : list id) : bool := negb (interp_nonempty a b).

Definition dist_names (d : dist) : list id :=
  match d with Normal n _ _ => [n] | Joint rows => map r_name rows end.
Definition row_params (r : jrow) : list id := concat (r_entries r).
(* Distribution.free_symbols: mean, variance and the random variables themselves *)
Definition dist_free (d : dist) : list id :=
  match d with
  | Normal n m v => m ++ v ++ [n]
  | Joint rows => flat_map r_mean rows ++ flat_map row_params rows ++ map r_name rows
  end.
Definition rvs_names (rvs : list dist) : list id := flat_map dist_names rvs.
Definition rvs_free (rvs : list dist) : list id := flat_map dist_free rvs.

(* ---- "Find unused rvs needing unjoining": for every name of a joint distribution,
        params = dist.variance[i, :].free_symbols;
        if symb not in symbols and symbols.isdisjoint(params): to_unjoin.append(name) ------------ *)
Definition unjoin_test (S : list id) (r : jrow) : bool :=
  negb (memp (r_name r) S) && disjointp S (row_params r).
Definition to_unjoin_dist (S : list id) (d : dist) : list id :=
  match d with
  | Normal _ _ _ => []
  | Joint rows => map r_name (filter (unjoin_test S) rows)
  end.
Definition to_unjoin (S : list id) (rvs : list dist) : list id := flat_map (to_unjoin_dist S) rvs.

(* ---- RandomVariables.unjoin(inds) ------------------------------------------------------------- *)
Fixpoint select {A} (mask : list bool) (l : list A) : list A :=
  match mask, l with
  | b :: mt, x :: lt => if b then x :: select mt lt else select mt lt
  | _, _ => []
  end.

(* every row together with its diagonal entry variance[i, i] *)
Fixpoint with_diag (i : nat) (rows : list jrow) : list (jrow * list id) :=
  match rows with
  | [] => []
  | r :: tl => (r, nth i (r_entries r) []) :: with_diag (S i) tl
  end.

Definition unjoin_dist (U : list id) (d : dist) : list dist :=
  match d with
  | Normal _ _ _ => [d]
  | Joint rows =>
      if existsb (fun r => memp (r_name r) U) rows then
        (* "unjoin this": NormalDistribution(name, level, mean[i], variance[i, i]) *)
        let singles := map (fun rv => Normal (r_name (fst rv)) (r_mean (fst rv)) (snd rv))
                           (filter (fun rv => memp (r_name (fst rv)) U) (with_diag 0 rows)) in
        (* the ones to keep: rows and columns of the removed names deleted *)
        let km := map (fun r => negb (memp (r_name r) U)) rows in
        let krows := filter (fun rv => negb (memp (r_name (fst rv)) U)) (with_diag 0 rows) in
        match krows with
        | [] => singles
        | [rv] => singles ++ [Normal (r_name (fst rv)) (r_mean (fst rv)) (snd rv)]
        | _ => singles ++ [Joint (map (fun rv => mkRow (r_name (fst rv)) (r_mean (fst rv))
                                                        (select km (r_entries (fst rv)))) krows)]
        end
      else [d]
  end.
Definition unjoin (U : list id) (rvs : list dist) : list dist := flat_map (unjoin_dist U) rvs.

(* ---- the filter on distributions and on parameters -------------------------------------------- *)
Definition keep_dist (S : list id) (d : dist) : bool :=
  match d with
  | Normal _ _ _ => negb (disjointp S (dist_free d))
  | Joint _ => true
  end.

Definition fixed_zero (p : param) : bool := p_fix p && Qeq_bool (p_init p) 0.
Definition keep_param (S fs : list id) (p : param) : bool :=
  memp (p_sym p) S || memp (p_sym p) fs || fixed_zero p.

Definition new_rvs (l : list stmt) (rvs : list dist) : list dist :=
  let S := stmts_free l in filter (keep_dist S) (unjoin (to_unjoin S rvs) rvs).
Definition new_params (l : list stmt) (params : list param) (rvs : list dist) : list param :=
  filter (keep_param (stmts_free l) (rvs_free (new_rvs l rvs))) params.
Definition get_unused (l : list stmt) (params : list param) (rvs : list dist) : list dist * list param :=
  (new_rvs l rvs, new_params l params rvs).

(* names that the call removes *)
Definition removed_names (l : list stmt) (params : list param) (rvs : list dist) : list id :=
  diffp (map p_sym params) (map p_sym (new_params l params rvs)) ++
  diffp (rvs_names rvs) (rvs_names (new_rvs l rvs)).

(* ---- the reason an rv may be kept for: it occurs in a statement, or a parameter of its own row
   (resp. its mean) does ----------------------------------------------------------------------- *)
Definition row_reason (S : list id) (r : jrow) : bool :=
  memp (r_name r) S || interp_nonempty S (r_mean r ++ row_params r).
Definition rv_reason (S : list id) (d : dist) (n : id) : bool :=
  match d with
  | Normal n' m v => Pos.eqb n' n && (memp n S || interp_nonempty S (m ++ v))
  | Joint rows => existsb (fun r => Pos.eqb (r_name r) n && row_reason S r) rows
  end.

(* ---- validity of a random variable collection: unique names, square symmetric matrices -------- *)
Definition entry (rows : list jrow) (i j : nat) : list id := nth j (r_entries (nth i rows (mkRow xH [] []))) [].
Definition wf_dist (d : dist) : bool :=
  match d with
  | Normal _ _ _ => true
  | Joint rows =>
      let n := length rows in
      forallb (fun r => length (r_entries r) =? n) rows &&
      forallb (fun i => forallb (fun j => setp_eqb (entry rows i j) (entry rows j i)) (seq 0 n)) (seq 0 n)
  end.
Fixpoint nodup_ids (l : list id) : bool :=
  match l with [] => true | x :: tl => negb (memp x tl) && nodup_ids tl end.
Definition wf_rvs (rvs : list dist) : bool := nodup_ids (rvs_names rvs) && forallb wf_dist rvs.

(* ---- covariance entries looked up by NAME (specification side of "the call does not change the
   distribution of what remains") -------------------------------------------------------------- *)
Fixpoint idx (m : id) (l : list id) : nat :=
  match l with [] => 0 | x :: tl => if Pos.eqb x m then 0 else S (idx m tl) end.
(* entry (n, m) of the covariance matrix of a block: row named n, column of the row named m *)
Definition cov_rows (rows : list jrow) (n m : id) : option (list id) :=
  match find (fun r => Pos.eqb (r_name r) n) rows with
  | Some r => nth_error (r_entries r) (idx m (map r_name rows))
  | None => None
  end.
Definition dist_cov (d : dist) (n m : id) : option (list id) :=
  match d with
  | Normal n' _ v => if Pos.eqb n' n && Pos.eqb n' m then Some v else None
  | Joint rows => if memp n (map r_name rows) && memp m (map r_name rows) then cov_rows rows n m else None
  end.
