(* PV.C10.ProofsRename — Statements.subs({A: Z}) for an ASSIGNED symbol A and a fresh symbol Z is a
   consistent renaming: the renamed program computes for Z what the original computes for A and the same
   value for every other symbol. *)
From Coq Require Import QArith List Bool PArith Arith Lia.
From PV Require Import Base.PyData Base.Expr Base.Stmts C10.Model C10.Proofs.
Import ListNotations.
Local Open Scope nat_scope.

Section Rename.
  Variable fi : finterp.
  Variable ode : id -> list (option Q) -> option Q.
  Variables a z : id.

  Definition ren_rel (r r' : env) : Prop := r' z = r a /\ forall x, x <> a -> x <> z -> r' x = r x.

  Lemma rename_lemma : forall l r r',
    a <> z -> has_ode_any l = false ->
    (forall st, In st l -> ~ In z (defs st) /\ ~ In z (rhs st)) ->
    ren_rel r r' ->
    ren_rel (exec fi ode r l) (exec fi ode r' (subs_stmts [(a, Sym z)] l)).
  Proof.
    induction l as [|st l IH]; intros r r' Hne Ho Hfresh Hrel; [exact Hrel|].
    destruct st as [s e|am rh]; [|cbn in Ho; discriminate].
    cbn [has_ode_any existsb orb] in Ho. cbn [subs_stmts map subs_stmt_map exec exec1].
    destruct (Hfresh (Assign s e) (or_introl eq_refl)) as [Hzs Hze]. cbn [defs rhs] in Hzs, Hze.
    assert (Hev : eval r' fi (subs_map [(a, Sym z)] e) = eval r fi e).
    { rewrite (proj1 (subs_map_lemma r' fi [(a, Sym z)])). apply eval_coincidence. intros x Hx.
      unfold upd_map. cbn [alookup]. destruct (Pos.eqb a x) eqn:E.
      - apply Pos.eqb_eq in E. subst x. cbn [eval]. apply Hrel.
      - apply Hrel; [intro; subst; rewrite Pos.eqb_refl in E; discriminate | intro; subst; contradiction]. }
    apply IH; [exact Hne | exact Ho | intros st Hst; apply Hfresh; right; exact Hst |].
    rewrite Hev. unfold subs_lhs. cbn [alookup]. destruct (Pos.eqb a s) eqn:Eas.
    - apply Pos.eqb_eq in Eas. subst s. split.
      + unfold upd. rewrite !Pos.eqb_refl. reflexivity.
      + intros x Hxa Hxz. unfold upd.
        destruct (Pos.eqb x z) eqn:E1; [apply Pos.eqb_eq in E1; contradiction|].
        destruct (Pos.eqb x a) eqn:E2; [apply Pos.eqb_eq in E2; contradiction|]. apply Hrel; assumption.
    - assert (Hsa : s <> a) by (intro; subst; rewrite Pos.eqb_refl in Eas; discriminate).
      assert (Hsz : s <> z) by (intro; subst; apply Hzs; left; reflexivity).
      split.
      + unfold upd. destruct (Pos.eqb z s) eqn:E1; [apply Pos.eqb_eq in E1; subst; contradiction|].
        destruct (Pos.eqb a s) eqn:E2; [discriminate|]. apply Hrel.
      + intros x Hxa Hxz. unfold upd. destruct (Pos.eqb x s); [reflexivity | apply Hrel; assumption].
  Qed.

  Lemma g_rename_spec l : g_rename a z l = true ->
    a <> z /\ has_ode_any l = false /\ forall st, In st l -> ~ In z (defs st) /\ ~ In z (rhs st).
  Proof.
    unfold g_rename. intros H. apply andb_true_iff in H. destruct H as [H H3].
    apply andb_true_iff in H. destruct H as [H1 H2]. apply negb_true_iff in H1, H2.
    split; [intro; subst; rewrite Pos.eqb_refl in H2; discriminate|]. split; [exact H1|].
    intros st Hst. rewrite forallb_forall in H3. specialize (H3 st Hst). apply andb_true_iff in H3.
    destruct H3 as [Ha Hb]. apply negb_true_iff in Ha, Hb.
    split; intro Hin; apply memp_In in Hin; congruence.
  Qed.

  Lemma subs_rename_lemma l r :
    g_rename a z l = true ->
    exec fi ode (upd r z (r a)) (subs_stmts [(a, Sym z)] l) z = exec fi ode r l a /\
    forall x, x <> a -> x <> z -> exec fi ode (upd r z (r a)) (subs_stmts [(a, Sym z)] l) x = exec fi ode r l x.
  Proof.
    intros Hg. apply g_rename_spec in Hg. destruct Hg as [Hne [Ho Hfresh]].
    apply (rename_lemma l r (upd r z (r a)) Hne Ho Hfresh). split.
    - unfold upd. rewrite Pos.eqb_refl. reflexivity.
    - intros x _ Hxz. unfold upd. destruct (Pos.eqb x z) eqn:E; [apply Pos.eqb_eq in E; contradiction | reflexivity].
  Qed.
End Rename.
