(* PV.C10.Check — the comparison run inside Coq by the correspondence check: re-runs the model on
   the exported input, compares with the implementation's observed outputs, and evaluates the
   property statements themselves on the implementation's outputs (oracle tags >= 11). *)
From Coq Require Import QArith List Bool PArith Arith.
From PV Require Import Base.PyData Base.Expr Base.Interp Base.Stmts C10.Model.
Import ListNotations.
Local Open Scope nat_scope.

Record case := mkCase {
  c_stmts : list stmt;
  c_find : list (id * option nat);               (* symbol, find_assignment_index *)
  c_deps : list (id * qres (list id));           (* symbol, dependencies or error class *)
  c_full : list (expr * option expr);            (* expression, full_expression (None = ValueError) *)
  c_reassign : list (id * expr * list stmt);     (* symbol, new rhs, resulting statements *)
  c_rsd : list (list id * nat * list nat);       (* symbols, statement index, indices removed *)
  c_subs : list (list (id * expr) * list stmt);  (* substitution map, resulting statements *)
  c_envs : list (list (id * Q))
}.

Definition onat_eqb (a b : option nat) : bool :=
  match a, b with Some x, Some y => Nat.eqb x y | None, None => true | _, _ => false end.

Definition qerr_eqb (a b : qerr) : bool :=
  match a, b with
  | KeyError, KeyError | InternalError, InternalError => true
  | _, _ => false end.

Definition deps_eqb (a b : qres (list id)) : bool :=
  match a, b with
  | Ok x, Ok y => setp_eqb x y
  | Err x, Err y => qerr_eqb x y
  | _, _ => false end.

Definition envs_of (c : case) : list env := map env_of (c_envs c).

Fixpoint pairs {A} (l : list A) : list (A * A) :=
  match l with
  | a :: ((b :: _) as tl) => (a, b) :: pairs tl
  | _ => []
  end.

(* r' agrees with r on D and takes alt's values elsewhere *)
Definition mix (D : list id) (r alt : env) : env := fun x => if memp x D then r x else alt x.

Definition value_at (l : list stmt) (r : env) (s : id) : option Q := exec std_fi std_ode r l s.

Definition tag (b : bool) (t : nat) : list nat := if b then [] else [t].
Definition tag3 (v : nat) (tfail tinc : nat) : list nat :=
  match v with 0 => [] | 1 => [tfail] | _ => [tinc] end.

Definition check_find (c : case) : list nat :=
  flat_map (fun p => tag (onat_eqb (find_assignment_index (c_stmts c) (fst p)) (snd p)) 1) (c_find c).

Definition check_deps (c : case) : list nat :=
  let l := c_stmts c in
  flat_map (fun p =>
    let '(s, r) := p in
    tag (deps_eqb (dependencies l s) r) 2 ++
    match r with
    | Err KeyError => []
    | Err _ => [14]
    | Ok D =>
        (* soundness of the reported set on the implementation's own answer *)
        tag (forallb (fun ee => match cmp_oq (value_at l (fst ee) s) (value_at l (mix D (fst ee) (snd ee)) s) with
                                | 1 => false | _ => true end) (pairs (envs_of c))) 12 ++
        (* exactness when no symbol is assigned twice and nothing is read before it is assigned *)
        match find_def_index l s with
        | Some i => if g_ssa l && g_def_before_use l then tag (setp_eqb D (leaf_support l i)) 13 else []
        | None => []
        end
    end) (c_deps c).

Definition check_full (c : case) : list nat :=
  let l := c_stmts c in
  flat_map (fun p =>
    let '(e, r) := p in
    match full_expression l e, r with
    | None, None => []
    | Some m, Some i =>
        tag3 (expr_agree 2 (envs_of c) m i) 3 1003 ++
        (* the property: eval rho (full_expression e) = eval (exec rho l) e *)
        tag3 (summarize 2 (map (fun rho => cmp_oq (eval rho std_fi i) (eval (exec std_fi std_ode rho l) std_fi e))
                               (envs_of c))) 11 1011
    | _, _ => [3]
    end) (c_full c).

Definition no_disagree (a b : option Q) : bool := match cmp_oq a b with 1 => false | _ => true end.

Definition check_reassign (c : case) : list nat :=
  let l := c_stmts c in
  flat_map (fun p =>
    let '(s, e, r) := p in
    tag3 (stmts_agree 2 (envs_of c) (reassign l s e) r) 4 1004 ++
    (* the property on the implementation's answer: symbols outside the taint of the edit keep their value *)
    tag (forallb (fun rho => forallb (fun x => memp x (reassign_taint l s) ||
                                              no_disagree (exec std_fi std_ode rho r x) (exec std_fi std_ode rho l x))
                                     (all_defs l)) (envs_of c)) 27 ++
    (* ... and s gets the value of the new expression at the position of its last assignment *)
    (if g_not_overwritten l s
     then tag (forallb (fun rho => no_disagree (exec std_fi std_ode rho r s)
                                     (eval (exec std_fi std_ode rho (before_last_assignment l s)) std_fi e))
                       (envs_of c)) 28
     else [])) (c_reassign c).

Definition defined_change (a b : option Q) : bool :=
  (* value in the original program is defined and the new one differs or is undefined *)
  match a, b with
  | Some x, Some y => negb (Qeq_bool x y)
  | Some _, None => true
  | None, _ => false
  end.

Definition check_rsd (c : case) : list nat :=
  let l := c_stmts c in
  flat_map (fun p =>
    let '(syms, ri, removed) := p in
    let l' := keep_indices l removed in
    tag (setn_eqb (rsd_remove_set l syms ri) removed) 5 ++
    tag (negb (existsb (fun rho => existsb (fun x => defined_change (exec std_fi std_ode rho l x)
                                                                   (exec std_fi std_ode rho l' x))
                                           (diffp (all_defs l') (dirty_after l removed))) (envs_of c))) 15 ++
    tag (g_remove_safe l removed) 16) (c_rsd c).

Definition check_subs (c : case) : list nat :=
  let l := c_stmts c in
  flat_map (fun p =>
    let '(m, r) := p in
    tag3 (stmts_agree 2 (envs_of c) (subs_stmts m l) r) 6 1006 ++
    (* the property on the implementation's answer, under the guard *)
    (if g_subs_leaf m l
     then tag (forallb (fun rho =>
                 forallb (fun x => match alookup m x with
                                   | Some _ => true
                                   | None => match cmp_oq (exec std_fi std_ode rho r x)
                                                          (exec std_fi std_ode (upd_map rho std_fi m) l x) with
                                             | 1 => false | _ => true end
                                   end) (all_defs l)) (envs_of c)) 17
     else [203]) ++
    (* renaming an assigned symbol to a fresh one *)
    match m with
    | [(a, Sym z)] =>
        if g_rename a z l
        then tag (forallb (fun rho =>
                    let rho' := upd rho z (rho a) in
                    no_disagree (exec std_fi std_ode rho' r z) (exec std_fi std_ode rho l a) &&
                    forallb (fun x => Pos.eqb x a || Pos.eqb x z ||
                                      no_disagree (exec std_fi std_ode rho' r x) (exec std_fi std_ode rho l x))
                            (all_defs l)) (envs_of c)) 29
        else []
    | _ => []
    end) (c_subs c).

Definition guard_tags (c : case) : list nat :=
  tag (g_def_before_use (c_stmts c)) 201 ++ tag (g_ssa (c_stmts c)) 202.

Definition verdict (c : case) : list nat :=
  check_find c ++ check_deps c ++ check_full c ++ check_reassign c ++ check_rsd c ++ check_subs c ++ guard_tags c.
