(* PV.C10.Model — executable model of pharmpy.model.statements.Statements queries
   (find_assignment(_index), reassign, _create_dependency_graph, dependencies,
   remove_symbol_definitions, full_expression) mirroring the Python statement by statement.
   No proofs here (so the model still runs when a proof breaks). *)
From Coq Require Import QArith List Bool PArith Arith Lia.
From PV Require Import Base.PyData Base.Expr Base.Stmts.
Import ListNotations.
Local Open Scope nat_scope.

(* ---- _lookup_last_assignment / find_assignment_index -------------------------------------- *)
Fixpoint find_last_from (p : stmt -> bool) (l : list stmt) (i : nat) (acc : option nat) : option nat :=
  match l with
  | [] => acc
  | st :: tl => find_last_from p tl (S i) (if p st then Some i else acc)
  end.
Definition find_assignment_index (l : list stmt) (s : id) : option nat :=
  find_last_from (is_assign_of s) l 0 None.
Definition find_assignment (l : list stmt) (s : id) : option stmt :=
  option_map (nths l) (find_assignment_index l s).

(* ---- reassign: walk from the end, replace the last, delete the earlier ones ---------------- *)
Fixpoint reassign_rev (s : id) (e : expr) (rl : list stmt) (last : bool) : list stmt :=
  match rl with
  | [] => []
  | st :: tl =>
      if is_assign_of s st
      then if last then Assign s e :: reassign_rev s e tl false else reassign_rev s e tl false
      else st :: reassign_rev s e tl last
  end.
Definition reassign (l : list stmt) (s : id) (e : expr) : list stmt :=
  rev (reassign_rev s e (rev l) true).

Definition has_ode_any (l : list stmt) : bool :=
  existsb (fun st => match st with Ode _ _ => true | _ => false end) l.

(* ---- Statements.subs for a map Symbol -> expression (keys that are assignment targets are renamed
   only when mapped to a symbol; the check's generator substitutes leaf symbols) ------------------ *)
Definition subs_lhs (m : list (id * expr)) (s : id) : id :=
  match alookup m s with Some (Sym s') => s' | _ => s end.
Definition subs_stmt_map (m : list (id * expr)) (st : stmt) : stmt :=
  match st with
  | Assign s e => Assign (subs_lhs m s) (subs_map m e)
  | Ode a r => Ode a r
  end.
Definition subs_stmts (m : list (id * expr)) (l : list stmt) : list stmt := map (subs_stmt_map m) l.

(* guard: the substituted symbols and the symbols of their replacements are never assigned *)
Definition g_subs_leaf (m : list (id * expr)) (l : list stmt) : bool :=
  negb (has_ode_any l) &&
  forallb (fun kv => negb (memp (fst kv) (flat_map defs l)) &&
                     negb (interp_nonempty (free_syms (snd kv)) (flat_map defs l))) m.

(* ---- full_expression: for statement in reversed(self): expr = expr.subs({sym: rhs}) -------- *)
Definition has_ode (l : list stmt) : bool :=
  existsb (fun st => match st with Ode _ _ => true | _ => false end) l.

Definition subs_stmt (acc : expr) (st : stmt) : expr :=
  match st with Assign s t => subs s t acc | Ode _ _ => acc end.

Definition full_expression (l : list stmt) (e : expr) : option expr :=
  if has_ode l then None (* ValueError *) else Some (fold_left subs_stmt (rev l) e).

(* ---- _create_dependency_graph: edge i -> j for EVERY earlier j defining a symbol of rhs(i) -- *)
Definition edge (l : list stmt) (i j : nat) : bool :=
  (j <? i) && interp_nonempty (defs (nths l j)) (rhs (nths l i)).

Fixpoint desc (n : nat) : list nat := match n with 0 => [] | S k => k :: desc k end. (* n-1 .. 0 *)

Definition succs (l : list stmt) (i : nat) : list nat := filter (edge l i) (desc i).
Definition has_out (l : list stmt) (i : nat) : bool := negb (match succs l i with [] => true | _ => false end).
Definition has_in (l : list stmt) (j : nat) : bool := existsb (fun i => edge l i j) (desc (length l)).
Definition in_graph (l : list stmt) (k : nat) : bool := has_out l k || has_in l k.
Definition graph_empty (l : list stmt) : bool := negb (existsb (has_out l) (desc (length l))).

Inductive qerr := KeyError | InternalError.
Inductive qres (A : Type) := Ok (a : A) | Err (e : qerr).
Arguments Ok {A} a. Arguments Err {A} e.

Definition defines (s : id) (st : stmt) : bool := memp s (defs st).
(* last index whose statement assigns [s] or is a system with [s] among its amounts *)
Definition find_def_index (l : list stmt) (s : id) : option nat := find_last_from (defines s) l 0 None.

(* dependencies (after the fix): walk backwards from the defining statement; a statement is
   expanded only while one of the symbols it defines is still needed.
   [rl] = statements i-1, i-2, ..., 0. *)
Fixpoint dep_scan (rl : list stmt) (symbs : list id) : list id :=
  match rl with
  | [] => symbs
  | st :: tl =>
      if interp_nonempty (defs st) symbs
      then dep_scan tl (unionp (diffp symbs (defs st)) (rhs st))
      else dep_scan tl symbs
  end.

Definition dependencies_at (l : list stmt) (i : nat) : list id :=
  dep_scan (rev (firstn i l)) (rhs (nths l i)).

Definition dependencies (l : list stmt) (s : id) : qres (list id) :=
  match find_def_index l s with
  | None => Err KeyError
  | Some i => Ok (dependencies_at l i)
  end.

(* ---- reachability by a descending scan (edges always point to smaller indices) ------------- *)
Fixpoint reach_scan (l : list stmt) (ks : list nat) (acc : list nat) : list nat :=
  match ks with
  | [] => acc
  | k :: tl =>
      if memn k acc then reach_scan l tl acc
      else if existsb (fun m => edge l m k) acc then reach_scan l tl (k :: acc)
      else reach_scan l tl acc
  end.
(* all nodes reachable from [starts] (including the starts themselves) *)
Definition reach (l : list stmt) (starts : list nat) : list nat :=
  reach_scan l (desc (length l)) starts.

(* ---- remove_symbol_definitions(symbols, statement) with statement at index [ri] ------------ *)
Definition diffn (a b : list nat) : list nat := filter (fun x => negb (memn x b)) a.

Definition rsd_remove_set (l : list stmt) (symbols : list id) (ri : nat) : list nat :=
  let cand0 := filter (fun i => match nths l i with
                                | Assign s _ => memp s symbols
                                | Ode _ _ => false end) (desc ri) in
  let cand1 := cand0 ++ reach l (filter (in_graph l) cand0) in
  let keep := if in_graph l ri then diffn (reach l [ri]) [ri] else [] in
  let cand2 := diffn cand1 keep in
  let add0 := filter (fun down => memn down cand2 &&
                        existsb (fun up => negb (up =? ri) && negb (memn up cand2) && edge l up down)
                                (desc (length l)))
                     (desc (length l)) in
  let additional := reach l add0 in
  diffn cand2 additional.

Fixpoint keep_from {A} (l : list A) (i : nat) (remove : list nat) : list A :=
  match l with
  | [] => []
  | x :: tl => if memn i remove then keep_from tl (S i) remove else x :: keep_from tl (S i) remove
  end.
Definition keep_indices {A} (l : list A) (remove : list nat) : list A := keep_from l 0 remove.

Definition remove_symbol_definitions (l : list stmt) (symbols : list id) (ri : nat) : list stmt :=
  keep_indices l (rsd_remove_set l symbols ri).

(* ---- guards (decidable) --------------------------------------------------------------------- *)
Definition all_defs (l : list stmt) : list id := flat_map defs l.

(* every symbol that is read by statement k and assigned anywhere is assigned before k *)
Definition g_def_before_use (l : list stmt) : bool :=
  forallb (fun k =>
    forallb (fun x => negb (memp x (all_defs l)) ||
                      existsb (fun j => memp x (defs (nths l j))) (desc k))
            (rhs (nths l k)))
    (desc (length l)).

(* removing the statements at indices [rem] is dataflow-safe: walking the program, [dirty] is the
   set of symbols whose current value may differ from the original run (their latest definition
   was removed); no remaining statement may read a dirty symbol. *)
Fixpoint safe_from (l : list stmt) (i : nat) (rem : list nat) (dirty : list id) : bool :=
  match l with
  | [] => true
  | st :: tl =>
      if memn i rem then safe_from tl (S i) rem (defs st ++ dirty)
      else negb (interp_nonempty (rhs st) dirty) && safe_from tl (S i) rem (diffp dirty (defs st))
  end.
Fixpoint dirty_from (l : list stmt) (i : nat) (rem : list nat) (dirty : list id) : list id :=
  match l with
  | [] => dirty
  | st :: tl =>
      if memn i rem then dirty_from tl (S i) rem (defs st ++ dirty)
      else dirty_from tl (S i) rem (diffp dirty (defs st))
  end.
Definition g_remove_safe (l : list stmt) (rem : list nat) : bool := safe_from l 0 rem [].
Definition dirty_after (l : list stmt) (rem : list nat) : list id := dirty_from l 0 rem [].

(* a set of removed indices that no remaining statement has an edge into *)
Definition g_remove_closed (l : list stmt) (remove : list nat) : bool :=
  forallb (fun k => memn k remove || forallb (fun j => negb (memn j remove)) (succs l k))
          (desc (length l)).

(* leaves reachable from statement i: symbols read by reachable statements and never assigned *)
Definition leaf_support (l : list stmt) (i : nat) : list id :=
  filter (fun x => negb (memp x (all_defs l))) (flat_map (fun k => rhs (nths l k)) (reach l [i])).

Fixpoint nodup_p (l : list id) : bool :=
  match l with [] => true | x :: tl => negb (memp x tl) && nodup_p tl end.
Definition g_ssa (l : list stmt) : bool := nodup_p (all_defs l).


(* ---- reassign as a program edit: which symbols may have a different value afterwards -------- *)
(* Walking the ORIGINAL program: every assignment of [s] is edited (the earlier ones are deleted, the
   last one gets the new right-hand side), so [s] becomes tainted there; a statement that reads a
   tainted symbol taints what it defines; any other statement cleans what it defines. *)
Fixpoint taint (s : id) (l : list stmt) (dirty : list id) : list id :=
  match l with
  | [] => dirty
  | st :: tl =>
      if is_assign_of s st then taint s tl (s :: dirty)
      else if interp_nonempty (rhs st) dirty then taint s tl (defs st ++ dirty)
      else taint s tl (diffp dirty (defs st))
  end.
Definition reassign_taint (l : list stmt) (s : id) : list id := taint s l [].

(* the statements before the last assignment of [s], with the earlier assignments of [s] deleted *)
Definition before_last_assignment (l : list stmt) (s : id) : list stmt :=
  match find_assignment_index l s with
  | Some i => filter (fun st => negb (is_assign_of s st)) (firstn i l)
  | None => l
  end.
(* no compartmental system after the last assignment has [s] among its amounts *)
Definition g_not_overwritten (l : list stmt) (s : id) : bool :=
  match find_assignment_index l s with
  | Some i => negb (existsb (fun st => memp s (defs st)) (skipn (S i) l))
  | None => false
  end.

(* ---- Statements.subs({A: Z}) as a renaming of an assigned symbol ------------------------------ *)
(* guard: no compartmental system (CompartmentalSystem.subs belongs to C05), Z differs from A and occurs
   nowhere in the program *)
Definition g_rename (a z : id) (l : list stmt) : bool :=
  negb (has_ode_any l) && negb (Pos.eqb a z) &&
  forallb (fun st => negb (memp z (defs st)) && negb (memp z (rhs st))) l.

