(* PV.C10.Proofs — lemmas about the C10 model. *)
From Coq Require Import QArith List Bool PArith Arith Lia.
From PV Require Import Base.PyData Base.Expr Base.Stmts C10.Model.
Import ListNotations.
Local Open Scope nat_scope.

Section Sound.
  Variable fi : finterp.
  Variable ode : id -> list (option Q) -> option Q.

  Lemma has_ode_cons st l : has_ode (st :: l) = false ->
    (exists s e, st = Assign s e) /\ has_ode l = false.
  Proof.
    unfold has_ode; cbn [existsb]. destruct st as [s e|a r]; cbn; intros H; [|discriminate].
    split; [eauto | exact H].
  Qed.

  Lemma fold_subs_cons s t l e :
    fold_left subs_stmt (rev (Assign s t :: l)) e = subs s t (fold_left subs_stmt (rev l) e).
  Proof. cbn [rev]. rewrite fold_left_app. reflexivity. Qed.

  (* full_expression: expanding then evaluating = executing then evaluating *)
  Lemma full_expression_sound_lemma : forall l r e e',
    full_expression l e = Some e' ->
    eval r fi e' = eval (exec fi ode r l) fi e.
  Proof.
    induction l as [|st l IH]; intros r e e' H.
    - unfold full_expression in H; cbn in H. injection H as <-. reflexivity.
    - unfold full_expression in H. destruct (has_ode (st :: l)) eqn:Ho; [discriminate|].
      apply has_ode_cons in Ho. destruct Ho as [[s [t ->]] Ho].
      rewrite fold_subs_cons in H. injection H as <-. rewrite subs_eval. cbn [exec exec1].
      apply IH. unfold full_expression. rewrite Ho. reflexivity.
  Qed.

  Lemma full_expression_total l e : has_ode l = false -> exists e', full_expression l e = Some e'.
  Proof. intros H. unfold full_expression. rewrite H. eauto. Qed.
End Sound.

(* ---------- removing statements: dataflow-safe removal preserves every clean symbol ---------- *)
Section Remove.
  Variable fi : finterp.
  Variable ode : id -> list (option Q) -> option Q.

  Definition clean_agree (dirty : list id) (r r' : env) : Prop := forall x, ~ In x dirty -> r x = r' x.

  Lemma exec1_agree st dirty r r' :
    clean_agree dirty r r' ->
    interp_nonempty (rhs st) dirty = false ->
    clean_agree (diffp dirty (defs st)) (exec1 fi ode r st) (exec1 fi ode r' st).
  Proof.
    intros Hag Hdis.
    assert (Hrhs : agree_on (rhs st) r r').
    { intros x Hx. apply Hag. intro Hd.
      assert (interp_nonempty (rhs st) dirty = true) by (apply interp_nonempty_spec; eauto).
      congruence. }
    destruct st as [s e|amts rh]; cbn [exec1 defs rhs] in *.
    - intros x Hx. unfold upd. destruct (Pos.eqb x s) eqn:E.
      + apply eval_coincidence. exact Hrhs.
      + apply Hag. intro Hd. apply Hx. apply In_diffp. split; [exact Hd|].
        cbn. intros [->|[]]. rewrite Pos.eqb_refl in E. discriminate.
    - intros x Hx. unfold upd_list. destruct (memp x amts) eqn:E.
      + f_equal. apply map_ext_in. exact Hrhs.
      + apply Hag. intro Hd. apply Hx. apply In_diffp. split; [exact Hd|].
        intro Hin. apply memp_In in Hin. congruence.
  Qed.

  Lemma exec1_removed st dirty r r' :
    clean_agree dirty r r' -> clean_agree (defs st ++ dirty) (exec1 fi ode r st) r'.
  Proof.
    intros Hag x Hx.
    assert (Hnd : ~ In x (defs st)) by (intro; apply Hx, in_or_app; auto).
    assert (Hnd' : ~ In x dirty) by (intro; apply Hx, in_or_app; auto).
    destruct st as [s e|amts rh]; cbn [exec1 defs] in *.
    - unfold upd. destruct (Pos.eqb x s) eqn:E; [|auto].
      apply Pos.eqb_eq in E. subst. exfalso. apply Hnd. left. reflexivity.
    - unfold upd_list. destruct (memp x amts) eqn:E; [|auto].
      apply memp_In in E. contradiction.
  Qed.

  Lemma remove_safe_lemma : forall l i rem dirty r r',
    clean_agree dirty r r' ->
    safe_from l i rem dirty = true ->
    clean_agree (dirty_from l i rem dirty) (exec fi ode r l) (exec fi ode r' (keep_from l i rem)).
  Proof.
    induction l as [|st l IH]; intros i rem dirty r r' Hag Hs; cbn [safe_from dirty_from exec keep_from] in *.
    - exact Hag.
    - destruct (memn i rem).
      + apply IH; [|exact Hs]. apply exec1_removed. exact Hag.
      + apply andb_true_iff in Hs. destruct Hs as [Hd Hs]. apply negb_true_iff in Hd.
        cbn [exec]. apply IH; [|exact Hs]. apply exec1_agree; assumption.
  Qed.

  Lemma remove_safe_preserves l rem r x :
    g_remove_safe l rem = true -> ~ In x (dirty_after l rem) ->
    exec fi ode r (keep_indices l rem) x = exec fi ode r l x.
  Proof.
    intros Hs Hx. symmetry.
    apply (remove_safe_lemma l 0 rem [] r r); [intros y _; reflexivity | exact Hs | exact Hx].
  Qed.
End Remove.

(* ---------- find_last_from / find_assignment_index / find_def_index ---------- *)
Lemma find_last_from_spec p : forall l i acc r,
  find_last_from p l i acc = Some r ->
  (acc = Some r /\ forallb (fun st => negb (p st)) l = true) \/
  (i <= r /\ r < i + length l /\ p (nth (r - i) l dummy) = true /\
   forall j, r < j -> j < i + length l -> p (nth (j - i) l dummy) = false).
Proof.
  induction l as [|st l IH]; intros i acc r H; cbn [find_last_from] in H.
  - left. split; [exact H | reflexivity].
  - apply IH in H. destruct H as [[Ha Hf]|[H1 [H2 [H3 H4]]]].
    + destruct (p st) eqn:E.
      * injection Ha as <-. right. cbn [length]. repeat split; try lia.
        -- rewrite Nat.sub_diag. exact E.
        -- intros j Hj Hj2. destruct (j - i) as [|k] eqn:Ek; [lia|]. cbn [nth].
           rewrite forallb_forall in Hf.
           assert (Hk : k < length l) by lia.
           specialize (Hf (nth k l dummy) (nth_In l dummy Hk)). apply negb_true_iff in Hf. exact Hf.
      * left. split; [exact Ha|]. cbn [forallb]. rewrite E. exact Hf.
    + right. cbn [length]. repeat split; try lia.
      * replace (r - i) with (S (r - S i)) by lia. exact H3.
      * intros j Hj Hj2. replace (j - i) with (S (j - S i)) by lia. apply H4; lia.
Qed.

Lemma find_last_spec p l i :
  find_last_from p l 0 None = Some i ->
  i < length l /\ p (nths l i) = true /\
  forall j, i < j -> j < length l -> p (nths l j) = false.
Proof.
  unfold nths. intros H. apply find_last_from_spec in H.
  destruct H as [[Ha _]|[H1 [H2 [H3 H4]]]]; [discriminate|].
  rewrite Nat.sub_0_r in H3. repeat split; try lia; [exact H3|].
  intros j Hj Hj2. specialize (H4 j Hj). rewrite Nat.sub_0_r in H4. apply H4. lia.
Qed.

Lemma find_last_none p l :
  find_last_from p l 0 None = None -> forall st, In st l -> p st = false.
Proof.
  assert (G : forall l i acc, find_last_from p l i acc = None ->
                              acc = None /\ forall st, In st l -> p st = false).
  { clear l. induction l as [|st l IH]; intros i acc H; cbn [find_last_from] in H.
    - split; [exact H | intros ? []].
    - apply IH in H. destruct H as [Ha Hl]. destruct (p st) eqn:E; [discriminate|].
      split; [exact Ha|]. intros st' [<-|Hin]; auto. }
  intros H. apply G in H. apply H.
Qed.

Lemma find_assignment_index_last l s i :
  find_assignment_index l s = Some i ->
  i < length l /\ is_assign_of s (nths l i) = true /\
  forall j, i < j -> j < length l -> is_assign_of s (nths l j) = false.
Proof. apply find_last_spec. Qed.

Lemma find_assignment_index_none l s :
  find_assignment_index l s = None -> forall st, In st l -> is_assign_of s st = false.
Proof. apply find_last_none. Qed.

(* ---------- reassign ---------- *)
Definition not_assign_of (s : id) (st : stmt) : bool := negb (is_assign_of s st).

Lemma reassign_rev_others s e : forall rl last,
  filter (not_assign_of s) (reassign_rev s e rl last) = filter (not_assign_of s) rl.
Proof.
  induction rl as [|st rl IH]; intros last; cbn [reassign_rev]; [reflexivity|].
  destruct (is_assign_of s st) eqn:E.
  - assert (N : not_assign_of s st = false) by (unfold not_assign_of; rewrite E; reflexivity).
    cbn [filter]. rewrite N. destruct last; [|apply IH].
    cbn [filter].
    assert (N' : not_assign_of s (Assign s e) = false)
      by (unfold not_assign_of; cbn [is_assign_of]; rewrite Pos.eqb_refl; reflexivity).
    rewrite N'. apply IH.
  - assert (N : not_assign_of s st = true) by (unfold not_assign_of; rewrite E; reflexivity).
    cbn [filter]. rewrite N. f_equal. apply IH.
Qed.

Lemma reassign_rev_count_false s e : forall rl,
  filter (is_assign_of s) (reassign_rev s e rl false) = [].
Proof.
  induction rl as [|st rl IH]; cbn [reassign_rev]; [reflexivity|].
  destruct (is_assign_of s st) eqn:E; [exact IH|]. cbn [filter]. rewrite E. exact IH.
Qed.

Lemma reassign_rev_count_true s e : forall rl,
  existsb (is_assign_of s) rl = true ->
  filter (is_assign_of s) (reassign_rev s e rl true) = [Assign s e].
Proof.
  induction rl as [|st rl IH]; cbn [reassign_rev existsb]; [discriminate|].
  destruct (is_assign_of s st) eqn:E; intros H.
  - cbn [filter is_assign_of]. rewrite Pos.eqb_refl. f_equal. apply reassign_rev_count_false.
  - cbn [filter]. rewrite E. apply IH. exact H.
Qed.

Lemma filter_rev {A} (f : A -> bool) l : filter f (rev l) = rev (filter f l).
Proof.
  induction l as [|x l IH]; [reflexivity|]. cbn [rev filter]. rewrite filter_app, IH. cbn [filter].
  destruct (f x); cbn [rev]; [reflexivity | rewrite app_nil_r; reflexivity].
Qed.

Lemma existsb_rev {A} (f : A -> bool) l : existsb f (rev l) = existsb f l.
Proof.
  induction l as [|x l IH]; [reflexivity|]. cbn [rev existsb]. rewrite existsb_app, IH. cbn [existsb].
  rewrite orb_false_r. apply orb_comm.
Qed.

(* the other statements are kept, in order *)
Lemma reassign_others l s e :
  filter (not_assign_of s) (reassign l s e) = filter (not_assign_of s) l.
Proof.
  unfold reassign. rewrite filter_rev, reassign_rev_others, <- filter_rev, rev_involutive. reflexivity.
Qed.

(* exactly one assignment of s remains and it is the new one *)
Lemma reassign_single l s e :
  existsb (is_assign_of s) l = true -> filter (is_assign_of s) (reassign l s e) = [Assign s e].
Proof.
  intros H. unfold reassign. rewrite filter_rev, reassign_rev_count_true; [reflexivity|].
  rewrite existsb_rev. exact H.
Qed.

Lemma reassign_absent l s e :
  existsb (is_assign_of s) l = false -> reassign l s e = l.
Proof.
  intros H. unfold reassign.
  assert (G : forall rl last, existsb (is_assign_of s) rl = false -> reassign_rev s e rl last = rl).
  { induction rl as [|st rl IH]; intros last Hx; cbn [reassign_rev existsb] in *; [reflexivity|].
    apply orb_false_iff in Hx. destruct Hx as [E Hx]. rewrite E. f_equal. apply IH. exact Hx. }
  rewrite G; [apply rev_involutive | rewrite existsb_rev; exact H].
Qed.

(* ---------- dependencies: soundness of the backward scan ---------- *)
Section Deps.
  Variable fi : finterp.
  Variable ode : id -> list (option Q) -> option Q.

  Lemma exec_app r l1 l2 : exec fi ode r (l1 ++ l2) = exec fi ode (exec fi ode r l1) l2.
  Proof. revert r. induction l1 as [|st l1 IH]; intros r; [reflexivity|]. cbn [app exec]. apply IH. Qed.

  Lemma exec1_untouched r st x : ~ In x (defs st) -> exec1 fi ode r st x = r x.
  Proof.
    intros H. destruct st as [s e|amts rh]; cbn [exec1 defs] in *.
    - unfold upd. destruct (Pos.eqb x s) eqn:E; [|reflexivity].
      apply Pos.eqb_eq in E. subst. exfalso. apply H. left. reflexivity.
    - unfold upd_list. destruct (memp x amts) eqn:E; [|reflexivity].
      apply memp_In in E. contradiction.
  Qed.

  Lemma exec_untouched l : forall r x, (forall st, In st l -> ~ In x (defs st)) -> exec fi ode r l x = r x.
  Proof.
    induction l as [|st l IH]; intros r x H; [reflexivity|]. cbn [exec].
    rewrite IH; [|intros st' Hin; apply H; right; exact Hin].
    apply exec1_untouched. apply H. left. reflexivity.
  Qed.

  (* one statement: if the environments agree on what the statement reads, the defined symbols agree *)
  Lemma exec1_defs_agree r r' st x :
    agree_on (rhs st) r r' -> In x (defs st) -> exec1 fi ode r st x = exec1 fi ode r' st x.
  Proof.
    intros Hag Hx. destruct st as [s e|amts rh]; cbn [exec1 defs rhs] in *.
    - destruct Hx as [<-|[]]. unfold upd. rewrite Pos.eqb_refl. apply eval_coincidence. exact Hag.
    - unfold upd_list. apply memp_In in Hx. rewrite Hx. f_equal. apply map_ext_in. exact Hag.
  Qed.

  Lemma dep_scan_sound : forall pl N r r',
    agree_on (dep_scan (rev pl) N) r r' ->
    agree_on N (exec fi ode r pl) (exec fi ode r' pl).
  Proof.
    induction pl as [|st pl IH] using rev_ind; intros N r r' H.
    - exact H.
    - rewrite rev_app_distr in H. cbn [rev app dep_scan] in H.
      rewrite !exec_app. cbn [exec].
      destruct (interp_nonempty (defs st) N) eqn:E.
      + apply IH in H. intros x Hx.
        destruct (memp x (defs st)) eqn:Ed.
        * apply memp_In in Ed. apply exec1_defs_agree; [|exact Ed].
          intros y Hy. apply H. apply In_unionp. right. exact Hy.
        * assert (Hn : ~ In x (defs st)) by (intro Hin; apply memp_In in Hin; congruence).
          rewrite !exec1_untouched by exact Hn. apply H. apply In_unionp. left.
          apply In_diffp. split; assumption.
      + apply IH in H. intros x Hx.
        assert (Hn : ~ In x (defs st)).
        { intro Hin. assert (interp_nonempty (defs st) N = true) by (apply interp_nonempty_spec; eauto).
          congruence. }
        rewrite !exec1_untouched by exact Hn. apply H. exact Hx.
  Qed.

  Lemma split_at (l : list stmt) i : i < length l -> l = firstn i l ++ nths l i :: skipn (S i) l.
  Proof.
    revert i. induction l as [|st l IH]; intros i H; cbn [length] in H; [lia|].
    destruct i as [|i]; [reflexivity|]. cbn [firstn skipn app]. unfold nths. cbn [nth]. f_equal.
    apply IH. lia.
  Qed.

  Lemma skipn_nth (l : list stmt) i st : In st (skipn (S i) l) -> exists j, i < j /\ j < length l /\ st = nths l j.
  Proof.
    revert i. induction l as [|a l IH]; intros i H; [destruct i; cbn in H; contradiction|].
    destruct i as [|i].
    - cbn [skipn] in H. destruct (In_nth _ _ dummy H) as [k [Hk Hn]].
      exists (S k). cbn [length]. repeat split; try lia. unfold nths. cbn [nth]. symmetry. exact Hn.
    - cbn [skipn] in H. apply IH in H. destruct H as [j [H1 [H2 H3]]].
      exists (S j). cbn [length]. repeat split; try lia. unfold nths in *. cbn [nth]. exact H3.
  Qed.

  Lemma dependencies_sound_lemma l s D r r' :
    dependencies l s = Ok D -> agree_on D r r' ->
    exec fi ode r l s = exec fi ode r' l s.
  Proof.
    unfold dependencies. destruct (find_def_index l s) as [i|] eqn:Ef; [|discriminate].
    intros H Hag. injection H as <-.
    apply find_last_spec in Ef. destruct Ef as [Hi [Hdef Hlater]].
    rewrite (split_at l i Hi). rewrite !exec_app. cbn [exec].
    assert (Hrest : forall st, In st (skipn (S i) l) -> ~ In s (defs st)).
    { intros st Hin Hd. apply skipn_nth in Hin. destruct Hin as [j [H1 [H2 ->]]].
      specialize (Hlater j H1 H2). unfold defines in Hlater. apply memp_In in Hd. congruence. }
    rewrite !exec_untouched by exact Hrest.
    apply exec1_defs_agree; [|unfold defines in Hdef; apply memp_In; exact Hdef].
    apply dep_scan_sound. exact Hag.
  Qed.
End Deps.

(* ---------- dependencies: exactness (= symbols of the full expansion) when there is no system ---- *)
Lemma subs_notin s t :
  (forall e, ~ In s (free_syms e) -> subs s t e = e) /\
  (forall c, ~ In s (free_symsc c) -> subsc s t c = c).
Proof.
  apply expr_cond_mut; intros; cbn [subs subsc free_syms free_symsc] in *; try reflexivity;
    unfold not in *;
    repeat match goal with
           | H : In _ (_ ++ _) -> False |- _ =>
               let H1 := fresh in let H2 := fresh in
               assert (H1 := fun h => H (in_or_app _ _ _ (or_introl h)));
               assert (H2 := fun h => H (in_or_app _ _ _ (or_intror h))); clear H
           end;
    repeat match goal with
           | IH : (In s ?l -> False) -> _ = _, H : In s ?l -> False |- _ => rewrite (IH H); clear IH
           end; try reflexivity.
  destruct (Pos.eqb s0 s) eqn:E; [|reflexivity].
  apply Pos.eqb_eq in E. subst. exfalso. apply H. left. reflexivity.
Qed.

Lemma free_syms_subs_back s t :
  (forall e x, (In x (free_syms e) /\ x <> s) \/ (In s (free_syms e) /\ In x (free_syms t)) ->
               In x (free_syms (subs s t e))) /\
  (forall c x, (In x (free_symsc c) /\ x <> s) \/ (In s (free_symsc c) /\ In x (free_syms t)) ->
               In x (free_symsc (subsc s t c))).
Proof.
  apply expr_cond_mut; intros; cbn [subs subsc free_syms free_symsc] in *;
    match goal with H : _ \/ _ |- _ => destruct H as [[Hx Hn]|[Hs Hx]] end;
    try (exfalso; assumption);
    repeat match goal with H : In _ (_ ++ _) |- _ => apply in_app_or in H; destruct H end;
    repeat rewrite in_app_iff; auto 8.
  - destruct Hx as [<-|[]]. destruct (Pos.eqb s0 s) eqn:E; [apply Pos.eqb_eq in E; contradiction | left; reflexivity].
  - destruct Hs as [<-|[]]. rewrite Pos.eqb_refl. exact Hx.
Qed.

Lemma free_syms_subs_iff s t e x :
  In x (free_syms (subs s t e)) <->
  (In x (free_syms e) /\ x <> s) \/ (In s (free_syms e) /\ In x (free_syms t)).
Proof. split; [apply free_syms_subs | apply free_syms_subs_back]. Qed.

Definition set_equiv (a b : list id) : Prop := forall x, In x a <-> In x b.

Lemma dep_scan_exact : forall rl N e,
  has_ode rl = false -> set_equiv N (free_syms e) ->
  set_equiv (dep_scan rl N) (free_syms (fold_left subs_stmt rl e)).
Proof.
  induction rl as [|st rl IH]; intros N e Ho Heq; [exact Heq|].
  destruct st as [s t|a rh]; [|cbn in Ho; discriminate].
  cbn [dep_scan fold_left subs_stmt defs rhs]. cbn [has_ode existsb] in Ho.
  destruct (interp_nonempty [s] N) eqn:E.
  - apply IH; [exact Ho|]. intros x. rewrite In_unionp, In_diffp, free_syms_subs_iff.
    apply interp_nonempty_spec in E. destruct E as [y [[<-|[]] Hy]].
    pose proof (Heq x) as Hx1. pose proof (Heq s) as Hs1. cbn [In]. split.
    + intros [[H1 H2]|H];
        [left; split; [apply Hx1; exact H1 | intro; subst; apply H2; auto]
        | right; split; [apply Hs1; exact Hy | exact H]].
    + intros [[H1 H2]|[_ H]];
        [left; split; [apply Hx1; exact H1 | intros [->|[]]; apply H2; reflexivity] | right; exact H].
  - assert (Hn : ~ In s (free_syms e)).
    { intro Hin. apply Heq in Hin.
      assert (interp_nonempty [s] N = true) by (apply interp_nonempty_spec; exists s; split; [left; reflexivity | exact Hin]).
      congruence. }
    rewrite (proj1 (subs_notin s t) e Hn). apply IH; assumption.
Qed.

Lemma has_ode_rev l : has_ode (rev l) = has_ode l.
Proof. unfold has_ode. apply existsb_rev. Qed.

Lemma dependencies_exact_lemma l i s e :
  nths l i = Assign s e -> has_ode (firstn i l) = false ->
  set_equiv (dependencies_at l i) (free_syms (fold_left subs_stmt (rev (firstn i l)) e)).
Proof.
  intros Hn Ho. unfold dependencies_at. rewrite Hn. cbn [rhs].
  apply dep_scan_exact; [rewrite has_ode_rev; exact Ho | intros x; reflexivity].
Qed.

Lemma dependencies_total_lemma l s :
  (exists D, dependencies l s = Ok D) \/ (dependencies l s = Err KeyError /\ forall st, In st l -> defines s st = false).
Proof.
  unfold dependencies. destruct (find_def_index l s) as [i|] eqn:E.
  - left. eauto.
  - right. split; [reflexivity|]. apply find_last_none. exact E.
Qed.
