(* PV.C10.Properties — the property theorems of C10 and nothing else. *)
From Coq Require Import QArith List Bool PArith Arith.
From PV Require Import Base.PyData Base.Expr Base.Stmts C10.Model C10.Proofs C10.ProofsRsd C10.ProofsSubs.
From PV Require Import C10.ModelUnused C10.ProofsUnused C10.ProofsUnused2 C10.ProofsCov C10.ProofsOde C10.ProofsReassign C10.ProofsRename.

(* Expanding an expression to its full definition evaluates to the same value as executing the
   statements in order: for every statement list without a compartmental system (on which the
   query refuses), every interpretation of function symbols, every environment, every expression. *)
Theorem full_expression_sound :
  forall (fi : finterp) (ode : id -> list (option Q) -> option Q) (l : list stmt) (r : env) (e e' : expr),
    full_expression l e = Some e' ->
    eval r fi e' = eval (exec fi ode r l) fi e.
Proof. exact full_expression_sound_lemma. Qed.

Theorem full_expression_total :
  forall (l : list stmt) (e : expr), has_ode l = false -> exists e', full_expression l e = Some e'.
Proof. exact full_expression_total. Qed.

(* Removing a set of statements that is dataflow-safe (no remaining statement reads a symbol whose
   latest definition was removed) never changes the value of any symbol that is still clean at the
   end — for every program, removal set, interpretation, ODE oracle and environment. *)
Theorem remove_defs_safe :
  forall (fi : finterp) (ode : id -> list (option Q) -> option Q) (l : list stmt) (rem : list nat) (r : env) (x : id),
    g_remove_safe l rem = true -> ~ In x (dirty_after l rem) ->
    exec fi ode r (keep_indices l rem) x = exec fi ode r l x.
Proof. exact remove_safe_preserves. Qed.

(* find_assignment_index returns the LAST assignment of the symbol, None iff there is none. *)
Theorem find_assignment_last :
  forall (l : list stmt) (s : id) (i : nat),
    find_assignment_index l s = Some i ->
    (i < length l)%nat /\ is_assign_of s (nths l i) = true /\
    forall j, (i < j)%nat -> (j < length l)%nat -> is_assign_of s (nths l j) = false.
Proof. exact find_assignment_index_last. Qed.

Theorem find_assignment_none :
  forall (l : list stmt) (s : id),
    find_assignment_index l s = None -> forall st, In st l -> is_assign_of s st = false.
Proof. exact find_assignment_index_none. Qed.

(* reassign is a sequential program edit: all other statements are kept in order, exactly one
   assignment of the symbol remains (the new one), and nothing happens when it was never assigned. *)
Theorem reassign_keeps_others :
  forall (l : list stmt) (s : id) (e : expr),
    filter (not_assign_of s) (reassign l s e) = filter (not_assign_of s) l.
Proof. exact reassign_others. Qed.

Theorem reassign_single_assignment :
  forall (l : list stmt) (s : id) (e : expr),
    existsb (is_assign_of s) l = true -> filter (is_assign_of s) (reassign l s e) = (Assign s e :: nil).
Proof. exact reassign_single. Qed.

Theorem reassign_unassigned :
  forall (l : list stmt) (s : id) (e : expr),
    existsb (is_assign_of s) l = false -> reassign l s e = l.
Proof. exact reassign_absent. Qed.

(* The reported dependencies always include every symbol the value can depend on: two initial
   environments that agree on the reported set give the symbol the same value after executing the
   whole list — every program (reassignments, self references, piecewise, compartmental systems
   with an arbitrary solver oracle), every interpretation, no side condition. *)
Theorem dependencies_sound :
  forall (fi : finterp) (ode : id -> list (option Q) -> option Q) (l : list stmt) (s : id) (D : list id) (r r' : env),
    dependencies l s = Ok D -> agree_on D r r' ->
    exec fi ode r l s = exec fi ode r' l s.
Proof. exact dependencies_sound_lemma. Qed.

(* ... and they are exactly the symbols occurring in the full expansion of the defining
   expression over the preceding statements (when no compartmental system precedes it). *)
Theorem dependencies_exact :
  forall (l : list stmt) (i : nat) (s : id) (e : expr),
    nths l i = Assign s e -> has_ode (firstn i l) = false ->
    forall x, In x (dependencies_at l i) <-> In x (free_syms (fold_left subs_stmt (rev (firstn i l)) e)).
Proof. exact dependencies_exact_lemma. Qed.

(* dependencies answers for every symbol that is defined (no internal error), KeyError otherwise *)
Theorem dependencies_total :
  forall (l : list stmt) (s : id),
    (exists D, dependencies l s = Ok D) \/ (dependencies l s = Err KeyError /\ forall st, In st l -> defines s st = false).
Proof. exact dependencies_total_lemma. Qed.

(* remove_symbol_definitions (as repaired): for EVERY program, symbol list and statement index, no
   remaining statement has a dependency edge to a removed definition ... *)
Theorem remove_symbol_definitions_closed :
  forall (l : list stmt) (syms : list id) (ri : nat),
    g_remove_closed l (rsd_remove_set l syms ri) = true.
Proof. exact rsd_closed. Qed.

(* ... and therefore the value of every symbol whose latest definition remains is unchanged. *)
Theorem remove_symbol_definitions_preserves :
  forall (fi : finterp) (ode : id -> list (option Q) -> option Q) (l : list stmt) (syms : list id) (ri : nat)
         (r : env) (x : id),
    ~ In x (dirty_after l (rsd_remove_set l syms ri)) ->
    exec fi ode r (remove_symbol_definitions l syms ri) x = exec fi ode r l x.
Proof.
  intros fi ode l syms ri r x H. apply remove_safe_preserves; [apply rsd_safe | exact H].
Qed.

(* Statements.subs as a program edit: substituting never-assigned symbols by expressions over
   never-assigned symbols equals running the original program in the environment in which those
   symbols have the values of their replacements (all programs without a system, all maps). *)
Theorem subs_leaf_is_environment_update :
  forall (fi : finterp) (ode : id -> list (option Q) -> option Q) (m : list (id * expr)) (l : list stmt) (r : env) (x : id),
    g_subs_leaf m l = true -> alookup m x = None ->
    exec fi ode r (subs_stmts m l) x = exec fi ode (upd_map r fi m) l x.
Proof. exact subs_leaf_sound. Qed.

(* ---- remove_unused_parameters_and_rvs / _get_unused_parameters_and_rvs (C10/ModelUnused.v) ----------
   For EVERY statement list (assignments, piecewise, compartmental systems), parameter list and random
   variable collection (single normal and joint normal distributions of any size): *)

(* every parameter and every random variable that the call removes occurs in no statement ... *)
Theorem unused_removed_occur_in_no_statement :
  forall (l : list stmt) (params : list param) (rvs : list dist) (y : id),
    In y (removed_names l params rvs) -> ~ In y (stmts_free l).
Proof. exact removed_not_in_statements. Qed.

(* ... hence has no influence on any statement: two initial environments that differ only on removed
   names give every other symbol the same value after executing the whole list, for every
   interpretation of the function symbols and every ODE solver oracle. *)
Theorem unused_removal_has_no_influence :
  forall (fi : finterp) (ode : id -> list (option Q) -> option Q) (l : list stmt) (params : list param)
         (rvs : list dist) (r r' : env) (y : id),
    (forall z, ~ In z (removed_names l params rvs) -> r z = r' z) ->
    ~ In y (removed_names l params rvs) ->
    exec fi ode r l y = exec fi ode r' l y.
Proof. exact removal_no_influence_lemma. Qed.

(* Everything that occurs in a statement is kept. *)
Theorem used_parameter_kept :
  forall (l : list stmt) (params : list param) (rvs : list dist) (p : param),
    In p params -> In (p_sym p) (stmts_free l) -> In p (new_params l params rvs).
Proof. exact used_param_kept_lemma. Qed.

Theorem used_rv_kept :
  forall (l : list stmt) (rvs : list dist) (n : id),
    In n (rvs_names rvs) -> In n (stmts_free l) -> In n (rvs_names (new_rvs l rvs)).
Proof. exact used_rv_kept_lemma. Qed.

(* Exactness for parameters: the kept parameters are exactly the input parameters that occur in a
   statement, or in a kept distribution, or are fixed to 0 (the exemption the code makes on purpose). *)
Theorem kept_parameters_exact :
  forall (l : list stmt) (params : list param) (rvs : list dist) (p : param),
    In p (new_params l params rvs) <->
    In p params /\ (In (p_sym p) (stmts_free l) \/ In (p_sym p) (rvs_free (new_rvs l rvs)) \/ fixed_zero p = true).
Proof. exact new_params_spec. Qed.

(* Exactness for random variables, direction "nothing is kept without a reason": every kept random
   variable is a random variable of the input that occurs in a statement, or whose mean or own row of the
   covariance matrix mentions a symbol that occurs in a statement. *)
Theorem kept_rv_has_reason :
  forall (l : list stmt) (rvs : list dist) (n : id),
    In n (rvs_names (new_rvs l rvs)) -> exists d, In d rvs /\ rv_reason (stmts_free l) d n = true.
Proof. exact kept_rv_has_reason_lemma. Qed.

Theorem kept_rvs_are_input_rvs :
  forall (l : list stmt) (rvs : list dist) (n : id),
    In n (rvs_names (new_rvs l rvs)) -> In n (rvs_names rvs).
Proof. exact new_rvs_names_incl. Qed.

(* a removed parameter is not needed by a remaining distribution either *)
Theorem removed_parameter_not_in_kept_distribution :
  forall (l : list stmt) (params : list param) (rvs : list dist) (p : param),
    In p params -> ~ In p (new_params l params rvs) -> ~ In (p_sym p) (rvs_free (new_rvs l rvs)).
Proof. exact removed_param_not_in_rvs. Qed.

(* Exactness for random variables, converse direction: in a well-formed collection (unique names, square
   symmetric covariance matrices — what a RandomVariables object is) every random variable with a reason
   is kept: it occurs in a statement, or its mean or a parameter of its own row of the covariance matrix
   does.  Together with kept_rv_has_reason: kept <-> reason. *)
Theorem rv_with_reason_kept :
  forall (l : list stmt) (rvs : list dist) (d : dist) (n : id),
    wf_rvs rvs = true -> In d rvs -> rv_reason (stmts_free l) d n = true ->
    In n (rvs_names (new_rvs l rvs)).
Proof. exact rv_with_reason_kept_lemma. Qed.

(* ---- dependencies through the ODE system ------------------------------------------------------------
   s is defined by the last statement, after a compartmental system; its defining expression reads the
   amount a (not reassigned in between); the system reads y and y is never assigned before the system (a
   parameter, random variable or data column): then y is among the reported dependencies of s — for every
   prefix, system, middle part and expression. *)
Theorem dependencies_through_ode :
  forall (pre : list stmt) (amts rh : list id) (mid : list stmt) (s : id) (e : expr) (a y : id) (D : list id),
    In a amts -> In a (free_syms e) -> (forall st, In st mid -> ~ In a (defs st)) ->
    In y rh -> (forall st, In st pre -> ~ In y (defs st)) ->
    dependencies (pre ++ Ode amts rh :: mid ++ (Assign s e :: nil)) s = Ok D -> In y D.
Proof. exact dependencies_through_ode_lemma. Qed.

(* dependencies_sound (above) holds for every solver oracle that is given the values of the system's free
   symbols.  The same for a solver that may inspect the WHOLE environment, under the explicit hypothesis
   that its answer only depends on the values of the system's free symbols: *)
Theorem dependencies_sound_env_oracle :
  forall (fi : finterp) (odeg : list id -> list id -> id -> env -> option Q),
    (forall amts rh a r r', agree_on rh r r' -> odeg amts rh a r = odeg amts rh a r') ->
    forall (l : list stmt) (s : id) (D : list id) (r r' : env),
      dependencies l s = Ok D -> agree_on D r r' ->
      execg fi odeg r l s = execg fi odeg r' l s.
Proof. exact dependencies_sound_env_oracle_lemma. Qed.

(* ---- find_assignment / reassign / subs as sequential program edits, at the level of values ----------
   find_assignment returns the statement that determines the final value of the symbol (unless a later
   compartmental system has it among its amounts). *)
Theorem find_assignment_value :
  forall (fi : finterp) (ode : id -> list (option Q) -> option Q) (l : list stmt) (s : id) (i : nat) (r : env),
    find_assignment_index l s = Some i -> g_not_overwritten l s = true ->
    exists e, find_assignment l s = Some (Assign s e) /\
              exec fi ode r l s = eval (exec fi ode r (firstn i l)) fi e.
Proof. exact find_assignment_value_lemma. Qed.

(* after reassign s e the program computes for s the value of e in the state reached by the statements
   that preceded the last assignment of s (the earlier assignments of s being deleted) ... *)
Theorem reassign_value :
  forall (fi : finterp) (ode : id -> list (option Q) -> option Q) (l : list stmt) (s : id) (e : expr) (r : env),
    g_not_overwritten l s = true ->
    exec fi ode r (reassign l s e) s = eval (exec fi ode r (before_last_assignment l s)) fi e.
Proof. exact reassign_value_lemma. Qed.

(* ... and every symbol that does not (transitively, with shadowing) depend on an assignment of s keeps
   its value: for every program, symbol, expression, environment, interpretation and ODE oracle. *)
Theorem reassign_preserves_untainted :
  forall (fi : finterp) (ode : id -> list (option Q) -> option Q) (l : list stmt) (s : id) (e : expr) (r : env) (x : id),
    ~ In x (reassign_taint l s) -> exec fi ode r (reassign l s e) x = exec fi ode r l x.
Proof. exact reassign_untainted_lemma. Qed.

(* Statements.subs({A: Z}) for an ASSIGNED symbol A and a fresh Z is a consistent renaming: started with
   Z holding A's initial value, the renamed program computes for Z what the original computes for A, and
   the same value for every other symbol. *)
Theorem subs_rename_assigned_symbol :
  forall (fi : finterp) (ode : id -> list (option Q) -> option Q) (a z : id) (l : list stmt) (r : env),
    g_rename a z l = true ->
    exec fi ode (upd r z (r a)) (subs_stmts ((a, Sym z) :: nil) l) z = exec fi ode r l a /\
    forall x, x <> a -> x <> z ->
      exec fi ode (upd r z (r a)) (subs_stmts ((a, Sym z) :: nil) l) x = exec fi ode r l x.
Proof. exact subs_rename_lemma. Qed.

(* The call does not change the distribution of what remains (the unjoin inside
   _get_unused_parameters_and_rvs): in a well-formed collection, any two random variables n, m (n = m
   included) that are in one distribution d' after the call were in one distribution d before it and have the
   covariance entry — looked up by NAME — they had there; for a variable that became a single normal
   distribution this is its former variance.  Every statement list, every collection, every block size. *)
Theorem kept_covariances_unchanged :
  forall (l : list stmt) (rvs : list dist) (d' : dist) (n m : id),
    wf_rvs rvs = true -> In d' (new_rvs l rvs) -> In n (dist_names d') -> In m (dist_names d') ->
    exists d, In d rvs /\ In n (dist_names d) /\ In m (dist_names d) /\ dist_cov d' n m = dist_cov d n m.
Proof. exact kept_covariances_unchanged_lemma. Qed.
