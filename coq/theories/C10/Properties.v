(* PV.C10.Properties — the property theorems of C10 and nothing else. *)
From Coq Require Import QArith List Bool PArith Arith.
From PV Require Import Base.PyData Base.Expr Base.Stmts C10.Model C10.Proofs C10.ProofsRsd C10.ProofsSubs.

(* Expanding an expression to its full definition evaluates to the same value as executing the
   statements in order: for every statement list without a compartmental system (on which the
   query refuses), every interpretation of function symbols, every environment, every expression. *)
Theorem full_expression_sound :
  forall (fi : finterp) (ode : id -> list (option Q) -> option Q) (l : list stmt) (r : env) (e e' : expr),
    full_expression l e = Some e' ->
    eval r fi e' = eval (exec fi ode r l) fi e.
Proof. exact full_expression_sound_lemma. Qed.

Theorem full_expression_total :
  forall (l : list stmt) (e : expr), has_ode l = false -> exists e', full_expression l e = Some e'.
Proof. exact full_expression_total. Qed.

(* Removing a set of statements that is dataflow-safe (no remaining statement reads a symbol whose
   latest definition was removed) never changes the value of any symbol that is still clean at the
   end — for every program, removal set, interpretation, ODE oracle and environment. *)
Theorem remove_defs_safe :
  forall (fi : finterp) (ode : id -> list (option Q) -> option Q) (l : list stmt) (rem : list nat) (r : env) (x : id),
    g_remove_safe l rem = true -> ~ In x (dirty_after l rem) ->
    exec fi ode r (keep_indices l rem) x = exec fi ode r l x.
Proof. exact remove_safe_preserves. Qed.

(* find_assignment_index returns the LAST assignment of the symbol, None iff there is none. *)
Theorem find_assignment_last :
  forall (l : list stmt) (s : id) (i : nat),
    find_assignment_index l s = Some i ->
    (i < length l)%nat /\ is_assign_of s (nths l i) = true /\
    forall j, (i < j)%nat -> (j < length l)%nat -> is_assign_of s (nths l j) = false.
Proof. exact find_assignment_index_last. Qed.

Theorem find_assignment_none :
  forall (l : list stmt) (s : id),
    find_assignment_index l s = None -> forall st, In st l -> is_assign_of s st = false.
Proof. exact find_assignment_index_none. Qed.

(* reassign is a sequential program edit: all other statements are kept in order, exactly one
   assignment of the symbol remains (the new one), and nothing happens when it was never assigned. *)
Theorem reassign_keeps_others :
  forall (l : list stmt) (s : id) (e : expr),
    filter (not_assign_of s) (reassign l s e) = filter (not_assign_of s) l.
Proof. exact reassign_others. Qed.

Theorem reassign_single_assignment :
  forall (l : list stmt) (s : id) (e : expr),
    existsb (is_assign_of s) l = true -> filter (is_assign_of s) (reassign l s e) = (Assign s e :: nil).
Proof. exact reassign_single. Qed.

Theorem reassign_unassigned :
  forall (l : list stmt) (s : id) (e : expr),
    existsb (is_assign_of s) l = false -> reassign l s e = l.
Proof. exact reassign_absent. Qed.

(* The reported dependencies always include every symbol the value can depend on: two initial
   environments that agree on the reported set give the symbol the same value after executing the
   whole list — every program (reassignments, self references, piecewise, compartmental systems
   with an arbitrary solver oracle), every interpretation, no side condition. *)
Theorem dependencies_sound :
  forall (fi : finterp) (ode : id -> list (option Q) -> option Q) (l : list stmt) (s : id) (D : list id) (r r' : env),
    dependencies l s = Ok D -> agree_on D r r' ->
    exec fi ode r l s = exec fi ode r' l s.
Proof. exact dependencies_sound_lemma. Qed.

(* ... and they are exactly the symbols occurring in the full expansion of the defining
   expression over the preceding statements (when no compartmental system precedes it). *)
Theorem dependencies_exact :
  forall (l : list stmt) (i : nat) (s : id) (e : expr),
    nths l i = Assign s e -> has_ode (firstn i l) = false ->
    forall x, In x (dependencies_at l i) <-> In x (free_syms (fold_left subs_stmt (rev (firstn i l)) e)).
Proof. exact dependencies_exact_lemma. Qed.

(* dependencies answers for every symbol that is defined (no internal error), KeyError otherwise *)
Theorem dependencies_total :
  forall (l : list stmt) (s : id),
    (exists D, dependencies l s = Ok D) \/ (dependencies l s = Err KeyError /\ forall st, In st l -> defines s st = false).
Proof. exact dependencies_total_lemma. Qed.

(* remove_symbol_definitions (as repaired): for EVERY program, symbol list and statement index, no
   remaining statement has a dependency edge to a removed definition ... *)
Theorem remove_symbol_definitions_closed :
  forall (l : list stmt) (syms : list id) (ri : nat),
    g_remove_closed l (rsd_remove_set l syms ri) = true.
Proof. exact rsd_closed. Qed.

(* ... and therefore the value of every symbol whose latest definition remains is unchanged. *)
Theorem remove_symbol_definitions_preserves :
  forall (fi : finterp) (ode : id -> list (option Q) -> option Q) (l : list stmt) (syms : list id) (ri : nat)
         (r : env) (x : id),
    ~ In x (dirty_after l (rsd_remove_set l syms ri)) ->
    exec fi ode r (remove_symbol_definitions l syms ri) x = exec fi ode r l x.
Proof.
  intros fi ode l syms ri r x H. apply remove_safe_preserves; [apply rsd_safe | exact H].
Qed.

(* Statements.subs as a program edit: substituting never-assigned symbols by expressions over
   never-assigned symbols equals running the original program in the environment in which those
   symbols have the values of their replacements (all programs without a system, all maps). *)
Theorem subs_leaf_is_environment_update :
  forall (fi : finterp) (ode : id -> list (option Q) -> option Q) (m : list (id * expr)) (l : list stmt) (r : env) (x : id),
    g_subs_leaf m l = true -> alookup m x = None ->
    exec fi ode r (subs_stmts m l) x = exec fi ode (upd_map r fi m) l x.
Proof. exact subs_leaf_sound. Qed.
