From Coq Require Import QArith List Bool PArith Arith Lia.
From PV Require Import Base.PyData Base.Expr Base.Stmts C10.Model C10.Proofs.
Import ListNotations.
Local Open Scope nat_scope.

Section SubsLeaf.
  Variable fi : finterp.
  Variable ode : id -> list (option Q) -> option Q.

  Lemma eval_ext r r' e : (forall x, r x = r' x) -> eval r fi e = eval r' fi e.
  Proof. intros H. apply eval_coincidence. intros x _. apply H. Qed.

  Lemma alookup_In {A} (m : list (id * A)) x v : alookup m x = Some v -> In (x, v) m.
  Proof.
    induction m as [|[k w] m IH]; cbn [alookup]; [discriminate|].
    destruct (Pos.eqb k x) eqn:E; intros H.
    - apply Pos.eqb_eq in E. subst. injection H as <-. left. reflexivity.
    - right. apply IH. exact H.
  Qed.

  Definition subs_inv (m : list (id * expr)) (r r' : env) : Prop :=
    forall x, r' x = match alookup m x with Some t => eval r fi t | None => r x end.

  Lemma subs_leaf_lemma m : forall l r r',
    has_ode_any l = false ->
    (forall k t, In (k, t) m -> ~ In k (flat_map defs l) /\ forall y, In y (free_syms t) -> ~ In y (flat_map defs l)) ->
    subs_inv m r r' ->
    subs_inv m (exec fi ode r (subs_stmts m l)) (exec fi ode r' l).
  Proof.
    induction l as [|st l IH]; intros r r' Ho Hm Hinv; [exact Hinv|].
    destruct st as [s e|a rh]; [|cbn in Ho; discriminate].
    cbn [has_ode_any existsb orb] in Ho. cbn [subs_stmts map subs_stmt_map exec exec1].
    assert (Hs : alookup m s = None).
    { destruct (alookup m s) as [t|] eqn:E; [|reflexivity]. exfalso.
      apply alookup_In in E. apply (Hm _ _ E). cbn [flat_map defs app]. left. reflexivity. }
    unfold subs_lhs. rewrite Hs.
    apply IH; [exact Ho | |].
    - intros k t Hin. destruct (Hm k t Hin) as [H1 H2]. cbn [flat_map defs app] in *. split.
      + intro H. apply H1. right. exact H.
      + intros y Hy H. apply (H2 y Hy). right. exact H.
    - intros x. unfold upd. destruct (Pos.eqb x s) eqn:E.
      + apply Pos.eqb_eq in E. subst x. rewrite Hs.
        rewrite (proj1 (subs_map_lemma r fi m)). apply eval_ext. intros y. rewrite Hinv. reflexivity.
      + rewrite Hinv. destruct (alookup m x) as [t|] eqn:Et; [|reflexivity].
        apply eval_coincidence. intros y Hy. destruct (Pos.eqb y s) eqn:Ey; [|reflexivity].
        apply Pos.eqb_eq in Ey. subst y. exfalso. apply alookup_In in Et.
        apply (proj2 (Hm _ _ Et) s Hy). cbn [flat_map defs app]. left. reflexivity.
  Qed.

  Lemma g_subs_leaf_spec m l : g_subs_leaf m l = true ->
    has_ode_any l = false /\
    forall k t, In (k, t) m -> ~ In k (flat_map defs l) /\ forall y, In y (free_syms t) -> ~ In y (flat_map defs l).
  Proof.
    unfold g_subs_leaf. intros H. apply andb_true_iff in H. destruct H as [H1 H2].
    apply negb_true_iff in H1. split; [exact H1|]. rewrite forallb_forall in H2.
    intros k t Hin. specialize (H2 _ Hin). cbn [fst snd] in H2. apply andb_true_iff in H2.
    destruct H2 as [Ha Hb]. apply negb_true_iff in Ha, Hb. split.
    - intro Hk. apply memp_In in Hk. congruence.
    - intros y Hy Hd. assert (interp_nonempty (free_syms t) (flat_map defs l) = true)
        by (apply interp_nonempty_spec; eauto). congruence.
  Qed.

  (* substituting never-assigned symbols by expressions over never-assigned symbols = running the
     original program in the environment where those symbols have the values of their replacements *)
  Lemma subs_leaf_sound m l r x :
    g_subs_leaf m l = true -> alookup m x = None ->
    exec fi ode r (subs_stmts m l) x = exec fi ode (upd_map r fi m) l x.
  Proof.
    intros Hg Hx. apply g_subs_leaf_spec in Hg. destruct Hg as [Ho Hm].
    assert (Hinv : subs_inv m r (upd_map r fi m)) by (intros y; reflexivity).
    pose proof (subs_leaf_lemma m l r (upd_map r fi m) Ho Hm Hinv x) as H.
    rewrite Hx in H. symmetry. exact H.
  Qed.
End SubsLeaf.
