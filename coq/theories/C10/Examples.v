(* PV.C10.Examples — non-vacuity: concrete non-trivial inputs meeting the hypotheses of the theorems. *)
From Coq Require Import QArith List Bool PArith Arith.
From PV Require Import Base.PyData Base.Expr Base.Interp Base.Stmts C10.Model C10.Refuted.
Import ListNotations.

(* T1=T; A=T1*2; B=7; Y=A : removing B (index 2) is safe and removes something *)
Definition ex_prog : list stmt :=
  [Assign sX (Sym sT); Assign sA (Mul (Sym sX) (Num 2)); Assign sB (Num 7); Assign sY (Sym sA)].

Example remove_safe_nonvacuous :
  g_remove_safe ex_prog [2%nat] = true /\ dirty_after ex_prog [2%nat] = [sB] /\
  length (keep_indices ex_prog [2%nat]) = 3%nat.
Proof. repeat split; vm_compute; reflexivity. Qed.

(* the implementation's own choice on a typical call is safe: remove X's definition chain *)
Example rsd_model_safe_example :
  rsd_remove_set ex_prog [sB] 3%nat = [2%nat] /\ g_remove_safe ex_prog (rsd_remove_set ex_prog [sB] 3%nat) = true.
Proof. split; vm_compute; reflexivity. Qed.

Example full_expression_example :
  full_expression ex_prog (Sym sY) = Some (Mul (Sym sT) (Num 2)).
Proof. vm_compute. reflexivity. Qed.

Example find_example : find_assignment_index (ex_prog ++ [Assign sA (Num 0)]) sA = Some 4%nat.
Proof. vm_compute. reflexivity. Qed.

Example reassign_example :
  existsb (is_assign_of sA) (ex_prog ++ [Assign sA (Num 0)]) = true /\
  reassign (ex_prog ++ [Assign sA (Num 0)]) sA (Num 9) =
  [Assign sX (Sym sT); Assign sB (Num 7); Assign sY (Sym sA); Assign sA (Num 9)].
Proof. split; vm_compute; reflexivity. Qed.

(* substituting the leaf T by U + 1 in ex_prog satisfies the guard of subs_leaf_is_environment_update *)
Example subs_guard_nonvacuous :
  g_subs_leaf [(sT, Add (Sym sC) (Num 1))] ex_prog = true /\
  subs_stmts [(sT, Add (Sym sC) (Num 1))] ex_prog <> ex_prog.
Proof. split; [vm_compute; reflexivity | vm_compute; discriminate]. Qed.
