(* PV.C10.Examples — non-vacuity: concrete non-trivial inputs meeting the hypotheses of the theorems. *)
From Coq Require Import QArith List Bool PArith Arith.
From PV Require Import Base.PyData Base.Expr Base.Interp Base.Stmts C10.Model C10.Refuted C10.ModelUnused C10.ProofsOde.
Import ListNotations.

(* T1=T; A=T1*2; B=7; Y=A : removing B (index 2) is safe and removes something *)
Definition ex_prog : list stmt :=
  [Assign sX (Sym sT); Assign sA (Mul (Sym sX) (Num 2)); Assign sB (Num 7); Assign sY (Sym sA)].

Example remove_safe_nonvacuous :
  g_remove_safe ex_prog [2%nat] = true /\ dirty_after ex_prog [2%nat] = [sB] /\
  length (keep_indices ex_prog [2%nat]) = 3%nat.
Proof. repeat split; vm_compute; reflexivity. Qed.

(* the implementation's own choice on a typical call is safe: remove X's definition chain *)
Example rsd_model_safe_example :
  rsd_remove_set ex_prog [sB] 3%nat = [2%nat] /\ g_remove_safe ex_prog (rsd_remove_set ex_prog [sB] 3%nat) = true.
Proof. split; vm_compute; reflexivity. Qed.

Example full_expression_example :
  full_expression ex_prog (Sym sY) = Some (Mul (Sym sT) (Num 2)).
Proof. vm_compute. reflexivity. Qed.

Example find_example : find_assignment_index (ex_prog ++ [Assign sA (Num 0)]) sA = Some 4%nat.
Proof. vm_compute. reflexivity. Qed.

Example reassign_example :
  existsb (is_assign_of sA) (ex_prog ++ [Assign sA (Num 0)]) = true /\
  reassign (ex_prog ++ [Assign sA (Num 0)]) sA (Num 9) =
  [Assign sX (Sym sT); Assign sB (Num 7); Assign sY (Sym sA); Assign sA (Num 9)].
Proof. split; vm_compute; reflexivity. Qed.

(* substituting the leaf T by U + 1 in ex_prog satisfies the guard of subs_leaf_is_environment_update *)
Example subs_guard_nonvacuous :
  g_subs_leaf [(sT, Add (Sym sC) (Num 1))] ex_prog = true /\
  subs_stmts [(sT, Add (Sym sC) (Num 1))] ex_prog <> ex_prog.
Proof. split; [vm_compute; reflexivity | vm_compute; discriminate]. Qed.

(* ---- remove_unused_parameters_and_rvs: A = TH1 + ETA1; Y = A + EPS with a 2x2 block (ETA1, ETA2), a single
   EPS, parameters TH1, TH2 (unused, fixed to 0), TH3 (unused), the block's and EPS's variance parameters:
   ETA2 is unjoined and removed together with OM21, OM22 and TH3; TH2 stays (fixed to 0). *)
Definition uTH1 : id := 11%positive. Definition uTH2 : id := 12%positive. Definition uTH3 : id := 13%positive.
Definition uETA1 : id := 14%positive. Definition uETA2 : id := 15%positive. Definition uEPS : id := 16%positive.
Definition uO11 : id := 17%positive. Definition uO21 : id := 18%positive. Definition uO22 : id := 19%positive.
Definition uSIG : id := 20%positive.
Definition u_prog : list stmt :=
  [Assign sA (Add (Sym uTH1) (Sym uETA1)); Assign sY (Add (Sym sA) (Sym uEPS))].
Definition u_rvs_ex : list dist :=
  [Joint [mkRow uETA1 [] [[uO11]; [uO21]]; mkRow uETA2 [] [[uO21]; [uO22]]]; Normal uEPS [] [uSIG]].
Definition u_params_ex : list param :=
  [mkParam uTH1 false 1; mkParam uTH2 true 0; mkParam uTH3 false 1; mkParam uO11 false 1;
   mkParam uO21 false 1; mkParam uO22 false 1; mkParam uSIG false 1].

Example unused_example :
  new_rvs u_prog u_rvs_ex = [Normal uETA1 [] [uO11]; Normal uEPS [] [uSIG]] /\
  map p_sym (new_params u_prog u_params_ex u_rvs_ex) = [uTH1; uTH2; uO11; uSIG] /\
  removed_names u_prog u_params_ex u_rvs_ex = [uTH3; uO21; uO22; uETA2] /\
  wf_rvs u_rvs_ex = true.
Proof. repeat split; vm_compute; reflexivity. Qed.

(* the reason predicate is satisfiable in both ways: by name (ETA1) and by a variance parameter that a
   statement mentions (ETA2 when OM22 occurs in a statement: the code keeps the whole block then) *)
Example rv_reason_example :
  rv_reason (stmts_free u_prog) (hd (Normal xH [] []) u_rvs_ex) uETA1 = true /\
  rv_reason (stmts_free u_prog) (hd (Normal xH [] []) u_rvs_ex) uETA2 = false /\
  rvs_names (new_rvs (u_prog ++ [Assign sB (Sym uO22)]) u_rvs_ex) = [uETA1; uETA2; uEPS].
Proof. repeat split; vm_compute; reflexivity. Qed.

(* hypotheses of rv_with_reason_kept: a well-formed collection and a reason that is only a covariance
   parameter (B = OM21 is the only mention): ETA2 has a reason and the whole block stays *)
Example rv_with_reason_kept_nonvacuous :
  wf_rvs u_rvs_ex = true /\
  rv_reason (stmts_free [Assign sB (Sym uO21)]) (hd (Normal xH [] []) u_rvs_ex) uETA2 = true /\
  rvs_names (new_rvs [Assign sB (Sym uO21)] u_rvs_ex) = [uETA1; uETA2] /\
  wf_rvs [Joint [mkRow uETA1 [] [[uO11]; [uO21]]; mkRow uETA2 [] [[uO22]; [uO22]]]] = false.
Proof. repeat split; vm_compute; reflexivity. Qed.

(* ---- dependencies through the ODE system: X = T*TH1; system with amount C reading X and U;
   B = C / V (after the system); X = 0 (shadowing after the system); Y = B + X *)
Definition ode_prog : list stmt :=
  [Assign sX (Mul (Sym sT) (Sym uTH1)); Ode [sC] [sX; sS];
   Assign sB (Div (Sym sC) (Sym uTH2)); Assign sX (Num 0); Assign sY (Add (Sym sB) (Sym sX))].
Example dependencies_through_ode_example :
  match dependencies ode_prog sY with Ok D => setp_eqb D [sT; uTH1; sS; uTH2] | _ => false end = true /\
  match dependencies (firstn 3 ode_prog) sB with Ok D => memp sS D && memp sT D | _ => false end = true.
Proof. split; vm_compute; reflexivity. Qed.

(* the locality hypothesis of dependencies_sound_env_oracle is satisfiable (by the oracle the
   correspondence checks use) *)
Example env_oracle_hypothesis_satisfiable :
  forall amts rh a r r', agree_on rh r r' -> std_odeg amts rh a r = std_odeg amts rh a r'.
Proof. exact std_odeg_local. Qed.

(* ---- reassign / find_assignment at the level of values: A = T; B = A; A = B + 1; Y = A + B *)
Definition re_prog : list stmt :=
  [Assign sA (Sym sT); Assign sB (Sym sA); Assign sA (Add (Sym sB) (Num 1)); Assign sY (Add (Sym sA) (Sym sB))].
Example reassign_value_example :
  g_not_overwritten re_prog sA = true /\ find_assignment_index re_prog sA = Some 2%nat /\
  before_last_assignment re_prog sA = [Assign sB (Sym sA)] /\
  reassign_taint re_prog sA = [sY; sA; sB; sA] /\
  reassign_taint re_prog sY = [sY] /\
  g_not_overwritten (re_prog ++ [Ode [sA] []]) sA = false.
Proof. repeat split; vm_compute; reflexivity. Qed.

Example rename_guard_nonvacuous :
  g_rename sA sC re_prog = true /\ g_rename sA sB re_prog = false /\
  subs_stmts [(sA, Sym sC)] re_prog =
  [Assign sC (Sym sT); Assign sB (Sym sC); Assign sC (Add (Sym sB) (Num 1)); Assign sY (Add (Sym sC) (Sym sB))].
Proof. repeat split; vm_compute; reflexivity. Qed.

(* kept_covariances_unchanged: a 3x3 block (ETA1, ETA2, EPS-as-third) whose middle variable is unused: the
   remaining 2x2 block has the corner entries of the original, looked up by name; the hypotheses hold *)
Definition u_rvs3 : list dist :=
  [Joint [mkRow uETA1 [] [[uO11]; [uO21]; [uTH3]]; mkRow uETA2 [] [[uO21]; [uO22]; []];
          mkRow uEPS [] [[uTH3]; []; [uSIG]]]].
Example kept_covariances_example :
  wf_rvs u_rvs3 = true /\
  new_rvs u_prog u_rvs3 = [Joint [mkRow uETA1 [] [[uO11]; [uTH3]]; mkRow uEPS [] [[uTH3]; [uSIG]]]] /\
  dist_cov (hd (Normal xH [] []) (new_rvs u_prog u_rvs3)) uETA1 uEPS = Some [uTH3] /\
  dist_cov (hd (Normal xH [] []) u_rvs3) uETA1 uEPS = Some [uTH3] /\
  dist_cov (hd (Normal xH [] []) u_rvs3) uEPS uEPS = Some [uSIG] /\
  dist_cov (hd (Normal xH [] []) (new_rvs u_prog u_rvs_ex)) uETA1 uETA1 = Some [uO11].
Proof. repeat split; vm_compute; reflexivity. Qed.
