(* PV.C10.Refuted — counter-models.  After the two fix: commits in /repo (dependencies backward scan,
   remove_symbol_definitions earlier users) no statement of C10 is refuted any more; the former
   witnesses are kept as regression examples of the repaired behaviour. *)
From Coq Require Import QArith List Bool PArith Arith.
From PV Require Import Base.PyData Base.Expr Base.Interp Base.Stmts C10.Model.
Import ListNotations.

Definition sA : id := 1%positive. Definition sB : id := 2%positive. Definition sX : id := 3%positive.
Definition sY : id := 4%positive. Definition sT : id := 5%positive. Definition sS : id := 6%positive.
Definition sC : id := 7%positive.


Definition stale_prog : list stmt :=
  [Assign sA (Sym sX); Assign sX (Sym sT); Assign sB (Sym sX); Assign sY (Add (Sym sA) (Sym sB))].
Definition inexact_prog : list stmt :=
  [Assign sX (Sym sT); Assign sB (Sym sX); Assign sA (Sym sB); Assign sY (Add (Sym sX) (Sym sA))].
Definition rsd_prog : list stmt :=
  [Assign sA (Num 1); Assign sB (Sym sA); Assign sS (Num 5); Assign sY (Add (Sym sS) (Sym sB))].

(* formerly {T}: the initial X is now reported *)
Example stale_fixed : match dependencies stale_prog sY with Ok D => setp_eqb D [sX; sT] | _ => false end = true.
Proof. vm_compute. reflexivity. Qed.
(* formerly {T, X} *)
Example inexact_fixed : match dependencies inexact_prog sY with Ok D => setp_eqb D [sT] | _ => false end = true.
Proof. vm_compute. reflexivity. Qed.
(* formerly NetworkXError *)
Example isolated_fixed :
  dependencies [Assign sA (Num 1); Assign sB (Sym sA); Assign sC (Sym sX)] sC = Ok [sX].
Proof. vm_compute. reflexivity. Qed.
(* formerly removed A=1 *)
Example rsd_fixed : rsd_remove_set rsd_prog [sA] 2%nat = [] /\ g_remove_safe rsd_prog (rsd_remove_set rsd_prog [sA] 2%nat) = true.
Proof. split; vm_compute; reflexivity. Qed.
