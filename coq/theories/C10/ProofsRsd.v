(* PV.C10.ProofsRsd — the removal set computed by remove_symbol_definitions (after the fix) is always
   closed under "a remaining statement reads a removed definition", hence dataflow-safe. *)
From Coq Require Import QArith List Bool PArith Arith Lia.
From PV Require Import Base.PyData Base.Expr Base.Stmts C10.Model C10.Proofs.
Import ListNotations.
Local Open Scope nat_scope.

Lemma In_desc x n : In x (desc n) <-> x < n.
Proof.
  induction n as [|n IH]; cbn [desc In]; [lia|]. rewrite IH. lia.
Qed.

Lemma In_diffn x a b : In x (diffn a b) <-> In x a /\ ~ In x b.
Proof.
  unfold diffn. rewrite filter_In, negb_true_iff. split; intros [H1 H2]; split; auto.
  - intro H. apply memn_In in H. congruence.
  - destruct (memn x b) eqn:E; [apply memn_In in E; contradiction | reflexivity].
Qed.

Lemma memn_false x l : memn x l = false <-> ~ In x l.
Proof.
  split.
  - intros H Hin. apply memn_In in Hin. congruence.
  - intros H. destruct (memn x l) eqn:E; [apply memn_In in E; contradiction | reflexivity].
Qed.

Lemma edge_lt l m k : edge l m k = true -> k < m /\ m < length l.
Proof.
  unfold edge. intros H. apply andb_true_iff in H. destruct H as [H1 H2].
  apply Nat.ltb_lt in H1. split; [exact H1|].
  destruct (Nat.lt_ge_cases m (length l)) as [Hl|Hg]; [exact Hl|].
  unfold nths in H2. rewrite (nth_overflow l dummy Hg) in H2. cbn [rhs dummy] in H2.
  apply interp_nonempty_spec in H2. destruct H2 as [x [_ []]].
Qed.

(* reach_scan: accumulator is kept, and everything in the result comes from acc or the scanned list *)
Lemma reach_scan_acc l : forall ks acc x, In x acc -> In x (reach_scan l ks acc).
Proof.
  induction ks as [|k ks IH]; intros acc x H; cbn [reach_scan]; [exact H|].
  destruct (memn k acc); [apply IH; exact H|].
  destruct (existsb (fun m => edge l m k) acc); apply IH; [right; exact H | exact H].
Qed.

Lemma reach_scan_from l : forall ks acc x, In x (reach_scan l ks acc) -> In x acc \/ In x ks.
Proof.
  induction ks as [|k ks IH]; intros acc x H; cbn [reach_scan] in H; [left; exact H|].
  destruct (memn k acc).
  - apply IH in H. destruct H; [left|right; right]; assumption.
  - destruct (existsb (fun m => edge l m k) acc).
    + apply IH in H. destruct H as [[<-|H]|H]; [right; left; reflexivity | left; exact H | right; right; exact H].
    + apply IH in H. destruct H; [left|right; right]; assumption.
Qed.

Lemma reach_scan_closed l : forall b acc m k,
  In m (reach_scan l (desc b) acc) -> edge l m k = true -> k < b -> In k (reach_scan l (desc b) acc).
Proof.
  induction b as [|b IH]; intros acc m k Hm He Hk; [lia|].
  cbn [desc reach_scan] in *.
  destruct (Nat.eq_dec k b) as [->|Hne].
  - (* k = b is the element being scanned: m > b so m is in acc *)
    apply edge_lt in He as Hlt. destruct Hlt as [Hlt _].
    assert (Hacc : In m acc).
    { destruct (memn b acc) eqn:Eb.
      - apply reach_scan_from in Hm. destruct Hm as [H|H]; [exact H | apply In_desc in H; lia].
      - destruct (existsb (fun m0 => edge l m0 b) acc) eqn:Ex.
        + apply reach_scan_from in Hm. destruct Hm as [[<-|H]|H]; [lia | exact H | apply In_desc in H; lia].
        + apply reach_scan_from in Hm. destruct Hm as [H|H]; [exact H | apply In_desc in H; lia]. }
    destruct (memn b acc) eqn:Eb.
    + apply reach_scan_acc. apply memn_In. exact Eb.
    + assert (Ex : existsb (fun m0 => edge l m0 b) acc = true)
        by (apply existsb_exists; exists m; split; assumption).
      rewrite Ex. apply reach_scan_acc. left. reflexivity.
  - assert (Hk' : k < b) by lia.
    destruct (memn b acc); [eapply IH; eassumption|].
    destruct (existsb (fun m0 => edge l m0 b) acc); eapply IH; eassumption.
Qed.

Lemma reach_closed l starts m k :
  In m (reach l starts) -> edge l m k = true -> In k (reach l starts).
Proof.
  intros Hm He. unfold reach in *. eapply reach_scan_closed; [exact Hm | exact He|].
  apply edge_lt in He. lia.
Qed.

Lemma reach_starts l starts x : In x starts -> In x (reach l starts).
Proof. apply reach_scan_acc. Qed.

Lemma succs_edge l k j : In j (succs l k) <-> edge l k j = true.
Proof.
  unfold succs. rewrite filter_In, In_desc. split; [intros [_ H]; exact H|].
  intros H. split; [apply edge_lt in H as H'|exact H]. unfold edge in H. apply andb_true_iff in H.
  destruct H as [H _]. apply Nat.ltb_lt in H. exact H.
Qed.

(* the removal set of remove_symbol_definitions is closed *)
Lemma rsd_closed l syms ri : g_remove_closed l (rsd_remove_set l syms ri) = true.
Proof.
  unfold g_remove_closed. apply forallb_forall. intros k Hk. apply In_desc in Hk.
  destruct (memn k (rsd_remove_set l syms ri)) eqn:Ek; [reflexivity|]. cbn [orb].
  apply forallb_forall. intros j Hj. apply negb_true_iff. apply memn_false. intro Hrem.
  apply succs_edge in Hj. apply memn_false in Ek.
  unfold rsd_remove_set in *.
  set (cand0 := filter _ (desc ri)) in *.
  set (cand1 := cand0 ++ reach l (filter (in_graph l) cand0)) in *.
  set (keep := if in_graph l ri then diffn (reach l [ri]) [ri] else []) in *.
  set (cand2 := diffn cand1 keep) in *.
  set (add0 := filter _ (desc (length l))) in *.
  apply In_diffn in Hrem. destruct Hrem as [Hj2 Hjadd].
  apply edge_lt in Hj as Hlt. destruct Hlt as [Hjk _].
  destruct (Nat.eq_dec k ri) as [->|Hkri].
  - (* k = ri: j is needed by the edited statement, hence in keep *)
    assert (Hg : in_graph l ri = true).
    { unfold in_graph, has_out. destruct (succs l ri) eqn:Es.
      - assert (In j (succs l ri)) by (apply succs_edge; exact Hj). rewrite Es in H. destruct H.
      - reflexivity. }
    subst cand2. apply In_diffn in Hj2. destruct Hj2 as [_ Hnk]. apply Hnk.
    subst keep. rewrite Hg. apply In_diffn. split.
    + eapply reach_closed; [apply reach_starts; left; reflexivity | exact Hj].
    + intros [H|[]]. lia.
  - destruct (memn k cand2) eqn:Ec.
    + (* k is a candidate that is kept, so it is in additional, which is closed *)
      apply memn_In in Ec. apply Hjadd.
      assert (Hkadd : In k (reach l add0)).
      { destruct (memn k (reach l add0)) eqn:E; [apply memn_In; exact E|].
        exfalso. apply Ek. apply In_diffn. split; [exact Ec | apply memn_false; exact E]. }
      eapply reach_closed; [exact Hkadd | exact Hj].
    + (* k is another statement using j: j is in add0 *)
      apply Hjadd. apply reach_starts. subst add0. apply filter_In. split; [apply In_desc; lia|].
      apply andb_true_iff. split; [apply memn_In; exact Hj2|].
      apply existsb_exists. exists k. split; [apply In_desc; exact Hk|].
      rewrite Ec. cbn [negb andb]. rewrite Hj.
      destruct (k =? ri) eqn:E; [apply Nat.eqb_eq in E; contradiction | reflexivity].
Qed.

(* closed => dataflow-safe *)
Lemma closed_safe_lemma l rem : g_remove_closed l rem = true ->
  forall suf pre dirty, l = pre ++ suf ->
    (forall x, In x dirty -> exists j, j < length pre /\ In j rem /\ In x (defs (nths l j))) ->
    safe_from suf (length pre) rem dirty = true.
Proof.
  intros Hc. induction suf as [|st suf IH]; intros pre dirty Hl Hd; [reflexivity|].
  cbn [safe_from].
  assert (Hst : nths l (length pre) = st).
  { subst l. unfold nths. rewrite app_nth2 by lia. rewrite Nat.sub_diag. reflexivity. }
  assert (Hl' : l = (pre ++ [st]) ++ suf) by (rewrite <- app_assoc; exact Hl).
  assert (Hlen : length (pre ++ [st]) = S (length pre)) by (rewrite app_length; cbn; lia).
  destruct (memn (length pre) rem) eqn:Er.
  - rewrite <- Hlen. apply IH; [exact Hl'|].
    intros x Hx. rewrite Hlen. apply in_app_or in Hx. destruct Hx as [Hx|Hx].
    + exists (length pre). split; [lia|]. split; [apply memn_In; exact Er | rewrite Hst; exact Hx].
    + destruct (Hd x Hx) as [j [H1 [H2 H3]]]. exists j. split; [lia | split; assumption].
  - apply andb_true_iff. split.
    + apply negb_true_iff. destruct (interp_nonempty (rhs st) dirty) eqn:Ei; [|reflexivity]. exfalso.
      apply interp_nonempty_spec in Ei. destruct Ei as [x [Hx1 Hx2]].
      destruct (Hd x Hx2) as [j [H1 [H2 H3]]].
      unfold g_remove_closed in Hc. rewrite forallb_forall in Hc.
      assert (Hk : In (length pre) (desc (length l))).
      { apply In_desc. subst l. rewrite app_length. cbn. lia. }
      specialize (Hc _ Hk). rewrite Er in Hc. cbn [orb] in Hc. rewrite forallb_forall in Hc.
      assert (He : edge l (length pre) j = true).
      { unfold edge. apply andb_true_iff. split; [apply Nat.ltb_lt; exact H1|].
        rewrite Hst. apply interp_nonempty_spec. exists x. split; assumption. }
      apply succs_edge in He. specialize (Hc _ He). apply negb_true_iff in Hc.
      apply memn_false in Hc. contradiction.
    + rewrite <- Hlen. apply IH; [exact Hl'|].
      intros x Hx. apply In_diffp in Hx. destruct Hx as [Hx _].
      destruct (Hd x Hx) as [j [H1 [H2 H3]]]. exists j. rewrite Hlen. split; [lia | split; assumption].
Qed.

Lemma closed_safe l rem : g_remove_closed l rem = true -> g_remove_safe l rem = true.
Proof.
  intros Hc. unfold g_remove_safe. apply (closed_safe_lemma l rem Hc l [] []); [reflexivity|].
  intros x [].
Qed.

Lemma rsd_safe l syms ri : g_remove_safe l (rsd_remove_set l syms ri) = true.
Proof. apply closed_safe, rsd_closed. Qed.
