(* PV.C10.ProofsOde — dependencies through the ODE system.
   (1) the reported dependencies of a symbol defined after the system syntactically include every symbol
       the system reads (when the defining expression reads one of its amounts);
   (2) soundness of [dependencies] for a solver oracle that may look at the WHOLE environment, under the
       explicit (satisfiable) hypothesis that its answer only depends on the system's free symbols.
   (Base/Stmts.exec builds this locality into the oracle's type; here it is a Section hypothesis.) *)
From Coq Require Import QArith List Bool PArith Arith Lia.
From PV Require Import Base.PyData Base.Expr Base.Interp Base.Stmts C10.Model C10.Proofs.
Import ListNotations.
Local Open Scope nat_scope.

(* ---------- (1) syntactic inclusion ---------- *)
Lemma dep_scan_app a : forall b N, dep_scan (a ++ b) N = dep_scan b (dep_scan a N).
Proof.
  induction a as [|st a IH]; intros b N; [reflexivity|]. cbn [app dep_scan].
  destruct (interp_nonempty (defs st) N); apply IH.
Qed.

Lemma dep_scan_keeps y : forall rl N,
  In y N -> (forall st, In st rl -> ~ In y (defs st)) -> In y (dep_scan rl N).
Proof.
  induction rl as [|st rl IH]; intros N Hy Hnd; [exact Hy|]. cbn [dep_scan].
  assert (Hrest : forall st', In st' rl -> ~ In y (defs st')) by (intros st' H; apply Hnd; right; exact H).
  destruct (interp_nonempty (defs st) N); [|apply IH; assumption].
  apply IH; [|exact Hrest]. apply In_unionp. left. apply In_diffp. split; [exact Hy|].
  apply Hnd. left. reflexivity.
Qed.

Lemma find_last_from_last p : forall l i acc st,
  p st = true -> find_last_from p (l ++ [st]) i acc = Some (i + length l).
Proof.
  induction l as [|x l IH]; intros i acc st Hp; cbn [app find_last_from length].
  - rewrite Hp. f_equal. lia.
  - rewrite (IH (S i) _ st Hp). f_equal. lia.
Qed.

Lemma firstn_app_exact {A} (a b : list A) : firstn (length a) (a ++ b) = a.
Proof. induction a as [|x a IH]; [destruct b; reflexivity|]. cbn [length app firstn]. f_equal. exact IH. Qed.

Lemma nths_app_exact (a : list stmt) st b : nths (a ++ st :: b) (length a) = st.
Proof. unfold nths. rewrite app_nth2 by lia. rewrite Nat.sub_diag. reflexivity. Qed.

(* s is defined by the last statement, after a compartmental system; its defining expression reads the
   amount a (not reassigned in between); the system reads y, and y is a leaf before the system
   (a parameter, random variable or data column): then y is among the reported dependencies of s. *)
Lemma dependencies_through_ode_lemma pre amts rh mid s e a y D :
  In a amts -> In a (free_syms e) -> (forall st, In st mid -> ~ In a (defs st)) ->
  In y rh -> (forall st, In st pre -> ~ In y (defs st)) ->
  dependencies (pre ++ Ode amts rh :: mid ++ [Assign s e]) s = Ok D -> In y D.
Proof.
  intros Ha Hae Hmid Hy Hpre HD.
  set (l0 := pre ++ Ode amts rh :: mid) in *.
  assert (El : pre ++ Ode amts rh :: mid ++ [Assign s e] = l0 ++ [Assign s e]).
  { unfold l0. rewrite <- app_assoc. reflexivity. }
  rewrite El in HD. unfold dependencies, find_def_index in HD.
  rewrite (find_last_from_last (defines s) l0 0 None (Assign s e)) in HD
    by (unfold defines; cbn [defs memp existsb]; rewrite Pos.eqb_refl; reflexivity).
  cbn [Nat.add] in HD. injection HD as <-.
  unfold dependencies_at. rewrite firstn_app_exact, nths_app_exact. cbn [rhs].
  unfold l0. rewrite rev_app_distr. cbn [rev]. rewrite <- app_assoc. cbn [app].
  rewrite dep_scan_app.
  set (N1 := dep_scan (rev mid) (free_syms e)).
  assert (H1 : In a N1).
  { apply dep_scan_keeps; [exact Hae|]. intros st Hst. apply Hmid. apply in_rev. exact Hst. }
  cbn [dep_scan defs rhs].
  assert (Hi : interp_nonempty amts N1 = true) by (apply interp_nonempty_spec; exists a; split; assumption).
  rewrite Hi. apply dep_scan_keeps.
  - apply In_unionp. right. exact Hy.
  - intros st Hst. apply Hpre. apply in_rev. exact Hst.
Qed.

(* ---------- (2) soundness for an environment-reading oracle with a locality hypothesis ---------- *)
Section EnvOracle.
  Variable fi : finterp.
  (* the solver may inspect the whole environment ... *)
  Variable odeg : list id -> list id -> id -> env -> option Q.
  (* ... but its answer only depends on the values of the system's free symbols *)
  Hypothesis odeg_local : forall amts rh a r r', agree_on rh r r' -> odeg amts rh a r = odeg amts rh a r'.

  Definition exec1g (r : env) (st : stmt) : env :=
    match st with
    | Assign s e => upd r s (eval r fi e)
    | Ode amts rh => upd_list r amts (fun a => odeg amts rh a r)
    end.
  Fixpoint execg (r : env) (l : list stmt) : env :=
    match l with [] => r | st :: tl => execg (exec1g r st) tl end.

  Lemma execg_app r l1 l2 : execg r (l1 ++ l2) = execg (execg r l1) l2.
  Proof. revert r. induction l1 as [|st l1 IH]; intros r; [reflexivity|]. cbn [app execg]. apply IH. Qed.

  Lemma exec1g_untouched r st x : ~ In x (defs st) -> exec1g r st x = r x.
  Proof.
    intros H. destruct st as [s e|amts rh]; cbn [exec1g defs] in *.
    - unfold upd. destruct (Pos.eqb x s) eqn:E; [|reflexivity].
      apply Pos.eqb_eq in E. subst. exfalso. apply H. left. reflexivity.
    - unfold upd_list. destruct (memp x amts) eqn:E; [|reflexivity].
      apply memp_In in E. contradiction.
  Qed.

  Lemma execg_untouched l : forall r x, (forall st, In st l -> ~ In x (defs st)) -> execg r l x = r x.
  Proof.
    induction l as [|st l IH]; intros r x H; [reflexivity|]. cbn [execg].
    rewrite IH; [|intros st' Hin; apply H; right; exact Hin].
    apply exec1g_untouched. apply H. left. reflexivity.
  Qed.

  Lemma exec1g_defs_agree r r' st x :
    agree_on (rhs st) r r' -> In x (defs st) -> exec1g r st x = exec1g r' st x.
  Proof.
    intros Hag Hx. destruct st as [s e|amts rh]; cbn [exec1g defs rhs] in *.
    - destruct Hx as [<-|[]]. unfold upd. rewrite Pos.eqb_refl. apply eval_coincidence. exact Hag.
    - unfold upd_list. apply memp_In in Hx. rewrite Hx. apply odeg_local. exact Hag.
  Qed.

  Lemma dep_scan_sound_g : forall pl N r r',
    agree_on (dep_scan (rev pl) N) r r' -> agree_on N (execg r pl) (execg r' pl).
  Proof.
    induction pl as [|st pl IH] using rev_ind; intros N r r' H.
    - exact H.
    - rewrite rev_app_distr in H. cbn [rev app dep_scan] in H.
      rewrite !execg_app. cbn [execg].
      destruct (interp_nonempty (defs st) N) eqn:E.
      + apply IH in H. intros x Hx.
        destruct (memp x (defs st)) eqn:Ed.
        * apply memp_In in Ed. apply exec1g_defs_agree; [|exact Ed].
          intros y Hy. apply H. apply In_unionp. right. exact Hy.
        * assert (Hn : ~ In x (defs st)) by (intro Hin; apply memp_In in Hin; congruence).
          rewrite !exec1g_untouched by exact Hn. apply H. apply In_unionp. left.
          apply In_diffp. split; assumption.
      + apply IH in H. intros x Hx.
        assert (Hn : ~ In x (defs st)).
        { intro Hin. assert (interp_nonempty (defs st) N = true) by (apply interp_nonempty_spec; eauto).
          congruence. }
        rewrite !exec1g_untouched by exact Hn. apply H. exact Hx.
  Qed.

  Lemma dependencies_sound_env_oracle_lemma l s D r r' :
    dependencies l s = Ok D -> agree_on D r r' -> execg r l s = execg r' l s.
  Proof.
    unfold dependencies. destruct (find_def_index l s) as [i|] eqn:Ef; [|discriminate].
    intros H Hag. injection H as <-.
    apply find_last_spec in Ef. destruct Ef as [Hi [Hdef Hlater]].
    rewrite (split_at l i Hi). rewrite !execg_app. cbn [execg].
    assert (Hrest : forall st, In st (skipn (S i) l) -> ~ In s (defs st)).
    { intros st Hin Hd. apply skipn_nth in Hin. destruct Hin as [j [H1 [H2 ->]]].
      specialize (Hlater j H1 H2). unfold defines in Hlater. apply memp_In in Hd. congruence. }
    rewrite !execg_untouched by exact Hrest.
    apply exec1g_defs_agree; [|unfold defines in Hdef; apply memp_In; exact Hdef].
    apply dep_scan_sound_g. exact Hag.
  Qed.
End EnvOracle.

(* the locality hypothesis is satisfiable: the oracle used by the correspondence checks is local *)
Definition std_odeg (amts rh : list id) (a : id) (r : env) : option Q := std_ode a (map r rh).
Lemma std_odeg_local : forall amts rh a r r', agree_on rh r r' -> std_odeg amts rh a r = std_odeg amts rh a r'.
Proof. intros amts rh a r r' H. unfold std_odeg. f_equal. apply map_ext_in. exact H. Qed.
