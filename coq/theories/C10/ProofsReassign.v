(* PV.C10.ProofsReassign — reassign as a sequential program edit at the level of values. *)
From Coq Require Import QArith List Bool PArith Arith Lia.
From PV Require Import Base.PyData Base.Expr Base.Stmts C10.Model C10.Proofs.
Import ListNotations.
Local Open Scope nat_scope.

(* ---------- shape of the result ---------- *)
Lemma reassign_rev_false s e : forall rl, reassign_rev s e rl false = filter (not_assign_of s) rl.
Proof.
  induction rl as [|st rl IH]; [reflexivity|]. cbn [reassign_rev filter]. unfold not_assign_of at 1.
  destruct (is_assign_of s st); cbn [negb]; [exact IH | f_equal; exact IH].
Qed.

Lemma reassign_rev_prefix s e : forall a b last,
  existsb (is_assign_of s) a = false -> reassign_rev s e (a ++ b) last = a ++ reassign_rev s e b last.
Proof.
  induction a as [|st a IH]; intros b last H; [reflexivity|]. cbn [existsb] in H.
  apply orb_false_iff in H. destruct H as [H1 H2]. cbn [app reassign_rev]. rewrite H1. f_equal. apply IH. exact H2.
Qed.

Lemma reassign_shape l1 e0 l2 s e :
  existsb (is_assign_of s) l2 = false ->
  reassign (l1 ++ Assign s e0 :: l2) s e = filter (not_assign_of s) l1 ++ Assign s e :: l2.
Proof.
  intros H. unfold reassign. rewrite rev_app_distr. cbn [rev]. rewrite <- app_assoc. cbn [app].
  rewrite reassign_rev_prefix by (rewrite existsb_rev; exact H).
  cbn [reassign_rev is_assign_of]. rewrite Pos.eqb_refl. rewrite reassign_rev_false.
  rewrite rev_app_distr. cbn [rev]. rewrite rev_involutive. rewrite filter_rev, rev_involutive.
  rewrite <- app_assoc. reflexivity.
Qed.

Lemma is_assign_of_inv s st : is_assign_of s st = true -> exists e, st = Assign s e.
Proof. destruct st as [x e|a r]; cbn; intros H; [|discriminate]. apply Pos.eqb_eq in H. subst. eauto. Qed.

Lemma last_assignment_split l s i :
  find_assignment_index l s = Some i ->
  exists e0, l = firstn i l ++ Assign s e0 :: skipn (S i) l /\
             existsb (is_assign_of s) (skipn (S i) l) = false.
Proof.
  intros H. apply find_assignment_index_last in H. destruct H as [Hi [Ha Hl]].
  apply is_assign_of_inv in Ha. destruct Ha as [e0 He0]. exists e0. split.
  - rewrite <- He0. apply split_at. exact Hi.
  - destruct (existsb (is_assign_of s) (skipn (S i) l)) eqn:E; [|reflexivity]. exfalso.
    apply existsb_exists in E. destruct E as [st [Hin Hst]]. apply skipn_nth in Hin.
    destruct Hin as [j [H1 [H2 ->]]]. rewrite (Hl j H1 H2) in Hst. discriminate.
Qed.

Section Values.
  Variable fi : finterp.
  Variable ode : id -> list (option Q) -> option Q.

  (* ---------- the value the program computes for the reassigned symbol ---------- *)
  Lemma reassign_value_lemma l s e r :
    g_not_overwritten l s = true ->
    exec fi ode r (reassign l s e) s = eval (exec fi ode r (before_last_assignment l s)) fi e.
  Proof.
    unfold g_not_overwritten, before_last_assignment.
    destruct (find_assignment_index l s) as [i|] eqn:Ef; [|discriminate]. intros Hg.
    destruct (last_assignment_split l s i Ef) as [e0 [El Hno]].
    rewrite El at 1. rewrite (reassign_shape _ e0 _ s e Hno).
    rewrite exec_app. cbn [exec exec1].
    rewrite exec_untouched.
    - unfold upd. rewrite Pos.eqb_refl. reflexivity.
    - intros st Hin Hd. apply negb_true_iff in Hg.
      assert (existsb (fun st0 => memp s (defs st0)) (skipn (S i) l) = true)
        by (apply existsb_exists; exists st; split; [exact Hin | apply memp_In; exact Hd]).
      congruence.
  Qed.

  (* find_assignment returns the statement that determines the final value of the symbol *)
  Lemma find_assignment_value_lemma l s i r :
    find_assignment_index l s = Some i -> g_not_overwritten l s = true ->
    exists e, find_assignment l s = Some (Assign s e) /\
              exec fi ode r l s = eval (exec fi ode r (firstn i l)) fi e.
  Proof.
    intros Ef Hg. unfold g_not_overwritten in Hg. rewrite Ef in Hg.
    destruct (last_assignment_split l s i Ef) as [e0 [El Hno]]. exists e0. split.
    - unfold find_assignment. rewrite Ef. cbn [option_map]. f_equal.
      rewrite El at 1. assert (Hlen : length (firstn i l) = i).
      { apply firstn_length_le. apply find_assignment_index_last in Ef. lia. }
      unfold nths. rewrite app_nth2 by lia. rewrite Hlen, Nat.sub_diag. reflexivity.
    - rewrite El at 1. rewrite exec_app. cbn [exec exec1]. rewrite exec_untouched.
      + unfold upd. rewrite Pos.eqb_refl. reflexivity.
      + intros st Hin Hd. apply negb_true_iff in Hg.
        assert (existsb (fun st0 => memp s (defs st0)) (skipn (S i) l) = true)
          by (apply existsb_exists; exists st; split; [exact Hin | apply memp_In; exact Hd]).
        congruence.
  Qed.

  (* ---------- symbols that do not depend on the edited assignments keep their value ---------- *)
  Lemma exec1_tainted st dirty r r' :
    clean_agree dirty r r' -> clean_agree (defs st ++ dirty) (exec1 fi ode r st) (exec1 fi ode r' st).
  Proof.
    intros Hag x Hx.
    assert (Hnd : ~ In x (defs st)) by (intro; apply Hx, in_or_app; auto).
    assert (Hnd' : ~ In x dirty) by (intro; apply Hx, in_or_app; auto).
    rewrite !exec1_untouched by exact Hnd. apply Hag. exact Hnd'.
  Qed.

  (* phase 1: the original prefix against the prefix with the assignments of s deleted *)
  Lemma taint_deleted s : forall l1 D r r',
    clean_agree D r r' ->
    clean_agree (taint s l1 D) (exec fi ode r l1) (exec fi ode r' (filter (not_assign_of s) l1)).
  Proof.
    induction l1 as [|st l1 IH]; intros D r r' Hag; [exact Hag|]. cbn [taint filter exec].
    unfold not_assign_of at 1. destruct (is_assign_of s st) eqn:Ea; cbn [negb].
    - apply IH. apply is_assign_of_inv in Ea. destruct Ea as [e0 ->].
      apply (exec1_removed fi ode (Assign s e0) D r r' Hag).
    - cbn [exec]. destruct (interp_nonempty (rhs st) D) eqn:Er.
      + apply IH. apply exec1_tainted. exact Hag.
      + apply IH. apply exec1_agree; assumption.
  Qed.

  (* phase 2: the same statements on both sides, none of them an assignment of s *)
  Lemma taint_same s : forall l2 D r r',
    existsb (is_assign_of s) l2 = false ->
    clean_agree D r r' ->
    clean_agree (taint s l2 D) (exec fi ode r l2) (exec fi ode r' l2).
  Proof.
    induction l2 as [|st l2 IH]; intros D r r' Hno Hag; [exact Hag|]. cbn [existsb] in Hno.
    apply orb_false_iff in Hno. destruct Hno as [Ea Hno]. cbn [taint exec]. rewrite Ea.
    destruct (interp_nonempty (rhs st) D) eqn:Er.
    - apply IH; [exact Hno|]. apply exec1_tainted. exact Hag.
    - apply IH; [exact Hno|]. apply exec1_agree; assumption.
  Qed.

  Lemma taint_app s : forall a b D, taint s (a ++ b) D = taint s b (taint s a D).
  Proof.
    induction a as [|st a IH]; intros b D; [reflexivity|]. cbn [app taint].
    destruct (is_assign_of s st); [apply IH|]. destruct (interp_nonempty (rhs st) D); apply IH.
  Qed.

  Lemma reassign_untainted_lemma l s e r x :
    ~ In x (reassign_taint l s) -> exec fi ode r (reassign l s e) x = exec fi ode r l x.
  Proof.
    unfold reassign_taint. intros Hx.
    destruct (find_assignment_index l s) as [i|] eqn:Ef.
    - destruct (last_assignment_split l s i Ef) as [e0 [El Hno]].
      remember (firstn i l) as l1 eqn:E1. remember (skipn (S i) l) as l2 eqn:E2. clear E1 E2 Ef.
      subst l. rewrite (reassign_shape _ e0 _ s e Hno).
      rewrite taint_app in Hx. cbn [taint is_assign_of] in Hx. rewrite Pos.eqb_refl in Hx.
      rewrite !exec_app. cbn [exec]. symmetry.
      apply (taint_same s l2 (s :: taint s l1 [])); [exact Hno | | exact Hx].
      intros y Hy. cbn [exec1]. unfold upd.
      destruct (Pos.eqb y s) eqn:E; [apply Pos.eqb_eq in E; subst; exfalso; apply Hy; left; reflexivity|].
      apply (taint_deleted s l1 [] r r); [intros z _; reflexivity|].
      intro Hin. apply Hy. right. exact Hin.
    - rewrite reassign_absent; [reflexivity|].
      destruct (existsb (is_assign_of s) l) eqn:E; [|reflexivity]. exfalso.
      apply existsb_exists in E. destruct E as [st [Hin Hst]].
      rewrite (find_assignment_index_none l s Ef st Hin) in Hst. discriminate.
  Qed.
End Values.
