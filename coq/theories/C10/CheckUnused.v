(* PV.C10.CheckUnused — comparison run inside Coq for remove_unused_parameters_and_rvs /
   _get_unused_parameters_and_rvs: model vs implementation (tags 7, 8, 9) and the property evaluated
   on the implementation's own answer (tags 18-26); guard facts (tag 204). *)
From Coq Require Import QArith List Bool PArith Arith.
From PV Require Import Base.PyData Base.Expr Base.Interp Base.Stmts C10.Model C10.Check C10.ModelUnused.
Import ListNotations.
Local Open Scope nat_scope.

Record ucase := mkU {
  u_stmts : list stmt;
  u_params : list param;
  u_rvs : list dist;
  u_S : list id;                          (* statements.free_symbols *)
  u_amts : list id;                       (* ids that stand for applied functions A_X(t): symbols of the IR,
                                             not members of Expr.free_symbols; never a parameter or rv name *)
  u_new_rvs : list dist;                  (* _get_unused_parameters_and_rvs(...)[0] *)
  u_new_params : list id;                 (* names of ...[1], in order *)
  u_model : option (list id * list id);   (* rv names, parameter names after remove_unused_parameters_and_rvs(model) *)
  u_envs : list (list (id * Q))
}.

Definition row_eqb (a b : jrow) : bool :=
  Pos.eqb (r_name a) (r_name b) && setp_eqb (r_mean a) (r_mean b) &&
  list_eqb setp_eqb (r_entries a) (r_entries b).
Definition dist_eqb (a b : dist) : bool :=
  match a, b with
  | Normal n m v, Normal n' m' v' => Pos.eqb n n' && setp_eqb m m' && setp_eqb v v'
  | Joint r, Joint r' => list_eqb row_eqb r r'
  | _, _ => false
  end.

Definition ocov_eqb (a b : option (list id)) : bool :=
  match a, b with Some x, Some y => setp_eqb x y | None, None => true | _, _ => false end.

Definition param_of (ps : list param) (y : id) : option param := find (fun p => Pos.eqb (p_sym p) y) ps.

Definition verdict_u (c : ucase) : list nat :=
  let l := u_stmts c in
  let S := stmts_free l in
  let I := u_new_rvs c in
  let P := u_new_params c in
  let psyms := map p_sym (u_params c) in
  let removed_p := diffp psyms P in
  let removed := removed_p ++ diffp (rvs_names (u_rvs c)) (rvs_names I) in
  (* correspondence *)
  tag (setp_eqb (diffp S (u_amts c)) (u_S c)) 9 ++
  tag (negb (interp_nonempty (u_amts c) (psyms ++ rvs_names (u_rvs c)))) 9 ++
  tag (list_eqb dist_eqb (new_rvs l (u_rvs c)) I) 7 ++
  tag (list_eqb Pos.eqb (map p_sym (new_params l (u_params c) (u_rvs c))) P) 8 ++
  match u_model c with
  | None => []
  | Some (rn, pn) =>
      tag (list_eqb Pos.eqb (rvs_names (new_rvs l (u_rvs c))) rn) 7 ++
      tag (list_eqb Pos.eqb (map p_sym (new_params l (u_params c) (u_rvs c))) pn) 8
  end ++
  (* the property on the implementation's own answer *)
  tag (negb (existsb (fun y => memp y S) removed)) 18 ++
  tag (forallb (fun ee =>
         let rho := fst ee in
         let rho' := fun x => if memp x removed then snd ee x else rho x in
         forallb (fun x => memp x removed ||
                           match cmp_oq (exec std_fi std_ode rho l x) (exec std_fi std_ode rho' l x) with
                           | 1 => false | _ => true end) (all_defs l ++ S))
       (pairs (map env_of (u_envs c)))) 19 ++
  tag (forallb (fun y => memp y S || memp y (rvs_free I) ||
                         match param_of (u_params c) y with Some p => fixed_zero p | None => false end) P) 20 ++
  tag (forallb (fun n => existsb (fun d => rv_reason S d n) (u_rvs c)) (rvs_names I)) 21 ++
  tag (forallb (fun y => memp y psyms) P) 22 ++
  tag (negb (existsb (fun y => memp y (rvs_free I)) removed_p)) 24 ++
  tag (negb (existsb (fun y => match param_of (u_params c) y with Some p => fixed_zero p | None => false end)
                     removed_p)) 26 ++
  (if wf_rvs (u_rvs c)
   then tag (forallb (fun d => forallb (fun n => negb (rv_reason S d n) || memp n (rvs_names I)) (dist_names d))
                     (u_rvs c)) 25 ++
        (* two variables that are in one distribution afterwards have the covariance entry they had before *)
        tag (forallb (fun d' => forallb (fun n => forallb (fun m =>
                        existsb (fun d => memp n (dist_names d) && memp m (dist_names d) &&
                                          ocov_eqb (dist_cov d' n m) (dist_cov d n m)) (u_rvs c))
                        (dist_names d')) (dist_names d')) I) 23
   else [204]).
