(* PV.C10.ProofsUnused — lemmas about the model of _get_unused_parameters_and_rvs. *)
From Coq Require Import QArith List Bool PArith Arith Lia.
From PV Require Import Base.PyData Base.Expr Base.Stmts C10.ModelUnused.
Import ListNotations.
Local Open Scope nat_scope.

(* ---------- small facts ---------- *)
Lemma memp_false x l : memp x l = false <-> ~ In x l.
Proof.
  split.
  - intros H Hin. apply memp_In in Hin. congruence.
  - intros H. destruct (memp x l) eqn:E; [apply memp_In in E; contradiction | reflexivity].
Qed.

Lemma disjointp_false a b : disjointp a b = false <-> exists x, In x a /\ In x b.
Proof. unfold disjointp. rewrite negb_false_iff. apply interp_nonempty_spec. Qed.

Lemma with_diag_In r rows : forall i, In r rows -> exists v, In (r, v) (with_diag i rows).
Proof.
  induction rows as [|r0 rows IH]; intros i H; [destruct H|]. cbn [with_diag].
  destruct H as [->|H].
  - eexists. left. reflexivity.
  - destruct (IH (S i) H) as [v Hv]. exists v. right. exact Hv.
Qed.

Lemma with_diag_inv r v rows : forall i, In (r, v) (with_diag i rows) ->
  In r rows /\ (v = [] \/ In v (r_entries r)).
Proof.
  induction rows as [|r0 rows IH]; intros i H; [destruct H|]. cbn [with_diag] in H.
  destruct H as [H|H].
  - injection H as <- <-. split; [left; reflexivity|].
    destruct (nth_in_or_default i (r_entries r0) []) as [Hin|Hd]; [right; exact Hin | left; exact Hd].
  - destruct (IH (S i) H) as [H1 H2]. split; [right; exact H1 | exact H2].
Qed.

Lemma in_entry_row_params x v r : In x v -> (v = [] \/ In v (r_entries r)) -> In x (row_params r).
Proof.
  intros Hx [->|Hv]; [destruct Hx|]. unfold row_params. apply in_concat. exists v. split; assumption.
Qed.

(* a row whose name is not in the global unjoin list failed the unjoin test *)
Lemma not_unjoined_reason S rvs rows r :
  In (Joint rows) rvs -> In r rows -> ~ In (r_name r) (to_unjoin S rvs) -> row_reason S r = true.
Proof.
  intros Hd Hr Hn. unfold row_reason.
  destruct (unjoin_test S r) eqn:E.
  - exfalso. apply Hn. unfold to_unjoin. apply in_flat_map. exists (Joint rows). split; [exact Hd|].
    cbn [to_unjoin_dist]. apply in_map. apply filter_In. split; assumption.
  - unfold unjoin_test in E. apply andb_false_iff in E. destruct E as [E|E].
    + apply negb_false_iff in E. rewrite E. reflexivity.
    + apply disjointp_false in E. destruct E as [x [H1 H2]]. apply orb_true_iff. right.
      apply interp_nonempty_spec. exists x. split; [exact H1 | apply in_or_app; right; exact H2].
Qed.

Lemma rv_reason_name S d n : rv_reason S d n = true -> In n (dist_names d).
Proof.
  destruct d as [n' m v|rows]; cbn [rv_reason dist_names]; intros H.
  - apply andb_true_iff in H. destruct H as [H _]. apply Pos.eqb_eq in H. left. exact H.
  - apply existsb_exists in H. destruct H as [r [Hr H]]. apply andb_true_iff in H. destruct H as [H _].
    apply Pos.eqb_eq in H. subst n. apply in_map. exact Hr.
Qed.

(* ---------- every kept random variable has a reason (exactness, direction "kept => needed") ------ *)
Lemma unjoin_dist_reason S rvs d d' n :
  In d rvs -> In d' (unjoin_dist (to_unjoin S rvs) d) -> keep_dist S d' = true -> In n (dist_names d') ->
  rv_reason S d n = true.
Proof.
  intros Hd Hd' Hk Hn. destruct d as [n0 m v|rows].
  - (* a single normal distribution is passed through *)
    cbn [unjoin_dist] in Hd'. destruct Hd' as [<-|[]]. cbn [dist_names] in Hn. destruct Hn as [<-|[]].
    cbn [keep_dist dist_free] in Hk. apply negb_true_iff in Hk. apply disjointp_false in Hk.
    destruct Hk as [x [Hx1 Hx2]]. cbn [rv_reason]. rewrite Pos.eqb_refl. cbn [andb].
    apply in_app_or in Hx2. destruct Hx2 as [Hx2|Hx2].
    + apply orb_true_iff. right. apply interp_nonempty_spec. exists x. split; [exact Hx1 | apply in_or_app; left; exact Hx2].
    + apply in_app_or in Hx2. destruct Hx2 as [Hx2|Hx2].
      * apply orb_true_iff. right. apply interp_nonempty_spec. exists x. split; [exact Hx1 | apply in_or_app; right; exact Hx2].
      * destruct Hx2 as [<-|[]]. apply orb_true_iff. left. apply memp_In. exact Hx1.
  - cbn [unjoin_dist] in Hd'. cbn [rv_reason].
    set (U := to_unjoin S rvs) in *.
    assert (Hkept : forall r, In r rows -> ~ In (r_name r) U ->
                      existsb (fun r0 => Pos.eqb (r_name r0) (r_name r) && row_reason S r0) rows = true).
    { intros r Hr Hnu. apply existsb_exists. exists r. split; [exact Hr|].
      rewrite Pos.eqb_refl. cbn [andb]. apply (not_unjoined_reason S rvs rows r Hd Hr Hnu). }
    destruct (existsb (fun r => memp (r_name r) U) rows) eqn:Eany.
    + set (krows := filter (fun rv => negb (memp (r_name (fst rv)) U)) (with_diag 0 rows)) in *.
      assert (Hkrows : forall rv, In rv krows -> In (fst rv) rows /\ ~ In (r_name (fst rv)) U).
      { intros [r v] Hin. unfold krows in Hin. apply filter_In in Hin. destruct Hin as [H1 H2].
        apply with_diag_inv in H1. cbn [fst] in *. split; [apply H1|].
        apply negb_true_iff in H2. apply memp_false. exact H2. }
      assert (Hsingle : forall dd, In dd (map (fun rv => Normal (r_name (fst rv)) (r_mean (fst rv)) (snd rv))
                                     (filter (fun rv => memp (r_name (fst rv)) U) (with_diag 0 rows))) ->
                                   keep_dist S dd = true -> In n (dist_names dd) ->
                                   existsb (fun r => Pos.eqb (r_name r) n && row_reason S r) rows = true).
      { intros dd Hin Hkk Hnn. apply in_map_iff in Hin. destruct Hin as [[r v] [<- Hin]]. cbn [fst snd] in *.
        apply filter_In in Hin. destruct Hin as [Hin _]. apply with_diag_inv in Hin. destruct Hin as [Hr Hv].
        cbn [dist_names] in Hnn. destruct Hnn as [<-|[]].
        cbn [keep_dist dist_free] in Hkk. apply negb_true_iff in Hkk. apply disjointp_false in Hkk.
        destruct Hkk as [x [Hx1 Hx2]]. apply existsb_exists. exists r. split; [exact Hr|].
        rewrite Pos.eqb_refl. cbn [andb]. unfold row_reason.
        apply in_app_or in Hx2. destruct Hx2 as [Hx2|Hx2].
        - apply orb_true_iff. right. apply interp_nonempty_spec. exists x. split; [exact Hx1 | apply in_or_app; left; exact Hx2].
        - apply in_app_or in Hx2. destruct Hx2 as [Hx2|Hx2].
          + apply orb_true_iff. right. apply interp_nonempty_spec. exists x. split; [exact Hx1|].
            apply in_or_app. right. apply (in_entry_row_params x v r Hx2 Hv).
          + destruct Hx2 as [<-|[]]. apply orb_true_iff. left. apply memp_In. exact Hx1. }
      destruct krows as [|rv1 [|rv2 kt]] eqn:Ek.
      * apply (Hsingle d' Hd' Hk Hn).
      * apply in_app_or in Hd'. destruct Hd' as [Hd'|[<-|[]]]; [apply (Hsingle d' Hd' Hk Hn)|].
        cbn [dist_names] in Hn. destruct Hn as [<-|[]].
        destruct (Hkrows rv1 (or_introl eq_refl)) as [H1 H2]. apply (Hkept _ H1 H2).
      * apply in_app_or in Hd'. destruct Hd' as [Hd'|[<-|[]]]; [apply (Hsingle d' Hd' Hk Hn)|].
        cbn [dist_names] in Hn. rewrite map_map in Hn. cbn [r_name] in Hn.
        apply in_map_iff in Hn. destruct Hn as [rv [<- Hrv]].
        destruct (Hkrows rv Hrv) as [H1 H2]. apply (Hkept _ H1 H2).
    + destruct Hd' as [<-|[]]. cbn [dist_names] in Hn. apply in_map_iff in Hn. destruct Hn as [r [<- Hr]].
      apply Hkept; [exact Hr|]. intro Hin.
      assert (existsb (fun r0 => memp (r_name r0) U) rows = true)
        by (apply existsb_exists; exists r; split; [exact Hr | apply memp_In; exact Hin]).
      congruence.
Qed.

Lemma kept_rv_has_reason_lemma l rvs n :
  In n (rvs_names (new_rvs l rvs)) -> exists d, In d rvs /\ rv_reason (stmts_free l) d n = true.
Proof.
  unfold rvs_names, new_rvs. intros H. apply in_flat_map in H. destruct H as [d' [Hd' Hn]].
  apply filter_In in Hd'. destruct Hd' as [Hd' Hk]. unfold unjoin in Hd'. apply in_flat_map in Hd'.
  destruct Hd' as [d [Hd Hd']]. exists d. split; [exact Hd|].
  apply (unjoin_dist_reason _ rvs d d' n Hd Hd' Hk Hn).
Qed.

Lemma new_rvs_names_incl l rvs n : In n (rvs_names (new_rvs l rvs)) -> In n (rvs_names rvs).
Proof.
  intros H. apply kept_rv_has_reason_lemma in H. destruct H as [d [Hd Hr]].
  unfold rvs_names. apply in_flat_map. exists d. split; [exact Hd | apply (rv_reason_name _ _ _ Hr)].
Qed.

(* ---------- a random variable that occurs in a statement is kept ---------- *)
Lemma to_unjoin_notin_S S rvs n : In n (to_unjoin S rvs) -> ~ In n S.
Proof.
  unfold to_unjoin. intros H. apply in_flat_map in H. destruct H as [d [_ H]].
  destruct d as [n0 m v|rows]; cbn [to_unjoin_dist] in H; [destruct H|].
  apply in_map_iff in H. destruct H as [r [<- H]]. apply filter_In in H. destruct H as [_ H].
  unfold unjoin_test in H. apply andb_true_iff in H. destruct H as [H _].
  apply negb_true_iff in H. apply memp_false. exact H.
Qed.

Lemma keep_dist_name S d n : In n (dist_names d) -> In n S -> keep_dist S d = true.
Proof.
  destruct d as [n0 m v|rows]; cbn [dist_names keep_dist]; [|reflexivity].
  intros [<-|[]] Hs. apply negb_true_iff. apply disjointp_false. exists n0. split; [exact Hs|].
  cbn [dist_free]. apply in_or_app. right. apply in_or_app. right. left. reflexivity.
Qed.

Lemma unjoin_dist_keeps_name U d n :
  In n (dist_names d) -> ~ In n U -> exists d', In d' (unjoin_dist U d) /\ In n (dist_names d').
Proof.
  intros Hn Hu. destruct d as [n0 m v|rows]; cbn [unjoin_dist].
  - exists (Normal n0 m v). split; [left; reflexivity | exact Hn].
  - destruct (existsb (fun r => memp (r_name r) U) rows); [|exists (Joint rows); split; [left; reflexivity | exact Hn]].
    cbn [dist_names] in Hn. apply in_map_iff in Hn. destruct Hn as [r [<- Hr]].
    destruct (with_diag_In r rows 0 Hr) as [v Hv].
    assert (Hin : In (r, v) (filter (fun rv => negb (memp (r_name (fst rv)) U)) (with_diag 0 rows))).
    { apply filter_In. split; [exact Hv|]. cbn [fst]. apply negb_true_iff. apply memp_false. exact Hu. }
    destruct (filter (fun rv => negb (memp (r_name (fst rv)) U)) (with_diag 0 rows)) as [|rv1 [|rv2 kt]] eqn:Ek.
    + destruct Hin.
    + destruct Hin as [->|[]]. eexists. split; [apply in_or_app; right; left; reflexivity|].
      cbn [dist_names fst]. left. reflexivity.
    + eexists. split; [apply in_or_app; right; left; reflexivity|].
      cbn [dist_names]. rewrite map_map. cbn [r_name].
      apply in_map_iff. exists (r, v). split; [reflexivity | exact Hin].
Qed.

Lemma used_rv_kept_lemma l rvs n :
  In n (rvs_names rvs) -> In n (stmts_free l) -> In n (rvs_names (new_rvs l rvs)).
Proof.
  intros Hn Hs. unfold rvs_names in Hn. apply in_flat_map in Hn. destruct Hn as [d [Hd Hn]].
  assert (Hu : ~ In n (to_unjoin (stmts_free l) rvs)) by (intro H; apply to_unjoin_notin_S in H; contradiction).
  destruct (unjoin_dist_keeps_name _ d n Hn Hu) as [d' [Hd' Hn']].
  unfold rvs_names, new_rvs. apply in_flat_map. exists d'. split; [|exact Hn'].
  apply filter_In. split.
  - unfold unjoin. apply in_flat_map. exists d. split; assumption.
  - apply (keep_dist_name _ _ n Hn' Hs).
Qed.

(* ---------- parameters ---------- *)
Lemma new_params_spec l params rvs p :
  In p (new_params l params rvs) <->
  In p params /\ (In (p_sym p) (stmts_free l) \/ In (p_sym p) (rvs_free (new_rvs l rvs)) \/ fixed_zero p = true).
Proof.
  unfold new_params. rewrite filter_In. unfold keep_param. rewrite !orb_true_iff, !memp_In. tauto.
Qed.

(* ---------- removed names occur in no statement; consequence for values ---------- *)
Lemma removed_not_in_statements l params rvs y :
  In y (removed_names l params rvs) -> ~ In y (stmts_free l).
Proof.
  unfold removed_names. intros H Hs. apply in_app_or in H. destruct H as [H|H]; apply In_diffp in H; destruct H as [H1 H2].
  - apply in_map_iff in H1. destruct H1 as [p [<- Hp]]. apply H2. apply in_map.
    apply new_params_spec. split; [exact Hp | left; exact Hs].
  - apply H2. apply used_rv_kept_lemma; assumption.
Qed.

Lemma rhs_in_stmt_free st y : In y (rhs st) -> In y (stmt_free st).
Proof. destruct st as [s e|a r]; cbn [rhs stmt_free]; [intros H; right; exact H | auto]. Qed.

Section Values.
  Variable fi : finterp.
  Variable ode : id -> list (option Q) -> option Q.

  (* two environments that differ only on names no statement reads stay equal outside those names *)
  Lemma exec_agree_outside R : forall l r r',
    (forall y, In y (stmts_free l) -> ~ In y R) ->
    (forall y, ~ In y R -> r y = r' y) ->
    forall y, ~ In y R -> exec fi ode r l y = exec fi ode r' l y.
  Proof.
    induction l as [|st l IH]; intros r r' Hdis Hag y Hy; [apply Hag; exact Hy|].
    cbn [exec]. apply IH; [| |exact Hy].
    - intros z Hz. apply Hdis. unfold stmts_free. cbn [flat_map]. apply in_or_app. right. exact Hz.
    - assert (Hrhs : agree_on (rhs st) r r').
      { intros z Hz. apply Hag. apply Hdis. unfold stmts_free. cbn [flat_map]. apply in_or_app. left.
        apply rhs_in_stmt_free. exact Hz. }
      intros z Hz. destruct st as [s e|a rh]; cbn [exec1 rhs] in *.
      + unfold upd. destruct (Pos.eqb z s); [apply eval_coincidence; exact Hrhs | apply Hag; exact Hz].
      + unfold upd_list. destruct (memp z a); [f_equal; apply map_ext_in; exact Hrhs | apply Hag; exact Hz].
  Qed.

  Lemma removal_no_influence_lemma l params rvs r r' y :
    (forall z, ~ In z (removed_names l params rvs) -> r z = r' z) ->
    ~ In y (removed_names l params rvs) ->
    exec fi ode r l y = exec fi ode r' l y.
  Proof.
    intros Hag Hy. apply (exec_agree_outside (removed_names l params rvs)); [|exact Hag|exact Hy].
    intros z Hz Hr. apply (removed_not_in_statements _ _ _ _ Hr Hz).
  Qed.
End Values.

(* a removed parameter is not needed by a remaining distribution either *)
Lemma removed_param_not_in_rvs l params rvs p :
  In p params -> ~ In p (new_params l params rvs) -> ~ In (p_sym p) (rvs_free (new_rvs l rvs)).
Proof. intros Hp Hn Hin. apply Hn. apply new_params_spec. split; [exact Hp | right; left; exact Hin]. Qed.

Lemma used_param_kept_lemma l params rvs p :
  In p params -> In (p_sym p) (stmts_free l) -> In p (new_params l params rvs).
Proof. intros Hp Hs. apply new_params_spec. split; [exact Hp | left; exact Hs]. Qed.
