(* PV.C10.ProofsCov — _get_unused_parameters_and_rvs does not change the distribution of what remains:
   two random variables that are in one distribution after the call have the covariance entry (looked up by
   name) they had before; a variable that became a single normal distribution has its former variance. *)
From Coq Require Import QArith List Bool PArith Arith Lia.
From PV Require Import Base.PyData Base.Expr Base.Stmts C10.ModelUnused C10.ProofsUnused C10.ProofsUnused2.
Import ListNotations.
Local Open Scope nat_scope.

Lemma idx_lt m l : In m l -> idx m l < length l.
Proof.
  induction l as [|x l IH]; intros H; [destruct H|]. cbn [idx length].
  destruct (Pos.eqb x m) eqn:E; [lia|]. destruct H as [->|H]; [rewrite Pos.eqb_refl in E; discriminate|].
  specialize (IH H). lia.
Qed.

Lemma nth_idx m l d : In m l -> nth (idx m l) l d = m.
Proof.
  induction l as [|x l IH]; intros H; [destruct H|]. cbn [idx].
  destruct (Pos.eqb x m) eqn:E; [apply Pos.eqb_eq in E; exact E|]. cbn [nth]. apply IH.
  destruct H as [->|H]; [rewrite Pos.eqb_refl in E; discriminate | exact H].
Qed.

Lemma find_name rows r : NoDup (map r_name rows) -> In r rows ->
  find (fun r0 => Pos.eqb (r_name r0) (r_name r)) rows = Some r.
Proof.
  induction rows as [|x rows IH]; intros Hnd Hr; [destruct Hr|]. cbn [map] in Hnd.
  inversion Hnd as [|? ? Hn Hd]; subst. cbn [find]. destruct (Pos.eqb (r_name x) (r_name r)) eqn:E.
  - apply Pos.eqb_eq in E. destruct Hr as [->|Hr]; [reflexivity|]. exfalso. apply Hn. rewrite E. apply in_map. exact Hr.
  - destruct Hr as [->|Hr]; [rewrite Pos.eqb_refl in E; discriminate | apply IH; assumption].
Qed.

(* the diagonal entry paired with a row is the entry in the column of its own name *)
Lemma with_diag_idx rows r v : NoDup (map r_name rows) -> In (r, v) (with_diag 0 rows) ->
  v = nth (idx (r_name r) (map r_name rows)) (r_entries r) [].
Proof.
  intros Hnd H. destruct (with_diag_nth r v rows 0 H) as [i [Hi [Hn Hv]]]. cbn [Nat.add] in Hv. rewrite Hv. f_equal.
  assert (Hin : In (r_name r) (map r_name rows)) by (apply in_map; rewrite <- Hn; apply nth_In; exact Hi).
  apply (proj1 (NoDup_nth (map r_name rows) (r_name dflt_row)) Hnd).
  - rewrite map_length. exact Hi.
  - apply idx_lt. exact Hin.
  - rewrite map_nth, Hn. rewrite nth_idx by exact Hin. reflexivity.
Qed.

Lemma with_diag_fst rows : forall k, map fst (with_diag k rows) = rows.
Proof. induction rows as [|r rows IH]; intros k; [reflexivity|]. cbn [with_diag map fst]. f_equal. apply IH. Qed.

(* deleting the columns of removed names: the entry in the column of a kept name is unchanged *)
Lemma select_idx {A} (keep : id -> bool) m : forall (names : list id) (es : list A),
  length es = length names -> keep m = true -> In m names ->
  nth_error (select (map keep names) es) (idx m (filter keep names)) = nth_error es (idx m names).
Proof.
  induction names as [|x names IH]; intros es Hl Hk Hin; [destruct Hin|].
  destruct es as [|e es]; [discriminate|]. cbn [length] in Hl. injection Hl as Hl.
  cbn [map select filter idx]. destruct (Pos.eqb x m) eqn:E.
  - apply Pos.eqb_eq in E. subst x. rewrite Hk. cbn [idx]. rewrite Pos.eqb_refl. reflexivity.
  - assert (Hin' : In m names) by (destruct Hin as [->|H]; [rewrite Pos.eqb_refl in E; discriminate | exact H]).
    destruct (keep x); [cbn [idx]; rewrite E; cbn [nth_error] | cbn [nth_error]]; apply IH; assumption.
Qed.

Lemma names_of_krows (U : list id) rows :
  map (fun rv : jrow * list id => r_name (fst rv))
      (filter (fun rv => negb (memp (r_name (fst rv)) U)) (with_diag 0 rows)) =
  filter (fun x => negb (memp x U)) (map r_name rows).
Proof.
  rewrite <- (with_diag_fst rows 0) at 2. generalize (with_diag 0 rows). intros wd.
  induction wd as [|rv wd IH]; [reflexivity|]. cbn [filter map fst].
  destruct (negb (memp (r_name (fst rv)) U)); cbn [map]; [f_equal|]; exact IH.
Qed.

Lemma unjoin_dist_cov U rows d' n m :
  NoDup (map r_name rows) -> (forall r, In r rows -> length (r_entries r) = length rows) ->
  In d' (unjoin_dist U (Joint rows)) -> In n (dist_names d') -> In m (dist_names d') ->
  In n (map r_name rows) /\ In m (map r_name rows) /\ dist_cov d' n m = cov_rows rows n m.
Proof.
  intros Hnd Hshape Hd' Hn Hm. cbn [unjoin_dist] in Hd'.
  (* a variable that became a single normal distribution keeps its variance *)
  assert (Hsingle : forall r v, In (r, v) (with_diag 0 rows) -> In n [r_name r] -> In m [r_name r] ->
            In n (map r_name rows) /\ In m (map r_name rows) /\
            dist_cov (Normal (r_name r) (r_mean r) v) n m = cov_rows rows n m).
  { intros r v Hv [<-|[]] [<-|[]]. pose proof (with_diag_idx rows r v Hnd Hv) as Ev.
    apply with_diag_inv in Hv. destruct Hv as [Hr _].
    assert (Hin : In (r_name r) (map r_name rows)) by (apply in_map; exact Hr).
    split; [exact Hin|]. split; [exact Hin|]. cbn [dist_cov]. rewrite Pos.eqb_refl. cbn [andb].
    unfold cov_rows. rewrite (find_name rows r Hnd Hr). rewrite Ev. symmetry. apply nth_error_nth'.
    rewrite (Hshape r Hr), <- (map_length r_name). apply idx_lt. exact Hin. }
  destruct (existsb (fun r => memp (r_name r) U) rows).
  2:{ destruct Hd' as [<-|[]]. cbn [dist_names] in Hn, Hm. split; [exact Hn|]. split; [exact Hm|].
      cbn [dist_cov]. apply memp_In in Hn, Hm. rewrite Hn, Hm. reflexivity. }
  assert (Hs : In d' (map (fun rv => Normal (r_name (fst rv)) (r_mean (fst rv)) (snd rv))
                          (filter (fun rv => memp (r_name (fst rv)) U) (with_diag 0 rows))) ->
               In n (map r_name rows) /\ In m (map r_name rows) /\ dist_cov d' n m = cov_rows rows n m).
  { intros H. apply in_map_iff in H. destruct H as [[r v] [<- H]]. apply filter_In in H. destruct H as [H _].
    cbn [fst snd dist_names] in *. apply (Hsingle r v H Hn Hm). }
  pose proof (names_of_krows U rows) as Hnames.
  set (keepn := fun x : id => negb (memp x U)) in *.
  destruct (filter (fun rv => negb (memp (r_name (fst rv)) U)) (with_diag 0 rows)) as [|rv1 [|rv2 kt]] eqn:Ek.
  - apply Hs. exact Hd'.
  - apply in_app_or in Hd'. destruct Hd' as [Hd'|[<-|[]]]; [apply Hs; exact Hd'|].
    assert (Hin1 : In rv1 (with_diag 0 rows)).
    { assert (H : In rv1 (filter (fun rv => negb (memp (r_name (fst rv)) U)) (with_diag 0 rows))) by (rewrite Ek; left; reflexivity).
      apply filter_In in H. apply H. }
    destruct rv1 as [r v]. cbn [fst snd dist_names] in *. apply (Hsingle r v Hin1 Hn Hm).
  - apply in_app_or in Hd'. destruct Hd' as [Hd'|[<-|[]]]; [apply Hs; exact Hd'|].
    set (krows := rv1 :: rv2 :: kt) in *.
    set (f := fun rv : jrow * list id => mkRow (r_name (fst rv)) (r_mean (fst rv))
                (select (map (fun r => negb (memp (r_name r) U)) rows) (r_entries (fst rv)))) in *.
    assert (Hnames' : map r_name (map f krows) = filter keepn (map r_name rows)).
    { rewrite map_map. unfold f. cbn [r_name]. exact Hnames. }
    cbn [dist_names] in Hn, Hm. rewrite Hnames' in Hn, Hm.
    apply filter_In in Hn, Hm. destruct Hn as [Hn Hkn], Hm as [Hm Hkm].
    split; [exact Hn|]. split; [exact Hm|].
    cbn [dist_cov]. rewrite Hnames'.
    assert (Hmn : memp n (filter keepn (map r_name rows)) = true) by (apply memp_In, filter_In; split; assumption).
    assert (Hmm : memp m (filter keepn (map r_name rows)) = true) by (apply memp_In, filter_In; split; assumption).
    rewrite Hmn, Hmm. cbn [andb].
    (* the row named n on both sides *)
    assert (Hex : exists rv, In rv krows /\ r_name (fst rv) = n).
    { assert (H : In n (map (fun rv : jrow * list id => r_name (fst rv)) krows)) by (rewrite Hnames; apply filter_In; split; assumption).
      apply in_map_iff in H. destruct H as [rv [H1 H2]]. exists rv. split; assumption. }
    destruct Hex as [[r v] [Hrv En]]. cbn [fst] in En.
    assert (Hr : In r rows).
    { assert (H : In (r, v) (filter (fun rv => negb (memp (r_name (fst rv)) U)) (with_diag 0 rows))) by (rewrite Ek; exact Hrv).
      apply filter_In in H. destruct H as [H _]. apply with_diag_inv in H. apply H. }
    unfold cov_rows. rewrite Hnames'.
    assert (Hnd' : NoDup (map r_name (map f krows))) by (rewrite Hnames'; apply NoDup_filter; exact Hnd).
    assert (Hf : find (fun r0 => Pos.eqb (r_name r0) n) (map f krows) = Some (f (r, v))).
    { replace n with (r_name (f (r, v))) by (unfold f; cbn [r_name fst]; exact En).
      apply find_name; [exact Hnd' | apply in_map; exact Hrv]. }
    rewrite Hf. subst n. rewrite (find_name rows r Hnd Hr).
    unfold f. cbn [r_entries fst].
    replace (map (fun r0 => negb (memp (r_name r0) U)) rows) with (map keepn (map r_name rows))
      by (rewrite map_map; reflexivity).
    apply select_idx; [rewrite map_length; apply Hshape; exact Hr | exact Hkm | exact Hm].
Qed.

Lemma wf_rvs_joint rvs rows : wf_rvs rvs = true -> In (Joint rows) rvs ->
  NoDup (map r_name rows) /\ forall r, In r rows -> length (r_entries r) = length rows.
Proof.
  unfold wf_rvs. intros H Hd. apply andb_true_iff in H. destruct H as [Hnd Hwf].
  apply nodup_ids_NoDup in Hnd. rewrite forallb_forall in Hwf. split.
  - apply (flat_nodup_each rvs (Joint rows) Hnd Hd).
  - apply (wf_dist_spec rows (Hwf _ Hd)).
Qed.

Lemma kept_covariances_unchanged_lemma l rvs d' n m :
  wf_rvs rvs = true -> In d' (new_rvs l rvs) -> In n (dist_names d') -> In m (dist_names d') ->
  exists d, In d rvs /\ In n (dist_names d) /\ In m (dist_names d) /\ dist_cov d' n m = dist_cov d n m.
Proof.
  intros Hwf Hd' Hn Hm. unfold new_rvs in Hd'. apply filter_In in Hd'. destruct Hd' as [Hd' _].
  unfold unjoin in Hd'. apply in_flat_map in Hd'. destruct Hd' as [d [Hd Hd']]. exists d. split; [exact Hd|].
  destruct d as [n0 m0 v0|rows].
  - cbn [unjoin_dist] in Hd'. destruct Hd' as [<-|[]]. repeat split; assumption.
  - destruct (wf_rvs_joint rvs rows Hwf Hd) as [Hnd Hshape].
    destruct (unjoin_dist_cov _ rows d' n m Hnd Hshape Hd' Hn Hm) as [H1 [H2 H3]].
    cbn [dist_names]. split; [exact H1|]. split; [exact H2|]. rewrite H3. cbn [dist_cov].
    apply memp_In in H1, H2. rewrite H1, H2. reflexivity.
Qed.
