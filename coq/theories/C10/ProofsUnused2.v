(* PV.C10.ProofsUnused2 — converse exactness for random variables: on a well-formed collection (unique
   names, square symmetric covariance matrices) every random variable with a reason is kept. *)
From Coq Require Import QArith List Bool PArith Arith Lia.
From PV Require Import Base.PyData Base.Expr Base.Stmts C10.ModelUnused C10.ProofsUnused.
Import ListNotations.
Local Open Scope nat_scope.

Definition dflt_row : jrow := mkRow xH [] [].

Lemma nodup_ids_NoDup l : nodup_ids l = true -> NoDup l.
Proof.
  induction l as [|x l IH]; cbn [nodup_ids]; intros H; [constructor|].
  apply andb_true_iff in H. destruct H as [H1 H2]. apply negb_true_iff in H1.
  constructor; [apply memp_false; exact H1 | apply IH; exact H2].
Qed.

Lemma NoDup_app_inv {A} (a b : list A) : NoDup (a ++ b) -> NoDup a /\ NoDup b /\ forall x, In x a -> In x b -> False.
Proof.
  induction a as [|y a IH]; cbn [app]; intros H.
  - split; [constructor|]. split; [exact H|]. intros x [].
  - inversion H as [|? ? Hn Hd]; subst. destruct (IH Hd) as [H1 [H2 H3]]. split; [|split; [exact H2|]].
    + constructor; [|exact H1]. intro Hy. apply Hn. apply in_or_app. left. exact Hy.
    + intros x [<-|Hx] Hb; [apply Hn; apply in_or_app; right; exact Hb | apply (H3 x Hx Hb)].
Qed.

Lemma flat_nodup_same (rvs : list dist) : NoDup (rvs_names rvs) ->
  forall d1 d2 n, In d1 rvs -> In d2 rvs -> In n (dist_names d1) -> In n (dist_names d2) -> d1 = d2.
Proof.
  unfold rvs_names. induction rvs as [|d0 rvs IH]; intros Hnd d1 d2 n H1 H2 Hn1 Hn2; [destruct H1|].
  cbn [flat_map] in Hnd. destruct (NoDup_app_inv _ _ Hnd) as [Ha [Hb Hdis]].
  destruct H1 as [<-|H1], H2 as [<-|H2].
  - reflexivity.
  - exfalso. apply (Hdis n Hn1). apply in_flat_map. exists d2. split; assumption.
  - exfalso. apply (Hdis n Hn2). apply in_flat_map. exists d1. split; assumption.
  - apply (IH Hb d1 d2 n); assumption.
Qed.

Lemma flat_nodup_each (rvs : list dist) d : NoDup (rvs_names rvs) -> In d rvs -> NoDup (dist_names d).
Proof.
  unfold rvs_names. induction rvs as [|d0 rvs IH]; intros Hnd Hd; [destruct Hd|].
  cbn [flat_map] in Hnd. destruct (NoDup_app_inv _ _ Hnd) as [Ha [Hb _]].
  destruct Hd as [<-|Hd]; [exact Ha | apply IH; assumption].
Qed.

Lemma NoDup_map_inj {A B} (f : A -> B) (l : list A) a b :
  NoDup (map f l) -> In a l -> In b l -> f a = f b -> a = b.
Proof.
  induction l as [|x l IH]; intros Hnd Ha Hb E; [destruct Ha|].
  cbn [map] in Hnd. inversion Hnd as [|? ? Hn Hd]; subst.
  destruct Ha as [<-|Ha], Hb as [<-|Hb].
  - reflexivity.
  - exfalso. apply Hn. rewrite E. apply in_map. exact Hb.
  - exfalso. apply Hn. rewrite <- E. apply in_map. exact Ha.
  - apply IH; assumption.
Qed.

Lemma list_eqb_pos_eq (a b : list positive) : list_eqb Pos.eqb a b = true -> a = b.
Proof.
  revert b. induction a as [|x a IH]; intros [|y b] H; cbn [list_eqb] in H; try discriminate; [reflexivity|].
  apply andb_true_iff in H. destruct H as [H1 H2]. apply Pos.eqb_eq in H1. subst. f_equal. apply IH. exact H2.
Qed.

Lemma setp_eqb_In a b x : setp_eqb a b = true -> In x a -> In x b.
Proof.
  unfold setp_eqb. intros H Hx. apply list_eqb_pos_eq in H. apply In_normp. rewrite <- H. apply In_normp. exact Hx.
Qed.

Lemma with_diag_nth r v rows : forall k, In (r, v) (with_diag k rows) ->
  exists i, i < length rows /\ nth i rows dflt_row = r /\ v = nth (k + i) (r_entries r) [].
Proof.
  induction rows as [|r0 rows IH]; intros k H; [destruct H|]. cbn [with_diag] in H. destruct H as [H|H].
  - injection H as <- <-. exists 0. cbn [length nth]. rewrite Nat.add_0_r. repeat split. lia.
  - destruct (IH (S k) H) as [i [H1 [H2 H3]]]. exists (S i). cbn [length nth]. repeat split; [lia | exact H2|].
    rewrite H3. f_equal. lia.
Qed.

Lemma with_diag_at rows : forall k i, i < length rows ->
  In (nth i rows dflt_row, nth (k + i) (r_entries (nth i rows dflt_row)) []) (with_diag k rows).
Proof.
  induction rows as [|r0 rows IH]; intros k i H; cbn [length] in H; [lia|]. cbn [with_diag].
  destruct i as [|i]; cbn [nth].
  - left. rewrite Nat.add_0_r. reflexivity.
  - right. replace (k + S i) with (S k + i) by lia. apply IH. lia.
Qed.

Lemma wf_dist_spec rows : wf_dist (Joint rows) = true ->
  (forall r, In r rows -> length (r_entries r) = length rows) /\
  (forall i j, i < length rows -> j < length rows -> setp_eqb (entry rows i j) (entry rows j i) = true).
Proof.
  cbn [wf_dist]. intros H. apply andb_true_iff in H. destruct H as [H1 H2]. split.
  - intros r Hr. rewrite forallb_forall in H1. apply Nat.eqb_eq. apply H1. exact Hr.
  - intros i j Hi Hj. rewrite forallb_forall in H2. specialize (H2 i). rewrite forallb_forall in H2.
    apply H2; apply in_seq; lia.
Qed.

(* in a well-formed collection a row is in the global unjoin list iff it passed the unjoin test itself *)
Lemma unjoined_iff_test S rvs rows r :
  NoDup (rvs_names rvs) -> In (Joint rows) rvs -> In r rows ->
  In (r_name r) (to_unjoin S rvs) -> unjoin_test S r = true.
Proof.
  intros Hnd Hd Hr Hin. unfold to_unjoin in Hin. apply in_flat_map in Hin. destruct Hin as [d2 [Hd2 Hin]].
  destruct d2 as [n0 m v|rows2]; cbn [to_unjoin_dist] in Hin; [destruct Hin|].
  apply in_map_iff in Hin. destruct Hin as [r2 [En Hin]]. apply filter_In in Hin. destruct Hin as [Hr2 Ht].
  assert (E : Joint rows2 = Joint rows).
  { apply (flat_nodup_same rvs Hnd _ _ (r_name r) Hd2 Hd); cbn [dist_names].
    - rewrite <- En. apply in_map. exact Hr2.
    - apply in_map. exact Hr. }
  injection E as ->.
  assert (r2 = r).
  { apply (NoDup_map_inj r_name rows); [|assumption|assumption|exact En].
    apply (flat_nodup_each rvs (Joint rows) Hnd Hd). }
  subst. exact Ht.
Qed.

Lemma rv_with_reason_kept_lemma l rvs d n :
  wf_rvs rvs = true -> In d rvs -> rv_reason (stmts_free l) d n = true ->
  In n (rvs_names (new_rvs l rvs)).
Proof.
  intros Hwf Hd Hreason. set (S := stmts_free l) in *.
  unfold wf_rvs in Hwf. apply andb_true_iff in Hwf. destruct Hwf as [Hnd Hwfd].
  apply nodup_ids_NoDup in Hnd. rewrite forallb_forall in Hwfd. specialize (Hwfd d Hd).
  assert (Hgoal : exists d', In d' (unjoin_dist (to_unjoin S rvs) d) /\ keep_dist S d' = true /\ In n (dist_names d')).
  2:{ destruct Hgoal as [d' [H1 [H2 H3]]]. unfold rvs_names, new_rvs. apply in_flat_map. exists d'. split; [|exact H3].
      apply filter_In. split; [|exact H2]. unfold unjoin. apply in_flat_map. exists d. split; assumption. }
  destruct d as [n0 m v|rows].
  - (* single normal distribution *)
    cbn [rv_reason] in Hreason. apply andb_true_iff in Hreason. destruct Hreason as [E Hr].
    apply Pos.eqb_eq in E. subst n0. exists (Normal n m v). cbn [unjoin_dist]. split; [left; reflexivity|].
    split; [|left; reflexivity]. cbn [keep_dist dist_free]. apply negb_true_iff. apply disjointp_false.
    apply orb_true_iff in Hr. destruct Hr as [Hr|Hr].
    + apply memp_In in Hr. exists n. split; [exact Hr|]. apply in_or_app. right. apply in_or_app. right. left. reflexivity.
    + apply interp_nonempty_spec in Hr. destruct Hr as [x [H1 H2]]. exists x. split; [exact H1|].
      apply in_app_or in H2. destruct H2; [apply in_or_app; left | apply in_or_app; right; apply in_or_app; left]; assumption.
  - cbn [rv_reason] in Hreason. apply existsb_exists in Hreason. destruct Hreason as [r [Hr Hreason]].
    apply andb_true_iff in Hreason. destruct Hreason as [E Hrr]. apply Pos.eqb_eq in E. subst n.
    unfold row_reason in Hrr. apply orb_true_iff in Hrr.
    destruct (memp (r_name r) S) eqn:EnS.
    { (* the name occurs in a statement *)
      apply memp_In in EnS.
      assert (Hu : ~ In (r_name r) (to_unjoin S rvs)) by (intro H; apply to_unjoin_notin_S in H; contradiction).
      destruct (unjoin_dist_keeps_name (to_unjoin S rvs) (Joint rows) (r_name r)) as [d' [H1 H2]];
        [cbn [dist_names]; apply in_map; exact Hr | exact Hu |].
      exists d'. split; [exact H1|]. split; [apply (keep_dist_name _ _ _ H2 EnS) | exact H2]. }
    destruct Hrr as [Hrr|Hrr]; [discriminate|].
    apply interp_nonempty_spec in Hrr. destruct Hrr as [x [HxS Hx]].
    destruct (wf_dist_spec rows Hwfd) as [Hshape Hsym].
    set (U := to_unjoin S rvs) in *.
    destruct (with_diag_In r rows 0 Hr) as [v Hv].
    cbn [unjoin_dist].
    destruct (unjoin_test S r) eqn:Et.
    + (* unjoined: only its mean can be the reason; the single distribution is kept *)
      assert (HnU : In (r_name r) U).
      { unfold U, to_unjoin. apply in_flat_map. exists (Joint rows). split; [exact Hd|]. cbn [to_unjoin_dist].
        apply in_map. apply filter_In. split; assumption. }
      assert (Hany : existsb (fun r0 => memp (r_name r0) U) rows = true)
        by (apply existsb_exists; exists r; split; [exact Hr | apply memp_In; exact HnU]).
      rewrite Hany.
      assert (Hxm : In x (r_mean r)).
      { apply in_app_or in Hx. destruct Hx as [Hx|Hx]; [exact Hx|]. exfalso.
        unfold unjoin_test in Et. apply andb_true_iff in Et. destruct Et as [_ Et].
        unfold disjointp in Et. apply negb_true_iff in Et.
        assert (interp_nonempty S (row_params r) = true) by (apply interp_nonempty_spec; eauto). congruence. }
      exists (Normal (r_name r) (r_mean r) v). split; [|split; [|left; reflexivity]].
      * assert (Hs : In (Normal (r_name r) (r_mean r) v)
                       (map (fun rv => Normal (r_name (fst rv)) (r_mean (fst rv)) (snd rv))
                            (filter (fun rv => memp (r_name (fst rv)) U) (with_diag 0 rows)))).
        { apply in_map_iff. exists (r, v). split; [reflexivity|]. apply filter_In. split; [exact Hv|].
          cbn [fst]. apply memp_In. exact HnU. }
        destruct (filter (fun rv => negb (memp (r_name (fst rv)) U)) (with_diag 0 rows)) as [|rv1 [|rv2 kt]];
          [exact Hs | apply in_or_app; left; exact Hs | apply in_or_app; left; exact Hs].
      * cbn [keep_dist dist_free]. apply negb_true_iff. apply disjointp_false. exists x. split; [exact HxS|].
        apply in_or_app. left. exact Hxm.
    + (* not unjoined: stays in the block, or is the single remainder with its own variance *)
      assert (HnU : ~ In (r_name r) U).
      { intro H. apply (unjoined_iff_test S rvs rows r Hnd Hd Hr) in H. congruence. }
      destruct (existsb (fun r0 => memp (r_name r0) U) rows) eqn:Hany.
      2:{ exists (Joint rows). split; [left; reflexivity|]. split; [reflexivity|]. cbn [dist_names]. apply in_map. exact Hr. }
      assert (Hin : In (r, v) (filter (fun rv => negb (memp (r_name (fst rv)) U)) (with_diag 0 rows))).
      { apply filter_In. split; [exact Hv|]. cbn [fst]. apply negb_true_iff. apply memp_false. exact HnU. }
      destruct (filter (fun rv => negb (memp (r_name (fst rv)) U)) (with_diag 0 rows)) as [|rv1 [|rv2 kt]] eqn:Ek.
      * destruct Hin.
      * destruct Hin as [->|[]]. cbn [fst snd].
        exists (Normal (r_name r) (r_mean r) v). split; [apply in_or_app; right; left; reflexivity|].
        split; [|left; reflexivity].
        cbn [keep_dist dist_free]. apply negb_true_iff. apply disjointp_false. exists x. split; [exact HxS|].
        apply in_app_or in Hx. destruct Hx as [Hx|Hx]; [apply in_or_app; left; exact Hx|].
        apply in_or_app. right. apply in_or_app. left.
        (* x is in some entry (i, j) of r's row; j <> i is impossible because row j was unjoined *)
        destruct (with_diag_nth r v rows 0 Hv) as [i [Hi [Hnth Hvi]]]. cbn [Nat.add] in Hvi.
        unfold row_params in Hx. apply in_concat in Hx. destruct Hx as [e [He Hxe]].
        destruct (In_nth _ _ [] He) as [j [Hj Hje]].
        rewrite (Hshape r Hr) in Hj.
        destruct (Nat.eq_dec j i) as [->|Hji]; [rewrite Hvi, Hje; exact Hxe|]. exfalso.
        set (rj := nth j rows dflt_row).
        assert (Hrj : In rj rows) by (apply nth_In; exact Hj).
        pose proof (with_diag_at rows 0 j Hj) as Hwj. cbn [Nat.add] in Hwj. fold rj in Hwj.
        assert (HjU : In (r_name rj) U).
        { destruct (memp (r_name rj) U) eqn:Em; [apply memp_In; exact Em|]. exfalso.
          assert (Hin2 : In (rj, nth j (r_entries rj) []) [(r, v)]).
          { rewrite <- Ek. apply filter_In. split; [exact Hwj|]. cbn [fst]. rewrite Em. reflexivity. }
          destruct Hin2 as [Hin2|[]]. injection Hin2 as Hrr _.
          assert (Hnn : NoDup (map r_name rows)) by (apply (flat_nodup_each rvs (Joint rows) Hnd Hd)).
          apply Hji. apply (proj1 (NoDup_nth (map r_name rows) (r_name dflt_row)) Hnn); try (rewrite map_length; assumption).
          rewrite !map_nth. fold rj. rewrite Hnth, Hrr. reflexivity. }
        apply (unjoined_iff_test S rvs rows rj Hnd Hd Hrj) in HjU.
        unfold unjoin_test in HjU. apply andb_true_iff in HjU. destruct HjU as [_ HjU].
        unfold disjointp in HjU. apply negb_true_iff in HjU.
        assert (Hcontra : interp_nonempty S (row_params rj) = true).
        { apply interp_nonempty_spec. exists x. split; [exact HxS|].
          assert (Hxji : In x (entry rows j i)).
          { apply (setp_eqb_In (entry rows i j)); [apply Hsym; assumption|].
            unfold entry. change (mkRow xH [] []) with dflt_row. rewrite Hnth, Hje. exact Hxe. }
          unfold entry in Hxji. change (mkRow xH [] []) with dflt_row in Hxji. fold rj in Hxji.
          destruct (nth_in_or_default i (r_entries rj) []) as [Hin3|Hd3]; [|rewrite Hd3 in Hxji; destruct Hxji].
          unfold row_params. apply in_concat. eexists. split; [exact Hin3 | exact Hxji]. }
        congruence.
      * eexists. split; [apply in_or_app; right; left; reflexivity|]. split; [reflexivity|].
        cbn [dist_names]. rewrite map_map. cbn [r_name]. apply in_map_iff. exists (r, v). split; [reflexivity | exact Hin].
Qed.
