(* PV.C09.Refuted — statements of the property that are FALSE of the documented formulas (and of the
   code, which implements exactly these formulas): one witness per guard conjunct. *)
From Coq Require Import QArith List Bool PArith Arith.
From PV Require Import Base.PyData Base.Expr Base.Interp Base.Stmts C09.Model C09.Proofs C09.Examples.
Import ListNotations.
Local Open Scope Q_scope.

Definition g_op_mul (o : binop) : bool := match o with OpMul => true | OpAdd => false end.

(* guard g_op_mul: with operation '+', "P = P + coveff" is not neutral at the reference value — every
   effect template equals 1 there, the neutral element of '+' is 0.  Witness: linear effect, cov = median. *)
Theorem effect_neutral_refuted :
  exists (o : binop) (k : ekind) (r : env),
    g_op_mul o = false /\ fi_proper ex_fi /\ exp_zero_one ex_fi /\ pow_base_one ex_fi /\
    r s_cov = Some (13 # 10) /\ r s_median = Some (13 # 10) /\ ref_ok k (13 # 10) /\ thetas_defined k r /\
    ~ oq_equiv (eval r ex_fi (doc_effect k)) (Some (neutral o)).
Proof.
  exists OpAdd, ELin, ex_env. repeat split; try reflexivity;
    try apply ex_fi_proper; try apply ex_fi_exp0; try apply ex_fi_pow1.
  - eexists; reflexivity.
  - vm_compute. discriminate.
Qed.

(* ... and for every kind and every admissible interpretation, not only the witness *)
Theorem effect_additive_never_neutral :
  forall (fi : finterp) (r : env) (k : ekind) (m : Q),
    fi_proper fi -> exp_zero_one fi -> pow_base_one fi ->
    r s_cov = Some m -> r s_median = Some m -> ref_ok k m -> thetas_defined k r ->
    ~ oq_equiv (eval r fi (doc_effect k)) (Some (neutral OpAdd)).
Proof.
  intros. apply (effect_additive_not_neutral doc_templates fi r k m); auto. apply doc_templates_equiv_refl.
Qed.

(* guard iiv_neutral_kind: the exponential form with '+', the logit form and the rescaled logit form
   do not give back the parameter at eta = 0.  Witness: P = 5. *)
Definition iiv_env : env := env_of [(s_original, 5 # 1); (s_eta_new, 0)].

Theorem iiv_neutral_refuted_exp_add :
  iiv_neutral_kind IExp OpAdd = false /\
  eval iiv_env std_fi (doc_iiv IExp OpAdd) = Some (6 # 1).
Proof. split; vm_compute; reflexivity. Qed.

Theorem iiv_neutral_refuted_logit :
  iiv_neutral_kind ILogit OpMul = false /\
  eval iiv_env std_fi (doc_iiv ILogit OpMul) = Some (5 # 2).
Proof. split; vm_compute; reflexivity. Qed.

Theorem iiv_neutral_refuted_relogit :
  iiv_neutral_kind IReLogit OpMul = false /\
  eval iiv_env std_fi (doc_iiv IReLogit OpMul) = Some (1 # 2).
Proof. split; vm_compute; reflexivity. Qed.

(* guard g_eta_factors_pure (remove_iiv round trip, product rule): when a factor mentions the eta AND a
   model symbol, replacing it by 1 also removes part of the original expression. *)
Definition rETA : id := 301%positive. Definition rPHI : id := 302%positive. Definition rTV : id := 303%positive.
Definition rCL : id := 304%positive. Definition rV : id := 305%positive.

(* rescaled logit: expand(exp(ETA*phi)/(1 + exp(ETA*phi))) = exp(ETA*phi) * (1 + exp(ETA*phi))^-1 *)
Definition relogit_args : list expr :=
  [Fn1 F_EXP (Mul (Sym rETA) (Sym rPHI));
   Fn2 F_POW (Add (Num 1) (Fn1 F_EXP (Mul (Sym rETA) (Sym rPHI)))) (Num (-1))].
Theorem remove_iiv_relogit_refuted :
  g_eta_factors_pure rETA relogit_args = false /\
  forall r, eval r std_fi (remove_iiv_expr rETA TopMul relogit_args (product_of relogit_args)) = Some 1 /\
  eval (env_of [(rTV, 2 # 3)]) std_fi (Sym rTV) = Some (2 # 3).
Proof. split; [vm_compute; reflexivity|]. intros r. split; vm_compute; reflexivity. Qed.

(* logit on a quotient K = CL/V: expand(CL/V * exp(ETA)/(1 + exp(ETA))) = CL * exp(ETA) * (V*exp(ETA) + V)^-1 *)
Definition quotient_args : list expr :=
  [Sym rCL; Fn1 F_EXP (Sym rETA);
   Fn2 F_POW (Add (Mul (Sym rV) (Fn1 F_EXP (Sym rETA))) (Sym rV)) (Num (-1))].
Theorem remove_iiv_quotient_refuted :
  g_eta_factors_pure rETA quotient_args = false /\
  let r := env_of [(rCL, 6 # 1); (rV, 3 # 1); (rETA, 0)] in
  eval r std_fi (remove_iiv_expr rETA TopMul quotient_args (product_of quotient_args)) = Some (6 # 1) /\
  eval r std_fi (Div (Sym rCL) (Sym rV)) = Some (2 # 1).
Proof. split; [vm_compute; reflexivity|]. split; vm_compute; reflexivity. Qed.

(* the rule does restore a plain product (pheno: CL = TVCL * exp(ETA_CL)) *)
Example remove_iiv_product_restores :
  g_eta_factors_pure rETA [Sym rTV; Fn1 F_EXP (Sym rETA)] = true /\
  remove_iiv_expr rETA TopMul [Sym rTV; Fn1 F_EXP (Sym rETA)] (Mul (Sym rTV) (Fn1 F_EXP (Sym rETA)))
  = Mul (Sym rTV) (Num 1).
Proof. split; vm_compute; reflexivity. Qed.

(* guard "the transit count is not reduced to a lone compartment" (finding C09-TRANSIT-REDUCE-TO-ONE): the
   setter leaves the rate 3/MDT on the single remaining compartment (exported observation; the graph surgery
   of set_transit_compartments / _update_numerators is not modelled): its mean transit time is MDT/3. *)
Theorem transit_reduce_to_one_refuted :
  exists (n left_numerator mdt : Q),
    n == 1 /\ left_numerator == 3 /\ ~ mdt == 0 /\
    ~ n * (1 / (left_numerator / mdt)) == mdt /\ n * (1 / (left_numerator / mdt)) == mdt / 3.
Proof. exists 1, 3, 6. repeat split; try discriminate; reflexivity. Qed.

(* guard "the proportional epsilon term is exactly eps * ipred" (finding C09-POWER-ON-RUV-EXTRA-FACTOR):
   set_power_on_ruv first rewrites eps*ipred into eps and then substitutes eps := ipred^theta * eps (the
   documented [doc_power_on_ruv]).  When the first rewrite does not match (observed on
   Y = F + EPS*F*exp(ETA_RV1); the structural match of sympy/symengine is not modelled) only the second
   step happens: the coefficient of eps becomes F^(theta+1) * exp(eta) instead of F^theta * exp(eta). *)
Definition pF : id := 311%positive. Definition pEPS : id := 312%positive. Definition pETA : id := 313%positive.
Definition pTH : id := 314%positive.
Definition y_iiv_on_ruv : expr := Add (Sym pF) (Mul (Mul (Sym pEPS) (Sym pF)) (Fn1 F_EXP (Sym pETA))).
Definition y_power_only_second_step : expr :=
  subs pEPS (subs_map [(s_eps, Sym pEPS); (s_ipred, Sym pF); (s_power, Sym pTH)] doc_power_on_ruv) y_iiv_on_ruv.
Theorem power_on_ruv_refuted :
  let r v := env_of [(pF, 2); (pEPS, v); (pETA, 0); (pTH, 3)] in
  (* coefficient of eps: Y(1) - Y(0) *)
  eval (r 1) std_fi y_power_only_second_step = Some (18 # 1) /\
  eval (r 0) std_fi y_power_only_second_step = Some (2 # 1) /\
  (* documented: F^theta * exp(eta) = 8 *)
  eval (r 1) std_fi (Mul (Fn2 F_POW (Sym pF) (Sym pTH)) (Fn1 F_EXP (Sym pETA))) = Some (8 # 1).
Proof. repeat split; vm_compute; reflexivity. Qed.

(* REGRESSION (finding C09-COV-NESTED-SAME-SYMBOL, fixed by 73c85ed): a second effect of the same covariate on the
   same parameter reuses the effect symbol.  Formerly the grouping heuristic merged  CL = CL*CLWGT  into
   CL = CL*CLWGT*CLWGT  after CLWGT had been redefined (code 2*8*8 = 128 instead of 2*4*8 = 64 at T = 2, ETA = 0,
   WGT = median + 1, theta = 3, theta1 = 5, theta2 = 7).  Now nothing is grouped when the effect symbol is already
   assigned; the guard of add_covariate_effect_sound holds on this program and model = spec = 64. *)
Definition xT1 : id := 213%positive. Definition xT2 : id := 214%positive. Definition xWGTMED1 : id := 215%positive.
Definition nested_prog : list stmt :=
  [Assign xWGTMED1 (Num (13 # 10));
   Assign xTVCL (Sym xT); Assign xCL (Mul (Sym xTVCL) (Fn1 F_EXP (Sym xETA)));
   Assign xCLWGT (Add (Num 1) (Mul (Sym xTH) (Add (Sym xWGT) (Neg (Sym xWGTMED1)))));
   Assign xCL (Mul (Sym xCL) (Sym xCLWGT));
   Assign xV (Sym xCL)].
Definition nested_args : cov_args :=
  {| a_param := xCL; a_cov := xWGT; a_kind := DPiece; a_cats := []; a_mc := 0; a_op := OpMul;
     a_thetas := [(s_theta1, xT1); (s_theta2, xT2)]; a_effect := xCLWGT;
     a_stats := [(s_mean, 210%positive, 3 # 2); (s_median, xWGTMED, 13 # 10); (s_std, 211%positive, 1 # 4)];
     a_cov_possible := [xCL; xCLWGT] |}.
Definition nested_env : list (id * Q) :=
  [(xT, 2); (xETA, 0); (xWGT, 23 # 10); (xTH, 3); (xT1, 5); (xT2, 7)].
Example cov_nested_same_symbol_fixed :
  g_surgery doc_templates nested_args nested_prog = true /\
  match add_covariate_effect doc_templates nested_args nested_prog, spec_covariate_effect nested_args nested_prog with
  | Some lm, Some ls => run nested_env lm xV = Some (64 # 1) /\ run nested_env ls xV = Some (64 # 1) /\ length lm = 9%nat
  | _, _ => False
  end.
Proof. split; [vm_compute; reflexivity|]. vm_compute. repeat split; reflexivity. Qed.

(* REGRESSION (finding C09-COV-PIECEWISE-PARAM, fixed by f37045c): a parameter whose last assignment is a Piecewise is
   never grouped (formerly TypeError in the implementation): the effect statement follows it. *)
Definition pw_prog : list stmt :=
  [Assign xTVCL (Sym xT);
   Assign xTVCL (PwCons (CRel OLt (Sym xWGT) (Num 5)) (Mul (Sym xTVCL) (Num 2)) (PwCons CTrue (Sym xTVCL) PwNil))].
Definition pw_args : cov_args :=
  {| a_param := xTVCL; a_cov := xWGT; a_kind := DLin; a_cats := []; a_mc := 0; a_op := OpMul;
     a_thetas := [(s_theta, xTH)]; a_effect := xCLWGT;
     a_stats := [(s_mean, 210%positive, 3 # 2); (s_median, xWGTMED, 13 # 10); (s_std, 211%positive, 1 # 4)];
     a_cov_possible := [xTVCL; xCLWGT] |}.
Example cov_piecewise_param_fixed :
  g_surgery doc_templates pw_args pw_prog = true /\
  match add_covariate_effect doc_templates pw_args pw_prog with
  | Some lm => skipn 3 lm = [Assign xCLWGT (Add (Num 1) (Mul (Sym xTH) (Add (Sym xWGT) (Neg (Sym xWGTMED)))));
                             Assign xTVCL (Mul (Sym xTVCL) (Sym xCLWGT))]
  | None => False
  end.
Proof. split; vm_compute; reflexivity. Qed.

(* REGRESSION (finding C09-REMOVE-IIV-SINGLE-ARG, fixed by a9a6b2e): a statement EX = exp(ETA) (one-argument
   expression; formerly AttributeError in the implementation) becomes EX = exp(0) = 1. *)
Example remove_iiv_single_arg_fixed :
  remove_iiv_expr rETA TopExp [] (Fn1 F_EXP (Sym rETA)) = Fn1 F_EXP (Num 0) /\
  eval (env_of []) std_fi (remove_iiv_expr rETA TopExp [] (Fn1 F_EXP (Sym rETA))) = Some 1.
Proof. split; vm_compute; reflexivity. Qed.

(* guard "the chain is not a single compartment" of transit_rates_after_update (finding C09-TRANSIT-REDUCE-TO-ONE),
   now on the model of _update_numerators: a lone remaining compartment with rate 3/MDT is not detected, the loop
   runs over no compartment, the rate stays 3/MDT. *)
Theorem transit_rates_refuted :
  let rates := [{| tr_numer := NInt 3; tr_denom := Sym s_mdt |}] in
  length rates = 1%nat /\
  rates_after_update rates [] = (rates, []) /\
  rate_value [] {| tr_numer := NInt 3; tr_denom := Sym s_mdt |} = Some (NInt 3, Sym s_mdt).
Proof. repeat split. Qed.
