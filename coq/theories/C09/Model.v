(* PV.C09.Model — model extensions (covariate effects, IIV, error models, transit/absorption constants).

   Three layers, no proofs in this file:
   1. the vocabulary shared with the REGENERATED templates (build/gen/C09/Templates.v is produced on every
      run by harness/props/c09_templates.py from the pharmpy source and has type [templates]);
   2. the SPEC: the documented formulas, written here independently from the docstrings of
      add_covariate_effect / add_iiv / set_*_error_model / add_allometry ([doc_templates]);
   3. hand-written executable models of the statement surgery (CovariateEffect.categorical / apply /
      create_effect_statement, add_covariate_effect, add_iiv, the error-model setters) parametrised by a
      [templates] record, validated by the correspondence check. *)
From Coq Require Import QArith NArith List Bool PArith Arith.
From PV Require Import Base.PyData Base.Expr Base.Interp Base.Stmts.
Import ListNotations.
Local Open Scope nat_scope.

(* ---- placeholder symbols of the templates (names used in the Python source) ------------------------- *)
Definition s_cov : id := 1%positive.        (* 'cov' *)
Definition s_median : id := 2%positive.     (* 'median' *)
Definition s_mean : id := 3%positive.
Definition s_std : id := 4%positive.
Definition s_theta : id := 5%positive.
Definition s_theta1 : id := 6%positive.
Definition s_theta2 : id := 7%positive.
Definition s_nan : id := 8%positive.        (* Expr.symbol('NaN') *)
Definition s_original : id := 9%positive.   (* 'original' of EtaAddition *)
Definition s_eta_new : id := 10%positive.
Definition s_x : id := 11%positive.         (* f_dummy = Expr.dummy('x') *)
Definition s_f : id := 12%positive.         (* f: the prediction (Y with every epsilon set to 0) *)
Definition s_eps_p : id := 13%positive.
Definition s_eps_a : id := 14%positive.
Definition s_ipredadj : id := 15%positive.
Definition s_eta_ruv : id := 16%positive.
Definition s_time_varying : id := 17%positive.
Definition s_n : id := 18%positive.         (* number of transit compartments *)
Definition s_mdt : id := 19%positive.
Definition s_mat : id := 20%positive.
Definition s_p : id := 21%positive.         (* the individual parameter being extended *)
Definition s_var : id := 22%positive.       (* allometric variable *)
Definition s_ref : id := 23%positive.       (* allometric reference value *)
Definition s_allo : id := 24%positive.      (* allometric exponent *)
Definition s_effect : id := 25%positive.    (* symbol of the effect statement, e.g. CLWGT *)
Definition s_most_common : id := 26%positive.
Definition s_cat : id := 27%positive.
Definition s_eps : id := 28%positive.
Definition s_ipred : id := 29%positive.
Definition s_power : id := 30%positive.
Definition s_eta : id := 31%positive.
Definition theta_n (i : nat) : id := Pos.of_nat (100 + i).   (* f'theta{i}' *)

Inductive ekind := ELin | EPiece | EExp | EPow.
Inductive dkind := DLin | DPiece | DExp | DPow | DCat (alternative : bool).
Inductive binop := OpMul | OpAdd.
Inductive ikind := IAdd | IProp | IExp | ILogit | IReLogit.
Inductive dtrans := DTId | DTLog.
Inductive combkind := CombLog | CombIivRuv | CombPlain.

Definition apply_op (o : binop) (a b : expr) : expr :=
  match o with OpMul => Mul a b | OpAdd => Add a b end.

Record templates := {
  t_effect : ekind -> expr;
  t_effect_rhs : binop -> expr;
  t_cat_start : nat;
  t_cat_first_value : expr; t_cat_first_cond : cond;
  t_cat_nan_value : expr; t_cat_nan_cond : cond;
  t_cat_other_cond : cond;
  t_cat_other_value : bool -> bool -> nat -> expr;
  t_iiv : ikind -> binop -> expr;
  t_relogit_phi : expr;
  t_add_error : expr;
  t_prop_error : dtrans -> bool -> expr;
  t_prop_guard : expr;
  t_comb_error : combkind -> expr;
  t_iiv_on_ruv : expr;
  t_power_on_ruv : expr;
  t_transit_rate : expr; t_transit_rate_update : expr; t_fo_rate : expr; t_zo_duration : expr;
  t_allometry : expr;
  t_effect_dispatch : list (list N * dkind);
  t_effect_ops : list (list N * binop);
  t_iiv_dispatch : list (list N * ikind);
  t_iiv_ops : list (list N * binop)
}.

(* ==================================================================================================== *)
(* SPEC — the documented formulas                                                                       *)
(* ==================================================================================================== *)
Definition Sub (a b : expr) : expr := Add a (Neg b).
Definition one : expr := Num 1.

(* add_covariate_effect docstring:
     lin        coveff = 1 + theta * (cov - median)
     piece_lin  cov <= median: 1 + theta1 * (cov - median);  cov > median: 1 + theta2 * (cov - median)
     exp        coveff = exp(theta * (cov - median))
     pow        coveff = (cov / median) ^ theta                                                        *)
Definition doc_effect (k : ekind) : expr :=
  match k with
  | ELin => Add one (Mul (Sym s_theta) (Sub (Sym s_cov) (Sym s_median)))
  | EPiece =>
      PwCons (CRel OLe (Sym s_cov) (Sym s_median)) (Add one (Mul (Sym s_theta1) (Sub (Sym s_cov) (Sym s_median))))
     (PwCons (CRel OGt (Sym s_cov) (Sym s_median)) (Add one (Mul (Sym s_theta2) (Sub (Sym s_cov) (Sym s_median))))
      PwNil)
  | EExp => Fn1 F_EXP (Mul (Sym s_theta) (Sub (Sym s_cov) (Sym s_median)))
  | EPow => Fn2 F_POW (Div (Sym s_cov) (Sym s_median)) (Sym s_theta)
  end.

(* cat: most common category 1, every other category 1 + theta;  cat2: 1, resp. theta.
   (one theta when there are two categories, theta<i> — i the 1-based position of the category in the
   sorted category list — otherwise; a missing-value category gets 1) *)
Definition doc_cat_other_value (two alternative : bool) (i : nat) : expr :=
  let th := if two then Sym s_theta else Sym (theta_n i) in
  if alternative then th else Add one th.

(* "the covariate effect should be added or multiplied": P = P * coveff | P = P + coveff *)
Definition doc_effect_rhs (o : binop) : expr := apply_op o (Sym s_p) (Sym s_effect).

(* add_iiv docstring, for CL = Theta:
     add   Theta + eta          prop  Theta * (1 + eta)        exp  Theta +/* e^eta
     log   Theta * e^eta / (e^eta + 1)
     re_log  e^(Phi*eta) / (1 + e^(Phi*eta))  with  Phi = log(Theta / (1 - Theta))                     *)
Definition doc_iiv (k : ikind) (o : binop) : expr :=
  let th := Sym s_original in
  let eeta := Fn1 F_EXP (Sym s_eta_new) in
  match k with
  | IAdd => Add th (Sym s_eta_new)
  | IProp => Mul th (Add one (Sym s_eta_new))
  | IExp => apply_op o th eeta
  | ILogit => Div (Mul th eeta) (Add eeta one)
  | IReLogit => let e := Fn1 F_EXP (Mul (Sym s_original) (Sym s_eta_new)) in Div e (Add one e)
  end.
Definition doc_relogit_phi : expr := Fn1 F_LOG (Div (Sym s_original) (Sub one (Sym s_original))).

(* error-model tables of set_additive/proportional/combined_error_model:
     y:       f + eps_a     | f + f*eps_p         | f + f*eps_p + eps_a
     log(y):  (series)      | log(f) + eps_p      | log(f) + eps_p + eps_a / f
   The prediction enters through the dummy x (then x := f); with zero protection the proportional
   models use IPREDADJ (= f unless f = 0) in the epsilon term / under the log. *)
Definition doc_add_error : expr := Add (Sym s_f) (Sym s_eps_a).
Definition doc_prop_error (dt : dtrans) (zp : bool) : expr :=
  match dt, zp with
  | DTId, false => Add (Sym s_x) (Mul (Sym s_x) (Sym s_eps_p))
  | DTId, true => Add (Sym s_x) (Mul (Sym s_ipredadj) (Sym s_eps_p))
  | DTLog, false => Add (Fn1 F_LOG (Sym s_x)) (Sym s_eps_p)
  | DTLog, true => Add (Fn1 F_LOG (Sym s_ipredadj)) (Sym s_eps_p)
  end.
Definition doc_prop_guard : expr :=
  PwCons (CRel OEq (Sym s_f) (Num 0)) (Num (2225 # 10000000000000000000)) (PwCons CTrue (Sym s_f) PwNil).
Definition doc_comb_error (k : combkind) : expr :=
  match k with
  | CombPlain => Add (Add (Sym s_x) (Mul (Sym s_x) (Sym s_eps_p))) (Sym s_eps_a)
  | CombLog => Add (Add (Fn1 F_LOG (Sym s_x)) (Sym s_eps_p)) (Div (Sym s_eps_a) (Sym s_x))
  | CombIivRuv =>  (* every epsilon multiplied by exp(ETA_RV1), as set_iiv_on_ruv documents *)
      Add (Add (Sym s_x) (Mul (Sym s_x) (Mul (Sym s_eps_p) (Fn1 F_EXP (Sym s_eta_ruv)))))
          (Mul (Sym s_eps_a) (Fn1 F_EXP (Sym s_eta_ruv)))
  end.
(* set_iiv_on_ruv: "multiplies epsilons with exponential (new) etas";  set_power_on_ruv: eps * ipred^theta *)
Definition doc_iiv_on_ruv : expr := Mul (Sym s_eps) (Fn1 F_EXP (Sym s_eta)).
Definition doc_power_on_ruv : expr := Mul (Sym s_eps) (Fn2 F_POW (Sym s_ipred) (Sym s_power)).

(* transit compartments: n compartments, each with rate n / MDT;  first order absorption KA = 1 / MAT;
   zero order absorption: infusion duration 2 * MAT;  allometry P * (X / Z) ^ T *)
Definition doc_transit_rate : expr := Div (Sym s_n) (Sym s_mdt).
Definition doc_fo_rate : expr := Div one (Sym s_mat).
Definition doc_zo_duration : expr := Mul (Num 2) (Sym s_mat).
Definition doc_allometry : expr := Mul (Sym s_p) (Fn2 F_POW (Div (Sym s_var) (Sym s_ref)) (Sym s_allo)).

Definition str (l : list nat) : list N := map N.of_nat l.
Definition doc_effect_dispatch : list (list N * dkind) :=
  [ (str [108;105;110], DLin); (str [99;97;116], DCat false); (str [99;97;116;50], DCat true);
    (str [112;105;101;99;101;95;108;105;110], DPiece); (str [101;120;112], DExp); (str [112;111;119], DPow) ].
Definition doc_ops : list (list N * binop) := [ (str [42], OpMul); (str [43], OpAdd) ].
Definition doc_iiv_dispatch : list (list N * ikind) :=
  [ (str [97;100;100], IAdd); (str [112;114;111;112], IProp); (str [101;120;112], IExp);
    (str [108;111;103], ILogit); (str [114;101;95;108;111;103], IReLogit) ].

Definition doc_templates : templates := {|
  t_effect := doc_effect; t_effect_rhs := doc_effect_rhs;
  t_cat_start := 1;
  t_cat_first_value := one; t_cat_first_cond := CRel OEq (Sym s_cov) (Sym s_most_common);
  t_cat_nan_value := one; t_cat_nan_cond := CRel OEq (Sym s_cov) (Sym s_nan);
  t_cat_other_cond := CRel OEq (Sym s_cov) (Sym s_cat);
  t_cat_other_value := doc_cat_other_value;
  t_iiv := doc_iiv; t_relogit_phi := doc_relogit_phi;
  t_add_error := doc_add_error; t_prop_error := doc_prop_error; t_prop_guard := doc_prop_guard;
  t_comb_error := doc_comb_error;
  t_iiv_on_ruv := doc_iiv_on_ruv; t_power_on_ruv := doc_power_on_ruv;
  t_transit_rate := doc_transit_rate; t_transit_rate_update := doc_transit_rate;
  t_fo_rate := doc_fo_rate; t_zo_duration := doc_zo_duration; t_allometry := doc_allometry;
  t_effect_dispatch := doc_effect_dispatch; t_effect_ops := doc_ops;
  t_iiv_dispatch := doc_iiv_dispatch; t_iiv_ops := doc_ops
|}.

(* neutral element of the operation: what the effect must evaluate to at the reference value *)
Definition neutral (o : binop) : Q := match o with OpMul => 1%Q | OpAdd => 0%Q end.

(* ==================================================================================================== *)
(* Statement-list helpers (own copies; C10 has the same queries)                                        *)
(* ==================================================================================================== *)
Fixpoint find_last_from (p : stmt -> bool) (l : list stmt) (i : nat) (acc : option nat) : option nat :=
  match l with
  | [] => acc
  | st :: tl => find_last_from p tl (S i) (if p st then Some i else acc)
  end.
Definition find_assignment_index (l : list stmt) (s : id) : option nat :=
  find_last_from (is_assign_of s) l 0 None.

Fixpoint find_first_from (p : stmt -> bool) (l : list stmt) (i : nat) : option nat :=
  match l with
  | [] => None
  | st :: tl => if p st then Some i else find_first_from p tl (S i)
  end.

Fixpoint reassign_rev (s : id) (e : expr) (rl : list stmt) (last : bool) : list stmt :=
  match rl with
  | [] => []
  | st :: tl =>
      if is_assign_of s st
      then if last then Assign s e :: reassign_rev s e tl false else reassign_rev s e tl false
      else st :: reassign_rev s e tl last
  end.
Definition reassign (l : list stmt) (s : id) (e : expr) : list stmt :=
  rev (reassign_rev s e (rev l) true).

(* syntactic equality of expressions (numbers up to Qeq) — `s not in sset` on statements *)
Definition relop_eqb (a b : relop) : bool :=
  match a, b with
  | OLt, OLt | OLe, OLe | OEq, OEq | ONe, ONe | OGt, OGt | OGe, OGe => true
  | _, _ => false
  end.
Fixpoint expr_eqb (a b : expr) : bool :=
  match a, b with
  | Num x, Num y => Qeq_bool x y
  | Sym x, Sym y => Pos.eqb x y
  | Fn1 f x, Fn1 g y => Pos.eqb f g && expr_eqb x y
  | Fn2 f x1 x2, Fn2 g y1 y2 => Pos.eqb f g && expr_eqb x1 y1 && expr_eqb x2 y2
  | Add x1 x2, Add y1 y2 | Mul x1 x2, Mul y1 y2 | Div x1 x2, Div y1 y2 => expr_eqb x1 y1 && expr_eqb x2 y2
  | Neg x, Neg y => expr_eqb x y
  | PwNil, PwNil => true
  | PwCons c e r, PwCons c' e' r' => cond_eqb c c' && expr_eqb e e' && expr_eqb r r'
  | _, _ => false
  end
with cond_eqb (a b : cond) : bool :=
  match a, b with
  | CTrue, CTrue | CFalse, CFalse => true
  | CRel o x1 x2, CRel o' y1 y2 => relop_eqb o o' && expr_eqb x1 y1 && expr_eqb x2 y2
  | CAnd x1 x2, CAnd y1 y2 | COr x1 x2, COr y1 y2 => cond_eqb x1 y1 && cond_eqb x2 y2
  | CNot x, CNot y => cond_eqb x y
  | _, _ => false
  end.
Definition stmt_eqb (a b : stmt) : bool :=
  match a, b with
  | Assign s e, Assign s' e' => Pos.eqb s s' && expr_eqb e e'
  | _, _ => false
  end.

(* ==================================================================================================== *)
(* CovariateEffect.categorical(counts, alternative)                                                     *)
(*   cats: list(counts.index) (None = NaN), mc = counts.idxmax()                                        *)
(* ==================================================================================================== *)
Definition oq_is (c : option Q) (q : Q) : bool := match c with Some x => Qeq_bool x q | None => false end.

Fixpoint cat_pieces (T : templates) (two alt : bool) (mc : Q) (i : nat) (cats : list (option Q))
  : list (expr * cond) :=
  match cats with
  | [] => []
  | c :: tl =>
      (if oq_is c mc then []
       else match c with
            | None => [(t_cat_nan_value T, t_cat_nan_cond T)]
            | Some v => [(t_cat_other_value T two alt i, subsc s_cat (Num v) (t_cat_other_cond T))]
            end) ++ cat_pieces T two alt mc (S i) tl
  end.

Fixpoint piecewise_of (l : list (expr * cond)) : expr :=
  match l with
  | [] => PwNil
  | (v, c) :: tl => PwCons c v (piecewise_of tl)
  end.

Definition categorical (T : templates) (cats : list (option Q)) (mc : Q) (alt : bool) : expr :=
  let two := Nat.eqb (length cats) 2 in
  piecewise_of ((t_cat_first_value T, subsc s_most_common (Num mc) (t_cat_first_cond T))
                :: cat_pieces T two alt mc (t_cat_start T) cats).

Definition effect_expr (T : templates) (k : dkind) (cats : list (option Q)) (mc : Q) : expr :=
  match k with
  | DLin => t_effect T ELin
  | DPiece => t_effect T EPiece
  | DExp => t_effect T EExp
  | DPow => t_effect T EPow
  | DCat alt => categorical T cats mc alt
  end.

(* ==================================================================================================== *)
(* CovariateEffect.apply + add_covariate_effect                                                         *)
(* ==================================================================================================== *)
Record cov_args := {
  a_param : id;                      (* parameter, e.g. CL *)
  a_cov : id;                        (* covariate column *)
  a_kind : dkind;
  a_cats : list (option Q);          (* categorical only *)
  a_mc : Q;                          (* categorical only: most common level *)
  a_op : binop;
  a_thetas : list (id * id);         (* template theta symbol -> new population parameter *)
  a_effect : id;                     (* f'{parameter}{covariate}' *)
  a_stats : list (id * id * Q);      (* template statistic symbol (mean/median/std), f'{cov}_MEDIAN', value;
                                        in the order mean, median, std *)
  a_cov_possible : list id           (* {parameter} ∪ {parameter+column name} *)
}.

(* template.expression.subs(thetas).subs({'cov': covariate}), then each statistic that occurs *)
Definition applied_template (T : templates) (a : cov_args) : expr :=
  let e0 := effect_expr T (a_kind a) (a_cats a) (a_mc a) in
  let e1 := subs_map (map (fun p => (fst p, Sym (snd p))) (a_thetas a)) e0 in
  let e2 := subs (s_cov) (Sym (a_cov a)) e1 in
  fold_left (fun e st => let '(ts, name, _) := st in
                         if memp ts (free_syms e) then subs ts (Sym name) e else e)
            (a_stats a) e2.

Definition statistic_statements (T : templates) (a : cov_args) : list stmt :=
  let e2 := subs (s_cov) (Sym (a_cov a))
              (subs_map (map (fun p => (fst p, Sym (snd p))) (a_thetas a))
                 (effect_expr T (a_kind a) (a_cats a) (a_mc a))) in
  flat_map (fun st => let '(ts, name, v) := st in
                      if memp ts (free_syms e2) then [Assign name (Num v)] else []) (a_stats a).

(* sympy `.args` of an exported expression: operands of a flattened product / sum, arguments of a function
   or power; atoms have none; the args of a Piecewise are (expr, cond) pairs, never symbols *)
Fixpoint mul_args (e : expr) : list expr :=
  match e with Mul a b => mul_args a ++ mul_args b | _ => [e] end.
Fixpoint add_args (e : expr) : list expr :=
  match e with Add a b => add_args a ++ add_args b | _ => [e] end.
Definition sym_args (e : expr) : option (list expr) :=
  match e with
  | Num _ | Sym _ => Some []
  | Mul _ _ => Some (mul_args e)
  | Add _ _ => Some (add_args e)
  | Fn1 _ a => Some [a]
  | Fn2 _ a b => Some [a; b]
  | Neg a => Some [Num (-1); a]
  | Div a b => Some [a; b]
  | PwNil | PwCons _ _ _ => None
  end.
Definition all_args_in (e : expr) (ok : list id) : bool :=
  match sym_args e with
  | Some (x :: tl) => forallb (fun a => match a with Sym s => memp s ok | _ => false end) (x :: tl)
  | _ => false
  end.

Definition add_covariate_effect (T : templates) (a : cov_args) (l : list stmt) : option (list stmt) :=
  let tmpl := Assign (a_effect a) (applied_template T a) in
  let stats := statistic_statements T a in
  let sset := filter (fun s => negb (existsb (stmt_eqb s) l)) stats ++ l in
  match find_assignment_index sset (a_param a) with
  | None => None                                   (* assert last_existing_parameter_assignment is not None *)
  | Some i =>
      let eff_rhs := subs_map [(s_p, Sym (a_param a)); (s_effect, Sym (a_effect a))] (t_effect_rhs T (a_op a)) in
      (* the effect symbol is reused (nested effect of the same covariate): nothing is grouped *)
      let covp := if existsb (is_assign_of (a_effect a)) sset then [] else a_cov_possible a in
      match nths sset i with
      | Assign _ last_e =>
          if all_args_in last_e covp
          then Some (firstn i sset ++ [tmpl; Assign (a_param a) (subs (a_param a) last_e eff_rhs)] ++ skipn (S i) sset)
          else Some (firstn (S i) sset ++ [tmpl; Assign (a_param a) eff_rhs] ++ skipn (S i) sset)
      | _ => None
      end
  end.

(* the SPEC of the transformation: the parameter's last assignment is followed by
   P = P op documented_effect(cov; thetas, statistic values) — nothing else changes *)
Definition doc_effect_closed (a : cov_args) : expr :=
  let e0 := effect_expr doc_templates (a_kind a) (a_cats a) (a_mc a) in
  let e1 := subs_map (map (fun p => (fst p, Sym (snd p))) (a_thetas a)) e0 in
  let e2 := subs s_cov (Sym (a_cov a)) e1 in
  fold_left (fun e st => let '(ts, _, v) := st in subs ts (Num v) e) (a_stats a) e2.

Definition spec_covariate_effect (a : cov_args) (l : list stmt) : option (list stmt) :=
  match find_assignment_index l (a_param a) with
  | None => None
  | Some i => Some (firstn (S i) l ++ [Assign (a_param a) (apply_op (a_op a) (Sym (a_param a)) (doc_effect_closed a))]
                      ++ skipn (S i) l)
  end.

(* ==================================================================================================== *)
(* executable guard of the soundness theorem of add_covariate_effect (ProofsSurgery.v)                  *)
(* ==================================================================================================== *)
Definition stat_keys (stats : list (id * id * Q)) : list id := map (fun st => fst (fst st)) stats.
Definition stat_names (stats : list (id * id * Q)) : list id := map (fun st => snd (fst st)) stats.
Definition fresh_names (a : cov_args) : list id := a_effect a :: stat_names (a_stats a).
Definition template_e2 (T : templates) (a : cov_args) : expr :=
  subs s_cov (Sym (a_cov a))
    (subs_map (map (fun p => (fst p, Sym (snd p))) (a_thetas a)) (effect_expr T (a_kind a) (a_cats a) (a_mc a))).
Definition emitted (T : templates) (a : cov_args) (ts : id) : bool := memp ts (free_syms (template_e2 T a)).
Fixpoint nodupb (l : list id) : bool :=
  match l with [] => true | x :: tl => negb (memp x tl) && nodupb tl end.

(* the statistic symbols are fresh for the program and distinct; the effect symbol is not a statistic symbol, is
   not read after the insertion point and — when the program does not assign it (then the code may group) — not by
   the parameter's last assignment; covariate, thetas and parameter are not among the new names and are not template
   placeholders that get substituted; every statistic the documented formula uses is emitted by the code's template.
   (Since fix 73c85ed the effect symbol may already be assigned and read by earlier statements: nested effects.) *)
Definition g_surgery (T : templates) (a : cov_args) (l : list stmt) : bool :=
  let F := fresh_names a in
  let Fs := stat_names (a_stats a) in
  let keys := stat_keys (a_stats a) in
  let e0D := effect_expr doc_templates (a_kind a) (a_cats a) (a_mc a) in
  forallb (fun x => negb (memp x (flat_map defs l)) && negb (memp x (flat_map rhs l))) Fs
  && negb (memp (a_effect a) Fs)
  && match find_assignment_index l (a_param a) with
     | Some i =>
         negb (memp (a_effect a) (flat_map rhs (skipn (S i) l))) &&
         (existsb (is_assign_of (a_effect a)) l || negb (memp (a_effect a) (rhs (nths l i))))
     | None => true
     end
  && negb (memp (a_param a) F)
  && nodupb (stat_names (a_stats a))
  && forallb (fun nm => negb (memp nm keys)) (stat_names (a_stats a))
  && negb (memp (a_cov a) F) && negb (memp (a_cov a) keys)
  && forallb (fun p => negb (memp (snd p) F) && negb (memp (snd p) keys) && negb (Pos.eqb (snd p) s_cov)) (a_thetas a)
  && forallb (fun y => negb (memp y keys)) F
  && forallb (fun x => negb (memp x (free_syms e0D))) F
  && forallb (fun st => implb (memp (fst (fst st)) (free_syms e0D)) (emitted T a (fst (fst st)))) (a_stats a)
  && negb (memp (a_param a) (free_syms (doc_effect_closed a))).

(* ==================================================================================================== *)
(* add_iiv                                                                                              *)
(* ==================================================================================================== *)
Definition add_iiv (T : templates) (k : ikind) (o : binop) (p eta phi : id) (l : list stmt) : option (list stmt) :=
  match find_assignment_index l p with
  | None => None
  | Some i =>
      match nths l i with
      | Assign _ e =>
          match k with
          | IReLogit =>
              Some (firstn i l ++ [Assign phi (subs s_original e (t_relogit_phi T));
                                   Assign p (subs_map [(s_original, Sym phi); (s_eta_new, Sym eta)] (t_iiv T k o))]
                      ++ skipn (S i) l)
          | _ =>
              Some (firstn i l ++ [Assign p (subs_map [(s_original, e); (s_eta_new, Sym eta)] (t_iiv T k o))]
                      ++ skipn (S i) l)
          end
      | _ => None
      end
  end.

(* SPEC: the assignment P = e becomes P = documented_form(e, eta) *)
Definition spec_iiv (k : ikind) (o : binop) (p eta : id) (l : list stmt) : option (list stmt) :=
  match find_assignment_index l p with
  | None => None
  | Some i =>
      match nths l i with
      | Assign _ e =>
          let form := match k with
                      | IReLogit => subs_map [(s_original, subs s_original e doc_relogit_phi); (s_eta_new, Sym eta)] (doc_iiv k o)
                      | _ => subs_map [(s_original, e); (s_eta_new, Sym eta)] (doc_iiv k o)
                      end in
          Some (firstn i l ++ [Assign p form] ++ skipn (S i) l)
      | _ => None
      end
  end.

(* ==================================================================================================== *)
(* remove_iiv: what replaces a statement that mentions the eta.  The implementation works on                 *)
(* sympy.expand(expression) (an engine call: its top-level function and args are exported):                *)
(*   no args (the expression is the eta): 0;  exp(...): eta := 0;                                          *)
(*   product: every factor that mentions the eta is replaced by 1;                                         *)
(*   sum: a term exp(...) that mentions the eta is replaced by 0, in any other such term eta := 0.          *)
(* ==================================================================================================== *)
Inductive topkind := TopAtom | TopExp | TopMul | TopAdd | TopOther.

Fixpoint product_of (l : list expr) : expr :=
  match l with [] => Num 1 | [x] => x | x :: tl => Mul x (product_of tl) end.
Fixpoint sum_of (l : list expr) : expr :=
  match l with [] => Num 0 | [x] => x | x :: tl => Add x (sum_of tl) end.
Definition mentions (eta : id) (e : expr) : bool := memp eta (free_syms e).
Definition is_exp (e : expr) : bool := match e with Fn1 f _ => Pos.eqb f F_EXP | _ => false end.

Definition remove_iiv_expr (eta : id) (k : topkind) (args : list expr) (whole : expr) : expr :=
  match k with
  | TopAtom => Num 0
  | TopExp => subs eta (Num 0) whole
  | TopMul => product_of (map (fun f => if mentions eta f then Num 1 else f) args)
  | TopAdd => sum_of (map (fun t => if mentions eta t then (if is_exp t then Num 0 else subs eta (Num 0) t) else t) args)
  | TopOther => (* generic branch: func is neither Mul nor Add: nothing is substituted *) whole
  end.

(* guard for "remove_iiv restores the expression the eta was added to", product case: the factors that
   mention the eta mention nothing else (they are exactly what add_iiv introduced) *)
Definition g_eta_factors_pure (eta : id) (args : list expr) : bool :=
  forallb (fun f => negb (mentions eta f) || forallb (Pos.eqb eta) (free_syms f)) args.

(* ==================================================================================================== *)
(* error models: the new Y expression and the guard statement                                           *)
(* ==================================================================================================== *)
(* _preparations: f = Y.expression.subs({eps: 0 for every epsilon}) *)
Definition zero_eps (epsilons : list id) (e : expr) : expr :=
  subs_map (map (fun s => (s, Num 0)) epsilons) e.

Definition y_expr (l : list stmt) (y : id) : option expr :=
  match find_assignment_index l y with
  | Some i => match nths l i with Assign _ e => Some e | _ => None end
  | None => None
  end.

Definition insert_at (i : nat) (st : stmt) (l : list stmt) : list stmt := firstn i l ++ st :: skipn i l.

(* `ipred in s.free_symbols` *)
Definition mentions_stmt (x : id) (s : stmt) : bool :=
  match s with Assign y e => Pos.eqb y x || memp x (free_syms e) | Ode _ r => memp x r end.

Definition set_additive (T : templates) (y eps_a : id) (epsilons : list id) (l : list stmt) : option (list stmt) :=
  match y_expr l y with
  | None => None
  | Some ye =>
      let f := zero_eps epsilons ye in
      Some (reassign l y (subs_map [(s_f, f); (s_eps_a, Sym eps_a)] (t_add_error T)))
  end.

Definition set_proportional (T : templates) (dt : dtrans) (zp : bool) (y eps_p ipredadj : id) (epsilons : list id)
           (l : list stmt) : option (list stmt) :=
  match y_expr l y with
  | None => None
  | Some ye =>
      let f := zero_eps epsilons ye in
      let err := subs_map [(s_eps_p, Sym eps_p); (s_ipredadj, Sym ipredadj); (s_f, f)] (t_prop_error T dt zp) in
      let l1 := reassign l y (subs s_x f err) in
      if zp then
        let g := Assign ipredadj (subs s_f f (t_prop_guard T)) in
        let ind := match find_first_from (mentions_stmt ipredadj) l1 0 with
                   | Some i => i | None => 0 end in
        Some (insert_at ind g l1)
      else Some l1
  end.

Definition set_combined (T : templates) (k : combkind) (y eps_p eps_a eta_ruv : id) (epsilons : list id)
           (l : list stmt) : option (list stmt) :=
  match y_expr l y with
  | None => None
  | Some ye =>
      let f := zero_eps epsilons ye in
      let err := subs_map [(s_eps_p, Sym eps_p); (s_eps_a, Sym eps_a); (s_eta_ruv, Sym eta_ruv)] (t_comb_error T k) in
      Some (reassign l y (subs s_x f err))
  end.

(* ---- formal derivative in one symbol, for expressions polynomial in it (None: the symbol occurs
   under a function, in a denominator, a condition or a piecewise) -------------------------------- *)
Fixpoint deriv (x : id) (e : expr) : option expr :=
  match e with
  | Num _ => Some (Num 0)
  | Sym s => Some (if Pos.eqb s x then Num 1 else Num 0)
  | Add a b => match deriv x a, deriv x b with Some a', Some b' => Some (Add a' b') | _, _ => None end
  | Mul a b => match deriv x a, deriv x b with
               | Some a', Some b' => Some (Add (Mul a' b) (Mul a b')) | _, _ => None end
  | Neg a => option_map Neg (deriv x a)
  | Div a b => if memp x (free_syms b) then None else option_map (fun a' => Div a' b) (deriv x a)
  | Fn1 _ a => if memp x (free_syms a) then None else Some (Num 0)
  | Fn2 _ a b => if memp x (free_syms a) || memp x (free_syms b) then None else Some (Num 0)
  | PwNil => None
  | PwCons _ _ _ => None
  end.

(* ==================================================================================================== *)
(* Statements.subs({symbol: expression}) on assignments (the compartmental system is left alone: the    *)
(* theorems require that the substituted symbol is not among its rhs symbols)                           *)
(* ==================================================================================================== *)
Definition subs_stmt_sym (s : id) (t : expr) (st : stmt) : stmt :=
  match st with Assign x e => Assign x (subs s t e) | Ode a r => Ode a r end.
Definition subs_stmts_sym (s : id) (t : expr) (l : list stmt) : list stmt := map (subs_stmt_sym s t) l.

(* set_iiv_on_ruv (dv = None): every statement: eps := eps * exp(eta), for each (epsilon, eta) *)
Definition iiv_on_ruv_expr (T : templates) (eps eta : id) : expr :=
  subs_map [(s_eps, Sym eps); (s_eta, Sym eta)] (t_iiv_on_ruv T).
Definition set_iiv_on_ruv (T : templates) (pairs : list (id * id)) (l : list stmt) : list stmt :=
  fold_left (fun acc p => subs_stmts_sym (fst p) (iiv_on_ruv_expr T (fst p) (snd p)) acc) pairs l.

(* ==================================================================================================== *)
(* add_allometry: for each (parameter, exponent) in turn, P = P * (X / Z) ** T after P's last assignment  *)
(* ==================================================================================================== *)
Definition allometry_stmt (T : templates) (p th var : id) (ref : Q) : stmt :=
  Assign p (subs_map [(s_p, Sym p); (s_var, Sym var); (s_ref, Num ref); (s_allo, Sym th)] (t_allometry T)).

Definition add_allometry1 (T : templates) (var : id) (ref : Q) (l : list stmt) (pt : id * id) : list stmt :=
  match find_assignment_index l (fst pt) with
  | Some i => firstn (S i) l ++ allometry_stmt T (fst pt) (snd pt) var ref :: skipn (S i) l
  | None => l     (* sset.find_assignment_index(p) is None: the slice arithmetic of the code raises; never reached
                     for parameters found by find_clearance/volume_parameters *)
  end.
Definition add_allometry (T : templates) (var : id) (ref : Q) (params : list (id * id)) (l : list stmt) : list stmt :=
  fold_left (add_allometry1 T var ref) params l.

(* ==================================================================================================== *)
(* add_iov (_add_iov_declare_etas): IOV_i = 0; IOV_i = Piecewise((eta_i_k, Eq(level_k, OCC))...);      *)
(* ETAI_i = ETA_i + IOV_i; every statement: ETA_i := ETAI_i.   Result: iovs + etais + sset.             *)
(* remove_iov: every statement: iov eta := 0.                                                           *)
(* ==================================================================================================== *)
Record iov_item := { ie_eta : id; ie_iov : id; ie_etai : id; ie_levels : list (Q * id) }.

Definition iov_piecewise (occ : id) (levels : list (Q * id)) : expr :=
  piecewise_of (map (fun lv : Q * id => (Sym (snd lv), CRel OEq (Num (fst lv)) (Sym occ))) levels).
Definition iov_decls (occ : id) (items : list iov_item) : list stmt :=
  flat_map (fun it => [Assign (ie_iov it) (Num 0); Assign (ie_iov it) (iov_piecewise occ (ie_levels it))]) items.
Definition etai_decls (items : list iov_item) : list stmt :=
  map (fun it => Assign (ie_etai it) (Add (Sym (ie_eta it)) (Sym (ie_iov it)))) items.
Definition add_iov (occ : id) (items : list iov_item) (l : list stmt) : list stmt :=
  iov_decls occ items ++ etai_decls items ++
  fold_left (fun acc it => subs_stmts_sym (ie_eta it) (Sym (ie_etai it)) acc) items l.
Definition remove_iov (iov_etas : list id) (l : list stmt) : list stmt :=
  fold_left (fun acc e => subs_stmts_sym e (Num 0) acc) iov_etas l.

(* the distributions add_iov declares (_add_iov_etas_disjoint / _add_iov_etas_joint): for a group of eta positions
   [indices] and K occasion levels; ename i k = eta_name(i, k), oname i j = omega_iov_name(i, j).
   One eta: K independent normals sharing the variance oname i i.  Several: for every level one joint normal over the
   group's etas of that level, all K with the SAME covariance matrix [oname (min i j) (max i j)]. *)
Record rvdist := { rd_names : list id; rd_sigma : list (list id) }.
Definition iov_dists_group (ename oname : nat -> nat -> id) (indices : list nat) (K : nat) : list rvdist :=
  match indices with
  | [i] => map (fun k => {| rd_names := [ename i k]; rd_sigma := [[oname i i]] |}) (seq 1 K)
  | _ => map (fun k => {| rd_names := map (fun i => ename i k) indices;
                          rd_sigma := map (fun j => map (fun i => oname (Nat.min i j) (Nat.max i j)) indices) indices |})
             (seq 1 K)
  end.
Definition iov_dists (ename oname : nat -> nat -> id) (groups : list (list nat)) (K : nat) : list rvdist :=
  flat_map (fun g => iov_dists_group ename oname g K) groups.

(* the IOV eta of the row's occasion *)
Definition iov_value (r : env) (occ : id) (levels : list (Q * id)) : option Q :=
  match r occ with
  | Some o => match find (fun lv : Q * id => Qeq_bool (fst lv) o) levels with
              | Some lv => r (snd lv)
              | None => None
              end
  | None => None
  end.

(* ==================================================================================================== *)
(* transform_blq, methods M3 / M4 (_m3_m4_method): statements placed where Y was                          *)
(*   SD (computed by sympy: given), [LLOQ = value], F_FLAG = {0 above, 1 otherwise},                      *)
(*   M3: Y = {y above; PHI((LLOQ - ipred)/SD) otherwise}                                                  *)
(*   M4: CUMD = PHI((LLOQ - ipred)/SD); CUMDZ = PHI(-ipred/SD); Y = {y above; (CUMD-CUMDZ)/(1-CUMDZ)}     *)
(* ==================================================================================================== *)
Definition F_PHI : id := 16%positive.   (* normal cdf; exported through the unused slot of Base/Interp (gamma) *)
Record blq_args := {
  b_y : id; b_sd_stmt : stmt; b_sd : id; b_lloq_stmt : option stmt; b_level : expr;
  b_above : cond;                        (* DV >= LLOQ  |  BLQ = 0 *)
  b_fflag : id; b_cumd : id; b_cumdz : id; b_epsilons : list id; b_m4 : bool
}.
Definition blq_new_stmts (a : blq_args) (yexpr : expr) : list stmt :=
  let ipred := zero_eps (b_epsilons a) yexpr in
  let cumd := Fn1 F_PHI (Div (Add (b_level a) (Neg ipred)) (Sym (b_sd a))) in
  [b_sd_stmt a] ++ (match b_lloq_stmt a with Some s => [s] | None => [] end) ++
  [Assign (b_fflag a) (PwCons (b_above a) (Num 0) (PwCons CTrue (Num 1) PwNil))] ++
  (if b_m4 a
   then [Assign (b_cumd a) cumd;
         Assign (b_cumdz a) (Fn1 F_PHI (Div (Neg ipred) (Sym (b_sd a))));
         Assign (b_y a) (PwCons (b_above a) yexpr
                          (PwCons CTrue (Div (Add (Sym (b_cumd a)) (Neg (Sym (b_cumdz a))))
                                             (Add (Num 1) (Neg (Sym (b_cumdz a))))) PwNil))]
   else [Assign (b_y a) (PwCons (b_above a) yexpr (PwCons CTrue cumd PwNil))]).
Definition transform_blq (a : blq_args) (l : list stmt) : option (list stmt) :=
  match find_assignment_index l (b_y a) with
  | Some i => match nths l i with
              | Assign _ yexpr => Some (firstn i l ++ blq_new_stmts a yexpr ++ skipn (S i) l)
              | _ => None
              end
  | None => None
  end.
Definition blq_fresh (a : blq_args) : list id :=
  b_fflag a :: b_cumd a :: b_cumdz a :: defs (b_sd_stmt a) ++ (match b_lloq_stmt a with Some s => defs s | None => [] end).

(* ==================================================================================================== *)
(* _update_numerators: numerators of the transit rates (each rate given as numerator / denominator,      *)
(* `as_numer_denom` being sympy's; a symbolic numerator is looked up among the assignments)              *)
(* ==================================================================================================== *)
Inductive numer := NInt (z : Q) | NSym (s : id) | NOther.
Record trate := { tr_numer : numer; tr_denom : expr }.
(* statements that define rate symbols: symbol -> (numerator, denominator) of its expression *)
Definition rate_defs := list (id * (numer * expr)).
Fixpoint lookup_rate (d : rate_defs) (s : id) : option (numer * expr) :=
  match d with [] => None | (k, v) :: tl => if Pos.eqb k s then Some v else lookup_rate tl s end.
Definition set_rate (d : rate_defs) (s : id) (v : numer * expr) : rate_defs :=
  map (fun kv => if Pos.eqb (fst kv) s then (fst kv, v) else kv) d.

(* (the code skips the rewrite when the numerator already is the new one: the same result) *)
Definition update_direct (newn : Q) (rt : trate) : trate :=
  match tr_numer rt with NInt _ => {| tr_numer := NInt newn; tr_denom := tr_denom rt |} | _ => rt end.
Definition update_defs (newn : Q) (rates : list trate) (d : rate_defs) : rate_defs :=
  fold_left (fun dd rt =>
    match tr_numer rt with
    | NSym s => match lookup_rate dd s with
                | Some (NInt _, den) => set_rate dd s (NInt newn, den)
                | _ => dd
                end
    | _ => dd
    end) rates d.
Definition update_numerators (n : nat) (rates : list trate) (d : rate_defs) : list trate * rate_defs :=
  let newn := inject_Z (Z.of_nat n) in
  (map (update_direct newn) rates, update_defs newn rates d).

(* the rate expression a transit compartment ends up with *)
Definition rate_value (d : rate_defs) (rt : trate) : option (numer * expr) :=
  match tr_numer rt with
  | NSym s => lookup_rate d s
  | nm => Some (nm, tr_denom rt)
  end.
(* the detector find_transit_compartments reports nothing for a lone transit compartment; _update_numerators
   loops over the DETECTED compartments only *)
Definition detected_transits (chain : nat) : nat := if Nat.eqb chain 1 then 0 else chain.
Definition rates_after_update (rates : list trate) (d : rate_defs) : list trate * rate_defs :=
  let k := detected_transits (length rates) in
  if Nat.eqb k 0 then (rates, d) else update_numerators k rates d.

(* ==================================================================================================== *)
(* statistics: median of the per-individual medians (pandas groupby('ID')[cov].median().median())       *)
(* ==================================================================================================== *)
Fixpoint qinsert (x : Q) (l : list Q) : list Q :=
  match l with
  | [] => [x]
  | y :: tl => if Qle_bool x y then x :: l else y :: qinsert x tl
  end.
Definition qsort (l : list Q) : list Q := fold_right qinsert [] l.
Definition qmedian (l : list Q) : option Q :=
  let s := qsort l in
  let n := length s in
  match n with
  | 0 => None
  | _ => if Nat.even n
         then Some (Qred ((nth (n / 2 - 1) s 0%Q + nth (n / 2) s 0%Q) / 2))
         else Some (Qred (nth (n / 2) s 0%Q))
  end.
Fixpoint omap {A B} (f : A -> option B) (l : list A) : option (list B) :=
  match l with
  | [] => Some []
  | x :: tl => match f x, omap f tl with Some y, Some r => Some (y :: r) | _, _ => None end
  end.
Definition median_of_medians (groups : list (list Q)) : option Q :=
  match omap qmedian groups with Some ms => qmedian ms | None => None end.
Definition qmean (l : list Q) : option Q :=
  match l with [] => None | _ => Some (Qred (fold_right Qplus 0%Q l / inject_Z (Z.of_nat (length l)))) end.
Definition mean_of_means (groups : list (list Q)) : option Q :=
  match omap qmean groups with Some ms => qmean ms | None => None end.
